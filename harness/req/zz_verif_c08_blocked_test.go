//go:build verif

package req

import (
	"bufio"
	"context"
	"crypto/tls"
	"errors"
	"fmt"
	"io"
	"net"
	"net/http"
	"net/http/httptest"
	"os"
	"sort"
	"strings"
	"sync"
	"sync/atomic"
	"testing"
	"time"

	"github.com/imroc/req/v3/internal/testcert"
	"github.com/imroc/req/v3/internal/verifh"
	"github.com/quic-go/quic-go"
	h3ref "github.com/quic-go/quic-go/http3"
)

// =========================================================================================
// C08 "blocked write" lanes (round 5): the waiting point the script lanes cannot produce — the
// upload is parked INSIDE the transport's write because the peer does not read (TCP send buffer
// full / HTTP/2 flow-control window used up / QUIC stream credit used up). Dimensions:
//   protocol {h1, h2, h3} x response {none yet: the caller is inside the call | early 200: the
//   caller holds the response and a Body.Read is pending | early 200 with req's auto-read: the call
//   itself is the pending read} x kind {context cancel, event-driven deadline, Client.SetTimeout}.
// Judged: error identity of the call / the pending read, promptness, Close on the request body
// (exactly once), no further reads of the source, what the PEER saw of the stream (send side reset,
// receive side stopped), a census of parked goroutines by the library function they are parked in
// — taken with the connection still open —, the follow-up request. On HTTP/3 the whole outcome is
// compared with the lifecycle model's set of outcomes (driver lane c08h3life).
// =========================================================================================

type c08BlockedPeer struct {
	url     string
	plain   string
	release chan struct{}
	once    sync.Once
	closeFn func()

	mu       sync.Mutex
	sendRst  int // the peer's read of the request body failed with a stream reset (h2/h3) / conn error (h1)
	sendEOF  int // ... ended cleanly
	recvStop int // the peer saw its response side stopped / the request context end
	entered  chan struct{}
}

func (p *c08BlockedPeer) open() { p.once.Do(func() { close(p.release) }) }

// handler for h2 / h3: answer at once (early) or not at all, never read the body until released;
// then read it once to learn what became of the client's send side.
func (p *c08BlockedPeer) handle(early bool) http.HandlerFunc {
	return func(w http.ResponseWriter, r *http.Request) {
		if strings.HasPrefix(r.URL.Path, "/plain") {
			io.WriteString(w, "ok")
			return
		}
		if early {
			w.Header().Set("Content-Length", "1000000")
			w.WriteHeader(200)
			w.(http.Flusher).Flush()
		}
		select {
		case p.entered <- struct{}{}:
		default:
		}
		<-p.release
		stopped := false
		select {
		case <-r.Context().Done():
			stopped = true
		case <-time.After(300 * time.Millisecond):
		}
		_, err := io.Copy(io.Discard, io.LimitReader(r.Body, 64<<20))
		p.mu.Lock()
		if err != nil {
			p.sendRst++
		} else {
			p.sendEOF++
		}
		if stopped {
			p.recvStop++
		}
		p.mu.Unlock()
		panic(http.ErrAbortHandler)
	}
}

func newC08BlockedPeer(proto string, early bool) (*c08BlockedPeer, error) {
	p := &c08BlockedPeer{release: make(chan struct{}), entered: make(chan struct{}, 4)}
	switch proto {
	case "h1":
		ln, err := net.Listen("tcp", "127.0.0.1:0")
		if err != nil {
			return nil, err
		}
		var conns []net.Conn
		var cmu sync.Mutex
		go func() {
			for {
				c, err := ln.Accept()
				if err != nil {
					return
				}
				if tc, ok := c.(*net.TCPConn); ok {
					tc.SetReadBuffer(16 << 10)
				}
				cmu.Lock()
				conns = append(conns, c)
				cmu.Unlock()
				go func(c net.Conn) {
					defer c.Close()
					br := bufio.NewReaderSize(c, 512)
					for {
						line, err := br.ReadString('\n')
						if err != nil {
							return
						}
						for {
							h, err := br.ReadString('\n')
							if err != nil {
								return
							}
							if strings.TrimRight(h, "\r\n") == "" {
								break
							}
						}
						if strings.Contains(line, "/plain") {
							if _, err := io.WriteString(c, "HTTP/1.1 200 OK\r\nContent-Length: 2\r\n\r\nok"); err != nil {
								return
							}
							continue
						}
						if early {
							io.WriteString(c, "HTTP/1.1 200 OK\r\nContent-Length: 1000000\r\n\r\n")
						}
						select {
						case p.entered <- struct{}{}:
						default:
						}
						<-p.release
						var nn int64
						nn, err = io.Copy(io.Discard, br)
						if os.Getenv("C08_DEBUG") != "" {
							fmt.Fprintf(os.Stderr, "h1 peer: drained %d err=%v\n", nn, err)
						}
						p.mu.Lock()
						// (a closed TCP connection ends the peer's read: that is all h1 can show)
						p.sendRst++
						p.recvStop++
						p.mu.Unlock()
						return
					}
				}(c)
			}
		}()
		p.url = "http://" + ln.Addr().String() + "/blocked"
		p.plain = "http://" + ln.Addr().String() + "/plain"
		p.closeFn = func() {
			ln.Close()
			cmu.Lock()
			for _, c := range conns {
				c.Close()
			}
			cmu.Unlock()
		}
	case "h2":
		srv := httptest.NewUnstartedServer(p.handle(early))
		srv.EnableHTTP2 = true
		srv.Config.ErrorLog = nil
		srv.StartTLS()
		p.url, p.plain = srv.URL+"/blocked", srv.URL+"/plain"
		p.closeFn = func() { srv.CloseClientConnections(); srv.Close() }
	case "h3":
		cert, err := tls.X509KeyPair(testcert.LocalhostCert, testcert.LocalhostKey)
		if err != nil {
			return nil, err
		}
		udp, err := net.ListenUDP("udp", &net.UDPAddr{IP: net.IPv4(127, 0, 0, 1)})
		if err != nil {
			return nil, err
		}
		srv := &h3ref.Server{
			Handler:    p.handle(early),
			TLSConfig:  h3ref.ConfigureTLSConfig(&tls.Config{Certificates: []tls.Certificate{cert}}),
			QUICConfig: &quic.Config{MaxIdleTimeout: 30 * time.Second},
		}
		go srv.Serve(udp)
		p.url, p.plain = "https://"+udp.LocalAddr().String()+"/blocked", "https://"+udp.LocalAddr().String()+"/plain"
		p.closeFn = func() { srv.Close(); udp.Close() }
	}
	return p, nil
}

// c08ParkedSigs: request-level library goroutines by the library function they are parked in (the
// innermost imroc/req frame of the stack). Goroutines that belong to a connection as a whole (HTTP/2
// read loop, HTTP/3 control / unidirectional streams, HTTP/1.1 loops of an idle connection) are left out.
func c08ParkedSigs() map[string]int {
	out := map[string]int{}
	for _, g := range c08Census() {
		if c08H3ConnLevel(g) || strings.Contains(g, "(*ClientConn).readLoop") || strings.Contains(g, "clientConnReadLoop") {
			continue
		}
		sig := ""
		for _, ln := range strings.Split(g, "\n") {
			if strings.HasPrefix(ln, "github.com/imroc/req/v3") {
				sig = strings.TrimPrefix(strings.SplitN(ln, "(0x", 2)[0], "github.com/imroc/req/v3")
				if i := strings.LastIndex(sig, "("); i > 0 && strings.HasSuffix(sig, ")") && !strings.Contains(sig[i:], "*") {
					sig = sig[:i]
				}
				break
			}
		}
		if sig != "" {
			out[sig]++
		}
	}
	return out
}

func c08ParkedAbove(base map[string]int, bound time.Duration) []string {
	deadline := time.Now().Add(bound)
	for {
		var left []string
		for sig, n := range c08ParkedSigs() {
			if n > base[sig] {
				left = append(left, fmt.Sprintf("%s x%d", sig, n-base[sig]))
			}
		}
		if len(left) == 0 || time.Now().After(deadline) {
			sort.Strings(left)
			return left
		}
		time.Sleep(10 * time.Millisecond)
	}
}

type c08BlockedObs struct {
	wedged    []string // calls made by the lane that never returned (per-call watchdog)
	reached   bool
	stalledAt int64
	res       string // class of what the pending operation returned
	pending   bool
	elapsed   time.Duration
	closes    int
	readsAft  int64
	parked    []string
	follow    error
	sendRst   bool
	recvStop  bool
	leak      []string
	note      string
}

func c08BlockedExec(proto, shape, kind string) (o c08BlockedObs) {
	early := shape != "inflight"
	auto := shape == "early-autoread"
	baseSigs := c08ParkedSigs()
	base := len(c08Census())
	p, err := newC08BlockedPeer(proto, early)
	if err != nil {
		o.note = "peer: " + err.Error()
		return
	}
	defer p.closeFn()
	defer p.open()

	c := C().EnableInsecureSkipVerify()
	if !auto {
		c.DisableAutoReadResponse()
	}
	if proto == "h3" {
		c.EnableForceHTTP3()
		if c.GetTransport().t3 == nil {
			o.note = "HTTP/3 not available"
			return
		}
		defer c.GetTransport().t3.Close()
	}
	// warm-up: the connection exists (HTTP/3: handshake done) before the clock of a client timeout runs
	if resp, err := c.R().Get(p.plain); err != nil {
		o.note = "warm-up: " + err.Error()
		return
	} else {
		io.Copy(io.Discard, resp.Body)
		resp.Body.Close()
	}
	var ctx context.Context
	var inject func()
	clientTimeout := 1500 * time.Millisecond
	switch kind {
	case "canceled":
		cctx, cancel := context.WithCancel(context.Background())
		ctx, inject = cctx, cancel
	case "deadline":
		d := newC08DeadlineCtx()
		child, stop := context.WithCancel(d)
		defer stop()
		ctx, inject = child, func() { d.expire(); <-child.Done() }
	default:
		ctx = context.Background()
		c.SetTimeout(clientTimeout)
	}
	body := &c08Flood{}
	started := time.Now()
	done := make(chan error, 1) // result of the pending operation
	var respBody io.ReadCloser
	var rmu sync.Mutex
	go func() {
		resp, err := c.R().SetContext(ctx).SetBody(GetContentFunc(func() (io.ReadCloser, error) { return body, nil })).Post(p.url)
		if err != nil || !early || auto {
			if err == nil {
				err = errors.New("c08: the call came back without an error")
			}
			done <- err
			return
		}
		rmu.Lock()
		respBody = resp.Body
		rmu.Unlock()
		_, err = resp.Body.Read(make([]byte, 16))
		if err == nil {
			err = errors.New("c08: the body read came back without an error")
		}
		done <- err
	}()
	select {
	case <-p.entered:
	case err := <-done:
		o.note = fmt.Sprintf("the exchange ended before the peer had the request: %v", err)
		return
	case <-time.After(c08HardLimit):
		o.note = "the request never reached the peer"
		return
	}
	// the upload is parked in the transport's write once the source is not asked for data any more
	last, stable := int64(-1), 0
	limit := 4 * time.Second
	if inject == nil {
		limit = clientTimeout - 300*time.Millisecond
	}
	for stable < 10 && time.Since(started) < limit {
		time.Sleep(20 * time.Millisecond)
		n := atomic.LoadInt64(&body.reads)
		if n == last && n > 0 {
			stable++
		} else {
			stable = 0
		}
		last = n
	}
	select {
	case err := <-done:
		o.note = fmt.Sprintf("the pending operation ended before the injection: %v", err)
		return
	default:
	}
	if stable < 10 {
		o.note = "stall not reached"
		return
	}
	o.reached, o.stalledAt = true, last
	var firedAt time.Time
	if inject != nil {
		firedAt = time.Now()
		inject()
	} else {
		firedAt = started.Add(clientTimeout)
	}
	wait := c08Bound + 500*time.Millisecond
	if inject == nil {
		wait += clientTimeout
	}
	var rerr error
	select {
	case rerr = <-done:
		o.elapsed = time.Since(firedAt)
	case <-time.After(wait):
		o.pending = true
		o.elapsed = time.Since(firedAt)
	}
	o.res = c08Class(rerr)
	readsAtReturn := atomic.LoadInt64(&body.reads)
	// the request body: closed, and the source left alone
	c08WaitFor(c08Bound, func() bool { return atomic.LoadInt32(&body.closes) > 0 })
	time.Sleep(30 * time.Millisecond)
	o.closes = int(atomic.LoadInt32(&body.closes))
	o.readsAft = atomic.LoadInt64(&body.reads) - readsAtReturn
	// who is still parked on behalf of the request — connection still open, peer still silent
	if !o.pending {
		o.parked = c08ParkedAbove(baseSigs, c08Bound)
	}
	// what the peer sees of the stream now
	p.open()
	if proto != "h1" {
		c08WaitFor(c08Bound+time.Second, func() bool {
			p.mu.Lock()
			defer p.mu.Unlock()
			return p.sendRst+p.sendEOF > 0
		})
	}
	p.mu.Lock()
	o.sendRst, o.recvStop = p.sendRst > 0, p.recvStop > 0
	p.mu.Unlock()
	// wind down whatever is still pending
	rmu.Lock()
	rb := respBody
	rmu.Unlock()
	if rb != nil {
		// (per-call watchdog: Close after a failed Read has to return)
		if w := c08Watch("Response.Body.Close() after the cancelled read", func() { rb.Close() }); w != "" {
			o.wedged = append(o.wedged, w)
			return
		}
	}
	if o.pending {
		select {
		case <-done:
		case <-time.After(c08Bound):
		}
	}
	// the client is still usable
	var ferr error
	if w := c08Watch("follow-up request", func() {
		var fresp *Response
		fresp, ferr = c.R().Get(p.plain)
		if ferr == nil {
			var b []byte
			b, ferr = io.ReadAll(fresp.Body)
			fresp.Body.Close()
			if ferr == nil && string(b) != "ok" {
				ferr = fmt.Errorf("follow-up body %q", b)
			}
		}
	}); w != "" {
		o.wedged = append(o.wedged, w)
		return
	}
	o.follow = ferr
	c.GetTransport().CloseIdleConnections()
	if proto == "h3" {
		c.GetTransport().t3.Close()
		p.closeFn()
	}
	if l := c08Settle(base, c08Bound+time.Second); len(l) > 0 {
		if l = c08Settle(base, 2*c08Bound); len(l) > 0 {
			o.leak = l
		}
	}
	return
}

func c08BlockedLane(t *testing.T, proto string) {
	c08Mu.Lock()
	defer c08Mu.Unlock()
	lane := "blocked_" + proto
	s := verifh.New(t, "C08", lane,
		"the upload is parked inside the transport's write because the peer does not read (endless request body; the source has not been asked for data for 200 ms) on "+proto+"; response {none yet = the caller is inside the call | early 200 = RoundTrip has returned, a Body.Read is pending | early 200 + req's auto-read = the call itself is the pending read} x {context cancel, event-driven deadline, Client.SetTimeout}; observed: error class of the call / the pending read, time to return (bound 2 s), Close calls on the request body, reads of the source afterwards, goroutines parked on behalf of the request by the library function they are parked in (census with the connection still open), what the peer sees of the stream afterwards (its read of the request body fails = our send side was reset; its request context ended = our receive side was stopped), follow-up request; independent oracle on every protocol, on HTTP/3 also compared with the lifecycle model's set of outcomes (c08h3life); non-trivial = the parked state was reached")
	cnt := map[string]int{}
	count := func(k string) { cnt[k]++; s.Count(k) }
	type tc struct{ shape, kind string }
	cases := []tc{{"inflight", "canceled"}, {"inflight", "deadline"}, {"early", "canceled"}, {"early", "client-timeout"}, {"early-autoread", "canceled"}}
	if verifh.Thorough() {
		cases = nil
		for _, sh := range []string{"inflight", "early", "early-autoread"} {
			for _, k := range []string{"canceled", "deadline", "client-timeout"} {
				cases = append(cases, tc{sh, k})
			}
		}
	}
	rounds := verifh.N(1, 2)
	for round := 0; round < rounds; round++ {
		for _, c := range cases {
			id := fmt.Sprintf("%s/blocked/%s/%s/%d", proto, c.shape, c.kind, round)
			o := c08BlockedExec(proto, c.shape, c.kind)
			if !o.reached {
				// once more before giving up on the case (a loaded machine)
				count("not-reached-run-again")
				o = c08BlockedExec(proto, c.shape, c.kind)
			}
			if !o.reached {
				count("not-reached:" + o.note)
				continue
			}
			if (o.pending || o.elapsed > c08Bound) && cnt["slow:"+id] == 0 {
				// a late return has to show twice
				count("slow:" + id)
				if o2 := c08BlockedExec(proto, c.shape, c.kind); o2.reached && !(o2.pending || o2.elapsed > c08Bound) {
					o = o2
				}
			}
			count("reached")
			count("shape=" + c.shape)
			count("kind=" + c.kind)
			want := c.kind
			if c.kind == "client-timeout" {
				want = "deadline"
			}
			var failed []string
			switch {
			case o.pending:
				failed = append(failed, fmt.Sprintf("still-pending(%v)", o.elapsed.Round(time.Millisecond)))
			case o.res == want:
			case proto == "h3" && c.shape != "inflight" && o.res == "h3cancel":
				// a pending HTTP/3 body read reports the local stream cancellation
			default:
				failed = append(failed, "error-class="+o.res)
			}
			if !o.pending && o.elapsed > c08Bound {
				failed = append(failed, fmt.Sprintf("not-prompt(%v)", o.elapsed.Round(time.Millisecond)))
			}
			if o.closes != 1 {
				failed = append(failed, fmt.Sprintf("request-body-closes=%d", o.closes))
			}
			if o.readsAft > 2 {
				failed = append(failed, fmt.Sprintf("upload-went-on(%d reads)", o.readsAft))
			}
			if len(o.parked) > 0 {
				failed = append(failed, "parked:"+strings.Join(o.parked, ","))
			}
			if !o.sendRst && proto != "h1" {
				// (on HTTP/1.1 the peer learns of the closed connection only after draining what TCP had
				// buffered: not a clause of the property; the census shows the connection's loops gone)
				failed = append(failed, "send-side-not-reset")
			}
			if !o.recvStop && proto != "h1" {
				failed = append(failed, "receive-side-not-stopped")
			}
			for _, w := range o.wedged {
				failed = append(failed, "WEDGED: "+w)
			}
			if o.follow != nil {
				failed = append(failed, "follow-up-failed:"+c08Class(o.follow))
			}
			if len(o.leak) > 0 {
				failed = append(failed, "goroutines-left:"+c08TopFrames(o.leak))
			}
			count("res=" + o.res)
			human := fmt.Sprintf("%s upload parked in the write after %d reads (peer not reading), %s, %s -> %s after %v, body closes=%d, reads after=%d, peer: sendReset=%v recvStopped=%v",
				proto, o.stalledAt, c.shape, c.kind, o.res, o.elapsed.Round(time.Millisecond), o.closes, o.readsAft, o.sendRst, o.recvStop)
			if len(failed) > 0 {
				human += " FAILED: " + strings.Join(failed, ", ")
			}
			if proto != "h3" {
				s.Observe(id, len(failed) == 0, "", true, human, strings.Join(failed, ", "))
				continue
			}
			// HTTP/3: the lifecycle model's view of the same case
			trace := "ev:hsDone,ev:streamOpen,act:cSendHdr,act:uRead"
			ret, read := o.res, "-"
			if o.pending {
				ret = "hung"
			}
			if c.shape != "inflight" {
				trace += ",ev:peerHeaders,act:cRespOk"
				ret, read = "resp", o.res
				if o.pending {
					read = "-"
				} else if read == want {
					read = "h3cancel" // (net/http's cancelTimerBody / req's auto-read may relabel it: same meaning)
				}
			}
			upl := "gone"
			for _, sg := range o.parked {
				if strings.Contains(sg, "http3") {
					upl = "parked"
				}
			}
			if o.closes == 0 && upl == "gone" && o.readsAft == 0 {
				upl = "parked" // never closed and never asked again: still inside the write
			}
			rst := "0"
			if o.sendRst {
				rst = "1"
			}
			stop := "0"
			if o.recvStop {
				stop = "1"
			}
			impl := fmt.Sprintf("ret=%s;read=%s;closes=%d;upl=%s;rst=%s;stop=%s", ret, read, o.closes, upl, rst, stop)
			mk := want
			s.Case(fmt.Sprintf("c08h3life 1 %s %s %s", trace, mk, impl), impl, len(failed) == 0, "", true, human)
		}
	}
	for _, want := range []string{"reached", "shape=inflight", "shape=early", "shape=early-autoread", "kind=canceled", "kind=client-timeout"} {
		if cnt[want] == 0 {
			t.Errorf("lane %s: bucket %q not reached", lane, want)
		}
	}
	s.Finish()
}

func TestVerif_C08_blocked_h1(t *testing.T) { c08BlockedLane(t, "h1") }
func TestVerif_C08_blocked_h2(t *testing.T) { c08BlockedLane(t, "h2") }
func TestVerif_C08_blocked_h3(t *testing.T) { c08BlockedLane(t, "h3") }
