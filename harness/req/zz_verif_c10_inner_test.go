//go:build verif

package req

// C10 "inner": ONE attempt of Request.do may be SEVERAL exchanges on the wire — the transport
// replays the request transparently after a graceful HTTP/2 GOAWAY or a REFUSED_STREAM reset, after
// a kept-alive HTTP/1.1 connection was closed under an idempotent request, http.Client follows a
// 307/308 redirect with the body, the digest middleware answers a 401 challenge.  "Every attempt
// puts the same request on the wire — … complete body" must hold for every one of these
// exchanges.  The peers are hand-written (x/net/http2 Framer for h2c prior knowledge, raw TCP for
// HTTP/1.1) so that they can act at one exact point of an exchange: after the request headers,
// after about half the body, after the complete body.  What the peers saw, exchange by exchange,
// is compared with the Lean model `Req.Exchange` (`c10inner`) and judged by an oracle written
// without the model.

import (
	"bufio"
	"bytes"
	"fmt"
	"io"
	"net"
	"net/http"
	"strconv"
	"strings"
	"sync"
	"testing"
	"time"

	"github.com/imroc/req/v3/internal/verifh"
	"golang.org/x/net/http2"
	"golang.org/x/net/http2/hpack"
)

type c10Exch struct {
	conn     int
	first    bool // first request on its connection
	method   string
	path     string
	ra       string // X-Ra: Request.RetryAttempt of the attempt this exchange belongs to
	cl       string // declared content-length ("-" when absent)
	body     []byte
	complete bool // END_STREAM seen / the whole framed body was read
	act      string
	auth     bool
	names    []string // header names in wire order (lower case; without authorization / x-ra / referer)
}

type c10Peer struct {
	mu     sync.Mutex
	ln     net.Listener
	h2     bool
	script []string
	expLen int
	n      int
	conns  []net.Conn
	seen   []*c10Exch
}

func newC10Peer(t *testing.T, h2 bool, script []string, expLen int) *c10Peer {
	ln, err := net.Listen("tcp", "127.0.0.1:0")
	if err != nil {
		t.Fatal(err)
	}
	p := &c10Peer{ln: ln, h2: h2, script: script, expLen: expLen}
	go func() {
		for n := 1; ; n++ {
			conn, err := ln.Accept()
			if err != nil {
				return
			}
			p.mu.Lock()
			p.conns = append(p.conns, conn)
			p.mu.Unlock()
			if h2 {
				go p.serveH2(conn, n)
			} else {
				go p.serveH1(conn, n)
			}
		}
	}()
	return p
}

func (p *c10Peer) close() {
	p.ln.Close()
	p.mu.Lock()
	defer p.mu.Unlock()
	for _, c := range p.conns {
		c.Close()
	}
}

// begin registers a new exchange and hands out the script's action for it.
func (p *c10Peer) begin(ex *c10Exch) (idx int) {
	p.mu.Lock()
	defer p.mu.Unlock()
	idx = p.n
	p.n++
	ex.act = "ok200"
	if idx < len(p.script) {
		ex.act = p.script[idx]
	}
	p.seen = append(p.seen, ex)
	return idx
}

func c10Cut(act string) byte {
	if len(act) == 4 && act[2] == '.' {
		return act[3]
	}
	return 'f'
}

func (p *c10Peer) serveH2(conn net.Conn, connNo int) {
	defer conn.Close()
	preface := make([]byte, len(http2.ClientPreface))
	if _, err := io.ReadFull(conn, preface); err != nil || string(preface) != http2.ClientPreface {
		return
	}
	fr := http2.NewFramer(conn, conn)
	fr.ReadMetaHeaders = hpack.NewDecoder(4096, nil)
	fr.WriteSettings()
	type stream struct {
		ex   *c10Exch
		idx  int
		done bool
	}
	streams := map[uint32]*stream{}
	onConn := 0
	respond := func(id uint32, status int, loc string) {
		var hb bytes.Buffer
		enc := hpack.NewEncoder(&hb)
		enc.WriteField(hpack.HeaderField{Name: ":status", Value: strconv.Itoa(status)})
		if loc != "" {
			enc.WriteField(hpack.HeaderField{Name: "location", Value: loc})
			enc.WriteField(hpack.HeaderField{Name: "content-length", Value: "0"})
			fr.WriteHeaders(http2.HeadersFrameParam{StreamID: id, BlockFragment: hb.Bytes(), EndHeaders: true, EndStream: true})
			return
		}
		enc.WriteField(hpack.HeaderField{Name: "content-length", Value: "2"})
		fr.WriteHeaders(http2.HeadersFrameParam{StreamID: id, BlockFragment: hb.Bytes(), EndHeaders: true})
		fr.WriteData(id, true, []byte("ok"))
	}
	perform := func(id uint32, st *stream) {
		st.done = true
		act := st.ex.act
		switch act[:2] {
		case "ok":
			code, _ := strconv.Atoi(act[2:])
			respond(id, code, "")
		case "rd":
			code, _ := strconv.Atoi(act[2:])
			respond(id, code, "/r"+strconv.Itoa(st.idx))
		case "ga": // graceful shutdown: "this stream was not processed, send it again elsewhere"
			last := uint32(0)
			if id >= 2 {
				last = id - 2
			}
			fr.WriteGoAway(last, http2.ErrCodeNo, []byte("c10"))
		case "rs":
			fr.WriteRSTStream(id, http2.ErrCodeRefusedStream)
		default:
			respond(id, 599, "")
		}
	}
	for {
		f, err := fr.ReadFrame()
		if err != nil {
			return
		}
		switch f := f.(type) {
		case *http2.SettingsFrame:
			if !f.IsAck() {
				fr.WriteSettingsAck()
			}
		case *http2.PingFrame:
			if !f.IsAck() {
				fr.WritePing(true, f.Data)
			}
		case *http2.MetaHeadersFrame:
			ex := &c10Exch{conn: connNo, first: onConn == 0, cl: "-", ra: "?"}
			onConn++
			for _, hf := range f.Fields {
				if !strings.HasPrefix(hf.Name, ":") && hf.Name != "authorization" && hf.Name != "x-ra" && hf.Name != "referer" {
					ex.names = append(ex.names, hf.Name)
				}
				switch hf.Name {
				case ":method":
					ex.method = hf.Value
				case ":path":
					ex.path = hf.Value
				case "content-length":
					ex.cl = hf.Value
				case "x-ra":
					ex.ra = hf.Value
				case "authorization":
					ex.auth = true
				}
			}
			st := &stream{ex: ex}
			st.idx = p.begin(ex)
			streams[f.StreamID] = st
			if f.StreamEnded() {
				ex.complete = true
				perform(f.StreamID, st)
			} else if c10Cut(ex.act) == 'h' {
				perform(f.StreamID, st)
			}
		case *http2.DataFrame:
			if n := len(f.Data()); n > 0 {
				fr.WriteWindowUpdate(0, uint32(n))
				if !f.StreamEnded() {
					fr.WriteWindowUpdate(f.StreamID, uint32(n))
				}
			}
			st := streams[f.StreamID]
			if st == nil || st.done {
				continue
			}
			p.mu.Lock()
			st.ex.body = append(st.ex.body, f.Data()...)
			got := len(st.ex.body)
			p.mu.Unlock()
			if f.StreamEnded() {
				st.ex.complete = true
				perform(f.StreamID, st)
			} else if c10Cut(st.ex.act) == 'p' && got*2 >= p.expLen {
				perform(f.StreamID, st)
			}
		}
	}
}

func (p *c10Peer) serveH1(conn net.Conn, connNo int) {
	defer conn.Close()
	var raw bytes.Buffer // everything read from the connection: the header order is only visible in the raw bytes
	br := bufio.NewReader(io.TeeReader(conn, &raw))
	for first := true; ; first = false {
		start := raw.Len() - br.Buffered()
		rq, err := http.ReadRequest(br)
		if err != nil {
			return
		}
		ex := &c10Exch{conn: connNo, first: first, method: rq.Method, path: rq.URL.Path, cl: "-", ra: rq.Header.Get("X-Ra"),
			auth: rq.Header.Get("Authorization") != ""}
		if head := raw.Bytes()[start:]; true {
			if i := bytes.Index(head, []byte("\r\n\r\n")); i >= 0 {
				for _, ln := range strings.Split(string(head[:i]), "\r\n")[1:] {
					n, _, _ := strings.Cut(ln, ":")
					if n = strings.ToLower(n); n != "authorization" && n != "x-ra" && n != "referer" { // referer: added by http.Client to a redirect's follow-up
						ex.names = append(ex.names, n)
					}
				}
			}
		}
		if v := rq.Header.Get("Content-Length"); v != "" {
			ex.cl = v
		}
		idx := p.begin(ex)
		act := ex.act
		switch c10Cut(act) {
		case 'h':
		case 'p':
			buf := make([]byte, (p.expLen+1)/2)
			n, _ := io.ReadFull(rq.Body, buf)
			p.mu.Lock()
			ex.body = buf[:n]
			p.mu.Unlock()
		default:
			b, err := io.ReadAll(rq.Body)
			p.mu.Lock()
			ex.body, ex.complete = b, err == nil
			p.mu.Unlock()
		}
		var out string
		switch act[:2] {
		case "cl": // hang up without an answer
			return
		case "ok":
			out = "HTTP/1.1 " + act[2:] + " X\r\nContent-Length: 2\r\n\r\nok"
		case "rd":
			out = "HTTP/1.1 " + act[2:] + " X\r\nLocation: /r" + strconv.Itoa(idx) + "\r\nContent-Length: 0\r\n\r\n"
		case "dg":
			out = "HTTP/1.1 401 X\r\nWWW-Authenticate: Digest realm=\"c10\", nonce=\"n" + strconv.Itoa(idx) + "\", qop=\"auth\", algorithm=MD5\r\nContent-Length: 0\r\n\r\n"
		default:
			out = "HTTP/1.1 599 X\r\nContent-Length: 0\r\n\r\n"
		}
		if _, err := io.WriteString(conn, out); err != nil {
			return
		}
	}
}

type c10InnerCase struct {
	h2     bool
	n      int    // retry count; -2: no retry option at all
	method string // POST PUT GET
	idem   bool   // Idempotency-Key header
	digest bool
	order  []string // SetHeaderOrder keys (nil: none)
	kind   string   // n(one) b(ytes) s(tring) u(ser GetBody func) m(arshal) f(orm) r(eader, unreplayable) c(ReadCloser, unreplayable)
	size   int
	script []string
}

func (tc *c10InnerCase) payload() string {
	return strings.Repeat("0123456789abcdef", (tc.size+15)/16)[:tc.size]
}

// expected is the complete body every exchange must carry ("" for none).  For the multipart kinds
// it is what an undisturbed single exchange of the same request carries (reference capture).
func (tc *c10InnerCase) expected(ref func(kind string, size int) string) string {
	switch tc.kind {
	case "n":
		return ""
	case "m":
		return `{"k":"` + tc.payload() + `"}`
	case "f":
		return "a=" + tc.payload() + "&b=2"
	case "x", "p":
		return ref(tc.kind, tc.size)
	}
	return tc.payload()
}

// c10InnerClient configures the client and the request of a case.
func c10InnerClient(tc *c10InnerCase) (*Client, *Request) {
	c := C().SetTimeout(15 * time.Second)
	if tc.h2 {
		c.EnableForceHTTP2().EnableH2C()
	}
	c.AllowGetMethodPayload = true
	c.SetMultipartBoundaryFunc(func() string { return "c10-boundary" })
	c.OnBeforeRequest(func(_ *Client, rq *Request) error {
		rq.SetHeader("X-Ra", strconv.Itoa(rq.RetryAttempt))
		return nil
	})
	if tc.digest {
		c.SetCommonDigestAuth("u", "p")
	}
	rq := c.R()
	if tc.n != -2 {
		rq.SetRetryCount(tc.n).SetRetryFixedInterval(time.Millisecond).
			AddRetryCondition(func(resp *Response, err error) bool {
				return err != nil || (resp.Response != nil && resp.StatusCode >= 500)
			})
	}
	if tc.idem {
		rq.SetHeader("Idempotency-Key", "k1")
	}
	if tc.order != nil {
		rq.SetHeader("X-A", "1").SetHeader("X-B", "2").SetHeader("X-C", "3").SetHeaderOrder(tc.order...)
	}
	pl := tc.payload()
	switch tc.kind {
	case "b":
		rq.SetBodyBytes([]byte(pl))
	case "s":
		rq.SetBodyString(pl)
	case "u":
		rq.SetBody(func() (io.ReadCloser, error) { return io.NopCloser(strings.NewReader(pl)), nil })
	case "m":
		rq.SetBody(map[string]string{"k": pl})
	case "f":
		rq.SetFormData(map[string]string{"a": pl, "b": "2"})
	case "r":
		rq.SetBody(strings.NewReader(pl))
	case "c":
		rq.SetBody(io.NopCloser(strings.NewReader(pl)))
	case "x": // multipart, buffered
		rq.SetFileBytes("f", "a.txt", []byte(pl))
	case "p": // multipart, streamed through an io.Pipe
		rq.SetFileBytes("f", "a.txt", []byte(pl)).EnableForceChunkedEncoding()
	}
	return c, rq
}

// TestVerif_C10_inner: see the file comment.
func TestVerif_C10_inner(t *testing.T) {
	s := verifh.New(t, "C10", "inner",
		"protocol {HTTP/2 prior knowledge over TCP via EnableForceHTTP2+EnableH2C, HTTP/1.1 keep-alive} x peer script per EXCHANGE over {answer 200/404/503, 307/308 redirect, GOAWAY(NO_ERROR, last-stream-id below the stream) / RST_STREAM(REFUSED_STREAM) after the headers | about half the body | the complete body (h2), connection closed without an answer after headers | half | complete body on a fresh or a REUSED connection (h1), 401 digest challenge (h1)} x retry count {none,0,1,2} with a condition retrying errors and 5xx x method {POST,PUT,GET} with/without Idempotency-Key x body {none, bytes, string, GetBody func, marshalled, form, io.Reader, io.ReadCloser} of 10 B / 3000 B / 40 KiB (several DATA frames); every exchange the peer saw (attempt number, method, body complete and equal to the request's body / cut short by the peer) and the final status are compared with the model; oracle: every exchange whose body the peer read to the end carries the COMPLETE body and a matching content-length, a cut exchange carries a prefix; non-trivial = an attempt of at least two exchanges")
	r := s.Rand()
	type rec struct {
		tc         *c10InnerCase
		args, impl string
		human      string
		ok         bool
		why        string
		nontriv    bool
	}
	var recs []rec
	refs := map[string]string{}
	ref := func(kind string, size int) string {
		key := kind + strconv.Itoa(size)
		if v, ok := refs[key]; ok {
			return v
		}
		tc := &c10InnerCase{h2: false, n: -2, method: "POST", kind: kind, size: size}
		peer := newC10Peer(t, false, nil, 0)
		defer peer.close()
		c, rq := c10InnerClient(tc)
		resp, err := rq.Send("POST", "http://"+peer.ln.Addr().String()+"/ref")
		c.GetTransport().CloseIdleConnections()
		peer.mu.Lock()
		defer peer.mu.Unlock()
		if err != nil || resp.StatusCode != 200 || len(peer.seen) != 1 || !peer.seen[0].complete || len(peer.seen[0].body) < size {
			t.Fatalf("c10 inner: reference capture for %s failed: %v", key, err)
		}
		refs[key] = string(peer.seen[0].body)
		return refs[key]
	}
	run := func(tc *c10InnerCase) {
		exp := tc.expected(ref)
		peer := newC10Peer(t, tc.h2, tc.script, len(exp))
		defer peer.close()
		c, rq := c10InnerClient(tc)
		var resp *Response
		_, panicked := verifh.Safely(func() {
			resp, _ = rq.Send(tc.method, "http://"+peer.ln.Addr().String()+"/p")
		})
		c.GetTransport().CloseIdleConnections()
		peer.mu.Lock()
		seen := append([]*c10Exch{}, peer.seen...)
		peer.mu.Unlock()
		ok, why := true, ""
		var toks, obs []string
		multi := false
		perRa := map[string]int{}
		for i, ex := range seen {
			cut := c10Cut(ex.act)
			isCut := (ex.act[:2] == "ga" || ex.act[:2] == "rs" || ex.act[:2] == "cl") && cut != 'f'
			state := ""
			switch {
			case isCut:
				state = "part"
				if !strings.HasPrefix(exp, string(ex.body)) {
					state = "BAD"
					ok, why = false, fmt.Sprintf("exchange %d (%s): the %d bytes the peer read are not a prefix of the body", i, ex.act, len(ex.body))
				}
			case !ex.complete:
				state = "BAD"
				ok, why = false, fmt.Sprintf("exchange %d (%s): body not delivered to its end (%d of %d bytes, content-length %s)", i, ex.act, len(ex.body), len(exp), ex.cl)
			case string(ex.body) != exp:
				state = "BAD"
				ok, why = false, fmt.Sprintf("exchange %d (%s, attempt %s, conn %d): carries %d body bytes (content-length %s), the request's body has %d", i, ex.act, ex.ra, ex.conn, len(ex.body), ex.cl, len(exp))
			case exp == "":
				state = "none"
			default:
				state = "full"
				if ex.cl != "-" && ex.cl != strconv.Itoa(len(exp)) {
					state = "BAD"
					ok, why = false, fmt.Sprintf("exchange %d: content-length %s for a body of %d bytes", i, ex.cl, len(exp))
				}
			}
			if isCut && exp == "" {
				state = "none"
			}
			a := ""
			if ex.auth {
				a = "+auth"
			}
			toks = append(toks, "E"+ex.ra+":"+ex.method+":"+state+a)
			reused := "0"
			if !ex.first {
				reused = "1"
			}
			obs = append(obs, reused)
			perRa[ex.ra]++
			if perRa[ex.ra] >= 2 {
				multi = true
			}
		}
		// in EVERY exchange the header lines named in SetHeaderOrder go out in the caller's order
		// (the lines not named there follow Go's map order, which nobody chose: C16)
		for i, ex := range seen {
			pos := -1
			for _, k := range tc.order {
				for j, n := range ex.names {
					if n == strings.ToLower(k) {
						if j < pos && ok {
							ok, why = false, fmt.Sprintf("exchange %d: header %s is sent before its predecessor in SetHeaderOrder%v: %v", i, k, tc.order, ex.names)
						}
						pos = j
					}
				}
			}
		}
		if tc.order != nil {
			s.Count("header-order")
		}
		final := "Fpanic"
		if !panicked {
			switch {
			case resp.Err == errRetryableWithUnReplayableBody:
				final = "Frefused"
			case resp.Err != nil:
				final = "Ferr@" + strconv.Itoa(rq.RetryAttempt)
			default:
				final = "F" + strconv.Itoa(resp.StatusCode) + "@" + strconv.Itoa(rq.RetryAttempt)
			}
		} else {
			ok, why = false, "panic"
		}
		if ok && tc.n >= 0 && rq.RetryAttempt > tc.n {
			ok, why = false, fmt.Sprintf("RetryAttempt %d with a retry count of %d", rq.RetryAttempt, tc.n)
		}
		proto := "h1"
		if tc.h2 {
			proto = "h2"
		}
		b2 := map[bool]string{true: "1", false: "0"}
		args := strings.Join([]string{proto, strconv.Itoa(tc.n), tc.method, b2[tc.idem], b2[tc.digest], tc.kind,
			c10Toks(tc.script), c10Toks(obs)}, " ")
		impl := strings.Join(append(toks, final), " ")
		human := fmt.Sprintf("%s n=%d %s idem=%v digest=%v body=%s/%dB peer script=%v -> %s", proto, tc.n, tc.method, tc.idem, tc.digest, tc.kind, len(exp), tc.script, impl)
		recs = append(recs, rec{tc, args, impl, human, ok, why, multi})
		s.Count("proto:" + proto)
		s.Count("body:" + tc.kind)
		for _, a := range tc.script {
			s.Count("act:" + a[:2])
		}
		if multi {
			s.Count("multi-exchange-attempt:" + proto)
		}
		s.Count("final:" + strings.SplitN(final, "@", 2)[0])
	}

	kinds := []string{"n", "b", "s", "u", "m", "f", "r", "c", "x", "p"}
	sizes := []int{10, 3000, 40960}
	// systematic: every replay-provoking action at every cut x every body kind, as the exchange of
	// the first attempt and of a retry
	for _, h2 := range []bool{true, false} {
		acts := []string{"ga.h", "ga.p", "ga.f", "rs.h", "rs.p", "rs.f", "rd307", "rd308"}
		if !h2 {
			acts = []string{"cl.h", "cl.p", "cl.f", "rd307", "rd308", "dg"}
		}
		for _, a := range acts {
			for ki, k := range kinds {
				for si, size := range sizes {
					if !verifh.Thorough() && (ki+si+len(a))%2 == 1 && size != 40960 {
						continue
					}
					if !h2 && (a == "cl.h" || a == "cl.p") && (size > 3000 || strings.Contains("urcp", k)) {
						// a request that is not written with ONE flush (large, or of unknown length: headers
						// are flushed first) into a closing HTTP/1.1 connection: write error vs read error is a race
						continue
					}
					for _, pre := range [][]string{nil, {"ok503"}} {
						tc := &c10InnerCase{h2: h2, n: 2, method: "POST", kind: k, size: size, digest: a == "dg",
							script: append(append([]string{}, pre...), a, "ok200")}
						if k == "r" || k == "c" {
							tc.n = []int{0, -2}[(ki+si)%2] // retries on + unreplayable body = refused up front (lane wire)
							if len(pre) > 0 {
								continue
							}
						}
						tc.idem = !h2 && a[:2] == "cl" && (si+len(pre))%2 == 0
						if !h2 && a[:2] == "cl" && si == 1 {
							tc.method = "GET"
						}
						run(tc)
					}
				}
			}
		}
	}
	// random scripts
	n := verifh.N(60, 3000)
	for i := 0; i < n; i++ {
		tc := &c10InnerCase{h2: r.Intn(2) == 0, n: []int{-2, 0, 1, 2, 2}[r.Intn(5)], method: []string{"POST", "PUT", "GET", "POST"}[r.Intn(4)],
			kind: kinds[r.Intn(len(kinds))], size: sizes[r.Intn(3)]}
		tc.idem = r.Intn(3) == 0
		if r.Intn(3) == 0 {
			tc.order = [][]string{{"x-c", "x-a", "x-b"}, {"x-b", "content-type", "x-a"}, {"user-agent", "x-c", "x-ra", "x-b"}, {"X-A", "Content-Length", "X-C"}}[r.Intn(4)]
		}
		if (tc.kind == "r" || tc.kind == "c") && r.Intn(3) != 0 {
			tc.n = []int{0, -2}[r.Intn(2)]
		}
		ln := 1 + r.Intn(4)
		prevReplay := false
		for j := 0; j < ln; j++ {
			var a string
			if tc.h2 {
				a = []string{"ok503", "ok200", "ok404", "ga.h", "ga.p", "ga.f", "rs.h", "rs.p", "rs.f", "rd307", "rd308", "ok503"}[r.Intn(12)]
				isReplay := a[:2] == "ga" || a[:2] == "rs"
				if isReplay && prevReplay {
					a = "ok503" // the second transport-level replay in a row waits a second
				}
				prevReplay = isReplay
			} else {
				a = []string{"ok503", "ok200", "ok404", "cl.f", "cl.f", "cl.h", "cl.p", "rd307", "rd308", "ok503", "dg"}[r.Intn(11)]
				if (a == "cl.h" || a == "cl.p") && (tc.size > 3000 || strings.Contains("urcp", tc.kind)) {
					a = "cl.f"
				}
				if a == "dg" {
					tc.digest = true
				}
			}
			tc.script = append(tc.script, a)
		}
		run(tc)
	}
	// the model with fixes/C10-7 first; where the implementation disagrees and the body is a
	// one-shot reader, the model of the code as found (GetBody hands the drained reader out again)
	lines := make([]string, len(recs))
	for i, rc := range recs {
		lines[i] = "c10inner 1 " + rc.args
	}
	class := make([]string, len(recs))
	if ans, err := verifh.RunModel(lines); err == nil {
		var idx []int
		var pl []string
		for i, rc := range recs {
			if k := rc.tc.kind; ans[i] != rc.impl && (k == "r" || k == "c" || k == "p") {
				idx = append(idx, i)
				pl = append(pl, "c10inner 0 "+rc.args)
			}
		}
		if len(pl) > 0 {
			if pa, err := verifh.RunModel(pl); err == nil {
				for j, i := range idx {
					// known finding iff the code as found offers the one-shot reader a second time
					// (first `drained` exchange of its model) and the implementation did exactly what
					// that model says up to there; what a drained reader / closed pipe yields from
					// then on depends on timing and buffering and is not compared
					at := strings.Split(pa[j], " ")
					it := strings.Split(recs[i].impl, " ")
					first := -1
					for k, tk := range at {
						if strings.Contains(tk, ":drained") {
							first = k
							break
						}
					}
					if first >= 0 && len(it) >= first && strings.Join(it[:first], " ") == strings.Join(at[:first], " ") {
						class[i] = "c10-oneshot-body-replayed"
						s.Count("as-found:" + class[i])
					}
				}
			}
		}
	}
	for pass := 0; pass < 2; pass++ {
		for i, rc := range recs {
			if (class[i] == "") != (pass == 0) {
				continue
			}
			h := rc.human
			if !rc.ok {
				h = "ORACLE: " + rc.why + " | " + h
			}
			s.Case(lines[i], rc.impl, rc.ok, class[i], rc.nontriv, h)
		}
	}
	s.Finish()
}
