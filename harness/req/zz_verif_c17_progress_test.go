//go:build verif

package req

import (
	"bytes"
	"errors"
	"fmt"
	"io"
	"os"
	"path/filepath"
	"reflect"
	"strconv"
	"strings"
	"sync"
	"testing"
	"time"
	"unsafe"

	"github.com/imroc/req/v3/internal/verifh"
)

// ---- scripted writer / reader ---------------------------------------------------------------

type c17ScriptWriter struct {
	ns []int
	i  int
}

var errC17Script = errors.New("scripted error")

func (w *c17ScriptWriter) Write(p []byte) (int, error) {
	n := w.ns[w.i]
	w.i++
	if n < len(p) {
		return n, errC17Script
	}
	return n, nil
}

type c17ScriptReader struct {
	ns   []int
	errs []int // 0 nil, 1 io.EOF, 2 other
	i    int
}

func (r *c17ScriptReader) Read(p []byte) (int, error) {
	n, e := r.ns[r.i], r.errs[r.i]
	r.i++
	var err error
	switch e {
	case 1:
		err = io.EOF
	case 2:
		err = errC17Script
	}
	return n, err
}
func (r *c17ScriptReader) Close() error { return nil }

// ---- building the real automata without naming their (unexported) fields -----------------------

// c17Auto locates the fields of callbackWriter / callbackReader by TYPE: the embedded
// io.Writer / io.ReadCloser, the one time.Time (last report), the one time.Duration (interval),
// the one func(int64) (callback) and the int64 counters. Renaming a field does not concern the
// harness; which int64 of the writer is the total size is found out by asking the real code.
type c17Auto struct {
	typ                    reflect.Type
	ioF, timeF, durF, cbF  int
	ints                   []int
	total                  int // writer only: index of the total-size field
}

func c17SetField(f reflect.Value, v interface{}) {
	reflect.NewAt(f.Type(), unsafe.Pointer(f.UnsafeAddr())).Elem().Set(reflect.ValueOf(v))
}

func c17Locate(typ, ioType reflect.Type) (*c17Auto, error) {
	a := &c17Auto{typ: typ, ioF: -1, timeF: -1, durF: -1, cbF: -1, total: -1}
	for i := 0; i < typ.NumField(); i++ {
		ft := typ.Field(i).Type
		switch {
		case ft == ioType && a.ioF < 0:
			a.ioF = i
		case ft == reflect.TypeOf(time.Time{}) && a.timeF < 0:
			a.timeF = i
		case ft == reflect.TypeOf(time.Duration(0)) && a.durF < 0:
			a.durF = i
		case ft == reflect.TypeOf((func(int64))(nil)) && a.cbF < 0:
			a.cbF = i
		case ft.Kind() == reflect.Int64:
			a.ints = append(a.ints, i)
		default:
			return nil, fmt.Errorf("%s: field %d of unexpected type %s", typ.Name(), i, ft)
		}
	}
	if a.ioF < 0 || a.timeF < 0 || a.durF < 0 || a.cbF < 0 {
		return nil, fmt.Errorf("%s: expected one each of %s, time.Time, time.Duration, func(int64)", typ.Name(), ioType)
	}
	return a, nil
}

// build makes a fresh automaton: io = the scripted peer, interval, last-report time = now, the
// callback, and (writer) the total size.
func (a *c17Auto) build(io interface{}, interval time.Duration, cb func(int64), total int64) reflect.Value {
	p := reflect.New(a.typ)
	c17SetField(p.Elem().Field(a.ioF), io)
	c17SetField(p.Elem().Field(a.durF), interval)
	c17SetField(p.Elem().Field(a.timeF), time.Now())
	c17SetField(p.Elem().Field(a.cbF), cb)
	if a.total >= 0 {
		c17SetField(p.Elem().Field(a.total), total)
	}
	return p
}

// forceClock makes the next clock test come out as wanted (interval is 1 h in this regime).
func (a *c17Auto) forceClock(p reflect.Value, elapsed bool) {
	t := time.Now()
	if elapsed {
		t = t.Add(-2 * time.Hour)
	}
	c17SetField(p.Elem().Field(a.timeF), t)
}

type c17AcceptAll struct{}

func (c17AcceptAll) Write(p []byte) (int, error) { return len(p), nil }

// c17LocateWriter also identifies the total-size counter: the int64 field which, preset to 7,
// makes a 7-byte write report 7 although the clock never elapses.
func c17LocateWriter() (*c17Auto, error) {
	a, err := c17Locate(reflect.TypeOf(callbackWriter{}), reflect.TypeOf((*io.Writer)(nil)).Elem())
	if err != nil {
		return nil, err
	}
	for _, idx := range a.ints {
		var got []int64
		p := a.build(c17AcceptAll{}, time.Hour, func(n int64) { got = append(got, n) }, 0)
		c17SetField(p.Elem().Field(idx), int64(7))
		p.Interface().(io.Writer).Write(make([]byte, 7))
		if len(got) == 1 && got[0] == 7 {
			if a.total >= 0 {
				return nil, fmt.Errorf("callbackWriter: two int64 fields behave like the total size")
			}
			a.total = idx
		}
	}
	if a.total < 0 {
		return nil, fmt.Errorf("callbackWriter: no int64 field behaves like the total size")
	}
	return a, nil
}

// c17ProgressOracle: the emitted counts are strictly increasing, each is the true byte count
// after some call (a member of counts), none exceeds the total.
func c17ProgressOracle(emitted []int64, counts []int64, total int64) bool {
	j := 0
	var last int64 = -1
	for _, e := range emitted {
		if e <= last || e > total {
			return false
		}
		last = e
		for j < len(counts) && counts[j] != e {
			j++
		}
		if j == len(counts) {
			return false
		}
		j++
	}
	return true
}

func c17Ints64(l []int64) string {
	if len(l) == 0 {
		return "-"
	}
	out := make([]string, len(l))
	for i, n := range l {
		out[i] = strconv.FormatInt(n, 10)
	}
	return strings.Join(out, ",")
}

// TestVerif_C17_progw: the real callbackWriter on a scripted writer vs the model automaton.
// The clock test is forced per call by moving lastTime (interval = 1 h), plus the two pure
// regimes interval 0 (always elapsed) and 1 h (never).
func TestVerif_C17_progw(t *testing.T) {
	s := verifh.New(t, "C17", "progw",
		"1..12 Write calls with generated results (full writes of sizes around 1, 512, 32 KiB; short writes with error; 0 and negative results), total size = true total | 0 (unknown) | an intermediate count | a wrong value; clock bit per call forced through the automaton's time field (located by type, not by name), or interval 0 / 1 h; real callbackWriter.Write; oracle: counts strictly increasing, each a true running count, none above the bytes written, last = total when the size was known; non-trivial = at least 2 callbacks")
	r := s.Rand()
	auto, aerr := c17LocateWriter()
	if aerr != nil {
		t.Fatalf("cannot drive the real callbackWriter: %v", aerr)
	}
	n := verifh.N(3000, 100000)
	for i := 0; i < n; i++ {
		k := 1 + r.Intn(12)
		ns := make([]int, k)
		req := make([]int, k)
		clock := make([]int, k)
		var sum int64
		var counts []int64
		for j := range ns {
			sz := verifh.Pick(r, []int{1, 2, 100, 511, 512, 513, 4096, 32 * 1024, 32*1024 + 1, 100000})
			req[j] = sz
			switch r.Intn(8) {
			case 0:
				ns[j] = 0
			case 1:
				ns[j] = r.Intn(sz + 1) // short write
			case 2:
				if r.Intn(4) == 0 {
					ns[j] = -1
				} else {
					ns[j] = sz
				}
			default:
				ns[j] = sz
			}
			if ns[j] > 0 {
				sum += int64(ns[j])
				counts = append(counts, sum)
			}
			clock[j] = r.Intn(2)
		}
		var total int64
		known := false
		switch r.Intn(6) {
		case 0:
			total = 0
		case 1:
			if len(counts) > 0 {
				total = counts[r.Intn(len(counts))]
			}
		case 2:
			total = sum + int64(r.Intn(7)) - 3
		default:
			total = sum
			known = true
		}
		if total == sum {
			known = true
		}
		regime := r.Intn(4)
		interval := time.Hour
		switch regime {
		case 0:
			interval = 0
			for j := range clock {
				clock[j] = 1
			}
			s.Count("interval-0")
		case 1:
			for j := range clock {
				clock[j] = 0
			}
			s.Count("interval-1h")
		default:
			s.Count("forced-clock")
		}
		var emitted []int64
		wp := auto.build(&c17ScriptWriter{ns: ns}, interval, func(written int64) { emitted = append(emitted, written) }, total)
		w := wp.Interface().(io.Writer)
		buf := make([]byte, 100000)
		if txt, bad := verifh.Safely(func() {
			for j := range ns {
				if regime >= 2 {
					auto.forceClock(wp, clock[j] == 1)
				}
				w.Write(buf[:req[j]])
			}
		}); bad {
			s.Crash("progw", fmt.Sprint(ns), txt, "")
			continue
		}
		ok := c17ProgressOracle(emitted, counts, sum)
		if known && sum > 0 {
			ok = ok && len(emitted) > 0 && emitted[len(emitted)-1] == sum
			s.Count("known-size")
		}
		s.Case("c17progw "+strconv.FormatInt(total, 10)+" "+verifh.IntList(ns)+" "+verifh.IntList(clock), c17Ints64(emitted), ok, "",
			len(emitted) >= 2, fmt.Sprintf("total=%d results=%v clock=%v -> %v", total, ns, clock, emitted))
	}
	s.Finish()
}

// TestVerif_C17_progr: the real callbackReader on a scripted reader vs the model automaton.
func TestVerif_C17_progr(t *testing.T) {
	s := verifh.New(t, "C17", "progr",
		"1..12 Read calls with generated results (n from 0, 1, 512, 32 KiB…, error nil | io.EOF | other; EOF repeated after EOF; data together with EOF), clock bit per call forced through lastTime, or interval 0 / 1 h; real callbackReader.Read; oracle: counts strictly increasing, each a true running count, none above the bytes read, last = total once EOF was delivered; non-trivial = at least 2 callbacks")
	r := s.Rand()
	auto, aerr := c17Locate(reflect.TypeOf(callbackReader{}), reflect.TypeOf((*io.ReadCloser)(nil)).Elem())
	if aerr != nil {
		t.Fatalf("cannot drive the real callbackReader: %v", aerr)
	}
	n := verifh.N(3000, 100000)
	for i := 0; i < n; i++ {
		k := 1 + r.Intn(12)
		ns := make([]int, k)
		errs := make([]int, k)
		clock := make([]int, k)
		var sum int64
		counts := []int64{}
		eofAt := -1
		for j := range ns {
			switch r.Intn(6) {
			case 0:
				ns[j] = 0
			case 1:
				if r.Intn(5) == 0 {
					ns[j] = -1
				} else {
					ns[j] = 1
				}
			default:
				ns[j] = verifh.Pick(r, []int{1, 7, 512, 4096, 32 * 1024, 65536})
			}
			switch {
			case eofAt >= 0: // after EOF a sane reader keeps returning (0, EOF)
				ns[j] = 0
				errs[j] = 1
			case j == k-1 && r.Intn(3) != 0, r.Intn(8) == 0:
				errs[j] = 1
				eofAt = j
			case r.Intn(12) == 0:
				errs[j] = 2
			}
			if ns[j] > 0 {
				sum += int64(ns[j])
			}
			counts = append(counts, sum)
			clock[j] = r.Intn(2)
		}
		regime := r.Intn(4)
		interval := time.Hour
		switch regime {
		case 0:
			interval = 0
			for j := range clock {
				clock[j] = 1
			}
			s.Count("interval-0")
		case 1:
			for j := range clock {
				clock[j] = 0
			}
			s.Count("interval-1h")
		default:
			s.Count("forced-clock")
		}
		var emitted []int64
		rp := auto.build(&c17ScriptReader{ns: ns, errs: errs}, interval, func(read int64) { emitted = append(emitted, read) }, 0)
		cr := rp.Interface().(io.Reader)
		buf := make([]byte, 70000)
		if txt, bad := verifh.Safely(func() {
			for j := range ns {
				if regime >= 2 {
					auto.forceClock(rp, clock[j] == 1)
				}
				cr.Read(buf)
			}
		}); bad {
			s.Crash("progr", fmt.Sprint(ns), txt, "")
			continue
		}
		ok := c17ProgressOracle(emitted, counts, sum)
		if eofAt >= 0 && sum > 0 {
			ok = ok && len(emitted) > 0 && emitted[len(emitted)-1] == sum
			s.Count("eof-delivered")
		}
		eofBits := make([]int, k)
		for j := range errs {
			if errs[j] == 1 {
				eofBits[j] = 1
			}
		}
		s.Case("c17progr "+verifh.IntList(ns)+" "+verifh.IntList(eofBits)+" "+verifh.IntList(clock), c17Ints64(emitted), ok, "",
			len(emitted) >= 2, fmt.Sprintf("results=%v errs=%v clock=%v -> %v", ns, errs, clock, emitted))
	}
	s.Finish()
}

// c17Observers switches on the observers that sit on the same request path as the progress
// wrappers: tracing (request level, client level, DevMode) and dumping (client / request
// level, output discarded). Returns a short description.
func c17Observers(r interface{ Intn(int) int }, c *Client, req *Request) string {
	desc := ""
	switch r.Intn(6) {
	case 0:
		req.EnableTrace()
		desc += "trace=request "
	case 1:
		c.EnableTraceAll()
		desc += "trace=client "
	case 2:
		c.DevMode()
		c.EnableDumpAllTo(io.Discard) // keep DevMode's dump and trace, not its console output
		c.SetLogger(nil)
		desc += "devmode "
	default:
		desc += "trace=off "
	}
	switch r.Intn(5) {
	case 0:
		c.EnableDumpAllTo(io.Discard)
		desc += "dump=client"
	case 1:
		req.EnableDumpTo(io.Discard)
		desc += "dump=request"
	case 2:
		c.EnableDumpAllTo(io.Discard)
		c.EnableDumpAllWithoutResponseBody()
		desc += "dump=client-no-resp-body"
	default:
		desc += "dump=off"
	}
	return desc
}

// c17PathForm: the ways a path can name one regular file p (already written). The size a
// SetFile upload announces (FileUpload.FileSize, the total of the upload callback) is the size
// of the content that Open(path) reads, whatever the form: the plain absolute path, an unclean
// spelling of it, a path relative to the working directory, a hard link, a symbolic link with
// an absolute or a relative target, and a chain of symbolic links. A form the platform refuses
// (no symlinks / hard links) falls back to the plain path.
func c17PathForm(r interface{ Intn(int) int }, p string) (string, string) {
	dir, base := filepath.Dir(p), filepath.Base(p)
	switch r.Intn(8) {
	case 0:
		sep := string(filepath.Separator)
		return dir + sep + "." + sep + ".." + sep + filepath.Base(dir) + sep + sep + base, "unclean"
	case 1:
		if wd, err := os.Getwd(); err == nil {
			if rel, err := filepath.Rel(wd, p); err == nil {
				return rel, "relative"
			}
		}
	case 2:
		l := filepath.Join(dir, "hl_"+base)
		if os.Link(p, l) == nil {
			return l, "hardlink"
		}
	case 3:
		l := filepath.Join(dir, "sa_"+base)
		if os.Symlink(p, l) == nil {
			return l, "symlink-abs"
		}
	case 4:
		l := filepath.Join(dir, "sr_"+base)
		if os.Symlink(base, l) == nil {
			return l, "symlink-rel"
		}
	case 5:
		l1 := filepath.Join(dir, "c1_"+base)
		l2 := filepath.Join(dir, "c2_"+base)
		if os.Symlink(base, l1) == nil && os.Symlink(l1, l2) == nil {
			return l2, "symlink-chain"
		}
	}
	return p, "plain"
}

// TestVerif_C17_e2eprogress: real uploads and downloads over loopback with progress callbacks
// and several intervals; the recorded callback arguments are judged by the oracle, and for
// the 1 h interval (clock never elapses) compared with the model, whose answer does not depend
// on how the transfer was split into calls.
func TestVerif_C17_e2eprogress(t *testing.T) {
	s := verifh.New(t, "C17", "e2eprogress",
		"downloads (Content-Length or chunked responses of 0 B … 300 KiB, SetOutput / SetOutputFile) and multipart uploads (1..3 files by path — plain, unclean, relative, hard link, symbolic link absolute / relative / chained —, bytes, reader, FileUpload with FileSize; sizes around 512 B and 32 KiB up to 200 KiB) over HTTP/1.1, HTTP/2 and (uploads) HTTP/3 with callback intervals 0, 1 ns, 1 ms, 1 h, each combined with tracing (off / Request.EnableTrace / Client.EnableTraceAll / DevMode) and dumping (off / client level / request level / without response body); oracle: per transfer the counts are strictly increasing, never above the true size, and end at it (downloads; uploads of known size); for interval 1 h the sequence equals the model's; non-trivial = a transfer with at least one callback")
	r := s.Rand()
	dir := t.TempDir()
	origins := map[string]*c17Origin{"h1": c17NewOrigin("h1"), "h2": c17NewOrigin("h2"), "h3": c17NewOrigin("h3")}
	defer origins["h1"].stop()
	defer origins["h2"].stop()
	defer origins["h3"].stop()
	n := verifh.N(240, 3000)
	intervals := []time.Duration{0, time.Nanosecond, time.Millisecond, time.Hour}
	sizes := []int{0, 1, 511, 512, 513, 4000, 32*1024 - 1, 32 * 1024, 32*1024 + 1, 100000, 200000, 300000}
	for i := 0; i < n; i++ {
		proto := verifh.Pick(r, []string{"h1", "h1", "h1", "h2", "h2", "h3"})
		o := origins[proto]
		c := c17Client(proto)
		interval := verifh.Pick(r, intervals)
		s.Count(proto)
		s.Count("interval-" + interval.String())
		// HTTP/3 is used for uploads only: response bodies over HTTP/3 are the subject of C14/C02
		if proto != "h3" && r.Intn(2) == 0 { // ---- download
			size := verifh.Pick(r, sizes)
			data := []byte(verifh.RandBytes(r, size, ""))
			id := strconv.Itoa(i)
			o.mu.Lock()
			o.dl[id] = data
			o.mu.Unlock()
			chunked := r.Intn(2) == 0
			u := o.base + "/dl?id=" + id
			if chunked {
				u += "&chunked=1"
			}
			var mu sync.Mutex
			var emitted []int64
			req := c.R().SetDownloadCallbackWithInterval(func(info DownloadInfo) {
				mu.Lock()
				emitted = append(emitted, info.DownloadedSize)
				mu.Unlock()
			}, interval)
			obs := c17Observers(r, c, req)
			for _, w := range strings.Fields(obs) {
				s.Count(w)
			}
			var got []byte
			var out bytes.Buffer
			toFile := r.Intn(2) == 0
			fp := filepath.Join(dir, "dl"+id)
			if toFile {
				req.SetOutputFile(fp)
			} else {
				req.SetOutput(&out)
			}
			resp, err := req.Get(u)
			if toFile {
				got, _ = os.ReadFile(fp)
			} else {
				got = out.Bytes()
			}
			ok := err == nil && resp.StatusCode == 200 && bytes.Equal(got, data)
			var last int64 = 0
			for _, e := range emitted {
				if e <= last || e > int64(size) {
					ok = false
				}
				last = e
			}
			if size > 0 && (len(emitted) == 0 || emitted[len(emitted)-1] != int64(size)) {
				ok = false
			}
			human := fmt.Sprintf("download %s size=%d chunked=%v interval=%v toFile=%v %s -> %d callbacks, last=%d err=%v", proto, size, chunked, interval, toFile, obs, len(emitted), last, err)
			s.Count("download")
			if interval == time.Hour {
				// never elapsed: whatever the read sizes were, the model emits the total once at EOF
				s.Case("c17progr "+strconv.Itoa(size)+" 1 0", c17Ints64(emitted), ok, "", len(emitted) > 0, human)
			} else {
				s.Observe("dl-"+id+"-"+proto, ok, "", len(emitted) > 0, human, c17Ints64(emitted))
			}
			o.mu.Lock()
			delete(o.dl, id)
			o.mu.Unlock()
			c17Done(c)
			continue
		}
		// ---- upload
		nf := 1 + r.Intn(3)
		req := c.R()
		type fileRec struct {
			param   string
			size    int
			known   bool
			byPath  string
			emitted []int64
			bad     bool
		}
		recs := map[string]*fileRec{}
		var order []string
		for j := 0; j < nf; j++ {
			size := verifh.Pick(r, sizes)
			if size > 200000 {
				size = 200000
			}
			data := []byte(verifh.RandBytes(r, size, "abcdefghij\n"))
			param := "f" + strconv.Itoa(j)
			rec := &fileRec{param: param, size: size}
			switch r.Intn(4) {
			case 0:
				p := filepath.Join(dir, "up"+strconv.Itoa(i)+"_"+strconv.Itoa(j))
				os.WriteFile(p, data, 0o644)
				p, form := c17PathForm(r, p)
				s.Count("path-" + form)
				req.SetFile(param, p)
				rec.known = true
				rec.byPath = form
			case 1:
				req.SetFileBytes(param, "b.bin", data)
			case 2:
				req.SetFileReader(param, "r.bin", &c17ChunkReader{data: data, chunks: []int{verifh.Pick(r, []int{1, 512, 600, 40000})}})
			default:
				d := data
				req.SetFileUpload(FileUpload{ParamName: param, FileName: "u.bin", FileSize: int64(size),
					GetFileContent: func() (io.ReadCloser, error) { return io.NopCloser(bytes.NewReader(d)), nil }})
				rec.known = true
			}
			recs[param] = rec
			order = append(order, param)
		}
		var mu sync.Mutex
		req.SetUploadCallbackWithInterval(func(info UploadInfo) {
			mu.Lock()
			defer mu.Unlock()
			rec := recs[info.ParamName]
			if rec == nil {
				return
			}
			// a file of known size (SetFile: whatever way the path names the file; FileUpload with
			// FileSize) reports exactly the size of the uploaded content, others report 0 or it
			if info.FileSize != int64(rec.size) && (rec.known || info.FileSize != 0) {
				rec.bad = true
			}
			rec.emitted = append(rec.emitted, info.UploadedSize)
		}, interval)
		obs := c17Observers(r, c, req)
		for _, w := range strings.Fields(obs) {
			s.Count(w)
		}
		o.take()
		resp, err := req.Post(o.base + "/up")
		seen := o.take()
		mu.Lock()
		ok := err == nil && resp.StatusCode == 200 && len(seen) == 1
		total := 0
		var sb strings.Builder
		var modelWant []string
		var implGot []string
		for _, p := range order {
			rec := recs[p]
			var last int64
			for _, e := range rec.emitted {
				if e <= last || e > int64(rec.size) {
					ok = false
				}
				last = e
			}
			if rec.bad {
				ok = false
			}
			if rec.known && rec.size > 0 && (len(rec.emitted) == 0 || rec.emitted[len(rec.emitted)-1] != int64(rec.size)) {
				ok = false
			}
			total += len(rec.emitted)
			fmt.Fprintf(&sb, "[%s size=%d known=%v path=%s badFileSize=%v -> %d callbacks last=%d]", p, rec.size, rec.known, rec.byPath, rec.bad, len(rec.emitted), last)
			tot := 0
			if rec.known {
				tot = rec.size
			}
			modelWant = append(modelWant, strconv.Itoa(tot)+" "+strconv.Itoa(rec.size)+" 0")
			implGot = append(implGot, c17Ints64(rec.emitted))
		}
		mu.Unlock()
		human := fmt.Sprintf("upload %s interval=%v %s %s err=%v", proto, interval, obs, sb.String(), err)
		s.Count("upload")
		if interval == time.Hour {
			for j := range order {
				if recs[order[j]].size == 0 {
					continue // an empty file makes no Write that transfers bytes
				}
				s.Case("c17progw "+modelWant[j], implGot[j], ok, "", len(recs[order[j]].emitted) > 0, human)
			}
		} else {
			s.Observe("up-"+strconv.Itoa(i)+"-"+proto, ok, "", total > 0, human, strings.Join(implGot, " "))
		}
		c17Done(c)
	}
	s.Finish()
}
