//go:build verif

package req

// C19, systematic per-field lane and end-to-end scenarios (judged by Go-side oracles only):
//
// TestVerif_C19_fields goes through every setting a public setter of Client / Transport can
// change (one entry per struct field reached) and checks, on real clients,
//   same:     right after Clone the copy reads the same as the original,
//   orig→:    the original is changed after Clone, the copy still reads the old value,
//   clone→:   the copy is changed, the original still reads the old value,
//   cc:       the same through a clone of a clone (middle changed; first and last unchanged),
//   append:   (list-valued settings) three single additions, Clone, then one addition on each
//             side: each side sees its own, and a fresh clone of the original sees the original's,
//   again:    the same setter applied to original and copy has the same effect on both.
//
// TestVerif_C19_e2e runs the scenarios that need a real TLS / h2c / proxy peer.

import (
	"bytes"
	"context"
	"crypto/tls"
	"encoding/pem"
	"errors"
	"fmt"
	"io"
	"log"
	"net"
	"net/http"
	"net/http/httptest"
	urlpkg "net/url"
	"sort"
	"strings"
	"testing"

	"github.com/imroc/req/v3/internal/verifh"
	"golang.org/x/net/http2"
	"golang.org/x/net/http2/h2c"
)

type c19Setting struct {
	name  string // setter
	field string // struct field(s) it reaches
	list  bool   // additive setting (slice / multimap)
	bool_ bool   // two-valued
	class string // known-finding class of a failure, if any
	set   func(w *c19World, c *Client, v int)
	get   func(w *c19World, c *Client) string
}

type c19IDLogger struct{ id int }

func (l *c19IDLogger) Errorf(format string, v ...interface{}) {}
func (l *c19IDLogger) Warnf(format string, v ...interface{})  {}
func (l *c19IDLogger) Debugf(format string, v ...interface{}) {}

type c19ErrA struct{ A int }
type c19ErrB struct{ B int }
type c19ErrC struct{ C int }

func c19ProbeSection(w *c19World, c *Client, f int) string {
	p := w.probe(c)
	for _, part := range strings.Split(strings.TrimPrefix(p, "P"), ";") {
		if strings.HasPrefix(part, fmt.Sprintf("%d=", f)) {
			return part
		}
	}
	return ""
}

func c19Settings() []c19Setting {
	var out []c19Setting
	for _, sc := range c19Scalars() {
		sc := sc
		out = append(out, c19Setting{name: sc.name, field: fmt.Sprintf("model field %d", sc.id), bool_: len(sc.vals) == 2 && sc.vals[0] == 0,
			set: sc.set, get: func(w *c19World, c *Client) string { return fmt.Sprint(sc.get(w, c)) }})
	}
	sect := func(f int) func(w *c19World, c *Client) string {
		return func(w *c19World, c *Client) string { return c19ProbeSection(w, c, f) }
	}
	dumper := func(w *c19World, c *Client) string {
		if c.Dump == nil {
			return "off"
		}
		o := c.Dump.Options
		wr := -1
		for i, b := range w.bufs {
			if o.Output() == b {
				wr = i
			}
		}
		return fmt.Sprintf("w%d:%v%v%v%v", wr, o.RequestHeader(), o.RequestBody(), o.ResponseHeader(), o.ResponseBody())
	}
	out = append(out,
		c19Setting{name: "SetCommonHeader", field: "Transport.Headers", list: true,
			set: func(w *c19World, c *Client, v int) { c.SetCommonHeader(c19HeaderName(v), c19HeaderValue(v)) }, get: sect(0)},
		c19Setting{name: "SetCommonHeaderNonCanonical", field: "Transport.Headers (value slices)", list: true,
			set: func(w *c19World, c *Client, v int) { c.SetCommonHeaderNonCanonical("x-n7", c19HeaderValue(v)) }, get: sect(0)},
		c19Setting{name: "SetCommonPathParam", field: "Client.PathParams", list: true,
			set: func(w *c19World, c *Client, v int) {
				c.SetCommonPathParam(fmt.Sprintf("p%d", v), fmt.Sprintf("y%d", v))
			}, get: sect(1)},
		c19Setting{name: "AddCommonQueryParam", field: "Client.QueryParams", list: true,
			set: func(w *c19World, c *Client, v int) { c.AddCommonQueryParam("q1", fmt.Sprintf("w%d", v)) }, get: sect(2)},
		c19Setting{name: "AddCommonQueryParams", field: "Client.QueryParams (value slices)", list: true,
			set: func(w *c19World, c *Client, v int) { c.AddCommonQueryParams("q2", fmt.Sprintf("w%d", v)) }, get: sect(2)},
		c19Setting{name: "SetCommonQueryParam", field: "Client.QueryParams", list: true,
			set: func(w *c19World, c *Client, v int) { c.SetCommonQueryParam(fmt.Sprintf("q%d", v), "w1") }, get: sect(2)},
		c19Setting{name: "SetCommonFormData", field: "Client.FormData", list: true,
			set: func(w *c19World, c *Client, v int) {
				c.SetCommonFormData(map[string]string{fmt.Sprintf("QQf%d", v): "QQg1"})
			}, get: sect(3)},
		c19Setting{name: "SetCommonFormDataFromValues", field: "Client.FormData (value slices)", list: true,
			set: func(w *c19World, c *Client, v int) {
				c.SetCommonFormDataFromValues(urlpkg.Values{"QQf1": {fmt.Sprintf("QQg%d", v)}})
			}, get: sect(3)},
		c19Setting{name: "SetCommonCookies", field: "Transport.Cookies", list: true,
			set: func(w *c19World, c *Client, v int) {
				c.SetCommonCookies(&http.Cookie{Name: c19CookieName(100 + v), Value: "1"})
			}, get: sect(4)},
		c19Setting{name: "OnBeforeRequest", field: "Client.udBeforeRequest", list: true,
			set: func(w *c19World, c *Client, v int) { c.OnBeforeRequest(w.mkBefore(v)) }, get: sect(5)},
		c19Setting{name: "OnAfterResponse", field: "Client.afterResponse", list: true,
			set: func(w *c19World, c *Client, v int) { c.OnAfterResponse(w.mkAfter(3, v)) }, get: sect(6)},
		c19Setting{name: "WrapRoundTrip", field: "Client.roundTripWrappers", list: true, class: "wrapper-slice-alias",
			set: func(w *c19World, c *Client, v int) { c.WrapRoundTrip(w.mkWrap(v)) }, get: sect(7)},
		c19Setting{name: "WrapRoundTripFunc", field: "Client.roundTripWrappers", list: true, class: "wrapper-slice-alias",
			set: func(w *c19World, c *Client, v int) { c.WrapRoundTripFunc(w.mkWrapFunc(v)) }, get: sect(7)},
		c19Setting{name: "Transport.WrapRoundTrip", field: "Transport.httpRoundTripWrappers", list: true, class: "wrapper-slice-alias",
			set: func(w *c19World, c *Client, v int) { c.GetTransport().WrapRoundTrip(w.mkTWrap(v)) }, get: sect(8)},
		c19Setting{name: "SetCommonHeaderOrder", field: "Transport.httpRoundTripWrappers", list: true, class: "wrapper-slice-alias",
			set: func(w *c19World, c *Client, v int) { c.SetCommonHeaderOrder(fmt.Sprintf("k%d", v)) },
			get: func(w *c19World, c *Client) string {
				// the keys each installed wrapper writes, outermost last
				var keys []string
				for _, wr := range c.httpRoundTripWrappers {
					r, _ := http.NewRequest("GET", "http://probe.invalid/", nil)
					wr(HttpRoundTripFunc(func(*http.Request) (*http.Response, error) { return nil, nil })).RoundTrip(r)
					keys = append(keys, strings.Join(r.Header[HeaderOderKey], "+"))
				}
				return strings.Join(keys, ",")
			}},
		c19Setting{name: "AddCommonRetryCondition", field: "retryOption.RetryConditions", list: true,
			set: func(w *c19World, c *Client, v int) { c.AddCommonRetryCondition(w.mkCond(v)) }, get: sect(11)},
		c19Setting{name: "SetCommonRetryCondition", field: "retryOption.RetryConditions",
			set: func(w *c19World, c *Client, v int) { c.SetCommonRetryCondition(w.mkCond(v)) }, get: sect(11)},
		c19Setting{name: "AddCommonRetryHook", field: "retryOption.RetryHooks", list: true,
			set: func(w *c19World, c *Client, v int) { c.AddCommonRetryHook(w.mkHook(v)) }, get: sect(12)},
		c19Setting{name: "SetCommonRetryHook", field: "retryOption.RetryHooks",
			set: func(w *c19World, c *Client, v int) { c.SetCommonRetryHook(w.mkHook(v)) }, get: sect(12)},
		c19Setting{name: "SetCommonRetryCount", field: "retryOption.MaxRetries",
			set: func(w *c19World, c *Client, v int) { c.SetCommonRetryCount(v) }, get: sect(13)},
		c19Setting{name: "SetCommonRetryInterval", field: "retryOption.GetRetryInterval",
			set: func(w *c19World, c *Client, v int) { c.SetCommonRetryInterval(w.mkInterval(v)) }, get: sect(14)},
		c19Setting{name: "SetCommonRetryFixedInterval", field: "retryOption.GetRetryInterval",
			set: func(w *c19World, c *Client, v int) { c.SetCommonRetryFixedInterval(1000 * 1000 * 1000 * 0) },
			get: func(w *c19World, c *Client) string {
				return fmt.Sprint(c.retryOption != nil && c.retryOption.GetRetryInterval != nil)
			}},
		c19Setting{name: "SetCerts", field: "TLSClientConfig.Certificates", list: true, class: "tls-config-shared",
			set: func(w *c19World, c *Client, v int) { c.SetCerts(c19TLSCert(v)) }, get: sect(17)},
		c19Setting{name: "SetRootCertFromString", field: "TLSClientConfig.RootCAs", list: true, class: "tls-config-shared",
			set: func(w *c19World, c *Client, v int) {
				if w.rootPEM[v] == "" {
					w.rootPEM[v] = c19MakeRoot(v)
				}
				c.SetRootCertFromString(w.rootPEM[v])
			}, get: sect(18)},
		c19Setting{name: "SetTLSClientConfig", field: "Options.TLSClientConfig",
			set: func(w *c19World, c *Client, v int) {
				c.SetTLSClientConfig(&tls.Config{ServerName: fmt.Sprintf("sn%d", v)})
			},
			get: func(w *c19World, c *Client) string {
				if c.TLSClientConfig == nil {
					return "nil"
				}
				return c.TLSClientConfig.ServerName
			}},
		c19Setting{name: "EnableH2C", field: "Options.EnableH2C + http2.Transport.AllowHTTP + Options.DialTLSContext", bool_: true, class: "h2c-allowhttp-dropped",
			set: func(w *c19World, c *Client, v int) {
				if v == 1 {
					c.EnableH2C()
				} else {
					c.DisableH2C()
				}
			}, get: func(w *c19World, c *Client) string { return fmt.Sprint(c19H2CState(c)) }},
		c19Setting{name: "EnableDumpAllTo", field: "Options.Dump + Client.dumpOptions.Output", class: "dump-options-unlinked",
			set: func(w *c19World, c *Client, v int) { c.EnableDumpAllTo(w.bufs[v%4]) }, get: dumper},
		c19Setting{name: "EnableDumpAllWithout…", field: "Client.dumpOptions flags as the dumper sees them", class: "dump-options-unlinked",
			set: func(w *c19World, c *Client, v int) {
				c.getDumpOptions().Output = w.bufs[0]
				c19Without[v%len(c19Without)].c(c)
			}, get: dumper},
		c19Setting{name: "SetCommonDumpOptions", field: "Client.dumpOptions (replaced)",
			set: func(w *c19World, c *Client, v int) {
				c.SetCommonDumpOptions(&DumpOptions{Output: w.bufs[v%4], RequestHeader: v%2 == 0, ResponseBody: v%3 == 0})
				c.EnableDumpAll()
			}, get: dumper},
		c19Setting{name: "SetCookieJarFactory", field: "Client.cookiejarFactory + httpClient.Jar",
			set: func(w *c19World, c *Client, v int) { c.SetCookieJarFactory(w.mkJarFactory(v)) },
			get: func(w *c19World, c *Client) string { return w.getCookies(c) }},
		c19Setting{name: "jar contents (cookies stored by responses)", field: "httpClient.Jar", list: true,
			set: func(w *c19World, c *Client, v int) {
				c.httpClient.Jar.SetCookies(w.srvURL, []*http.Cookie{{Name: fmt.Sprintf("jc%d", 10+v), Value: "1", Path: "/"}})
			}, get: func(w *c19World, c *Client) string {
				// the clone starts with a NEW jar: compare what was added after the clone only
				return w.getCookies(c)
			}},
		c19Setting{name: "SetCommonErrorResult", field: "Client.commonErrorType",
			set: func(w *c19World, c *Client, v int) {
				c.SetCommonErrorResult([]interface{}{&c19ErrA{}, &c19ErrB{}, &c19ErrC{}}[v%3])
			}, get: func(w *c19World, c *Client) string { return fmt.Sprint(c.commonErrorType) }},
		c19Setting{name: "SetJsonMarshal", field: "Client.jsonMarshal",
			set: func(w *c19World, c *Client, v int) {
				c.SetJsonMarshal(func(interface{}) ([]byte, error) { return []byte(fmt.Sprint("jm", v)), nil })
			}, get: func(w *c19World, c *Client) string { b, _ := c.jsonMarshal(1); return string(b) }},
		c19Setting{name: "SetJsonUnmarshal", field: "Client.jsonUnmarshal",
			set: func(w *c19World, c *Client, v int) {
				c.SetJsonUnmarshal(func([]byte, interface{}) error { return fmt.Errorf("ju%d", v) })
			}, get: func(w *c19World, c *Client) string { var x int; return fmt.Sprint(c.jsonUnmarshal([]byte("1"), &x)) }},
		c19Setting{name: "SetXmlMarshal", field: "Client.xmlMarshal",
			set: func(w *c19World, c *Client, v int) {
				c.SetXmlMarshal(func(interface{}) ([]byte, error) { return []byte(fmt.Sprint("xm", v)), nil })
			}, get: func(w *c19World, c *Client) string { b, _ := c.xmlMarshal(1); return string(b) }},
		c19Setting{name: "SetXmlUnmarshal", field: "Client.xmlUnmarshal",
			set: func(w *c19World, c *Client, v int) {
				c.SetXmlUnmarshal(func([]byte, interface{}) error { return fmt.Errorf("xu%d", v) })
			}, get: func(w *c19World, c *Client) string { var x int; return fmt.Sprint(c.xmlUnmarshal([]byte("<a/>"), &x)) }},
		c19Setting{name: "SetMultipartBoundaryFunc", field: "Client.multipartBoundaryFunc",
			set: func(w *c19World, c *Client, v int) {
				c.SetMultipartBoundaryFunc(func() string { return fmt.Sprint("bd", v) })
			}, get: func(w *c19World, c *Client) string {
				if c.multipartBoundaryFunc == nil {
					return "nil"
				}
				return c.multipartBoundaryFunc()
			}},
		c19Setting{name: "SetLogger", field: "Client.log",
			set: func(w *c19World, c *Client, v int) { c.SetLogger(&c19IDLogger{v}) },
			get: func(w *c19World, c *Client) string {
				if l, ok := c.log.(*c19IDLogger); ok {
					return fmt.Sprint(l.id)
				}
				return "other"
			}},
		c19Setting{name: "SetResponseBodyTransformer", field: "Client.responseBodyTransformer",
			set: func(w *c19World, c *Client, v int) {
				c.SetResponseBodyTransformer(func([]byte, *Request, *Response) ([]byte, error) { return []byte(fmt.Sprint("rt", v)), nil })
			}, get: func(w *c19World, c *Client) string {
				if c.responseBodyTransformer == nil {
					return "nil"
				}
				b, _ := c.responseBodyTransformer(nil, nil, nil)
				return string(b)
			}},
		c19Setting{name: "SetResultStateCheckFunc", field: "Client.resultStateCheckFunc",
			set: func(w *c19World, c *Client, v int) {
				c.SetResultStateCheckFunc(func(*Response) ResultState { return ResultState(v) })
			}, get: func(w *c19World, c *Client) string {
				if c.resultStateCheckFunc == nil {
					return "nil"
				}
				return fmt.Sprint(int(c.resultStateCheckFunc(nil)))
			}},
		c19Setting{name: "OnError", field: "Client.onError",
			set: func(w *c19World, c *Client, v int) {
				c.OnError(func(*Client, *Request, *Response, error) { w.probeOut = append(w.probeOut, v) })
			}, get: func(w *c19World, c *Client) string {
				if c.onError == nil {
					return "nil"
				}
				w.probeOut = nil
				c.onError(nil, nil, nil, nil)
				return fmt.Sprint(w.probeOut)
			}},
		c19Setting{name: "SetDial", field: "Options.DialContext",
			set: func(w *c19World, c *Client, v int) {
				c.SetDial(func(context.Context, string, string) (net.Conn, error) { return nil, fmt.Errorf("dial%d", v) })
			}, get: func(w *c19World, c *Client) string {
				if c.DialContext == nil {
					return "nil"
				}
				_, err := c.DialContext(context.Background(), "tcp", "x")
				return fmt.Sprint(err)
			}},
		c19Setting{name: "SetDialTLS", field: "Options.DialTLSContext",
			set: func(w *c19World, c *Client, v int) {
				c.SetDialTLS(func(context.Context, string, string) (net.Conn, error) { return nil, fmt.Errorf("dialtls%d", v) })
			}, get: func(w *c19World, c *Client) string {
				if c.DialTLSContext == nil {
					return "nil"
				}
				_, err := c.DialTLSContext(context.Background(), "tcp", "x")
				return fmt.Sprint(err)
			}},
		c19Setting{name: "SetTLSHandshake", field: "Options.TLSHandshakeContext",
			set: func(w *c19World, c *Client, v int) {
				c.SetTLSHandshake(func(context.Context, string, net.Conn) (net.Conn, *tls.ConnectionState, error) {
					return nil, nil, fmt.Errorf("hs%d", v)
				})
			}, get: func(w *c19World, c *Client) string {
				if c.TLSHandshakeContext == nil {
					return "nil"
				}
				_, _, err := c.TLSHandshakeContext(context.Background(), "x:1", nil)
				return fmt.Sprint(err)
			}},
		c19Setting{name: "SetAutoDecodeContentTypeFunc", field: "Transport.autoDecodeContentType",
			set: func(w *c19World, c *Client, v int) {
				c.SetAutoDecodeContentTypeFunc(func(ct string) bool { return ct == fmt.Sprint("ct", v) })
			}, get: func(w *c19World, c *Client) string {
				if c.autoDecodeContentType == nil {
					return "nil"
				}
				s := ""
				for v := 1; v <= 6; v++ {
					if c.autoDecodeContentType(fmt.Sprint("ct", v)) {
						s += fmt.Sprint(v)
					}
				}
				return s
			}},
		c19Setting{name: "Transport.SetProxyConnectHeader", field: "Options.ProxyConnectHeader",
			set: func(w *c19World, c *Client, v int) { c.SetProxyConnectHeader(http.Header{"X-P": {fmt.Sprint(v)}}) },
			get: func(w *c19World, c *Client) string { return fmt.Sprint(c.ProxyConnectHeader) }},
		c19Setting{name: "Transport.SetGetProxyConnectHeader", field: "Options.GetProxyConnectHeader",
			set: func(w *c19World, c *Client, v int) {
				c.SetGetProxyConnectHeader(func(context.Context, *urlpkg.URL, string) (http.Header, error) {
					return nil, fmt.Errorf("gpch%d", v)
				})
			}, get: func(w *c19World, c *Client) string {
				if c.GetProxyConnectHeader == nil {
					return "nil"
				}
				_, err := c.GetProxyConnectHeader(context.Background(), nil, "")
				return fmt.Sprint(err)
			}},
	)
	return out
}

func TestVerif_C19_fields(t *testing.T) {
	s := verifh.New(t, "C19", "fields",
		"one entry per setting a public setter of Client/Transport reaches (30 scalar settings + 50 list/func/pointer-valued ones: headers, params, form, cookies, middleware, wrappers, header order, retry options, TLS certs/roots/config, H2C, dump options, jar factory and jar contents, marshal funcs, logger, hooks, dial/handshake funcs, proxy headers); for each: same-after-clone, original changed → clone unchanged, clone changed → original unchanged, the same through a clone of a clone, append-after-three-additions on both sides (list settings), same setter same effect on both; judged by a Go-side oracle on real clients")
	w := c19NewWorld()
	defer w.close()
	settings := c19Settings()
	names := map[string]bool{}
	for _, st := range settings {
		st := st
		names[st.name] = true
		v1, v2, v3 := 1, 2, 3
		if st.bool_ {
			v1, v2, v3 = 1, 0, 1
		}
		obs := func(kind string, ok bool, detail string) {
			id := st.name + "/" + kind
			cl := ""
			if !ok {
				cl = st.class
			}
			s.Observe(id, ok, cl, true, st.name+" ("+st.field+"): "+kind, detail)
			s.Count(kind)
		}
		fresh := func() *Client { c := C(); c.SetLogger(nil); return c }
		ptxt, panicked := verifh.Safely(func() {
			// same / orig→ / clone→
			c := fresh()
			st.set(w, c, v1)
			cc := c.Clone()
			was := st.get(w, c)
			obs("same", st.get(w, cc) == was || strings.HasPrefix(st.name, "jar contents"), fmt.Sprintf("original reads %q, clone reads %q", was, st.get(w, cc)))
			cwas := st.get(w, cc)
			st.set(w, c, v2)
			obs("orig-changed", st.get(w, cc) == cwas, fmt.Sprintf("clone read %q, after changing the original it reads %q", cwas, st.get(w, cc)))
			c = fresh()
			st.set(w, c, v1)
			cc = c.Clone()
			was = st.get(w, c)
			st.set(w, cc, v2)
			obs("clone-changed", st.get(w, c) == was, fmt.Sprintf("original read %q, after changing the clone it reads %q", was, st.get(w, c)))
			// the same setter has the same effect on both
			c = fresh()
			st.set(w, c, v1)
			cc = c.Clone()
			st.set(w, c, v3)
			st.set(w, cc, v3)
			if !strings.HasPrefix(st.name, "jar contents") {
				obs("again", st.get(w, c) == st.get(w, cc), fmt.Sprintf("after the same call original reads %q, clone reads %q", st.get(w, c), st.get(w, cc)))
			}
			// clone of clone
			c = fresh()
			st.set(w, c, v1)
			cc = c.Clone()
			ccc := cc.Clone()
			a, b := st.get(w, c), st.get(w, ccc)
			st.set(w, cc, v2)
			obs("clone-of-clone", st.get(w, c) == a && st.get(w, ccc) == b,
				fmt.Sprintf("after changing the middle clone: original %q→%q, clone of clone %q→%q", a, st.get(w, c), b, st.get(w, ccc)))
			if st.list {
				c = fresh()
				st.set(w, c, 1)
				st.set(w, c, 2)
				st.set(w, c, 3)
				cc = c.Clone()
				st.set(w, c, 4)
				co := st.get(w, c)
				st.set(w, cc, 5)
				obs("append-both", st.get(w, c) == co, fmt.Sprintf("original read %q, after an addition on the clone it reads %q", co, st.get(w, c)))
				c2 := c.Clone()
				if !strings.HasPrefix(st.name, "jar contents") {
					obs("append-reclone", st.get(w, c2) == st.get(w, c), fmt.Sprintf("original reads %q, a new clone of it reads %q", st.get(w, c), st.get(w, c2)))
				}
			}
		})
		if panicked {
			s.Crash(st.name, st.name, ptxt, st.class)
		}
	}
	for _, need := range []string{"same", "orig-changed", "clone-changed", "again", "clone-of-clone", "append-both", "append-reclone"} {
		s.Count(need + ":declared")
	}
	// every field of Client that a setter writes must be covered by an entry above
	for _, f := range c19ClientSetterFields {
		found := false
		for _, st := range settings {
			if strings.Contains(st.field, f) || strings.Contains(st.name, f) {
				found = true
			}
		}
		if !found {
			s.Count("covered-by-program-lane:" + f)
		}
	}
	_ = sort.Strings
	s.Finish()
}

// fields of Client with a setter (gofacts' table is the authority; this list is for the lane's histogram only)
var c19ClientSetterFields = []string{"BaseURL", "PathParams", "QueryParams", "FormData", "DebugLog", "AllowGetMethodPayload", "cookiejarFactory",
	"trace", "disableAutoReadResponse", "commonErrorType", "retryOption", "jsonMarshal", "jsonUnmarshal", "xmlMarshal", "xmlUnmarshal",
	"multipartBoundaryFunc", "outputDirectory", "scheme", "log", "dumpOptions", "httpClient", "udBeforeRequest", "afterResponse",
	"roundTripWrappers", "responseBodyTransformer", "resultStateCheckFunc", "onError"}

// ------------------------------------------------------------------ end-to-end scenarios

func TestVerif_C19_e2e(t *testing.T) {
	s := verifh.New(t, "C19", "e2e",
		"fixed end-to-end scenarios against in-process peers: TLS origin with a private CA (root pool isolation both ways; TLS-fingerprint client: the clone must use its own TLS config, not the original's), h2c origin (clone of an H2C client speaks h2c), two recording proxies (SetProxyURL on original and clone route separately), dump of a cloned client follows the clone's later dump setters, retry count changed on one side only; each scenario also run through a clone of a clone")
	w := c19NewWorld()
	defer w.close()
	obs := func(id string, ok bool, class, detail string) {
		cl := ""
		if !ok {
			cl = class
		}
		s.Observe(id, ok, cl, true, id, detail)
		s.Count("scenario")
	}
	fresh := func() *Client { c := C(); c.SetLogger(nil); return c }

	tlsSrv := httptest.NewTLSServer(http.HandlerFunc(func(rw http.ResponseWriter, r *http.Request) { rw.Write([]byte("ok")) }))
	defer tlsSrv.Close()
	tlsSrv.Config.ErrorLog = log.New(io.Discard, "", 0) // expected handshake failures
	srvPEM := string(pemEncode(tlsSrv.Certificate().Raw))
	get := func(c *Client, url string) error {
		_, err := c.R().Get(url)
		c.Transport.CloseIdleConnections()
		return err
	}
	depths := []int{1, 2}
	for _, depth := range depths {
		cloneN := func(c *Client) *Client {
			for i := 0; i < depth; i++ {
				c = c.Clone()
			}
			return c
		}
		tag := fmt.Sprintf("depth%d/", depth)
		ptxt, panicked := verifh.Safely(func() {
			// root pool: a root added to the clone must not be trusted by the original
			c := fresh()
			c.SetRootCertFromString(w.rootPEM[1]) // some unrelated root: the pool exists before Clone
			cc := cloneN(c)
			cc.SetRootCertFromString(srvPEM)
			e1, e2 := get(cc, tlsSrv.URL), get(c, tlsSrv.URL)
			obs(tag+"root-added-to-clone", e1 == nil && e2 != nil, "tls-config-shared",
				fmt.Sprintf("clone (has the root): err=%v; original (must not trust it): err=%v", e1, e2))
			c = fresh()
			c.SetRootCertFromString(w.rootPEM[1])
			cc = cloneN(c)
			c.SetRootCertFromString(srvPEM)
			e1, e2 = get(c, tlsSrv.URL), get(cc, tlsSrv.URL)
			obs(tag+"root-added-to-original", e1 == nil && e2 != nil, "tls-config-shared",
				fmt.Sprintf("original (has the root): err=%v; clone (must not trust it): err=%v", e1, e2))
			// InsecureSkipVerify is per client
			c = fresh()
			cc = cloneN(c)
			cc.EnableInsecureSkipVerify()
			e1, e2 = get(cc, tlsSrv.URL), get(c, tlsSrv.URL)
			obs(tag+"insecure-on-clone", e1 == nil && e2 != nil, "", fmt.Sprintf("clone err=%v original err=%v", e1, e2))
			// TLS fingerprint: the clone's handshake must read the clone's TLS config
			c = fresh().SetTLSFingerprintChrome()
			cc = cloneN(c)
			c.EnableInsecureSkipVerify()
			e1, e2 = get(c, tlsSrv.URL), get(cc, tlsSrv.URL)
			obs(tag+"fingerprint/original-insecure", e1 == nil && e2 != nil, "fingerprint-captures-original",
				fmt.Sprintf("original (skips verification): err=%v; clone (must still verify): err=%v", e1, e2))
			c = fresh().SetTLSFingerprintChrome()
			cc = cloneN(c)
			cc.EnableInsecureSkipVerify()
			e1, e2 = get(cc, tlsSrv.URL), get(c, tlsSrv.URL)
			obs(tag+"fingerprint/clone-insecure", e1 == nil && e2 != nil, "fingerprint-captures-original",
				fmt.Sprintf("clone (skips verification): err=%v; original (must still verify): err=%v", e1, e2))
			c = fresh().SetTLSFingerprintChrome()
			cc = cloneN(c)
			cc.SetRootCertFromString(srvPEM)
			e1 = get(cc, tlsSrv.URL)
			obs(tag+"fingerprint/clone-root", e1 == nil, "fingerprint-captures-original",
				fmt.Sprintf("clone with the origin's root: err=%v", e1))
			// a custom handshake set after the fingerprint survives Clone
			c = fresh().SetTLSFingerprintChrome()
			c.SetTLSHandshake(func(context.Context, string, net.Conn) (net.Conn, *tls.ConnectionState, error) {
				return nil, nil, errors.New("custom-handshake")
			})
			cc = cloneN(c)
			e1 = get(cc, tlsSrv.URL)
			obs(tag+"fingerprint/custom-handshake-kept", e1 != nil && strings.Contains(e1.Error(), "custom-handshake"), "",
				fmt.Sprintf("err=%v", e1))
		})
		if panicked {
			s.Crash(tag+"tls", tag+"tls", ptxt, "")
		}

		// h2c
		ptxt, panicked = verifh.Safely(func() {
			h2s := httptest.NewServer(h2c.NewHandler(http.HandlerFunc(func(rw http.ResponseWriter, r *http.Request) { rw.Write([]byte(r.Proto)) }), &http2.Server{}))
			defer h2s.Close()
			c := fresh().EnableH2C().EnableForceHTTP2()
			r1, e1 := c.R().Get(h2s.URL)
			cc := cloneN(c)
			r2, e2 := cc.R().Get(h2s.URL)
			obs(tag+"h2c-clone", e1 == nil && e2 == nil && r1.String() == "HTTP/2.0" && r2.String() == "HTTP/2.0", "h2c-allowhttp-dropped",
				fmt.Sprintf("original: %q err=%v; clone: %q err=%v", r1.String(), e1, r2.String(), e2))
			c.Transport.CloseIdleConnections()
			cc.Transport.CloseIdleConnections()
		})
		if panicked {
			s.Crash(tag+"h2c", tag+"h2c", ptxt, "")
		}

		// proxies
		ptxt, panicked = verifh.Safely(func() {
			var hitA, hitB int
			mkProxy := func(hit *int) *httptest.Server {
				return httptest.NewServer(http.HandlerFunc(func(rw http.ResponseWriter, r *http.Request) { *hit++; rw.Write([]byte("proxied")) }))
			}
			pa, pb := mkProxy(&hitA), mkProxy(&hitB)
			defer pa.Close()
			defer pb.Close()
			c := fresh().SetProxyURL(pa.URL)
			cc := cloneN(c)
			cc.SetProxyURL(pb.URL)
			c.R().Get("http://origin.invalid/x")
			a1, b1 := hitA, hitB
			cc.R().Get("http://origin.invalid/x")
			obs(tag+"proxy", a1 == 1 && b1 == 0 && hitA == 1 && hitB == 1, "",
				fmt.Sprintf("after original's request A=%d B=%d; after clone's request A=%d B=%d", a1, b1, hitA, hitB))
			c.Transport.CloseIdleConnections()
			cc.Transport.CloseIdleConnections()
		})
		if panicked {
			s.Crash(tag+"proxy", tag+"proxy", ptxt, "")
		}

		// dump follows the clone's later setters
		ptxt, panicked = verifh.Safely(func() {
			var b1, b2 bytes.Buffer
			c := fresh()
			c.EnableDumpAllTo(&b1)
			cc := cloneN(c)
			cc.EnableDumpAllTo(&b2)
			cc.EnableDumpAllWithoutResponseBody()
			cc.R().Get(w.srv.URL)
			obs(tag+"dump-clone-setters", b1.Len() == 0 && b2.Len() > 0 && !strings.Contains(b2.String(), c19RespMark), "dump-options-unlinked",
				fmt.Sprintf("original's writer got %d bytes, clone's writer %d bytes, response body dumped: %v", b1.Len(), b2.Len(),
					strings.Contains(b1.String()+b2.String(), c19RespMark)))
			c.DisableDumpAll()
			cc.DisableDumpAll()
		})
		if panicked {
			s.Crash(tag+"dump", tag+"dump", ptxt, "")
		}

		// the caller reuses the slice it spread into WrapRoundTrip: the clone must still run what the original runs
		ptxt, panicked = verifh.Safely(func() {
			run := func(c *Client) string {
				w.log = nil
				c.R().Get(w.srv.URL)
				return strings.Join(w.log, ",")
			}
			ws := []RoundTripWrapper{w.mkWrap(1), w.mkWrap(2)}
			c := fresh().WrapRoundTrip(ws...)
			ws[0] = w.mkWrap(3)
			cc := cloneN(c)
			a, b := run(c), run(cc)
			obs(tag+"caller-reuses-wrapper-slice", a == b, "caller-slice-retained",
				fmt.Sprintf("ws := {w1,w2}; c.WrapRoundTrip(ws...); ws[0] = w3; Clone: original ran %s, clone ran %s", a, b))
			tws := []HttpRoundTripWrapper{w.mkTWrap(1), w.mkTWrap(2)}
			c = fresh()
			c.GetTransport().WrapRoundTrip(tws...)
			tws[0] = w.mkTWrap(3)
			cc = cloneN(c)
			a, b = run(c), run(cc)
			obs(tag+"caller-reuses-transport-wrapper-slice", a == b, "caller-slice-retained",
				fmt.Sprintf("tws := {w1,w2}; t.WrapRoundTrip(tws...); tws[0] = w3; Clone: original ran %s, clone ran %s", a, b))
		})
		if panicked {
			s.Crash(tag+"caller-slice", tag+"caller-slice", ptxt, "")
		}

		// retry options
		ptxt, panicked = verifh.Safely(func() {
			c := fresh().SetCommonRetryCount(2).SetCommonRetryInterval(w.mkInterval(1)).AddCommonRetryCondition(w.mkCond(2))
			cc := cloneN(c)
			cc.SetCommonRetryCount(0)
			count := func(c *Client) int {
				w.mu.Lock()
				w.seen = nil
				w.mu.Unlock()
				c.R().Get(w.srv.URL)
				w.mu.Lock()
				defer w.mu.Unlock()
				return len(w.seen)
			}
			n1, n2 := count(c), count(cc)
			obs(tag+"retry-count", n1 == 3 && n2 == 1, "", fmt.Sprintf("original made %d attempts (want 3), clone %d (want 1)", n1, n2))
		})
		if panicked {
			s.Crash(tag+"retry", tag+"retry", ptxt, "")
		}
	}
	s.Finish()
}

func pemEncode(der []byte) []byte {
	return pem.EncodeToMemory(&pem.Block{Type: "CERTIFICATE", Bytes: der})
}
