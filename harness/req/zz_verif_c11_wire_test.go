//go:build verif

package req

// Lane loopwire: the hop loop over real sockets. The same script generator and model as lane loop,
// but the replies come from loopback origins — plain HTTP/1.1 and TLS (HTTP/2 by ALPN) — so that
// what is compared is what each origin READ OFF THE WIRE: which address was dialled for it, the
// Host header / :authority, method, path, body, header values (Authorization derived from userinfo,
// Referer, Cookie from header + jar). This ties Loop.wireHost / wireHeaders / wireValues / dialAddr
// and runs the forked transport under the loop (scheme changes http<->https in one chain).

import (
	"context"
	"crypto/tls"
	"io"
	"log"
	"net"
	"net/http"
	"net/http/httptest"
	"net/url"
	"strconv"
	"strings"
	"sync"
	"testing"
	"time"

	"github.com/imroc/req/v3/internal/verifh"
)

type c11WireRec struct {
	dial   string // "h|addr" / "s|addr": how the connection that carried the request was dialled
	tls    bool
	host   string // Host header / :authority
	path   string
	method string
	hdr    http.Header
	body   bool
}

type c11WireFarm struct {
	mu     sync.Mutex
	plain  []net.Listener
	tlsLn  []net.Listener
	srvs   []*http.Server
	tsrvs  []*httptest.Server
	script []c11Reply
	recs   []c11WireRec
	dials  []string
	conns  map[string]string // client-side address of a connection -> how it was dialled
}

func newC11WireFarm(t *testing.T, n int) *c11WireFarm {
	f := &c11WireFarm{conns: map[string]string{}}
	mk := func(isTLS bool) http.Handler {
		return http.HandlerFunc(func(w http.ResponseWriter, r *http.Request) {
			b, _ := io.ReadAll(r.Body)
			f.mu.Lock()
			k := len(f.recs)
			la, _ := r.Context().Value(http.LocalAddrContextKey).(net.Addr)
			ck := r.RemoteAddr + ">"
			if la != nil {
				ck += la.String()
			}
			f.recs = append(f.recs, c11WireRec{dial: f.conns[ck], tls: isTLS, host: r.Host, path: r.URL.Path, method: r.Method, hdr: r.Header.Clone(), body: len(b) > 0})
			var rp *c11Reply
			if k < len(f.script) {
				rp = &f.script[k]
			}
			f.mu.Unlock()
			if rp == nil {
				w.WriteHeader(200)
				return
			}
			if rp.loc.kind != "missing" {
				w.Header()["Location"] = []string{rp.loc.text()}
			}
			for _, c := range rp.cookies {
				w.Header().Add("Set-Cookie", c[0]+"="+c[1]+"; Path=/")
			}
			w.WriteHeader(rp.status)
		})
	}
	for i := 0; i < n; i++ {
		ln, err := net.Listen("tcp", "127.0.0.1:0")
		if err != nil {
			t.Fatalf("listen: %v", err)
		}
		srv := &http.Server{Handler: mk(false), ErrorLog: log.New(io.Discard, "", 0)}
		go srv.Serve(ln)
		f.plain = append(f.plain, ln)
		f.srvs = append(f.srvs, srv)
		ts := httptest.NewUnstartedServer(mk(true))
		ts.EnableHTTP2 = true
		ts.Config.ErrorLog = log.New(io.Discard, "", 0)
		ts.StartTLS()
		f.tlsLn = append(f.tlsLn, ts.Listener)
		f.tsrvs = append(f.tsrvs, ts)
	}
	return f
}

func (f *c11WireFarm) close() {
	for _, s := range f.srvs {
		s.Close()
	}
	for _, s := range f.tsrvs {
		s.Close()
	}
}

func (f *c11WireFarm) pick(lns []net.Listener, addr string) string {
	h := 0
	for _, c := range strings.ToLower(addr) {
		h = (h*31 + int(c)) & 0xffffff
	}
	return lns[h%len(lns)].Addr().String()
}

func (f *c11WireFarm) dial(ctx context.Context, network, addr string) (net.Conn, error) {
	f.mu.Lock()
	f.dials = append(f.dials, "h|"+addr)
	f.mu.Unlock()
	var d net.Dialer
	c, err := d.DialContext(ctx, "tcp", f.pick(f.plain, addr))
	if err == nil {
		f.mu.Lock()
		f.conns[c.LocalAddr().String()+">"+c.RemoteAddr().String()] = "h|" + addr
		f.mu.Unlock()
	}
	return c, err
}

func (f *c11WireFarm) dialTLS(ctx context.Context, network, addr string) (net.Conn, error) {
	f.mu.Lock()
	f.dials = append(f.dials, "s|"+addr)
	f.mu.Unlock()
	var d net.Dialer
	raw, err := d.DialContext(ctx, "tcp", f.pick(f.tlsLn, addr))
	if err != nil {
		return nil, err
	}
	f.mu.Lock()
	f.conns[raw.LocalAddr().String()+">"+raw.RemoteAddr().String()] = "s|" + addr
	f.mu.Unlock()
	tc := tls.Client(raw, &tls.Config{InsecureSkipVerify: true, NextProtos: []string{"h2", "http/1.1"}})
	if err := tc.HandshakeContext(ctx); err != nil {
		raw.Close()
		return nil, err
	}
	return tc, nil
}

func (f *c11WireFarm) reset(script []c11Reply) {
	f.mu.Lock()
	f.script, f.recs, f.dials = script, nil, nil
	f.mu.Unlock()
}

func TestVerif_C11_loopwire(t *testing.T) {
	s := c11New(t, "loopwire",
		"as lane loop (kind api only, canonical header keys, no empty-host Location) but over loopback origins: 2 plain HTTP/1.1 + 2 TLS (HTTP/2) listeners, SetDial/SetDialTLS map any authority to them, keep-alives off; compared with the model's wire view: per request the scheme and address dialled (canonicalAddr), the Host header / :authority the origin read (override on the first request and across scheme-less Locations, zone removed), path, method, body presence, values of Authorization (incl. Basic from userinfo) / Cookie (header + jar) / Cookie2 / custom / Www-Authenticate / Referer; oracle as lane loop on the hosts dialled; non-trivial = ≥1 redirect scripted")
	r := s.Rand()
	farm := newC11WireFarm(t, 2)
	defer farm.close()
	c := C().SetDial(farm.dial).SetDialTLS(farm.dialTLS).SetProxy(nil).DisableKeepAlives().SetTimeout(20 * time.Second).
		EnableInsecureSkipVerify().SetLogger(nil)
	hdrPool := []string{"Authorization", "Cookie", "Cookie2", "X-Custom", "X-Multi", "Www-Authenticate", "Referer"}
	probes := hdrPool
	var prevPs []c11Pol
	n := verifh.N(700, 12000)
	for i := 0; i < n; i++ {
		gen := func() c11Auth {
			for {
				a := c11GenAuth(r, false)
				if _, ok := c11OracleHost(a.render()); ok && a.wf && a.rfc {
					return a
				}
			}
		}
		vary := func(a c11Auth) c11Auth {
			for {
				b := c11Vary(r, a, false)
				if _, ok := c11OracleHost(b.render()); ok && b.wf && b.rfc {
					return b
				}
			}
		}
		a0 := gen()
		limit := 1 + r.Intn(4)
		var ps []c11Pol
		switch r.Intn(4) {
		case 0:
			ps = []c11Pol{{kind: "max", n: limit}}
		case 1:
			ps = append(c11GenPols(r, []c11Auth{a0}, limit, hdrPool), c11Pol{kind: "max", n: limit})
		default:
			ps = c11GenPols(r, []c11Auth{a0}, limit, hdrPool)
		}
		m := r.Intn(limit + 2)
		var script []c11Reply
		for {
			script = c11GenScript(r, s, a0, m, gen, vary)
			okScript := true
			for _, rp := range script {
				if (rp.loc.kind == "abs" || rp.loc.kind == "net") && (rp.loc.host == "" || strings.HasPrefix(rp.loc.host, ":")) {
					okScript = false // the transport refuses a URL without host: outside this lane
				}
			}
			if okScript {
				break
			}
		}
		if prevPs != nil && r.Intn(3) == 0 {
			ps = prevPs // same closures judge another chain
			s.Count("reused-client")
		} else {
			if r.Intn(2) == 0 {
				for j := range ps {
					if (ps[j].kind == "ahost" || ps[j].kind == "adomain") && len(script) > 0 {
						if l := script[r.Intn(len(script))].loc; l.host != "" {
							ps[j].list = append(ps[j].list, l.host)
						}
					}
				}
			}
			real := make([]RedirectPolicy, len(ps))
			for j, p := range ps {
				real[j] = p.real()
			}
			c.SetRedirectPolicy(real...)
			s.Count("direct")
		}
		prevPs = ps
		for _, b := range c11DegBuckets(ps) {
			s.Count(b)
		}
		for _, p := range ps {
			s.Count("pol:" + p.kind)
		}
		c.httpClient.Jar = c11NewJar()
		scheme := verifh.Pick(r, []string{"http", "http", "https"})
		method := verifh.Pick(r, c11Methods)
		var ui *url.Userinfo
		if r.Intn(6) == 0 {
			ui = url.UserPassword("me", "secret"+strconv.Itoa(r.Intn(9)))
			s.Count("initial-userinfo")
		}
		var ih [][2]string
		for _, k := range hdrPool {
			switch x := r.Intn(6); {
			case x < 2:
			case x == 2 && k == "X-Multi":
				ih = append(ih, [2]string{k, "m1"}, [2]string{k, "m2"})
			case k == "Cookie":
				ih = append(ih, [2]string{k, verifh.Pick(r, c11CookieNames) + "=c" + strconv.Itoa(r.Intn(50))})
			case k == "Referer":
				if x == 3 {
					ih = append(ih, [2]string{k, "http://ref.example/from"})
				}
			default:
				ih = append(ih, [2]string{k, "tok-" + strconv.Itoa(r.Intn(100))})
			}
		}
		rq := c.R()
		rq.Headers = http.Header{}
		for _, kv := range ih {
			rq.Headers[kv[0]] = append(rq.Headers[kv[0]], kv[1])
		}
		var ch, rc [][2]string
		hostOv := ""
		if r.Intn(3) == 0 {
			switch k := r.Intn(4); {
			case k < 2 && len(script) > 0 && script[0].loc.host != "":
				hostOv = script[0].loc.host
			case k == 2:
				hostOv = vary(a0).render()
			default:
				hostOv = gen().render()
			}
			if r.Intn(2) == 0 {
				rq.Headers["Host"] = []string{hostOv}
				ih = append(ih, [2]string{"Host", hostOv})
			} else {
				ch = append(ch, [2]string{"Host", hostOv})
				c.Headers = http.Header{"Host": []string{hostOv}}
			}
			s.Count("host-override")
		}
		if r.Intn(3) == 0 {
			kv := [2]string{verifh.Pick(r, c11CookieNames), "r" + strconv.Itoa(r.Intn(50))}
			rc = append(rc, kv)
			rq.SetCookies(&http.Cookie{Name: kv[0], Value: kv[1]})
		}
		withBody := r.Intn(3) == 0
		if withBody {
			rq.SetBodyBytes([]byte("payload"))
			rq.Headers["Content-Type"] = []string{"text/plain"}
		}
		host0 := a0.render()
		target := scheme + "://"
		if ui != nil {
			target += ui.String() + "@"
		}
		target += c11URLHost(host0) + "/0"
		q0 := &http.Request{Method: method, URL: &url.URL{Scheme: scheme, User: ui, Host: host0, Path: "/0"}}
		if withBody {
			q0.Body = io.NopCloser(strings.NewReader(""))
		}
		line := "c11apiw " + c11EncPols(ps) + " 11 " + c11EncReq(q0) + " " + c11EncHeaders(ih) + " " + c11EncCookies(rc) + " " +
			c11EncHeaders(ch) + " - " + c11EncScript(script) + " " + verifh.HexList(probes)
		farm.reset(script)
		var resp *Response
		var err error
		p, bad := verifh.Safely(func() { resp, err = rq.Send(method, target) })
		c.Headers = nil
		if bad {
			s.Crash(line, c11ShowPols(ps), p, "")
			continue
		}
		respStatus := 0
		if resp != nil && resp.Response != nil {
			respStatus = resp.StatusCode
		}
		outcome := ""
		switch {
		case err == nil:
			outcome = "resp:" + strconv.Itoa(respStatus)
		default:
			outcome = "error:" + strings.ReplaceAll(err.Error(), " ", "_")
			if ue, ok := err.(*url.Error); ok {
				msg := ue.Err.Error()
				if strings.HasPrefix(msg, "failed to parse Location header") {
					outcome = "badloc"
				}
				for _, pre := range []string{"stopped after", "different domain name", "different host name", "redirect host", "redirect domain"} {
					if strings.HasPrefix(msg, pre) {
						outcome = "refused:" + strconv.Itoa(respStatus)
					}
				}
			}
		}
		farm.mu.Lock()
		recs := append([]c11WireRec(nil), farm.recs...)
		farm.mu.Unlock()
		enc := make([]string, len(recs))
		ok, detail := true, ""
		var seen []c11Seen
		for k, rec := range recs {
			// Each request is attributed to the address its CONNECTION was dialled for (an HTTP/2
			// connection may carry several requests of a chain, or be left over from an earlier case
			// for the same authority: dials and requests do not pair up one to one).
			sch, addr := "?", "?"
			if len(rec.dial) > 2 {
				sch, addr = rec.dial[:1], rec.dial[2:]
			}
			if strings.HasSuffix(addr, ":") {
				// canonicalAddr always writes a port; an EMPTY port comes from the HTTP/2 layer only
				// (authorityAddr does not default it, as in x/net): an https URL spelled "host:" is
				// dialled again under that address and that connection carries the request. Outside
				// C11 (see notes); read it as the default port.
				addr += "443"
				s.Count("h2-dial-with-empty-port")
			}
			if (sch == "s") != rec.tls {
				ok, detail = false, "request "+strconv.Itoa(k)+" dialled as "+sch+" but served by the other kind of listener"
			}
			b := "0"
			if rec.body {
				b = "1"
			}
			enc[k] = strings.Join([]string{sch, verifh.Hex(addr), verifh.Hex(rec.path), verifh.Hex(rec.method), verifh.Hex(rec.host), b,
				c11ShowProbes(func(key string) []string {
					if key != "Cookie" {
						return rec.hdr.Values(key)
					}
					// cookie-pairs, whatever the framing (HTTP/2 sends each pair as its own field and
					// nothing for an empty value; the server joins them again)
					var crumbs []string
					for _, v := range rec.hdr.Values(key) {
						for _, c := range strings.Split(v, ";") {
							if c = strings.Trim(c, " \t"); c != "" {
								crumbs = append(crumbs, c)
							}
						}
					}
					return crumbs
				}, probes)}, "|")
			// for the oracle: the authority this request was for = what was dialled, port included
			var uk *url.Userinfo // userinfo of the URL this request was for (decides where a Basic header may come from)
			switch {
			case k == 0:
				uk = ui
			case k-1 < len(script) && script[k-1].loc.kind == "path":
				uk = seen[k-1].user
			case k-1 < len(script):
				uk = script[k-1].loc.user
			}
			seen = append(seen, c11Seen{host: addr, hostField: "", hdr: rec.hdr, method: rec.method, user: uk})
		}
		ans := outcome + " " + strconv.Itoa(len(recs)) + " " + strings.Join(enc, ";")
		if ok {
			// the oracle of lane loop on the dialled authorities (hostname and port of each URL):
			// policies compare hostnames, so the default port the dial address adds is immaterial
			ok, detail = c11LoopOracle(ps, seen, nil, ih)
		}
		s.Count("hops-scripted:" + strconv.Itoa(m))
		s.Count("outcome:" + strings.SplitN(outcome, ":", 2)[0])
		for k := range recs {
			if k > 0 && recs[k].tls != recs[k-1].tls {
				s.Count("scheme-change")
			}
			if recs[k].tls {
				s.Count("request-over-tls-h2")
			} else {
				s.Count("request-over-plain-h1")
			}
			if k > 0 && k <= len(script) && script[k-1].loc.kind != "abs" && hostOv != "" && recs[k].host == recs[0].host {
				s.Count("host-override-kept-on-wire")
			}
			if k > 0 && recs[k].body {
				s.Count("body-resent")
			}
			if k > 0 && k <= len(script) && script[k-1].loc.user != nil {
				s.Count("userinfo-hop")
			}
		}
		var ss []string
		for _, rp := range script {
			ss = append(ss, rp.String())
		}
		human := c11ShowPols(ps) + " " + method + " " + target
		if hostOv != "" {
			human += " Host-override=" + hostOv
		}
		human += " script=[" + strings.Join(ss, " ; ") + "] => " + outcome + " received=" + strconv.Itoa(len(recs))
		if detail != "" {
			human += " [" + detail + "]"
		}
		s.Case(line, ans, ok, "", m > 0, human)
	}
	s.FinishRequire("direct", "reused-client", "outcome:resp", "outcome:refused", "outcome:badloc", "scheme-change", "request-over-tls-h2",
		"request-over-plain-h1", "host-override", "host-override-kept-on-wire", "body-resent", "userinfo-hop", "initial-userinfo",
		"pol:copy", "pol:samehost", "pol:samedomain", "pol:ahost", "pol:adomain", "pol:max")
}
