//go:build verif

package req

import (
	"context"
	"fmt"
	"io"
	"net/http/httptrace"
	"net/textproto"
	"os"
	"strings"
	"sync"
	"sync/atomic"
	"testing"
	"time"

	"github.com/imroc/req/v3/internal/verifh"
)

// c08Scenario describes what the scripted exchange looks like when nothing is injected.
type c08Scenario struct {
	name       string
	proto      string // h1 | h2
	up, down   int    // request / response body chunks
	failFirst  int    // attempts the peer makes fail first
	maxRetries int
	unlimited  bool // SetRetryCount(-1): retry without limit (maxRetries is what the model is told: beyond the script)
	reused     bool // a warm-up request leaves an idle / shared connection
	waitConn   bool // MaxConnsPerHost=1 and the only connection is busy
	autoRead   bool // req's default: the response body is read inside the attempt
	expect     time.Duration // > 0: the request carries "Expect: 100-continue" and this is the
	// transport's ExpectContinueTimeout; after the request head the body is held back
	noContinue bool // ... and the peer never says "100 Continue" (the timeout sends the body)
	interval   time.Duration
	midSleep   time.Duration // inject this long after the retry wait began (instead of at its start)
	interim    int           // 1xx prefix: informational responses (103 Early Hints) before the final header
	ctxVia     string        // how the context gets onto the request: "" = SetContext before the call,
	// "middleware" = installed by a client-level OnBeforeRequest middleware on every attempt, "hook" =
	// installed by a retry hook (from the first retry wait on: only points from sleepStart on are injected)
}

type c08Peer interface {
	url(path string) string
	close()
}

// c08Obs is what one run showed.
type c08Obs struct {
	sc       c08Scenario
	kind     string
	trigger  int
	timeout  bool
	nInj     int
	fired    bool
	firedNm  string
	trace    []string
	names    []string
	injNames []string // names of the injectable events, in order
	res      string
	err      error
	elapsed  time.Duration
	body     string
	conn     string
	rst      string
	sleeps   int
	follow   error
	leak     []string
	readsAft int
	orphan   int // h3: connection-level goroutines of a QUIC connection the round tripper forgot
	hung     bool
	early    bool // timeout flavour: the timeout hit before the stall point was reached
}

func c08ModelTrace(toks []string) string {
	// an attempt that starts without a dial got an idle / shared connection
	var out []string
	seg := []string{}
	flush := func() {
		if len(seg) > 0 {
			hasDial := false
			for _, t := range seg {
				if t == "dialStart" {
					hasDial = true
				}
			}
			if !hasDial {
				out = append(out, "connIdle")
			}
			out = append(out, seg...)
		}
		seg = seg[:0]
	}
	for _, t := range toks {
		if t == "sleepElapse" {
			flush()
			out = append(out, t)
			continue
		}
		seg = append(seg, t)
	}
	flush()
	if len(out) == 0 {
		return "-"
	}
	return strings.Join(out, ",")
}

// c08Exec runs one scripted request with the injection after the trigger-th injectable event
// (-1: none). kind is "canceled" (context.WithCancel) or "deadline" (event-driven deadline
// context); timeoutFlavour uses Client.SetTimeout and a peer that stalls at the trigger.
func c08Exec(sc c08Scenario, kind string, trigger int, timeoutFlavour bool, clientTimeout time.Duration) (o c08Obs) {
	if os.Getenv("C08_TIMING") != "" {
		t0 := time.Now()
		defer func() {
			if d := time.Since(t0); d > 700*time.Millisecond {
				fmt.Fprintf(os.Stderr, "C08 slow %v: %s %s %s trig=%d fired=%s res=%s body=%s follow=%v leak=%d\n", d.Round(time.Millisecond), sc.proto, sc.name, kind, trigger, o.firedNm, o.res, o.body, o.follow, len(o.leak))
			}
		}()
	}
	o = c08Obs{sc: sc, kind: kind, trigger: trigger, timeout: timeoutFlavour, rst: "0"}
	base := len(c08Census())

	var ctx context.Context
	var inject func()
	switch {
	case timeoutFlavour:
		ctx = context.Background()
		inject = func() {}
	case kind == "canceled":
		c, cancel := context.WithCancel(context.Background())
		ctx, inject = c, cancel
	default:
		// the deadline "passes" at the chosen event. A std child context is what the request gets:
		// everything derived from it is cancelled synchronously once it is, and the injection only
		// returns after the (asynchronous) hop from the custom parent to that child has happened.
		d := newC08DeadlineCtx()
		child, stop := context.WithCancel(d)
		defer stop()
		ctx, inject = child, func() { d.expire(); <-child.Done() }
	}
	run := newC08Run(sc.up, sc.down, sc.failFirst, trigger, inject)
	run.stallAt = timeoutFlavour
	run.peerDriven = sc.autoRead
	run.noContinue = sc.noContinue
	run.delay = sc.midSleep
	run.interim = sc.interim

	d := &c08Dialer{}
	var peer c08Peer
	var h1 *c08H1Peer
	var h2 *c08H2Peer
	var h3 *c08H3Peer
	switch sc.proto {
	case "h1":
		p, err := newC08H1Peer()
		if err != nil {
			o.hung = true
			o.err = err
			return
		}
		h1, peer = p, p
	case "h2":
		h2 = newC08H2Peer()
		peer = h2
	case "h3":
		p, err := newC08H3Peer()
		if err != nil {
			o.hung = true
			o.err = err
			return
		}
		h3, peer = p, p
		h2 = p.h // the script handler
	}
	defer peer.close()

	c := C()
	if !sc.autoRead {
		c.DisableAutoReadResponse()
	}
	c.SetDial(d.dial)
	if sc.proto == "h2" {
		c.SetTLSHandshake(d.handshake)
	}
	if sc.proto == "h3" {
		c.EnableForceHTTP3()
		t3 := c.GetTransport().t3
		if t3 == nil {
			o.hung, o.err = true, fmt.Errorf("HTTP/3 not available on this toolchain")
			return
		}
		c.EnableInsecureSkipVerify()
		t3.Dial = d.h3dial
		defer t3.Close()
	}
	if timeoutFlavour {
		c.SetTimeout(clientTimeout)
	}
	var mainActive int32
	var starts int32
	c.OnBeforeRequest(func(_ *Client, _ *Request) error {
		if atomic.LoadInt32(&mainActive) == 0 {
			return nil
		}
		if atomic.AddInt32(&starts, 1) > 1 {
			if run.isFired() {
				atomic.AddInt32(&run.startsAfterFire, 1)
			}
			run.hit("sleepElapse", "sleepElapse", false)
		} else if !sc.waitConn {
			// before anything of the request exists (the context check at the top of roundTrip)
			run.hit("", "start", true)
		}
		return nil
	})
	if sc.maxRetries > 0 {
		if sc.unlimited {
			c.SetCommonRetryCount(-1)
		} else {
			c.SetCommonRetryCount(sc.maxRetries)
		}
		c.SetCommonRetryInterval(func(_ *Response, _ int) time.Duration {
			run.hit("", "sleepStart", true)
			return sc.interval
		})
	}
	if sc.waitConn {
		c.GetTransport().SetMaxConnsPerHost(1)
	}
	if sc.expect > 0 {
		c.GetTransport().SetExpectContinueTimeout(sc.expect)
	}

	// warm-up: leaves one idle (h1) / shared (h2) connection
	if sc.reused {
		resp, err := c.R().Get(peer.url("/plain"))
		if err != nil {
			o.hung, o.err = true, fmt.Errorf("warm-up failed: %v", err)
			return
		}
		io.Copy(io.Discard, resp.Body)
		resp.Body.Close()
		if sc.proto == "h1" {
			c08WaitFor(c08Bound, func() bool { return c08IdleCount(c.GetTransport()) > 0 })
		}
	}
	// the only allowed connection is busy with another request
	holdDone := make(chan struct{})
	if sc.waitConn {
		go func() {
			defer close(holdDone)
			resp, err := c.R().Get(peer.url("/hold"))
			if err == nil {
				io.Copy(io.Discard, resp.Body)
				resp.Body.Close()
			}
		}()
		// the busy request owns the only connection once the peer has its request
		select {
		case <-h1.held:
		case <-time.After(c08HardLimit):
			o.hung, o.err = true, fmt.Errorf("the busy request never reached the peer")
			return
		}
	} else {
		close(holdDone)
	}

	// the instant right after the dial goroutine handed its connection to the waiting request
	// (wantConn.tryDeliver): a cancellation here races the pick-up — either the request takes the
	// connection (and tears it down) or wantConn.cancel finds it delivered and returns it to the pool
	if sc.proto != "h3" {
		testHookPostPendingDial = func() {
			// (runs at the very end of Transport.dialConnFor: connection delivered or pooled)
			atomic.AddInt32(&run.dialConnDone, 1)
			if r := d.run.Load(); r != nil && !sc.waitConn {
				r.hit("", "delivered", true)
			}
		}
		defer func() { testHookPostPendingDial = nop }()
	}
	d.run.Store(run)
	if h1 != nil {
		h1.run.Store(run)
	}
	if h2 != nil {
		h2.run.Store(run)
	}

	type result struct {
		err  error
		when time.Time
	}
	resc := make(chan result, 1)
	started := time.Now()
	atomic.StoreInt32(&mainActive, 1)
	go func() {
		rq := c.R()
		cctx := ctx
		if sc.waitConn {
			cctx = httptrace.WithClientTrace(ctx, &httptrace.ClientTrace{GetConn: func(string) {
				if !run.hit("", "getConn", true) && h1 != nil {
					c08Open(h1.hold) // not injected here: let the busy request finish
				}
			}})
		}
		if sc.interim > 0 {
			// "the client has processed the i-th interim response" is an injection point (observed in the
			// goroutine that read it: readLoop / http2 read loop / the HTTP/3 caller)
			var seen int32
			cctx = httptrace.WithClientTrace(cctx, &httptrace.ClientTrace{Got1xxResponse: func(int, textproto.MIMEHeader) error {
				i := int(atomic.AddInt32(&seen, 1)) - 1
				if !run.hit("", fmt.Sprintf("interim#%d", i), true) {
					c08Open(run.gate(&run.interimGates, i))
				}
				return nil
			}})
		}
		switch sc.ctxVia {
		case "middleware":
			c.OnBeforeRequest(func(_ *Client, r *Request) error {
				if atomic.LoadInt32(&mainActive) == 1 {
					r.SetContext(cctx)
				}
				return nil
			})
		case "hook":
			rq.AddRetryHook(func(resp *Response, _ error) { resp.Request.SetContext(cctx) })
		default:
			rq.SetContext(cctx)
		}
		method := "GET"
		if sc.expect > 0 {
			rq.SetHeader("Expect", "100-continue")
		}
		if sc.up > 0 {
			method = "POST"
			rq.SetBody(GetContentFunc(func() (io.ReadCloser, error) { return run.newBody(), nil }))
		}
		resp, err := rq.Send(method, peer.url("/script"))
		if err != nil {
			resc <- result{err, time.Now()}
			return
		}
		if sc.autoRead {
			// the whole body was read inside the call
			if n := len(resp.Bytes()); n != sc.down*c08Chunk {
				err = fmt.Errorf("c08: auto-read body has %d bytes, want %d", n, sc.down*c08Chunk)
			}
			resc <- result{err, time.Now()}
			return
		}
		if !run.hit("gotHeaders", "gotHeaders", true) {
			c08Open(run.gate(&run.downGates, 0))
		}
		buf := make([]byte, c08Chunk)
		for j := 0; j < sc.down; j++ {
			if _, err = io.ReadFull(resp.Body, buf); err != nil {
				break
			}
			if j < sc.down-1 {
				if !run.hit("gotBody", fmt.Sprintf("gotBody#%d", j), true) {
					c08Open(run.gate(&run.downGates, j+1))
				}
			}
		}
		if err == nil {
			_, err = io.Copy(io.Discard, resp.Body)
		}
		when := time.Now()
		resp.Body.Close()
		resc <- result{err, when}
	}()

	var res result
	select {
	case res = <-resc:
	case <-time.After(c08HardLimit):
		o.hung = true
		res = result{fmt.Errorf("c08: call did not return within %v", c08HardLimit), time.Now()}
	}
	atomic.StoreInt32(&mainActive, 0)
	o.err = res.err
	o.res = c08Class(res.err)

	run.mu.Lock()
	o.fired = run.fired
	o.firedNm = run.firedNm
	o.trace = run.firedTr
	o.nInj = run.nInj
	for _, e := range run.events {
		o.names = append(o.names, e.name)
		if e.inject {
			o.injNames = append(o.injNames, e.name)
		}
	}
	firedAt := run.firedAt
	run.mu.Unlock()
	if timeoutFlavour {
		deadline := started.Add(clientTimeout)
		o.elapsed = res.when.Sub(deadline)
		if !o.fired || firedAt.After(deadline) {
			o.early = true
		}
	} else if o.fired {
		o.elapsed = res.when.Sub(firedAt)
		if sc.midSleep > 0 {
			run.mu.Lock()
			late := run.lateInject
			run.mu.Unlock()
			if !late || o.elapsed < 0 {
				o.early = true // the call was over before the delayed injection happened
			}
		}
	}
	dialInFlight := atomic.LoadInt32(&run.dialsStarted) > atomic.LoadInt32(&run.dialsDone)

	// wind down: everything that was held back may proceed
	close(run.release)
	if h1 != nil {
		c08Open(h1.hold)
	}
	select {
	case <-holdDone:
	case <-time.After(c08Bound):
	}
	if o.hung {
		o.body, o.conn = "open", "held"
		return
	}

	// request bodies: every body handed to the transport must get closed
	run.mu.Lock()
	bodies := append([]*c08Body(nil), run.bodies...)
	run.mu.Unlock()
	c08WaitFor(c08Bound/4, func() bool {
		for _, b := range bodies {
			if atomic.LoadInt32(&b.closes) == 0 {
				return false
			}
		}
		return true
	})
	time.Sleep(10 * time.Millisecond) // let a stray second Close / late Read show up
	o.body = "none"
	if len(bodies) > 0 {
		o.body = "closed1"
		for _, b := range bodies {
			n := int(atomic.LoadInt32(&b.closes))
			o.readsAft += int(atomic.LoadInt32(&b.readsAfter))
			if n == 0 {
				o.body = "open"
				break
			}
			if n > 1 {
				o.body = fmt.Sprintf("closed%d", n)
			}
		}
	}

	// a dial that was still running goes on, detached, and its connection goes to the pool: wait
	// for every dial goroutine of the transport to be through (handshake, delivery / pooling)
	_ = dialInFlight
	c08WaitFor(2*c08Bound, func() bool { return atomic.LoadInt32(&run.dialsStarted) <= atomic.LoadInt32(&run.dialsDone) })
	if sc.proto != "h3" {
		c08WaitFor(2*c08Bound, func() bool {
			return atomic.LoadInt32(&run.dialConnDone) >= atomic.LoadInt32(&run.dialsStarted)
		})
	}
	if h2 != nil {
		// the handler reports whether it saw the stream die
		c08WaitFor(c08Bound+time.Second, func() bool { return atomic.LoadInt32(&c08H2Active) == 0 })
		if atomic.LoadInt32(&run.rstSeen) == 1 {
			o.rst = "1"
		}
	}
	o.sleeps = int(atomic.LoadInt32(&run.startsAfterFire))

	// follow-up request on the same client
	d.run.Store(nil)
	before := atomic.LoadInt32(&d.n)
	resp, err := c.R().Get(peer.url("/plain"))
	if err == nil {
		var b []byte
		b, err = io.ReadAll(resp.Body)
		resp.Body.Close()
		if err == nil && string(b) != "ok" {
			err = fmt.Errorf("follow-up body %q", b)
		}
	}
	o.follow = err
	if atomic.LoadInt32(&d.n) == before {
		o.conn = "reuse"
	} else {
		o.conn = "new"
	}
	if sc.waitConn || (sc.reused && o.firedNm == "start") {
		// the request never claimed a connection: whether the follow-up finds one in the pool is
		// decided by the other requests of the scenario, not by this one
		o.conn = "?"
	}
	if o.firedNm == "delivered" {
		// the hook runs in the dial goroutine AFTER the hand-over: the request may already be past
		// its header write when the injection happens, so whether a stream existed is open
		o.rst = "?"
	}
	if sc.proto == "h3" && strings.HasPrefix(o.firedNm, "dial") {
		// whether a stream existed (and was reset) when the dial result raced the cancellation is
		// not fixed by the model's atomic pick-up; not a clause of the property either
		o.rst = "?"
	}

	// census: with the idle connections closed nothing of the library may keep running
	if h3 != nil {
		// first with the QUIC connection still open: only connection-level goroutines may remain
		// (closing the connection would also release goroutines stuck on one request's stream)
		deadline := time.Now().Add(c08Bound + time.Second)
		for {
			var per []string
			for _, g := range c08Census() {
				if !c08H3ConnLevel(g) {
					per = append(per, g)
				}
			}
			if len(per) <= base || time.Now().After(deadline) {
				if len(per) > base {
					o.leak = per
				}
				break
			}
			time.Sleep(5 * time.Millisecond)
		}
		c.GetTransport().t3.Close()
	}
	// (the peer stays up meanwhile: hanging up would also end the loops of a connection that was
	// neither closed nor returned to the pool)
	c.GetTransport().CloseIdleConnections()
	if h3 != nil {
		// After a deadline (or any non-context error) the HTTP/3 round tripper forgets the QUIC
		// connection without closing it; its connection-level goroutines live on until the QUIC
		// idle timeout. Bounded, and not work for the request: counted, not judged.
		deadline := time.Now().Add(c08Bound)
		for {
			per, orphan := 0, 0
			var stacks []string
			for _, g := range c08Census() {
				if c08H3ConnLevel(g) {
					orphan++
				} else {
					per++
					stacks = append(stacks, g)
				}
			}
			if per <= base || time.Now().After(deadline) {
				if per > base {
					o.leak = append(o.leak, stacks...)
				}
				o.orphan = orphan
				break
			}
			time.Sleep(5 * time.Millisecond)
		}
		peer.close() // ends the orphaned connection
		c08Settle(base, c08Bound)
		return
	}
	if l := c08Settle(base, c08Bound+time.Second); len(l) > 0 {
		// look again, longer, before calling it a leak (a stalled machine delays goroutine exit too)
		if l = c08Settle(base, 2*c08Bound); len(l) > 0 {
			o.leak = append(o.leak, l...)
		}
	}
	return
}

func c08IdleCount(t *Transport) int {
	t.idleMu.Lock()
	defer t.idleMu.Unlock()
	n := 0
	for _, l := range t.idleConn {
		n += len(l)
	}
	return n
}

func c08HasGoroutine(fn string) bool {
	for _, g := range c08Census() {
		if strings.Contains(g, fn) {
			return true
		}
	}
	return false
}

// c08Judge is the independent oracle: the property's clauses, checked on the observation alone.
func c08Judge(o c08Obs) (ok bool, failed []string, class string) {
	if !o.fired {
		return true, nil, ""
	}
	want := o.kind
	if o.res != want && o.res != "h3cancel" {
		failed = append(failed, "error-class="+o.res)
	}
	if o.hung || o.elapsed > c08Bound {
		failed = append(failed, fmt.Sprintf("not-prompt(%v)", o.elapsed.Round(time.Millisecond)))
	}
	if o.body == "open" {
		failed = append(failed, "request-body-not-closed")
	}
	if o.readsAft > 1 {
		failed = append(failed, fmt.Sprintf("reads-after-close=%d", o.readsAft))
	}
	if o.sleeps > 0 {
		failed = append(failed, fmt.Sprintf("attempts-started-after-cancel=%d", o.sleeps))
	}
	if o.follow != nil {
		failed = append(failed, "follow-up-failed:"+c08Class(o.follow))
	}
	if len(o.leak) > 0 {
		failed = append(failed, "goroutines-left:"+c08TopFrames(o.leak))
	}
	if len(failed) == 0 {
		return true, nil, ""
	}
	// recorded defects and exactly their symptoms:
	//  retry-sleep-ignores-ctx — the wait between attempts ignores the context: a late return
	//    and/or a further attempt started after the cancellation, in scenarios with retries;
	//  h3-cancel-before-stream — HTTP/3 returns early (waiting for the dial / handshake / stream)
	//    without closing the request body, and leaves a dial error caused by the dead context in
	//    its client cache, which fails the NEXT request once.
	sleepSym, h3Sym, other := false, false, false
	for _, f := range failed {
		switch {
		case o.sc.maxRetries > 0 && strings.HasPrefix(f, "attempts-started-after-cancel"):
			sleepSym = true
		case o.sc.maxRetries > 0 && strings.HasPrefix(f, "not-prompt") && !o.hung &&
			o.elapsed <= time.Duration(o.sc.maxRetries)*o.sc.interval+time.Second:
			// late by no more than the remaining retry waits
			sleepSym = true
		case o.sc.proto == "h3" && (f == "request-body-not-closed" || strings.HasPrefix(f, "follow-up-failed:")):
			h3Sym = true
		default:
			other = true
		}
	}
	switch {
	case other:
	case sleepSym && h3Sym:
		class = "h3-cancel-before-stream+retry-sleep-ignores-ctx"
	case sleepSym:
		class = "retry-sleep-ignores-ctx"
	case h3Sym:
		class = "h3-cancel-before-stream"
	}
	return false, failed, class
}

func c08Line(o c08Obs) (line, impl string) {
	tls := "0"
	if o.sc.proto == "h2" {
		tls = "1"
	}
	impl = fmt.Sprintf("res=%s body=%s conn=%s rst=%s sleeps=%d", o.res, o.body, o.conn, o.rst, o.sleeps)
	auto := "0"
	if o.sc.autoRead {
		auto = "1"
	}
	tr := c08ModelTrace(o.trace)
	if o.sc.autoRead && (o.firedNm == "hdrSent" || strings.HasPrefix(o.firedNm, "sent#")) {
		tr += "~" // observed at the peer: the client may not have processed it yet
	}
	kind := o.kind
	if o.timeout {
		kind = "timeout"
	}
	line = fmt.Sprintf("c08life %s %s %d %d %d 1 %s %s %s %s", o.sc.proto, tls, o.sc.up, o.sc.down, o.sc.maxRetries, auto,
		tr, kind, impl)
	return
}

// c08H3Line renders an HTTP/3 script observation for the driver lane c08h3life (`Req/Pool/CancelH3.lean`):
// the trace of model events / steps that leads to the injection point, and what was observed afterwards.
// Only points the stream-level model speaks about: from the request head on, no retries, no
// "Expect: 100-continue", no peer-side points (the client may not have processed them yet).
func c08H3Line(o c08Obs) (line, impl string) {
	sc := o.sc
	if sc.proto != "h3" || !o.fired || o.hung || sc.maxRetries > 0 || sc.expect > 0 || sc.waitConn {
		return "", ""
	}
	tr := []string{"ev:hsDone", "ev:streamOpen", "act:cSendHdr"}
	chunks := func(n int) {
		for i := 0; i < n; i++ {
			tr = append(tr, "act:uRead", "ev:credit")
		}
	}
	upDone := func() {
		if sc.up > 0 {
			chunks(sc.up)
			tr = append(tr, "act:uEOF", "act:uClose", "act:uFin")
		}
	}
	afterResp := false
	nm := o.firedNm
	interims := func(n int) {
		for i := 0; i < n; i++ {
			tr = append(tr, "ev:peerInterim")
		}
	}
	switch {
	case strings.HasPrefix(nm, "interim#"):
		var i int
		fmt.Sscanf(nm, "interim#%d", &i)
		upDone()
		interims(i + 1)
	case nm == "wroteHdr":
	case strings.HasPrefix(nm, "wrote#"):
		var i int
		fmt.Sscanf(nm, "wrote#%d", &i)
		chunks(i + 1)
	case nm == "wroteLast":
		upDone()
	case nm == "gotHeaders" || strings.HasPrefix(nm, "gotBody#"):
		upDone()
		interims(sc.interim)
		tr = append(tr, "ev:peerHeaders", "act:cRespOk")
		afterResp = true
	default:
		return "", ""
	}
	want := o.kind
	ret, read := o.res, "-"
	if afterResp {
		ret, read = "resp", o.res
		if read == want {
			read = "h3cancel" // (relabelled by net/http's cancelTimerBody under Client.Timeout: same meaning)
		}
	}
	closes := 0
	switch o.body {
	case "none", "open":
	case "closed1":
		closes = 1
	default:
		fmt.Sscanf(o.body, "closed%d", &closes)
	}
	upl := "gone"
	for _, g := range o.leak {
		if strings.Contains(g, "sendRequestBody") {
			upl = "parked"
		}
	}
	hasBody := 0
	if sc.up > 0 {
		hasBody = 1
	}
	// rst (our send side reset) is not observed by the script peer; its request context ending = our
	// receive side stopped
	impl = fmt.Sprintf("ret=%s;read=%s;closes=%d;upl=%s;rst=?;stop=%s", ret, read, closes, upl, o.rst)
	line = fmt.Sprintf("c08h3life %d %s %s %s", hasBody, strings.Join(tr, ","), want, impl)
	return
}

func c08Scenarios(proto string) []c08Scenario {
	iv := time.Duration(verifh.N(150, 300)) * time.Millisecond
	l := []c08Scenario{
		{name: "fresh", proto: proto, down: 1},
		{name: "reused", proto: proto, down: 1, reused: true},
		{name: "upload", proto: proto, up: 4, down: 1},
		{name: "upload-reused", proto: proto, up: 3, down: 1, reused: true},
		{name: "download", proto: proto, down: 5},
		{name: "retry", proto: proto, down: 2, failFirst: 1, maxRetries: 2, interval: iv},
		{name: "retry-upload", proto: proto, up: 2, down: 1, failFirst: 1, maxRetries: 1, interval: iv},
		// rare but legal: a negative retry count = retry without limit
		{name: "retry-unlimited", proto: proto, down: 1, failFirst: 2, maxRetries: 9, unlimited: true, interval: iv / 3},
		// rare but legal: the context is not on the request when the call starts — a client-level
		// middleware binds every request to an application context / a retry hook gives the attempts
		// that follow a context of their own
		{name: "retry-ctx-middleware", proto: proto, down: 1, failFirst: 1, maxRetries: 1, interval: iv, ctxVia: "middleware"},
		{name: "retry-ctx-hook", proto: proto, down: 1, failFirst: 2, maxRetries: 2, interval: iv, ctxVia: "hook"},
	}
	// rare but legal: "Expect: 100-continue" — after the request head the transport holds the body
	// back until the peer says "100 Continue" (or ExpectContinueTimeout, far beyond the promptness
	// bound here, is over): the point wroteHdr is then a cancellation DURING that wait
	l = append(l,
		c08Scenario{name: "upload-expect", proto: proto, up: 2, down: 1, expect: 5 * time.Second},
		c08Scenario{name: "upload-expect-reused-retry", proto: proto, up: 1, down: 1, expect: 5 * time.Second, reused: true,
			failFirst: 1, maxRetries: 1, interval: iv})
	if verifh.Thorough() && proto != "h3" {
		// the peer never answers 100: the (short) timeout releases the body
		l = append(l, c08Scenario{name: "upload-expect-timeout", proto: proto, up: 2, down: 1, expect: 120 * time.Millisecond, noContinue: true})
	}
	// auto-read: a body read that fails is an attempt failure inside Request.do. (On h3 the pending
	// read reports the stream error, not the context error, and which of the two the caller gets
	// depends on whether the headers had been processed — with a retry left both end the same.)
	if proto == "h3" {
		l = append(l, c08Scenario{name: "download-autoread", proto: proto, down: 4, autoRead: true, maxRetries: 1, interval: iv})
	} else {
		l = append(l, c08Scenario{name: "download-autoread", proto: proto, down: 4, autoRead: true})
	}
	// rare but legal: interim responses (103 Early Hints) BEFORE the final header — 1xx prefix of length 0..3:
	// a cancellation after the k-th interim response, while waiting for the final header and while reading
	// the body, still has to interrupt
	l = append(l,
		c08Scenario{name: "download-interim", proto: proto, down: 2, interim: 2},
		c08Scenario{name: "upload-interim", proto: proto, up: 1, down: 1, interim: 1})
	if verifh.Thorough() {
		l = append(l,
			c08Scenario{name: "interim3-reused", proto: proto, down: 1, interim: 3, reused: true},
			c08Scenario{name: "upload-interim3", proto: proto, up: 2, down: 2, interim: 3},
			c08Scenario{name: "retry-interim", proto: proto, down: 1, interim: 1, failFirst: 1, maxRetries: 1, interval: iv})
	}
	if proto == "h1" {
		l = append(l, c08Scenario{name: "waitconn", proto: proto, down: 1, waitConn: true})
	}
	if verifh.Thorough() {
		l = append(l,
			c08Scenario{name: "upload-long", proto: proto, up: 12, down: 2},
			c08Scenario{name: "download-long", proto: proto, down: 14, reused: true},
			c08Scenario{name: "retry-twice", proto: proto, up: 1, down: 2, failFirst: 2, maxRetries: 3, interval: iv})
	}
	return l
}

var c08Mu sync.Mutex

// c08ScriptLane: every scenario x kind x injection point (stratified in the quick tier).
func c08ScriptLane(t *testing.T, proto string, lane string) {
	c08Mu.Lock()
	defer c08Mu.Unlock()
	s := verifh.New(t, "C08", lane,
		"scenarios {fresh conn, reused conn, streaming upload (fresh/reused), upload with Expect: 100-continue (body held back; ExpectContinueTimeout 5 s), multi-chunk download, retry with interval (GET/upload), waiting for a connection} on "+proto+" against a scripted peer + instrumented dialer; the context is cancelled (context.WithCancel) or its deadline passes (event-driven deadline context) synchronously after the k-th observable event (before the attempt, dial start/finish, TLS handshake done, connection delivered to the waiting request, request head received, i-th upload chunk received, response headers returned, j-th body chunk read, retry wait entered) for every k (quick tier: first, last and one seeded pick per kind of event), plus Client.SetTimeout expiring while the exchange is stalled at a point, plus a cancellation in the middle of a long retry wait; observed: error class, time from injection to return (bound 2 s), Close on every request body, attempts started after the injection, follow-up request on the same client (and whether it had to dial), RST seen by the h2 origin, library goroutines left after CloseIdleConnections; compared with the lifecycle model's set of allowed outcomes for that (scenario, point) and judged by an independent oracle; non-trivial = injection fired")
	s.OracleIndependent = false
	rnd := s.Rand()
	cnt := map[string]int{}
	count := func(k string) { cnt[k]++; s.Count(k) }
	hung := false
	var record func(o c08Obs, id string, n int)
	confirmed := map[string]bool{}
	slowOnce := func(o c08Obs) bool {
		if o.hung || (!o.fired && o.trigger >= 0) {
			return true
		}
		return o.fired && !o.early && o.elapsed > c08Bound
	}
	record0 := func(o c08Obs, id string, n int) {
		// a call that does not return (in time) / a script that does not get to its point has to
		// show twice: a stalled, shared machine produces the same picture once
		if slowOnce(o) && !confirmed[id] {
			confirmed[id] = true
			count("slow-case-run-again")
			o2 := c08Exec(o.sc, o.kind, o.trigger, o.timeout, 1500*time.Millisecond)
			if !slowOnce(o2) {
				o = o2
			}
		}
		record(o, id, n)
	}
	record = func(o c08Obs, id string, n int) {
		if o.hung {
			hung = true // the stuck call keeps its goroutines: later censuses would be polluted
		}
		if !o.fired {
			// the exchange ended before reaching the point (must not happen: same script)
			s.Observe(id, false, "", true, id, fmt.Sprintf("injection point %d of %d never reached; res=%s err=%v hung=%v events=%v", o.trigger, n, o.res, o.err, o.hung, o.names))
			return
		}
		ok, failed, class := c08Judge(o)
		line, impl := c08Line(o)
		count("point=" + strings.SplitN(o.firedNm, "#", 2)[0])
		count("res=" + o.res)
		count("conn=" + o.conn)
		count("body=" + o.body)
		if o.rst == "1" {
			count("rst-seen")
		}
		if o.orphan > 0 {
			count("h3-forgotten-conn-left-to-idle-timeout")
		}
		what := o.kind
		if o.timeout {
			what = "client timeout while stalled"
		}
		human := fmt.Sprintf("%s %s: %s after %s (event %d/%d, trace %s) -> %s, returned %v after the injection",
			o.sc.proto, o.sc.name, what, o.firedNm, o.trigger, n, c08ModelTrace(o.trace), impl, o.elapsed.Round(time.Millisecond))
		if !ok {
			human += " FAILED: " + strings.Join(failed, ", ")
		}
		s.Case(line, impl, ok, class, true, human)
		if h3line, h3impl := c08H3Line(o); h3line != "" {
			// the same observation seen by the HTTP/3 lifecycle model (program counters of caller,
			// watcher and upload goroutine): the outcome must be one the model reaches
			count("h3life")
			s.Case(h3line, h3impl, ok, class, true, human)
		}
	}
	for _, sc := range c08Scenarios(proto) {
		if hung {
			break
		}
		// dry run: the exchange completes and tells how many injection points it has
		dry := c08Exec(sc, "canceled", -1, false, 0)
		if dry.hung || dry.res != "ok" || dry.follow != nil {
			s.Observe(fmt.Sprintf("%s/%s/dry", proto, sc.name), false, "", true,
				fmt.Sprintf("%s %s without injection", proto, sc.name),
				fmt.Sprintf("un-injected exchange failed: res=%s err=%v follow=%v events=%v", dry.res, dry.err, dry.follow, dry.names))
			continue
		}
		if len(dry.leak) > 0 {
			s.Observe(fmt.Sprintf("%s/%s/dry-leak", proto, sc.name), false, "", true,
				fmt.Sprintf("%s %s without injection", proto, sc.name), "goroutines left: "+c08TopFrames(dry.leak))
		}
		count("dry-ok")
		n := dry.nInj
		for _, kind := range []string{"canceled", "deadline"} {
			var picks []int
			if verifh.Thorough() || n <= 4 {
				for k := 0; k < n; k++ {
					picks = append(picks, k)
				}
			} else {
				// stratified: the first and the last point, and one seeded pick per kind of event
				seen := map[int]bool{}
				add := func(k int) {
					if k >= 0 && k < n && !seen[k] {
						seen[k] = true
						picks = append(picks, k)
					}
				}
				add(0)
				add(n - 1)
				byClass := map[string][]int{}
				var order []string
				for k, nm := range dry.injNames {
					cl := strings.SplitN(nm, "#", 2)[0]
					if _, ok := byClass[cl]; !ok {
						order = append(order, cl)
					}
					byClass[cl] = append(byClass[cl], k)
				}
				for _, cl := range order {
					l := byClass[cl]
					add(l[rnd.Intn(len(l))])
				}
			}
			if sc.waitConn {
				picks = []int{0}
			}
			if sc.ctxVia == "hook" {
				// the context exists from the first retry hook on
				picks = nil
				first := -1
				for k, nm := range dry.injNames {
					if nm == "sleepStart" && first < 0 {
						first = k
					}
					if first >= 0 && (verifh.Thorough() || nm == "sleepStart" || k == n-1) {
						picks = append(picks, k)
					}
				}
			}
			for _, k := range picks {
				if hung {
					break
				}
				o := c08Exec(sc, kind, k, false, 0)
				record0(o, fmt.Sprintf("%s/%s/%s/%d", proto, sc.name, kind, k), n)
			}
		}

		// the client timeout (Client.SetTimeout) expiring while the exchange is stalled at a point:
		// a real timer, so only the generous bound is asserted; per attempt, so without retries
		if sc.maxRetries == 0 && !sc.waitConn && (verifh.Thorough() || sc.name == "fresh" || sc.name == "upload" || sc.name == "download" || sc.name == "upload-expect" || sc.name == "download-interim") {
			var picks []int
			if verifh.Thorough() {
				for k := 0; k < n; k++ {
					picks = append(picks, k)
				}
			} else {
				picks = []int{1 + rnd.Intn(n-1), n - 1}
				if picks[0] == picks[1] {
					picks = picks[:1]
				}
			}
			for _, k := range picks {
				if hung {
					break
				}
				if nm := dry.injNames[k]; nm == "start" || nm == "delivered" {
					continue // no place to stall at: the next event is where the exchange would hang
				}
				to := 250 * time.Millisecond
				o := c08Exec(sc, "deadline", k, true, to)
				if o.early && !o.hung {
					// the timer beat the script to the stall point (loaded machine): once more, slower
					count("timeout-early-retry")
					to = 1500 * time.Millisecond
					o = c08Exec(sc, "deadline", k, true, to)
				}
				if o.early && !o.hung {
					count("timeout-inconclusive")
					continue
				}
				count("client-timeout")
				record0(o, fmt.Sprintf("%s/%s/client-timeout/%d", proto, sc.name, k), n)
			}
		}
	}
	// cancellation in the MIDDLE of a long retry wait: the wall-clock face of the retry-sleep clause
	if (proto == "h1" || verifh.Thorough()) && !hung {
		sc := c08Scenario{name: "retry-midsleep", proto: proto, down: 1, failFirst: 1, maxRetries: 1,
			interval: 2500 * time.Millisecond, midSleep: 40 * time.Millisecond}
		kinds := []string{"canceled"}
		if verifh.Thorough() {
			kinds = append(kinds, "deadline")
		}
		for _, via := range []string{"", "middleware", "hook"} {
			for _, kind := range kinds {
				// injectable events: start, dialStart, dialDone, [hsDone,] delivered, wroteHdr, sleepStart, …
				idx := 5
				if proto == "h2" {
					idx = 6
				}
				sc.ctxVia = via
				o := c08Exec(sc, kind, idx, false, 0)
				if o.firedNm != "sleepStart" || o.early {
					count("midsleep-inconclusive")
					continue
				}
				count("midsleep")
				if via != "" {
					count("midsleep-ctx-" + via)
				}
				record0(o, fmt.Sprintf("%s/retry-midsleep%s/%s", proto, via, kind), 0)
			}
		}
	}
	must := []string{"dry-ok", "point=dialStart", "point=dialDone", "point=wroteHdr", "point=wrote", "point=wroteLast",
		"point=gotHeaders", "point=gotBody", "point=sleepStart", "point=interim", "point=hdrSent", "point=sent", "point=start", "res=canceled", "res=deadline", "conn=reuse", "body=closed1", "body=none"}
	must = append(must, "client-timeout")
	switch proto {
	case "h1":
		must = append(must, "conn=new", "point=getConn", "midsleep", "midsleep-ctx-middleware", "midsleep-ctx-hook", "point=delivered")
	case "h2":
		must = append(must, "point=hsDone", "rst-seen", "point=delivered")
	case "h3":
		must = append(must, "rst-seen", "h3life")
	}
	if hung {
		must = nil // the lane stopped at the first call that never returned (reported above)
	}
	for _, want := range must {
		if cnt[want] == 0 {
			t.Errorf("lane %s: bucket %q not reached", lane, want)
		}
	}
	s.Finish()
}

func TestVerif_C08_script_h1(t *testing.T) { c08ScriptLane(t, "h1", "script_h1") }
func TestVerif_C08_script_h2(t *testing.T) { c08ScriptLane(t, "h2", "script_h2") }
