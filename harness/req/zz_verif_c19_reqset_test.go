//go:build verif

package req

// C19 lane `reqset`: EVERY request-level setter (every exported method of *Request that returns
// *Request, found by reflection; arguments by parameter type) leaves no trace on the client, on other
// requests, on later requests or on clones — whenever in the request's life it is called:
//
//   fresh            on a new request: the client's deep settings digest and another request's digest are unchanged;
//   caller-keeps     the caller overwrites and extends the map / slice it passed: the request's digest is unchanged
//                    (request-level half of the caller-aliasing class);
//   in-retry-hook    the setter is called from a retry hook (after the first attempt, before the second),
//   before-on-retry  … from a client-level OnBeforeRequest middleware when RetryAttempt > 0,
//   in-after-mw      … from a request-level OnAfterResponse middleware,
//   resend           … between two sends of the same *Request:
//                    afterwards the client's digest is what it was, and a fresh request of the client — and of a
//                    clone of it — is received by the origin exactly as a fresh request was before.
//
// The client carries settings of every mergeable family (headers canonical / non-canonical, cookies, path,
// query and form parameters, retry and dump options, middleware), so that the merges of the first attempt
// (parseRequestHeader / Cookie / Body / URL) have client data to hand to the request. Go-side oracle.

import (
	"fmt"
	"net/http"
	urlpkg "net/url"
	"path/filepath"
	"reflect"
	"sort"
	"strings"
	"testing"
	"time"

	"github.com/imroc/req/v3/internal/verifh"
)

var c19SkipRequestSetters = map[string]string{
	"SetClient":        "moves the request to another client",
	"EnableDumpToFile": "creates files",
	"SetFileUpload":    "no generated value for FileUpload",
}

func c19ReqsetClient(w *c19World) *Client {
	c := C()
	c.SetLogger(nil)
	c.SetTimeout(10 * time.Second)
	c.SetCommonHeader("X-K1", "v1").SetCommonHeaderNonCanonical("x-n7", "v2").SetCommonCookies(&http.Cookie{Name: "ck101", Value: "1"})
	c.SetCommonPathParam("p1", "y1").AddCommonQueryParam("q1", "w1").SetCommonFormData(map[string]string{"QQf1": "QQg1"})
	c.SetCommonFormDataFromValues(urlpkg.Values{"QQf2": {"QQg2", "QQg3"}})
	c.AddCommonRetryHook(func(*Response, error) {}).SetCommonDumpOptions(&DumpOptions{Output: w.bufs[1], RequestHeader: true})
	c.OnBeforeRequest(func(cl *Client, r *Request) error {
		if r.RetryAttempt > 0 && w.onRetry != nil {
			f := w.onRetry
			w.onRetry = nil
			f(r)
		}
		return nil
	})
	c.OnAfterResponse(func(cl *Client, resp *Response) error { return nil })
	return c
}

// what the origin received, verbatim (fresh requests of one client must be received identically)
func c19RawSeen(seen []c19Seen) string {
	var parts []string
	for _, s := range seen {
		var hs []string
		for k, vs := range s.header {
			hs = append(hs, k+"="+strings.Join(vs, "|"))
		}
		sort.Strings(hs)
		parts = append(parts, fmt.Sprintf("%s %s ?%s body=%q close=%v %s", s.method, s.path, s.rawQuery, s.body, s.close, strings.Join(hs, ";")))
	}
	return strings.Join(parts, " ## ")
}

func (w *c19World) freshPost(c *Client) string {
	w.mu.Lock()
	w.seen = nil
	w.mu.Unlock()
	_, err := c.R().Post(w.srv.URL + "/s1/{p1}")
	w.mu.Lock()
	defer w.mu.Unlock()
	if err != nil {
		return "error: " + err.Error()
	}
	return c19RawSeen(w.seen)
}

func c19RequestDigest(r *Request) string {
	return c19Digest(reflect.ValueOf(r).Elem(), func(o, f string) bool { return c19RuntimeFields[o+"."+f] })
}

func TestVerif_C19_reqset(t *testing.T) {
	s := verifh.New(t, "C19", "reqset",
		"every exported method of *Request returning *Request (reflection; arguments by parameter type, variadic calls spread the caller's own slice), on requests of a client that carries settings of every mergeable family: fresh (client digest and another request's digest unchanged), caller-keeps (caller overwrites / extends its map or slice argument: request digest unchanged), and the setter called after the first attempt — in a retry hook, in a client-level before-request middleware on RetryAttempt > 0, in a request-level after-response middleware, between two sends of the same request — after which the client's digest is unchanged and a fresh request of the client and of a clone of it is received by the origin exactly as before; Go-side oracle")
	w := c19NewWorld()
	defer w.close()
	r := s.Rand()
	tmp := t.TempDir()
	setters := c19Setters(reflect.TypeOf(&Request{}))
	if len(setters) < 70 {
		t.Errorf("only %d request setters found", len(setters))
	}
	url := w.srv.URL + "/s1/{p1}"
	report := func(kind, id string, ok bool, detail string) {
		s.Observe(kind+" "+id, ok, "", true, kind+": "+id, detail)
		s.Count(kind)
	}
	genArgs := func(st c19RSetter) (*c19ArgGen, []reflect.Value, bool) {
		g := &c19ArgGen{r: r, w: w}
		args, ok := g.args(st.m)
		if ok && strings.Contains(st.name, "OutputFile") {
			args[0] = reflect.ValueOf(filepath.Join(tmp, fmt.Sprintf("out%d", g.next())))
		}
		return g, args, ok
	}
	// call spreads the caller's own slice for a variadic method (f(s...)), as a caller that keeps s would
	call := func(st c19RSetter, q *Request, g *c19ArgGen, args []reflect.Value) {
		if st.m.Type.IsVariadic() && len(g.refs) > 0 && g.refs[len(g.refs)-1].Kind() == reflect.Slice {
			fixed := st.m.Type.NumIn() - 2
			st.m.Func.CallSlice(append(append([]reflect.Value{reflect.ValueOf(q)}, args[:fixed]...), g.refs[len(g.refs)-1]))
			return
		}
		st.m.Func.Call(append([]reflect.Value{reflect.ValueOf(q)}, args...))
	}
	for _, st := range setters {
		if why, skip := c19SkipRequestSetters[st.name]; skip {
			s.Count("skipped:" + st.name + ":" + why)
			continue
		}
		if _, _, ok := genArgs(st); !ok {
			s.Count("no-args:" + st.name)
			t.Errorf("no generated arguments for Request.%s", st.name)
			continue
		}
		s.Count("setter")
		// ---- on a fresh request
		for rep := 0; rep < 2; rep++ {
			g, args, _ := genArgs(st)
			ptxt, panicked := verifh.Safely(func() {
				c := c19ReqsetClient(w)
				other := c.R().SetHeader("X-K2", "v3").SetFormData(map[string]string{"QQf3": "QQg4"}).SetQueryParam("q2", "w2").SetCookies(&http.Cookie{Name: "ck102", Value: "1"})
				dc, dother := c19SettingsDigest(c, nil), c19RequestDigest(other)
				q := c.R()
				if rep == 1 {
					call(st, q, g, args) // the setting already has content
				}
				call(st, q, g, args)
				diff := c19DiffDigests(dc, c19SettingsDigest(c, nil))
				report("fresh", st.name, len(diff) == 0 && c19RequestDigest(other) == dother,
					fmt.Sprintf("client: %s; other request changed: %v", strings.Join(diff, " || "), c19RequestDigest(other) != dother))
				var refs []reflect.Value
				for _, rv := range g.refs {
					if rv.Kind() == reflect.Slice && rv.Type().Elem().Kind() == reflect.Uint8 {
						continue // SetBodyBytes & co. use the caller's bytes in place, by contract (like bytes.NewReader)
					}
					if rv.Kind() == reflect.Map || rv.Kind() == reflect.Slice {
						refs = append(refs, rv)
					}
				}
				if len(refs) > 0 {
					dq := c19RequestDigest(q)
					for i, rv := range refs {
						c19Mutate(rv, i+1)
					}
					dq2 := c19RequestDigest(q)
					report("caller-keeps", st.name, dq == dq2, "the request's settings changed when the caller changed its own argument after the call")
				}
			})
			if panicked {
				s.Crash("fresh "+st.name, st.name, ptxt, "")
			}
		}
		// ---- after the first attempt
		for _, mode := range []string{"in-retry-hook", "before-on-retry", "in-after-mw", "resend"} {
			g, args, _ := genArgs(st)
			id := st.name
			s.Begin(mode+" "+id, mode+" "+id)
			ptxt, panicked := verifh.Safely(func() {
				c := c19ReqsetClient(w)
				defer c.Transport.CloseIdleConnections()
				e0 := w.freshPost(c)
				dc := c19SettingsDigest(c, nil)
				q := c.R()
				called := false
				doit := func(x *Request) { called = true; call(st, x, g, args) }
				once := func(resp *Response, err error) bool { return resp.Request.RetryAttempt == 0 }
				switch mode {
				case "in-retry-hook":
					q.SetRetryCount(1).SetRetryFixedInterval(0).AddRetryCondition(once).AddRetryHook(func(resp *Response, err error) { doit(resp.Request) })
					q.Post(url)
				case "before-on-retry":
					w.onRetry = doit
					q.SetRetryCount(1).SetRetryFixedInterval(0).AddRetryCondition(once)
					q.Post(url)
					w.onRetry = nil
				case "in-after-mw":
					q.OnAfterResponse(func(cl *Client, resp *Response) error { doit(resp.Request); return nil })
					q.Post(url)
				case "resend":
					q.Post(url)
					doit(q)
					q.Post(url)
				}
				if !called {
					report(mode, id, false, "harness: the setter was never reached")
					return
				}
				diff := c19DiffDigests(dc, c19SettingsDigest(c, nil))
				e1 := w.freshPost(c)
				e2 := w.freshPost(c.Clone())
				report(mode, id, len(diff) == 0 && e1 == e0 && e2 == e0,
					fmt.Sprintf("client digest: %s; fresh request before: %s; after: %s; from a clone: %s", strings.Join(diff, " || "), e0, e1, e2))
			})
			if panicked {
				s.Crash(mode+" "+id, mode+" "+id, ptxt, "")
			}
		}
	}
	s.Finish()
}
