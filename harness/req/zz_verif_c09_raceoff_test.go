//go:build verif && !race

package req

// c09RaceEnabled: this test binary was built without the race detector.
const c09RaceEnabled = false
