//go:build verif

package req

// C04 — keep-alive / message-boundary agreement at the connection level (round 2 lane; scripted
// network of zz_verif_c04_seq_test.go since round 4): the fork's Transport
// and Go's net/http.Transport (the reference) each perform a SEQUENCE of two requests over the
// same scripted in-memory network; the first response comes from a grammar that stresses the
// keep-alive decision (terminal statuses <= 199, 101 with and without Upgrade, HTTP/1.0 with
// and without keep-alive, Connection variants, every framing, informational responses in
// front). Compared three-way: model (`c04cut`: outcome and number of connections), fork,
// reference: what each request returned and how many connections were dialled.

import (
	"context"
	"fmt"
	"io"
	"math/rand"
	"net"
	"net/http"
	"strconv"
	"strings"
	"testing"
	"time"

	"github.com/imroc/req/v3/internal/verifh"
)

const c04Second = "second-response-OK"

var c04SecondWire = "HTTP/1.1 200 OK\r\nContent-Length: " + strconv.Itoa(len(c04Second)) + "\r\n\r\n" + c04Second

type c04E2EMsg struct {
	wire string
	head bool
	tag  string
}

func c04GenE2E(r *rand.Rand) c04E2EMsg {
	var m c04E2EMsg
	status := c04W(r, []string{"200", "201", "404", "500", "204", "304", "101-plain", "101-upgrade", "042", "007", "099", "000", "100-final"},
		[]int{10, 2, 2, 2, 2, 2, 6, 2, 4, 2, 2, 1, 1})
	proto := c04W(r, []string{"HTTP/1.1", "HTTP/1.0"}, []int{8, 2})
	m.tag = status
	var hdr []string
	add := func(k, v string) { hdr = append(hdr, k+": "+v) }
	body := verifh.RandBytes(r, r.Intn(40), "abcdefghijklmnopqrstuvwxyz0123456789")
	wire := ""
	code := status
	switch status {
	case "101-plain":
		code = "101" // terminal for readResponse, but no protocol switch: no Upgrade headers
		if r.Intn(2) == 0 {
			add("X-A", "b")
		}
	case "101-upgrade":
		code = "101"
		add("Connection", "Upgrade")
		add("Upgrade", "verif")
	case "100-final":
		// an informational response that is never followed by a final one is covered by the
		// cut lanes; here: 100 then a plain 200
		code = "200"
		wire = "HTTP/1.1 100 Continue\r\n\r\n"
		m.tag = "100-then-200"
		fallthrough
	default:
		m.head = r.Intn(10) == 0
		noBody := code == "204" || code == "304"
		switch {
		case noBody:
			if r.Intn(2) == 0 {
				add("Content-Length", strconv.Itoa(len(body)))
			}
			body = ""
		case proto == "HTTP/1.1" && r.Intn(2) == 0:
			add("Transfer-Encoding", "chunked")
			enc := ""
			for rest := body; len(rest) > 0; {
				k := 1 + r.Intn(len(rest))
				enc += strconv.FormatInt(int64(k), 16) + "\r\n" + rest[:k] + "\r\n"
				rest = rest[k:]
			}
			body = enc + "0\r\n\r\n"
			m.tag += "/chunked"
		default:
			add("Content-Length", strconv.Itoa(len(body)))
			m.tag += "/len"
		}
		if m.head {
			body = ""
			m.tag += "/HEAD"
		}
	}
	switch r.Intn(8) {
	case 0:
		if !strings.HasPrefix(status, "101") {
			add("Connection", "close")
			m.tag += "/close"
		}
	case 1:
		if !strings.HasPrefix(status, "101") {
			add("Connection", verifh.Pick(r, []string{"keep-alive", "Keep-Alive", "x, keep-alive"}))
			m.tag += "/keep-alive"
		}
	}
	if proto == "HTTP/1.0" {
		m.tag += "/1.0"
	}
	if r.Intn(8) == 0 {
		wire += verifh.Pick(r, []string{"HTTP/1.1 103 Early Hints\r\nLink: </a>; rel=preload\r\n\r\n", "HTTP/1.1 100 Continue\r\n\r\n"})
		m.tag += "/1xx-first"
	}
	r.Shuffle(len(hdr), func(i, j int) { hdr[i], hdr[j] = hdr[j], hdr[i] })
	wire += proto + " " + code + " Status\r\n"
	for _, h := range hdr {
		wire += h + "\r\n"
	}
	wire += "\r\n" + body
	m.wire = wire
	return m
}

// c04RunSeq performs the two-request sequence through rt and renders what happened.
func c04RunSeq(rt http.RoundTripper, head bool, dials func() int, unstick func()) (first string, second string, nDials int) {
	one := func(method string) string {
		type res struct{ s string }
		ch := make(chan res, 1)
		go func() {
			rq, _ := http.NewRequest(method, "http://c04.invalid/x", nil)
			resp, err := rt.RoundTrip(rq)
			if err != nil || resp == nil {
				ch <- res{"fail"}
				return
			}
			var b []byte
			if resp.StatusCode == 101 && resp.Header.Get("Upgrade") != "" {
				// the body is the connection itself (protocol switch): nothing to read
				resp.Body.Close()
			} else {
				var rerr error
				b, rerr = io.ReadAll(resp.Body)
				resp.Body.Close()
				if rerr != nil {
					ch <- res{"fail"}
					return
				}
			}
			ch <- res{"ok code=" + strconv.Itoa(resp.StatusCode) + " body=" + verifh.Hex(string(b))}
		}()
		select {
		case x := <-ch:
			return x.s
		case <-time.After(10 * time.Second):
			unstick()
			return "hang"
		}
	}
	m := "GET"
	if head {
		m = "HEAD"
	}
	first = one(m)
	second = one("GET")
	return first, second, dials()
}

func TestVerif_C04_keepalive(t *testing.T) {
	s := verifh.New(t, "C04", "keepalive",
		"two sequential requests through the fork's Transport and through net/http.Transport (go1.23.5) over the same scripted in-memory network; first response from a keep-alive grammar: "+
			"statuses 200/201/404/500/204/304, terminal 101 without and with Upgrade headers, statuses below 100 (042, 007, 099, 000) with a declared body, HTTP/1.0 and 1.1, Connection close/keep-alive variants, "+
			"Content-Length and chunked framing, HEAD, informational responses in front; the peer keeps the connection open (or ends it after the response); the second request is served on the same connection "+
			"if the client reuses it, else on a new one. Compared: result of both requests and the number of connections dialled, model (c04cut) vs fork vs reference; non-trivial = first response accepted")
	s.OracleIndependent = true
	r := s.Rand()
	n := verifh.N(3000, 30000)
	reached := map[string]int{}
	hangs := 0
	for i := 0; i < n && hangs < 3; i++ {
		m := c04GenE2E(r)
		mode := "hold"
		if r.Intn(5) == 0 {
			mode = "eof"
		}
		mk := func() *c04sNet {
			first := c04sScript{segs: []string{m.wire, c04SecondWire}}
			if mode != "hold" {
				first = c04sScript{segs: []string{m.wire}, eof: true}
			}
			return &c04sNet{scripts: []c04sScript{first, {segs: []string{c04SecondWire, c04SecondWire}}, {segs: []string{c04SecondWire}}}, max: verifh.Pick(r, []int{0, 0, 1, 7})}
		}
		// fork
		nwF := mk()
		tr := T()
		tr.DialContext = nwF.dial
		tr.DisableCompression = true
		tr.DisableAutoDecode()
		f1, f2, fd := c04RunSeq(tr, m.head, nwF.nDials, nwF.closeAll)
		tr.CloseIdleConnections()
		nwF.closeAll()
		// reference
		nwR := mk()
		ref := &http.Transport{DialContext: func(ctx context.Context, network, addr string) (net.Conn, error) { return nwR.dial(ctx, network, addr) }, DisableCompression: true}
		r1, r2, rd := c04RunSeq(ref, m.head, nwR.nDials, nwR.closeAll)
		ref.CloseIdleConnections()
		nwR.closeAll()
		if f1 == "hang" || f2 == "hang" || r1 == "hang" || r2 == "hang" {
			hangs++ // each costs the 10 s watchdog; three are enough to report
		}
		want2 := "ok code=200 body=" + verifh.Hex(c04Second)
		agree := f1 == r1 && f2 == r2 && fd == rd
		ok := agree && f2 == want2
		why := ""
		if !agree {
			why = fmt.Sprintf("reference: req1 %s | req2 %s | connections=%d", c04Short(r1), c04Short(r2), rd)
		} else if f2 != want2 {
			why = "the second request did not get its own response"
		}
		mtag := "G"
		if m.head {
			mtag = "H"
		}
		for _, tg := range strings.Split(m.tag, "/") {
			s.Count("gen:" + tg)
			reached["gen:"+tg]++
		}
		s.Count("mode:" + mode)
		s.Count("connections=" + strconv.Itoa(fd))
		reached["connections="+strconv.Itoa(fd)]++
		first := f1
		if !strings.HasPrefix(f1, "ok") {
			first = "fail"
		}
		human := fmt.Sprintf("%s %s %s -> req1 %s | req2 %s | connections=%d", mtag, mode, c04Short(m.wire), c04Short(f1), c04Short(f2), fd)
		if why != "" {
			human += " BUT " + why
		}
		s.Case("c04cut "+mtag+" "+mode+" "+verifh.Hex(m.wire)+" "+strconv.Itoa(len(m.wire)), first+" dials="+strconv.Itoa(fd), ok, "", strings.HasPrefix(f1, "ok"), human)
	}
	s.Finish()
	for _, need := range []string{"gen:101-plain", "gen:101-upgrade", "gen:042", "gen:099", "gen:1.0", "gen:keep-alive", "gen:close", "gen:chunked", "gen:HEAD", "gen:1xx-first", "connections=1", "connections=2"} {
		if reached[need] == 0 {
			t.Errorf("C04/keepalive never reached %q", need)
		}
	}
}
