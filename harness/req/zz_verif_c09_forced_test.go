//go:build verif

package req

import (
	"fmt"
	"io"
	"log"
	"net/http"
	"net/http/httptest"
	"strconv"
	"strings"
	"sync"
	"testing"
	"time"

	"github.com/imroc/req/v3/internal/verifh"
	xh2c09 "golang.org/x/net/http2"
)

// TestVerif_C09_handoff: late binding under MaxConnsPerHost. Callers are already queued for a
// connection (seen in idleConnWait through in-package access) when the only connection becomes
// free; the origin closes that keep-alive connection right after the response without
// announcing it (a server's keep-alive limit). The queued callers get the dead connection
// handed over directly and must be retried transparently on a new one, exactly like callers
// that take a dead connection out of the idle list: everybody gets the response to its own request.
func TestVerif_C09_handoff(t *testing.T) {
	s := verifh.New(t, "C09", "handoff",
		"MaxConnsPerHost=1, request A in flight on the only connection (origin delays 120 ms), 1..3 GET callers queued in idleConnWait (verified under idleMu) before A's response; the origin answers A and closes the connection silently; variants: A GET/POST, response sizes 0/100/9000, Content-Length/chunked; oracle: every caller gets a 200 echoing its own tag and body; non-trivial = the callers were queued before the connection was released")
	r := s.Rand()
	n := verifh.N(4, 30)
	for cs := 0; cs < n; cs++ {
		rec := newC09Rec()
		o, err := newC09H1Origin(rec, 1, "", 0)
		if err != nil {
			t.Fatalf("listen: %v", err)
		}
		cl := C().SetTimeout(8 * time.Second)
		cl.SetLogger(nil)
		tr := cl.GetTransport()
		tr.Proxy = nil
		tr.MaxConnsPerHost = 1
		waiters := 1 + r.Intn(3)
		planA := c09Plan{delay: 120, size: verifh.Pick(r, []int{0, 100, 9000}), chunked: r.Intn(2) == 0, silent: true}
		postA := r.Intn(3) == 0
		human := fmt.Sprintf("A(post=%v plan %s) holds the only connection, %d GET callers queued, origin closes the connection silently after A's response", postA, planA.String(), waiters)
		s.Begin(fmt.Sprintf("handoff-%d", cs), human)
		type res struct {
			who string
			err error
		}
		results := make(chan res, waiters+1)
		do := func(who string, tag int, post bool, pl c09Plan) {
			rq := cl.R().SetHeader("X-Tag", strconv.Itoa(tag)).SetHeader("X-Plan", pl.String())
			var resp *Response
			var err error
			if post {
				resp, err = rq.SetBodyBytes(c09Pattern(tag, 100, "q")).Post("http://" + o.addr() + "/h")
			} else {
				resp, err = rq.Get("http://" + o.addr() + "/h")
			}
			if err == nil && (resp.StatusCode != 200 || resp.Header.Get("X-Tag") != strconv.Itoa(tag) || string(resp.Bytes()) != string(c09Pattern(tag, pl.size, "r"))) {
				err = fmt.Errorf("got status %d tag %q (%d body bytes), not its own response", resp.StatusCode, resp.Header.Get("X-Tag"), len(resp.Bytes()))
			}
			results <- res{who, err}
		}
		tagA := cs*10 + 1
		go do("A", tagA, postA, planA)
		// wait until the origin has A's request, then queue the waiters
		deadline := time.Now().Add(3 * time.Second)
		for {
			rec.mu.Lock()
			seen := false
			for _, e := range rec.evs {
				if strings.HasPrefix(e, "3.") && strings.HasSuffix(e, "."+strconv.Itoa(tagA)) {
					seen = true
				}
			}
			rec.mu.Unlock()
			if seen || time.Now().After(deadline) {
				break
			}
			time.Sleep(200 * time.Microsecond)
		}
		for w := 0; w < waiters; w++ {
			go do("B"+strconv.Itoa(w), cs*10+2+w, false, c09Plan{size: verifh.Pick(r, []int{0, 50, 3000})})
		}
		queued := 0
		for time.Now().Before(deadline) {
			tr.idleMu.Lock()
			queued = 0
			for _, q := range tr.idleConnWait {
				queued += q.len()
			}
			tr.idleMu.Unlock()
			if queued >= waiters {
				break
			}
			time.Sleep(200 * time.Microsecond)
		}
		ok := true
		var detail []string
		for i := 0; i < waiters+1; i++ {
			select {
			case rs := <-results:
				if rs.err != nil {
					ok = false
					detail = append(detail, rs.who+": "+rs.err.Error())
				}
			case <-time.After(15 * time.Second):
				ok = false
				detail = append(detail, "a caller never returned")
			}
		}
		tr.CloseIdleConnections()
		o.stop()
		if queued >= waiters {
			s.Count("callers-queued-before-release")
		}
		s.Observe(fmt.Sprintf("handoff-%d", cs), ok, "", queued >= waiters, human, strings.Join(detail, "; "))
		if !ok {
			break
		}
	}
	s.Finish()
}

// TestVerif_C09_h2slots: HTTP/2 with StrictMaxConcurrentStreams against a server that allows
// few concurrent streams. All stream slots of the connection are taken — one of them by an
// upload that is stalled on flow control (the handler does not read yet) — and further requests
// are pending for a slot. When a stream with a body-less response finishes, a pending request
// must get the slot: every caller gets its response, nobody sleeps forever.
func TestVerif_C09_h2slots(t *testing.T) {
	s := verifh.New(t, "C09", "h2slots",
		"SetHTTP2StrictMaxConcurrentStreams(true), server MAX_CONCURRENT_STREAMS 2..3 and 64 KiB upload windows; an upload of 300 KB stalled on flow control since before the pending requests, the other slots held by requests whose handlers wait; 1..2 more requests pending for a slot; then one held stream is released with a body-less 204 (later the others and the upload); oracle: a pending request is served within 4 s of the release and every caller gets a response echoing its own tag; non-trivial = the pending requests had not been served before the release")
	r := s.Rand()
	n := verifh.N(2, 12)
	for cs := 0; cs < n; cs++ {
		limit := 2 + r.Intn(2)
		pending := 1 + r.Intn(2)
		entered := make(chan string, 16)
		releaseUp := make(chan struct{})
		releaseHold := make([]chan struct{}, limit-1)
		for i := range releaseHold {
			releaseHold[i] = make(chan struct{})
		}
		handler := http.HandlerFunc(func(w http.ResponseWriter, rq *http.Request) {
			tag := rq.Header.Get("X-Tag")
			w.Header().Set("X-Tag", tag)
			switch {
			case rq.URL.Path == "/up":
				entered <- "up"
				<-releaseUp
				b, _ := io.ReadAll(rq.Body)
				fmt.Fprintf(w, "up:%d", len(b))
			case strings.HasPrefix(rq.URL.Path, "/hold"):
				i, _ := strconv.Atoi(strings.TrimPrefix(rq.URL.Path, "/hold"))
				entered <- "hold"
				<-releaseHold[i]
				w.WriteHeader(204) // body-less: the stream ends with the HEADERS frame
			default:
				entered <- "get"
				fmt.Fprintf(w, "get:%s", tag)
			}
		})
		srv := httptest.NewUnstartedServer(handler)
		srv.Config.ErrorLog = log.New(io.Discard, "", 0)
		if err := xh2c09.ConfigureServer(srv.Config, &xh2c09.Server{MaxConcurrentStreams: uint32(limit),
			MaxUploadBufferPerStream: 64 << 10, MaxUploadBufferPerConnection: 64 << 10}); err != nil {
			t.Fatalf("ConfigureServer: %v", err)
		}
		srv.TLS = srv.Config.TLSConfig
		srv.StartTLS()
		cl := C().EnableInsecureSkipVerify().SetTimeout(30 * time.Second).SetHTTP2StrictMaxConcurrentStreams(true)
		cl.SetLogger(nil)
		cl.GetTransport().Proxy = nil
		human := fmt.Sprintf("server limit %d streams: 1 upload (300 KB, stalled on flow control) + %d held requests, %d pending; release one held request with a 204", limit, limit-1, pending)
		s.Begin(fmt.Sprintf("h2slots-%d", cs), human)
		type res struct {
			who  string
			err  error
			when time.Time
		}
		results := make(chan res, 16)
		do := func(who, path string, tag int, body []byte, wantBody string) {
			rq := cl.R().SetHeader("X-Tag", strconv.Itoa(tag))
			var resp *Response
			var err error
			if body != nil {
				resp, err = rq.SetBodyBytes(body).Post(srv.URL + path)
			} else {
				resp, err = rq.Get(srv.URL + path)
			}
			if err == nil && (resp.Header.Get("X-Tag") != strconv.Itoa(tag) || (wantBody != "" && string(resp.Bytes()) != wantBody)) {
				err = fmt.Errorf("got tag %q body %q, not its own response", resp.Header.Get("X-Tag"), resp.Bytes())
			}
			results <- res{who, err, time.Now()}
		}
		waitEntered := func(what string) bool {
			select {
			case e := <-entered:
				return e == what
			case <-time.After(5 * time.Second):
				return false
			}
		}
		base := cs * 20
		// a first, complete request establishes the connection and learns the server's limit
		go do("warm", "/get", base+1, nil, "get:"+strconv.Itoa(base+1))
		setup := waitEntered("get")
		if rs := <-results; rs.err != nil {
			setup = false
		}
		go do("upload", "/up", base+2, make([]byte, 300<<10), fmt.Sprintf("up:%d", 300<<10))
		setup = waitEntered("up") && setup
		time.Sleep(150 * time.Millisecond) // the upload has used up its window and waits on cc.cond
		for i := range releaseHold {
			go do("hold"+strconv.Itoa(i), "/hold"+strconv.Itoa(i), base+3+i, nil, "")
			setup = waitEntered("hold") && setup
		}
		for i := 0; i < pending; i++ {
			go do("pending"+strconv.Itoa(i), "/get", base+10+i, nil, "get:"+strconv.Itoa(base+10+i))
		}
		time.Sleep(200 * time.Millisecond) // the pending requests wait for a stream slot
		servedEarly := false
		select {
		case e := <-entered:
			servedEarly = true // the limit was not enforced: nothing was pending
			entered <- e
		default:
		}
		released := time.Now()
		close(releaseHold[0])
		ok := true
		var detail []string
		got := 0
		total := 1 + len(releaseHold) + pending
		firstPending := time.Time{}
		timeout := time.After(4 * time.Second)
	collect:
		for got < 2 { // the released request and at least one pending request
			select {
			case rs := <-results:
				got++
				if rs.err != nil {
					ok = false
					detail = append(detail, rs.who+": "+rs.err.Error())
				}
				if strings.HasPrefix(rs.who, "pending") && firstPending.IsZero() {
					firstPending = rs.when
				}
			case <-timeout:
				ok = false
				detail = append(detail, fmt.Sprintf("no pending request was served within 4 s after a stream slot was freed (%d of the expected 2 completions seen)", got))
				break collect
			}
		}
		// let everything finish
		for _, c := range releaseHold[1:] {
			close(c)
		}
		close(releaseUp)
		for got < total {
			select {
			case rs := <-results:
				got++
				if rs.err != nil {
					ok = false
					detail = append(detail, rs.who+": "+rs.err.Error())
				}
			case <-time.After(15 * time.Second):
				ok = false
				detail = append(detail, "callers never returned")
				got = total
			}
		}
		cl.GetTransport().CloseIdleConnections()
		srv.Close()
		if !setup {
			s.Count("setup-incomplete")
		}
		if !firstPending.IsZero() {
			s.Count("pending-served-after-release")
			_ = released
		}
		s.Observe(fmt.Sprintf("h2slots-%d", cs), ok, "", setup && !servedEarly, human, strings.Join(detail, "; "))
		if !ok {
			break
		}
	}
	s.Finish()
}

var _ sync.Mutex
