//go:build verif

package req

import (
	"bytes"
	"compress/gzip"
	"context"
	"encoding/json"
	"encoding/xml"
	"errors"
	"fmt"
	"io"
	"io/fs"
	"math/rand"
	"net/http"
	"net/http/httptest"
	"net/url"
	"os"
	"path/filepath"
	"reflect"
	"runtime"
	"strconv"
	"strings"
	"sync"
	"sync/atomic"
	"testing"
	"time"

	"github.com/imroc/req/v3/internal/verifh"
)

// ---------------------------------------------------------------------------------------
// scenario = Req.Pipeline.Stack

type c18Http struct {
	status int
	ct     string
	body   string
	readOK bool
	// what the client's response-body transformer does with this body: "-" none installed,
	// "k" accepts (strips the '#' the script peer prepends), "n<i>" fails with sentinel i and a
	// nil body, "b<i>" fails with sentinel i and returns the (stripped) body all the same
	xf string
	// derived facts handed to the model
	custom        string // verdict of the custom checker ("-" = none installed)
	jsonOK, xmlOK bool
}

func (h *c18Http) xfEnc() string {
	if h.xf == "" || h.xf == "-" {
		return "-"
	}
	if h.xf == "k" {
		return "k"
	}
	return h.xf[:1] + "s" + h.xf[1:]
}

// wire is the body the peer sends: with a transformer installed it is marked, and only the
// transformer's output is what the unmarshallers accept.
func (h *c18Http) wire() string {
	if h.xf == "" || h.xf == "-" {
		return h.body
	}
	return "#" + h.body
}

type c18TOut struct {
	fail int // sentinel index, -1 = a response
	h    *c18Http
}

type c18Act struct {
	kind   string // request mw: o f | response mw: n r s c d | wrapper: p sn sf nn pe pn sw ps
	e      int
	chalOK bool
	re     c18TOut
}

type c18Scenario struct {
	entry                                                byte // d s v m
	builderErr, unreplayable, sT, eT, cE, autoRead, hook bool
	udReq                                                [][]c18Act
	builtin                                              []bool // true = fails
	wrappers                                             [][]c18Act
	getBody                                              []bool
	transport                                            []c18TOut
	clientResp                                           [][]c18Act
	reqResp                                              [][]c18Act
	maxRetries                                           int
	conds                                                []bool // nil = default rule
	checker                                              c18Checker
	verb                                                 int
	e2e                                                  string // base URL of the loopback origin (\"\" = scripted http.RoundTripper)
	// how the client that runs the call is obtained (not part of the model line: by
	// Req.Props.C18Clone the call of a client runs that client's own settings whatever its lineage):
	// 0 = configured directly; 1 = a prefix of the configuration steps on a parent, Clone, the rest on
	// the copy, decoy stages/settings on the parent afterwards, call on the copy; 2 = the mirror image
	// (decoys on a copy taken midway, call on the original); 3 = two generations of 1
	path  int
	split int // selects the clone point(s) among the configuration steps
	// a response-body transformer is installed on the client (every scripted response then says what
	// it does with that body: c18Http.xf)
	xform bool
	// Request.SetOutput (verb even) / SetOutputFile (verb odd); outFails: per attempt, writing /
	// creating the output fails
	save     bool
	outFails []bool
	// SetRetryCount(-1): nothing bounds the attempts but the scripted retry conditions
	unbounded bool
	// per attempt: the request's context is cancelled when the wait before the next attempt begins
	ctxDone []bool
	// loopback lane only — how the origin frames the body (content presence as the wire shows it):
	// 0 = Content-Length (0 for an empty body), 1 = chunked (headers flushed first: an empty body is a
	// lone last-chunk), 2 = gzip-encoded when the client offers it (an empty body is an empty gzip
	// stream); head = the request method is HEAD (no body whatever the script says)
	framing int
	head    bool
	// loopback lane only: the origin first answers 302 (with a JSON body of its own) and the
	// transport follows it — one more exchange inside httpClient.Do; everything the caller gets must
	// belong to the final answer
	redir bool
	// use the package-level wrapper (req.Get, req.MustPost, …: the default client) when the scenario
	// configures nothing at request level
	pkg bool
	// hooks that MUTATE the response they are handed: the OnError hook ("n" leaves resp.Err, "s<i>"
	// replaces it by sentinel i, "c" clears it) and, per attempt, the retry hook run before the wait
	hookAct    string
	retryHooks []string
}

func (sc *c18Scenario) hookEnc() string {
	enc := func(a string) string {
		if a == "" || a == "n" {
			return "n"
		}
		if a == "c" {
			return "c"
		}
		i, _ := strconv.Atoi(a[1:])
		return "s" + c18ErrArg(i)
	}
	rh := "-"
	if len(sc.retryHooks) > 0 {
		p := make([]string, len(sc.retryHooks))
		for i, a := range sc.retryHooks {
			p[i] = enc(a)
		}
		rh = strings.Join(p, ",")
	}
	return enc(sc.hookAct) + ":" + rh
}

var c18ErrGetBody = errors.New("c18 GetBody failure")

func c18PipeErrName(err error) string {
	if err == nil {
		return "-"
	}
	n := c18ErrName(err)
	if !strings.HasPrefix(n, "other(") {
		return n
	}
	pr := c18Probes()
	switch {
	case errors.Is(err, c18ErrGetBody):
		return "getbody"
	case pr.builder != nil && err.Error() == pr.builder.Error():
		return "builder"
	case pr.unreplay != nil && errors.Is(err, pr.unreplay):
		return "unreplay"
	case (pr.digestBad != nil && errors.Is(err, pr.digestBad)) || (pr.digestUnreplay != nil && errors.Is(err, pr.digestUnreplay)):
		return "digest"
	}
	var ue *url.Error
	if errors.As(err, &ue) && ue.Op == "parse" {
		return "builtin"
	}
	var pe *fs.PathError
	if errors.As(err, &pe) {
		return "output" // SetOutputFile: the file or its directory cannot be created
	}
	return n
}

// c18Probes obtains the library's own sentinel errors by provoking them once through the real
// code paths (no dependence on the names of unexported variables).
type c18ProbeErrs struct{ builder, unreplay, digestBad, digestUnreplay error }

var c18ProbeOnce sync.Once
var c18ProbeVal c18ProbeErrs

func c18Probes() *c18ProbeErrs {
	c18ProbeOnce.Do(func() {
		answer := func(chal string) *Client {
			c := C()
			c.GetClient().Transport = rtFuncC18(func(r *http.Request) (*http.Response, error) {
				h := http.Header{}
				if chal != "" {
					h.Set("Www-Authenticate", chal)
				}
				return &http.Response{StatusCode: 401, Status: "401 X", Proto: "HTTP/1.1", ProtoMajor: 1, ProtoMinor: 1, Header: h,
					Body: io.NopCloser(strings.NewReader("")), Request: r}, nil
			})
			return c
		}
		c18ProbeVal.builder = C().R().SetFileUpload(FileUpload{}).Do().Err
		c18ProbeVal.unreplay = C().R().SetRetryCount(1).SetBody(io.NopCloser(strings.NewReader("x"))).SetURL("http://c18.test/").Do().Err
		c18ProbeVal.digestBad = unwrapAll(answer("").R().SetDigestAuth("u", "p").SetURL("http://c18.test/").Do().Err)
		r := answer(c18Challenge).R().SetDigestAuth("u", "p").SetBody(io.NopCloser(strings.NewReader("x")))
		r.Method = "POST"
		c18ProbeVal.digestUnreplay = unwrapAll(r.SetURL("http://c18.test/").Do().Err)
	})
	return &c18ProbeVal
}

func unwrapAll(err error) error {
	for err != nil {
		u := errors.Unwrap(err)
		if u == nil {
			return err
		}
		err = u
	}
	return err
}

func c18HTTPHeader(h *c18Http, tag int, challenge string) http.Header {
	hd := http.Header{}
	if h.ct != "" {
		hd.Set("Content-Type", h.ct)
	}
	hd.Set("X-Tag", strconv.Itoa(tag))
	hd.Set("X-State", []string{"S", "E", "U"}[h.status%3])
	if challenge != "" {
		hd.Set("Www-Authenticate", challenge)
	}
	return hd
}

// c18Facts fills the derived facts of an http outcome (what the model takes as parameters).
func c18Facts(h *c18Http, ck c18Checker) {
	_, h.jsonOK = c18Decode(h.body, false, &c18T{})
	_, h.xmlOK = c18Decode(h.body, true, &c18T{})
	h.custom = "-"
	if ck.fn != nil {
		h.custom = c18StateName(ck.fn(&Response{Response: &http.Response{StatusCode: h.status, Header: c18HTTPHeader(h, 0, "")}}))
	}
}

func c18ErrArg(i int) string {
	if i == c18CtxCanceled {
		return "ctxcanceled"
	}
	return "s" + strconv.Itoa(i)
}

func (t c18TOut) enc() string {
	if t.fail >= 0 {
		return "f" + c18ErrArg(t.fail)
	}
	h := t.h
	return fmt.Sprintf("r%d:%s:%s:%s:%s:%s:%s", h.status, h.custom, c18b(h.readOK), c18b(h.jsonOK), c18b(h.xmlOK), verifh.Hex(h.ct), h.xfEnc())
}

func (a c18Act) enc() string {
	switch a.kind {
	case "o", "n", "c", "p", "nn", "sw":
		return a.kind
	case "fb":
		return "fbuiltin"
	case "d":
		return "d" + c18b(a.chalOK) + "/" + a.re.enc()
	}
	return a.kind + c18ErrArg(a.e)
}

func c18EncStages(st [][]c18Act) string {
	if len(st) == 0 {
		return "-"
	}
	parts := make([]string, len(st))
	for i, acts := range st {
		as := make([]string, len(acts))
		for j, a := range acts {
			as[j] = a.enc()
		}
		parts[i] = strings.Join(as, ",")
	}
	return strings.Join(parts, ";")
}

func (sc *c18Scenario) line(fixes string) string {
	flags := c18b(sc.builderErr) + c18b(sc.unreplayable) + c18b(sc.sT) + c18b(sc.eT) + c18b(sc.cE) + c18b(sc.autoRead) + c18b(sc.hook) + c18b(sc.save)
	bi := "-"
	if len(sc.builtin) > 0 {
		p := make([]string, len(sc.builtin))
		for i, f := range sc.builtin {
			p[i] = "o"
			if f {
				p[i] = "fbuiltin"
			}
		}
		bi = strings.Join(p, ",")
	}
	gb := "-"
	if len(sc.getBody) > 0 {
		p := make([]string, len(sc.getBody))
		for i, f := range sc.getBody {
			p[i] = c18b(f)
		}
		gb = strings.Join(p, ",")
	}
	tr := "-"
	if len(sc.transport) > 0 {
		p := make([]string, len(sc.transport))
		for i, t := range sc.transport {
			p[i] = t.enc()
		}
		tr = strings.Join(p, ",")
	}
	conds := "-"
	if sc.conds != nil {
		conds = ""
		for _, b := range sc.conds {
			conds += c18b(b)
		}
		if conds == "" {
			conds = "0"
		}
	}
	bits := func(l []bool) string {
		if len(l) == 0 {
			return "-"
		}
		o := ""
		for _, b := range l {
			o += c18b(b)
		}
		return o
	}
	n := strconv.Itoa(sc.maxRetries)
	if sc.unbounded {
		n = "u" + strconv.Itoa(sc.natt()+2) // fuel: the attempts the script describes, and a margin
	}
	return fmt.Sprintf("c18pipe %s %c %s %s %s %s %s %s %s %s %s:%s:%s %s %s", fixes, sc.entry, flags, c18EncStages(sc.udReq), bi,
		c18EncStages(sc.wrappers), gb, tr, c18EncStages(sc.clientResp), c18EncStages(sc.reqResp), n, conds, bits(sc.ctxDone), bits(sc.outFails), sc.hookEnc())
}

// natt: how many attempts the script describes
func (sc *c18Scenario) natt() int {
	if sc.unbounded {
		return len(sc.conds)
	}
	return sc.maxRetries + 1
}

func c18At[T any](l []T, a int, d T) T {
	if a < len(l) {
		return l[a]
	}
	return d
}

// ---------------------------------------------------------------------------------------
// running a scenario on the real client

type c18Obs struct {
	crashed      string // the library panicked (nil dereference, …)
	mustPanicked bool
	mustErr      error
	resp         *Response
	err          error
	hooks        int
	logs         [][]string
	raised       [][]string // go-side bookkeeping for the oracle: errors raised by scripted stages, per attempt
	facts        map[string]*c18Http
	okT          c18T
	erT          c18E
	unmCalls     []c18UnmCall
	builtBefore  bool          // a request middleware saw RawRequest already built in the first attempt
	builtinFirst bool          // a user request middleware saw Request.URL already parsed in the first attempt
	noBuiltin    bool          // a later stage ran although Request.URL was never parsed
	nilRespSeen  bool          // a request-level response middleware was handed a nil *Response
	foreign      []string      // stages / settings of ANOTHER client (parent or copy) that took part in the call
	outW         *c18OutWriter // SetOutput variant: what was written
	outFile      string        // SetOutputFile variant: the path of the last attempt
	hookBad      string        // the OnError hook was handed an error that is not resp.Err at that moment, or a nil one
	runaway      bool          // an unbounded retry went on beyond the attempts the script describes
	fileFail     bool          // SetOutputFile variant: some attempt was given a path that cannot be created
}

// c18OutDir is where the SetOutputFile variant writes (set by the lane to t.TempDir()).
var c18OutDir string

// c18OutWriter is the SetOutput target: Write fails on the attempts the script says.
type c18OutWriter struct {
	buf    []byte
	fail   func() bool
	onFail func()
}

func (w *c18OutWriter) Write(p []byte) (int, error) {
	if w.fail() {
		w.onFail()
		return 0, c18ErrOutput
	}
	w.buf = append(w.buf, p...)
	return len(p), nil
}

type c18UnmCall struct {
	xml    bool
	body   string
	target interface{}
}

// decodedInto replays, with the reference decoders, every unmarshal the library performed
// into target (a retried call decodes into the same caller object again) and reports whether
// the LAST of them used body/codec as given; fresh must be a new object of the target's type.
func (o *c18Obs) decodedInto(target, fresh interface{}, body string, useXML bool) (interface{}, bool) {
	last := -1
	for i, c := range o.unmCalls {
		if c.target == target {
			last = i
			if c.xml {
				xml.Unmarshal([]byte(c.body), fresh)
			} else {
				json.Unmarshal([]byte(c.body), fresh)
			}
		}
	}
	return fresh, last >= 0 && o.unmCalls[last].body == body && o.unmCalls[last].xml == useXML
}

const c18Challenge = `Digest realm="r", nonce="abc", qop="auth", algorithm=MD5`

var c18Verbs = []string{"Get", "Post", "Put", "Patch", "Delete", "Options", "Head"}

// c18VerbMethods enumerates, by reflection, EVERY method of *Request with the shape of a verb
// helper — func(url string) (*Response, error) — and of a Must helper — func(url string) *Response:
// a verb added to the library is exercised without touching the harness. (The package-level
// wrappers cannot be enumerated; the regenerated fact Generated.C18Entry lists them.)
var c18VerbMethods = func() (l struct{ verbs, musts, bodyVerbs []string }) {
	t := reflect.TypeOf(&Request{})
	respT, errT := reflect.TypeOf(&Response{}), reflect.TypeOf((*error)(nil)).Elem()
	for i := 0; i < t.NumMethod(); i++ {
		m := t.Method(i)
		ft := m.Type
		if ft.NumIn() != 2 || ft.In(1).Kind() != reflect.String || ft.IsVariadic() {
			continue
		}
		switch {
		case ft.NumOut() == 2 && ft.Out(0) == respT && ft.Out(1) == errT:
			l.verbs = append(l.verbs, m.Name)
			if m.Name == "Post" || m.Name == "Put" || m.Name == "Patch" {
				l.bodyVerbs = append(l.bodyVerbs, m.Name)
			}
		case ft.NumOut() == 1 && ft.Out(0) == respT:
			l.musts = append(l.musts, m.Name)
		}
	}
	return
}()

func c18Run(sc *c18Scenario) *c18Obs {
	o := &c18Obs{facts: map[string]*c18Http{}}
	var c *Client // the client that runs the call (obtained below, directly or through Clone)
	var req *Request
	// the client-level configuration as a list of steps, so that Clone can be interposed anywhere
	var steps []func(c *Client)
	add := func(f func(c *Client)) { steps = append(steps, f) }
	att := func() int {
		if req == nil { // package-level entry point: the request is created inside the call (no retry there)
			return 0
		}
		return req.RetryAttempt
	}
	touch := func() {
		for len(o.logs) <= att() {
			o.logs = append(o.logs, nil)
			o.raised = append(o.raised, nil)
		}
	}
	ev := func(s string) { touch(); o.logs[att()] = append(o.logs[att()], s) }
	raise := func(s string) { touch(); o.raised[att()] = append(o.raised[att()], s) }
	// "b" = the built-in request middleware block completed: recorded when the first stage that
	// can only run after it (wrapper, GetBody, exchange, request-level response middleware) is
	// entered — no marker is planted inside the client's (unexported) middleware list. That the
	// block really ran, and ran AFTER the user middleware, is observed through Request.URL,
	// which only the built-in block assigns (builtinFirst / noBuiltin below).
	bDone := map[int]bool{}
	lateAt := func(a int) {
		if !bDone[a] {
			bDone[a] = true
			for len(o.logs) <= a {
				o.logs = append(o.logs, nil)
				o.raised = append(o.raised, nil)
			}
			o.logs[a] = append(o.logs[a], "b")
			if req != nil && req.URL == nil {
				o.noBuiltin = true
			}
		}
	}
	late := func() { lateAt(att()) }
	// the loopback origin logs from its own goroutine, with the attempt index it counted itself
	evAt := func(a int, s string) {
		lateAt(a)
		for len(o.logs) <= a {
			o.logs = append(o.logs, nil)
			o.raised = append(o.raised, nil)
		}
		o.logs[a] = append(o.logs[a], s)
	}

	if sc.checker.fn != nil {
		add(func(c *Client) { c.SetResultStateCheckFunc(sc.checker.fn) })
	}
	if sc.cE {
		add(func(c *Client) { c.SetCommonErrorResult(&c18C{}) })
	}
	reqLevelNoAutoRead := !sc.autoRead && sc.verb%2 == 1 // auto-read is switched off at either level
	if !sc.autoRead && !reqLevelNoAutoRead {
		add(func(c *Client) { c.DisableAutoReadResponse() })
	}
	if sc.hook {
		add(func(c *Client) {
			c.OnError(func(_ *Client, _ *Request, resp *Response, err error) {
				o.hooks++
				if err == nil || resp == nil || resp.Err != err {
					o.hookBad = "the error hook was handed " + c18PipeErrName(err) + " while resp.Err was not that error"
				}
				// the hook is handed the response and may rewrite the recorded error (translate / recover)
				switch {
				case sc.hookAct == "c":
					resp.Err = nil
				case len(sc.hookAct) > 1:
					i, _ := strconv.Atoi(sc.hookAct[1:])
					// (booked with the last attempt that took place: RetryAttempt may already be one ahead
					// when the wait before a retry ended the call)
					if n := len(o.raised); n > 0 {
						o.raised[n-1] = append(o.raised[n-1], c18ErrArg(i))
					}
					resp.Err = c18Sentinels[i]
				}
			})
		})
	}
	if sc.xform {
		// the response-body transformer: its outcome is scripted per exchange (looked up by the
		// X-Tag of the response at hand)
		add(func(c *Client) {
			c.SetResponseBodyTransformer(func(raw []byte, _ *Request, resp *Response) ([]byte, error) {
				var h *c18Http
				if resp != nil && resp.Response != nil {
					h = o.facts[resp.Header.Get("X-Tag")]
				}
				out := append([]byte{}, strings.TrimPrefix(string(raw), "#")...)
				if h == nil || len(h.xf) < 2 {
					return out, nil
				}
				i, _ := strconv.Atoi(h.xf[1:])
				raise(c18ErrArg(i))
				if h.xf[0] == 'n' {
					return nil, c18Sentinels[i]
				}
				return out, c18Sentinels[i] // fails, and hands back what it made of the body
			})
		})
	}
	add(func(c *Client) {
		c.SetJsonUnmarshal(func(b []byte, v interface{}) error {
			ev("j")
			o.unmCalls = append(o.unmCalls, c18UnmCall{false, string(b), v})
			if err := json.Unmarshal(b, v); err != nil {
				raise("unm")
				return &c18UnmErr{err}
			}
			return nil
		})
	})
	add(func(c *Client) {
		c.SetXmlUnmarshal(func(b []byte, v interface{}) error {
			ev("x")
			o.unmCalls = append(o.unmCalls, c18UnmCall{true, string(b), v})
			if err := xml.Unmarshal(b, v); err != nil {
				raise("unm")
				return &c18UnmErr{err}
			}
			return nil
		})
	})
	// which digest script applies in attempt a (first digest stage)
	digestAt := func(a int) *c18Act {
		for _, st := range sc.reqResp {
			act := c18At(st, a, c18Act{kind: "n"})
			if act.kind == "d" {
				return &act
			}
		}
		return nil
	}
	mkResp := func(r *http.Request, h *c18Http, tag int, chal string) *http.Response {
		o.facts[strconv.Itoa(tag)] = h
		var body io.ReadCloser
		if h.readOK {
			body = io.NopCloser(strings.NewReader(h.wire()))
		} else {
			body = &c18FailReader{r: strings.NewReader(h.wire()), err: c18ErrRead, onFail: func() { raise("read") }}
		}
		return &http.Response{StatusCode: h.status, Status: strconv.Itoa(h.status) + " X", Proto: "HTTP/1.1", ProtoMajor: 1, ProtoMinor: 1,
			Header: c18HTTPHeader(h, tag, chal), Body: body, ContentLength: -1, Request: r}
	}
	if sc.e2e != "" {
		// real transport over loopback: the origin plays the script
		sends := 0
		id := strconv.FormatInt(c18E2ESeq.Add(1), 10)
		c18E2EHandlers.Store(id, http.HandlerFunc(func(w http.ResponseWriter, r *http.Request) {
			if sc.redir && r.URL.Query().Get("hop") == "" {
				w.Header().Set("Location", r.URL.Path+"?hop=1")
				w.Header().Set("Content-Type", "application/json")
				w.WriteHeader(http.StatusFound)
				io.WriteString(w, `{"a":"redirect-hop","n":99,"msg":"not the final answer"}`)
				return
			}
			var h *c18Http
			tag, chal := 0, ""
			if strings.HasPrefix(r.Header.Get("Authorization"), "Digest ") {
				a := sends - 1
				evAt(a, "T")
				h, tag = digestAt(a).re.h, 2*a+1
			} else {
				a := sends
				sends++
				evAt(a, "t")
				h, tag = c18At(sc.transport, a, c18TOut{}).h, 2*a
				if d := digestAt(a); d != nil && d.chalOK {
					chal = c18Challenge
				}
			}
			o.facts[strconv.Itoa(tag)] = h
			hd := w.Header()
			for k, v := range c18HTTPHeader(h, tag, chal) {
				hd[k] = v
			}
			if h.ct == "" {
				hd["Content-Type"] = nil // suppress the server's content sniffing
			}
			wire := h.wire()
			noBody := r.Method == "HEAD" || h.status == 204 || h.status == 304
			if sc.framing == 2 && !noBody && strings.Contains(r.Header.Get("Accept-Encoding"), "gzip") {
				var zb bytes.Buffer
				zw := gzip.NewWriter(&zb)
				io.WriteString(zw, wire)
				zw.Close()
				hd.Set("Content-Encoding", "gzip")
				wire = zb.String()
			}
			w.WriteHeader(h.status)
			if sc.framing == 1 {
				if fl, ok := w.(http.Flusher); ok {
					fl.Flush() // headers go out before the length is known: chunked
				}
			}
			io.WriteString(w, wire)
		}))
		defer c18E2EHandlers.Delete(id)
		sc.e2e = strings.TrimSuffix(sc.e2e, "/") + "/c/" + id
	}
	// the scripted transport is plugged into the client that runs the call, once it exists
	// (Clone gives the copy a transport of its own)
	setupTransport := func() {
		if sc.e2e != "" {
			return
		}
		// first exchange of every attempt: the http.Client's transport
		c.GetClient().Transport = rtFuncC18(func(r *http.Request) (*http.Response, error) {
			late()
			ev("t")
			a := att()
			t := c18At(sc.transport, a, c18TOut{fail: 0})
			if t.fail >= 0 {
				raise(c18ErrArg(t.fail))
				return nil, c18Sentinels[t.fail]
			}
			chal := ""
			if d := digestAt(a); d != nil && d.chalOK {
				chal = c18Challenge
			}
			return mkResp(r, t.h, 2*a, chal), nil
		})
		// second exchange (digest): goes through Client.GetTransport().RoundTrip
		c.GetTransport().DisableAutoDecode()
		c.GetTransport().WrapRoundTripFunc(func(http.RoundTripper) HttpRoundTripFunc {
			return func(r *http.Request) (*http.Response, error) {
				ev("T")
				a := att()
				d := digestAt(a)
				if d == nil {
					return nil, errors.New("c18: unexpected resend")
				}
				if d.re.fail >= 0 {
					raise(c18ErrArg(d.re.fail))
					return nil, c18Sentinels[d.re.fail]
				}
				return mkResp(r, d.re.h, 2*a+1, ""), nil
			}
		})
	}
	// user request middleware
	for i := range sc.udReq {
		i := i
		add(func(c *Client) {
			c.OnBeforeRequest(func(_ *Client, r *Request) error {
				ev("u" + strconv.Itoa(i))
				if r.RetryAttempt == 0 && r.RawRequest != nil {
					o.builtBefore = true
				}
				if r.RetryAttempt == 0 && r.URL != nil {
					o.builtinFirst = true
				}
				act := c18At(sc.udReq[i], att(), c18Act{kind: "o"})
				if act.kind == "f" {
					raise(c18ErrArg(act.e))
					return c18Sentinels[act.e]
				}
				return nil
			})
		})
	}
	// hidden last user middleware: makes the built-in block fail on scripted attempts (bad URL)
	goodURL := "http://c18.test/p"
	if sc.e2e != "" {
		goodURL = sc.e2e
	}
	add(func(c *Client) {
		c.OnBeforeRequest(func(_ *Client, r *Request) error {
			touch()
			if sc.save && sc.verb%2 == 1 { // SetOutputFile variant: the path is chosen per attempt
				dir := c18OutDir
				if dir == "" {
					dir = os.TempDir()
				}
				if c18At(sc.outFails, att(), false) {
					o.fileFail = true
					blocker := filepath.Join(dir, "c18-blocker")
					os.WriteFile(blocker, []byte("x"), 0o600)
					r.SetOutputFile(filepath.Join(blocker, "sub", "x.out")) // parent is a regular file: cannot be created
				} else {
					o.outFile = filepath.Join(dir, "c18-"+strconv.Itoa(sc.verb)+".out")
					os.Remove(o.outFile)
					r.SetOutputFile(o.outFile)
				}
			}
			if c18At(sc.builtin, att(), false) {
				raise("builtin")
				r.RawURL = "http://[::1"
			} else {
				r.RawURL = goodURL
			}
			return nil
		})
	})
	// wrapping round-trippers
	fresh := map[*Response]bool{}
	var wfuncs []RoundTripWrapperFunc
	for i := range sc.wrappers {
		i := i
		wfuncs = append(wfuncs, func(rt RoundTripper) RoundTripFunc {
			return func(r *Request) (*Response, error) {
				late()
				ev("w" + strconv.Itoa(i))
				act := c18At(sc.wrappers[i], att(), c18Act{kind: "p"})
				e := c18Sentinels[act.e]
				switch act.kind {
				case "sn":
					raise(c18ErrArg(act.e))
					return nil, e
				case "sf":
					raise(c18ErrArg(act.e))
					fr := &Response{Request: r}
					fresh[fr] = true
					return fr, e
				case "nn":
					return nil, nil
				case "pe":
					resp, _ := rt.RoundTrip(r)
					raise(c18ErrArg(act.e))
					return resp, e
				case "pn":
					rt.RoundTrip(r)
					raise(c18ErrArg(act.e))
					return nil, e
				case "sw":
					resp, _ := rt.RoundTrip(r)
					return resp, nil
				case "ps":
					resp, _ := rt.RoundTrip(r)
					raise(c18ErrArg(act.e))
					if resp != nil {
						resp.Err = e
					}
					return resp, e
				}
				return rt.RoundTrip(r)
			}
		})
	}
	// registration: one call per wrapper, one call for all, or WrapRoundTrip with a split list
	switch sc.verb % 3 {
	case 0:
		for _, w := range wfuncs {
			w := w
			add(func(c *Client) { c.WrapRoundTripFunc(w) })
		}
	case 1:
		add(func(c *Client) { c.WrapRoundTripFunc(wfuncs...) })
	default:
		var ws []RoundTripWrapper
		for _, w := range wfuncs {
			w := w
			ws = append(ws, func(rt RoundTripper) RoundTripper { return w(rt) })
		}
		// (capacity clipped: WrapRoundTrip keeps the caller's variadic slice and appends to it later, so
		// a sub-slice with spare capacity would let a later registration overwrite ws[k] — an aliasing
		// corner of the library outside C18, see notes/C18.md)
		k := len(ws) / 2
		add(func(c *Client) { c.WrapRoundTrip(ws[:k:k]...) })
		add(func(c *Client) { c.WrapRoundTrip(ws[k:]...) })
	}
	// user client-level response middleware
	for i := range sc.clientResp {
		i := i
		add(func(c *Client) {
			c.OnAfterResponse(func(_ *Client, resp *Response) error {
				ev("c" + strconv.Itoa(i))
				act := c18At(sc.clientResp[i], att(), c18Act{kind: "n"})
				switch act.kind {
				case "r":
					raise(c18ErrArg(act.e))
					return c18Sentinels[act.e]
				case "s":
					raise(c18ErrArg(act.e))
					resp.Err = c18Sentinels[act.e]
				case "c":
					resp.Err = nil
				}
				return nil
			})
		})
	}

	c = c18Build(sc, steps, o)
	setupTransport()
	// the request: R(), NewRequest(), or the client-level verb builders (c.Post() = R() + method)
	switch sc.verb % 5 {
	case 2:
		req = c.Post()
	case 4:
		req = c.NewRequest()
	default:
		req = c.R()
	}
	if reqLevelNoAutoRead {
		req.DisableAutoReadResponse()
	}
	if sc.sT {
		if sc.verb%3 == 0 {
			req.SetResult(&o.okT) // deprecated alias
		} else {
			req.SetSuccessResult(&o.okT)
		}
	}
	if sc.eT {
		if sc.verb%3 == 1 {
			req.SetError(&o.erT) // deprecated alias
		} else {
			req.SetErrorResult(&o.erT)
		}
	}
	// request-level response middleware (user ones and the built-in digest middleware)
	for i := range sc.reqResp {
		i := i
		isDigest := false
		for _, a := range sc.reqResp[i] {
			if a.kind == "d" {
				isDigest = true
			}
		}
		if isDigest {
			// log wrapper + the real middleware, registered as ONE stage
			req.OnAfterResponse(func(*Client, *Response) error { late(); ev("r" + strconv.Itoa(i)); return nil })
			req.SetDigestAuth("u", "p")
			continue
		}
		req.OnAfterResponse(func(_ *Client, resp *Response) error {
			late()
			ev("r" + strconv.Itoa(i))
			if resp == nil {
				o.nilRespSeen = true
			}
			act := c18At(sc.reqResp[i], att(), c18Act{kind: "n"})
			switch act.kind {
			case "r":
				raise(c18ErrArg(act.e))
				return c18Sentinels[act.e]
			case "s":
				raise(c18ErrArg(act.e))
				if resp != nil {
					resp.Err = c18Sentinels[act.e]
				}
			case "c":
				if resp != nil {
					resp.Err = nil
				}
			}
			return nil
		})
	}
	if sc.save && sc.verb%2 == 0 {
		o.outW = &c18OutWriter{fail: func() bool { return c18At(sc.outFails, att(), false) }, onFail: func() { raise("output") }}
		req.SetOutput(o.outW)
	} else if sc.save {
		req.SetOutputFile("c18-placeholder.out") // replaced per attempt by the hidden request middleware
	}
	if len(sc.retryHooks) > 0 {
		// a retry hook that rewrites the error of the response it is handed (it runs after the
		// retry decision, RetryAttempt already incremented, before the wait)
		req.AddRetryHook(func(resp *Response, _ error) {
			a := c18At(sc.retryHooks, att()-1, "n")
			switch {
			case resp == nil:
			case a == "c":
				resp.Err = nil
			case len(a) > 1:
				i, _ := strconv.Atoi(a[1:])
				resp.Err = c18Sentinels[i]
			}
		})
	}
	if len(sc.ctxDone) > 0 {
		ctx, cancel := context.WithCancel(context.Background())
		defer cancel()
		req.SetContext(ctx)
		// the retry hook runs after the retry decision and before the wait: cancelling there makes
		// the context done exactly when the wait begins (the interval is long so that only the
		// context can end that wait)
		req.AddRetryHook(func(*Response, error) {
			if c18At(sc.ctxDone, att()-1, false) {
				cancel()
			}
		})
	}
	if sc.maxRetries > 0 || sc.conds != nil || sc.unbounded {
		n := sc.maxRetries
		if sc.unbounded {
			n = -1
		}
		req.SetRetryCount(n).SetRetryInterval(func(_ *Response, attempt int) time.Duration {
			if c18At(sc.ctxDone, attempt-1, false) {
				return time.Hour
			}
			return 0
		})
		if sc.conds != nil {
			req.SetRetryCondition(func(*Response, error) bool {
				if att() >= len(sc.conds)+2 {
					o.runaway = true
					return false
				}
				return c18At(sc.conds, att(), false)
			})
		}
	}
	needBody := false
	for _, g := range sc.getBody {
		needBody = needBody || g
	}
	if needBody {
		req.SetBody(func() (io.ReadCloser, error) {
			late()
			if c18At(sc.getBody, att(), false) {
				raise("getbody")
				return nil, c18ErrGetBody
			}
			return io.NopCloser(strings.NewReader("payload")), nil
		})
	}
	if sc.unreplayable {
		req.SetBody(io.NopCloser(strings.NewReader("stream")))
	}
	if sc.builderErr {
		req.SetFileUpload(FileUpload{}) // a setter that records an error (missing param name)
	}
	method := "POST"
	if sc.head {
		method = "HEAD"
	}
	verb := c18Verbs[sc.verb%len(c18Verbs)]
	if sc.head {
		verb = "Head"
	}
	if needBody || sc.unreplayable {
		verb = []string{"Post", "Put", "Patch"}[sc.verb%3]
	}
	// methods of *Request: every verb-shaped / Must-shaped one the library has (by reflection)
	verbM, mustM := verb, "Must"+verb
	if vm := c18VerbMethods; len(vm.verbs) > 0 && len(vm.musts) > 0 && sc.e2e == "" {
		if needBody || sc.unreplayable {
			if len(vm.bodyVerbs) > 0 {
				verbM = vm.bodyVerbs[sc.verb%len(vm.bodyVerbs)]
				mustM = "Must" + verbM
			}
		} else {
			verbM, mustM = vm.verbs[sc.verb%len(vm.verbs)], vm.musts[sc.verb%len(vm.musts)]
		}
	}
	// package-level helpers (req.Get, req.MustPost, …) delegate to the default client; usable
	// when the scenario configures nothing at request level
	usePkg := (sc.entry == 'v' || sc.entry == 'm') && !sc.sT && !sc.eT && len(sc.reqResp) == 0 && sc.maxRetries == 0 &&
		!sc.save && !sc.unbounded && len(sc.ctxDone) == 0 && len(sc.retryHooks) == 0 &&
		sc.conds == nil && !needBody && !sc.unreplayable && !sc.builderErr && !reqLevelNoAutoRead && sc.pkg
	if usePkg {
		req = nil
		old := DefaultClient()
		SetDefaultClient(c)
		defer SetDefaultClient(old)
	}
	call := func() {
		if usePkg {
			name := verb
			if sc.entry == 'm' {
				name = "Must" + verb
			}
			out := reflect.ValueOf(c18PkgFuncs[name]).Call([]reflect.Value{reflect.ValueOf(goodURL)})
			o.resp, _ = out[0].Interface().(*Response)
			if sc.entry == 'v' {
				o.err, _ = out[1].Interface().(error)
			} else if o.resp != nil {
				o.err = o.resp.Err
			}
			return
		}
		switch sc.entry {
		case 'd':
			req.Method, req.RawURL = method, goodURL
			if sc.verb%2 == 0 && len(sc.ctxDone) == 0 {
				o.resp = req.Do(context.Background()) // Do with a context argument
			} else {
				o.resp = req.Do()
			}
			if o.resp != nil {
				o.err = o.resp.Err
			}
		case 's':
			o.resp, o.err = req.Send(method, goodURL)
		case 'v':
			out := reflect.ValueOf(req).MethodByName(verbM).Call([]reflect.Value{reflect.ValueOf(goodURL)})
			o.resp, _ = out[0].Interface().(*Response)
			o.err, _ = out[1].Interface().(error)
		case 'm':
			out := reflect.ValueOf(req).MethodByName(mustM).Call([]reflect.Value{reflect.ValueOf(goodURL)})
			o.resp, _ = out[0].Interface().(*Response)
			if o.resp != nil {
				o.err = o.resp.Err
			}
		}
	}
	func() {
		defer func() {
			if v := recover(); v != nil {
				if e, ok := v.(error); ok && sc.entry == 'm' {
					if _, rt := v.(runtime.Error); !rt {
						o.mustPanicked, o.mustErr = true, e
						return
					}
				}
				o.crashed = fmt.Sprint(v)
			}
		}()
		call()
	}()
	return o
}

// loopback origin shared by the e2e lane: /c/<id> is served by the handler of case <id>
var c18E2EHandlers sync.Map
var c18E2ESeq atomic.Int64

func c18E2EServe(w http.ResponseWriter, r *http.Request) {
	id := strings.TrimPrefix(r.URL.Path, "/c/")
	if h, ok := c18E2EHandlers.Load(id); ok {
		h.(http.Handler).ServeHTTP(w, r)
		return
	}
	http.Error(w, "no such case", 599)
}

var c18PkgFuncs = map[string]interface{}{
	"Get": Get, "Post": Post, "Put": Put, "Patch": Patch, "Delete": Delete, "Options": Options, "Head": Head,
	"MustGet": MustGet, "MustPost": MustPost, "MustPut": MustPut, "MustPatch": MustPatch, "MustDelete": MustDelete,
	"MustOptions": MustOptions, "MustHead": MustHead,
}

type rtFuncC18 func(*http.Request) (*http.Response, error)

func (f rtFuncC18) RoundTrip(r *http.Request) (*http.Response, error) { return f(r) }

func c18ShowLogs(logs [][]string) string {
	if len(logs) == 0 {
		return "-"
	}
	p := make([]string, len(logs))
	for i, l := range logs {
		p[i] = strings.Join(l, ".")
	}
	return strings.Join(p, "|")
}

// answer renders the observation in the model's canonical form.
func (o *c18Obs) answer(sc *c18Scenario) string {
	log := c18ShowLogs(o.logs)
	if len(o.foreign) > 0 {
		// never part of a model answer: the call of a client involves that client's stages only
		log += " foreign=" + strings.Join(o.foreign, ".")
	}
	if o.crashed != "" {
		return "crash log=" + log
	}
	if o.mustPanicked {
		return "must err=" + c18PipeErrName(o.mustErr) + " hooks=" + strconv.Itoa(o.hooks) + " log=" + log
	}
	if o.resp == nil {
		return "ret resp=nil err=" + c18PipeErrName(o.err) + " hooks=" + strconv.Itoa(o.hooks) + " log=" + log
	}
	r := o.resp
	tag, st := "-", "-"
	if r.Response != nil {
		tag, st = r.Header.Get("X-Tag"), strconv.Itoa(r.StatusCode)
	}
	// the state as the caller's predicates report it (must be consistent with ResultState)
	state := c18StateName(r.ResultState())
	switch isS, isE := r.IsSuccessState(), r.IsErrorState(); {
	case isS != (state == "S") || isE != (state == "E"):
		state = "inconsistent(" + state + "," + c18b(isS) + "," + c18b(isE) + ")"
	}
	es := "-"
	switch v := r.ErrorResult().(type) {
	case nil:
	case *c18E:
		es = "R"
		if v != &o.erT {
			es = "?foreignE"
		}
	case *c18C:
		es = "C"
	default:
		es = "?"
	}
	// the cached body must be the body of the exchange the response carries (as sent, or as the
	// body transformer rewrote it)
	cached := "0"
	if b := r.Bytes(); b != nil {
		cached = "1"
		if r.Response != nil {
			if f := o.facts[r.Header.Get("X-Tag")]; f != nil && string(b) != f.body && string(b) != f.wire() {
				cached = "X"
			}
		}
	}
	return "ret err=" + c18PipeErrName(o.err) + " hooks=" + strconv.Itoa(o.hooks) + " rerr=" + c18PipeErrName(r.Err) + " http=" + tag +
		" status=" + st + " state=" + state + " cached=" + cached + " res=" + c18b(r.SuccessResult() != nil) + " eslot=" + es + " log=" + log
}

func c18Atoi(s string) int { n, _ := strconv.Atoi(s); return n }

func c18Suppressing(sc *c18Scenario) bool {
	if sc.hookAct == "c" {
		return true
	}
	for _, a := range sc.retryHooks {
		if a != "" && a != "n" {
			return true // a retry hook rewriting resp.Err: the stale-response paths then carry that error
		}
	}
	for _, l := range [][][]c18Act{sc.wrappers, sc.clientResp, sc.reqResp} {
		for _, st := range l {
			for _, a := range st {
				if a.kind == "c" || a.kind == "sw" || a.kind == "nn" {
					return true
				}
			}
		}
	}
	return false
}

// oracle judges the contract clauses of C18 on the observation, independently of the model.
// It returns "" when every clause holds, else the first clause that fails.
func (o *c18Obs) oracle(sc *c18Scenario) string {
	if o.crashed != "" {
		return "panic: " + o.crashed
	}
	if len(o.foreign) > 0 {
		return "stages/settings of another client (its parent or its copy) took part in the call: " + strings.Join(o.foreign, ".")
	}
	if o.runaway {
		return "the retry loop went on beyond the attempts the retry conditions allow"
	}
	verbStyle := sc.entry != 'd'
	if o.mustPanicked {
		if o.mustErr == nil {
			return "Must* panicked without an error"
		}
		if strings.HasPrefix(c18PipeErrName(o.mustErr), "other(") {
			return "Must* panicked with " + c18PipeErrName(o.mustErr) + ", not with the error the non-Must form returns"
		}
		if o.hookBad != "" {
			return o.hookBad
		}
		if len(sc.hookAct) > 1 && c18PipeErrName(o.mustErr) != c18ErrArg(c18Atoi(sc.hookAct[1:])) && o.hooks == 1 {
			return "Must* panicked with " + c18PipeErrName(o.mustErr) + " although the hook recorded another error"
		}
		if sc.hookAct == "c" && o.hooks == 1 {
			return "Must* panicked although the hook cleared the error"
		}
		if want := map[bool]int{true: 1, false: 0}[sc.hook]; o.hooks != want {
			return fmt.Sprintf("error hook ran %d times for a failing Must* call, want %d", o.hooks, want)
		}
		return o.orderOracle(sc)
	}
	if o.resp == nil {
		return "nil response returned"
	}
	r := o.resp
	if verbStyle && r.Err != o.err {
		return "returned error differs from resp.Err"
	}
	if sc.entry == 'm' && o.err != nil {
		return "Must* returned although the call ended in error"
	}
	if o.hookBad != "" {
		return o.hookBad
	}
	mutatingHook := sc.hookAct != "" && sc.hookAct != "n"
	switch {
	case o.hooks > 1:
		return fmt.Sprintf("error hook ran %d times", o.hooks)
	case o.hooks == 1 && (!verbStyle || !sc.hook):
		return "error hook ran for a Do-style call / without being installed"
	case o.hooks == 1 && !mutatingHook && r.Err == nil:
		return "error hook ran although the call reports no error"
	case o.hooks == 1 && sc.hookAct == "c" && r.Err != nil, o.hooks == 1 && len(sc.hookAct) > 1 && c18PipeErrName(r.Err) != c18ErrArg(c18Atoi(sc.hookAct[1:])):
		return "the error the hook left in resp.Err is not the one recorded at return"
	case o.hooks == 0 && verbStyle && sc.hook && r.Err != nil:
		return "error hook ran 0 times, want 1"
	}
	// "the call reports no error" for the clauses below: not merely because the hook cleared one
	noErr := r.Err == nil && !(sc.hookAct == "c" && o.hooks == 1)
	if sc.builderErr && noErr {
		return "a request setter recorded an error but the call reports none"
	}
	if sc.unreplayable && (sc.maxRetries != 0 || sc.unbounded) && noErr {
		return "retry with an unreplayable body was accepted"
	}
	if b := r.Bytes(); b != nil && r.Response != nil {
		if f := o.facts[r.Header.Get("X-Tag")]; f != nil && string(b) != f.body && string(b) != f.wire() {
			return "the cached body is not the body of the response the caller holds (final exchange)"
		}
	}
	// SetOutput / SetOutputFile: what was saved last is the body of the final exchange
	if sc.save && noErr && r.Response != nil && !c18Suppressing(sc) {
		if f := o.facts[r.Header.Get("X-Tag")]; f != nil && f.body != "" && r.Request != nil && r.Request.Method != "HEAD" &&
			f.status != 204 && f.status != 304 {
			var saved []byte
			if o.outW != nil {
				saved = o.outW.buf
			} else if o.outFile != "" {
				saved, _ = os.ReadFile(o.outFile)
			}
			if !strings.HasSuffix(string(saved), f.body) && !strings.HasSuffix(string(saved), f.wire()) {
				return c18VerdictDigestSave
			}
		}
	}
	res, es := r.SuccessResult() != nil, r.ErrorResult() != nil
	if res && es {
		return "both success result and error result populated"
	}
	if r.IsSuccessState() && r.IsErrorState() {
		return "both states"
	}
	// the state predicates classify the response the caller holds NOW (the final exchange): the
	// oracle's own reading of the checker in force on that status / those headers
	{
		want := "U"
		if r.Response != nil {
			switch {
			case sc.checker.fn != nil:
				want = c18StateName(sc.checker.fn(&Response{Response: r.Response, Request: r.Request}))
			case r.StatusCode >= 200 && r.StatusCode <= 299:
				want = "S"
			case r.StatusCode >= 400:
				want = "E"
			}
		}
		if got := c18StateName(r.ResultState()); got != want || r.IsSuccessState() != (want == "S") || r.IsErrorState() != (want == "E") {
			return "the state predicates say " + got + " but the response the caller holds classifies as " + want
		}
	}
	// binding against the final http response
	var f *c18Http
	if r.Response != nil {
		f = o.facts[r.Header.Get("X-Tag")]
		if f == nil {
			return "final http response is not one the script produced"
		}
	}
	decodes := func(proto interface{}) (interface{}, bool) {
		if f == nil {
			return nil, false
		}
		v, ok := c18Decode(f.body, c18CtClass(f.ct) == "xml", proto)
		return v, ok && f.readOK && len(f.xf) < 2 // reads, and the body transformer (if any) accepts it
	}
	content := f != nil && f.status != 204
	if res {
		_, ok := decodes(&c18T{})
		if !(sc.sT && content && r.IsSuccessState() && ok) {
			return "success result populated without (target, success state, content, unmarshals)"
		}
		want, final := o.decodedInto(&o.okT, &c18T{}, f.body, c18CtClass(f.ct) == "xml")
		if r.SuccessResult() != interface{}(&o.okT) || !final || !reflect.DeepEqual(want, &o.okT) {
			return "success target does not hold the decoded body of the final response"
		}
	} else if _, ok := decodes(&c18T{}); noErr && sc.sT && content && r.IsSuccessState() && ok {
		return "success result NOT populated although target, success state, content and unmarshals"
	}
	if es {
		switch v := r.ErrorResult().(type) {
		case *c18E:
			_, ok := decodes(&c18E{})
			if !(sc.eT && content && r.IsErrorState() && ok) || v != &o.erT {
				return "error result populated without (request target, error state, content, unmarshals)"
			}
			if want, final := o.decodedInto(&o.erT, &c18E{}, f.body, c18CtClass(f.ct) == "xml"); !final || !reflect.DeepEqual(want, &o.erT) {
				return "error target does not hold the decoded body of the final response"
			}
		case *c18C:
			_, ok := decodes(&c18C{})
			if !(!sc.eT && sc.cE && content && r.IsErrorState() && ok) {
				return "common error result populated without (no request target, common type, error state, content, unmarshals)"
			}
			if want, final := o.decodedInto(v, &c18C{}, f.body, c18CtClass(f.ct) == "xml"); !final || !reflect.DeepEqual(want, v) {
				return "common error object does not hold the decoded body of the final response"
			}
		default:
			return "error result of a foreign type"
		}
	} else if _, ok := decodes(&c18E{}); noErr && (sc.eT || sc.cE) && content && r.IsErrorState() && ok {
		return "error result NOT populated although target/type, error state, content and unmarshals"
	}
	// an error raised by a stage is seen
	if !c18Suppressing(sc) && len(o.raised) > 0 {
		last := o.raised[len(o.raised)-1]
		all := map[string]bool{}
		for _, l := range o.raised {
			for _, e := range l {
				all[e] = true
			}
		}
		if len(last) > 0 {
			if r.Err == nil {
				return "a stage of the final attempt raised " + strings.Join(last, ",") + " but the call reports no error"
			}
			if n := c18PipeErrName(r.Err); !all[n] && n != "digest" && !(n == "ctxdone" && len(sc.ctxDone) > 0) && !(n == "output" && o.fileFail) {
				return "the call reports " + n + " which no stage raised"
			}
		}
		if len(all) == 1 && len(last) > 0 {
			for e := range all {
				if n := c18PipeErrName(r.Err); n != e && n != "digest" && !(n == "ctxdone" && len(sc.ctxDone) > 0) && !(n == "output" && o.fileFail) {
					return "the only error raised is " + e + " but the call reports " + c18PipeErrName(r.Err)
				}
			}
		}
	}
	// precedence inside Client.roundTrip, read off the script: after an exchange EVERY client-level
	// response middleware runs and the last one that returns an error / assigns resp.Err / clears it
	// decides what the round trip reports — also over a transport error (no wrappers, request-level
	// stages, retry / error hooks in the way)
	if len(sc.wrappers) == 0 && len(sc.reqResp) == 0 && len(sc.ctxDone) == 0 && len(sc.retryHooks) == 0 && !mutatingHook && len(o.logs) > 0 {
		a := len(o.logs) - 1
		sent := false
		for _, e := range o.logs[a] {
			if e == "t" {
				sent = true
			}
		}
		if sent {
			for i := len(sc.clientResp) - 1; i >= 0; i-- {
				act := c18At(sc.clientResp[i], a, c18Act{kind: "n"})
				if act.kind == "n" {
					continue
				}
				want := "-"
				if act.kind != "c" {
					want = c18ErrArg(act.e)
				}
				if got := c18PipeErrName(r.Err); got != want {
					return "the last client-level response middleware left " + want + " in resp.Err but the call reports " + got
				}
				break
			}
		}
	}
	if r.Err != nil && strings.HasPrefix(c18PipeErrName(r.Err), "other(") {
		return "unclassified error " + c18PipeErrName(r.Err)
	}
	return o.orderOracle(sc)
}

// orderOracle: request middleware in registration order before anything else of the attempt,
// nothing built or sent unless all of them succeeded, wrappers outermost first, every client
// response middleware once and in order after each exchange, request-level ones in order.
func (o *c18Obs) orderOracle(sc *c18Scenario) string {
	if o.builtBefore {
		return "a request middleware ran after the http request had been built"
	}
	if o.builtinFirst {
		return "the built-in request middleware ran before a user request middleware"
	}
	if o.noBuiltin {
		return "the pipeline went on without the built-in request middleware"
	}
	for a, l := range o.logs {
		phase := 0 // 0 = request mws, 1 = built-in done, 2 = wrappers, 3 = sent, 4 = client resp, 5 = request-level resp
		nu, nc, nr, nw, sent := 0, 0, 0, len(sc.wrappers), 0
		for _, e := range l {
			idx, _ := strconv.Atoi(e[1:])
			switch e[0] {
			case 'u':
				if phase != 0 || idx != nu {
					return fmt.Sprintf("attempt %d: request middleware out of order (%s in %v)", a, e, l)
				}
				nu++
			case 'b':
				if phase != 0 || nu != len(sc.udReq) {
					return fmt.Sprintf("attempt %d: built-in request middleware ran before all user request middleware (%v)", a, l)
				}
				for i := 0; i < nu; i++ {
					if c18At(sc.udReq[i], a, c18Act{kind: "o"}).kind == "f" {
						return fmt.Sprintf("attempt %d: pipeline continued after a failing request middleware (%v)", a, l)
					}
				}
				phase = 1
			case 'w':
				if phase < 1 || phase > 2 || idx != nw-1 {
					return fmt.Sprintf("attempt %d: wrapper order (%s in %v)", a, e, l)
				}
				nw--
				phase = 2
			case 't':
				if phase < 1 || phase > 2 || sent > 0 {
					return fmt.Sprintf("attempt %d: transport called at the wrong point (%v)", a, l)
				}
				sent++
				phase = 3
			case 'j', 'x':
				if phase < 3 {
					return fmt.Sprintf("attempt %d: unmarshal before the exchange (%v)", a, l)
				}
			case 'c':
				if phase < 3 || phase > 4 || idx != nc {
					return fmt.Sprintf("attempt %d: client response middleware order (%s in %v)", a, e, l)
				}
				nc++
				phase = 4
			case 'r':
				if phase < 1 || idx != nr {
					return fmt.Sprintf("attempt %d: request-level response middleware order (%s in %v)", a, e, l)
				}
				nr++
				phase = 5
			case 'T':
				if phase != 5 {
					return fmt.Sprintf("attempt %d: digest resend outside its middleware (%v)", a, l)
				}
			}
		}
		if sent > 0 && nc != len(sc.clientResp) {
			return fmt.Sprintf("attempt %d: %d of %d client response middleware ran after the exchange (%v)", a, nc, len(sc.clientResp), l)
		}
		if phase >= 1 && len(sc.reqResp) > 0 && nr == 0 && o.crashed == "" {
			return fmt.Sprintf("attempt %d: no request-level response middleware ran (%v)", a, l)
		}
	}
	return ""
}

// ---------------------------------------------------------------------------------------
// known-defect classing: the model can be asked for the code as found, fix by fix

var c18FixClasses = []string{"c10-afterresponse-overwrites-err", "c10-nil-resp-retry", "c18-digest-stale-binding", "c18-digest-download-challenge"}

// c18Repaired is the code variant the model follows: every fix applied.
const c18Repaired = "1111"

// c18VerdictDigestSave is the oracle's verdict for the known finding c18-digest-download-challenge
// (fixes/C18-3-digest-download.patch).
const c18VerdictDigestSave = "the saved output does not end with the body of the final exchange"

func c18ClassOpen(class string) bool {
	for i, c := range c18FixClasses {
		if c == class {
			for _, v := range c18OpenVariants() {
				if v[i] == '0' {
					return true
				}
			}
		}
	}
	return false
}

// c18OpenVariants lists the as-found code variants the lane may use to explain a difference:
// a fix may be switched off only while known-findings.txt still carries the open: line of its
// class for property C18 (so the classing tightens by itself as patches land). Most-repaired
// variants first.
func c18OpenVariants() []string {
	dir := os.Getenv("VERIF_DIR")
	if dir == "" {
		dir = "/verif"
	}
	b, err := os.ReadFile(filepath.Join(dir, "known-findings.txt"))
	if err != nil {
		return nil
	}
	open := [4]bool{}
	for _, l := range strings.Split(string(b), "\n") {
		l = strings.TrimSpace(l)
		if !strings.HasPrefix(l, "open:") || !strings.Contains(l, "property=C18 ") {
			continue
		}
		for i, c := range c18FixClasses {
			if strings.Contains(l, "class="+c+" ") {
				open[i] = true
			}
		}
	}
	var out []string
	for zeros := 1; zeros <= 4; zeros++ {
		for m := 0; m < 16; m++ {
			v, n, ok := "", 0, true
			for i := 0; i < 4; i++ {
				if m&(1<<i) != 0 {
					v += "0"
					n++
					ok = ok && open[i]
				} else {
					v += "1"
				}
			}
			if ok && n == zeros {
				out = append(out, v)
			}
		}
	}
	return out
}

// c18Classify asks the model (repaired code, fixes 111) about every case and, for the cases
// where the implementation differs, asks again for the code as found, fix by fix. It returns
// the repaired model's answers and, per case, the most-repaired variant that reproduces the
// implementation's answer exactly ("" = none does) with the class of the first missing fix.
func c18Classify(scs []*c18Scenario, impl []string) (model, variant, class []string, err error) {
	lines := make([]string, len(scs))
	for i, sc := range scs {
		lines[i] = sc.line(c18Repaired)
	}
	model, err = verifh.RunModel(lines)
	if err != nil {
		return
	}
	class = make([]string, len(scs))
	variant = make([]string, len(scs))
	var qi []int
	var q []string
	variants := c18OpenVariants()
	for i := range scs {
		if model[i] != impl[i] && len(variants) > 0 {
			for _, v := range variants {
				q = append(q, scs[i].line(v))
			}
			qi = append(qi, i)
		}
	}
	if len(q) == 0 {
		return
	}
	ans2, err2 := verifh.RunModel(q)
	if err2 != nil {
		err = err2
		return
	}
	for k, i := range qi {
		for j, v := range variants { // most-repaired variants first
			if ans2[k*len(variants)+j] == impl[i] {
				variant[i] = v
				for b := 0; b < 4; b++ {
					if v[b] == '0' {
						class[i] = c18FixClasses[b]
						break
					}
				}
				break
			}
		}
	}
	return
}

// ---------------------------------------------------------------------------------------
// generators

func c18GenHTTP(r *rand.Rand, ck c18Checker, wantGood int) *c18Http {
	h := &c18Http{status: c18PickStatus(r), readOK: r.Intn(10) != 0}
	switch r.Intn(4) {
	case 0:
		h.ct = verifh.Pick(r, c18ContentTypes)
	case 1:
		h.ct = "application/json"
	case 2:
		h.ct = "text/xml; charset=utf-8"
	}
	if r.Intn(100) < wantGood { // a body the chosen codec accepts
		if c18CtClass(h.ct) == "xml" {
			h.body = c18Bodies[9+r.Intn(2)]
		} else {
			h.body = c18Bodies[r.Intn(3)]
		}
	} else {
		h.body = verifh.Pick(r, c18Bodies)
	}
	c18Facts(h, ck)
	return h
}

func c18GenErr(r *rand.Rand) int { return 1 + r.Intn(8) }

// c18Finish draws the dimensions every lane shares, after the stack itself has been generated:
// a response-body transformer (1 in pXform scenarios; then every scripted response says whether
// the transformer accepts its body, fails returning nil, or fails returning the raw body) and the
// lineage of the client that runs the call (1 in pClone scenarios goes through Clone).
func c18Finish(r *rand.Rand, sc *c18Scenario, pXform, pClone int) *c18Scenario {
	if r.Intn(pXform) == 0 {
		sc.xform = true
	}
	// unbounded retry: SetRetryCount(-1), the scripted retry conditions alone end the loop
	if sc.maxRetries > 0 && r.Intn(4) == 0 {
		natt := sc.maxRetries + 1
		if sc.conds == nil {
			sc.conds = make([]bool, natt)
			for i := range sc.conds {
				sc.conds[i] = r.Intn(3) != 0
			}
		}
		sc.conds[natt-1] = false
		sc.unbounded, sc.maxRetries = true, 0
	}
	natt := sc.natt()
	// the context is done at the wait before some retry
	if natt > 1 && r.Intn(5) == 0 {
		sc.ctxDone = make([]bool, natt)
		for i := range sc.ctxDone {
			sc.ctxDone[i] = r.Intn(3) == 0
		}
	}
	// a transport error that wraps context.Canceled
	if sc.e2e == "" {
		for i := range sc.transport {
			if sc.transport[i].fail >= 0 && r.Intn(6) == 0 {
				sc.transport[i].fail = c18CtxCanceled
			}
		}
	}
	// SetOutput / SetOutputFile, the output failing on some attempts
	if r.Intn(5) == 0 {
		sc.save = true
		if r.Intn(2) == 0 {
			sc.outFails = make([]bool, natt)
			for a := range sc.outFails {
				sc.outFails[a] = r.Intn(3) == 0
				if sc.outFails[a] && sc.e2e != "" && a < len(sc.transport) && sc.transport[a].h != nil &&
					(sc.transport[a].h.status == 204 || sc.transport[a].h.status == 304) {
					sc.outFails[a] = false // a real origin sends no body with these: nothing would be written
				}
				if sc.outFails[a] && a < len(sc.transport) && sc.transport[a].h != nil {
					// (a read failure and an output failure are not combined, and an empty body never
					// reaches Write: see Req.Pipeline.download)
					h := sc.transport[a].h
					h.readOK = true
					if h.body == "" {
						h.body = c18Bodies[0]
					}
					c18Facts(h, sc.checker)
				}
				if sc.outFails[a] { // likewise the answer to a digest re-send of that attempt
					for _, st := range sc.reqResp {
						if a < len(st) && st[a].kind == "d" && st[a].re.h != nil {
							h := st[a].re.h
							h.readOK = true
							if h.body == "" {
								h.body = c18Bodies[0]
							}
							c18Facts(h, sc.checker)
						}
					}
				}
			}
		}
	}
	each := func(h *c18Http) {
		if h == nil {
			return
		}
		h.xf = "-"
		if sc.xform {
			switch x := r.Intn(10); {
			case x < 5:
				h.xf = "k"
			case x < 8 && !(sc.e2e != "" && sc.save):
				// (not with a real connection + SetOutput: ToBytes closes the body it failed to transform and
				// handleDownload then reads the closed body — an error of the transport's, not of a stage)
				h.xf = "n" + strconv.Itoa(c18GenErr(r))
			default:
				h.xf = "b" + strconv.Itoa(c18GenErr(r))
			}
		}
	}
	for _, t := range sc.transport {
		each(t.h)
	}
	for _, st := range sc.reqResp {
		for _, a := range st {
			if a.kind == "d" {
				each(a.re.h)
			}
		}
	}
	for a, f := range sc.outFails {
		// (a transformer that fails AND returns nil leaves nothing to copy: a failing io.Writer is then
		// never written to, while a failing file creation still fails — the model does not tell the two
		// kinds of output apart, so the combination is not generated)
		if f && a < len(sc.transport) && sc.transport[a].h != nil && strings.HasPrefix(sc.transport[a].h.xf, "n") {
			sc.transport[a].h.xf = "b" + sc.transport[a].h.xf[1:]
		}
		for _, st := range sc.reqResp {
			if f && a < len(st) && st[a].kind == "d" && st[a].re.h != nil && strings.HasPrefix(st[a].re.h.xf, "n") {
				st[a].re.h.xf = "b" + st[a].re.h.xf[1:]
			}
		}
	}
	if r.Intn(pClone) == 0 {
		sc.path, sc.split = 1+r.Intn(3), r.Intn(1<<20)
	}
	sc.pkg = r.Intn(3) == 0
	// hooks that rewrite the error of the response they are handed
	if sc.hook && r.Intn(3) == 0 {
		sc.hookAct = verifh.Pick(r, []string{"c", "s" + strconv.Itoa(20+r.Intn(5)), "s" + strconv.Itoa(20+r.Intn(5))})
	}
	if natt > 1 && r.Intn(5) == 0 {
		sc.retryHooks = make([]string, natt)
		for i := range sc.retryHooks {
			sc.retryHooks[i] = verifh.Pick(r, []string{"n", "n", "c", "s" + strconv.Itoa(25+r.Intn(5))})
		}
	}
	return sc
}

func c18GenStack(r *rand.Rand) *c18Scenario {
	sc := &c18Scenario{entry: "dsvm"[r.Intn(4)], sT: r.Intn(3) != 0, eT: r.Intn(2) == 0, cE: r.Intn(2) == 0,
		autoRead: r.Intn(5) != 0, hook: r.Intn(4) != 0, verb: r.Intn(7), checker: c18Checkers[0]}
	if r.Intn(4) == 0 {
		sc.checker = verifh.Pick(r, c18Checkers)
	}
	if r.Intn(40) == 0 {
		sc.builderErr = true
	}
	if r.Intn(3) == 0 {
		sc.maxRetries = 1 + r.Intn(3)
	}
	if r.Intn(40) == 0 {
		sc.unreplayable = true
	}
	natt := sc.maxRetries + 1
	quiet := r.Intn(3) == 0 // mostly-valid stream: few failing stages
	p := func(n int) bool {
		if quiet {
			n *= 4
		}
		return r.Intn(n) == 0
	}
	if r.Intn(3) == 0 && sc.maxRetries > 0 {
		sc.conds = make([]bool, natt)
		for i := range sc.conds {
			sc.conds[i] = r.Intn(2) == 0
		}
	}
	for i, n := 0, r.Intn(4); i < n; i++ {
		st := make([]c18Act, natt)
		for a := range st {
			st[a] = c18Act{kind: "o"}
			if p(8) {
				st[a] = c18Act{kind: "f", e: c18GenErr(r)}
			}
		}
		sc.udReq = append(sc.udReq, st)
	}
	if p(10) {
		sc.builtin = make([]bool, natt)
		for a := range sc.builtin {
			sc.builtin[a] = r.Intn(2) == 0
		}
	}
	hasDigest := r.Intn(6) == 0
	for i, n := 0, r.Intn(4); i < n && r.Intn(2) == 0; i++ {
		st := make([]c18Act, natt)
		for a := range st {
			st[a] = c18Act{kind: "p"}
			if p(3) {
				k := verifh.Pick(r, []string{"sn", "sf", "nn", "pe", "pn", "sw", "ps", "sn", "pe", "ps"})
				if k == "nn" && hasDigest {
					k = "pe"
				}
				st[a] = c18Act{kind: k, e: c18GenErr(r)}
			}
		}
		sc.wrappers = append(sc.wrappers, st)
	}
	if p(12) && !hasDigest && !sc.unreplayable {
		sc.getBody = make([]bool, natt)
		for a := range sc.getBody {
			sc.getBody[a] = r.Intn(2) == 0
		}
	}
	for a := 0; a < natt; a++ {
		if p(4) {
			sc.transport = append(sc.transport, c18TOut{fail: c18GenErr(r)})
		} else {
			h := c18GenHTTP(r, sc.checker, 70)
			if hasDigest && r.Intn(2) == 0 {
				h.status = 401
				c18Facts(h, sc.checker)
			}
			sc.transport = append(sc.transport, c18TOut{fail: -1, h: h})
		}
	}
	respAct := func() c18Act {
		if !p(3) {
			return c18Act{kind: "n"}
		}
		return c18Act{kind: verifh.Pick(r, []string{"r", "s", "c", "r", "s"}), e: c18GenErr(r)}
	}
	for i, n := 0, r.Intn(4); i < n; i++ {
		st := make([]c18Act, natt)
		for a := range st {
			st[a] = respAct()
		}
		sc.clientResp = append(sc.clientResp, st)
	}
	nr := r.Intn(4)
	dpos := -1
	if hasDigest {
		if nr == 0 {
			nr = 1
		}
		dpos = r.Intn(nr)
	}
	for i := 0; i < nr; i++ {
		st := make([]c18Act, natt)
		for a := range st {
			if i == dpos {
				re := c18TOut{fail: -1, h: c18GenHTTP(r, sc.checker, 80)}
				if r.Intn(6) == 0 {
					re = c18TOut{fail: c18GenErr(r)}
				}
				st[a] = c18Act{kind: "d", chalOK: r.Intn(6) != 0, re: re}
			} else {
				st[a] = respAct()
			}
		}
		sc.reqResp = append(sc.reqResp, st)
	}
	return c18Finish(r, sc, 5, 4)
}

// c18GenStale: directed pattern "an attempt that binds a result, a retry, then a request
// middleware (or the built-in block) failing on the retry" — the response of the previous
// attempt is returned with its slots cleared.
func c18GenStale(r *rand.Rand) *c18Scenario {
	sc := &c18Scenario{entry: "dsvm"[r.Intn(4)], sT: true, eT: r.Intn(2) == 0, cE: r.Intn(2) == 0,
		autoRead: r.Intn(4) != 0, hook: true, verb: r.Intn(7), checker: c18Checkers[0], maxRetries: 1 + r.Intn(2)}
	natt := sc.maxRetries + 1
	sc.conds = make([]bool, natt)
	for i := range sc.conds {
		sc.conds[i] = true
	}
	failAt := 1 + r.Intn(sc.maxRetries)
	for a := 0; a < natt; a++ {
		h := &c18Http{status: []int{200, 201, 404, 500}[r.Intn(4)], ct: "application/json", body: c18Bodies[r.Intn(3)], readOK: true}
		c18Facts(h, sc.checker)
		sc.transport = append(sc.transport, c18TOut{fail: -1, h: h})
	}
	if r.Intn(2) == 0 {
		st := make([]c18Act, natt)
		for a := range st {
			st[a] = c18Act{kind: "o"}
		}
		st[failAt] = c18Act{kind: "f", e: c18GenErr(r)}
		sc.udReq = [][]c18Act{st}
	} else {
		sc.builtin = make([]bool, natt)
		sc.builtin[failAt] = true
	}
	if r.Intn(2) == 0 {
		sc.clientResp = [][]c18Act{make([]c18Act, natt)}
		for a := range sc.clientResp[0] {
			sc.clientResp[0][a] = c18Act{kind: "n"}
		}
	}
	return c18Finish(r, sc, 8, 4)
}

func c18Human(sc *c18Scenario, impl string) string {
	return sc.line(c18Repaired)[8:] + " checker=" + sc.checker.name + fmt.Sprintf(" clonepath=%d/%d", sc.path, sc.split) + " => " + impl
}

// c18ModelBuckets: histogram buckets derived from the MODEL's answer (what the repaired code
// does on the case) — the buckets a lane insists on must not depend on the implementation
// under test, or a defect that makes one unreachable would look like a broken check.
func c18ModelBuckets(hist *c18Hist, sc *c18Scenario, ans string) {
	f := map[string]string{}
	for _, kv := range strings.Fields(ans) {
		if i := strings.IndexByte(kv, '='); i > 0 {
			f[kv[:i]] = kv[i+1:]
		}
	}
	hist.Count("entry=" + string(sc.entry))
	hist.Count("clonepath=" + strconv.Itoa(sc.path))
	if sc.pkg && (sc.entry == 'v' || sc.entry == 'm') && !sc.sT && !sc.eT && len(sc.reqResp) == 0 && sc.maxRetries == 0 && !sc.save &&
		!sc.unbounded && len(sc.ctxDone) == 0 && sc.conds == nil && len(sc.getBody) == 0 && !sc.unreplayable && !sc.builderErr &&
		(sc.autoRead || sc.verb%2 == 0) {
		hist.Count("pkg-level:" + map[byte]string{'v': "", 'm': "Must"}[sc.entry] + c18Verbs[sc.verb%len(c18Verbs)])
	}
	if sc.save {
		hist.Count("save")
	}
	if sc.hookAct != "" && sc.hookAct != "n" && f["hooks"] == "1" {
		hist.Count("hook-rewrites:" + sc.hookAct[:1])
	}
	if len(sc.retryHooks) > 0 && strings.Count(f["log"], "|") > 0 {
		hist.Count("retry-hook-rewrites")
	}
	if sc.unbounded {
		hist.Count("unbounded")
		if strings.Count(f["log"], "|") > 0 {
			hist.Count("unbounded-retried")
		}
	}
	if len(sc.ctxDone) > 0 {
		hist.Count("ctx-script")
	}
	if sc.xform {
		hist.Count("xform")
		for _, t := range sc.transport {
			if t.h != nil && len(t.h.xf) > 1 {
				hist.Count("xform-fails")
				if strings.HasPrefix(f["err"], "s") || strings.HasPrefix(ans, "must err=s") {
					hist.Count("xform-fails+err")
				}
				break
			}
		}
	}
	if f["log"] == "-" {
		hist.Count("attempts=0")
	} else {
		hist.Count("attempts=" + strconv.Itoa(strings.Count(f["log"], "|")+1))
	}
	switch {
	case strings.HasPrefix(ans, "crash"):
		hist.Count("out=crash")
	case strings.HasPrefix(ans, "must"):
		hist.Count("out=mustpanic")
	case f["err"] != "-":
		hist.Count("out=err:" + strings.TrimRight(f["err"], "0123456789"))
	default:
		hist.Count("out=ok")
	}
	if f["res"] == "1" {
		hist.Count("bound=success")
	}
	if f["eslot"] == "R" || f["eslot"] == "C" {
		hist.Count("bound=error" + f["eslot"])
	}
	if h, ok := f["http"]; ok {
		if h == "-" {
			hist.Count("final=nohttp")
		} else {
			hist.Count("final=" + f["state"])
			if f["status"] == "204" {
				hist.Count("final=204")
			}
			if n, _ := strconv.Atoi(h); n%2 == 1 {
				hist.Count("digest-resent")
			}
		}
	}
	if f["hooks"] == "1" {
		hist.Count("hook=1")
	}
	if strings.Contains(f["log"], ".j") || strings.Contains(f["log"], ".x") {
		hist.Count("unmarshalled")
	}
}

// c18OddTag: the answer's final exchange is a digest re-send
func c18OddTag(ans string) bool {
	for _, kv := range strings.Fields(ans) {
		if strings.HasPrefix(kv, "http=") {
			n, err := strconv.Atoi(kv[5:])
			return err == nil && n%2 == 1
		}
	}
	return false
}

func c18RunLane(t *testing.T, s *verifh.Session, hist *c18Hist, scs []*c18Scenario) {
	c18OutDir = t.TempDir()
	impl := make([]string, len(scs))
	verdict := make([]string, len(scs))
	for i, sc := range scs {
		o := c18Run(sc)
		impl[i] = o.answer(sc)
		verdict[i] = o.oracle(sc)
		if o.resp != nil && o.resp.Response != nil {
			if f := o.facts[o.resp.Header.Get("X-Tag")]; f != nil {
				hist.Count("ct=" + c18CtClass(f.ct))
			}
		}
	}
	model, variant, class, err := c18Classify(scs, impl)
	if err != nil {
		t.Fatalf("driver: %v -- treat as: no tests to run", err)
	}
	digestSaveOpen := c18ClassOpen("c18-digest-download-challenge")
	for i := range scs {
		// the known finding as the ORACLE sees it (the model does not carry the output's contents)
		if class[i] == "" && verdict[i] == c18VerdictDigestSave && digestSaveOpen && impl[i] == model[i] &&
			strings.Contains(impl[i], " http=") && c18OddTag(impl[i]) {
			class[i], variant[i] = "c18-digest-download-challenge", c18Repaired
		}
	}
	emit := func(i int, line, cls string, ok bool) {
		sc := scs[i]
		human := c18Human(sc, impl[i])
		if verdict[i] != "" {
			human += " ORACLE: " + verdict[i]
		}
		nontriv := !sc.builderErr && !strings.HasPrefix(impl[i], "crash")
		s.Case(line, impl[i], ok, cls, nontriv, human)
	}
	// 1. cases nothing explains come first (the harness reports only the first mismatches)
	for i := range scs {
		c18ModelBuckets(hist, scs[i], model[i])
		if (impl[i] != model[i] || verdict[i] != "") && class[i] == "" {
			hist.Count("unexplained")
			emit(i, scs[i].line(c18Repaired), "", verdict[i] == "")
		}
	}
	// 2. a few representatives of each known defect, reported against the repaired model
	reps := map[string]int{}
	done := make([]bool, len(scs))
	for i := range scs {
		if class[i] != "" {
			hist.Count("known:" + class[i])
			if reps[class[i]] < 3 {
				reps[class[i]]++
				done[i] = true
				emit(i, scs[i].line(c18Repaired), class[i], verdict[i] == "")
			}
		}
	}
	// 3. everything else: agreeing cases, and the remaining cases of the known classes, which are
	// compared with the model of the code AS FOUND (the variant that reproduces them exactly)
	for i := range scs {
		switch {
		case done[i] || ((impl[i] != model[i] || verdict[i] != "") && class[i] == ""):
		case class[i] != "":
			emit(i, scs[i].line(variant[i]), "", true)
		default:
			emit(i, scs[i].line(c18Repaired), "", true)
		}
	}
}

// TestVerif_C18_call: the binding matrix through the real entry points, no user stages:
// every status 100..599 x content type classes x well/ill-formed bodies x target sets x
// checkers x auto-read x entry points.
func TestVerif_C18_call(t *testing.T) {
	s := verifh.New(t, "C18", "call",
		"real client + scripted http.RoundTripper, no user stages: EVERY status 100..599 x {json, xml, other, none} content types x {well-formed, ill-formed, empty} bodies x target sets {success, error, common error type, none, combinations} x {default, custom} state checkers x auto-read on/off (either level) x read failure x response-body transformer {none, accepts, fails returning nil, fails returning a body} x SetOutput/SetOutputFile (output failing or not) x out-of-range state checker x entry points Do(), Do(ctx), Send, EVERY verb / Must* method of *Request (enumerated by reflection), the 14 package-level wrappers (one case per status), requests built by R / NewRequest / c.Post x the client obtained directly or through Clone (3 lineages, decoy stages on the other client) (quick: 12 combinations per status; thorough: 80); observed (resp, err, resp.Err, hook count, final state, SuccessResult/ErrorResult + target contents, unmarshaller invocations) vs model and vs the independent contract oracle; non-trivial = every case")
	s.OracleIndependent = true
	r := s.Rand()
	hist := newC18Hist(s)
	var scs []*c18Scenario
	per := verifh.N(12, 80)
	for code := 100; code <= 599; code++ {
		for k := 0; k < per; k++ {
			sc := &c18Scenario{entry: "dsvm"[r.Intn(4)], sT: r.Intn(4) != 0, eT: r.Intn(2) == 0, cE: r.Intn(2) == 0,
				autoRead: r.Intn(4) != 0, hook: true, verb: r.Intn(7), checker: c18Checkers[0]}
			if r.Intn(5) == 0 {
				sc.checker = verifh.Pick(r, c18Checkers)
			}
			h := &c18Http{status: code, readOK: r.Intn(12) != 0}
			switch (k + code) % 4 {
			case 0:
				h.ct = verifh.Pick(r, []string{"application/json", "application/json; charset=utf-8", "application/problem+json", "application/JSON", "Application/Json"})
			case 1:
				h.ct = verifh.Pick(r, []string{"text/xml", "application/xml", "application/soap+xml; charset=utf-8", "application/XML", "TEXT/Xml"})
			case 2:
				h.ct = verifh.Pick(r, []string{"text/plain", "text/html", "application/octet-stream", "image/png"})
			}
			switch r.Intn(5) {
			case 0:
				h.body = verifh.Pick(r, c18Bodies) // anything
			case 1:
				h.body = ""
			default: // well-formed for the codec the content type selects
				if c18CtClass(h.ct) == "xml" {
					h.body = c18Bodies[9+r.Intn(2)]
				} else {
					h.body = c18Bodies[r.Intn(3)]
				}
			}
			c18Facts(h, sc.checker)
			sc.transport = []c18TOut{{fail: -1, h: h}}
			c18Finish(r, sc, 4, 4)
			if k == 0 {
				// one case per status through a package-level wrapper (req.Get … req.MustPut: the default
				// client), which needs a scenario that configures nothing at request level
				sc.sT, sc.eT, sc.entry, sc.pkg, sc.save, sc.outFails = false, false, "vm"[r.Intn(2)], true, false, nil
				if !sc.autoRead && sc.verb%2 == 1 {
					sc.autoRead = true
				}
			}
			scs = append(scs, sc)
		}
	}
	c18RunLane(t, s, hist, scs)
	s.Finish()
	hist.need(t, "bound=success", "bound=errorR", "bound=errorC", "out=err:unm", "out=err:read", "out=mustpanic", "out=ok",
		"final=S", "final=E", "final=U", "final=204", "ct=json", "ct=xml", "ct=other", "ct=none", "entry=d", "entry=s", "entry=v", "entry=m", "hook=1",
		"pkg-level:Get", "pkg-level:Post", "pkg-level:Put", "pkg-level:Patch", "pkg-level:Delete", "pkg-level:Options", "pkg-level:Head",
		"pkg-level:MustGet", "pkg-level:MustPost", "pkg-level:MustPut", "pkg-level:MustPatch", "pkg-level:MustDelete", "pkg-level:MustOptions",
		"pkg-level:MustHead", "save", "out=err:output", "xform-fails+err", "clonepath=1", "clonepath=2", "clonepath=3",
		"hook-rewrites:c", "hook-rewrites:s")
}

// TestVerif_C18_pipe: generated middleware stacks.
func TestVerif_C18_pipe(t *testing.T) {
	s := verifh.New(t, "C18", "pipe",
		"real client, generated stacks: 0..3 client request middleware, built-in block failure (bad URL), 0..3 wrapping round-trippers (pass / short-circuit with nil or fresh response / replace error / drop response / swallow / record), GetBody failure, scripted transport (error or any status/content type/body), 0..3 client response middleware and 0..3 request-level ones (nop / return error / set resp.Err / clear resp.Err) plus the built-in digest middleware with its second exchange, retry 0..3 with default rule or scripted conditions, SetRetryCount(-1) ended by the conditions alone, transport errors that wrap context.Canceled, the context cancelled at the wait before a retry, every action scripted per attempt, targets, checkers (incl. out-of-range verdicts), auto-read, response-body transformer outcomes per exchange, SetOutput/SetOutputFile with per-attempt output failures, error hook, every entry point (see lane call), client obtained directly or through Clone with decoy stages on its relatives; a third of the stacks is 'quiet' (mostly succeeding stages); observed: returned (resp, err), resp.Err, hook count, final response (exchange tag, status, state, body cached AND whose body it is, result/error slots), saved output vs final body, per-attempt invocation log of every middleware, wrapper, exchange and unmarshaller; non-trivial = not a builder error and no crash")
	s.OracleIndependent = true
	r := s.Rand()
	hist := newC18Hist(s)
	var scs []*c18Scenario
	// regression corpus: the witnesses of the defects found with this lane
	scs = append(scs, c18Corpus()...)
	n := verifh.N(25000, 300000)
	for k := 0; k < n; k++ {
		if k%40 == 7 {
			scs = append(scs, c18GenStale(r))
			continue
		}
		scs = append(scs, c18GenStack(r))
	}
	c18RunLane(t, s, hist, scs)
	s.Finish()
	hist.need(t, "bound=success", "bound=errorR", "bound=errorC", "out=err:unm", "out=err:s", "out=err:builtin", "out=err:getbody", "out=err:builder",
		"out=err:unreplay", "out=err:digest", "out=mustpanic", "out=ok", "attempts=1", "attempts=2", "attempts=3", "attempts=4", "final=nohttp",
		"digest-resent", "hook=1", "entry=d", "entry=s", "entry=v", "entry=m",
		"save", "out=err:output", "unbounded-retried", "out=err:ctxdone", "out=err:ctxcanceled", "xform-fails+err",
		"clonepath=1", "clonepath=2", "clonepath=3", "hook-rewrites:c", "hook-rewrites:s", "retry-hook-rewrites")
}

// TestVerif_C18_e2e: the same contract over a real connection: req's own Transport against an
// in-process origin on loopback (net/http/httptest), which plays the scripted exchanges.
func TestVerif_C18_e2e(t *testing.T) {
	s := verifh.New(t, "C18", "e2e",
		"real client AND real transport (HTTP/1.1 over loopback) against an in-process httptest origin playing the script: final statuses {200,201,202,204,206,300,304,400,401,404,409,500,503} x content types x well/ill-formed bodies x targets x checkers x auto-read x entry points, 0..2 client/request-level response middleware, retry with scripted conditions, unbounded retry, context cancelled at the wait, body transformer, SetOutput/SetOutputFile, Clone lineages, the digest middleware answering a real 401 challenge, a 302 hop followed by the transport, and content presence as the wire shows it: HEAD, 204/205/304, Content-Length 0, chunked with no chunk, gzip of nothing; same observations, model line and oracle as the pipe lane; non-trivial = every case")
	s.OracleIndependent = true
	srv := httptest.NewServer(http.HandlerFunc(c18E2EServe))
	defer srv.Close()
	r := s.Rand()
	hist := newC18Hist(s)
	var scs []*c18Scenario
	statuses := []int{200, 201, 202, 204, 205, 206, 300, 304, 400, 401, 404, 409, 500, 503}
	gen := func(ck c18Checker, status int) *c18Http {
		h := c18GenHTTP(r, ck, 75)
		h.status, h.readOK = status, true
		if status == 204 || status == 304 || status == 205 {
			h.body = "" // a real origin cannot (204, 304) or must not (205) send one
		}
		if status == 304 {
			h.ct = "" // net/http's server suppresses Content-Type on 304
		}
		if r.Intn(2) == 0 && h.ct != "" && status != 304 && !strings.Contains(h.ct, "charset") {
			h.ct += "; charset=utf-8"
		}
		c18Facts(h, ck)
		return h
	}
	for k := 0; k < verifh.N(500, 6000); k++ {
		sc := &c18Scenario{entry: "dsvm"[r.Intn(4)], sT: r.Intn(4) != 0, eT: r.Intn(2) == 0, cE: r.Intn(2) == 0,
			autoRead: r.Intn(4) != 0, hook: true, verb: r.Intn(5), checker: c18Checkers[0], e2e: srv.URL, framing: r.Intn(3), head: r.Intn(8) == 0}
		if r.Intn(4) == 0 {
			sc.checker = verifh.Pick(r, c18Checkers)
		}
		if r.Intn(4) == 0 {
			sc.maxRetries = 1 + r.Intn(2)
			sc.conds = make([]bool, sc.maxRetries+1)
			for i := range sc.conds {
				sc.conds[i] = r.Intn(2) == 0
			}
		}
		natt := sc.maxRetries + 1
		digest := r.Intn(4) == 0
		for a := 0; a < natt; a++ {
			st := verifh.Pick(r, statuses)
			if digest && r.Intn(3) != 0 {
				st = 401
			}
			sc.transport = append(sc.transport, c18TOut{fail: -1, h: gen(sc.checker, st)})
		}
		respAct := func() c18Act {
			if r.Intn(4) != 0 {
				return c18Act{kind: "n"}
			}
			return c18Act{kind: verifh.Pick(r, []string{"r", "s"}), e: c18GenErr(r)}
		}
		for i, n := 0, r.Intn(3); i < n; i++ {
			st := make([]c18Act, natt)
			for a := range st {
				st[a] = respAct()
			}
			sc.clientResp = append(sc.clientResp, st)
		}
		if digest {
			st := make([]c18Act, natt)
			for a := range st {
				st[a] = c18Act{kind: "d", chalOK: r.Intn(5) != 0, re: c18TOut{fail: -1, h: gen(sc.checker, verifh.Pick(r, []int{200, 200, 201, 403, 500}))}}
			}
			sc.reqResp = append(sc.reqResp, st)
		}
		for i, n := 0, r.Intn(2); i < n; i++ {
			st := make([]c18Act, natt)
			for a := range st {
				st[a] = respAct()
			}
			sc.reqResp = append(sc.reqResp, st)
		}
		c18Finish(r, sc, 4, 3)
		if !digest && r.Intn(4) == 0 {
			sc.redir = true
			hist.Count("redirect-hop")
		}
		if sc.head { // no body ever arrives: the script's bodies are empty
			sc.outFails = nil
			for _, t := range sc.transport {
				if t.h != nil {
					t.h.body = ""
					c18Facts(t.h, sc.checker)
				}
			}
			for _, st := range sc.reqResp {
				for _, a := range st {
					if a.kind == "d" && a.re.h != nil {
						a.re.h.body = ""
						c18Facts(a.re.h, sc.checker)
					}
				}
			}
		}
		hist.Count("framing=" + strconv.Itoa(sc.framing))
		if sc.head {
			hist.Count("head")
		}
		for _, t := range sc.transport {
			if t.h != nil && t.h.body == "" && !sc.xform {
				hist.Count("empty-body/framing=" + strconv.Itoa(sc.framing))
			}
		}
		scs = append(scs, sc)
	}
	c18RunLane(t, s, hist, scs)
	s.Finish()
	hist.need(t, "bound=success", "bound=errorR", "bound=errorC", "out=err:unm", "out=err:s", "out=mustpanic", "out=ok", "digest-resent",
		"final=S", "final=E", "final=U", "final=204", "attempts=2", "hook=1", "head", "empty-body/framing=0", "empty-body/framing=1",
		"empty-body/framing=2", "save", "unbounded-retried", "xform-fails+err", "clonepath=1", "redirect-hop")
}

// c18Corpus: minimal witnesses (also proved as counter-examples of the as-found model in
// Req/Props/C18Pipeline.lean).
func c18Corpus() []*c18Scenario {
	ok200 := func() *c18Http {
		h := &c18Http{status: 200, ct: "application/json", body: c18Bodies[0], readOK: true}
		c18Facts(h, c18Checkers[0])
		return h
	}
	h401 := &c18Http{status: 401, ct: "application/json", body: c18Bodies[1], readOK: true}
	c18Facts(h401, c18Checkers[0])
	return []*c18Scenario{
		// row 6: wrapper returns (nil, err), one retry allowed
		{entry: 'v', hook: true, autoRead: true, checker: c18Checkers[0], maxRetries: 1,
			wrappers: [][]c18Act{{{kind: "sn", e: 1}, {kind: "sn", e: 1}}}, transport: []c18TOut{{fail: 0}, {fail: 0}}},
		// row 6 variant: nil resp handed to the digest middleware, no retry
		{entry: 's', hook: true, autoRead: true, checker: c18Checkers[0],
			wrappers: [][]c18Act{{{kind: "sn", e: 1}}}, transport: []c18TOut{{fail: 0}},
			reqResp: [][]c18Act{{{kind: "d", chalOK: true, re: c18TOut{fail: -1, h: ok200()}}}}},
		// row 4: wrapper replaces the error, request-level middleware returns nil: error lost
		{entry: 'v', hook: true, autoRead: true, checker: c18Checkers[0],
			wrappers: [][]c18Act{{{kind: "pe", e: 1}}}, transport: []c18TOut{{fail: -1, h: ok200()}},
			reqResp: [][]c18Act{{{kind: "n"}}}},
		// digest: 401 then 200, success and error targets
		{entry: 's', sT: true, eT: true, hook: true, autoRead: true, checker: c18Checkers[0],
			transport: []c18TOut{{fail: -1, h: h401}},
			reqResp:   [][]c18Act{{{kind: "d", chalOK: true, re: c18TOut{fail: -1, h: ok200()}}}}},
	}
}
