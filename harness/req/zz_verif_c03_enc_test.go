//go:build verif

package req

// C03 — the content-encoding dimension of the cut lanes. A response body that the client decodes
// transparently (Content-Encoding: gzip answered to the transport's own Accept-Encoding) or under
// EnableAutoDecompress (gzip / deflate / br / zstd through internal/compress) sits BEHIND the
// length accounting of the framing layer: every cut / over-long scenario of h1 / h2 / h3 is also
// run with an encoded body, plus the cut points only an encoded body has — before its first byte,
// exactly between two gzip members, surplus bytes that are themselves a valid member.
//
// gzip and deflate bodies are built from STORED blocks (RFC 1951 BTYPE=00) with generated member
// headers and block splits: that is the subset the Lean container model of C14
// (Req.Client.CompressFormats: gzip / deflate automata) decodes itself, so these cases are
// MODEL-judged end to end (framing model of the protocol ∘ container automaton). br / zstd bodies
// come from the reference encoders and are judged by the Go oracle.

import (
	"bytes"
	"encoding/binary"
	"fmt"
	"hash/crc32"
	"io"
	"math/rand"
	"strconv"
	"strings"
	"testing"
	"time"

	"github.com/andybalholm/brotli"
	"github.com/imroc/req/v3/internal/verifh"
	"github.com/klauspost/compress/zstd"
)

type c03EncBody struct {
	enc      string // gzip | deflate | br | zstd
	how      string // transparent (gzip only: the transport asked for it) | auto (EnableAutoDecompress)
	plain    string
	wire     []byte
	bounds   []int // offsets strictly inside wire where one gzip member ends and the next begins
	modelled bool  // the Lean container model decodes it
}

// c03StoredBlocks: p as 1..3 stored DEFLATE blocks (an empty final block is legal and generated).
func c03StoredBlocks(r *rand.Rand, p []byte) []byte {
	var out []byte
	n := 1 + r.Intn(3)
	for i := 0; i < n; i++ {
		k := len(p)
		if i < n-1 {
			k = r.Intn(len(p) + 1)
		}
		final := byte(0)
		if i == n-1 {
			final = 1
		}
		out = append(out, final, byte(k), byte(k>>8), ^byte(k), ^byte(k>>8))
		out = append(out, p[:k]...)
		p = p[k:]
	}
	return out
}

// c03GzMember: one RFC 1952 member around stored blocks, with generated header fields.
func c03GzMember(r *rand.Rand, p []byte) []byte {
	flg := byte(0)
	var opt []byte
	switch r.Intn(4) {
	case 1: // FNAME
		flg = 8
		opt = append([]byte(verifh.RandBytes(r, 1+r.Intn(6), "abcdef.")), 0)
	case 2: // FEXTRA
		flg = 4
		x := []byte(verifh.RandBytes(r, r.Intn(5), ""))
		opt = append([]byte{byte(len(x)), 0}, x...)
	case 3: // FCOMMENT
		flg = 16
		opt = append([]byte(verifh.RandBytes(r, r.Intn(4), "xyz")), 0)
	}
	out := []byte{0x1f, 0x8b, 8, flg, byte(r.Intn(256)), 0, 0, 0, 0, 255}
	out = append(out, opt...)
	out = append(out, c03StoredBlocks(r, p)...)
	out = binary.LittleEndian.AppendUint32(out, crc32.ChecksumIEEE(p))
	out = binary.LittleEndian.AppendUint32(out, uint32(len(p)))
	return out
}

// c03MakeEnc encodes plain. members > 1 only applies to gzip.
func c03MakeEnc(r *rand.Rand, plain string, enc, how string, members int) *c03EncBody {
	e := &c03EncBody{enc: enc, how: how, plain: plain}
	switch enc {
	case "gzip":
		e.modelled = true
		rest := []byte(plain)
		for i := 0; i < members; i++ {
			k := len(rest)
			if i < members-1 {
				k = r.Intn(len(rest) + 1)
			}
			e.wire = append(e.wire, c03GzMember(r, rest[:k])...)
			rest = rest[k:]
			if i < members-1 {
				e.bounds = append(e.bounds, len(e.wire))
			}
		}
	case "deflate":
		e.modelled = true
		e.wire = c03StoredBlocks(r, []byte(plain))
	case "br":
		var b bytes.Buffer
		w := brotli.NewWriter(&b)
		w.Write([]byte(plain))
		w.Close()
		e.wire = b.Bytes()
	case "zstd":
		var b bytes.Buffer
		w, _ := zstd.NewWriter(&b)
		w.Write([]byte(plain))
		w.Close()
		e.wire = b.Bytes()
	}
	return e
}

// c03PickEnc: the encoding × how-it-is-decoded choice of one case.
func c03PickEnc(r *rand.Rand, plain string, forceGzipMulti bool) *c03EncBody {
	if forceGzipMulti {
		return c03MakeEnc(r, plain, "gzip", verifh.Pick(r, []string{"transparent", "transparent", "auto"}), 2+r.Intn(2))
	}
	switch r.Intn(8) {
	case 0, 1, 2:
		return c03MakeEnc(r, plain, "gzip", "transparent", 1+r.Intn(3))
	case 3, 4:
		return c03MakeEnc(r, plain, "gzip", "auto", 1+r.Intn(3))
	case 5:
		return c03MakeEnc(r, plain, "deflate", "auto", 1)
	case 6:
		return c03MakeEnc(r, plain, "br", "auto", 1)
	}
	return c03MakeEnc(r, plain, "zstd", "auto", 1)
}

// prep configures the client: auto = EnableAutoDecompress with the transport's own gzip request off
// (so that internal/compress decodes, for gzip too); transparent = the default client.
func (e *c03EncBody) prep(c *Client) {
	if e == nil {
		return
	}
	if e.how == "auto" {
		c.EnableAutoDecompress()
		c.GetTransport().DisableCompression = true
	}
}

// surplus: bytes beyond the declared length — a further VALID gzip member (the decoder alone would
// happily splice it on) or junk.
func (e *c03EncBody) surplus(r *rand.Rand) []byte {
	if e.enc == "gzip" && r.Intn(3) != 0 {
		return c03GzMember(r, []byte(verifh.RandBytes(r, 1+r.Intn(12), "SURPLUS")))
	}
	return []byte(verifh.RandBytes(r, 1+r.Intn(12), "X"))
}

// c03ZstdClass: the known finding "a zstd-decoded body whose source fails with io.ErrUnexpectedEOF within the
// first four bytes of a zstd frame (offset 0 included) reads as a clean end" (klauspost frameDec.reset).
const c03ZstdClass = "zstd-cut-at-frame-start"

func (e *c03EncBody) tag() string {
	if e == nil {
		return "identity"
	}
	return e.enc + "-" + e.how
}

// TestVerif_C03_h1enc: HTTP/1.1 under EnableAutoDecompress (internal/compress readers around the
// transfer.go body), Content-Length and chunked framing, encoded body cut at k then EOF / reset.
func TestVerif_C03_h1enc(t *testing.T) {
	s := verifh.New(t, "C03", "h1enc",
		"HTTP/1.1 responses with an ENCODED body (gzip with 1-3 members / deflate from stored blocks with generated member headers and block splits: model-judged, lane c03h1z = Lean framing model ∘ C14 container automaton; br / zstd from the reference encoders: oracle-judged) "+
			"under Content-Length and chunked framing to a client with EnableAutoDecompress (the transport's own gzip request off, so that internal/compress decodes), cut at k (stratified: head boundary, first body byte, every gzip member boundary, last bytes, random; every k in thorough) then EOF or ECONNRESET, "+
			"plus over-long variants (a further valid gzip member / junk behind the declared length, peer closes); then a second request. Oracle: success implies the complete plaintext. non-trivial = cut strictly inside the body")
	r := s.Rand()
	nMsgs := verifh.N(40, 200)
	reached := map[string]int{}
	knownSeen := map[string]int{}
	failures := 0
	for i := 0; i < nMsgs && failures < 12; i++ {
		plain := verifh.RandBytes(r, 1+r.Intn(200), "abcdefgh \n")
		ze := c03PickEnc(r, plain, i%4 == 0)
		ze.how = "auto"
		z := ze.wire
		over := []byte(nil)
		if i%5 == 4 {
			over = ze.surplus(r)
		}
		var wire bytes.Buffer
		// zAt[j] = offset in the wire right after the j-th encoded byte
		zAt := make([]int, 0, len(z)+1)
		framing := verifh.Pick(r, []string{"len", "chunked"})
		switch framing {
		case "len":
			wire.WriteString("HTTP/1.1 200 OK\r\nContent-Encoding: " + ze.enc + "\r\nContent-Length: " + strconv.Itoa(len(z)) + "\r\n\r\n")
			for j := range z {
				zAt = append(zAt, wire.Len()+j+1)
			}
			wire.Write(z)
			wire.Write(over)
		case "chunked":
			wire.WriteString("HTTP/1.1 200 OK\r\nContent-Encoding: " + ze.enc + "\r\nTransfer-Encoding: chunked\r\n\r\n")
			rest := z
			for len(rest) > 0 {
				k := 1 + r.Intn(len(rest))
				wire.WriteString(strconv.FormatInt(int64(k), 16) + "\r\n")
				for j := 0; j < k; j++ {
					zAt = append(zAt, wire.Len()+j+1)
				}
				wire.Write(rest[:k])
				wire.WriteString("\r\n")
				rest = rest[k:]
			}
			wire.WriteString("0\r\n\r\n")
			wire.Write(over)
		}
		st := wire.String()
		he := strings.Index(st, "\r\n\r\n") + 4
		whole := len(st) - len(over) // the complete message
		cuts := c03Cuts(r, st, verifh.Thorough() && len(st) < 600, 8)
		cuts = append(cuts, he, he+1, whole)
		if framing == "len" {
			for _, b := range ze.bounds {
				cuts = append(cuts, he+b)
			}
		}
		for _, k := range cuts {
			if k < 0 || k > len(st) {
				continue
			}
			end := error(io.EOF)
			if r.Intn(4) == 0 && k < whole {
				end = errC03Reset
			}
			nw := &c03Net{scripts: [][]c03Step{{{data: []byte(st[:k]), end: end}}, {{data: c03SecondWire}}}, seg: verifh.Pick(r, []int{0, 1, 13})}
			c := C().SetDial(nw.dial).DisableAutoDecode().SetTimeout(20 * time.Second)
			ze.prep(c)
			resp, err := c.R().Get("http://c03.invalid/z")
			first := "fail"
			if err == nil && resp != nil && resp.Err == nil {
				first = "ok body=" + verifh.Hex(string(resp.Bytes()))
			}
			if k > whole {
				c03WaitClosed(nw, 0) // surplus behind a complete message: let the read loop see it first (see h1over)
			}
			second, err2 := c.R().Get("http://c03.invalid/z2")
			secondOK := err2 == nil && second != nil && second.String() == c03Second
			nw.closeAll()
			c.GetTransport().CloseIdleConnections()
			ok, why, class := true, "", ""
			zc := 0 // encoded bytes that reached the client
			for zc < len(zAt) && zAt[zc] <= k {
				zc++
			}
			if ze.enc == "zstd" && zc <= 3 && k < whole {
				reached["zstd-frame-start-cut"]++
			}
			if first != "fail" {
				if k < whole && ze.enc != "gzip" && zc == len(z) && first == "ok body="+verifh.Hex(plain) {
					// deflate / br / zstd stop at their own end-of-stream mark: the ENCODED stream arrived whole, the
					// decoder never looks at the (cut) framing behind it, the body is the complete plaintext
					s.Count("encoded-stream-complete-framing-cut")
				} else if k < whole {
					ok, why = false, "truncated encoded response reported as success with body "+c04Short(string(resp.Bytes()))
					if ze.enc == "zstd" && zc <= 3 {
						class = c03ZstdClass
					}
				} else if first != "ok body="+verifh.Hex(plain) {
					ok, why = false, "decoded body differs from the plaintext"
				}
				reached["ok"]++
			} else {
				if k >= whole {
					ok, why = false, "complete response reported as failure"
				}
				reached["fail"]++
			}
			if !secondOK {
				ok, why = false, "second request failed"
			}
			if !ok && class == "" {
				failures++
			}
			if !ok && class != "" {
				// report a known finding a few times only, so that it cannot crowd out an unknown one
				knownSeen[class]++
				if knownSeen[class] > 3 {
					s.Count("known-not-reported-again:" + class)
					ok = true
				}
			}
			s.Count("framing:" + framing)
			s.Count("enc:" + ze.enc)
			reached["enc:"+ze.enc]++
			if len(over) > 0 && k > whole {
				reached["overlong"]++
			}
			human := fmt.Sprintf("h1enc %s framing=%s len=%d (head %d, message %d, surplus %d) cut k=%d -> %s", ze.enc, framing, len(st), he, whole, len(over), k, c04Short(first))
			if why != "" {
				human += " ORACLE: " + why
			}
			if !ze.modelled {
				s.Observe(fmt.Sprintf("h1enc/%d/%s/%d", i, ze.enc, k), ok, class, k > he && k < whole, human, why)
				continue
			}
			s.Case("c03h1z "+ze.enc+" "+verifh.Hex(st)+" "+strconv.Itoa(k), first, ok, "", k > he && k < whole, human)
		}
	}
	s.Finish()
	if failures >= 12 {
		return
	}
	for _, need := range []string{"ok", "fail", "enc:gzip", "enc:deflate", "enc:br", "enc:zstd", "overlong", "zstd-frame-start-cut"} {
		if reached[need] == 0 {
			t.Errorf("C03/h1enc never reached %q", need)
		}
	}
}
