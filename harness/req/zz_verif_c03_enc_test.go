//go:build verif

package req

// C03 — the content-encoding dimension of the cut lanes. A response body that the client decodes
// transparently (Content-Encoding: gzip answered to the transport's own Accept-Encoding) or under
// EnableAutoDecompress (gzip / deflate / br / zstd through internal/compress) sits BEHIND the
// length accounting of the framing layer: every cut / over-long scenario of h1 / h2 / h3 is also
// run with an encoded body, plus the cut points only an encoded body has — before its first byte,
// exactly between two gzip members, surplus bytes that are themselves a valid member.
//
// gzip and deflate bodies are built from STORED blocks (RFC 1951 BTYPE=00) with generated member
// headers and block splits: that is the subset the Lean container model of C14
// (Req.Client.CompressFormats: gzip / deflate automata) decodes itself, so these cases are
// MODEL-judged end to end (framing model of the protocol ∘ container automaton). br / zstd bodies
// come from the reference encoders and are judged by the Go oracle.

import (
	"bytes"
	"encoding/binary"
	"hash/crc32"
	"math/rand"

	"github.com/andybalholm/brotli"
	"github.com/imroc/req/v3/internal/verifh"
	"github.com/klauspost/compress/zstd"
)

type c03EncBody struct {
	enc      string // gzip | deflate | br | zstd
	how      string // transparent (gzip only: the transport asked for it) | auto (EnableAutoDecompress)
	plain    string
	wire     []byte
	bounds   []int // offsets strictly inside wire where one gzip member ends and the next begins
	modelled bool  // the Lean container model decodes it
}

// c03StoredBlocks: p as 1..3 stored DEFLATE blocks (an empty final block is legal and generated).
func c03StoredBlocks(r *rand.Rand, p []byte) []byte {
	var out []byte
	n := 1 + r.Intn(3)
	for i := 0; i < n; i++ {
		k := len(p)
		if i < n-1 {
			k = r.Intn(len(p) + 1)
		}
		final := byte(0)
		if i == n-1 {
			final = 1
		}
		out = append(out, final, byte(k), byte(k>>8), ^byte(k), ^byte(k>>8))
		out = append(out, p[:k]...)
		p = p[k:]
	}
	return out
}

// c03GzMember: one RFC 1952 member around stored blocks, with generated header fields.
func c03GzMember(r *rand.Rand, p []byte) []byte {
	flg := byte(0)
	var opt []byte
	switch r.Intn(4) {
	case 1: // FNAME
		flg = 8
		opt = append([]byte(verifh.RandBytes(r, 1+r.Intn(6), "abcdef.")), 0)
	case 2: // FEXTRA
		flg = 4
		x := []byte(verifh.RandBytes(r, r.Intn(5), ""))
		opt = append([]byte{byte(len(x)), 0}, x...)
	case 3: // FCOMMENT
		flg = 16
		opt = append([]byte(verifh.RandBytes(r, r.Intn(4), "xyz")), 0)
	}
	out := []byte{0x1f, 0x8b, 8, flg, byte(r.Intn(256)), 0, 0, 0, 0, 255}
	out = append(out, opt...)
	out = append(out, c03StoredBlocks(r, p)...)
	out = binary.LittleEndian.AppendUint32(out, crc32.ChecksumIEEE(p))
	out = binary.LittleEndian.AppendUint32(out, uint32(len(p)))
	return out
}

// c03MakeEnc encodes plain. members > 1 only applies to gzip.
func c03MakeEnc(r *rand.Rand, plain string, enc, how string, members int) *c03EncBody {
	e := &c03EncBody{enc: enc, how: how, plain: plain}
	switch enc {
	case "gzip":
		e.modelled = true
		rest := []byte(plain)
		for i := 0; i < members; i++ {
			k := len(rest)
			if i < members-1 {
				k = r.Intn(len(rest) + 1)
			}
			e.wire = append(e.wire, c03GzMember(r, rest[:k])...)
			rest = rest[k:]
			if i < members-1 {
				e.bounds = append(e.bounds, len(e.wire))
			}
		}
	case "deflate":
		e.modelled = true
		e.wire = c03StoredBlocks(r, []byte(plain))
	case "br":
		var b bytes.Buffer
		w := brotli.NewWriter(&b)
		w.Write([]byte(plain))
		w.Close()
		e.wire = b.Bytes()
	case "zstd":
		var b bytes.Buffer
		w, _ := zstd.NewWriter(&b)
		w.Write([]byte(plain))
		w.Close()
		e.wire = b.Bytes()
	}
	return e
}

// c03PickEnc: the encoding × how-it-is-decoded choice of one case.
func c03PickEnc(r *rand.Rand, plain string, forceGzipMulti bool) *c03EncBody {
	if forceGzipMulti {
		return c03MakeEnc(r, plain, "gzip", verifh.Pick(r, []string{"transparent", "transparent", "auto"}), 2+r.Intn(2))
	}
	switch r.Intn(8) {
	case 0, 1, 2:
		return c03MakeEnc(r, plain, "gzip", "transparent", 1+r.Intn(3))
	case 3, 4:
		return c03MakeEnc(r, plain, "gzip", "auto", 1+r.Intn(3))
	case 5:
		return c03MakeEnc(r, plain, "deflate", "auto", 1)
	case 6:
		return c03MakeEnc(r, plain, "br", "auto", 1)
	}
	return c03MakeEnc(r, plain, "zstd", "auto", 1)
}

// prep configures the client: auto = EnableAutoDecompress with the transport's own gzip request off
// (so that internal/compress decodes, for gzip too); transparent = the default client.
func (e *c03EncBody) prep(c *Client) {
	if e == nil {
		return
	}
	if e.how == "auto" {
		c.EnableAutoDecompress()
		c.GetTransport().DisableCompression = true
	}
}

// surplus: bytes beyond the declared length — a further VALID gzip member (the decoder alone would
// happily splice it on) or junk.
func (e *c03EncBody) surplus(r *rand.Rand) []byte {
	if e.enc == "gzip" && r.Intn(3) != 0 {
		return c03GzMember(r, []byte(verifh.RandBytes(r, 1+r.Intn(12), "SURPLUS")))
	}
	return []byte(verifh.RandBytes(r, 1+r.Intn(12), "X"))
}

func (e *c03EncBody) tag() string {
	if e == nil {
		return "identity"
	}
	return e.enc + "-" + e.how
}
