//go:build verif

package req

// Lanes upload and set of C20 (round 5).
//
//   upload  "the original body is sent again intact" for MULTIPART uploads under a Digest
//           challenge: buffered and streamed (EnableForceChunkedEncoding / SetUploadCallback) x part
//           sources {SetFileBytes, SetFile (path), SetFileReader with a seekable reader / a plain
//           reader / a ReadCloser, SetFileUpload returning the same seekable reader or a fresh one}
//           x ordered, request-level and client-level form data x multi-scheme / malformed /
//           unsupported challenges. Model: Req.DigestAuth.handleUpload (firstParts / resendParts,
//           lean/Req/Client/DigestResend.lean) behind Req.DigestAuth.createDigestAuth; two models,
//           one verdict: a deviation that is exactly what the model of the code AS FOUND predicts is
//           classed c20-streamed-multipart-resend (fixes/C20-6).
//   set     basic / bearer credentials through SEQUENCES of setter calls at both levels, degenerate
//           strings ("" user, "" password, both, "" token) included; model Req.Auth.recoveredBasic /
//           recoveredBearer (lean/Req/Client/AuthSet.lean).

import (
	"bytes"
	"fmt"
	"io"
	"mime"
	"mime/multipart"
	"net/http"
	"net/url"
	"os"
	"path/filepath"
	"sort"
	"strings"
	"testing"
	"time"

	"github.com/imroc/req/v3/internal/verifh"
)

type c20OnlyReader struct{ r io.Reader }

func (o c20OnlyReader) Read(p []byte) (int, error) { return o.r.Read(p) }

// c20SeekCloser: a reader that can be rewound and whose Close does nothing (what a custom
// FileUpload.GetFileContent may hand out again and again).
type c20SeekCloser struct{ *bytes.Reader }

func (c20SeekCloser) Close() error { return nil }

// c20CanonParts: the parts of a multipart body as "hex(name)/hex(filename)=hex(content)", sorted.
func c20CanonParts(ctype string, body []byte) string {
	_, params, err := mime.ParseMediaType(ctype)
	if err != nil {
		return "unreadable:" + err.Error()
	}
	mr := multipart.NewReader(bytes.NewReader(body), params["boundary"])
	out := []string{}
	for {
		p, err := mr.NextPart()
		if err == io.EOF {
			break
		}
		if err != nil {
			return "unreadable:" + strings.ReplaceAll(err.Error(), " ", "_")
		}
		b, _ := io.ReadAll(p)
		out = append(out, verifh.Hex(p.FormName())+"/"+verifh.Hex(p.FileName())+"="+verifh.Hex(string(b)))
	}
	sort.Strings(out)
	if len(out) == 0 {
		return "-"
	}
	return strings.Join(out, ";")
}

var c20UploadChallenges = []struct {
	www []string
	tag string
}{
	{[]string{`Digest realm="r", nonce="n", qop="auth"`}, "ok"},
	{[]string{`Digest realm="r", nonce="n"`}, "ok"},
	{[]string{`Digest realm="r, s", nonce="n\"x", algorithm=SHA-256, qop="auth-int, auth", opaque="o"`}, "ok"},
	{[]string{`Digest realm="r", nonce="n", Basic realm="r"`}, "ok:digest-then-other"},
	{[]string{`Basic realm="r", Digest realm="r", nonce="n", qop=auth`}, "ok:other-then-digest"},
	{[]string{`Digest realm="r", nonce="n", algorithm=MD5-sess, qop="auth"`, `Bearer realm="r", nonce="n"`}, "ok:two-lines"},
	{[]string{`Negotiate abc==`, `Digest realm="r", nonce="n", algorithm=SHA-1`, `digest REALM="r", NONCE = "n", userhash=true`}, "ok:second-digest"},
	{[]string{`Digest realm="r", nonce="n", algorithm=SHA-1`}, "alg"},
	{[]string{`Digest realm="r", nonce="n", qop="auth-int"`}, "qop"},
	{[]string{`Digest realm="r", nonce="n`}, "malformed"},
	{[]string{`Digest realm="r", nonce="n" qop="auth"`}, "malformed"},
	{[]string{`Digest realm="r", nonce="n", realm="r"`}, "malformed"},
	{[]string{`Basic realm="r"`}, "no-digest"},
	{nil, "no-header"},
}

func TestVerif_C20_upload(t *testing.T) {
	s := verifh.New(t, "C20", "upload",
		"multipart uploads under a Digest challenge: {buffered, EnableForceChunkedEncoding, SetUploadCallback} x 0-3 file parts from {SetFileBytes, SetFile(path), SetFileReader(seekable | plain reader | ReadCloser), SetFileUpload(same seekable reader | fresh reader)} x 0-2 ordered pairs x 0-3 request-level pairs x 0-2 client-level pairs (keys may collide) x POST/PUT/PATCH x HTTP/1.1 and HTTP/2 x first response {401 with an answerable challenge (alone, before/after other schemes, on a second line, second Digest challenge), unsupported algorithm/qop, malformed (unterminated quote, missing comma, repeated parameter), no Digest challenge, no header, 200}; answer = parts of the first request + untouched | err kind | parts of the second request; model = Req.DigestAuth.handleUpload (repaired); a deviation equal to the model of the code as found is class c20-streamed-multipart-resend; oracle: at most two requests, the second carries Digest credentials, same method and target; non-trivial = a second request or an error")
	r := s.Rand()
	dir := t.TempDir()
	type pend struct {
		line, legacy, impl, human string
		ok, nontrivial            bool
	}
	var pending []pend
	for _, h2 := range []bool{false, true} {
		o := c20NewOrigin(h2)
		proto := "h1"
		n := verifh.N(110, 2500)
		if h2 {
			proto = "h2"
			n = verifh.N(50, 1200)
		}
		for i := 0; i < n; i++ {
			c := C().SetTimeout(20 * time.Second)
			if h2 {
				c.EnableInsecureSkipVerify().EnableForceHTTP2()
			} else {
				c.EnableForceHTTP1()
			}
			// ---- the origin
			var sc c20Script
			ctag := "200"
			sc.firstStatus = 401
			sc.firstBody = "denied"
			switch k := r.Intn(10); {
			case k == 0:
				sc.firstStatus = verifh.Pick(r, []int{200, 403, 500})
				sc.www = []string{`Digest realm="r", nonce="n"`}
			case k < 7:
				ch := c20UploadChallenges[r.Intn(7)]
				sc.www, ctag = ch.www, ch.tag
			default:
				ch := c20UploadChallenges[7+r.Intn(len(c20UploadChallenges)-7)]
				sc.www, ctag = ch.www, ch.tag
			}
			s.Count("challenge:" + ctag)
			// ---- the upload
			word := func() string { return verifh.RandBytes(r, 1+r.Intn(4), "abcdk") }
			val := func() string { return verifh.RandBytes(r, r.Intn(6), "xyz 0&=") }
			rq := c.R()
			var ordered, form, cform, files []string
			for j := r.Intn(3); j > 0; j-- {
				ordered = append(ordered, word(), val())
			}
			if len(ordered) > 0 {
				rq.SetOrderedFormData(ordered...)
			}
			fm := map[string]string{}
			for j := r.Intn(4); j > 0; j-- {
				fm[word()] = val()
			}
			fkeys := make([]string, 0, len(fm))
			for k := range fm {
				fkeys = append(fkeys, k)
			}
			sort.Strings(fkeys)
			for _, k := range fkeys {
				form = append(form, k, fm[k])
			}
			if len(fm) > 0 {
				rq.SetFormData(fm)
			}
			cm := map[string]string{}
			for j := r.Intn(3); j > 0; j-- {
				cm[word()] = val()
			}
			ckeys := make([]string, 0, len(cm))
			for k := range cm {
				ckeys = append(ckeys, k)
			}
			sort.Strings(ckeys)
			for _, k := range ckeys {
				cform = append(cform, k, cm[k])
			}
			if len(cm) > 0 {
				c.SetCommonFormData(cm)
				s.Count("client-form")
			}
			nf := r.Intn(4)
			for j := 0; j < nf; j++ {
				param, name := "f"+word(), word()+".bin"
				content := verifh.RandBytes(r, verifh.Pick(r, []int{0, 1, 7, 100, 600, 5000}), "")
				kind := verifh.Pick(r, []string{"bytes", "file", "seekable", "seekable", "reader", "closer", "custom-same", "custom-fresh"})
				s.Count("source:" + kind)
				src := "c"
				switch kind {
				case "bytes":
					rq.SetFileBytes(param, name, []byte(content))
				case "file":
					sub := filepath.Join(dir, fmt.Sprintf("%s-%d-%d", proto, i, j))
					os.MkdirAll(sub, 0o755)
					path := filepath.Join(sub, name)
					if err := os.WriteFile(path, []byte(content), 0o644); err != nil {
						t.Fatal(err)
					}
					rq.SetFile(param, path)
				case "seekable":
					rq.SetFileReader(param, name, bytes.NewReader([]byte(content)))
					src = "s"
				case "reader":
					rq.SetFileReader(param, name, c20OnlyReader{strings.NewReader(content)})
					src = "o"
				case "closer":
					rq.SetFileReader(param, name, io.NopCloser(bytes.NewReader([]byte(content))))
					src = "o"
				case "custom-same":
					rd := c20SeekCloser{bytes.NewReader([]byte(content))}
					rq.SetFileUpload(FileUpload{ParamName: param, FileName: name, GetFileContent: func() (io.ReadCloser, error) { return rd, nil }})
					src = "s"
				case "custom-fresh":
					ct := content
					rq.SetFileUpload(FileUpload{ParamName: param, FileName: name, GetFileContent: func() (io.ReadCloser, error) { return io.NopCloser(strings.NewReader(ct)), nil }})
				}
				files = append(files, src, param, name, content)
			}
			if nf == 0 {
				rq.EnableForceMultipart()
			}
			streamed := "0"
			switch r.Intn(5) {
			case 0, 1:
				rq.EnableForceChunkedEncoding()
				streamed = "1"
				s.Count("streamed:force-chunked")
			case 2:
				rq.SetUploadCallback(func(UploadInfo) {})
				streamed = "1"
				s.Count("streamed:upload-callback")
			default:
				s.Count("buffered")
			}
			user, pass := verifh.Pick(r, []string{"Mufasa", "u", `a"b`, "ü"}), verifh.Pick(r, []string{"Circle of Life", "", "p:w"})
			if r.Intn(2) == 0 {
				c.SetCommonDigestAuth(user, pass)
			} else {
				rq.SetDigestAuth(user, pass)
			}
			method := verifh.Pick(r, []string{"POST", "POST", "PUT", "PATCH"})
			uri := verifh.Pick(r, []string{"/upload", "/up?x=1&y=2", "/a/b/"})
			rq.SetHeader("X-Verif-Case", o.begin(sc))
			var resp *Response
			id := fmt.Sprintf("%s %s %s status=%d www=%q streamed=%s ordered=%q form=%q client-form=%q files=%d%q", proto, method, uri, sc.firstStatus, sc.www, streamed, ordered, form, cform, nf, c20UploadKinds(files))
			p, pan := verifh.Safely(func() { resp, _ = rq.Send(method, o.srv.URL+uri) })
			c.GetTransport().CloseIdleConnections()
			if pan {
				s.Crash(id, id, p, "")
				continue
			}
			seen := o.requests()
			if len(seen) == 0 {
				s.Count("skipped:no-request") // dial failure under load: nothing to judge
				continue
			}
			// ---- what the implementation did
			impl := "first " + c20CanonParts(seen[0].ctype, seen[0].body) + " -> "
			ok, why := true, ""
			switch {
			case len(seen) == 1 && resp.Err == nil:
				impl += "untouched"
			case len(seen) == 1 && c20ErrName(resp.Err) != "other":
				impl += "err " + c20ErrName(resp.Err)
			case len(seen) == 2 && resp.Err == nil:
				impl += "resend " + c20CanonParts(seen[1].ctype, seen[1].body)
				if !strings.HasPrefix(seen[1].auth, "Digest ") {
					ok, why = false, "second request without Digest credentials"
				}
				if seen[1].method != seen[0].method || seen[1].uri != seen[0].uri {
					ok, why = false, "second request differs in method or target"
				}
			default:
				impl += fmt.Sprintf("anomaly requests=%d err=%v", len(seen), resp.Err)
				ok, why = false, "neither one request nor a clean re-send"
			}
			if seen[0].hasAuth {
				ok, why = false, "Authorization sent before any challenge"
			}
			s.Count("outcome:" + strings.SplitN(strings.SplitN(impl, " -> ", 2)[1], " ", 2)[0])
			tail := fmt.Sprintf("%d %s %s %s %s %s %s %s %s %s %s", sc.firstStatus, verifh.HexList(sc.www), verifh.Hex(user), verifh.Hex(pass),
				verifh.Hex(method), verifh.Hex(uri), streamed, verifh.HexList(ordered), verifh.HexList(form), verifh.HexList(cform), verifh.HexList(files))
			human := id + " -> " + c20Clip(impl)
			if !ok {
				human += " | " + why
			}
			pending = append(pending, pend{line: "c20upload2 " + tail, legacy: "c20upload " + tail, impl: impl, human: human, ok: ok,
				nontrivial: len(seen) == 2 || strings.Contains(impl, "-> err ")})
		}
		o.srv.Close()
	}
	// two models, one verdict
	lines := make([]string, len(pending))
	for i, p := range pending {
		lines[i] = p.line
	}
	var ans []string
	if len(lines) > 0 {
		ans, _ = verifh.RunModel(lines)
	}
	class := map[int]string{}
	var ll []string
	var li []int
	for i, p := range pending {
		if ans != nil && ans[i] != p.impl {
			ll = append(ll, p.legacy)
			li = append(li, i)
		}
	}
	if len(ll) > 0 {
		if la, err := verifh.RunModel(ll); err == nil {
			for k, i := range li {
				if la[k] == pending[i].impl {
					class[i] = "c20-streamed-multipart-resend"
					s.Count("known:as-found-resend")
				}
			}
		}
	}
	for i, p := range pending {
		s.Case(p.line, p.impl, p.ok, class[i], p.nontrivial, p.human)
	}
	s.Finish()
}

func c20UploadKinds(files []string) []string {
	var out []string
	for i := 0; i+3 < len(files); i += 4 {
		out = append(out, fmt.Sprintf("%s:%s:%d", files[i], files[i+1], len(files[i+3])))
	}
	return out
}

func TestVerif_C20_set(t *testing.T) {
	s := verifh.New(t, "C20", "set",
		"sequences of 1-5 setter calls {Client.SetCommonBasicAuth, Client.SetCommonBearerAuthToken, Request.SetBasicAuth, Request.SetBearerAuthToken} in any order (client-level calls also AFTER the request was created) with credentials from {\"\", one byte, colon, spaces, quotes, non-ASCII, long, random bytes, scheme-like strings (\"Bearer abc\", \"bearer abc\", \"Basic QQ==\", ...)} - every combination of empty user / empty password / both / empty token is enumerated first, at both levels, alone and overriding an earlier account -, with or without user information in the URL, over HTTP/1.1 and HTTP/2; answer = what the origin's net/http BasicAuth() and the bearer split recover (refused | none | some); model = Req.Auth.recoveredBasic / recoveredBearer; non-trivial = at least two calls or an empty component")
	r := s.Rand()
	type op struct {
		kind string // cb ct rb rt
		a, b string
	}
	texts := []string{"", "", "a", ":", "a:b", " ", "p w", `q"uo\te`, "ü€", strings.Repeat("x", 70), "admin", "s3cret", "\x00\xff", "tok ", "\ttok"}
	text := func() string {
		if r.Intn(6) == 0 {
			return verifh.RandBytes(r, r.Intn(40), "")
		}
		if r.Intn(8) == 0 {
			s.Count("text:scheme-like")
			return c20SchemeText(r)
		}
		return verifh.Pick(r, texts)
	}
	var scripted [][]op
	for _, lvl := range []string{"r", "c"} {
		for _, up := range [][2]string{{"", ""}, {"", "p"}, {"u", ""}, {"u", "p"}} {
			scripted = append(scripted,
				[]op{{lvl + "b", up[0], up[1]}},
				[]op{{"cb", "admin", "s3cret"}, {lvl + "b", up[0], up[1]}},
				[]op{{"rb", "other", "pw"}, {"cb", "admin", "s3cret"}, {lvl + "b", up[0], up[1]}},
				[]op{{lvl + "t", "tok", ""}, {lvl + "b", up[0], up[1]}},
				[]op{{lvl + "b", up[0], up[1]}, {"cb", "late", "comer"}})
		}
		for _, v := range c20SchemeLike[:6] {
			scripted = append(scripted, []op{{lvl + "t", v, ""}}, []op{{"cb", "admin", "s3cret"}, {lvl + "t", v, ""}})
		}
		scripted = append(scripted, []op{{lvl + "t", "", ""}}, []op{{"cb", "admin", "s3cret"}, {lvl + "t", "", ""}}, []op{{lvl + "b", "u", "p"}, {lvl + "t", "", ""}})
	}
	for _, h2 := range []bool{false, true} {
		o := c20NewOrigin(h2)
		base := C().SetTimeout(20 * time.Second)
		proto := "h1"
		if h2 {
			base.EnableInsecureSkipVerify().EnableForceHTTP2()
			proto = "h2"
		} else {
			base.EnableForceHTTP1()
		}
		n := len(scripted) + verifh.N(250, 6000)
		for i := 0; i < n; i++ {
			var ops []op
			if i < len(scripted) {
				ops = scripted[i]
				s.Count("scripted")
			} else {
				for j := 1 + r.Intn(5); j > 0; j-- {
					k := verifh.Pick(r, []string{"cb", "ct", "rb", "rt", "rb", "cb"})
					ops = append(ops, op{k, text(), text()})
				}
			}
			caseID := o.begin(c20Script{firstStatus: 200, firstBody: "ok"})
			cc := base.Clone()
			rq := cc.R().SetHeader("X-Verif-Case", caseID)
			var enc []string
			degenerate := false
			for _, p := range ops {
				switch p.kind {
				case "cb":
					cc.SetCommonBasicAuth(p.a, p.b)
					enc = append(enc, "cb", p.a, p.b)
				case "ct":
					cc.SetCommonBearerAuthToken(p.a)
					enc = append(enc, "ct", p.a, "")
				case "rb":
					rq.SetBasicAuth(p.a, p.b)
					enc = append(enc, "rb", p.a, p.b)
				case "rt":
					rq.SetBearerAuthToken(p.a)
					enc = append(enc, "rt", p.a, "")
				}
				if p.a == "" || (p.kind[1] == 'b' && p.b == "") {
					degenerate = true
				}
				s.Count("op:" + p.kind)
			}
			if degenerate {
				s.Count("degenerate-component")
			}
			target := o.srv.URL + "/set"
			uu, up := ".", "_"
			if i >= len(scripted) && r.Intn(3) == 0 {
				u, pw := verifh.Pick(r, []string{"alice", "", "a b"}), verifh.Pick(r, []string{"secret", "", "p:w"})
				pu, _ := url.Parse(target)
				pu.User = url.UserPassword(u, pw)
				target = pu.String()
				uu, up = verifh.Hex(u), verifh.Hex(pw)
				s.Count("url-userinfo")
			}
			var resp *Response
			id := fmt.Sprintf("%s ops=%q url=%q", proto, ops, target)
			if p, pan := verifh.Safely(func() { resp, _ = rq.Get(target) }); pan {
				s.Crash(id, id, p, "")
				continue
			}
			cc.GetTransport().CloseIdleConnections()
			seen := o.requests()
			var impl string
			switch {
			case len(seen) == 0 && resp.Err != nil && strings.Contains(resp.Err.Error(), "invalid header field value"):
				impl = "refused"
			case len(seen) == 0:
				s.Count("skipped:no-request")
				continue
			case len(seen) != 1:
				impl = fmt.Sprintf("anomaly requests=%d err=%v", len(seen), resp.Err)
			case !seen[0].hasAuth:
				impl = "basic=none bearer=none"
			default:
				v := seen[0].auth
				b, t := "none", "none"
				hr := &http.Request{Header: http.Header{"Authorization": {v}}}
				if u, p, ok := hr.BasicAuth(); ok {
					b = "some:" + verifh.Hex(u) + ":" + verifh.Hex(p)
				}
				if len(v) >= 7 && strings.EqualFold(v[:7], "bearer ") {
					t = "some:" + verifh.Hex(v[7:])
				}
				impl = "basic=" + b + " bearer=" + t
			}
			s.Count(proto + ":" + strings.SplitN(impl, ":", 2)[0])
			line := fmt.Sprintf("c20set %s %s %s %s", proto, verifh.HexList(enc), uu, up)
			s.Case(line, impl, !strings.HasPrefix(impl, "anomaly"), "", len(ops) >= 2 || degenerate, id+" -> "+impl)
		}
		base.GetTransport().CloseIdleConnections()
		o.srv.Close()
	}
	s.Finish()
}
