//go:build verif

package req

// Shared pieces of the C11 lanes: the grammar-directed authority generator, the independent
// net/url based oracle for "hostname" and "domain", a verbatim copy of the pre-fix
// getHostname/getDomain (used only to recognise the known pre-patch behaviour), and the
// line-protocol encoders.

import (
	"encoding/json"
	"math/rand"
	"net"
	"net/http"
	"net/netip"
	"net/url"
	"os"
	"path/filepath"
	"strconv"
	"strings"
	"testing"

	"github.com/imroc/req/v3/internal/verifh"
)

const c11LegacyClass = "hostident-legacy"

// c11Lane wraps a session with the list of generator buckets the lane must reach: a lane that
// did not reach one of them has not exercised what it claims and is reported as a broken check
// (bin/check treats a failing lane whose output says "no tests to run" as infrastructure
// failure, exit 2, never as a violation).
type c11Lane struct {
	*verifh.Session
	t    *testing.T
	lane string
	seen map[string]int
}

func c11New(t *testing.T, lane, rule string) *c11Lane {
	return &c11Lane{Session: verifh.New(t, "C11", lane, rule), t: t, lane: lane, seen: map[string]int{}}
}

func (l *c11Lane) Count(k string) { l.seen[k]++; l.Session.Count(k) }

func (l *c11Lane) FinishRequire(buckets ...string) {
	l.Session.Finish()
	// Some buckets depend on how the implementation behaves (outcomes reached). When the lane has
	// mismatches to report, a bucket the changed behaviour made unreachable must not turn the
	// finding into a "broken check": the mismatches are the result.
	if dir := os.Getenv("VERIF_OUT"); dir != "" {
		if b, err := os.ReadFile(filepath.Join(dir, "C11."+l.lane+".json")); err == nil {
			var res struct {
				N int `json:"n_mismatch"`
			}
			if json.Unmarshal(b, &res) == nil && res.N > 0 {
				return
			}
		}
	}
	for _, b := range buckets {
		if l.seen[b] == 0 {
			l.t.Fatalf("verif: required generator bucket %q not reached - no tests to run for it", b)
		}
	}
}

// ---------------------------------------------------------------- structured authorities

type c11Auth struct {
	kind   string   // "name" | "ip4" | "ip6"
	parts  []string // labels | 4 octets | [addr]
	dot    bool     // name: trailing dot
	zone   *string  // ip6
	port   *string  // nil = none, "" = empty port
	rfc    bool     // generated from the RFC 3986 grammar proper
	wf     bool     // satisfies WfAuthority (spec theorems apply)
	tricky string   // histogram bucket
}

func (a c11Auth) hostText() string {
	switch a.kind {
	case "name":
		s := strings.Join(a.parts, ".")
		if a.dot {
			s += "."
		}
		return s
	case "ip4":
		return strings.Join(a.parts, ".")
	default:
		s := "[" + a.parts[0]
		if a.zone != nil {
			s += "%" + *a.zone
		}
		return s + "]"
	}
}

func (a c11Auth) render() string {
	s := a.hostText()
	if a.port != nil {
		s += ":" + *a.port
	}
	return s
}

func c11OptHex(p *string) string {
	if p == nil {
		return "none"
	}
	return verifh.Hex(*p)
}

// specLine is the structured form for the driver's c11spec lane.
func (a c11Auth) specLine() string {
	switch a.kind {
	case "name":
		d := "0"
		if a.dot {
			d = "1"
		}
		return "c11spec name " + verifh.HexList(a.parts) + " " + d + " " + c11OptHex(a.port)
	case "ip4":
		return "c11spec ip4 " + verifh.HexList(a.parts) + " x " + c11OptHex(a.port)
	default:
		return "c11spec ip6 " + verifh.Hex(a.parts[0]) + " " + c11OptHex(a.zone) + " " + c11OptHex(a.port)
	}
}

var c11Labels = []string{"www", "WWW", "example", "Example", "EXAMPLE", "com", "COM", "org", "imroc", "cc", "co", "uk",
	"a", "b", "A", "x-y", "xn--bcher-kva", "localhost", "api", "evil", "1", "10", "255", "256", "01", "0", "2", "3", "4", "1a", "a1", "_dmarc", "a~b", "a!$&'()*+,;=b"}

// labels outside RFC reg-name but inside WfName (what percent-decoding can leave in URL.Host)
var c11OddLabels = []string{"a b", "a%b", "a\"b", "a/b", "a@b", "\x01", "a\x7fb", "<x>"}

var c11Octets = []string{"0", "1", "2", "3", "4", "9", "10", "19", "99", "100", "127", "192", "199", "200", "249", "250", "254", "255"}

var c11V6 = []string{"::1", "::2", "::", "fe80::1", "FE80::1", "fe80::2", "2001:db8::8:800:200c:417a", "2001:DB8::8:800:200C:417A",
	"1:2:3:4:5:6:7:8", "1:2:3:4:5:6:7::", "::2:3:4:5:6:7:8", "::ffff:1.2.3.4", "::ffff:10.2.3.4", "::FFFF:99.2.3.4", "1:2:3:4:5:6:1.2.3.4", "64:ff9b::192.0.2.33", "abcd::", "0:0:0:0:0:0:0:1"}

var c11Zones = []string{"eth0", "ETH0", "1", "en0", ".www.example.com", "a.b.c.d", "lo"}

var c11Ports = []string{"", "80", "8080", "443", "0", "65535", "00080", "1"}

func c11RandV6(r *rand.Rand) string {
	grp := func() string { return verifh.RandBytes(r, 1+r.Intn(4), "0123456789abcdefABCDEF") }
	v4 := r.Intn(4) == 0
	total := 8
	if v4 {
		total = 6
	}
	tail := ""
	if v4 {
		tail = verifh.Pick(r, c11Octets) + "." + verifh.Pick(r, c11Octets) + "." + verifh.Pick(r, c11Octets) + "." + verifh.Pick(r, c11Octets)
	}
	if r.Intn(3) == 0 { // no "::"
		gs := make([]string, total)
		for i := range gs {
			gs[i] = grp()
		}
		s := strings.Join(gs, ":")
		if v4 {
			s += ":" + tail
		}
		return s
	}
	n := r.Intn(total) // groups written, < total
	l := r.Intn(n + 1)
	var left, right []string
	for i := 0; i < l; i++ {
		left = append(left, grp())
	}
	for i := 0; i < n-l; i++ {
		right = append(right, grp())
	}
	if v4 {
		right = append(right, tail)
	}
	return strings.Join(left, ":") + "::" + strings.Join(right, ":")
}

func c11IsDecOctet(s string) bool {
	n, err := strconv.Atoi(s)
	return err == nil && n >= 0 && n <= 255 && strconv.Itoa(n) == s
}

// c11GenAuth draws one authority from the grammar. odd=true additionally allows the
// non-RFC label bytes that WfName still covers.
func c11GenAuth(r *rand.Rand, odd bool) c11Auth {
	var a c11Auth
	a.rfc, a.wf = true, true
	switch k := r.Intn(10); {
	case k < 5:
		a.kind = "name"
		n := 1 + r.Intn(5)
		for i := 0; i < n; i++ {
			if odd && r.Intn(6) == 0 {
				a.parts = append(a.parts, verifh.Pick(r, c11OddLabels))
				a.rfc = false
			} else if r.Intn(10) == 0 {
				a.parts = append(a.parts, verifh.RandBytes(r, 1+r.Intn(6), "abcxyzABC019-_"))
			} else {
				a.parts = append(a.parts, verifh.Pick(r, c11Labels))
			}
		}
		if odd && n >= 2 && r.Intn(12) == 0 {
			a.parts[r.Intn(n-1)] = "" // empty inner label: Wf, not RFC-DNS
			a.rfc = false
		}
		a.dot = r.Intn(4) == 0
		a.tricky = "name"
		if a.dot {
			a.tricky = "name-dot"
		}
		if n == 4 {
			all := true
			for _, p := range a.parts {
				all = all && c11IsDecOctet(p)
			}
			if all { // text of an IPv4 address: not a reg-name (first-match-wins)
				a.wf, a.rfc = false, false
				a.tricky = "name-looks-v4"
			}
		}
	case k < 7:
		a.kind = "ip4"
		for i := 0; i < 4; i++ {
			a.parts = append(a.parts, verifh.Pick(r, c11Octets))
		}
		a.tricky = "ip4"
	default:
		a.kind = "ip6"
		if r.Intn(3) == 0 {
			a.parts = []string{c11RandV6(r)}
		} else {
			a.parts = []string{verifh.Pick(r, c11V6)}
		}
		a.tricky = "ip6"
		if r.Intn(3) == 0 {
			z := verifh.Pick(r, c11Zones)
			a.zone = &z
			a.tricky = "ip6-zone"
		}
	}
	switch r.Intn(5) {
	case 0, 1:
		p := verifh.Pick(r, c11Ports)
		a.port = &p
		if p == "" {
			a.tricky += "+emptyport"
		} else {
			a.tricky += "+port"
		}
	case 2:
		p := strconv.Itoa(r.Intn(65536))
		a.port = &p
		a.tricky += "+port"
	}
	c11Flags(&a)
	if !a.wf {
		a.tricky = "name-looks-v4"
	}
	return a
}

func c11FlipCase(r *rand.Rand, s string) string {
	b := []byte(s)
	for i, c := range b {
		if r.Intn(2) == 0 {
			if c >= 'a' && c <= 'z' {
				b[i] = c - 32
			} else if c >= 'A' && c <= 'Z' {
				b[i] = c + 32
			}
		}
	}
	return string(b)
}

// c11Vary returns a relative of a: same host in another spelling, or a near miss.
func c11Vary(r *rand.Rand, a c11Auth, odd bool) c11Auth {
	b := a
	b.parts = append([]string(nil), a.parts...)
	switch r.Intn(9) {
	case 0: // other case
		for i := range b.parts {
			b.parts[i] = c11FlipCase(r, b.parts[i])
		}
		if b.zone != nil {
			z := c11FlipCase(r, *b.zone)
			b.zone = &z
		}
	case 1: // other port / no port
		switch r.Intn(3) {
		case 0:
			b.port = nil
		case 1:
			p := ""
			b.port = &p
		default:
			p := verifh.Pick(r, c11Ports)
			b.port = &p
		}
	case 2: // toggle trailing dot
		if b.kind == "name" {
			b.dot = !b.dot
		}
	case 3: // change the first label / octet / group
		switch b.kind {
		case "name":
			b.parts[0] = verifh.Pick(r, c11Labels)
		case "ip4":
			b.parts[0] = verifh.Pick(r, c11Octets)
		default:
			b.parts[0] = verifh.Pick(r, c11V6)
		}
	case 4: // prepend a label (subdomain)
		if b.kind == "name" {
			b.parts = append([]string{verifh.Pick(r, c11Labels)}, b.parts...)
		}
	case 5: // drop the first label
		if b.kind == "name" && len(b.parts) > 1 {
			b.parts = b.parts[1:]
		}
	case 6: // change the last label / octet, zone
		switch b.kind {
		case "name":
			b.parts[len(b.parts)-1] = verifh.Pick(r, c11Labels)
		case "ip4":
			b.parts[3] = verifh.Pick(r, c11Octets)
		default:
			if r.Intn(2) == 0 {
				b.zone = nil
			} else {
				z := verifh.Pick(r, c11Zones)
				b.zone = &z
			}
		}
	case 7: // unrelated
		return c11GenAuth(r, odd)
	default: // identical
	}
	c11Flags(&b)
	return b
}

// c11Flags recomputes wf (WfAuthority) and rfc (RFC 3986 grammar with non-empty labels) from
// the structure, by the Go side's own reading of the definitions.
func c11Flags(a *c11Auth) {
	a.wf, a.rfc = true, true
	if a.kind != "name" {
		if a.zone != nil && *a.zone == "" {
			a.rfc = false
		}
		return
	}
	const regName = "abcdefghijklmnopqrstuvwxyzABCDEFGHIJKLMNOPQRSTUVWXYZ0123456789-_~!$&'()*+,;="
	allOctets := len(a.parts) == 4
	for _, p := range a.parts {
		allOctets = allOctets && c11IsDecOctet(p)
		if p == "" || strings.Trim(p, regName) != "" {
			a.rfc = false
		}
		if strings.ContainsAny(p, ".:[]") {
			a.wf = false
		}
	}
	if allOctets { // text of an IPv4 address: not a reg-name (first-match-wins)
		a.wf, a.rfc = false, false
	}
	if a.parts[len(a.parts)-1] == "" {
		a.wf, a.rfc = false, false
	}
}

// ---------------------------------------------------------------- independent oracle (net/url)

// c11OracleHost: the hostname of the URL whose authority is auth, as net/url reports it,
// lower-cased. ok=false when net/url does not accept the authority or does not keep it
// verbatim in URL.Host (then the property's "URL's hostname" is not defined by this oracle).
func c11OracleHost(auth string) (string, bool) {
	esc := auth
	if strings.HasPrefix(auth, "[") {
		if i := strings.Index(auth, "%"); i >= 0 && i < strings.Index(auth+"]", "]") {
			esc = auth[:i] + "%25" + auth[i+1:]
		}
	}
	u, err := url.Parse("http://" + esc + "/p")
	if err != nil || u.Host != auth || u.User != nil {
		return "", false
	}
	return strings.ToLower(u.Hostname()), true
}

// c11OracleDomain: IP addresses whole; otherwise the name without trailing dot, first label
// dropped when it has at least three labels (two dots).
func c11OracleDomain(host string) string {
	if _, err := netip.ParseAddr(host); err == nil {
		return host
	}
	h := host
	if strings.HasSuffix(h, ".") {
		h = h[:len(h)-1]
	}
	if _, err := netip.ParseAddr(h); err == nil {
		return h
	}
	if strings.Count(h, ".") >= 2 {
		return h[strings.IndexByte(h, '.')+1:]
	}
	return h
}

// ---------------------------------------------------------------- pre-fix code, verbatim

func c11LegacyHostname(host string) (hostname string) {
	if strings.Index(host, ":") > 0 {
		host, _, _ = net.SplitHostPort(host)
	}
	hostname = strings.ToLower(host)
	return
}

func c11LegacyDomain(host string) string {
	host = c11LegacyHostname(host)
	ss := strings.Split(host, ".")
	if len(ss) < 3 {
		return host
	}
	ss = ss[1:]
	return strings.Join(ss, ".")
}

// c11FixedHostname / c11FixedDomain: copy of the repaired code (fixes/C11-1). Used ONLY to decide
// whether a disagreement is exactly the known pre-fix behaviour (legacy answer differs from the
// repaired answer and the implementation gave the legacy answer); never as an oracle.
func c11FixedHostname(host string) string {
	return strings.ToLower((&url.URL{Host: host}).Hostname())
}

func c11FixedDomain(host string) string {
	host = c11FixedHostname(host)
	if strings.Contains(host, ":") {
		return host
	}
	host = strings.TrimSuffix(host, ".")
	if net.ParseIP(host) != nil {
		return host
	}
	ss := strings.Split(host, ".")
	if len(ss) < 3 {
		return host
	}
	return strings.Join(ss[1:], ".")
}

// c11IsLegacyAnswer: (h, d) is what the pre-fix code answers for a, and the repaired code
// answers something else.
func c11IsLegacyAnswer(a, h, d string) bool {
	lh, ld := c11LegacyHostname(a), c11LegacyDomain(a)
	return h == lh && d == ld && (lh != c11FixedHostname(a) || ld != c11FixedDomain(a))
}

// c11LegacyAffected: the authority is in the input class on which the pre-fix code departs
// from the oracle.
func c11LegacyAffected(auth string) bool {
	h, ok := c11OracleHost(auth)
	if !ok {
		h = strings.ToLower((&url.URL{Host: auth}).Hostname())
	}
	return c11LegacyHostname(auth) != h || c11LegacyDomain(auth) != c11OracleDomain(h)
}

// ---------------------------------------------------------------- policy descriptors

type c11Pol struct {
	kind string // nil no samehost samedomain max ahost adomain copy
	n    int
	list []string
}

func (p c11Pol) enc() string {
	switch p.kind {
	case "max":
		return "max:" + strconv.Itoa(p.n)
	case "ahost", "adomain", "copy":
		return p.kind + ":" + verifh.HexList(p.list)
	}
	return p.kind
}

func (p c11Pol) String() string {
	switch p.kind {
	case "max":
		return "max(" + strconv.Itoa(p.n) + ")"
	case "ahost", "adomain", "copy":
		return p.kind + "(" + strings.Join(p.list, " ") + ")"
	}
	return p.kind
}

func (p c11Pol) real() RedirectPolicy {
	switch p.kind {
	case "no":
		return NoRedirectPolicy()
	case "samehost":
		return SameHostRedirectPolicy()
	case "samedomain":
		return SameDomainRedirectPolicy()
	case "max":
		return MaxRedirectPolicy(p.n)
	case "ahost":
		return AllowedHostRedirectPolicy(p.list...)
	case "adomain":
		return AllowedDomainRedirectPolicy(p.list...)
	case "copy":
		return AlwaysCopyHeaderRedirectPolicy(p.list...)
	}
	return nil
}

func c11EncPols(ps []c11Pol) string {
	if len(ps) == 0 {
		return "-"
	}
	out := make([]string, len(ps))
	for i, p := range ps {
		out[i] = p.enc()
	}
	return strings.Join(out, ";")
}

func c11ShowPols(ps []c11Pol) string {
	out := make([]string, len(ps))
	for i, p := range ps {
		out[i] = p.String()
	}
	return strings.Join(out, ",")
}

// c11Decide evaluates the documented meaning of a policy list with the given host/domain
// functions: 0 allow, 1 deny, 2 use-last-response. First refusal wins, nil is skipped.
func c11Decide(ps []c11Pol, req string, via []string, hostOf, domainOf func(string) string) int {
	for _, p := range ps {
		switch p.kind {
		case "no":
			return 2
		case "max":
			if len(via) >= p.n {
				return 1
			}
		case "samehost":
			if hostOf(req) != hostOf(via[0]) {
				return 1
			}
		case "samedomain":
			if domainOf(req) != domainOf(via[0]) {
				return 1
			}
		case "ahost":
			ok := false
			for _, h := range p.list {
				ok = ok || hostOf(h) == hostOf(req)
			}
			if !ok {
				return 1
			}
		case "adomain":
			ok := false
			for _, h := range p.list {
				ok = ok || domainOf(h) == domainOf(req)
			}
			if !ok {
				return 1
			}
		}
	}
	return 0
}

func c11OracleHostOf(s string) string  { h, _ := c11OracleHost(s); return h }
func c11OracleDomainOf(s string) string { return c11OracleDomain(c11OracleHostOf(s)) }

var c11DecisionName = []string{"allow", "deny", "uselast"}

// c11Hosts lists every authority a policy list mentions.
func c11PolHosts(ps []c11Pol) []string {
	var out []string
	for _, p := range ps {
		if p.kind == "ahost" || p.kind == "adomain" {
			out = append(out, p.list...)
		}
	}
	return out
}

// c11GenPols draws a policy composition; related supplies authorities the allowed lists
// should be written around (in other spellings).
func c11GenPols(r *rand.Rand, related []c11Auth, viaLen int, hdrPool []string) []c11Pol {
	n := 1 + r.Intn(4)
	var ps []c11Pol
	for i := 0; i < n; i++ {
		switch k := r.Intn(16); {
		case k == 0:
			ps = append(ps, c11Pol{kind: "nil"})
		case k == 1:
			ps = append(ps, c11Pol{kind: "no"})
		case k < 5:
			ps = append(ps, c11Pol{kind: "max", n: viaLen - 1 + r.Intn(4)})
		case k == 5:
			ps = append(ps, c11Pol{kind: "max", n: verifh.Pick(r, []int{-1, 0, 1, 2, 10})})
		case k < 8:
			ps = append(ps, c11Pol{kind: "samehost"})
		case k < 10:
			ps = append(ps, c11Pol{kind: "samedomain"})
		case k < 14:
			kind := "ahost"
			if r.Intn(2) == 0 {
				kind = "adomain"
			}
			var l []string
			for j := r.Intn(4); j > 0; j-- {
				switch r.Intn(3) {
				case 0:
					l = append(l, c11GenAuth(r, false).render())
				default:
					l = append(l, c11Vary(r, verifh.Pick(r, related), false).render())
				}
			}
			ps = append(ps, c11Pol{kind: kind, list: l})
		default:
			var l []string
			for j := r.Intn(4); j > 0; j-- {
				h := verifh.Pick(r, hdrPool)
				if r.Intn(3) == 0 {
					h = strings.ToLower(h)
				}
				l = append(l, h)
			}
			ps = append(ps, c11Pol{kind: "copy", list: l})
		}
	}
	if r.Intn(8) == 0 { // degenerate arguments as a class: nil cells anywhere, empty lists, duplicates, Max(n<=0)
		ps = c11Degenerate(r, ps)
	}
	return ps
}

// c11EncHeaders encodes ordered (key,value) pairs.
func c11EncHeaders(kv [][2]string) string {
	var l []string
	for _, p := range kv {
		l = append(l, p[0], p[1])
	}
	return verifh.HexList(l)
}

func c11ShowProbes(get func(string) []string, probes []string) string {
	if len(probes) == 0 {
		return "."
	}
	out := make([]string, len(probes))
	for i, k := range probes {
		out[i] = verifh.HexList(get(k))
	}
	return strings.Join(out, "/")
}

// ---------------------------------------------------------------- client families (Clone)

// c11Family is a family of real clients grown by a random history of SetRedirectPolicy and
// Clone calls, with the Go side's own bookkeeping of what each one must enforce.
type c11Family struct {
	clients []*Client
	want    [][]c11Pol // bookkeeping: policies client k must enforce (the argument's VALUE at the call)
	parent  []int      // -1 for client 0
	depth   []int
	ownSet  []bool // SetRedirectPolicy (non-empty) called on it since it exists
	parSet  []bool // its parent was re-configured after the clone was taken
	ops     []string
	emptied bool
	// caller-owned argument storage: policy arrays (full capacity; nil cells = spare capacity) that
	// SetRedirectPolicy calls are fed sub-slices of, and that the caller may write to afterwards
	arrs      [][]RedirectPolicy
	arrDesc   [][]c11Pol
	alias     []*[3]int // per client: (array, offset, length) its last set came from, nil = literal arguments
	writes    bool      // the caller also overwrites cells after the calls
	shared    bool      // some client was configured from a slice of an array
	callerWrote bool
}

// c11DefaultPols is what C() installs.
var c11DefaultPols = []c11Pol{{kind: "max", n: 10}}

func c11NewFamily(root *Client, rootPols []c11Pol) *c11Family {
	return &c11Family{clients: []*Client{root}, want: [][]c11Pol{rootPols}, parent: []int{-1}, depth: []int{0}, ownSet: []bool{false}, parSet: []bool{false},
		alias: []*[3]int{nil}}
}

// alloc: the caller builds a policy array holding ps with `extra` cells of spare capacity.
func (f *c11Family) alloc(ps []c11Pol, extra int) int {
	desc := append([]c11Pol(nil), ps...)
	for k := 0; k < extra; k++ {
		desc = append(desc, c11Pol{kind: "nil"})
	}
	arr := make([]RedirectPolicy, len(desc))
	for k, p := range desc {
		arr[k] = p.real()
	}
	f.arrs, f.arrDesc = append(f.arrs, arr), append(f.arrDesc, desc)
	f.ops = append(f.ops, "a."+c11EncPols(desc))
	return len(f.arrs) - 1
}

// setSlice: clients[i].SetRedirectPolicy(arr[off:off+n]...) - the variadic parameter IS that slice, its
// capacity reaching to the end of the caller's array.
func (f *c11Family) setSlice(i, a, off, n int) {
	f.clients[i].SetRedirectPolicy(f.arrs[a][off : off+n]...)
	f.ops = append(f.ops, "S."+strconv.Itoa(i)+"."+strconv.Itoa(a)+"."+strconv.Itoa(off)+"."+strconv.Itoa(n))
	if n == 0 {
		f.emptied = true
		return
	}
	f.shared = true
	f.want[i] = append([]c11Pol(nil), f.arrDesc[a][off:off+n]...)
	f.alias[i] = &[3]int{a, off, n}
	f.noteSet(i)
}

// write: the caller stores another policy into a cell of one of its arrays (reuse as a scratch buffer,
// append to a prefix within capacity).
func (f *c11Family) write(a, idx int, p c11Pol) {
	f.arrs[a][idx] = p.real()
	f.arrDesc[a][idx] = p
	f.callerWrote = true
	f.ops = append(f.ops, "w."+strconv.Itoa(a)+"."+strconv.Itoa(idx)+"."+p.enc())
}

// aliasPols: what client j would enforce if its closure read the caller's slice NOW (the behaviour
// before fixes/C11-4); nil when it was configured from literal arguments.
func (f *c11Family) aliasPols(j int) []c11Pol {
	if f.alias[j] == nil {
		return nil
	}
	a := f.alias[j]
	return f.arrDesc[a[0]][a[1] : a[1]+a[2]]
}

func (f *c11Family) noteSet(i int) {
	f.ownSet[i] = true
	for k, p := range f.parent {
		if p == i {
			f.parSet[k] = true
		}
	}
}

func (f *c11Family) set(i int, ps []c11Pol) {
	real := make([]RedirectPolicy, len(ps))
	for k, p := range ps {
		real[k] = p.real()
	}
	f.clients[i].SetRedirectPolicy(real...)
	f.ops = append(f.ops, "s."+strconv.Itoa(i)+"."+c11EncPols(ps))
	if len(ps) == 0 {
		f.emptied = true
		return
	}
	f.want[i] = ps
	f.alias[i] = nil
	f.noteSet(i)
}

func (f *c11Family) clone(i int) {
	f.clients = append(f.clients, f.clients[i].Clone())
	f.want = append(f.want, f.want[i])
	f.parent = append(f.parent, i)
	f.depth = append(f.depth, f.depth[i]+1)
	f.ownSet = append(f.ownSet, false)
	f.parSet = append(f.parSet, false)
	f.alias = append(f.alias, f.alias[i])
	f.ops = append(f.ops, "c."+strconv.Itoa(i))
}

func (f *c11Family) encOps() string {
	if len(f.ops) == 0 {
		return "-"
	}
	return strings.Join(f.ops, "|")
}

// grow applies 1..5 random operations; gen draws a policy composition.
func (f *c11Family) grow(r *rand.Rand, gen func() []c11Pol) {
	for n := 1 + r.Intn(5); n > 0; n-- {
		i := r.Intn(len(f.clients))
		switch k := r.Intn(14); {
		case k < 5:
			f.clone(i)
		case k < 7:
			f.set(i, gen()) // literal arguments
		case k < 9:
			// a caller-owned slice with spare capacity (built by append / make(len, cap))
			a := f.alloc(gen(), r.Intn(4))
			n := len(f.arrDesc[a])
			for n > 1 && f.arrDesc[a][n-1].kind == "nil" && r.Intn(4) != 0 {
				n-- // usually the logical length, sometimes reaching into the spare cells
			}
			f.setSlice(i, a, 0, n)
		case k < 12 && len(f.arrs) > 0:
			// another client (or the same again) from the SAME array: a prefix, a suffix, an overlapping window
			a := r.Intn(len(f.arrs))
			n := len(f.arrDesc[a])
			off := 0
			if r.Intn(3) == 0 {
				off = r.Intn(n)
			}
			l := 1 + r.Intn(n-off)
			if r.Intn(2) == 0 && l > 1 {
				l = 1 + r.Intn(l-1) // a shorter prefix: spare capacity right behind it holds OTHER clients' policies
			}
			if r.Intn(12) == 0 {
				l = 0
			}
			f.setSlice(i, a, off, l)
		case k == 12 && f.writes && len(f.arrs) > 0:
			a := r.Intn(len(f.arrs))
			ps := gen()
			f.write(a, r.Intn(len(f.arrDesc[a])), ps[r.Intn(len(ps))])
		case k < 13:
			f.set(i, gen())
		default:
			f.set(i, nil) // SetRedirectPolicy() with no argument: must change nothing
		}
	}
	if len(f.clients) == 1 {
		f.clone(0)
	}
}

// pick chooses the client to evaluate (clones preferred) and names the scenario.
func (f *c11Family) pick(r *rand.Rand) (int, string) {
	j := r.Intn(len(f.clients))
	if j == 0 && r.Intn(3) != 0 {
		j = 1 + r.Intn(len(f.clients)-1)
	}
	switch {
	case f.parent[j] < 0:
		return j, "family:original"
	case f.ownSet[j]:
		return j, "family:set-on-clone"
	case f.depth[j] >= 2:
		return j, "family:clone-of-clone-inherits"
	case f.parSet[j]:
		return j, "family:clone-inherits,parent-reconfigured-later"
	default:
		return j, "family:clone-inherits"
	}
}

func (f *c11Family) show(j int) string {
	return "clients: " + strings.Join(f.ops, " ") + " ; client " + strconv.Itoa(j)
}

// ---------------------------------------------------------------- full requests (loop model)

var c11Methods = []string{"GET", "GET", "HEAD", "POST", "PUT", "PATCH", "DELETE", "OPTIONS"}

// c11Decoy fills the fields of q that no redirect.go policy may consult with authorities related
// to the ones the case is about.
func c11Decoy(r *rand.Rand, q *http.Request, related []c11Auth, s *c11Lane) {
	pickAuth := func() string {
		for {
			var x c11Auth
			if r.Intn(4) == 0 {
				x = c11GenAuth(r, false)
			} else {
				x = c11Vary(r, verifh.Pick(r, related), false)
			}
			if x.wf {
				return x.render()
			}
		}
	}
	switch r.Intn(4) {
	case 0: // no override: net/http leaves Host empty on redirected requests, req sets URL.Host on the first
	case 1:
		q.Host = q.URL.Host
	default:
		q.Host = pickAuth()
		s.Count("decoy:host-field")
		if q.Host != q.URL.Host {
			s.Count("decoy:host-field=other-authority")
		}
	}
	switch r.Intn(4) {
	case 0:
		q.URL.User = url.User(strings.ToLower(c11OracleHostOf(pickAuth())))
		s.Count("decoy:userinfo")
	case 1:
		q.URL.User = url.UserPassword("u"+strconv.Itoa(r.Intn(9)), "pw")
		s.Count("decoy:userinfo")
	}
	if r.Intn(3) == 0 {
		q.URL.Scheme = "https"
		s.Count("decoy:https")
	}
	if r.Intn(2) == 0 {
		q.Method = verifh.Pick(r, c11Methods)
		s.Count("decoy:method")
	}
	if r.Intn(3) == 0 {
		q.URL.Path = "/" + verifh.RandBytes(r, 1+r.Intn(5), "abcxyz019-_")
	}
}

func c11EncUser(u *url.Userinfo) string {
	if u == nil {
		return "-"
	}
	if p, ok := u.Password(); ok {
		return verifh.Hex(u.Username()) + "~" + verifh.Hex(p)
	}
	return verifh.Hex(u.Username())
}

func c11EncScheme(s string) string {
	if s == "https" {
		return "s"
	}
	return "h"
}

// c11EncReq: S|U|H|P|M|F|B of the driver's request encoding.
func c11EncReq(q *http.Request) string {
	body := "0"
	if q.Body != nil && q.Body != http.NoBody {
		body = "1"
	}
	return strings.Join([]string{c11EncScheme(q.URL.Scheme), c11EncUser(q.URL.User), verifh.Hex(q.URL.Host), verifh.Hex(q.URL.Path),
		verifh.Hex(q.Method), verifh.Hex(q.Host), body}, "|")
}
