//go:build verif

package req

// Lane life of C20: credentials over the LIFE of a client.
//
// One client, several requests, each sent several times — as retry attempts of one call (the
// events between two attempts run inside the retry hook) or by calling Send again on the same
// Request — with credential setters of both levels called before, between and after the
// attempts, on the request in flight, on requests already sent and on the client; further
// requests of the same client are created and sent at any point (also from inside a hook).
// The origin reports what it recovers from EVERY attempt; the model (Req.Auth.life .fresh: the
// header maps as references to shared one-element slices, theorem sharing_unobservable) predicts
// the whole list.
//
// Not generated (the code keeps what the request inherited at its first attempt; the property
// does not say which value is "the given one" there): an attempt of a request that still carries
// inherited client-level credentials after the client was given others. The generator gives such
// a request credentials of its own first.

import (
	"fmt"
	"net/http"
	"net/url"
	"strconv"
	"strings"
	"testing"
	"time"

	"github.com/imroc/req/v3/internal/verifh"
)

type c20LifeReq struct {
	rq        *Request
	target    string
	uu, up    string // URL user information ("" "" with hasURL false)
	hasURL    bool
	hook      bool // all attempts of its first call are retries of one call
	called    bool // the hook-mode call was made
	open      bool // inside its own retry hook right now
	own       bool // a request-level setter was called on it
	inherited bool // went out with the client's value and has none of its own
	inhVer    int  // client version it inherited
	sent      int
}

func TestVerif_C20_life(t *testing.T) {
	s := verifh.New(t, "C20", "life",
		"lives of one client: 4-14 events from {Client.SetCommonBasicAuth, Client.SetCommonBearerAuthToken, Client.R(), Request.SetBasicAuth, Request.SetBearerAuthToken on any request created so far - never sent, already sent, in flight -, one attempt of a request}; a request is sent again either by a second Send of the same Request or as retry attempts of one call (SetRetryCount + SetRetryHook; the events up to its next attempt, nested calls of other requests included, run INSIDE the hook); 1-4 requests per client, with or without user information in the URL, HTTP/1.1 and HTTP/2; the scripted lives come first: client credentials, request A sent, A given its own credentials (hook / between two sends), A sent again, a NEW request B sent - for basic/bearer at either level and both re-send mechanisms, plus two requests that both inherited before one of them is changed; answer = what the origin's net/http BasicAuth() and the bearer split recover from EVERY attempt, in order; model = Req.Auth.life .fresh (shared slices) = the value-only description (sharing_unobservable); non-trivial = a request-level setter on a request that was already sent")
	r := s.Rand()
	cnt := map[string]int{}
	texts := []string{"", "a", ":", "a:b", "p w", `q"uo\te`, "ü€", "admin", "s3cret", "service", "s3cr:et/+", "alice", "tok", "client-token", "request-token", "t\x00k", "Bearer abc", "bearer abc", "BEARER  x", "Basic QQ=="}
	text := func() string {
		if r.Intn(8) == 0 {
			return verifh.RandBytes(r, 1+r.Intn(20), "abcXYZ019+/=:. -_~")
		}
		return verifh.Pick(r, texts)
	}

	// one scripted life = a list of moves; "A"/"B" name requests (index 0 / 1)
	type move struct {
		kind string // cb ct nr rb rt sd
		i    int
		a, b string
		hook bool // for nr: hook mode
	}
	var scripted [][]move
	for _, hook := range []bool{true, false} {
		for _, cl := range []move{{kind: "cb", a: "service", b: "s3cr:et/+"}, {kind: "ct", a: "client-token"}} {
			for _, rs := range []move{{kind: "rb", a: "alice", b: "wonder:land"}, {kind: "rt", a: "request-token"}, {kind: "rb"}} {
				scripted = append(scripted,
					[]move{cl, {kind: "nr", hook: hook}, {kind: "sd", i: 0}, rs, {kind: "sd", i: 0}, {kind: "nr"}, {kind: "sd", i: 1}},
					[]move{cl, {kind: "nr", hook: hook}, {kind: "nr"}, {kind: "sd", i: 0}, {kind: "sd", i: 1}, rs, {kind: "sd", i: 0}, {kind: "sd", i: 1}, {kind: "nr"}, {kind: "sd", i: 2}})
			}
		}
	}

	for _, h2 := range []bool{false, true} {
		o := c20NewOrigin(h2)
		base := C().SetTimeout(20 * time.Second)
		proto := "h1"
		if h2 {
			base.EnableInsecureSkipVerify().EnableForceHTTP2()
			proto = "h2"
		} else {
			base.EnableForceHTTP1()
		}
		n := len(scripted) + verifh.N(130, 4000)
		for ci := 0; ci < n; ci++ {
			caseID := o.begin(c20Script{firstStatus: 200, firstBody: "ok", rejectSecond: true})
			cc := base.Clone()
			var (
				reqs      []*c20LifeReq
				enc       []string
				human     []string
				outs      []string
				clientSet bool
				clientVer int
				anomaly   string
				classHit  bool // a request-level setter on a request already sent
				leakShape bool // … with client-level credentials present, and a request sent afterwards that has none of its own
				afterSet  bool
			)
			ev := func(kind string, i int, a, b string) {
				enc = append(enc, kind, strconv.Itoa(i), a, b)
				human = append(human, fmt.Sprintf("%s[%d](%q,%q)", kind, i, a, b))
				cnt["ev:"+kind]++
			}
			recovered := func(start int, err error) {
				seen := o.requests()
				switch {
				case len(seen) == start && err != nil && strings.Contains(err.Error(), "invalid header field value"):
					outs = append(outs, "refused")
				case len(seen) != start+1:
					anomaly = fmt.Sprintf("anomaly attempt saw %d requests err=%v", len(seen)-start, err)
					outs = append(outs, "?")
				case !seen[start].hasAuth:
					outs = append(outs, "basic=none bearer=none")
				default:
					v := seen[start].auth
					b, tk := "none", "none"
					hr := &http.Request{Header: http.Header{"Authorization": {v}}}
					if u, p, ok := hr.BasicAuth(); ok {
						b = "some:" + verifh.Hex(u) + ":" + verifh.Hex(p)
					}
					if len(v) >= 7 && strings.EqualFold(v[:7], "bearer ") {
						tk = "some:" + verifh.Hex(v[7:])
					}
					outs = append(outs, "basic="+b+" bearer="+tk)
				}
			}
			doClient := func(basic bool, a, b string) {
				if basic {
					cc.SetCommonBasicAuth(a, b)
					ev("cb", 0, a, b)
				} else {
					cc.SetCommonBearerAuthToken(a)
					ev("ct", 0, a, "")
				}
				clientSet = true
				clientVer++
			}
			doNew := func(hook bool, withURL bool) {
				q := &c20LifeReq{rq: cc.R().SetHeader("X-Verif-Case", caseID), target: o.srv.URL + "/life", hook: hook}
				if withURL {
					q.uu, q.up, q.hasURL = verifh.Pick(r, []string{"alice", "", "a b"}), verifh.Pick(r, []string{"secret", "", "p:w"}), true
					pu, _ := url.Parse(q.target)
					pu.User = url.UserPassword(q.uu, q.up)
					q.target = pu.String()
					cnt["url-userinfo"]++
				}
				reqs = append(reqs, q)
				ev("nr", 0, "", "")
			}
			doReqSet := func(i int, basic bool, a, b string) {
				q := reqs[i]
				if basic {
					q.rq.SetBasicAuth(a, b)
					ev("rb", i, a, b)
				} else {
					q.rq.SetBearerAuthToken(a)
					ev("rt", i, a, "")
				}
				if q.sent > 0 {
					classHit = true
					cnt["set-after-send"]++
					if q.open {
						cnt["set-in-own-hook"]++
					}
					if q.inherited && !q.own {
						afterSet = true
						cnt["set-on-inheriting-request"]++
					}
				}
				q.own = true
			}
			// the bookkeeping of one attempt that is about to start
			attempt := func(i int) {
				q := reqs[i]
				if q.hasURL {
					ev("su", i, q.uu, q.up)
				} else {
					ev("sd", i, "", "")
				}
				if !q.own && clientSet && !q.inherited {
					q.inherited, q.inhVer = true, clientVer
				}
				if !q.own && afterSet {
					leakShape = true
				}
				q.sent++
			}
			stale := func(q *c20LifeReq) bool { return !q.own && q.inherited && q.inhVer != clientVer }

			var playScript func(ms []move, pos int, stopAt int) int
			var randomEvents func(depth int, budget *int, openIdx int)

			// send request i; `inside` runs between two attempts of a hook-mode call and says whether another attempt follows
			send := func(i int, attempts int, inside func(k int)) {
				q := reqs[i]
				if !q.hook || q.called || attempts <= 1 {
					cnt["plain-send"]++
					if q.sent > 0 {
						cnt["second-send-of-a-request"]++
					}
					attempt(i)
					start := len(o.requests())
					resp, _ := q.rq.Get(q.target)
					recovered(start, resp.Err)
					return
				}
				q.called = true
				cnt["hook-call"]++
				k := 0
				start := 0
				q.rq.SetRetryCount(attempts - 1).SetRetryFixedInterval(0).
					SetRetryCondition(func(resp *Response, err error) bool { return k < attempts-1 }).
					SetRetryHook(func(resp *Response, err error) {
						recovered(start, err)
						q.open = true
						k++
						inside(k)
						q.open = false
						cnt["retry-attempt"]++
						attempt(i)
						start = len(o.requests())
					})
				attempt(i)
				start = len(o.requests())
				resp, _ := q.rq.Get(q.target)
				recovered(start, resp.Err)
			}

			// scripted: a hook-mode request's later sends are folded into its first call
			playScript = func(ms []move, pos int, stopAt int) int {
				for pos < len(ms) {
					m := ms[pos]
					switch m.kind {
					case "cb":
						doClient(true, m.a, m.b)
					case "ct":
						doClient(false, m.a, "")
					case "nr":
						doNew(m.hook, false)
					case "rb":
						doReqSet(m.i, true, m.a, m.b)
					case "rt":
						doReqSet(m.i, false, m.a, "")
					case "sd":
						if m.i == stopAt {
							return pos // the open request's next attempt: leave the hook
						}
						total := 0
						for _, x := range ms[pos:] {
							if x.kind == "sd" && x.i == m.i {
								total++
							}
						}
						next := pos + 1
						send(m.i, total, func(int) { next = playScript(ms, next, m.i) + 1 })
						pos = next - 1
					}
					pos++
				}
				return pos
			}

			randomEvents = func(depth int, budget *int, openIdx int) {
				for *budget > 0 {
					*budget--
					switch c := r.Intn(10); {
					case c == 0 || (c < 3 && !clientSet):
						doClient(r.Intn(2) == 0, text(), text())
					case c == 1 || len(reqs) == 0:
						if len(reqs) < 4 {
							doNew(r.Intn(2) == 0, r.Intn(5) == 0)
						}
					case c < 5:
						doReqSet(r.Intn(len(reqs)), r.Intn(2) == 0, text(), text())
					default:
						i := r.Intn(len(reqs))
						q := reqs[i]
						if q.open {
							if i == openIdx && r.Intn(2) == 0 {
								return // leave the hook: the next attempt of the open request
							}
							continue
						}
						if stale(q) {
							doReqSet(i, r.Intn(2) == 0, text(), text())
						}
						attempts := 1
						if q.hook && !q.called && depth < 2 {
							attempts = 2 + r.Intn(2)
						}
						send(i, attempts, func(int) {
							sub := 1 + r.Intn(4)
							if sub > *budget {
								sub = *budget
							}
							*budget -= sub
							if r.Intn(3) != 0 {
								doReqSet(i, r.Intn(2) == 0, text(), text())
							}
							randomEvents(depth+1, &sub, i)
							if stale(reqs[i]) {
								doReqSet(i, r.Intn(2) == 0, text(), text())
							}
						})
					}
				}
			}

			id := ""
			run := func() {
				if ci < len(scripted) {
					cnt["scripted"]++
					playScript(scripted[ci], 0, -1)
					return
				}
				budget := 4 + r.Intn(11)
				randomEvents(0, &budget, -1)
				// always end with a request of the client that has nothing of its own
				doNew(false, false)
				send(len(reqs)-1, 1, nil)
			}
			if p, pan := verifh.Safely(run); pan {
				id = fmt.Sprintf("%s %s", proto, strings.Join(human, " "))
				s.Crash(id, id, p, "")
				cc.GetTransport().CloseIdleConnections()
				continue
			}
			cc.GetTransport().CloseIdleConnections()
			id = fmt.Sprintf("%s %s", proto, strings.Join(human, " "))
			if classHit {
				cnt["class:set-after-send"]++
			}
			if leakShape {
				cnt["class:other-request-after-set-on-inheriting-request"]++
			}
			impl := "-"
			if len(outs) > 0 {
				impl = strings.Join(outs, ";")
			}
			if anomaly != "" {
				impl = anomaly
			}
			line := fmt.Sprintf("c20life %s %s", proto, verifh.HexList(enc))
			s.Case(line, impl, anomaly == "", "", classHit, id+" -> "+impl)
		}
		base.GetTransport().CloseIdleConnections()
		o.srv.Close()
	}
	for k, v := range cnt {
		for i := 0; i < v; i++ {
			s.Count(k)
		}
	}
	for _, k := range []string{"set-after-send", "set-in-own-hook", "set-on-inheriting-request", "second-send-of-a-request", "retry-attempt",
		"class:other-request-after-set-on-inheriting-request", "ev:cb", "ev:ct", "ev:rb", "ev:rt", "ev:su"} {
		if cnt[k] == 0 {
			t.Errorf("declared buckets not reached: %s (%v)", k, cnt) // the collected cases are judged below
		}
	}
	s.Finish()
}
