//go:build verif

package req

// C16 for SECOND SENDS: whatever makes the library send a request a second time — a retry, the
// caller sending the same *Request again, the authorized re-send of digest auth after a 401, the
// next hop of a redirect — the second request must carry the header set the caller described:
// same names in the caller's exact spelling, same values, same multiplicities, listed headers in
// list order, no bookkeeping key. Lean model: Req/Client/Resend.lean (secondHeader,
// transportExtra) rendered by Req/H1/RequestWrite.lean; theorems Req/Props/C16Resend.lean.

import (
	"bufio"
	"bytes"
	"crypto/tls"
	"fmt"
	"io"
	"log"
	"math/rand"
	"net"
	"net/http"
	"net/http/httptest"
	"net/textproto"
	"os"
	"sort"
	"strconv"
	"strings"
	"sync"
	"testing"
	"time"

	"github.com/imroc/req/v3/internal/verifh"
	qhttp3 "github.com/quic-go/quic-go/http3"
)

// c16ScriptPeer is a raw TCP HTTP/1.1 peer: it records every request exactly as received (head
// bytes + body bytes) and answers the k-th request since reset() with the k-th scripted response
// (200 when the script is exhausted).
type c16ScriptPeer struct {
	ln     net.Listener
	mu     sync.Mutex
	got    [][]byte
	script []string
}

func c16StartScriptPeer(t testing.TB) *c16ScriptPeer {
	ln, err := net.Listen("tcp", "127.0.0.1:0")
	if err != nil {
		t.Fatalf("listen: %v", err)
	}
	p := &c16ScriptPeer{ln: ln}
	go func() {
		for {
			conn, err := ln.Accept()
			if err != nil {
				return
			}
			go p.serve(conn)
		}
	}()
	return p
}

func (p *c16ScriptPeer) serve(c net.Conn) {
	defer c.Close()
	br := bufio.NewReader(c)
	for {
		var wire bytes.Buffer
		cl := 0
		chunked := false
		for {
			line, err := br.ReadString('\n')
			if err != nil {
				return
			}
			wire.WriteString(line)
			l := strings.ToLower(strings.TrimRight(line, "\r\n"))
			if strings.HasPrefix(l, "content-length:") {
				cl, _ = strconv.Atoi(strings.TrimSpace(l[len("content-length:"):]))
			}
			if strings.HasPrefix(l, "transfer-encoding:") && strings.Contains(l, "chunked") {
				chunked = true
			}
			if line == "\r\n" {
				break
			}
		}
		if chunked {
			for {
				line, err := br.ReadString('\n')
				if err != nil {
					return
				}
				wire.WriteString(line)
				n, _ := strconv.ParseInt(strings.TrimSpace(line), 16, 64)
				if _, err := io.CopyN(&wire, br, n+2); err != nil {
					return
				}
				if n == 0 {
					break
				}
			}
		} else if _, err := io.CopyN(&wire, br, int64(cl)); err != nil {
			return
		}
		p.mu.Lock()
		p.got = append(p.got, append([]byte(nil), wire.Bytes()...))
		resp := "HTTP/1.1 200 OK\r\nContent-Length: 0\r\n\r\n"
		if len(p.script) > 0 {
			resp, p.script = p.script[0], p.script[1:]
		}
		p.mu.Unlock()
		if resp == c16Drop {
			return // the request was read completely; the connection is closed without an answer
		}
		if _, err := io.WriteString(c, resp); err != nil {
			return
		}
	}
}

func (p *c16ScriptPeer) reset(script ...string) {
	p.mu.Lock()
	p.got, p.script = nil, script
	p.mu.Unlock()
}

func (p *c16ScriptPeer) take() [][]byte {
	p.mu.Lock()
	defer p.mu.Unlock()
	g := p.got
	p.got = nil
	return g
}

// c16Drop as a script entry: read the request, then drop the connection instead of answering.
const c16Drop = "\x00drop"

const c16Challenge = `Digest realm="verif", nonce="dcd98b7102dd2f0e8b11d0f600bfb0c093", qop="auth", opaque="5ccc069c403ebaf9f0171e9517f40e41", algorithm=`

func c16Resp(status int, hdr ...string) string {
	s := fmt.Sprintf("HTTP/1.1 %d X\r\n", status)
	for _, h := range hdr {
		s += h + "\r\n"
	}
	return s + "Content-Length: 0\r\n\r\n"
}

// c16Leg is one request as it was handed to the transport (innermost round-trip wrapper).
type c16Leg struct {
	method, url, host string
	header            http.Header
	cl                int64
	hasBody, close    bool
}

type c16ResendCase struct {
	kind        string // plain | retry | retry2 | again | digest | digest-retry | redir307 | redir302 | redir-cross | redir-digest
	method      string
	path        string
	cHdr, rHdr  http.Header
	viaSetters  bool
	rOrder      []string // SetHeaderOrder
	cOrder      []string // SetCommonHeaderOrder
	pseudo      bool
	rCookies    []*http.Cookie
	cCookies    []*http.Cookie
	body        []byte
	compression bool
	keepAlive   bool
	commonAuth  bool // digest credentials registered on the client instead of the request
	alg         string
	preset      string // "" | chrome | firefox | safari: ImpersonateXxx applied to the client (header map + header order + pseudo order)
}

var c16ResendNames = []string{"X-Api-Key", "x-api-KEY", "X-Dup", "x-dup", "X-DUP", "x_under_score", "Accept", "accept", "Accept-Language", "X-Multi",
	"Authorization", "authorization", "Cookie", "Referer", "referer", "X-Trace-Id", "x-trace-id", "User-Agent", "Accept-Encoding", "Range", "X-Empty",
	"Content-Type", "Cache-Control", "Www-Authenticate", "Cookie2", "Proxy-Authorization", "Te", "Trailer", "X-Z", "x-a", "X-A", "sec-ch-ua", "Sec-Ch-Ua", "Pragma"}
var c16ResendValues = []string{"v1", "v2", "a, b", "  lead", "trail  ", "", "k=v; k2=v2", "Bearer tok", "text/plain", "x y z", "bytes=0-9", "identity", "ua/1.0"}

func c16RandResendHeader(r *rand.Rand, max int) http.Header {
	h := http.Header{}
	for i, n := 0, r.Intn(max+1); i < n; i++ {
		k := verifh.Pick(r, c16ResendNames)
		nv := 1
		if r.Intn(4) == 0 {
			nv = 2 + r.Intn(2)
		}
		var vs []string
		for j := 0; j < nv; j++ {
			vs = append(vs, verifh.Pick(r, c16ResendValues))
		}
		if strings.EqualFold(k, "Content-Type") || strings.EqualFold(k, "User-Agent") {
			vs = []string{vs[0] + "x"} // never empty: an empty Content-Type is replaced by sniffing (C17), an empty User-Agent is covered by h1wire
		}
		h[k] = vs
	}
	return h
}

func c16RandResendOrder(r *rand.Rand, hs ...http.Header) []string {
	var pool []string
	for _, h := range hs {
		for k := range h {
			pool = append(pool, k)
		}
	}
	sort.Strings(pool)
	pool = append(pool, "host", "user-agent", "authorization", "referer", "cookie", "content-length", "accept-encoding", "connection", "content-type", "x-not-there", "X-Not-There-Either")
	var out []string
	for i, n := 0, 1+r.Intn(10); i < n; i++ {
		k := verifh.Pick(r, pool)
		switch r.Intn(4) {
		case 0:
			k = strings.ToLower(k)
		case 1:
			k = strings.ToUpper(k)
		case 2:
			k = textproto.CanonicalMIMEHeaderKey(k)
		}
		out = append(out, k)
	}
	if r.Intn(4) == 0 {
		out = append(out, out[r.Intn(len(out))]) // listed twice
	}
	return out
}

func c16GenResend(r *rand.Rand, kinds []string) *c16ResendCase {
	tc := &c16ResendCase{kind: verifh.Pick(r, kinds)}
	tc.method = verifh.Pick(r, []string{"GET", "GET", "POST", "POST", "PUT", "DELETE", "PATCH"})
	tc.path = verifh.Pick(r, []string{"/", "/a", "/a/b?x=1", "/p?q=a%20b", "/dir/"})
	tc.cHdr = c16RandResendHeader(r, 5)
	tc.rHdr = c16RandResendHeader(r, 9)
	if r.Intn(3) == 0 {
		// the seeded defect's shape and its relatives: one name in several spellings at once
		tc.rHdr["X-Dup"] = []string{"upper"}
		tc.rHdr["x-dup"] = []string{"lower"}
		tc.rHdr["x-api-KEY"] = []string{"k1"}
	}
	tc.viaSetters = r.Intn(2) == 0
	if r.Intn(2) == 0 {
		tc.rOrder = c16RandResendOrder(r, tc.cHdr, tc.rHdr)
	}
	if r.Intn(3) == 0 {
		tc.cOrder = c16RandResendOrder(r, tc.cHdr, tc.rHdr)
	}
	tc.pseudo = r.Intn(4) == 0
	if r.Intn(3) == 0 {
		tc.rCookies = []*http.Cookie{{Name: "sid", Value: "abc"}, {Name: "theme", Value: "dark"}}
	}
	if r.Intn(4) == 0 && tc.kind != "again" {
		// a second Send of the same *Request appends the client cookies once more (documented
		// behaviour of the cookie middleware): only retries and re-sends keep them single
		tc.cCookies = []*http.Cookie{{Name: "common", Value: "c"}}
	}
	if tc.method != "GET" && tc.method != "DELETE" {
		tc.body = c01GenBody(verifh.Pick(r, []int{1, 100, 5000}), 3, 1)
	}
	tc.compression = r.Intn(3) != 0
	tc.keepAlive = r.Intn(4) != 0
	tc.commonAuth = r.Intn(3) == 0
	tc.alg = verifh.Pick(r, []string{"MD5", "SHA-256", "MD5-sess"})
	if r.Intn(5) == 0 {
		tc.preset = verifh.Pick(r, []string{"chrome", "firefox", "safari"})
	}
	return tc
}

// c16Script: the peer's responses and, per expected leg, how its header map derives from the first
// leg's ("same", "digest", "redir0" = redirect inside the domain, "redir1" = to another domain).
func c16Script(tc *c16ResendCase, base2 string) (script []string, legs []string, sends int) {
	chal := "WWW-Authenticate: " + c16Challenge + tc.alg
	sends = 1
	switch tc.kind {
	case "plain":
		return nil, []string{"same"}, 1
	case "retry":
		return []string{c16Resp(503)}, []string{"same", "same"}, 1
	case "retry2":
		return []string{c16Resp(503), c16Resp(503)}, []string{"same", "same", "same"}, 1
	case "again":
		return nil, []string{"same", "same"}, 2
	case "digest":
		return []string{c16Resp(401, chal)}, []string{"same", "digest"}, 1
	case "digest-retry":
		// challenge, authorized re-send answered 503, the retry starts over
		return []string{c16Resp(401, chal), c16Resp(503), c16Resp(401, chal)}, []string{"same", "digest", "same", "digest"}, 1
	case "redir307":
		return []string{c16Resp(307, "Location: /hop2?x=1")}, []string{"same", "redir0"}, 1
	case "redir302":
		return []string{c16Resp(302, "Location: /hop2")}, []string{"same", "redir0"}, 1
	case "redir-cross":
		return []string{c16Resp(307, "Location: "+base2+"/other-domain")}, []string{"same", "redir1"}, 1
	case "redir-twice":
		return []string{c16Resp(307, "Location: /hop2"), c16Resp(308, "Location: /hop3")}, []string{"same", "redir0", "redir0"}, 1
	}
	panic("kind " + tc.kind)
}

// c16BuildResend builds client + request for a case. `capture` receives every request handed to the
// transport (it is installed first, i.e. innermost: the client-level order wrappers run before it).
func c16BuildResend(tc *c16ResendCase, proto string, capture func(*http.Request)) (*Client, *Request) {
	c := c01NewClient(proto, tc.compression, tc.keepAlive)
	c.SetTimeout(5 * time.Second)
	c.Transport.WrapRoundTripFunc(func(rt http.RoundTripper) HttpRoundTripFunc {
		return func(req *http.Request) (*http.Response, error) {
			capture(req)
			return rt.RoundTrip(req)
		}
	})
	switch tc.preset {
	case "chrome":
		c.ImpersonateChrome()
	case "firefox":
		c.ImpersonateFirefox()
	case "safari":
		c.ImpersonateSafari()
	}
	if tc.preset != "" {
		// the TLS fingerprint (utls ClientHello) is C12's subject; the loopback origins use the plain stack
		c.Transport.SetTLSHandshake(nil)
	}
	rq := c.R()
	if tc.viaSetters {
		c01ViaSetters(tc.cHdr, func(k, v string) { c.SetCommonHeader(k, v) }, func(k, v string) { c.Headers.Add(k, v) }, func(k, v string) { c.SetCommonHeaderNonCanonical(k, v) })
		for k, vs := range tc.rHdr {
			for i, v := range vs {
				switch {
				case http.CanonicalHeaderKey(k) != k:
					if i == 0 {
						rq.SetHeaderNonCanonical(k, v)
					} else {
						rq.Headers[k] = append(rq.Headers[k], v)
					}
				case i == 0:
					rq.SetHeader(k, v)
				default:
					rq.Headers.Add(k, v)
				}
			}
		}
	} else {
		if c.Headers == nil {
			c.Headers = http.Header{}
		}
		for k, vs := range tc.cHdr { // on top of a preset's header map
			c.Headers[k] = append([]string(nil), vs...)
		}
		rq.Headers = tc.rHdr.Clone()
	}
	if len(tc.cOrder) > 0 {
		c.SetCommonHeaderOrder(tc.cOrder...)
	}
	if len(tc.rOrder) > 0 {
		rq.SetHeaderOrder(tc.rOrder...)
	}
	if tc.pseudo {
		rq.SetPseudoHeaderOrder(":path", ":method", ":scheme", ":authority")
	}
	if len(tc.rCookies) > 0 {
		rq.SetCookies(tc.rCookies...)
	}
	if len(tc.cCookies) > 0 {
		c.SetCommonCookies(tc.cCookies...)
	}
	if tc.body != nil {
		rq.SetBodyBytes(tc.body)
	}
	if strings.HasPrefix(tc.kind, "retry") || tc.kind == "digest-retry" {
		rq.SetRetryCount(3).
			SetRetryInterval(func(*Response, int) time.Duration { return 0 }).
			SetRetryCondition(func(resp *Response, err error) bool { return err == nil && resp != nil && resp.StatusCode == 503 })
	}
	if strings.Contains(tc.kind, "digest") {
		if tc.commonAuth {
			c.SetCommonDigestAuth("roc", "123456")
		} else {
			rq.SetDigestAuth("roc", "123456")
		}
	}
	return c, rq
}

func c16SnapLeg(req *http.Request) c16Leg {
	return c16Leg{method: req.Method, url: req.URL.String(), host: req.Host, header: req.Header.Clone(), cl: req.ContentLength,
		hasBody: req.Body != nil && req.Body != http.NoBody, close: req.Close}
}

// c16Touched: the keys (exact spelling) a mechanism owns.
func c16Touched(kind, key string) bool {
	ck := textproto.CanonicalMIMEHeaderKey(key)
	switch kind {
	case "digest":
		return key == "Authorization"
	case "redir0":
		return key == "Referer"
	case "redir1":
		return key == "Referer" || ck == "Authorization" || ck == "Www-Authenticate" || ck == "Cookie" || ck == "Cookie2"
	}
	return false
}

var c16WriterOwn = map[string]bool{"Host": true, "User-Agent": true, "Content-Length": true, "Transfer-Encoding": true, "Connection": true, "Accept-Encoding": true}

// c16WireLines: the header lines of a captured HTTP/1.1 request, exact spelling.
func c16WireLines(wire []byte) (lines [][2]string) {
	head := wire
	if i := bytes.Index(wire, []byte("\r\n\r\n")); i >= 0 {
		head = wire[:i]
	}
	for _, l := range strings.Split(string(head), "\r\n")[1:] {
		k, v, _ := strings.Cut(l, ": ")
		lines = append(lines, [2]string{k, v})
	}
	return
}

// c16ResendOracle: independent statement of the property for a second send on the HTTP/1.1 wire.
func c16ResendOracle(kind string, first, second []byte, order []string) (bool, string) {
	bag := func(wire []byte) map[string]int {
		m := map[string]int{}
		for _, l := range c16WireLines(wire) {
			if c16WriterOwn[l[0]] || c16Touched(kind, l[0]) {
				continue
			}
			m[l[0]+": "+l[1]]++
		}
		return m
	}
	b1, b2 := bag(first), bag(second)
	for k, n := range b1 {
		if b2[k] != n {
			return false, fmt.Sprintf("header line %q: %d time(s) in the first request, %d in the second", k, n, b2[k])
		}
	}
	for k, n := range b2 {
		if b1[k] != n {
			return false, fmt.Sprintf("header line %q: %d time(s) in the second request, %d in the first", k, n, b1[k])
		}
	}
	last := -1
	for _, l := range c16WireLines(second) {
		if verifh.C16IsBookKey(l[0]) {
			return false, "bookkeeping key on the wire: " + l[0]
		}
		ix := c01OrderIndex(order, l[0])
		if ix < 0 {
			continue
		}
		if ix < last {
			return false, "listed header out of order in the second request: " + l[0]
		}
		last = ix
	}
	return true, ""
}

// TestVerif_C16_resend: second sends over a raw TCP HTTP/1.1 peer (exact bytes of every leg) vs
// the Lean model, plus the independent line-multiset / order oracle.
func TestVerif_C16_resend(t *testing.T) {
	s := c01New(t, "C16", "resend",
		"public API against a raw TCP HTTP/1.1 script peer that records every request byte for byte: kinds {single send, retry after 503 (once, twice), the same *Request sent again, digest auth (401 challenge MD5 / SHA-256 / -sess, credentials on the request or on the client) -> authorized re-send, digest re-send answered 503 and retried, redirect 307 (method + body kept) / 302 (POST becomes GET) inside the domain, redirect to another domain (localhost -> 127.0.0.1: credentials stripped), two redirects in a row} x client-level and request-level headers (0..5 / 0..9 keys drawn from canonical, lower-case, mixed-case and underscore spellings, names differing only in case, 1..3 values, Authorization / authorization / Cookie / Referer / referer / User-Agent / Accept-Encoding / Range / Trailer among them), assigned as maps or registered through SetHeader / SetHeaderNonCanonical / SetCommonHeader..., x order list none / request-level / client-level / both (subset, other case, unknown names, duplicates, writer-owned names) x pseudo-header order x request and client cookies x body none / 1 / 100 / 5000 bytes x compression on/off x keep-alive on/off x a fifth of the clients with an impersonation preset (ImpersonateChrome / Firefox / Safari: preset header map, header order and pseudo-header order, the caller's headers mixed in); the header map of leg 1 is captured at the transport boundary, every leg's bytes are compared with the model rendering of secondHeader(kind, leg-1 header) (exact bytes; in header-order mode request line + line multiset + listed names in wire order + body); oracle: every line not owned by the mechanism or the writer appears in leg k exactly as often and in exactly the spelling of leg 1, no bookkeeping key, listed headers in list order; non-trivial = a second leg was observed")
	log.SetOutput(io.Discard)
	defer log.SetOutput(os.Stderr)
	peer := c16StartScriptPeer(t)
	defer peer.ln.Close()
	_, port, _ := net.SplitHostPort(peer.ln.Addr().String())
	base127 := "http://127.0.0.1:" + port
	baseLocal := "http://localhost:" + port
	kinds := []string{"plain", "retry", "retry", "retry2", "again", "again", "digest", "digest", "digest", "digest-retry", "redir307", "redir307", "redir302", "redir-cross", "redir-cross", "redir-twice"}
	r := s.Rand()
	n := verifh.N(900, 15000)
	for i := 0; i < n; i++ {
		tc := c16GenResend(r, kinds)
		base, base2 := base127, baseLocal
		if tc.kind == "redir-cross" && r.Intn(2) == 0 {
			base, base2 = baseLocal, base127
		}
		script, legKinds, sends := c16Script(tc, base2)
		var legs []c16Leg
		c, rq := c16BuildResend(tc, "h1", func(req *http.Request) { legs = append(legs, c16SnapLeg(req)) })
		peer.reset(script...)
		human := fmt.Sprintf("%s %s %s chdr=%q rhdr=%q setters=%v rorder=%q corder=%q pseudo=%v rcookies=%d ccookies=%d body=%d compression=%v keepalive=%v commonAuth=%v alg=%s preset=%q",
			tc.kind, tc.method, base+tc.path, tc.cHdr, tc.rHdr, tc.viaSetters, tc.rOrder, tc.cOrder, tc.pseudo, len(tc.rCookies), len(tc.cCookies), len(tc.body), tc.compression, tc.keepAlive, tc.commonAuth, tc.alg, tc.preset)
		s.Begin(fmt.Sprintf("resend-%d", i), human)
		var err error
		p, crashed := verifh.Safely(func() {
			for k := 0; k < sends && err == nil; k++ {
				_, err = rq.Send(tc.method, base+tc.path)
			}
		})
		c.GetTransport().CloseIdleConnections()
		if crashed {
			s.Crash(human, human, p, "")
			continue
		}
		wires := peer.take()
		if err != nil || len(wires) != len(legKinds) || len(legs) != len(legKinds) {
			s.Observe(fmt.Sprintf("resend-%d", i), false, "", false, human, fmt.Sprintf("%d requests at the peer, %d at the transport boundary, want %d; err=%v", len(wires), len(legs), len(legKinds), err))
			continue
		}
		s.Count("kind:" + tc.kind)
		order := legs[0].header[HeaderOderKey]
		if len(order) > 0 {
			s.Count("order-mode")
		} else {
			s.Count("plain-mode")
		}
		if tc.viaSetters {
			s.Count("via-setters")
		}
		if tc.preset != "" {
			s.Count("preset:" + tc.preset)
		}
		for k, lk := range legKinds {
			leg := legs[k]
			param := ""
			switch lk {
			case "digest":
				param = leg.header.Get("Authorization") // the credentials are C20's subject: value taken as observed, placement judged
				if !strings.HasPrefix(param, "Digest ") {
					s.Observe(fmt.Sprintf("resend-%d", i), false, "", false, human, "authorized re-send without Digest credentials")
				}
			case "redir0", "redir1":
				param = legs[0].header.Get("Referer")
				if param == "" {
					param = legs[k-1].url
				}
			}
			var body []byte
			if leg.hasBody {
				body = tc.body
			}
			line := "c16resend " + lk + " " + verifh.Hex(param) + " " + c01b(!tc.compression) + " " + c01b(!tc.keepAlive) + " " + verifh.Hex(leg.method) + " " +
				verifh.Hex(leg.url) + " " + verifh.Hex(leg.host) + " " + c01Hdr(legs[0].header) + " " + strconv.FormatInt(leg.cl, 10) + " " + c01b(leg.hasBody) + " " +
				verifh.Hex(string(body)) + " " + c01b(leg.close)
			ans := "ok " + c01Blob(wires[k])
			if len(order) > 0 {
				ans = c01ShowOrdered(wires[k], order)
			}
			ok, why := c16ResendOracle(lk, wires[0], wires[k], order)
			h := fmt.Sprintf("leg %d of %d (%s): %s", k+1, len(legKinds), lk, human)
			if !ok {
				h += " ORACLE: " + why
			}
			if k > 0 {
				s.Count("leg:" + lk)
			}
			s.Case(line, ans, ok, "", k > 0, h)
		}
	}
	s.Need(t, "kind:plain", "kind:retry", "kind:retry2", "kind:again", "kind:digest", "kind:digest-retry", "kind:redir307", "kind:redir302", "kind:redir-cross", "kind:redir-twice",
		"leg:same", "leg:digest", "leg:redir0", "leg:redir1", "order-mode", "plain-mode", "via-setters", "preset:chrome", "preset:firefox", "preset:safari")
	s.Finish()
}

// ---------------------------------------------------------------- HTTP/2 and HTTP/3 origins

// c16ScriptOrigin is an http.Handler that records every request's header map and answers by script.
type c16ScriptOrigin struct {
	mu     sync.Mutex
	seen   []http.Header
	script []func(http.ResponseWriter)
}

func (o *c16ScriptOrigin) ServeHTTP(w http.ResponseWriter, r *http.Request) {
	io.Copy(io.Discard, r.Body)
	o.mu.Lock()
	o.seen = append(o.seen, r.Header.Clone())
	var f func(http.ResponseWriter)
	if len(o.script) > 0 {
		f, o.script = o.script[0], o.script[1:]
	}
	o.mu.Unlock()
	if f != nil {
		f(w)
		return
	}
	w.WriteHeader(200)
}

func (o *c16ScriptOrigin) reset(script ...func(http.ResponseWriter)) {
	o.mu.Lock()
	o.seen, o.script = nil, script
	o.mu.Unlock()
}

func (o *c16ScriptOrigin) take() []http.Header {
	o.mu.Lock()
	defer o.mu.Unlock()
	s := o.seen
	o.seen = nil
	return s
}

// TestVerif_C16_resendh23: the same second sends over HTTP/2 and HTTP/3 origins: the field
// multiset (lower-cased names) of every later leg equals that of the first leg, except for the
// mechanism's own field.
func TestVerif_C16_resendh23(t *testing.T) {
	s := c01New(t, "C16", "resendh23",
		"as lane resend (kinds single, retry, retry twice, sent again, digest, digest + retry, redirect 307 / 302 inside the origin, two redirects) against in-process HTTP/2 (TLS, x/net server) and HTTP/3 (quic-go) origins whose handler records the header map of every request; oracle-judged: for every later leg the multiset of (lower-cased name, value) equals that of leg 1 after removing the mechanism's own field (authorization for digest, referer for a redirect) and the content fields a 302 drops with the body; no bookkeeping key; non-trivial = a second leg was observed")
	log.SetOutput(io.Discard)
	defer log.SetOutput(os.Stderr)
	o2 := &c16ScriptOrigin{}
	s2 := httptest.NewUnstartedServer(o2)
	s2.EnableHTTP2 = true
	s2.StartTLS()
	defer s2.Close()
	o3 := &c16ScriptOrigin{}
	pc, err := net.ListenPacket("udp", "127.0.0.1:0")
	if err != nil {
		t.Fatalf("udp listen: %v", err)
	}
	s3 := &qhttp3.Server{Handler: o3, TLSConfig: qhttp3.ConfigureTLSConfig(&tls.Config{Certificates: s2.TLS.Certificates})}
	go s3.Serve(pc)
	defer func() { s3.Close(); pc.Close() }()
	bases := map[string]string{"h2": s2.URL, "h3": "https://" + pc.LocalAddr().String()}
	origins := map[string]*c16ScriptOrigin{"h2": o2, "h3": o3}
	kinds := []string{"plain", "retry", "retry2", "again", "digest", "digest", "digest-retry", "redir307", "redir302", "redir-twice"}
	r := s.Rand()
	n := verifh.N(260, 4000)
	for i := 0; i < n; i++ {
		proto := verifh.Pick(r, []string{"h2", "h3"})
		tc := c16GenResend(r, kinds)
		tc.keepAlive = true
		// connection-specific names are refused by the HTTP/2 / HTTP/3 writers (noted in notes/C16.md)
		for _, h := range []http.Header{tc.cHdr, tc.rHdr} {
			for k := range h {
				if strings.EqualFold(k, "Te") || strings.EqualFold(k, "Trailer") {
					delete(h, k)
				}
			}
		}
		_, legKinds, sends := c16Script(tc, "")
		chal := c16Challenge + tc.alg
		status := func(code int, k, v string) func(http.ResponseWriter) {
			return func(w http.ResponseWriter) {
				if k != "" {
					w.Header().Set(k, v)
				}
				w.WriteHeader(code)
			}
		}
		var script []func(http.ResponseWriter)
		switch tc.kind {
		case "retry":
			script = append(script, status(503, "", ""))
		case "retry2":
			script = append(script, status(503, "", ""), status(503, "", ""))
		case "digest":
			script = append(script, status(401, "WWW-Authenticate", chal))
		case "digest-retry":
			script = append(script, status(401, "WWW-Authenticate", chal), status(503, "", ""), status(401, "WWW-Authenticate", chal))
		case "redir307":
			script = append(script, status(307, "Location", "/hop2?x=1"))
		case "redir302":
			script = append(script, status(302, "Location", "/hop2"))
		case "redir-twice":
			script = append(script, status(307, "Location", "/hop2"), status(308, "Location", "/hop3"))
		}
		o := origins[proto]
		o.reset(script...)
		c, rq := c16BuildResend(tc, proto, func(*http.Request) {})
		human := fmt.Sprintf("%s %s %s %s chdr=%q rhdr=%q setters=%v rorder=%q corder=%q pseudo=%v rcookies=%d ccookies=%d body=%d commonAuth=%v alg=%s preset=%q",
			proto, tc.kind, tc.method, tc.path, tc.cHdr, tc.rHdr, tc.viaSetters, tc.rOrder, tc.cOrder, tc.pseudo, len(tc.rCookies), len(tc.cCookies), len(tc.body), tc.commonAuth, tc.alg, tc.preset)
		id := fmt.Sprintf("resendh23-%d", i)
		s.Begin(id, human)
		var err error
		p, crashed := verifh.Safely(func() {
			for k := 0; k < sends && err == nil; k++ {
				_, err = rq.Send(tc.method, bases[proto]+tc.path)
			}
		})
		c.GetTransport().CloseIdleConnections()
		if crashed {
			s.Crash(human, human, p, "")
			continue
		}
		seen := o.take()
		if err != nil || len(seen) != len(legKinds) {
			s.Observe(id, false, "", false, human, fmt.Sprintf("%d requests at the origin, want %d; err=%v", len(seen), len(legKinds), err))
			continue
		}
		s.Count(proto + ":" + tc.kind)
		for k := 1; k < len(legKinds); k++ {
			lk := legKinds[k]
			bag := func(h http.Header) []string {
				var out []string
				for name, vs := range h {
					ln := strings.ToLower(name)
					if (lk == "digest" && ln == "authorization") || (strings.HasPrefix(lk, "redir") && ln == "referer") {
						continue
					}
					if tc.kind == "redir302" && (ln == "content-length" || ln == "accept-encoding") {
						continue
					}
					for _, v := range vs {
						out = append(out, ln+": "+v)
					}
				}
				sort.Strings(out)
				return out
			}
			b1, b2 := bag(seen[0]), bag(seen[k])
			ok := strings.Join(b1, "\n") == strings.Join(b2, "\n")
			why := ""
			if !ok {
				why = fmt.Sprintf("field multiset of leg %d (%s) differs from leg 1:\n leg 1: %q\n leg %d: %q", k+1, lk, b1, k+1, b2)
			}
			for name := range seen[k] {
				if verifh.C16IsBookKey(name) {
					ok, why = false, "bookkeeping key on the wire: "+name
				}
			}
			s.Count("leg:" + lk)
			s.Observe(fmt.Sprintf("%s leg %d", id, k+1), ok, "", true, fmt.Sprintf("leg %d of %d (%s): %s", k+1, len(legKinds), lk, human), why)
		}
	}
	s.Need(t, "h2:retry", "h3:retry", "h2:digest", "h3:digest", "h2:again", "h3:again", "h2:redir307", "h3:redir307", "leg:same", "leg:digest", "leg:redir0")
	s.Finish()
}
