//go:build verif

package req

// C07 round 4 — byte-position matrix over the wire for HTTP/2 and HTTP/3: header names and values
// after HPACK / QPACK, pseudo-header values, and one byte inserted at the offsets of the header
// values the upper layers parse (Content-Type charset, Content-Encoding, Content-Length, Location,
// Set-Cookie, WWW-Authenticate, Alt-Svc, Trailer), through the real client with the option sets
// that react to them. Oracle: response-or-error, no panic in the caller; background panics kill the
// lane process (bin/check reports the running case).

import (
	"bytes"
	"fmt"
	"io"
	"strconv"
	"strings"
	"testing"
	"time"

	"github.com/imroc/req/v3/internal/verifh"
)

type c07FieldCase struct {
	human  string
	fields [][2]string
	body   string
	opts   []string
}

// c07FieldMatrix: the (position, byte) cases shared by the HTTP/2 and HTTP/3 wire lanes.
func c07FieldMatrix() []c07FieldCase {
	var out []c07FieldCase
	all := c07ByteSet(true)
	strat := c07ByteSet(false) // the stratified set in both tiers (thorough: every position, every (offset, byte) pair, every reacting option set)
	gb := "<html><head><meta charset=\"gbk\"></head>\xc4\xe3\xba\xc3</html>"
	add := func(h string, fields [][2]string, body string, opts ...string) {
		out = append(out, c07FieldCase{h, fields, body, opts})
	}
	st := [2]string{":status", "200"}
	k := int(verifh.Seed())
	for _, b := range all {
		s := string([]byte{b})
		add(fmt.Sprintf("name-mid byte 0x%02x", b), [][2]string{st, {"x-" + s + "name", "v"}}, "hello", "plain", "dump")
		add(fmt.Sprintf("name-only byte 0x%02x", b), [][2]string{st, {s, "v"}}, "hello", "plain", "everything")
	}
	for _, b := range strat {
		s := string([]byte{b})
		k++
		if !verifh.Thorough() && k%2 == 0 {
			continue
		}
		add(fmt.Sprintf("pseudo-name byte 0x%02x", b), [][2]string{{":" + s, "v"}, st}, "hello", "plain")
		add(fmt.Sprintf("value-mid byte 0x%02x", b), [][2]string{st, {"x-name", "a" + s + "c"}}, "hello", "plain", "dump")
		add(fmt.Sprintf("status-first byte 0x%02x", b), [][2]string{{":status", s + "00"}}, "hello", "plain")
		add(fmt.Sprintf("status-last byte 0x%02x", b), [][2]string{{":status", "20" + s}}, "hello", "everything")
		add(fmt.Sprintf("status-extra byte 0x%02x", b), [][2]string{{":status", "200" + s}}, "hello", "plain")
		add(fmt.Sprintf("content-length byte 0x%02x", b), [][2]string{st, {"content-length", s + "5"}}, "hello", "plain", "result")
	}
	type hv struct {
		name, value, status, body string
		opts                      []string
	}
	for _, h := range []hv{
		{"content-type", "text/html; charset=gbk", "200", gb, []string{"plain", "autodecode-all", "everything"}},
		{"content-encoding", "gzip", "200", "\x00gz", []string{"autodecompress", "everything", "plain"}},
		{"location", "/default?x=1", "302", "", []string{"plain", "everything"}},
		{"set-cookie", "sid=abc; Path=/; Max-Age=10; HttpOnly", "200", "hello", []string{"plain", "everything"}},
		{"www-authenticate", "Digest realm=\"r\", nonce=\"n\", qop=\"auth\", algorithm=MD5", "401", "no", []string{"digest", "everything"}},
		{"alt-svc", "h3=\":443\"; ma=60", "200", "hello", []string{"plain"}},
		{"trailer", "x-t, y-t", "200", "hello", []string{"plain", "dump"}},
	} {
		thin := 1
		if !verifh.Thorough() {
			thin = (len(h.value)+1)*len(strat)/60 + 1
		}
		for off := 0; off <= len(h.value); off++ {
			for _, b := range strat {
				k++
				if (k+off)%thin != 0 {
					continue
				}
				v := h.value[:off] + string([]byte{b}) + h.value[off:]
				body := h.body
				if body == "\x00gz" {
					body = string(c07Gzip([]byte("hello hello hello")))
				}
				os := h.opts
				if !verifh.Thorough() {
					os = []string{h.opts[(k/thin)%len(h.opts)]}
				}
				add(fmt.Sprintf("%s: byte 0x%02x inserted at offset %d -> %q", h.name, b, off, v), [][2]string{{":status", h.status}, {h.name, v}}, body, os...)
			}
		}
		// round 5: case variants of the value (whole value and each alphabetic run), every reacting option set
		for _, v := range c07CaseVariants(h.value) {
			body := h.body
			if body == "\x00gz" {
				body = string(c07Gzip([]byte("hello hello hello")))
			}
			add(fmt.Sprintf("%s: case-variant %q of %q", h.name, v, h.value), [][2]string{{":status", h.status}, {h.name, v}}, body, h.opts...)
		}
	}
	return out
}

func c07WireRun(s *verifh.Session, idPrefix string, clients []*Client, opts []c07Opt, mk func(int), oi int, url string, id, human string, dir string, seq int) bool {
	s.Begin(id, human)
	ch := make(chan [2]string, 1)
	go func() {
		kind := ""
		ptxt, panicked := verifh.Safely(func() {
			r := clients[oi].R()
			if opts[oi].req != nil {
				opts[oi].req(r, dir, seq)
			}
			rp, err := r.Get(url)
			switch {
			case rp == nil:
				kind = "nil-response"
			case err != nil:
				kind = "error"
			default:
				kind = "response"
				if rp.Response != nil && rp.Body != nil {
					io.Copy(io.Discard, rp.Body)
					rp.Body.Close()
				}
				_ = rp.String()
			}
		})
		if panicked {
			ch <- [2]string{"panic", ptxt}
			return
		}
		ch <- [2]string{kind, ""}
	}()
	select {
	case res := <-ch:
		s.Count(res[0])
		switch res[0] {
		case "panic":
			s.Crash(id, human, "panic in caller goroutine: "+res[1], "")
		case "nil-response":
			s.Observe(id, false, "", true, human, "call returned a nil *Response")
		default:
			s.Observe(id, true, "", true, human, "")
		}
		return true
	case <-time.After(c07Watchdog(opts[oi].name)):
		s.Count("wedged")
		s.Observe(id, false, "", true, human, "call did not return within the watchdog bound although the client timeout is 10 s per attempt")
		mk(oi)
		return false
	}
}

func TestVerif_C07_h2wire(t *testing.T) {
	s := verifh.New(t, "C07", "h2wire",
		"byte-position matrix over HTTP/2 (prior knowledge, frame-script peer, HPACK): all 256 byte values in the middle of / as a regular field name; stratified byte values (all controls, DEL, UTF-8 class edges, delimiters, digit/alpha edges + a seed-dependent eighth; thorough: all) in a pseudo-header name, a field value, :status first/last/extra digit, content-length; one byte inserted at the offsets of content-type (charset), content-encoding, location, set-cookie, www-authenticate (digest), alt-svc, trailer values under the option sets that react, and case variants of those values (whole value upper / lower / swapped, each alphabetic run alone); oracle: the call returns response-or-error, no panic; every case non-trivial")
	peer := newC07H2Peer(t)
	defer peer.closeAll()
	base := "http://" + peer.ln.Addr().String()
	dir := t.TempDir()
	opts := c07Options()
	byName := map[string]int{}
	clients := make([]*Client, len(opts))
	mk := func(i int) {
		c := C().SetTimeout(10 * time.Second).EnableH2C().EnableForceHTTP2().SetLogger(nil)
		opts[i].setup(c)
		c.SetCommonRetryCount(0)
		clients[i] = c
	}
	for i := range opts {
		byName[opts[i].name] = i
		mk(i)
	}
	wedges := 0
	seq := 0
	for _, fc := range c07FieldMatrix() {
		for _, on := range fc.opts {
			if wedges >= 3 {
				break
			}
			seq++
			var out bytes.Buffer
			out.Write(c07Frame{-1, 4, 0, 0, nil}.bytes())
			if fc.body == "" {
				out.Write(c07Frame{-1, 1, 0x5, 1, c07Hpack(fc.fields...)}.bytes())
			} else {
				out.Write(c07Frame{-1, 1, 0x4, 1, c07Hpack(fc.fields...)}.bytes())
				out.Write(c07Frame{-1, 0, 1, 1, []byte(fc.body)}.bytes())
			}
			path := "/w" + strconv.Itoa(seq)
			peer.set(path, c07Script{data: out.Bytes()})
			oi := byName[on]
			s.Count("pos:" + strings.SplitN(fc.human, " ", 2)[0])
			if !c07WireRun(s, "h2wire", clients, opts, mk, oi, base+path, "h2wire:"+on+":"+verifh.Hex(out.String()), "HTTP/2 opt="+on+" "+fc.human, dir, seq) {
				wedges++
			}
			// the script peer serves one request per connection
			clients[oi].GetTransport().CloseIdleConnections()
			peer.mu.Lock()
			delete(peer.scripts, path)
			peer.mu.Unlock()
		}
	}
	peer.closeAll()
	stuck, where := c07StuckLoops("http2.(*ClientConn).readLoop", "http2.(*clientStream).doRequest")
	s.Observe("stuck-h2-loops", stuck == 0, "", true, fmt.Sprintf("HTTP/2 goroutines still alive after every connection was closed: %d", stuck),
		fmt.Sprintf("%d HTTP/2 read-loop / request goroutines are stuck after every connection was closed, e.g.:\n%s", stuck, where))
	s.Finish()
}

func TestVerif_C07_h3wire(t *testing.T) {
	s := verifh.New(t, "C07", "h3wire",
		"byte-position matrix over HTTP/3 (raw QUIC peer, QPACK): the same (position, byte) cases as h2wire on one long-lived connection per option set; oracle: the call returns response-or-error, no panic; a follow-up request per client; every case non-trivial")
	probe := C().EnableForceHTTP3()
	if probe.t3 == nil {
		t.Fatalf("HTTP/3 not available on this toolchain: no tests to run")
	}
	peer := newC07H3Peer(t)
	defer peer.closeAll()
	base := "https://" + peer.ln.Addr().String()
	dir := t.TempDir()
	opts := c07Options()
	byName := map[string]int{}
	clients := make([]*Client, len(opts))
	mk := func(i int) {
		if old := clients[i]; old != nil {
			old.GetTransport().CloseIdleConnections()
			old.DisableDumpAll()
			if old.t3 != nil {
				old.t3.Close()
			}
		}
		c := C().SetTimeout(10 * time.Second).EnableForceHTTP3().EnableInsecureSkipVerify().SetLogger(nil)
		opts[i].setup(c)
		c.SetCommonRetryCount(0)
		clients[i] = c
	}
	for i := range opts {
		byName[opts[i].name] = i
		mk(i)
	}
	wedges := 0
	seq := 0
	for _, fc := range c07FieldMatrix() {
		for _, on := range fc.opts {
			if wedges >= 3 {
				break
			}
			seq++
			var out bytes.Buffer
			out.Write(c07H3Frame(0x1, c07Qpack(fc.fields...)))
			if fc.body != "" {
				out.Write(c07H3Frame(0x0, []byte(fc.body)))
			}
			path := "/w" + strconv.Itoa(seq)
			peer.set(path, c07H3Script{response: out.Bytes(), reset: -1, control: []byte{0x00, 0x04, 0x00}})
			oi := byName[on]
			s.Count("pos:" + strings.SplitN(fc.human, " ", 2)[0])
			if !c07WireRun(s, "h3wire", clients, opts, mk, oi, base+path, "h3wire:"+on+":"+verifh.Hex(out.String()), "HTTP/3 opt="+on+" "+fc.human, dir, seq) {
				wedges++
			}
			peer.mu.Lock()
			delete(peer.scripts, path)
			peer.mu.Unlock()
		}
	}
	for i := range clients {
		if wedges > 0 {
			break
		}
		ok := false
		var err error
		for try := 0; try < 3 && !ok; try++ {
			r := clients[i].R()
			if opts[i].req != nil {
				opts[i].req(r, dir, 1<<30)
			}
			var rp *Response
			rp, err = r.Get(base + "/default")
			ok = err == nil && rp != nil && rp.StatusCode == 200
		}
		s.Observe("followup:"+opts[i].name, ok, "", true, "follow-up request on client "+opts[i].name, fmt.Sprintf("HTTP/3 client unusable after the matrix: %v", err))
	}
	for _, c := range clients {
		c.GetTransport().CloseIdleConnections()
		if c.t3 != nil {
			c.t3.Close()
		}
	}
	s.Finish()
}
