//go:build verif

package req

import (
	"fmt"
	"net"
	"testing"
	"time"
)

func TestVerifScratch_C12(t *testing.T) {
	pki := c12GetPKI()
	o, err := c12StartOrigin(c12Offer{alpn: []string{"h2", "http/1.1"}, h3: true, altSvc: true})
	if err != nil {
		t.Fatal(err)
	}
	defer o.close()
	try := func(name string, c *Client, n int) {
		for i := 0; i < n; i++ {
			resp, err := c.R().Get(o.url("https", "/"+name))
			if err != nil {
				t.Logf("%s #%d: err kind=%s %v", name, i, c12ErrKind(err), err)
			} else {
				t.Logf("%s #%d: proto=%s origin=%s sni=%q", name, i, resp.Proto, resp.Header.Get("X-Origin-Proto"), resp.Header.Get("X-Origin-Sni"))
			}
			time.Sleep(150 * time.Millisecond)
		}
	}
	try("none-root", C().SetRootCertFromString(pki.cas[0].pem), 1)
	try("f1-root", C().SetRootCertFromString(pki.cas[0].pem).EnableForceHTTP1(), 1)
	try("f2-root", C().SetRootCertFromString(pki.cas[0].pem).EnableForceHTTP2(), 1)
	try("f3-root", C().SetRootCertFromString(pki.cas[0].pem).EnableForceHTTP3(), 1)
	try("f3-insecure", C().EnableInsecureSkipVerify().EnableForceHTTP3(), 1)
	try("f3-noroot", C().EnableForceHTTP3(), 1)
	try("f1-noroot", C().EnableForceHTTP1(), 1)
	// alt-svc then forced h1
	try("h3on-f1-insecure", C().EnableInsecureSkipVerify().EnableHTTP3().EnableForceHTTP1(), 3)
	try("h3on-f2-insecure", C().EnableInsecureSkipVerify().EnableHTTP3().EnableForceHTTP2(), 3)
	try("h3on-none-insecure", C().EnableInsecureSkipVerify().EnableHTTP3(), 3)
}

func TestVerifScratch_C12b(t *testing.T) {
	pki := c12GetPKI()
	_ = pki
	// plain http origin advertising alt-svc for a port where an h3 listener exists
	o, err := c12StartOrigin(c12Offer{alpn: []string{"h2", "http/1.1"}, h3: true, altSvc: true})
	if err != nil {
		t.Fatal(err)
	}
	defer o.close()
	try := func(name string, c *Client, url string, n int) {
		for i := 0; i < n; i++ {
			resp, err := c.R().Get(url)
			if err != nil {
				t.Logf("%s #%d: err kind=%s %v", name, i, c12ErrKind(err), err)
			} else {
				t.Logf("%s #%d: proto=%s origin=%s sni=%q", name, i, resp.Proto, resp.Header.Get("X-Origin-Proto"), resp.Header.Get("X-Origin-Sni"))
			}
			time.Sleep(150 * time.Millisecond)
		}
	}
	try("h3on-f1", C().EnableInsecureSkipVerify().EnableHTTP3().EnableForceHTTP1(), o.url("https", "/a"), 3)
	try("h3on-f2", C().EnableInsecureSkipVerify().EnableHTTP3().EnableForceHTTP2(), o.url("https", "/a"), 3)
	// plain
	p, err := c12StartOrigin(c12Offer{plain: true})
	if err != nil {
		t.Fatal(err)
	}
	defer p.close()
	p.offer.altSvc = true
	p.port = o.port // advertise the h3 port of o (hack: handler reads o.port)
	realPort := p.tcpLn.Addr().(*net.TCPAddr).Port
	try("plain-h3on", C().EnableInsecureSkipVerify().EnableHTTP3(), fmt.Sprintf("http://127.0.0.1:%d/x", realPort), 3)
	// h2c
	q, _ := c12StartOrigin(c12Offer{plain: true, plainH2: true})
	defer q.close()
	try("h2c-f2", C().EnableH2C().EnableForceHTTP2(), q.url("http", "/x"), 2)
	try("h2c-nof", C().EnableH2C(), q.url("http", "/x"), 1)
	try("h2c-f2-clone", C().EnableH2C().EnableForceHTTP2().Clone(), q.url("http", "/x"), 1)
	try("h2c-f2-https", C().EnableH2C().EnableForceHTTP2().EnableInsecureSkipVerify(), o.url("https", "/x"), 1)
	try("h2c-nof-https", C().EnableH2C().EnableInsecureSkipVerify(), o.url("https", "/x"), 1)
}
