//go:build verif

package req

import (
	"bytes"
	"errors"
	"fmt"
	"io"
	"math/rand"
	"mime"
	"strconv"
	"testing"
	"time"

	"github.com/imroc/req/v3/internal/verifh"
)

// ---- files given by a READER: scripts of reads -------------------------------------------------

var errC17ReadScript = errors.New("scripted read error")

// one element of a read script: what a Read call returns when it has unlimited room
type c17ScriptRead struct {
	kind int // 0: bytes, nil   1: bytes, io.EOF   2: bytes, another error
	data []byte
}

// c17FileScriptReader plays a script. Offered less room than the current element has, it returns what
// fits and keeps the rest (with the element's final condition) for the next call; after the
// script it returns (0, io.EOF). It records what the FIRST call was offered and got.
type c17FileScriptReader struct {
	script   []c17ScriptRead
	i        int
	calls    int
	firstCap int
	firstN   int
	closed   bool
}

func (s *c17FileScriptReader) Read(p []byte) (int, error) {
	s.calls++
	if s.i >= len(s.script) {
		if s.calls == 1 {
			s.firstCap = len(p)
		}
		return 0, io.EOF
	}
	cur := &s.script[s.i]
	n := copy(p, cur.data)
	if s.calls == 1 {
		s.firstCap, s.firstN = len(p), n
	}
	if n < len(cur.data) {
		cur.data = cur.data[n:]
		return n, nil
	}
	s.i++
	switch cur.kind {
	case 0:
		return n, nil
	case 1:
		return n, io.EOF
	}
	return n, errC17ReadScript
}

func (s *c17FileScriptReader) Close() error { s.closed = true; return nil }

// c17GenScript cuts content into reads of sizes around the 512-byte sniffing buffer and the
// 32 KiB copy buffer (empty reads included), ends it with io.EOF attached to the last bytes /
// alone / implicitly, and — when withError — puts an error at a random point (first read
// included, with or without bytes) and drops what follows. clean = no error before the end.
func c17GenScript(r *rand.Rand, content []byte, withError bool) (script []c17ScriptRead, clean bool) {
	rest := content
	for len(rest) > 0 {
		n := verifh.Pick(r, []int{0, 1, 2, 3, 4, 5, 7, 8, 9, 100, 511, 512, 513, 600, 4096, 32767, 32768, 32769, 40000, len(rest), len(rest)})
		if n > len(rest) {
			n = len(rest)
		}
		script = append(script, c17ScriptRead{0, rest[:n]})
		rest = rest[n:]
		if len(script) > 40 {
			script = append(script, c17ScriptRead{0, rest})
			rest = nil
		}
	}
	switch r.Intn(3) {
	case 0: // io.EOF comes with the last bytes
		if len(script) > 0 {
			script[len(script)-1].kind = 1
		}
	case 1: // io.EOF alone
		script = append(script, c17ScriptRead{1, nil})
	}
	if withError && r.Intn(12) != 0 {
		at := 0
		if len(script) > 0 {
			at = r.Intn(len(script) + 1)
			if r.Intn(4) == 0 {
				at = 0
			}
		}
		var keep []byte
		if at < len(script) && r.Intn(2) == 0 {
			keep = script[at].data
		}
		if at < len(script) && script[at].kind == 1 && len(keep) == len(script[at].data) && r.Intn(2) == 0 {
			// the error comes AFTER a clean end: harmless, the file is complete
			script = append(script[:at+1], c17ScriptRead{2, nil})
		} else {
			script = append(script[:at:at], c17ScriptRead{2, keep})
		}
	}
	// the oracle's own reading of the script: clean = no error before the first io.EOF
	clean = true
	for _, e := range script {
		if e.kind == 1 {
			break
		}
		if e.kind == 2 {
			clean = false
			break
		}
	}
	return script, clean
}

func c17ScriptLine(opens bool, script []c17ScriptRead) string {
	kinds := make([]int, len(script))
	chunks := make([]string, len(script))
	for i, e := range script {
		kinds[i], chunks[i] = e.kind, string(e.data)
	}
	op := "0"
	if opens {
		op = "1"
	}
	return "c17reader " + op + " " + verifh.IntList(kinds) + " " + verifh.HexList(chunks)
}

func c17CopyScript(script []c17ScriptRead) []c17ScriptRead {
	out := make([]c17ScriptRead, len(script))
	for i, e := range script {
		out[i] = c17ScriptRead{e.kind, append([]byte(nil), e.data...)}
	}
	return out
}

// c17SigContent: file bytes whose sniffed type depends on how many leading bytes are looked at.
func c17SigContent(r *rand.Rand, boundary string) []byte {
	size := verifh.Pick(r, []int{0, 1, 3, 5, 8, 20, 511, 512, 513, 1000, 5000, 33000, 70000})
	b := c17Content(r, true, boundary)
	for len(b) < size {
		b = append(b, c17Content(r, true, boundary)...)
	}
	b = append([]byte(nil), b[:size]...)
	sig := verifh.Pick(r, []string{"%PDF-1.4 ", "\x89PNG\r\n\x1a\n", "<html><body>", "GIF89a", "{\"json\": 1}", "plain text ", "\xff\xd8\xff", "PK\x03\x04", ""})
	copy(b, sig)
	d := []byte("\r\n--" + boundary)
	for {
		i := bytes.Index(append([]byte("\r\n"), b...), d)
		if i < 0 {
			break
		}
		if i >= 2 {
			b[i-2] = 'x'
		} else {
			b[0] = 'x'
		}
	}
	return b
}

// TestVerif_C17_mpreader: the real writeMultipartFormFile (through parseRequestBody, buffered
// and streamed) on scripted readers vs the model Req.Client.UploadReader.
func TestVerif_C17_mpreader(t *testing.T) {
	s := verifh.New(t, "C17", "mpreader",
		"a multipart request with one field, a FileUpload whose content function returns a SCRIPTED reader (or fails, 1/12 of the error cases), and a second ordinary file; the script cuts 0 B … 70 KB of content (PDF / PNG / HTML / GIF / JSON / JPEG / ZIP signatures, text, binary) into reads of 0,1,2,3,4,5,7,8,9,100,511,512,513,600,4096,32767..32769,40000 bytes or all the rest, io.EOF with the last bytes / alone / implicit; in 1/3 an error at a random read (first included, with or without bytes; after a clean EOF = harmless); content type given or sniffed, FileSize known or not; buffered and streamed (forced chunked). Model: `err` or the bytes of the first read (at most 512: what is sniffed) and the part content; the first-read length on the Go side is what the reader's first Read call returned, accepted only when the part's Content-Type is what DetectContentType gives for that prefix zero-padded to 512. Oracle: clean script ⇒ part content = file bytes and the following file intact; an error before the end ⇒ the call fails. non-trivial = at least two reads")
	r := s.Rand()
	n := verifh.N(600, 20000)
	for i := 0; i < n; i++ {
		b := verifh.Pick(r, []string{"B", "xYz123", "----WebKitFormBoundary7MA4YWxkTrZu0gW"})
		c := C().SetMultipartBoundaryFunc(func() string { return b })
		req := c.R()
		req.Method = "POST"
		content := c17SigContent(r, b)
		withError := r.Intn(3) == 0
		script, clean := c17GenScript(r, content, withError)
		opens := !(withError && clean && r.Intn(2) == 0)
		if !opens {
			clean = false
		}
		line := c17ScriptLine(opens, script)
		rd := &c17FileScriptReader{script: c17CopyScript(script)}
		givenCT := ""
		if r.Intn(4) == 0 {
			givenCT = verifh.Pick(r, c17CTs)
		}
		up := FileUpload{ParamName: "f", FileName: "x.bin", ContentType: givenCT,
			GetFileContent: func() (io.ReadCloser, error) {
				if !opens {
					return nil, errC17ReadScript
				}
				return rd, nil
			}}
		if r.Intn(2) == 0 {
			up.FileSize = int64(len(content))
		}
		other := c17Pattern(1+r.Intn(900), i)
		req.SetFormData(map[string]string{"k": "v" + strconv.Itoa(i)}).SetFileUpload(up).SetFileBytes("g", "other.bin", other)
		chunked := r.Intn(2) == 0
		if chunked {
			req.EnableForceChunkedEncoding()
			s.Count("streamed")
		} else {
			s.Count("buffered")
		}
		var failed bool
		var body []byte
		if txt, bad := verifh.Safely(func() {
			failed, body, _ = c17RunBodyMiddleware(c, req)
			if !failed && chunked && req.GetBody != nil {
				rc, _ := req.GetBody()
				var rerr error
				if body, rerr = io.ReadAll(rc); rerr != nil {
					failed, body = true, nil
				}
			}
		}); bad {
			s.Crash(line, "scripted reader", txt, "")
			continue
		}
		impl := "err"
		ok := failed == !clean
		if !failed {
			items, ierr := c17ServerItems(b, body)
			if ierr != nil || len(items) != 3 || !items[1].file || items[1].name != "f" || !items[2].file || items[2].content != string(other) || items[0].value != "v"+strconv.Itoa(i) {
				impl = fmt.Sprintf("unparsable err=%v items=%d", ierr, len(items))
				ok = false
			} else {
				got := items[1]
				first := rd.firstN
				wantCT := givenCT
				if wantCT == "" && first <= len(got.content) {
					wantCT = c17Sniff([]byte(got.content[:first]))
				}
				if got.ct != wantCT {
					impl = fmt.Sprintf("content-type %q is not what sniffing the first read (%d bytes of room %d) gives (%q)", got.ct, first, rd.firstCap, wantCT)
					ok = false
				} else {
					impl = "ok " + strconv.Itoa(first) + " " + verifh.Hex(got.content)
				}
				if got.content != string(content) && clean {
					ok = false
				}
			}
		}
		class := ""
		if !clean {
			class = "c17-upload-read-error"
			s.Count("error-script")
			if !opens {
				s.Count("open-fails")
			}
		} else {
			s.Count("clean-script")
		}
		switch {
		case len(script) > 0 && len(script[0].data) < 512 && len(content) > len(script[0].data):
			s.Count("first-read-short")
		case len(script) > 0 && len(script[0].data) > 512:
			s.Count("first-read-longer-than-sniff-buffer")
		}
		s.Case(line, impl, ok, class, len(script) >= 2,
			fmt.Sprintf("opens=%v reads=%s content=%dB ct=%q size-known=%v streamed=%v -> failed=%v %s", opens, c17DescribeScript(script), len(content), givenCT, up.FileSize > 0, chunked, failed, c17Trunc(impl, 80)))
	}
	s.Finish()
}

func c17DescribeScript(script []c17ScriptRead) string {
	var sb bytes.Buffer
	for i, e := range script {
		if i >= 12 {
			fmt.Fprintf(&sb, " …(%d reads)", len(script))
			break
		}
		fmt.Fprintf(&sb, " %d%s", len(e.data), []string{"", "+EOF", "+ERR"}[e.kind])
	}
	return sb.String()
}

// TestVerif_C17_e2ereader: the same scripted readers through the whole client to an origin, on
// the three protocols: a clean script arrives exactly; a failing one fails the call, and the
// origin never holds a complete, well-formed form with a shortened file.
func TestVerif_C17_e2ereader(t *testing.T) {
	s := verifh.New(t, "C17", "e2ereader",
		"scripted-reader uploads (generator of lane mpreader; error scripts in 1/2) sent with the real client over HTTP/1.1, HTTP/2 and HTTP/3, buffered and streamed (forced chunked / upload callback); oracle: clean script ⇒ status 200 and the origin's standard parser holds exactly the file bytes; error script ⇒ the call returns an error and the origin has NOT read a complete multipart body (no request, or a body read error, or an unterminated form); non-trivial = at least two reads")
	r := s.Rand()
	origins := map[string]*c17Origin{}
	for _, p := range []string{"h1", "h2", "h3"} {
		origins[p] = c17NewOrigin(p)
		defer origins[p].stop()
	}
	n := verifh.N(45, 1500)
	for i := 0; i < n; i++ {
		proto := []string{"h1", "h2", "h3"}[i%3]
		o := origins[proto]
		c := c17Client(proto)
		c.SetTimeout(15 * time.Second)
		content := c17SigContent(r, "zzzzzzzzzzzzzzzzzzzzzzzzzzzzzzzzzzzzzzzzzzzzzzzzzzzzzzzzzzzzzzzzzzzzzz")
		withError := r.Intn(2) == 0
		script, clean := c17GenScript(r, content, withError)
		opens := !(withError && clean && r.Intn(2) == 0)
		if !opens {
			clean = false
		}
		rd := &c17FileScriptReader{script: c17CopyScript(script)}
		up := FileUpload{ParamName: "f", FileName: "x.bin",
			GetFileContent: func() (io.ReadCloser, error) {
				if !opens {
					return nil, errC17ReadScript
				}
				return rd, nil
			}}
		req := c.R().SetFormData(map[string]string{"k": "v"}).SetFileUpload(up)
		mode := verifh.Pick(r, []string{"buffered", "chunked", "callback"})
		switch mode {
		case "chunked":
			req.EnableForceChunkedEncoding()
		case "callback":
			req.SetUploadCallbackWithInterval(func(UploadInfo) {}, time.Hour)
		}
		o.take()
		path := "/r/" + strconv.Itoa(i)
		resp, err := req.Post(o.base + path)
		if !clean {
			time.Sleep(5 * time.Millisecond) // let the origin finish with the broken request
		}
		var seen []c17Seen
		for _, sn := range o.take() { // (a broken request of an earlier case may be recorded late)
			if sn.Path == path {
				seen = append(seen, sn)
			}
		}
		ok := true
		detail := ""
		if clean {
			if err != nil || resp.StatusCode != 200 || len(seen) != 1 {
				ok = false
				detail = fmt.Sprintf("err=%v requests=%d", err, len(seen))
			} else {
				_, params, _ := mime.ParseMediaType(seen[0].Header.Get("Content-Type"))
				items, ierr := c17ServerItems(params["boundary"], seen[0].Body)
				if ierr != nil || len(items) != 2 || items[1].content != string(content) || seen[0].BodyErr != nil {
					ok = false
					detail = fmt.Sprintf("parse err=%v items=%d body-err=%v", ierr, len(items), seen[0].BodyErr)
					if len(items) == 2 {
						detail += fmt.Sprintf(" file %d of %d bytes", len(items[1].content), len(content))
					}
				}
			}
		} else {
			if err == nil {
				ok = false
				detail = "the call succeeded"
				if len(seen) == 1 {
					_, params, _ := mime.ParseMediaType(seen[0].Header.Get("Content-Type"))
					items, ierr := c17ServerItems(params["boundary"], seen[0].Body)
					detail += fmt.Sprintf("; the origin parsed %d items (err=%v)", len(items), ierr)
					if len(items) == 2 {
						detail += fmt.Sprintf(", file with %d of %d bytes", len(items[1].content), len(content))
					}
				}
			}
			for _, sn := range seen {
				if sn.BodyErr == nil {
					_, params, _ := mime.ParseMediaType(sn.Header.Get("Content-Type"))
					if _, ierr := c17ServerItems(params["boundary"], sn.Body); ierr == nil {
						ok = false
						detail += "; the origin read a complete, well-formed form"
					}
				}
			}
		}
		class := ""
		if !clean {
			class = "c17-upload-read-error"
			if proto == "h3" && mode != "buffered" && opens {
				// HTTP/3 has a second hole: the streamed body's read error is only logged
				class = "c17-h3-upload-read-error"
			}
			s.Count("error-script")
		} else {
			s.Count("clean-script")
		}
		s.Count(proto)
		s.Count(mode)
		s.Observe(fmt.Sprintf("e2ereader-%d-%s-%s", i, proto, mode), ok, class, len(script) >= 2,
			fmt.Sprintf("%s %s opens=%v reads=%s content=%dB -> err=%v %s", proto, mode, opens, c17DescribeScript(script), len(content), err, detail), detail)
		c17Done(c)
	}
	s.Finish()
}
