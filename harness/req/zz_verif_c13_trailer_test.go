//go:build verif

package req

import (
	"context"
	"fmt"
	"io"
	"net/http"
	"sort"
	"strings"
	"testing"
	"time"

	"github.com/imroc/req/v3/internal/dump"
	"github.com/imroc/req/v3/internal/verifh"
)

// ================================================================= lane trailer: request trailers
//
// req's Client never sets http.Request.Trailer, but its Transport is a public http.RoundTripper:
// requests with trailers reach the HTTP/1.1 and HTTP/2 writers through Transport.RoundTrip. What
// the stacks do with them (HTTP/3 does not send request trailers at all):
//   * HTTP/1.1: the trailer section is the tail of the chunked body: it passes through the
//     request-BODY dump wrapper (like the final CRLF), after `0 CRLF`;
//   * HTTP/2: the trailer block is a header block: its fields are dumped as header lines, to the
//     dumpers with RequestHeader() (fixes/C13-7; the pinned tree handed them to the
//     request-header writer of the dumpers with RequestBody()).

type c13TrailerBody struct {
	pieces []string
	i      int
}

func (b *c13TrailerBody) Read(p []byte) (int, error) {
	if b.i >= len(b.pieces) {
		return 0, io.EOF
	}
	n := copy(p, b.pieces[b.i])
	if n < len(b.pieces[b.i]) {
		b.pieces[b.i] = b.pieces[b.i][n:]
	} else {
		b.i++
	}
	return n, nil
}
func (b *c13TrailerBody) Close() error { return nil }

type c13TrailerOut struct {
	res c13Result
	h1  []c13Attempt
	g   []c13GAttempt
	log *c13Log
	cl  *Client
}

func TestVerif_C13_trailer(t *testing.T) {
	s := verifh.New(t, "C13", "trailer",
		"requests WITH TRAILERS sent through Transport.RoundTrip (the public http.RoundTripper of the library) over HTTP/1.1 (chunked) and HTTP/2, paired dump off / on: POST with a body of 1..3 reads (1 B..20 KB) and 1..3 trailer fields, dump configuration: 16 part subsets (enumerated first) x 4 writer routings x client-level / request-level (context value) / both, sync and async (client level); oracle: peer-received request (head, body, trailer section) equal in the pair, each writer = the Lean model's expectedDump (c13exp) where on HTTP/1.1 the trailer section belongs to the request body as sent and on HTTP/2 the trailer block is rendered as header lines after the body; non-trivial = every pair")
	r := s.Rand()
	cnt := c13Counter{}
	h1 := c13NewPeer(t)
	defer h1.close()
	h2 := c13NewH2Peer(t)
	defer h2.close()
	type proto struct {
		name string
		mk   func() *Client
		base string
		n    int
	}
	protos := []proto{
		{"h1", func() *Client { return C().EnableForceHTTP1() }, "http://" + h1.addr(), verifh.N(48, 1200)},
		{"h2", func() *Client { return C().EnableForceHTTP2().EnableH2C() }, "http://" + h2.ln.Addr().String(), verifh.N(48, 1200)},
	}
	var pend []*c13Pending
	seq := 0
	for _, pr := range protos {
		for c := 0; c < pr.n; c++ {
			seq++
			path := fmt.Sprintf("/c13/trailer/%d", seq)
			var pieces []string
			for i, k := 0, 1+r.Intn(3); i < k; i++ {
				pieces = append(pieces, verifh.RandBytes(r, verifh.Pick(r, []int{1, 30, 700, 5000, 20000}), "abcdefghijklmnopqrstuvwxyz0123456789\r\n"))
			}
			trailer := http.Header{}
			for i, k := 0, 1+r.Intn(3); i < k; i++ {
				trailer.Set(fmt.Sprintf("X-Trailer-%d", i), verifh.RandBytes(r, 1+r.Intn(20), "abcdef0123456789"))
			}
			subset := (c*5 + r.Intn(16)) % 16
			if c < 16 {
				subset = (c*7 + 2) % 16
			}
			var cfg c13DumpCfg
			level := []string{"client", "request", "both"}[c%3]
			if level != "request" {
				cfg.cl = c13GenDumper(s, 10, subset, r.Intn(2) == 0)
			}
			if level != "client" {
				sub2 := subset
				if level == "both" {
					sub2 = r.Intn(16)
				}
				cfg.rq = c13GenDumper(s, 20, sub2, false)
			}
			respBody := verifh.RandBytes(r, r.Intn(300), "response body 0123456789")
			respHead := fmt.Sprintf("HTTP/1.1 200 OK\r\nX-Verif: trailer\r\nContent-Length: %d\r\n\r\n", len(respBody))
			gresp := c13GResp{fields: []c13Field{{":status", "200"}, {"x-verif", "trailer"}}, wire: respBody, decoded: respBody, pieces: 1}
			run := func(cfg *c13DumpCfg) (c13TrailerOut, bool) {
				if pr.name == "h1" {
					h1.mu.Lock()
					h1.scripts[path] = []c13Resp{{raw: respHead + respBody, head: respHead, body: respBody, pieces: 1}}
					h1.mu.Unlock()
					h1.reset()
				} else {
					h2.c13GScripts.mu.Lock()
					if h2.scripts == nil {
						h2.scripts = map[string][]c13GResp{}
					}
					h2.scripts[path] = []c13GResp{gresp}
					h2.c13GScripts.mu.Unlock()
					h2.c13GScripts.reset()
				}
				ch := make(chan c13TrailerOut, 1)
				go func() {
					out := c13TrailerOut{log: &c13Log{}}
					cl := pr.mk().SetTimeout(5 * time.Second)
					ctx := context.Background()
					if cfg != nil {
						cl = cfg.applyClient(cl, out.log, r.Intn(2) == 0)
						if cfg.rq != nil {
							ctx = context.WithValue(ctx, dump.DumperKey, newRequestDumper(cfg.rq.options(out.log)))
						}
					}
					hreq, _ := http.NewRequestWithContext(ctx, "POST", pr.base+path, &c13TrailerBody{pieces: append([]string{}, pieces...)})
					hreq.Header.Set("Content-Type", "application/octet-stream")
					hreq.Trailer = trailer.Clone()
					resp, err := cl.GetTransport().RoundTrip(hreq)
					out.res = c13Result{err: c13ErrClass(err)}
					if err == nil {
						b, rerr := io.ReadAll(resp.Body)
						resp.Body.Close()
						out.res.status, out.res.proto, out.res.body, out.res.extra = resp.StatusCode, resp.Proto, string(b), c13ErrClass(rerr)
					}
					out.cl = cl
					cl.CloseIdleConnections()
					if pr.name == "h1" {
						h1.waitIdle()
						out.h1 = h1.reset()
					} else {
						out.g = h2.c13GScripts.reset()
					}
					ch <- out
				}()
				select {
				case o := <-ch:
					return o, false
				case <-time.After(9 * time.Second):
					return c13TrailerOut{res: c13Result{err: "hung"}, log: &c13Log{}}, true
				}
			}
			off, _ := run(nil)
			on, hung := run(&cfg)
			p := &c13Pending{
				id:  fmt.Sprintf("trailer %s #%d %s", pr.name, c, cfg.String()),
				log: on.log, cl: on.cl, tokens: map[string]string{}, seqOf: map[string]int{},
				outputs: map[int]bool{10: true, 20: true}, nontrivial: true,
			}
			p.human = fmt.Sprintf("%s POST via Transport.RoundTrip, body reads %v, trailer %v; %s; result %s", pr.name, c13Lens(pieces), trailer, cfg.String(), c13Clip(off.res.String(), 100))
			if hung {
				p.why = append(p.why, "the call with dump on never returned")
			}
			if off.res.err != "-" || off.res.status != 200 || off.res.body != respBody {
				p.why = append(p.why, "harness: baseline exchange failed: "+off.res.String())
				cnt.add(s, "baseline-error")
			} else {
				cnt.add(s, "baseline-ok-"+pr.name)
			}
			if off.res != on.res {
				p.why = append(p.why, fmt.Sprintf("caller-visible result differs: off {%s} on {%s}", off.res.String(), on.res.String()))
			}
			var parts []string
			add := func(i int, contents [4]string) {
				for j, content := range contents {
					tk := ""
					if content != "" {
						tk = fmt.Sprintf("%c%c%c", 'A'+i, "hbHB"[j], '.')
						p.tokens[tk] = content
						p.seqOf[tk] = []int{0, 0, 1, 2}[j]
					}
					parts = append(parts, tk)
				}
			}
			class := ""
			if pr.name == "h1" {
				if d := c13AttemptsEqual(off.h1, on.h1); d != "" {
					p.why = append(p.why, "bytes sent differ: "+d)
				}
				for i, at := range on.h1 {
					// the trailer section: what follows the last-chunk line, without the final CRLF
					sect := ""
					if k := strings.LastIndex(at.wire, "0\r\n"+c13TrailerLines(trailer)); k >= 0 {
						sect = strings.TrimSuffix(at.wire[k+3:], "\r\n")
					}
					if sect == "" {
						p.why = append(p.why, "the peer received no trailer section")
					}
					add(i, [4]string{at.head, at.payload + sect, respHead, on.res.body})
				}
			} else {
				if d := c13GAttemptsEqual(off.g, on.g); d != "" {
					p.why = append(p.why, "request as received by the peer differs: "+d)
				}
				for i, at := range on.g {
					// (the trailer map is enumerated in Go's map order: compare as a set)
					if i >= len(off.g) || c13SortedFields(off.g[i].trailer) != c13SortedFields(at.trailer) || len(at.trailer) != len(trailer) {
						p.why = append(p.why, fmt.Sprintf("trailer block received differs or is incomplete: off %v on %v", off.g[i].trailer, at.trailer))
					}
					// request writer goroutine: header block, DATA, trailer block (rendered as lines)
					add(2*i, [4]string{c13Lines(at.fields), at.payload, "", ""})
					add(2*i+1, [4]string{c13TrailerBlock(at.trailer), "", gresp.headDump(false), on.res.body})
				}
				// pinned tree: the trailer lines follow the RequestBody() flag (fixes/C13-7)
				for _, d := range []*c13DumperCfg{cfg.cl, cfg.rq} {
					if d != nil && d.flags[0] != d.flags[1] {
						class = "h2-request-trailers-follow-body-flag"
					}
				}
			}
			p.class = class
			if len(parts) == 0 {
				p.modelLine = "c13exp " + cfg.cl.modelArg() + " " + cfg.rq.modelArg() + " -"
			} else {
				p.modelLine = "c13exp " + cfg.cl.modelArg() + " " + cfg.rq.modelArg() + " " + verifh.HexList(parts)
			}
			pend = append(pend, p)
			cnt.add(s, "proto="+pr.name)
			cnt.add(s, "level="+level)
			cnt.add(s, fmt.Sprintf("subset=%d", subset))
			if class != "" {
				cnt.add(s, "header-and-body-flag-differ-h2")
			}
		}
		c13Finish(t, s, pend)
		pend = nil
	}
	for _, must := range []string{"baseline-ok-h1", "baseline-ok-h2", "level=both", "header-and-body-flag-differ-h2"} {
		if cnt[must] == 0 {
			t.Errorf("generator never reached bucket %q", must)
		}
	}
	s.Finish()
}

func c13SortedFields(fs []c13Field) string {
	c := append([]c13Field{}, fs...)
	sort.Slice(c, func(i, j int) bool { return c[i].name < c[j].name })
	return fmt.Sprint(c)
}

// c13TrailerLines: the trailer section as HTTP/1.1 writes it (http.Header.Write: sorted by key).
func c13TrailerLines(h http.Header) string {
	keys := make([]string, 0, len(h))
	for k := range h {
		keys = append(keys, k)
	}
	sort.Strings(keys)
	var b strings.Builder
	for _, k := range keys {
		for _, v := range h[k] {
			b.WriteString(k + ": " + v + "\r\n")
		}
	}
	return b.String()
}

// c13TrailerBlock: an HTTP/2 trailer block as dumped: one line per field, no blank line.
func c13TrailerBlock(fs []c13Field) string {
	var b strings.Builder
	for _, f := range fs {
		b.WriteString(f.name + ": " + f.value + "\r\n")
	}
	return b.String()
}
