//go:build verif

package req

// Lane seq of C20: SEQUENCES of challenges met by ONE middleware instance / ONE client / ONE
// Request — the dimension the single-exchange lanes do not have. The origin has replay
// protection (every 401 carries a fresh nonce, a nonce is good for one answer, credentials
// with an unknown or used nonce are challenged again with stale=true) and varies the challenge
// from one 401 to the next (algorithm family, -sess, qop, userhash, opaque; mostly the SAME
// realm). The caller makes several calls through the same client (client-level or
// request-level credentials, clones of the client, the same Request sent again, retries after
// a 503 that follow an accepted answer, a few calls in parallel).
//
// Oracle (the property, per challenge): every supported challenge the origin issues is
// answered exactly once, with credentials its RFC 7616 verifier (real hashes) accepts for the
// method, request target and nonce of THAT challenge, with the original body; the caller ends
// with the status served to the accepted request, never with a 401 left unanswered.

import (
	"bytes"
	"fmt"
	"io"
	"math/rand"
	"net/http"
	"net/http/httptest"
	"strconv"
	"strings"
	"sync"
	"testing"
	"time"

	"github.com/imroc/req/v3/internal/verifh"
)

type c20SeqChal struct {
	is       c20Issued
	raw      string
	answered int
}

type c20SeqCall struct {
	post     []int // status served to the n-th accepted request of this call
	accepted int
	body     []byte
	method   string
	chals    []*c20SeqChal
	problems []string
	requests int
}

type c20SeqOrigin struct {
	mu         sync.Mutex
	srv        *httptest.Server
	r          *rand.Rand
	user, pass string
	realm      string
	calls      map[string]*c20SeqCall
	nonces     map[string]*c20SeqChal
	nonceOwner map[string]*c20SeqCall
	counter    int
}

// newChallenge: a supported, plainly written challenge with a fresh nonce (caller holds mu).
func (o *c20SeqOrigin) newChallenge(stale bool) *c20SeqChal {
	r := o.r
	o.counter++
	ch := &c20SeqChal{}
	ch.is.realm = o.realm
	if r.Intn(6) == 0 {
		ch.is.realm = verifh.Pick(r, []string{"other realm", "api", "r2"})
	}
	ch.is.nonce = fmt.Sprintf("%s%06d", verifh.RandBytes(r, 10, "abcdefABCDEF0123456789+/"), o.counter)
	ps := []string{"realm=" + c20Quote(ch.is.realm), "nonce=" + c20Quote(ch.is.nonce)}
	alg := verifh.Pick(r, []string{"", "MD5", "MD5-sess", "SHA-256", "SHA-256-sess", "SHA-512-256", "SHA-512-256-sess", "MD5", "SHA-256"})
	if alg != "" {
		a := alg
		ch.is.algorithm = &a
		ps = append(ps, "algorithm="+alg)
	}
	if strings.HasSuffix(alg, "-sess") || r.Intn(10) < 7 {
		ch.is.qops = []string{"auth"}
		ps = append(ps, verifh.Pick(r, []string{`qop="auth"`, `qop=auth`}))
	}
	if r.Intn(2) == 0 {
		op := verifh.RandBytes(r, 8, "abcdef0123456789")
		ch.is.opaque = &op
		ps = append(ps, "opaque="+c20Quote(op))
	}
	if r.Intn(4) == 0 {
		ch.is.userhash = true
		ps = append(ps, "userhash=true")
	}
	if stale {
		ps = append(ps, "stale=true")
	}
	r.Shuffle(len(ps), func(i, j int) { ps[i], ps[j] = ps[j], ps[i] })
	ch.raw = "Digest " + strings.Join(ps, ", ")
	o.nonces[ch.is.nonce] = ch
	return ch
}

func (o *c20SeqOrigin) ServeHTTP(w http.ResponseWriter, rq *http.Request) {
	body, _ := io.ReadAll(rq.Body)
	o.mu.Lock()
	call := o.calls[rq.Header.Get("X-Verif-Call")]
	if call == nil {
		o.mu.Unlock()
		w.WriteHeader(410)
		return
	}
	call.requests++
	problem := func(f string, a ...interface{}) { call.problems = append(call.problems, fmt.Sprintf(f, a...)) }
	if rq.Method != call.method {
		problem("request with method %s, the call uses %s", rq.Method, call.method)
	}
	if !bytes.Equal(body, call.body) {
		problem("request body differs from the original: %d bytes vs %d bytes", len(body), len(call.body))
	}
	stale := false
	if auths, has := rq.Header["Authorization"]; has {
		auth := strings.Join(auths, "\x00")
		stale = true
		if ps, err := c20ParseCredentials(auth); err != nil {
			problem("unparseable credentials %q: %v", auth, err)
		} else if ch := o.nonces[ps["nonce"]]; ch != nil && o.nonceOwner[ps["nonce"]] == call {
			ch.answered++
			if ch.answered == 1 {
				x := c20Ctx{is: ch.is, method: rq.Method, uri: rq.RequestURI, user: o.user, pass: o.pass, body: body}
				if good, why := c20Verify(c20RealH, x, auth); good {
					st := call.post[len(call.post)-1]
					if call.accepted < len(call.post) {
						st = call.post[call.accepted]
					}
					call.accepted++
					o.mu.Unlock()
					w.Header().Set("Content-Type", "text/plain")
					w.WriteHeader(st)
					if rq.Method != "HEAD" {
						io.WriteString(w, "granted:"+strconv.Itoa(st))
					}
					return
				} else {
					problem("verifier rejects the answer to %q: %s; header %q", ch.raw, why, auth)
				}
			}
			// a used nonce: replay -> challenged again below
		}
	}
	ch := o.newChallenge(stale)
	o.nonceOwner[ch.is.nonce] = call
	call.chals = append(call.chals, ch)
	o.mu.Unlock()
	w.Header().Set("WWW-Authenticate", ch.raw)
	w.Header().Set("Content-Type", "text/plain")
	w.WriteHeader(401)
	if rq.Method != "HEAD" {
		io.WriteString(w, "denied")
	}
}

func TestVerif_C20_seq(t *testing.T) {
	s := verifh.New(t, "C20", "seq",
		"sequences of 1..4 calls (+ sometimes 3 parallel ones) through ONE client carrying digest credentials (SetCommonDigestAuth, or SetDigestAuth on each Request), over HTTP/1.1 and HTTP/2, against an origin with replay protection: every 401 has a fresh nonce and a freshly drawn SUPPORTED challenge (same realm mostly; algorithm absent/MD5/SHA-256/SHA-512-256 and -sess, qop auth or absent, opaque, userhash), a nonce is good for one answer, stale or unknown credentials are challenged again (stale=true). Calls: new Request, the SAME Request sent again, a clone of the client, retries (1..2) triggered by a 503 served AFTER an accepted answer, methods x URIs with queries x bodies (none/bytes/form). Oracle per challenge: answered exactly once, accepted by the origin's RFC 7616 verifier (real hashes) for that nonce/method/target, body intact; per call: final status = the one served to the last accepted request, no error; non-trivial = calls with >= 2 challenges met by the same middleware instance")
	r := s.Rand()
	cnt, count := c20Counter(s)
	must := []string{"call:new-request", "call:same-request-again", "call:clone", "call:retry", "call:parallel", "seq:same-realm-other-hash-family", "seq:challenges>=4", "via:client", "via:request", "h1", "h2"}
	for _, h2 := range []bool{false, true} {
		o := &c20SeqOrigin{r: rand.New(rand.NewSource(r.Int63()))}
		o.srv = httptest.NewUnstartedServer(o)
		o.srv.Config.ErrorLog = nil
		if h2 {
			o.srv.EnableHTTP2 = true
			o.srv.StartTLS()
		} else {
			o.srv.Start()
		}
		proto := map[bool]string{false: "h1", true: "h2"}[h2]
		n := verifh.N(250, 5000)
		if h2 {
			n = verifh.N(150, 3000)
		}
		callSeq := 0
		for i := 0; i < n || (h2 && !c20All(cnt, must)); i++ {
			if i > 20*n {
				t.Fatalf("declared buckets not reached: %v", cnt)
			}
			count(proto)
			user, _ := c20Text(r, false)
			for !c20HeaderSafe(user) {
				user, _ = c20Text(r, false)
			}
			pass, _ := c20Text(r, true)
			o.mu.Lock()
			o.user, o.pass = user, pass
			o.realm = verifh.Pick(r, []string{"testrealm@host.com", "Secure Area", "http-auth@example.org", "café réalm"})
			o.calls, o.nonces, o.nonceOwner = map[string]*c20SeqCall{}, map[string]*c20SeqChal{}, map[string]*c20SeqCall{}
			o.mu.Unlock()
			c := C().SetTimeout(20 * time.Second)
			if h2 {
				c.EnableInsecureSkipVerify().EnableForceHTTP2()
			} else {
				c.EnableForceHTTP1()
			}
			viaClient := r.Intn(2) == 0
			if viaClient {
				c.SetCommonDigestAuth(user, pass)
				count("via:client")
			} else {
				count("via:request")
			}
			clients := []*Client{c}
			var prev *Request
			var families []string
			totalChals := 0
			steps := 1 + r.Intn(4)
			type started struct {
				id, human string
				call      *c20SeqCall
				rq        *Request
				method    string
				url       string
			}
			prepare := func(kindHint string) started {
				callSeq++
				id := proto + "-" + strconv.Itoa(callSeq)
				method := verifh.Pick(r, []string{"GET", "GET", "POST", "PUT", "DELETE", "HEAD"})
				uri := verifh.Pick(r, []string{"/", "/dir/index.html", "/a/b?x=1&y=2", "/p?q=a%20b", "/caf%C3%A9?k=v%3Dw", "/a;b?c=d,e"})
				kind := kindHint
				cc := c
				var rq *Request
				switch {
				case kind == "" && prev != nil && r.Intn(3) == 0:
					kind = "same-request-again"
					rq = prev
					method = prev.Method
				case kind == "" && r.Intn(4) == 0:
					kind = "clone"
					cc = clients[r.Intn(len(clients))].Clone()
					clients = append(clients, cc)
				case kind == "":
					kind = "new-request"
				}
				if rq == nil {
					rq = cc.R()
					if !viaClient {
						rq.SetDigestAuth(user, pass)
					}
					switch r.Intn(4) {
					case 0:
						if method != "GET" && method != "HEAD" {
							rq.SetBodyBytes([]byte(verifh.RandBytes(r, 1+r.Intn(300), "")))
						}
					case 1:
						if method != "GET" && method != "HEAD" {
							rq.SetFormData(map[string]string{"k": verifh.RandBytes(r, 4, "abc"), "z": "ü &="})
						}
					}
				}
				call := &c20SeqCall{post: []int{200}, method: method}
				if kind != "same-request-again" && r.Intn(3) == 0 {
					// the accepted request is answered 503 once or twice: the caller retries
					k := 1 + r.Intn(2)
					call.post = append(make([]int, 0, 3), 503)
					if k == 2 {
						call.post = append(call.post, 503)
					}
					call.post = append(call.post, 200)
					rq.SetRetryCount(k).SetRetryFixedInterval(time.Millisecond).
						SetRetryCondition(func(resp *Response, err error) bool { return err == nil && resp.StatusCode == 503 })
					count("call:retry")
				}
				count("call:" + kind)
				rq.SetHeader("X-Verif-Call", id)
				o.mu.Lock()
				o.calls[id] = call
				o.mu.Unlock()
				return started{id: id, human: fmt.Sprintf("%s call %s %s %s %s post=%v user=%q via-client=%v", proto, id, kind, method, uri, call.post, user, viaClient),
					call: call, rq: rq, method: method, url: o.srv.URL + uri}
			}
			judge := func(st started, resp *Response, pan string, panicked bool) {
				if panicked {
					s.Crash(st.id, st.human, pan, "")
					return
				}
				o.mu.Lock()
				call := st.call
				ok, why := true, ""
				fail := func(f string, a ...interface{}) {
					if ok {
						ok, why = false, fmt.Sprintf(f, a...)
					}
				}
				for _, p := range call.problems {
					fail("%s", p)
				}
				for _, ch := range call.chals {
					switch {
					case ch.answered == 0:
						fail("the supported challenge %q was not answered (caller: status %d, err %v)", ch.raw, resp.GetStatusCode(), resp.Err)
					case ch.answered > 1:
						// credentials for a used nonce came again (e.g. sent pre-emptively on a retry): the
						// origin treats them as stale and challenges again; not judged here — that the
						// exchange does not loop is bounded by the request count below
						count("note:used-nonce-presented-again")
					}
					a := "MD5"
					if ch.is.algorithm != nil {
						a = strings.TrimSuffix(*ch.is.algorithm, "-sess")
					}
					families = append(families, ch.is.realm+"\x00"+a)
				}
				want := call.post[len(call.post)-1]
				if resp.Err != nil {
					fail("error returned: %v", resp.Err)
				} else if resp.StatusCode != want {
					fail("caller sees status %d, the origin granted %d to the last accepted request", resp.StatusCode, want)
				} else if st.method != "HEAD" && resp.String() != "granted:"+strconv.Itoa(want) {
					fail("caller sees body %q", c20Clip(resp.String()))
				}
				if call.accepted != len(call.post) {
					fail("%d requests accepted, %d expected (post=%v)", call.accepted, len(call.post), call.post)
				}
				if call.requests > 2*len(call.post)+2 {
					fail("%d requests for %d attempts", call.requests, len(call.post))
				}
				totalChals += len(call.chals)
				human := st.human + fmt.Sprintf(" challenges=%d requests=%d", len(call.chals), call.requests)
				for i, ch := range call.chals {
					human += fmt.Sprintf(" | 401#%d %s", i+1, ch.raw)
				}
				o.mu.Unlock()
				if !ok {
					human += " | " + why
				}
				s.Observe(st.id, ok, "", totalChals >= 2, human, why)
			}
			for k := 0; k < steps; k++ {
				st := prepare("")
				s.Begin(st.id, st.human)
				o.mu.Lock()
				if b := st.rq.Body; b != nil && st.method != "GET" && st.method != "HEAD" {
					st.call.body = b
				} else if len(st.rq.FormData) > 0 && st.method != "GET" && st.method != "HEAD" {
					st.call.body = []byte(st.rq.FormData.Encode())
				}
				o.mu.Unlock()
				var resp *Response
				pan, panicked := verifh.Safely(func() { resp, _ = st.rq.Send(st.method, st.url) })
				judge(st, resp, pan, panicked)
				prev = st.rq
				if viaClient {
					prev = nil // the same-request case is about request-level credentials; client-level ones get it through new requests
					if r.Intn(2) == 0 {
						prev = st.rq
					}
				}
			}
			if r.Intn(5) == 0 {
				// a few calls in parallel through the same middleware instance
				var sts []started
				for k := 0; k < 3; k++ {
					st := prepare("parallel")
					o.mu.Lock()
					if b := st.rq.Body; b != nil && st.method != "GET" && st.method != "HEAD" {
						st.call.body = b
					} else if len(st.rq.FormData) > 0 && st.method != "GET" && st.method != "HEAD" {
						st.call.body = []byte(st.rq.FormData.Encode())
					}
					o.mu.Unlock()
					sts = append(sts, st)
				}
				resps := make([]*Response, len(sts))
				pans := make([]string, len(sts))
				panicked := make([]bool, len(sts))
				var wg sync.WaitGroup
				for k := range sts {
					wg.Add(1)
					go func(k int) {
						defer wg.Done()
						pans[k], panicked[k] = verifh.Safely(func() { resps[k], _ = sts[k].rq.Send(sts[k].method, sts[k].url) })
					}(k)
				}
				wg.Wait()
				for k := range sts {
					judge(sts[k], resps[k], pans[k], panicked[k])
				}
			}
			// did this middleware instance meet the same realm with two hash families?
			seen := map[string]string{}
			for _, f := range families {
				p := strings.SplitN(f, "\x00", 2)
				if a, ok := seen[p[0]]; ok && a != p[1] {
					count("seq:same-realm-other-hash-family")
					break
				}
				seen[p[0]] = p[1]
			}
			if totalChals >= 4 {
				count("seq:challenges>=4")
			}
			count("seq:challenges=" + strconv.Itoa(min(totalChals, 8)))
			for _, cc := range clients {
				cc.GetTransport().CloseIdleConnections()
			}
		}
		o.srv.Close()
	}
	s.Finish()
}
