//go:build verif

package req

import (
	"bufio"
	"bytes"
	"fmt"
	"hash/fnv"
	"io"
	"math/rand"
	"net/http"
	"net/textproto"
	"net/url"
	"sort"
	"strconv"
	"strings"
	"testing"

	"github.com/imroc/req/v3/internal/verifh"
)

// ---------------------------------------------------------------- canonical answers (mirror of Req/Driver/WireUtil.lean)

func c01Blob(b []byte) string {
	h := fnv.New64a()
	h.Write(b)
	head := b
	if len(head) > 2048 {
		head = head[:2048]
	}
	return fmt.Sprintf("%d %d %s", len(b), h.Sum64(), verifh.Hex(string(head)))
}

// c01OrderIndex: position of key in the order list (last occurrence, canonical form), -1 if unlisted.
func c01OrderIndex(order []string, key string) int {
	ck := textproto.CanonicalMIMEHeaderKey(key)
	idx := -1
	for i, o := range order {
		if textproto.CanonicalMIMEHeaderKey(o) == ck {
			idx = i
		}
	}
	return idx
}

// c01ShowOrdered: request line, sorted header lines, canonical names of the listed lines in
// wire order, body blob.
func c01ShowOrdered(wire []byte, order []string) string {
	head, body := wire, []byte(nil)
	if i := bytes.Index(wire, []byte("\r\n\r\n")); i >= 0 {
		head, body = wire[:i], wire[i+4:]
	}
	lines := strings.Split(string(head), "\r\n")
	reqLine := lines[0]
	lines = lines[1:]
	var listed []string
	for _, l := range lines {
		name, _, _ := strings.Cut(l, ":")
		if c01OrderIndex(order, name) >= 0 {
			listed = append(listed, textproto.CanonicalMIMEHeaderKey(name))
		}
	}
	sorted := append([]string(nil), lines...)
	sort.Strings(sorted)
	return "ord " + verifh.Hex(reqLine) + " " + verifh.HexList(sorted) + " " + verifh.HexList(listed) + " " + c01Blob(body)
}

// c01Hdr renders a header map as `k:v1:v2,k2` (hex) in sorted key order.
func c01Hdr(h http.Header) string { return c01QMap(map[string][]string(h)) }

// c01GenBody: byte i = (i*a+b) % 251 (same generator in the Lean driver: `gen.<len>.<a>.<b>`).
func c01GenBody(n, a, b int) []byte {
	out := make([]byte, n)
	for i := range out {
		out[i] = byte((i*a + b) % 251)
	}
	return out
}

// ---------------------------------------------------------------- body readers that record their reads

// c01ScriptReader yields data in reads of scripted sizes and records what each Read returned.
type c01ScriptReader struct {
	data  []byte
	sizes []int
	i     int
	rec   *[]int
}

func (s *c01ScriptReader) Read(p []byte) (int, error) {
	if len(s.data) == 0 {
		return 0, io.EOF
	}
	n := len(s.data)
	if s.i < len(s.sizes) {
		n = s.sizes[s.i]
		s.i++
	}
	if n > len(s.data) {
		n = len(s.data)
	}
	if n > len(p) {
		n = len(p)
	}
	copy(p, s.data[:n])
	s.data = s.data[n:]
	*s.rec = append(*s.rec, n)
	return n, nil
}

func (s *c01ScriptReader) Close() error { return nil }

// c01BytesBody behaves like bytes.Reader (Read + WriteTo) and records the sizes it hands out.
type c01BytesBody struct {
	r   *bytes.Reader
	rec *[]int
}

func (b *c01BytesBody) Read(p []byte) (int, error) {
	n, err := b.r.Read(p)
	if n > 0 {
		*b.rec = append(*b.rec, n)
	}
	return n, err
}

func (b *c01BytesBody) WriteTo(w io.Writer) (int64, error) {
	if b.r.Len() > 0 {
		*b.rec = append(*b.rec, b.r.Len())
	}
	return b.r.WriteTo(w)
}

// ---------------------------------------------------------------- the H1 write case

type c01H1Case struct {
	method   string
	rawURL   string
	host     string
	header   http.Header
	cl       int64
	bodyKind int // 0 nil, 1 bytes body (NopCloser(bytes.Reader)-like), 2 scripted reader
	body     []byte
	bodySpec string // as sent to the model
	sizes    []int
	close    bool
	extra    http.Header
	proxy    bool
	bufio    bool
	rawQuery *string // assigned to URL.RawQuery after parsing (values url.Parse would refuse)
}

// c01RunH1 runs the real persistConn.writeRequest into a buffer.
func c01RunH1(tr *Transport, tc *c01H1Case) (wire []byte, reads []int, err error, perr string) {
	u, e := url.Parse(tc.rawURL)
	if e != nil {
		return nil, nil, e, "bad-url"
	}
	if tc.rawQuery != nil {
		u.RawQuery = *tc.rawQuery
	}
	var rec []int
	var body io.ReadCloser
	switch tc.bodyKind {
	case 1:
		body = io.NopCloser(&c01BytesBody{r: bytes.NewReader(tc.body), rec: &rec})
	case 2:
		body = &c01ScriptReader{data: append([]byte(nil), tc.body...), sizes: tc.sizes, rec: &rec}
	}
	hdr := tc.header.Clone()
	if tc.header != nil && hdr == nil {
		hdr = http.Header{}
	}
	req := &http.Request{
		Method: tc.method, URL: u, Host: tc.host, Header: hdr, Proto: "HTTP/1.1", ProtoMajor: 1, ProtoMinor: 1,
		ContentLength: tc.cl, Body: body, Close: tc.close,
	}
	pc := &persistConn{t: tr}
	var buf bytes.Buffer
	var extra http.Header
	if tc.extra != nil {
		extra = tc.extra.Clone()
	}
	p, bad := verifh.Safely(func() {
		if tc.bufio {
			bw := bufio.NewWriterSize(&buf, 4096)
			err = pc.writeRequest(req, bw, tc.proxy, extra, nil)
			bw.Flush()
		} else {
			err = pc.writeRequest(req, &buf, tc.proxy, extra, nil)
		}
	})
	if bad {
		return nil, nil, nil, p
	}
	return buf.Bytes(), rec, err, ""
}

// c01HeadUnambiguous: the two places the HTTP/1.1 writer does not sanitise (method, User-Agent)
// hold no CR / LF, so the first blank line of the capture is the end of the head.
func c01HeadUnambiguous(tc *c01H1Case) bool {
	if strings.ContainsAny(tc.method, "\r\n") {
		return false
	}
	for k, vs := range tc.header {
		if strings.EqualFold(k, "User-Agent") {
			for _, v := range vs {
				if strings.ContainsAny(v, "\r\n") {
					return false
				}
			}
		}
	}
	return true
}

func c01H1ErrKind(err error) string {
	s := err.Error()
	switch {
	case strings.Contains(s, "invalid Host header"):
		return "err:hostproxy"
	case strings.Contains(s, "control character"):
		return "err:ctl"
	case strings.Contains(s, "with nil Body"):
		return "err:clnil"
	case strings.Contains(s, "with Body length"):
		return "err:bodylen"
	}
	return "err:other"
}

func c01IsASCII(s string) bool {
	for i := 0; i < len(s); i++ {
		if s[i] >= 0x80 {
			return false
		}
	}
	return true
}

func c01H1Line(lane string, tc *c01H1Case, reads []int) string {
	return lane + " " + verifh.Hex(tc.method) + " " + verifh.Hex(tc.rawURL) + " " + verifh.Hex(tc.host) + " " + c01Hdr(tc.header) + " " +
		strconv.FormatInt(tc.cl, 10) + " " + c01b(tc.bodyKind != 0) + " " + tc.bodySpec + " " + verifh.IntList(reads) + " " + c01b(tc.close) + " " +
		c01Hdr(tc.extra) + " " + c01b(tc.proxy) + " " + func() string {
		if tc.rawQuery == nil {
			return "-"
		}
		return verifh.Hex(*tc.rawQuery)
	}()
}

// ---------------------------------------------------------------- independent origin oracle

var c01AutoHeaders = map[string]bool{"Host": true, "User-Agent": true, "Content-Length": true, "Transfer-Encoding": true,
	"Trailer": true, "Connection": true, "Accept-Encoding": true}

func c01ValidToken(s string) bool {
	if s == "" {
		return false
	}
	for i := 0; i < len(s); i++ {
		c := s[i]
		if !(c >= 'a' && c <= 'z' || c >= 'A' && c <= 'Z' || c >= '0' && c <= '9' || strings.IndexByte("!#$%&'*+-.^_`|~", c) >= 0) {
			return false
		}
	}
	return true
}

// c01OracleApplies: the case is a request the property speaks about (everything the caller
// supplied is sendable as is): valid method token, no exotic framing games.
func c01OracleApplies(tc *c01H1Case) bool {
	if tc.method != "" && !c01ValidToken(tc.method) {
		return false
	}
	if tc.method == "CONNECT" || tc.proxy {
		return false
	}
	for k, vs := range tc.header {
		lk := strings.ToLower(k)
		if (lk == "content-length" || lk == "transfer-encoding" || lk == "host" || lk == "trailer" || lk == "connection" || lk == "user-agent" || lk == "expect") && !reqWriteExcludeHeader[k] && lk != "connection" {
			return false // caller plays with framing names in a spelling the writer does not recognise
		}
		if lk == "connection" {
			return false
		}
		for _, v := range vs {
			for i := 0; i < len(v); i++ {
				if (v[i] < 0x20 && v[i] != '\t') || v[i] == 0x7f {
					return false // CR/LF sanitised by the writer; the transport rejects all of these before
				}
			}
		}
	}
	u, err := url.Parse(tc.rawURL)
	if err != nil || u.Opaque != "" || u.Host == "" {
		return false
	}
	if tc.rawQuery != nil {
		u.RawQuery = *tc.rawQuery
	}
	// the raw query of the caller's URL is transmitted verbatim (net/url does not validate it):
	// a literal space there is a malformed URL, not a data value
	if strings.ContainsAny(u.RequestURI(), " ") {
		return false
	}
	if strings.ContainsAny(tc.host, " /\r\n") || !c01IsASCII(tc.host) {
		return false
	}
	return true
}

// c01OracleH1 re-parses the captured bytes with net/http.ReadRequest (an independent origin) and
// checks that it sees exactly ONE request with the method, target, host, caller header values
// (trimmed) and body the case describes.
func c01OracleH1(tc *c01H1Case, wire []byte) (bool, string) {
	br := bufio.NewReader(bytes.NewReader(wire))
	got, err := http.ReadRequest(br)
	if err != nil {
		return false, "origin cannot parse: " + err.Error()
	}
	body, err := io.ReadAll(got.Body)
	if err != nil {
		return false, "origin body: " + err.Error()
	}
	if rest, _ := io.ReadAll(br); len(rest) != 0 {
		return false, fmt.Sprintf("%d bytes after the request", len(rest))
	}
	u, _ := url.Parse(tc.rawURL)
	if tc.rawQuery != nil {
		u.RawQuery = *tc.rawQuery
	}
	wantMethod := tc.method
	if wantMethod == "" {
		wantMethod = "GET"
	}
	if got.Method != wantMethod {
		return false, "method " + got.Method
	}
	if got.RequestURI != u.RequestURI() {
		return false, "target " + got.RequestURI
	}
	wantHost := tc.host
	if wantHost == "" {
		wantHost = u.Host
	}
	if got.Host != removeZone(wantHost) && httpgutsValidHost(wantHost) {
		return false, "host " + got.Host
	}
	wantBody := tc.body
	if tc.bodyKind == 0 {
		wantBody = nil
	}
	if !bytes.Equal(body, wantBody) {
		return false, fmt.Sprintf("body %d bytes, want %d", len(body), len(wantBody))
	}
	// caller headers: per canonical name, the multiset of trimmed values
	want := map[string][]string{}
	for k, vs := range tc.header {
		if reqWriteExcludeHeader[k] || !c01ValidToken(k) {
			continue
		}
		ck := textproto.CanonicalMIMEHeaderKey(k)
		for _, v := range vs {
			want[ck] = append(want[ck], strings.Trim(v, " \t"))
		}
	}
	for ck, vs := range want {
		if c01AutoHeaders[ck] {
			continue
		}
		g := append([]string(nil), got.Header[ck]...)
		sort.Strings(g)
		w := append([]string(nil), vs...)
		sort.Strings(w)
		if strings.Join(g, "\x00") != strings.Join(w, "\x00") || len(g) != len(w) {
			return false, fmt.Sprintf("header %s: got %q want %q", ck, g, w)
		}
	}
	for ck := range got.Header {
		if c01AutoHeaders[ck] {
			continue
		}
		if _, ok := want[ck]; !ok {
			return false, "unexpected header " + ck
		}
	}
	if _, ok := got.Header[HeaderOderKey]; ok {
		return false, "bookkeeping key on the wire"
	}
	return true, ""
}

func httpgutsValidHost(h string) bool {
	for i := 0; i < len(h); i++ {
		c := h[i]
		if !(c >= 'a' && c <= 'z' || c >= 'A' && c <= 'Z' || c >= '0' && c <= '9' || strings.IndexByte("!$%&()*+,-.:;=[']_~", c) >= 0) {
			return false
		}
	}
	return true
}

// ---------------------------------------------------------------- generators

var c01Methods = []string{"GET", "GET", "POST", "POST", "PUT", "PATCH", "DELETE", "HEAD", "OPTIONS", "", "PROPFIND", "SEARCH", "TRACE", "M-SEARCH", "get", "X!#$%&'*+-.^_`|~1", "CONNECT"}

var c01HdrNames = []string{"Accept", "accept", "ACCEPT", "X-A", "x-a", "X-a", "X-B", "X-C", "X-Long-Header-Name", "Content-Type", "content-type", "Cookie", "cookie", "Authorization",
	"Referer", "Origin", "Accept-Language", "Cache-Control", "Pragma", "Range", "If-None-Match", "X-Forwarded-For", "Te", "Upgrade-Insecure-Requests", "x_y", "X.Y", "a", "Z",
	"Sec-Ch-Ua", "sec-ch-ua-mobile", "X-1", "X-2", "X-3", "X-4", "X-5", "X-6", "X-7", "X-8", "X-9", "Idempotency-Key"}

var c01SpecialNames = []string{"Host", "host", "User-Agent", "user-agent", "Content-Length", "content-length", "Transfer-Encoding", "transfer-encoding", "Trailer", "Connection", "connection",
	"Keep-Alive", "Proxy-Connection", "Upgrade", "Accept-Encoding", "accept-encoding", "a b", "ü", "", "X:Y", "Expect"}

var c01HdrValues = []string{"", "v", "value", "a, b", "  lead", "trail  ", "\tt\t", "x y z", "ü", "日本", "\xff", "text/html; q=0.9", "gzip", "close", "keep-alive", "keep-alive, Close", "chunked", "5", "0",
	"a=1; b=2", "a=1;b=2", "a=1;  b=2;", "\"q\"", "semi;colon", "a\tb", "bytes=0-1", strings.Repeat("v", 300), "100-continue"}

var c01BadValues = []string{"a\r\nX-Injected: 1", "a\nb", "a\rb", "\r\n\r\nGET /smuggled HTTP/1.1\r\nHost: x\r\n\r\n", "a\x00b", "\x7f", "a\x01"}

func c01RandHeader(r *rand.Rand, maxKeys int, special, bad bool) http.Header {
	if maxKeys == 0 || r.Intn(12) == 0 {
		if r.Intn(2) == 0 {
			return nil
		}
		return http.Header{}
	}
	h := http.Header{}
	n := r.Intn(maxKeys + 1)
	for i := 0; i < n; i++ {
		var k string
		switch {
		case special && r.Intn(6) == 0:
			k = verifh.Pick(r, c01SpecialNames)
		case r.Intn(10) == 0:
			k = "X-Gen-" + strconv.Itoa(r.Intn(60))
		default:
			k = verifh.Pick(r, c01HdrNames)
		}
		nv := 1
		switch r.Intn(8) {
		case 0:
			nv = 0
		case 1:
			nv = 2 + r.Intn(2)
		}
		vs := []string{}
		for j := 0; j < nv; j++ {
			if bad && r.Intn(8) == 0 {
				vs = append(vs, verifh.Pick(r, c01BadValues))
			} else {
				vs = append(vs, verifh.Pick(r, c01HdrValues))
			}
		}
		h[k] = vs
	}
	return h
}

// c01RandOrder builds a header-order list over the keys that will be on the wire.
func c01RandOrder(r *rand.Rand, h http.Header) []string {
	var present []string
	for k := range h {
		present = append(present, k)
	}
	sort.Strings(present)
	present = append(present, "host", "user-agent", "content-length", "accept-encoding", "cookie", "transfer-encoding", "connection")
	var order []string
	switch r.Intn(5) {
	case 0: // subset
		for _, k := range present {
			if r.Intn(3) == 0 {
				order = append(order, k)
			}
		}
	case 1: // superset
		for _, k := range present {
			if r.Intn(2) == 0 {
				order = append(order, k)
			}
		}
		order = append(order, "absent-1", "Absent-2")
	case 2: // other case
		for _, k := range present {
			if r.Intn(2) == 0 {
				order = append(order, strings.ToUpper(k))
			}
		}
	case 3: // duplicated
		for i := 0; i < 1+r.Intn(8); i++ {
			order = append(order, verifh.Pick(r, present))
		}
		order = append(order, order...)
	default:
		order = append(order, present...)
	}
	r.Shuffle(len(order), func(i, j int) { order[i], order[j] = order[j], order[i] })
	if len(order) == 0 {
		order = []string{"host"}
	}
	return order
}

var c01BodySizes = []int{0, 1, 2, 100, 4095, 4096, 4097, 16383, 16384, 16385, 32767, 32768, 32769, 65535, 65536, 65537}

func c01RandBody(r *rand.Rand, tc *c01H1Case, allowHuge bool) {
	n := 0
	switch r.Intn(5) {
	case 0:
		n = verifh.Pick(r, c01BodySizes)
	case 1:
		n = 0
	default:
		n = r.Intn(200)
	}
	if allowHuge && r.Intn(400) == 0 {
		n = 1<<20 + r.Intn(3) - 1
	}
	if n <= 64 && r.Intn(2) == 0 {
		b := verifh.RandBytes(r, n, "")
		if r.Intn(3) == 0 {
			b = verifh.Pick(r, []string{"0\r\n\r\n", "5\r\nhello\r\n0\r\n\r\n", "GET / HTTP/1.1\r\n\r\n", "\r\n", "a=1&b=2", "{\"k\":\"v\"}"})
		}
		tc.body = []byte(b)
		tc.bodySpec = verifh.Hex(b)
	} else {
		a, b := 1+r.Intn(250), r.Intn(251)
		tc.body = c01GenBody(n, a, b)
		tc.bodySpec = fmt.Sprintf("gen.%d.%d.%d", n, a, b)
	}
}

func c01GenH1(r *rand.Rand, profile string) *c01H1Case {
	tc := &c01H1Case{}
	tc.method = verifh.Pick(r, c01Methods)
	if r.Intn(60) == 0 {
		tc.method = verifh.Pick(r, []string{"GE T", "G\r\nX: y", "GET / HTTP/1.1\r\nHost: h\r\n\r\nPOST", "ü", "G\x00T"})
	}
	hosts := []string{"example.com", "example.com:8080", "127.0.0.1:9", "[::1]:80", "[fe80::1%25en0]:8", "EXAMPLE.com", "h"}
	paths := []string{"", "/", "/a", "/a/b?x=1", "/a%2Fb", "/ü?q=ü", "/a b", "/a?b c", "/?", "/p?a=1&b=2", "/%41", "/a;b,c", "/{x}", "/a\"b", "//a//"}
	tc.rawURL = verifh.Pick(r, []string{"http://", "https://"}) + verifh.Pick(r, hosts) + verifh.Pick(r, paths)
	switch r.Intn(40) {
	case 0:
		tc.rawURL = "*"
	case 1:
		tc.rawURL = "http:opaque/x?y"
	case 2:
		tc.rawURL = "http://example.com/a\x7fb"
	case 3:
		tc.rawURL = "http://user:pw@example.com/x"
	case 4:
		tc.rawURL = "/relative/only"
	case 5:
		tc.rawURL = "http://example.com" // empty path
		if r.Intn(2) == 0 {
			tc.method = "CONNECT"
		}
	}
	if _, e := url.Parse(tc.rawURL); e != nil {
		tc.rawURL = "http://example.com/"
	}
	if r.Intn(30) == 0 {
		q := verifh.Pick(r, []string{"a=\x01", "a=1\r\nX-Injected: 1", "x\x7f", "a=b c", "", "ü=1", "a=1\nb"})
		tc.rawQuery = &q
	}
	switch r.Intn(12) {
	case 0:
		tc.host = verifh.Pick(r, []string{"other.example", "other.example:81", "[::2]:1", "UPPER.example"})
	case 1:
		tc.host = verifh.Pick(r, []string{"a b", "a/b", "evil.example\r\nX-Injected: 1", "h\x00", "ü.example", "a@b", "a#b", "a?b", "h\\x", "%41", "[fe80::1%en0]"})
	}
	nmax := 8
	if profile == "order" {
		nmax = 60
	}
	switch r.Intn(4) {
	case 0:
		nmax = 3
	case 1:
		if profile == "order" {
			nmax = 14 // around the 12-element algorithm switch of the old sort
		}
	}
	tc.header = c01RandHeader(r, nmax, true, true)
	if profile == "order" || r.Intn(5) == 0 {
		if tc.header == nil {
			tc.header = http.Header{}
		}
		if profile != "order" || r.Intn(8) != 0 {
			tc.header[HeaderOderKey] = c01RandOrder(r, tc.header)
		}
		if r.Intn(4) == 0 {
			tc.header[PseudoHeaderOderKey] = []string{":path", ":method"}
		}
	}
	if len(tc.header[HeaderOderKey]) > 0 {
		// the canonical form of order mode splits the head at the first blank line: keep raw CR LF
		// out of the two places the writer does not sanitise (method, User-Agent); the plain mode
		// (byte exact) keeps covering them
		if strings.Contains(tc.method, "\r\n") {
			tc.method = "GET"
		}
		if vs := tc.header["User-Agent"]; len(vs) > 0 && strings.ContainsAny(vs[0], "\r\n") {
			vs[0] = "ua/1"
		}
	}
	// body / content length
	switch r.Intn(10) {
	case 0, 1, 2: // no body
		tc.bodyKind = 0
		tc.bodySpec = "_"
		if r.Intn(15) == 0 {
			tc.cl = int64(1 + r.Intn(5)) // ContentLength with nil Body: error
		}
	case 3, 4, 5, 6: // in-memory body, known length (what Client.roundTrip builds)
		tc.bodyKind = 1
		c01RandBody(r, tc, profile != "order")
		tc.cl = int64(len(tc.body))
		if r.Intn(20) == 0 {
			tc.cl += int64(r.Intn(5) - 2) // mismatch (0 = unknown)
		}
	case 7: // in-memory body, unknown length
		tc.bodyKind = 1
		c01RandBody(r, tc, false)
		tc.cl = int64(-r.Intn(2))
	default: // streaming reader, unknown or known length
		tc.bodyKind = 2
		c01RandBody(r, tc, profile != "order")
		for left := len(tc.body); left > 0; {
			var sz int
			switch r.Intn(4) {
			case 0:
				sz = r.Intn(3)
			case 1:
				sz = verifh.Pick(r, []int{4095, 4096, 4097, 16384, 32768})
			default:
				sz = 1 + r.Intn(9000)
			}
			tc.sizes = append(tc.sizes, sz)
			left -= sz
		}
		if r.Intn(3) == 0 {
			tc.cl = int64(len(tc.body))
		}
	}
	tc.close = r.Intn(6) == 0
	switch r.Intn(4) {
	case 0:
		tc.extra = http.Header{"Accept-Encoding": {"gzip"}}
	case 1:
		tc.extra = http.Header{"Accept-Encoding": {"gzip"}, "Connection": {"close"}}
	case 2:
		tc.extra = http.Header{"Connection": {"close"}}
	}
	tc.proxy = r.Intn(25) == 0
	tc.bufio = r.Intn(2) == 0
	return tc
}

// c01LaneH1 is shared by C01 (fidelity of the bytes) and C16 (header set / order on the wire).
func c01LaneH1(t *testing.T, s *c01Sess, profile string, n int) {
	r := s.Rand()
	tr := T()
	for i := 0; i < n; i++ {
		tc := c01GenH1(r, profile)
		wire, reads, err, perr := c01RunH1(tr, tc)
		human := fmt.Sprintf("%q %q host=%q hdr=%q cl=%d body=%d/%s sizes=%v close=%v extra=%q proxy=%v", tc.method, tc.rawURL, tc.host, tc.header, tc.cl, tc.bodyKind, tc.bodySpec, tc.sizes, tc.close, tc.extra, tc.proxy)
		if perr != "" {
			s.Crash(human, human, perr, "")
			continue
		}
		u, _ := url.Parse(tc.rawURL)
		effHost := tc.host
		if effHost == "" {
			effHost = u.Host
		}
		order := tc.header[HeaderOderKey]
		var ans string
		ok := true
		switch {
		case !c01IsASCII(effHost):
			ans = "err:outside" // Punycode / idna is outside the model
			s.Count("outside")
		case err != nil:
			ans = c01H1ErrKind(err)
			s.Count(ans)
			// a failed write leaves bytes behind (the head is flushed, an identity body is copied
			// before its length is compared): behind the head there may be nothing but a prefix of
			// the first Content-Length bytes of the body — never the surplus of an over-long reader
			if ans == "err:bodylen" && tc.cl > 0 && c01HeadUnambiguous(tc) {
				if k := bytes.Index(wire, []byte("\r\n\r\n")); k >= 0 && !bytes.Contains(bytes.ToLower(wire[:k+2]), []byte("\r\ntransfer-encoding:")) {
					lim := int(tc.cl)
					if lim > len(tc.body) {
						lim = len(tc.body)
					}
					s.Count("bodylen-wire-checked")
					if !bytes.HasPrefix(tc.body[:lim], wire[k+4:]) {
						ok = false
						human += fmt.Sprintf(" ORACLE: %d bytes behind the head of a request with Content-Length %d: not a prefix of the declared-length part of the body", len(wire)-k-4, tc.cl)
					}
				}
			}
		case len(order) > 0:
			ans = c01ShowOrdered(wire, order)
			s.Count("order-mode")
		default:
			ans = "ok " + c01Blob(wire)
			s.Count("plain-mode")
		}
		nontriv := false
		if err == nil && c01IsASCII(effHost) {
			if tc.bodyKind != 0 {
				if bytes.Contains(wire, []byte("Transfer-Encoding: chunked")) {
					s.Count("chunked")
				} else {
					s.Count("content-length")
				}
			} else {
				s.Count("no-body")
			}
			if c01OracleApplies(tc) {
				good, why := c01OracleH1(tc, wire)
				s.Count("oracle-applied")
				nontriv = true
				if !good {
					ok = false
					human += " ORACLE: " + why
				}
				// listed fields in list order
				if len(order) > 0 {
					last := -1
					head := wire
					if k := bytes.Index(wire, []byte("\r\n\r\n")); k >= 0 {
						head = wire[:k]
					}
					for _, l := range strings.Split(string(head), "\r\n")[1:] {
						name, _, _ := strings.Cut(l, ":")
						ix := c01OrderIndex(order, name)
						if ix < 0 {
							continue
						}
						if ix < last {
							ok = false
							human += " ORACLE: listed header out of order: " + name
						}
						last = ix
					}
				}
			}
		}
		s.Case(c01H1Line("c01h1", tc, reads), ans, ok, "", nontriv, human)
		// tie of the Lean ORIGIN (the parser h1_fidelity is stated about) to a real server parser:
		// on the bytes the real writer produced + a pipelined tail, net/http.ReadRequest and
		// parseRequestH1 must read the same request and leave the same tail
		if nontriv && len(wire) <= 6000 {
			tail := verifh.Pick(r, []string{"", "GET /next HTTP/1.1\r\nHost: n\r\n\r\n", "\r\n", "garbage", "0\r\n\r\n"})
			full := append(append([]byte(nil), wire...), tail...)
			if oans, ok2 := c01GoOrigin(full); ok2 {
				s.Count("origin-tie")
				s.Case("c01origin "+verifh.Hex(string(full)), oans, true, "", false, "origin tie: "+human)
			}
		}
	}
}

// c01GoOrigin renders what net/http.ReadRequest reads from a byte stream in the canonical form of
// the Lean driver's `c01origin` lane.
func c01GoOrigin(full []byte) (string, bool) {
	br := bufio.NewReader(bytes.NewReader(full))
	got, err := http.ReadRequest(br)
	if err != nil {
		return "", false
	}
	body, err := io.ReadAll(got.Body)
	if err != nil {
		return "", false
	}
	rest, _ := io.ReadAll(br)
	var lines []string
	for k, vs := range got.Header {
		lk := strings.ToLower(k)
		if lk == "content-length" || lk == "transfer-encoding" || lk == "host" {
			continue
		}
		for _, v := range vs {
			lines = append(lines, lk+": "+v)
		}
	}
	sort.Strings(lines)
	return fmt.Sprintf("ok %s %s %s %s %s %d", verifh.Hex(got.Method), verifh.Hex(got.RequestURI), verifh.HexList([]string{got.Host}),
		verifh.HexList(lines), c01Blob(body), len(rest)), true
}

// TestVerif_C01_h1write: the real persistConn.writeRequest + transferWriter + chunkedWriter into a
// buffer vs the Lean serialiser (byte exact), plus net/http.ReadRequest as an independent origin.
func TestVerif_C01_h1write(t *testing.T) {
	s := c01New(t, "C01", "h1write",
		"http.Request values as Client.roundTrip builds them and beyond: methods (standard, extension tokens, empty, invalid), URLs (ports, IPv6+zone, escapes, non-ASCII, '*', opaque, empty path, CONNECT), Host override (valid/invalid/injection), 0..8 header keys (canonical, non-canonical, names the writer handles itself, invalid names, multi/zero values, values with OWS, CR/LF/NUL), body nil / in-memory / scripted reader with Content-Length equal, unknown (0,-1) or wrong, sizes around 0,1,4 KiB,16 KiB,32 KiB,64 KiB and 1 MiB, read scripts incl. zero-length reads, Request.Close, extra headers, proxy form, bufio or plain writer; a fifth of the cases in header-order mode; non-trivial = origin oracle applied")
	s.OracleIndependent = false
	c01LaneH1(t, s, "plain", verifh.N(5000, 60000))
	s.Need(t, "plain-mode", "order-mode", "chunked", "content-length", "no-body", "oracle-applied", "err:bodylen", "err:clnil", "err:ctl")
	s.Finish()
}

// TestVerif_C16_h1wire: the same byte-exact HTTP/1.1 capture with the generator turned towards
// header sets and orders: up to 60 keys, header-order lists in nearly every case (subset,
// superset, other case, duplicated, full), names differing only in case, non-canonical spellings.
func TestVerif_C16_h1wire(t *testing.T) {
	s := c01New(t, "C16", "h1wire",
		"as C01/h1write but 0..60 header keys (around the 12-element boundary of the old sort in a quarter of the cases), a __header_order__ list in 7 of 8 cases (subset / superset with absent names / other case / duplicated / full, shuffled), canonical and non-canonical spellings of one name, bookkeeping keys present; compared: request line, multiset of header lines, listed names in wire order, body; oracle: net/http.ReadRequest sees every caller value once, no bookkeeping key, listed headers in list order; non-trivial = oracle applied")
	c01LaneH1(t, s, "order", verifh.N(4000, 60000))
	s.Need(t, "order-mode", "plain-mode", "oracle-applied", "chunked", "content-length")
	s.Finish()
}
