//go:build verif

package req

// C19 round-7 lane `latetls`: a client-level TLS setting applies to every LATER request of that
// client — also when the client has already fired requests over the protocol in question (lazily
// initialised round trippers: the HTTP/3 one derives per-dial state in a sync.Once), and then the
// client and a clone taken after the change behave alike.
//
//   protocol   HTTP/1.1 over TLS, HTTP/2 over TLS, HTTP/3 (EnableForceHTTP3; QUIC origins of the harness)
//   who        the original, a clone, a clone of a clone — each having fired its OWN first request
//              (failed or successful) over that protocol before the setter
//   setter     skip-on    first request fails (unknown CA) -> EnableInsecureSkipVerify -> next succeeds
//              skip-off   verification off, request to origin A succeeds -> DisableInsecureSkipVerify ->
//                         a request that needs a NEW connection (origin B) must fail
//              roots      first request fails -> SetRootCertFromString(the origin's CA) -> next succeeds
//              config     first request fails -> SetTLSClientConfig(a new config that skips verification)
//                         -> next succeeds
//   afterwards a clone taken after the setter gives the same verdict as the client itself, and a
//              sibling (a clone taken BEFORE the setter) still gives the old one.
// Judged by a Go-side oracle (success / certificate error per request, protocol seen by the origin).

import (
	"crypto/ecdsa"
	"crypto/elliptic"
	"crypto/rand"
	"crypto/tls"
	"crypto/x509"
	"crypto/x509/pkix"
	"encoding/pem"
	"fmt"
	"io"
	"log"
	"math/big"
	"net"
	"net/http"
	"net/http/httptest"
	"testing"
	"time"

	"github.com/imroc/req/v3/internal/verifh"
	qhttp3 "github.com/quic-go/quic-go/http3"
)

// c19TLSOrigin is one origin with a certificate nobody trusts and the PEM of the CA that signed it.
type c19TLSOrigin struct {
	url   string
	caPEM string
	close func()
}

func c19SelfSigned() (tls.Certificate, string) {
	key, err := ecdsa.GenerateKey(elliptic.P256(), rand.Reader)
	if err != nil {
		panic(err)
	}
	tmpl := &x509.Certificate{
		SerialNumber:          big.NewInt(time.Now().UnixNano()),
		Subject:               pkix.Name{CommonName: "verif-c19-latetls"},
		NotBefore:             time.Now().Add(-time.Hour),
		NotAfter:              time.Now().Add(24 * time.Hour),
		KeyUsage:              x509.KeyUsageDigitalSignature | x509.KeyUsageCertSign,
		ExtKeyUsage:           []x509.ExtKeyUsage{x509.ExtKeyUsageServerAuth},
		BasicConstraintsValid: true,
		IsCA:                  true,
		IPAddresses:           []net.IP{net.ParseIP("127.0.0.1")},
	}
	der, err := x509.CreateCertificate(rand.Reader, tmpl, tmpl, &key.PublicKey, key)
	if err != nil {
		panic(err)
	}
	return tls.Certificate{Certificate: [][]byte{der}, PrivateKey: key},
		string(pem.EncodeToMemory(&pem.Block{Type: "CERTIFICATE", Bytes: der}))
}

func c19NewTLSOrigin(proto string) *c19TLSOrigin {
	h := http.HandlerFunc(func(rw http.ResponseWriter, r *http.Request) { rw.Write([]byte(r.Proto)) })
	cert, ca := c19SelfSigned()
	switch proto {
	case "h3":
		pc, err := net.ListenUDP("udp", &net.UDPAddr{IP: net.ParseIP("127.0.0.1")})
		if err != nil {
			panic(err)
		}
		srv := &qhttp3.Server{TLSConfig: qhttp3.ConfigureTLSConfig(&tls.Config{Certificates: []tls.Certificate{cert}}), Handler: h}
		go srv.Serve(pc)
		return &c19TLSOrigin{"https://" + pc.LocalAddr().String(), ca, func() { srv.Close(); pc.Close() }}
	default:
		s := httptest.NewUnstartedServer(h)
		s.TLS = &tls.Config{Certificates: []tls.Certificate{cert}, NextProtos: []string{"http/1.1"}}
		if proto == "h2-tls" {
			s.TLS.NextProtos = nil
			s.EnableHTTP2 = true
		}
		s.Config.ErrorLog = log.New(io.Discard, "", 0)
		s.StartTLS()
		return &c19TLSOrigin{s.URL, ca, s.Close}
	}
}

func TestVerif_C19_latetls(t *testing.T) {
	s := verifh.New(t, "C19", "latetls",
		"end-to-end: protocols HTTP/1.1+TLS, HTTP/2+TLS, HTTP/3 (forced; QUIC origins) x client (original, clone, clone of clone) that has fired its own first request over that protocol (failed or successful) x client-level TLS setter made AFTER it (EnableInsecureSkipVerify, DisableInsecureSkipVerify before a request that needs a new connection, SetRootCertFromString of the origin's CA, SetTLSClientConfig with a new config): the client's next request obeys the setter, a clone taken after the setter gives the same verdict, a sibling taken before it the old one; judged by a Go-side oracle")
	protos := []struct{ name, want string }{{"h1-tls", "HTTP/1.1"}, {"h2-tls", "HTTP/2.0"}, {"h3", "HTTP/3.0"}}
	nChecks := 0
	obs := func(id string, ok bool, detail string) {
		s.Observe(id, ok, "", true, id, detail)
		s.Count("check")
		nChecks++
		if !ok {
			s.Count("failed")
		}
	}
	// verdict of one request: "" = served over the wanted protocol, else the error
	get := func(c *Client, o *c19TLSOrigin, want string) string {
		r := c19Send(c, o.url, "latetls")
		switch {
		case r.hung:
			return "hung"
		case r.err != nil:
			return "error: " + r.err.Error()
		case r.resp.String() != want:
			return fmt.Sprintf("served over %q, want %q", r.resp.String(), want)
		}
		return ""
	}
	for _, pr := range protos {
		if pr.name == "h3" && C().EnableForceHTTP3().t3 == nil {
			s.Count("h3-unavailable")
			continue
		}
		for depth := 0; depth < 3; depth++ {
			for _, setter := range []string{"skip-on", "skip-off", "roots", "config"} {
				pr, depth, setter := pr, depth, setter
				id := fmt.Sprintf("%s/depth%d/%s", pr.name, depth, setter)
				s.Begin(id, id)
				ptxt, panicked := verifh.Safely(func() {
					a, b := c19NewTLSOrigin(pr.name), c19NewTLSOrigin(pr.name)
					defer a.close()
					defer b.close()
					c := C()
					c.SetLogger(nil)
					c.SetTimeout(10 * time.Second)
					if pr.name == "h3" {
						c.EnableForceHTTP3()
					}
					if setter == "skip-off" {
						c.EnableInsecureSkipVerify()
					}
					for i := 0; i < depth; i++ {
						c = c.Clone()
					}
					sibling := c.Clone()
					defer c.Transport.CloseIdleConnections()
					defer sibling.Transport.CloseIdleConnections()
					// the client's own first request over the protocol
					first := get(c, a, pr.want)
					wantFirstOK := setter == "skip-off"
					obs(id+"/first", (first == "") == wantFirstOK, fmt.Sprintf("first request (before the setter): %q, want success=%v", first, wantFirstOK))
					target := a
					switch setter {
					case "skip-on":
						c.EnableInsecureSkipVerify()
					case "skip-off":
						c.DisableInsecureSkipVerify()
						target = b // a request that needs a new connection
					case "roots":
						c.SetRootCertFromString(a.caPEM)
					case "config":
						c.SetTLSClientConfig(&tls.Config{InsecureSkipVerify: true, NextProtos: []string{"http/1.1", "h2"}})
					}
					wantOK := setter != "skip-off"
					got := get(c, target, pr.want)
					obs(id+"/client-obeys-setter", (got == "") == wantOK,
						fmt.Sprintf("request after the setter: %q, want success=%v (a client-level setting applies to every later request of the client)", got, wantOK))
					cl := c.Clone()
					defer cl.Transport.CloseIdleConnections()
					gotClone := get(cl, target, pr.want)
					obs(id+"/clone-taken-after-behaves-alike", (gotClone == "") == wantOK && (gotClone == "") == (got == ""),
						fmt.Sprintf("clone taken after the setter: %q; the client itself: %q; want success=%v for both", gotClone, got, wantOK))
					gotSib := get(sibling, target, pr.want)
					obs(id+"/sibling-unaffected", (gotSib == "") == wantFirstOK,
						fmt.Sprintf("clone taken before the setter: %q, want success=%v (as before the setter)", gotSib, wantFirstOK))
					// and once more on the client, over a connection that may be reused now
					again := get(c, target, pr.want)
					obs(id+"/client-still-obeys", (again == "") == wantOK, fmt.Sprintf("second request after the setter: %q, want success=%v", again, wantOK))
				})
				if panicked {
					s.Crash(id, id, ptxt, "")
				}
				s.Count("proto:" + pr.name)
				s.Count("setter:" + setter)
			}
		}
	}
	if nChecks < 120 {
		t.Errorf("lane latetls made only %d checks (expected >= 120)", nChecks)
	}
	s.Finish()
}
