//go:build verif

package req

import (
	"fmt"
	"io"
	"reflect"
	"strconv"
	"testing"
	"time"
	"unsafe"

	"github.com/imroc/req/v3/internal/verifh"
)

// ---- a virtual clock for the real progress automata ---------------------------------------------
//
// The automata ask time.Now() themselves. The harness keeps a VIRTUAL time (in hours) and, before
// every call, moves the automaton's last-report time so that `now - lastTime` is the virtual
// difference; after the call it looks whether the automaton moved its last-report time (it
// does so exactly when the interval test fired the callback) and follows it.

func (a *c17Auto) getTime(p reflect.Value) time.Time {
	f := p.Elem().Field(a.timeF)
	return reflect.NewAt(f.Type(), unsafe.Pointer(f.UnsafeAddr())).Elem().Interface().(time.Time)
}

type c17VirtClock struct {
	a        *c17Auto
	p        reflect.Value
	virtLast int // virtual time of the automaton's last-report time
	moved    []int
}

// before positions the automaton's time field for a call at virtual time now.
func (v *c17VirtClock) before(now int) time.Time {
	t := time.Now().Add(-time.Duration(now-v.virtLast) * time.Hour)
	c17SetField(v.p.Elem().Field(v.a.timeF), t)
	return t
}

// after follows the automaton if it moved its time field during the call.
func (v *c17VirtClock) after(set time.Time, now int) {
	if !v.a.getTime(v.p).Equal(set) {
		v.virtLast = now
		v.moved = append(v.moved, now)
	}
}

func c17SpacedOK(interval int, moved []int) bool {
	last := 0
	for _, m := range moved {
		if m-last < interval {
			return false
		}
		last = m
	}
	return true
}

func c17IntsOrDash(l []int) string {
	if len(l) == 0 {
		return "-"
	}
	return verifh.IntList(l)
}

// TestVerif_C17_progclock: the real callbackWriter / callbackReader under a virtual clock vs the
// explicit-clock model (Req.Client.ProgressClock: runWT / intervalTimesW, bitsR + runRC).
func TestVerif_C17_progclock(t *testing.T) {
	s := verifh.New(t, "C17", "progclock",
		"1..14 calls at virtual times that advance by 0,0,1,1,2,3,7 h per call (the automaton's last-report time, located by type, is positioned before each call so that now - lastTime is the virtual difference, and read back after it); interval 0,1,2,5 h; writer: results as in lane progw, total = true total | 0 | an intermediate count; reader: results as in lane progr, then Close. Compared with the model: the callback arguments AND the virtual times at which the automaton moved its last-report time (= the interval test fired). Oracle: counts strictly increasing, none above the bytes moved, successive interval reports at least one interval apart (the first at least one interval after creation), last = total for a known size (writer) / for any read sequence once closed (reader); non-trivial = at least 2 callbacks")
	r := s.Rand()
	wa, err := c17LocateWriter()
	if err != nil {
		t.Fatalf("cannot drive the real callbackWriter: %v", err)
	}
	ra, err := c17Locate(reflect.TypeOf(callbackReader{}), reflect.TypeOf((*io.ReadCloser)(nil)).Elem())
	if err != nil {
		t.Fatalf("cannot drive the real callbackReader: %v", err)
	}
	n := verifh.N(3000, 100000)
	buf := make([]byte, 100000)
	for i := 0; i < n; i++ {
		k := 1 + r.Intn(14)
		interval := verifh.Pick(r, []int{0, 1, 2, 2, 5})
		nows := make([]int, k)
		now := 0
		for j := range nows {
			now += verifh.Pick(r, []int{0, 0, 1, 1, 2, 3, 7})
			nows[j] = now
		}
		s.Count("interval-" + strconv.Itoa(interval) + "h")
		if i%2 == 0 { // ---- writer
			ns := make([]int, k)
			req := make([]int, k)
			var sum int64
			var counts []int64
			for j := range ns {
				sz := verifh.Pick(r, []int{1, 2, 100, 512, 4096, 32 * 1024, 100000})
				req[j] = sz
				switch r.Intn(8) {
				case 0:
					ns[j] = 0
				case 1:
					ns[j] = r.Intn(sz + 1)
				default:
					ns[j] = sz
				}
				if ns[j] > 0 {
					sum += int64(ns[j])
					counts = append(counts, sum)
				}
			}
			total := sum
			switch r.Intn(5) {
			case 0:
				total = 0
			case 1:
				if len(counts) > 0 {
					total = counts[r.Intn(len(counts))]
				}
			}
			var emitted []int64
			wp := wa.build(&c17ScriptWriter{ns: ns}, time.Duration(interval)*time.Hour, func(w int64) { emitted = append(emitted, w) }, total)
			vc := &c17VirtClock{a: wa, p: wp}
			w := wp.Interface().(io.Writer)
			if txt, bad := verifh.Safely(func() {
				for j := range ns {
					set := vc.before(nows[j])
					w.Write(buf[:req[j]])
					vc.after(set, nows[j])
				}
			}); bad {
				s.Crash("progclock-w", fmt.Sprint(ns), txt, "")
				continue
			}
			ok := c17ProgressOracle(emitted, counts, sum) && c17SpacedOK(interval, vc.moved)
			if total == sum && sum > 0 {
				ok = ok && len(emitted) > 0 && emitted[len(emitted)-1] == sum
				s.Count("writer-known-size")
			}
			if len(emitted) < len(counts) {
				s.Count("writer-skipped-some")
			}
			s.Count("writer")
			s.Case(fmt.Sprintf("c17progwt %d %d 0 %s %s", total, interval, verifh.IntList(ns), verifh.IntList(nows)),
				c17Ints64(emitted)+" "+c17IntsOrDash(vc.moved), ok, "", len(emitted) >= 2,
				fmt.Sprintf("writer total=%d interval=%dh results=%v at=%v -> reports %v, interval test fired at %v", total, interval, ns, nows, emitted, vc.moved))
			continue
		}
		// ---- reader, then Close
		ns := make([]int, k)
		errs := make([]int, k)
		var sum int64
		var counts []int64
		eofAt := -1
		for j := range ns {
			switch r.Intn(6) {
			case 0:
				ns[j] = 0
			default:
				ns[j] = verifh.Pick(r, []int{1, 7, 512, 4096, 32 * 1024, 65536})
			}
			switch {
			case eofAt >= 0:
				ns[j], errs[j] = 0, 1
			case r.Intn(10) == 0:
				errs[j], eofAt = 1, j
			case r.Intn(14) == 0:
				errs[j] = 2
			}
			if ns[j] > 0 {
				sum += int64(ns[j])
			}
			counts = append(counts, sum)
		}
		var emitted []int64
		rp := ra.build(&c17ScriptReader{ns: ns, errs: errs}, time.Duration(interval)*time.Hour, func(n int64) { emitted = append(emitted, n) }, 0)
		vc := &c17VirtClock{a: ra, p: rp}
		cr := rp.Interface().(io.ReadCloser)
		beforeClose := 0
		if txt, bad := verifh.Safely(func() {
			for j := range ns {
				set := vc.before(nows[j])
				cr.Read(buf[:70000])
				vc.after(set, nows[j])
			}
			beforeClose = len(emitted)
			cr.Close()
		}); bad {
			s.Crash("progclock-r", fmt.Sprint(ns), txt, "")
			continue
		}
		ok := c17ProgressOracle(emitted, counts, sum) && c17SpacedOK(interval, vc.moved)
		if sum > 0 {
			ok = ok && len(emitted) > 0 && emitted[len(emitted)-1] == sum
		}
		class := ""
		if sum > 0 && (beforeClose == 0 || emitted[beforeClose-1] != sum) {
			// the reads alone did not report the final count: it is Close that must
			class = "c17-download-final-close"
			s.Count("reader-final-by-close")
		}
		eofBits := make([]int, k)
		for j := range errs {
			if errs[j] == 1 {
				eofBits[j] = 1
			}
		}
		s.Count("reader")
		s.Case(fmt.Sprintf("c17progrt %d 0 %s %s %s", interval, verifh.IntList(ns), verifh.IntList(eofBits), verifh.IntList(nows)),
			c17Ints64(emitted), ok, class, len(emitted) >= 2,
			fmt.Sprintf("reader interval=%dh results=%v errs=%v at=%v then Close -> reports %v (%d before Close)", interval, ns, errs, nows, emitted, beforeClose))
	}
	s.Finish()
}
