//go:build verif

package req

// C04 — connection-level attribution, model-judged: SEQUENCES of 2..5 requests (GET / HEAD /
// POST with Expect: 100-continue; Request.Close; body read fully, partly, or closed at once)
// through the fork's Transport and through net/http.Transport (go1.23.5, second opinion) over
// the same scripted in-memory network of several connections. Each connection is a list of
// segments: segment j is released once the j-th request on that connection has been written;
// after the last one the peer closes or keeps the connection open. The Lean model
// (`c04conn` = Req.H1.transportRun) predicts the FULL per-request view — status line, header
// map, ContentLength/TransferEncoding/Close, body bytes read, how the body ended, trailers,
// error — and the number of connections dialled.

import (
	"context"
	"fmt"
	"io"
	"log"
	"math/rand"
	"net"
	"net/http"
	"os"
	"strconv"
	"strings"
	"sync"
	"testing"
	"time"

	"github.com/imroc/req/v3/internal/verifh"
	"golang.org/x/net/http/httpguts"
)

// ---------------------------------------------------------------------------- scripted network

type c04sConn struct {
	mu     sync.Mutex
	cond   *sync.Cond
	segs   []string
	eof    bool // after the last segment: EOF (else: silence)
	cur    int
	off    int
	reqs   int
	wtail  []byte
	closed bool
	max    int // max bytes per Read (0 = unlimited)
}

func (c *c04sConn) Read(p []byte) (int, error) {
	c.mu.Lock()
	defer c.mu.Unlock()
	for {
		if c.closed {
			return 0, net.ErrClosed
		}
		if c.cur < len(c.segs) && c.reqs > c.cur {
			sg := c.segs[c.cur]
			if c.off < len(sg) {
				n := len(sg) - c.off
				if n > len(p) {
					n = len(p)
				}
				if c.max > 0 && n > c.max {
					n = c.max
				}
				copy(p, sg[c.off:c.off+n])
				c.off += n
				return n, nil
			}
			if c.cur == len(c.segs)-1 {
				if c.eof {
					return 0, io.EOF
				}
			} else {
				c.cur++
				c.off = 0
				continue
			}
		}
		if len(c.segs) == 0 && c.eof && c.reqs > 0 {
			return 0, io.EOF
		}
		c.cond.Wait()
	}
}

func (c *c04sConn) Write(p []byte) (int, error) {
	c.mu.Lock()
	defer c.mu.Unlock()
	if c.closed {
		return 0, net.ErrClosed
	}
	c.wtail = append(c.wtail, p...)
	for {
		i := strings.Index(string(c.wtail), "\r\n\r\n")
		if i < 0 {
			break
		}
		c.reqs++
		c.wtail = c.wtail[i+4:]
	}
	if len(c.wtail) > 3 {
		c.wtail = c.wtail[len(c.wtail)-3:]
	}
	c.cond.Broadcast()
	return len(p), nil
}

func (c *c04sConn) Close() error {
	c.mu.Lock()
	c.closed = true
	c.cond.Broadcast()
	c.mu.Unlock()
	return nil
}
func (c *c04sConn) LocalAddr() net.Addr                { return &net.TCPAddr{IP: net.IPv4(127, 0, 0, 1), Port: 1} }
func (c *c04sConn) RemoteAddr() net.Addr               { return &net.TCPAddr{IP: net.IPv4(127, 0, 0, 1), Port: 80} }
func (c *c04sConn) SetDeadline(t time.Time) error      { return nil }
func (c *c04sConn) SetReadDeadline(t time.Time) error  { return nil }
func (c *c04sConn) SetWriteDeadline(t time.Time) error { return nil }

type c04sScript struct {
	segs []string
	eof  bool
}

type c04sNet struct {
	mu      sync.Mutex
	scripts []c04sScript
	dials   int
	max     int
	conns   []*c04sConn
}

func (n *c04sNet) dial(ctx context.Context, network, addr string) (net.Conn, error) {
	n.mu.Lock()
	defer n.mu.Unlock()
	if n.dials >= len(n.scripts) {
		n.dials++
		return nil, fmt.Errorf("c04s: no scripted connection left")
	}
	sc := n.scripts[n.dials]
	n.dials++
	c := &c04sConn{segs: sc.segs, eof: sc.eof, max: n.max}
	c.cond = sync.NewCond(&c.mu)
	n.conns = append(n.conns, c)
	return c, nil
}

func (n *c04sNet) nDials() int { n.mu.Lock(); defer n.mu.Unlock(); return n.dials }

func (n *c04sNet) closeAll() {
	n.mu.Lock()
	defer n.mu.Unlock()
	for _, c := range n.conns {
		c.Close()
	}
}

// ---------------------------------------------------------------------------- requests

type c04sReq struct {
	method   string // GET | HEAD | POST (POST = Expect: 100-continue with a body)
	close    bool
	part     int // -1 = read to the end; k >= 0 = read k bytes, then Close
	readSize int
	rawN     int // raw bytes to read from the connection after a protocol switch
}

func (q c04sReq) token() string {
	t := "G"
	if q.method == "HEAD" {
		t = "H"
	}
	if q.close {
		t += "c"
	} else {
		t += "k"
	}
	if q.method == "POST" {
		t += "e"
	} else {
		t += "n"
	}
	if q.part < 0 {
		return t + "F"
	}
	return t + "P" + strconv.Itoa(q.part)
}

// c04sView performs one request and renders what the caller observes.
func c04sView(rt http.RoundTripper, q c04sReq) string {
	var body io.Reader
	if q.method == "POST" {
		body = strings.NewReader("x=1&verif=c04")
	}
	rq, _ := http.NewRequest(q.method, "http://c04s.invalid/x", body)
	if q.method == "POST" {
		rq.Header.Set("Expect", "100-continue")
		rq.Header.Set("Idempotency-Key", "k1") // replayable, like GET/HEAD
	}
	rq.Close = q.close
	resp, err := rt.RoundTrip(rq)
	if err != nil || resp == nil {
		return "fail"
	}
	te := "0"
	if len(resp.TransferEncoding) == 1 && resp.TransferEncoding[0] == "chunked" {
		te = "1"
	} else if len(resp.TransferEncoding) != 0 {
		te = "?" + strings.Join(resp.TransferEncoding, ",")
	}
	cl := "0"
	if resp.Close {
		cl = "1"
	}
	head := "ok proto=" + verifh.Hex(resp.Proto) + " status=" + verifh.Hex(resp.Status) +
		" code=" + strconv.Itoa(resp.StatusCode) +
		" hdr=" + c04RenderMap(resp.Header) + " cl=" + strconv.FormatInt(resp.ContentLength, 10) +
		" te=" + te + " close=" + cl
	if resp.Uncompressed {
		head += " UNCOMPRESSED"
	}
	var data []byte
	end := ""
	if resp.StatusCode == 101 && resp.Header.Get("Upgrade") != "" && httpguts.HeaderValuesContainsToken(resp.Header["Connection"], "Upgrade") {
		// protocol switch: the body is the connection. (Recognised by status and headers, not by
		// resp.Body.(io.Writer): with response-body dump on the fork wraps the body and the
		// writer side is lost — a dump-transparency matter, C13's, not judged here.)
		data = make([]byte, q.rawN)
		n, _ := io.ReadFull(resp.Body, data)
		data = data[:n]
		end = "raw"
	} else if q.part < 0 {
		buf := make([]byte, q.readSize)
		for i := 0; ; i++ {
			n, rerr := resp.Body.Read(buf)
			data = append(data, buf[:n]...)
			if rerr == io.EOF {
				end = "eof"
				break
			}
			if rerr != nil {
				end = "err"
				break
			}
			if i > 1<<20 {
				end = "spin"
				break
			}
		}
	} else {
		end = "closed"
		buf := make([]byte, q.part)
		for got := 0; got < q.part; {
			n, rerr := resp.Body.Read(buf[got:])
			got += n
			data = append(data, buf[got-n:got]...)
			if rerr == io.EOF {
				end = "eof"
				break
			}
			if rerr != nil {
				end = "err"
				break
			}
		}
	}
	trailer := c04RenderMap(resp.Trailer)
	resp.Body.Close()
	return head + " body=" + verifh.Hex(string(data)) + " end=" + end + " trailer=" + trailer
}

// c04sRun performs the whole sequence through rt.
// pause: wait before every request after the first (only used when a disagreement is re-run: it
// lets the read loop finish its unsolicited-bytes check before the caller comes back).
func c04sRun(rt http.RoundTripper, reqs []c04sReq, nw *c04sNet, pause time.Duration) string {
	var views []string
	for i, q := range reqs {
		if i > 0 && pause > 0 {
			time.Sleep(pause)
		}
		ch := make(chan string, 1)
		q := q
		go func() { ch <- c04sView(rt, q) }()
		select {
		case v := <-ch:
			views = append(views, v)
		case <-time.After(6 * time.Second):
			nw.closeAll()
			views = append(views, "hang")
			<-ch
		}
	}
	return strings.Join(views, " | ") + " dials=" + strconv.Itoa(nw.nDials())
}

// ---------------------------------------------------------------------------- generator

type c04sMsg struct {
	wire  string
	body  string // the true body (what a full read returns) when known
	keep  bool   // the generator expects the connection to be reusable afterwards
	hasB  bool   // readLoop's hasBody: a body reader is installed (early Close forbids reuse)
	wbody int    // length of the body part of wire (framing included)
	isLen bool   // Content-Length framing
	tags  []string
	known bool // body is known (well-formed message)
}

func c04sChunked(r *rand.Rand, body string, tags *[]string) string {
	enc := ""
	for rest := body; len(rest) > 0; {
		k := 1 + r.Intn(len(rest))
		if r.Intn(3) == 0 && len(rest) > 6 {
			k = 1 + r.Intn(6)
		}
		ext := ""
		if r.Intn(10) == 0 {
			ext = ";e=" + strings.Repeat("x", r.Intn(5))
			*tags = append(*tags, "chunk-ext")
		}
		sz := strconv.FormatInt(int64(k), 16)
		if r.Intn(8) == 0 {
			sz = strings.ToUpper("0" + sz)
		}
		enc += sz + ext + "\r\n" + rest[:k] + "\r\n"
		rest = rest[k:]
	}
	return enc + "0\r\n"
}

// c04sGenMsg: one well-formed response for a request with the given method; id marks the body
// with the (connection, segment) it was scripted on, so that attribution is visible.
func c04sGenMsg(r *rand.Rand, head bool, expect bool, id string, B int, last bool) c04sMsg {
	var m c04sMsg
	m.known = true
	tag := func(s string) { m.tags = append(m.tags, s) }
	status := c04W(r, []string{"200", "201", "404", "500", "204", "304", "101-plain", "101-upgrade", "042", "007", "099", "199-final", "205"},
		[]int{30, 3, 3, 3, 4, 4, 4, 3, 3, 1, 1, 0, 1})
	proto := c04W(r, []string{"HTTP/1.1", "HTTP/1.0", "HTTP/2.0", "HTTP/1.2"}, []int{40, 6, 1, 1})
	n := 0
	switch r.Intn(8) {
	case 0:
		n = 0
	case 1:
		n = verifh.Pick(r, []int{1, 2, B - 1, B, B + 1})
		if B == 4096 && r.Intn(3) != 0 {
			n = 1 + r.Intn(8)
		}
	default:
		n = r.Intn(40)
	}
	body := id + ":" + verifh.RandBytes(r, n, "abcdefghijklmnopqrstuvwxyz0123456789\r\n")
	if n == 0 && r.Intn(2) == 0 {
		body = ""
	}
	var hdr []string
	add := func(k, v string) { hdr = append(hdr, k+": "+v) }
	code := status
	wireBody := ""
	m.keep = true
	switch status {
	case "101-plain":
		code = "101"
		tag("101-plain")
		m.keep = false
		body = ""
		if r.Intn(2) == 0 {
			add("X-A", "b")
		}
		if r.Intn(3) == 0 {
			add("Upgrade", "verif") // Upgrade without Connection: Upgrade is no switch either
		}
	case "101-upgrade":
		code = "101"
		tag("101-upgrade")
		m.keep = false
		add("Connection", verifh.Pick(r, []string{"Upgrade", "upgrade", "keep-alive, Upgrade"}))
		add("Upgrade", "verif")
		body = ""
	default:
		noBody := code == "204" || code == "304"
		if code[0] == '0' {
			tag("status<100")
			m.keep = false
		}
		framing := c04W(r, []string{"len", "chunked", "close"}, []int{10, 10, 2})
		if framing == "close" && !last {
			framing = "len"
		}
		if framing == "chunked" && (proto == "HTTP/1.0") {
			framing = "len"
		}
		switch {
		case noBody:
			tag("no-body-status")
			switch r.Intn(3) {
			case 0:
				add("Content-Length", strconv.Itoa(len(body)))
			case 1:
				add("Transfer-Encoding", "chunked")
			}
			body = ""
		case framing == "chunked":
			tag("chunked")
			add("Transfer-Encoding", "chunked")
			if r.Intn(6) == 0 {
				add("Content-Length", strconv.Itoa(len(body)+r.Intn(3))) // ignored and removed
				tag("te+cl")
			}
			trailer := ""
			switch r.Intn(5) {
			case 0:
				tag("trailer")
				trailer = "X-T: " + id + "\r\n"
				if r.Intn(2) == 0 {
					add("Trailer", verifh.Pick(r, []string{"X-T", "x-t, X-U"}))
					tag("trailer-declared")
				}
			case 1:
				if r.Intn(2) == 0 {
					add("Trailer", "X-Never")
					tag("trailer-declared")
				}
			}
			wireBody = c04sChunked(r, body, &m.tags) + trailer + "\r\n"
			m.hasB = !head
			if head {
				wireBody = ""
			}
		case framing == "close":
			tag("until-close")
			m.keep = false
			m.hasB = !head
			wireBody = body
			if proto != "HTTP/1.0" && r.Intn(2) == 0 {
				add("Connection", "close")
			}
			if head {
				wireBody = ""
			}
		default:
			tag("len")
			add("Content-Length", strconv.Itoa(len(body)))
			if r.Intn(12) == 0 {
				add("Content-Length", strconv.Itoa(len(body))) // duplicate, equal
				tag("dup-cl")
			}
			wireBody = body
			m.hasB = !head && len(body) > 0
			if head {
				wireBody = ""
			}
		}
		if head {
			body = ""
			tag("HEAD")
		}
	}
	switch r.Intn(9) {
	case 0:
		if code != "101" {
			add("Connection", verifh.Pick(r, []string{"close", "Close", "x, close"}))
			tag("conn-close")
			m.keep = false
		}
	case 1:
		if code != "101" {
			add("Connection", verifh.Pick(r, []string{"keep-alive", "Keep-Alive", "x, keep-alive"}))
			tag("conn-keep-alive")
			if proto == "HTTP/1.0" {
				tag("1.0-keep-alive")
			}
		}
	}
	if proto == "HTTP/1.0" {
		tag("1.0")
		keepAlive := false
		for _, t := range m.tags {
			if t == "conn-keep-alive" {
				keepAlive = true
			}
		}
		if !keepAlive {
			m.keep = false
		}
	}
	if r.Intn(4) == 0 {
		add("X-Pad", strings.Repeat("p", verifh.Pick(r, []int{1, 3, B - 8, B, 40})))
	}
	if r.Intn(8) == 0 {
		add("Set-Cookie", "a=1")
		add("Set-Cookie", "b=2")
	}
	r.Shuffle(len(hdr), func(i, j int) { hdr[i], hdr[j] = hdr[j], hdr[i] })
	wire := ""
	// informational responses in front (readResponse skips at most 5 non-101 ones)
	n1 := 0
	if expect && r.Intn(3) != 0 {
		wire += "HTTP/1.1 100 Continue\r\n\r\n"
		n1++
		tag("100-continue")
	}
	if r.Intn(6) == 0 {
		k := verifh.Pick(r, []int{1, 2, 4, 5, 5, 6})
		for i := 0; i < k; i++ {
			wire += verifh.Pick(r, []string{"HTTP/1.1 100 Continue\r\n\r\n", "HTTP/1.1 103 Early Hints\r\nLink: </a>; rel=preload\r\n\r\n",
				"HTTP/1.1 199 Misc\r\nContent-Length: 5\r\n\r\n", "HTTP/1.1 102 Processing\r\nTransfer-Encoding: chunked\r\n\r\n", "HTTP/1.0 100 Continue\r\nConnection: close\r\n\r\n"})
		}
		n1 += k
		tag("1xx-burst")
		if n1 > 5 {
			tag("1xx-too-many")
			m.keep = false
		}
	}
	wire += proto + " " + code + " S\r\n"
	for _, h := range hdr {
		wire += h + "\r\n"
	}
	wire += "\r\n" + wireBody
	m.wire = wire
	m.body = body
	m.wbody = len(wireBody)
	for _, t := range m.tags {
		if t == "len" {
			m.isLen = true
		}
	}
	return m
}

type c04sCase struct {
	reqs    []c04sReq
	scripts []c04sScript
	B       int
	max     int
	tags    []string
}

func c04sFiller(id string) string {
	b := id + ":filler"
	return "HTTP/1.1 200 OK\r\nContent-Length: " + strconv.Itoa(len(b)) + "\r\n\r\n" + b
}

func c04sGenCase(r *rand.Rand, g *c04Gen) c04sCase {
	var c c04sCase
	tag := func(s string) { c.tags = append(c.tags, s) }
	c.B = verifh.Pick(r, []int{16, 64, 4096})
	c.max = verifh.Pick(r, []int{0, 0, 1, 7, c.B - 1, c.B, c.B + 1})
	nreq := 2 + r.Intn(4)
	// every connection gets a segment for every request it could still serve, so that no path
	// (whatever the reuse decisions are) runs into a silent peer; segments off the expected
	// path are fillers with a body naming their position
	c.scripts = make([]c04sScript, nreq)
	for ci := range c.scripts {
		segs := make([]string, nreq-ci)
		for j := range segs {
			segs[j] = c04sFiller(fmt.Sprintf("c%ds%d", ci, j))
		}
		c.scripts[ci] = c04sScript{segs: segs}
	}
	ci, sj := 0, 0 // expected position of the next request
	truncated := map[int]bool{}
	for i := 0; i < nreq; i++ {
		q := c04sReq{method: c04W(r, []string{"GET", "HEAD", "POST"}, []int{14, 3, 3}), part: -1, readSize: verifh.Pick(r, []int{1, 3, 7, 64, 512, 4096})}
		if r.Intn(12) == 0 {
			q.close = true
			tag("req-close")
		}
		id := fmt.Sprintf("c%ds%d", ci, sj)
		last := false
		keep := true
		seg := ""
		kind := c04W(r, []string{"msg", "msg+unsolicited", "hostile", "idle-closed", "msg-then-eof", "split-early"}, []int{60, 10, 8, 4, 6, 7})
		if kind == "idle-closed" && (sj == 0 || q.method == "POST") {
			kind = "msg"
		}
		if kind == "idle-closed" {
			// the peer closes the idle connection when the next request arrives: the request is
			// sent again on a new connection, whose first segment answers it
			tag("idle-closed")
			c.scripts[ci].segs[sj] = ""
			c.scripts[ci].segs = c.scripts[ci].segs[:sj+1]
			c.scripts[ci].eof = true
			truncated[ci] = true
			ci, sj = ci+1, 0
			for ci < nreq && truncated[ci] {
				ci++
			}
			if ci >= nreq {
				ci = nreq - 1
			}
			id = fmt.Sprintf("c%ds%d", ci, sj)
			kind = "msg"
		}
		switch kind {
		case "hostile":
			// the byte-level grammar of the ref lane, through the real Transports; always the last
			// thing on its connection, which the peer then closes
			tag("hostile")
			seg = g.response()
			if r.Intn(5) == 0 && len(seg) > 0 {
				seg = seg[:r.Intn(len(seg)+1)]
			}
			if r.Intn(4) == 0 {
				seg = g.mutate(seg)
			}
			if seg == "" {
				seg = "X"
			}
			last, keep = true, false
			if r.Intn(4) == 0 {
				q.part = 0
			}
		default:
			if kind == "msg-then-eof" {
				last = true
				tag("msg-then-eof")
			}
			m := c04sGenMsg(r, q.method == "HEAD", q.method == "POST", id, c.B, last)
			for _, t := range m.tags {
				tag(t)
			}
			seg = m.wire
			keep = m.keep && !q.close
			for _, t := range m.tags {
				if t == "until-close" {
					last = true
				}
			}
			// how the caller consumes the body
			switch r.Intn(10) {
			case 0:
				q.part = 0
				tag("early-close")
				if m.hasB {
					keep = false
				}
			case 1, 2:
				if len(m.body) >= 2 {
					q.part = 1 + r.Intn(len(m.body)-1)
					tag("partial-read")
					keep = false
				}
			}
			if kind == "split-early" && m.hasB && m.wbody >= 2 && m.keep && !last && ci < len(c.scripts) && sj+1 < len(c.scripts[ci].segs) {
				// the peer is still in the middle of the body when the caller closes it; the rest of
				// the body arrives once the next request has been written to that connection (if one is)
				tag("split-early")
				a := 0 // bytes of the body part that have arrived (none: nothing is left unread)
				if r.Intn(2) == 0 {
					a = 1 + r.Intn(m.wbody-1)
				} else {
					tag("split-at-head")
				}
				q.part = 0
				if m.isLen && a >= 2 && r.Intn(2) == 0 {
					q.part = 1 + r.Intn(a-1)
				}
				cut := len(seg) - m.wbody + a
				c.scripts[ci].segs[sj+1] = seg[cut:] + c.scripts[ci].segs[sj+1]
				seg = seg[:cut]
				keep = false
			}
			if kind == "msg+unsolicited" {
				tag("unsolicited")
				extra := verifh.Pick(r, []string{c04sFiller("UNSOLICITED"), "HTTP/1.1 200 OK\r\n", "x", "\r\n", "HTTP/1.1 408 Request Timeout\r\nContent-Length: 0\r\n\r\n"})
				for _, t := range m.tags {
					if t == "101-upgrade" {
						q.rawN = len(extra) // after a protocol switch the bytes belong to the caller
						tag("switch-raw-bytes")
					}
				}
				seg += extra
				keep = false
			}
		}
		c.reqs = append(c.reqs, q)
		if ci < len(c.scripts) && sj < len(c.scripts[ci].segs) {
			c.scripts[ci].segs[sj] = seg
			if last {
				c.scripts[ci].segs = c.scripts[ci].segs[:sj+1]
				c.scripts[ci].eof = true
				truncated[ci] = true
				keep = false
			}
		}
		if keep {
			sj++
		} else {
			ci, sj = ci+1, 0
			for ci < nreq && truncated[ci] {
				ci++
			}
		}
		if ci >= nreq {
			ci, sj = nreq-1, 0 // (not reached on the expected path)
		}
	}
	return c
}

func (c c04sCase) line() string {
	toks := make([]string, len(c.reqs))
	for i, q := range c.reqs {
		toks[i] = q.token()
	}
	scs := make([]string, len(c.scripts))
	for i, sc := range c.scripts {
		f := "O"
		if sc.eof {
			f = "E"
		}
		scs[i] = f + ":" + verifh.HexList(sc.segs)
	}
	return "c04conn " + strconv.Itoa(c.B) + " " + strings.Join(toks, ",") + " " + strings.Join(scs, "|")
}

func (c c04sCase) human() string {
	var sb strings.Builder
	fmt.Fprintf(&sb, "B=%d read<=%d requests [", c.B, c.max)
	for i, q := range c.reqs {
		if i > 0 {
			sb.WriteString(" ")
		}
		sb.WriteString(q.method + ":" + q.token())
	}
	sb.WriteString("]")
	for i, sc := range c.scripts {
		fmt.Fprintf(&sb, " conn%d(eof=%v):", i, sc.eof)
		for _, sg := range sc.segs {
			sb.WriteString(" " + c04Short(sg))
		}
		if sb.Len() > 1500 {
			sb.WriteString(" …")
			break
		}
	}
	return sb.String()
}

// c04sRunFork: the fork's Transport; dumpOn: everything (request and response, headers and
// bodies) is dumped to a discarding writer — the property quantifies over dump on/off.
func c04sRunFork(c c04sCase, dumpOn bool, pause time.Duration) string {
	nwF := &c04sNet{scripts: c.scripts, max: c.max}
	tr := T()
	tr.DialContext = nwF.dial
	tr.DisableCompression = true
	tr.DisableAutoDecode()
	tr.ReadBufferSize = c.B
	if dumpOn {
		tr.EnableDump(&DumpOptions{Output: io.Discard, RequestHeader: true, RequestBody: true, ResponseHeader: true, ResponseBody: true})
		defer tr.DisableDump()
	}
	fork := c04sRun(tr, c.reqs, nwF, pause)
	tr.CloseIdleConnections()
	nwF.closeAll()
	return fork
}

func c04sRunBoth(c c04sCase, pause time.Duration) (fork, ref string) {
	mk := func() *c04sNet { return &c04sNet{scripts: c.scripts, max: c.max} }
	fork = c04sRunFork(c, false, pause)
	nwR := mk()
	rt := &http.Transport{DialContext: func(ctx context.Context, network, addr string) (net.Conn, error) { return nwR.dial(ctx, network, addr) },
		DisableCompression: true, ReadBufferSize: c.B, ExpectContinueTimeout: time.Second}
	ref = c04sRun(rt, c.reqs, nwR, pause)
	rt.CloseIdleConnections()
	nwR.closeAll()
	return
}

func TestVerif_C04_connseq(t *testing.T) {
	s := verifh.New(t, "C04", "connseq",
		"sequences of 2..5 requests (GET/HEAD/POST with Expect: 100-continue; Request.Close; body read to the end with read sizes 1..4096, k bytes then Close, Close at once) through the fork's Transport "+
			"and through net/http.Transport (go1.23.5) over the same scripted in-memory network: several connections, each a list of segments released when the j-th request on it has been written, then EOF or silence; "+
			"read buffer B in {16,64,4096}, connection reads capped at 1/7/B-1/B/B+1 bytes; messages: Content-Length/chunked(+extensions, trailers declared or not, with Content-Length)/until close, "+
			"200/201/404/500/204/304/205, terminal 101 without and with Upgrade (raw bytes after the switch), statuses below 100, HTTP/1.0/1.1/1.2/2.0, Connection close/keep-alive variants, duplicate Content-Length, "+
			"bursts of 1..6 informational responses (100/102/103/199, with framing headers), 100 Continue for Expect; unsolicited bytes behind a complete message (a whole response, a partial head, junk, a 408); "+
			"the hostile byte-level grammar of the ref lane (cut, mutated) as the last message of a connection; peer closing an idle connection when the next request arrives. "+
			"every third sequence also with the fork dumping everything (dump on must not change what is observed). Model-judged (c04conn = transportRun): full per-request view + dial count; second opinion fork == reference. non-trivial = at least two requests got a response")
	r := s.Rand()
	g := &c04Gen{r: r}
	n := verifh.N(2500, 25000)
	reached := map[string]int{}
	cnt := func(k string) { s.Count(k); reached[k]++ }
	defer log.SetOutput(log.Writer())
	log.SetOutput(io.Discard) // "Unsolicited response received on idle HTTP channel" (both transports)
	hangs := 0
	// Round 5: the model's answers are computed up front (one driver run over all cases), so that a
	// disagreement with the MODEL is handled like a disagreement with the reference: under load BOTH
	// transports can lose the unsolicited-bytes race in the same way (seen with VERIF_SEED=3 next to
	// ten other checks: matrix case `HTTP/1.0 304 … keep-alive` + leftover "x": fork = reference =
	// "second request fails on the same connection", model = "connection closed, second request on a
	// new one"); such a case must reproduce with the caller pausing between requests to count.
	modelOf := map[string]string{}
	modelReruns := 0
	runCase := func(i int, c c04sCase) {
		s.Begin(c.line(), c.human())
		fork, ref := c04sRunBoth(c, 0)
		// The unsolicited-bytes check is a race between the read loop and the caller's next
		// request in BOTH transports (lost about once in 2500 sequences on an idle machine, more
		// often under load; a lost race can also derail the rest of the sequence into a stall).
		// A disagreement must reproduce, with the caller pausing between requests, to count.
		want, haveModel := modelOf[c.line()]
		for _, pause := range []time.Duration{2 * time.Millisecond, 20 * time.Millisecond} {
			if hangs >= 4 {
				break
			}
			if fork != ref {
				cnt("rerun-after-disagreement")
			} else if haveModel && fork != want && modelReruns < 60 {
				cnt("rerun-after-model-disagreement")
				modelReruns++
			} else {
				break
			}
			fork, ref = c04sRunBoth(c, pause)
		}
		dumpNote := ""
		if i%3 == 0 && !strings.Contains(fork+ref, "hang") {
			// the same sequence with dump on must be observed identically
			cnt("dump-on-run")
			fd := c04sRunFork(c, true, 0)
			for _, pause := range []time.Duration{2 * time.Millisecond, 20 * time.Millisecond} {
				if fd == fork {
					break
				}
				cnt("rerun-after-disagreement")
				fd = c04sRunFork(c, true, pause)
			}
			if fd != fork {
				dumpNote = " BUT with dump on the fork: " + c04Short(fd)
			}
		}
		for _, tg := range c.tags {
			cnt("gen:" + tg)
		}
		cnt("requests=" + strconv.Itoa(len(c.reqs)))
		d := fork[strings.LastIndex(fork, " dials=")+1:]
		cnt(d)
		if strings.Contains(fork, "end=raw") {
			cnt("view:raw")
		}
		for _, e := range []string{"end=eof", "end=err", "end=closed", "fail", "hang"} {
			if strings.Contains(fork, e) {
				cnt("view:" + e)
			}
		}
		if strings.Contains(fork, "hang") || strings.Contains(ref, "hang") {
			hangs++ // each costs seconds; a handful is enough to report
		}
		nOK := strings.Count(fork, "ok proto=")
		human := c.human() + " -> " + c04Short(fork)
		if fork != ref {
			human += " BUT reference: " + c04Short(ref)
		}
		human += dumpNote
		s.Case(c.line(), fork, fork == ref && dumpNote == "", "", nOK >= 2, human)
	}
	// the keep-alive matrix first (deterministic, independent of VERIF_SEED): every combination of
	// the factors of the reuse decision in an otherwise clean two-request sequence
	matrix := c04sMatrix()
	gen := make([]c04sCase, 0, n)
	for i := 0; i < n; i++ {
		gen = append(gen, c04sGenCase(r, g)) // (running a case draws nothing from r)
	}
	{
		lines := make([]string, 0, len(matrix)+len(gen))
		for _, c := range matrix {
			lines = append(lines, c.line())
		}
		for _, c := range gen {
			lines = append(lines, c.line())
		}
		if ans, err := verifh.RunModel(lines); err == nil {
			for k, l := range lines {
				modelOf[l] = ans[k]
			}
		}
	}
	for i, c := range matrix {
		if hangs >= 4 {
			break
		}
		cnt("matrix")
		runCase(3*i+1, c) // (no dump-on re-run for these)
	}
	for i := 0; i < n && hangs < 4; i++ {
		runCase(i, gen[i])
	}
	s.Finish()
	for _, need := range []string{"gen:101-plain", "gen:101-upgrade", "gen:status<100", "gen:1.0", "gen:1.0-keep-alive", "gen:conn-close", "gen:chunked", "gen:trailer", "gen:HEAD",
		"gen:1xx-burst", "gen:1xx-too-many", "gen:100-continue", "gen:unsolicited", "gen:switch-raw-bytes", "gen:hostile", "gen:idle-closed", "gen:early-close", "gen:partial-read", "gen:req-close",
		"gen:until-close", "gen:msg-then-eof", "gen:split-early", "gen:split-at-head", "dump-on-run", "matrix", "dials=1", "dials=2", "dials=3", "view:end=eof", "view:end=err", "view:end=closed", "view:raw", "view:fail"} {
		if reached[need] == 0 {
			t.Errorf("C04/connseq never reached %q", need)
		}
	}
}

// TestVerifDbg_C04_connseq re-runs ONE sequence (VERIF_DBG_CONN = the `c04conn …` case line of a
// replay; VERIF_DBG_MAX = cap of connection reads, VERIF_DBG_N = repetitions) through both
// transports and prints how often each answer was observed — handy when reading a replay and for
// telling a deterministic difference from the unsolicited-bytes race.
func TestVerifDbg_C04_connseq(t *testing.T) {
	line := os.Getenv("VERIF_DBG_CONN")
	if line == "" {
		t.Skip()
	}
	f := strings.Fields(line)
	if len(f) != 4 || f[0] != "c04conn" {
		t.Fatalf("want: c04conn <B> <reqs> <scripts>")
	}
	var c c04sCase
	c.B, _ = strconv.Atoi(f[1])
	c.max, _ = strconv.Atoi(os.Getenv("VERIF_DBG_MAX"))
	for _, tok := range strings.Split(f[2], ",") {
		q := c04sReq{method: "GET", part: -1, readSize: 512}
		if tok[0] == 'H' {
			q.method = "HEAD"
		}
		q.close = tok[1] == 'c'
		if tok[2] == 'e' {
			q.method = "POST"
		}
		if tok[3] == 'P' {
			q.part, _ = strconv.Atoi(tok[4:])
		}
		q.rawN, _ = strconv.Atoi(os.Getenv("VERIF_DBG_RAWN"))
		c.reqs = append(c.reqs, q)
	}
	for _, sc := range strings.Split(f[3], "|") {
		p := strings.SplitN(sc, ":", 2)
		c.scripts = append(c.scripts, c04sScript{segs: verifh.UnHexList(p[1]), eof: p[0] == "E"})
	}
	n, _ := strconv.Atoi(os.Getenv("VERIF_DBG_N"))
	if n == 0 {
		n = 1
	}
	log.SetOutput(io.Discard)
	hf, hr, hd := map[string]int{}, map[string]int{}, map[string]int{}
	for i := 0; i < n; i++ {
		fork, ref := c04sRunBoth(c, 0)
		hf[fork]++
		hr[ref]++
		hd[c04sRunFork(c, true, 0)]++
	}
	for _, x := range []struct {
		n string
		h map[string]int
	}{{"fork", hf}, {"fork+dump", hd}, {"reference", hr}} {
		for a, k := range x.h {
			t.Logf("%s x%d: %s", x.n, k, a)
		}
	}
}

// c04sMatrix: two-request sequences [q, GET] over every combination of status x framing x protocol
// x Connection value x method x body consumption x leftover behind the message. conn0 holds the
// message and a filler for the second request, conn1 a filler: the answer shows on which
// connection the second request was served.
func c04sMatrix() []c04sCase {
	var out []c04sCase
	body := "c0s0:body"
	// round 6: Connection tokens that match only under Unicode folding (U+212A KELVIN SIGN in
	// keep-alive, U+017F LONG S in close, fullwidth U in Upgrade) are other tokens
	for _, status := range []string{"200", "204", "304", "101", "101-upgrade", "101-upgrade-fold", "042", "099", "500"} {
		for _, framing := range []string{"len", "chunked", "cl0"} {
			for _, proto := range []string{"HTTP/1.1", "HTTP/1.0"} {
				for _, conn := range []string{"", "close", "keep-alive", "x, Close", "keep-alive, close", "x-foo\r\nConnection: close", "x-foo\r\nconnection: keep-alive", "not close", "Keep-alive", "cloſe"} {
					for _, method := range []string{"GET", "HEAD"} {
						for _, part := range []int{-1, 0, 1} {
							for _, leftover := range []string{"", "x"} {
								if framing == "chunked" && proto == "HTTP/1.0" {
									continue // Transfer-Encoding is ignored on 1.0: the body would be until close
								}
								code := status
								hdr := ""
								if status == "101-upgrade" || status == "101-upgrade-fold" {
									code = "101"
									hdr += "Upgrade: verif\r\n"
									tok := "Upgrade"
									if status == "101-upgrade-fold" {
										tok = "Ｕpgrade"
									}
									if conn == "" {
										hdr += "Connection: " + tok + "\r\n"
									} else {
										hdr += "Connection: " + tok + ", " + conn + "\r\n"
									}
								} else if conn != "" {
									hdr += "Connection: " + conn + "\r\n"
								}
								noBody := code == "204" || code == "304" || code == "101" || method == "HEAD"
								wireBody := ""
								switch framing {
								case "len":
									hdr += "Content-Length: " + strconv.Itoa(len(body)) + "\r\n"
									wireBody = body
								case "chunked":
									hdr += "Transfer-Encoding: chunked\r\n"
									wireBody = "4\r\n" + body[:4] + "\r\n5\r\n" + body[4:] + "\r\n0\r\n\r\n"
								case "cl0":
									hdr += "Content-Length: 0\r\n"
								}
								if noBody {
									wireBody = ""
								}
								msg := proto + " " + code + " S\r\n" + hdr + "\r\n" + wireBody + leftover
								q := c04sReq{method: method, part: part, readSize: 512}
								if status == "101-upgrade" {
									q.rawN = len(leftover)
								}
								out = append(out, c04sCase{
									reqs:    []c04sReq{q, {method: "GET", part: -1, readSize: 512}},
									scripts: []c04sScript{{segs: []string{msg, c04sFiller("c0s1")}}, {segs: []string{c04sFiller("c1s0")}}},
									B:       4096,
								})
							}
						}
					}
				}
			}
		}
	}
	return out
}
