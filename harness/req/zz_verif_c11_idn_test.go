//go:build verif

package req

// Lane idn: host identity for authorities with non-ASCII bytes (internationalized names written in
// Unicode, in any case, in punycode, with full-width letters / ideographic dots, invalid UTF-8).
// The Lean model is ASCII-only (strings.ToLower = ASCII lower-casing there), so this lane is judged
// by an oracle alone, and the oracle is RELATIONAL: two authorities are the same host exactly when
// the transport would connect to the same host for them — net/http's own rule, hostname in IDNA
// ASCII form (x/net/idna Lookup profile, raw text when that fails), ASCII letters compared without
// case. A policy may return any representation as long as equality of its host identities is that
// relation.

import (
	"math/rand"
	"net/http"
	"net/url"
	"strconv"
	"strings"
	"testing"

	"github.com/imroc/req/v3/internal/verifh"
	"golang.org/x/net/idna"
)

const c11UnicodeClass = "hostident-unicode-fold"

func c11IsASCII(s string) bool {
	for i := 0; i < len(s); i++ {
		if s[i] >= 0x80 {
			return false
		}
	}
	return true
}

func c11ASCIILower(s string) string {
	b := []byte(s)
	for i, c := range b {
		if 'A' <= c && c <= 'Z' {
			b[i] = c + 32
		}
	}
	return string(b)
}

// c11DialHost: the host a request for this authority is sent to, ASCII-case-folded.
func c11DialHost(auth string) string {
	h := (&url.URL{Host: auth}).Hostname()
	if !c11IsASCII(h) {
		if v, err := idna.Lookup.ToASCII(h); err == nil {
			h = v
		}
	}
	return c11ASCIILower(h)
}

func c11DialDomain(auth string) string { return c11OracleDomain(c11DialHost(auth)) }

// The code before fixes/C11-2 (Unicode-aware strings.ToLower on the hostname) is c11FixedHostname /
// c11FixedDomain of the generator file: used ONLY to recognise exactly that known behaviour.
func c11FoldHostname(host string) string { return c11FixedHostname(host) }
func c11FoldDomain(host string) string   { return c11FixedDomain(host) }

// groups of labels: inside a group, spellings the Unicode-aware ToLower or IDNA relate to each other
var c11IdnGroups = [][]string{
	{"bücher", "BÜCHER", "Bücher", "xn--bcher-kva", "bucher"},
	{"İmroc", "imroc", "IMROC", "i̇mroc", "xn--imroc-7fd", "ımroc"},
	{"Kelvin", "kelvin", "KELVIN"},                // U+212A KELVIN SIGN
	{"ẞ", "ß", "ss", "SS"},                            // capital sharp s
	{"ϴ", "θ", "Θ", "xn--txa"},                        // theta symbol
	{"例え", "例え"},
	{"ｅｘａｍｐｌｅ", "example", "ＥＸＡＭＰＬＥ", "EXAMPLE"}, // full-width
	{"ǅ", "ǆ", "Ǆ"},
	{"a\xffb", "a\xfeb", "a�b", "ab"},           // invalid UTF-8
	{"straße", "strasse", "STRASSE", "xn--strae-oqa"},
	{"ſ", "s", "S"},                                   // long s
}

func c11GenIdnAuth(r *rand.Rand, g int) string {
	grp := c11IdnGroups[g]
	n := 1 + r.Intn(3)
	labels := make([]string, n)
	pos := r.Intn(n)
	for i := range labels {
		if i == pos {
			labels[i] = verifh.Pick(r, grp)
		} else {
			labels[i] = verifh.Pick(r, []string{"www", "cc", "com", "de", "example", "COM", "api"})
		}
	}
	return strings.Join(labels, ".")
}

// c11IdnVary: a relative of a: the distinguished label replaced by another member of its group,
// another separator, a trailing dot, a port, case of the ASCII labels.
func c11IdnVary(r *rand.Rand, a string, g int) string {
	grp := c11IdnGroups[g]
	labels := strings.Split(a, ".")
	for i, l := range labels {
		for _, m := range grp {
			if l == m && r.Intn(4) != 0 {
				labels[i] = verifh.Pick(r, grp)
			}
		}
		if r.Intn(4) == 0 && c11IsASCII(labels[i]) {
			labels[i] = c11FlipCase(r, labels[i])
		}
	}
	sep := "."
	if r.Intn(8) == 0 {
		sep = "。" // ideographic full stop: a label separator for IDNA
	}
	b := strings.Join(labels, sep)
	switch r.Intn(6) {
	case 0:
		b += "."
	case 1:
		b += ":" + verifh.Pick(r, c11Ports)
	case 2:
		b = verifh.Pick(r, []string{"www", "api"}) + "." + b
	}
	return b
}

func TestVerif_C11_idn(t *testing.T) {
	s := c11New(t, "idn",
		"pairs of authorities with non-ASCII bytes: one label drawn from a group of spellings that Unicode case mapping or IDNA relate (upper/lower/title case, dotless and dotted i, Kelvin sign, sharp s, full-width letters, punycode spelling, invalid UTF-8 bytes), the other a relative (other member of the group, ideographic dot, trailing dot, port, sub-domain). (a) unit: equality of getHostname / getDomain of the pair must be exactly equality of the hosts the transport would connect to (IDNA ASCII form, ASCII case-insensitive) resp. of their domains; (b) chain: real client with SameHost / SameDomain / AllowedHost / AllowedDomain (entries written as a relative) and Max, scripted transport answering 302 Location: http://<relative>/1 — followed iff the policy's identity holds by that relation. Oracle-only lane (the Lean model is ASCII-only). non-trivial = the two spellings differ")
	r := s.Rand()
	sc := &c11Scripted{}
	c := C().SetProxy(nil).SetLogger(nil)
	c.Transport.WrapRoundTripFunc(func(rt http.RoundTripper) HttpRoundTripFunc { return sc.RoundTrip })
	n := verifh.N(3000, 60000)
	for i := 0; i < n; i++ {
		g := r.Intn(len(c11IdnGroups))
		a := c11GenIdnAuth(r, g)
		b := c11IdnVary(r, a, g)
		if u, err := url.Parse("http://" + b + "/1"); err != nil || u.Host != b {
			s.Count("location-not-parsed-verbatim")
			continue
		}
		sameHost := c11DialHost(a) == c11DialHost(b)
		sameDom := c11DialDomain(a) == c11DialDomain(b)
		if sameHost {
			s.Count("pair:same-host")
		} else {
			s.Count("pair:different-host")
		}
		if !c11IsASCII(a) || !c11IsASCII(b) {
			s.Count("non-ascii")
		}
		if r.Intn(2) == 0 {
			// ---- (a) unit
			var ha, hb, da, db string
			if p, bad := verifh.Safely(func() { ha, hb, da, db = getHostname(a), getHostname(b), getDomain(a), getDomain(b) }); bad {
				s.Crash("idn-unit "+verifh.Hex(a)+" "+verifh.Hex(b), a+" ~ "+b, p, "")
				continue
			}
			ok := (ha == hb) == sameHost && (da == db) == sameDom
			class := ""
			if !ok && (!c11IsASCII(a) || !c11IsASCII(b)) && ha == c11FoldHostname(a) && hb == c11FoldHostname(b) &&
				da == c11FoldDomain(a) && db == c11FoldDomain(b) {
				class = c11UnicodeClass
				s.Count("unicode-fold-behaviour")
			}
			s.Count("unit")
			s.Observe("idn-unit "+verifh.Hex(a)+" "+verifh.Hex(b), ok, class, a != b,
				strconv.Quote(a)+" ~ "+strconv.Quote(b)+": hostnames "+strconv.Quote(ha)+" / "+strconv.Quote(hb)+", domains "+strconv.Quote(da)+" / "+strconv.Quote(db),
				"connects to "+c11DialHost(a)+" / "+c11DialHost(b)+": same host "+strconv.FormatBool(sameHost)+", same domain "+strconv.FormatBool(sameDom))
			continue
		}
		// ---- (b) chain through the real client
		kind := verifh.Pick(r, []string{"samehost", "samedomain", "ahost", "adomain"})
		var pol RedirectPolicy
		want := false
		entry := ""
		switch kind {
		case "samehost":
			pol, want = SameHostRedirectPolicy(), sameHost
		case "samedomain":
			pol, want = SameDomainRedirectPolicy(), sameDom
		case "ahost":
			entry = c11IdnVary(r, a, g)
			pol, want = AllowedHostRedirectPolicy("other.example", entry), c11DialHost(entry) == c11DialHost(b)
		default:
			entry = c11IdnVary(r, a, g)
			pol, want = AllowedDomainRedirectPolicy(entry), c11DialDomain(entry) == c11DialDomain(b)
		}
		c.SetRedirectPolicy(pol, MaxRedirectPolicy(5))
		sc.reset([]c11Reply{{status: 302, loc: c11Loc{kind: "bad", bad: "http://" + b + "/1"}}, {status: 200, loc: c11Loc{kind: "missing"}}})
		var err error
		id := "idn-chain " + kind + " " + verifh.Hex(entry) + " " + verifh.Hex(a) + " " + verifh.Hex(b)
		if p, bad := verifh.Safely(func() { _, err = c.R().SetHeader("X-Api-Key", "s3cret").Get("http://" + a + "/0") }); bad {
			s.Crash(id, a+" -> "+b, p, "")
			continue
		}
		sc.mu.Lock()
		seen := append([]c11Seen(nil), sc.seen...)
		sc.mu.Unlock()
		if len(seen) == 0 {
			s.Count("first-url-refused-by-client")
			continue
		}
		followed := len(seen) == 2
		ok := followed == want && (followed || err != nil)
		class := ""
		if !ok {
			// what the pre-fix (Unicode-folding) identity predicts
			var legacy bool
			switch kind {
			case "samehost":
				legacy = c11FoldHostname(a) == c11FoldHostname(b)
			case "samedomain":
				legacy = c11FoldDomain(a) == c11FoldDomain(b)
			case "ahost":
				legacy = strings.ToLower(c11FoldHostname(entry)) == c11FoldHostname(b)
			default:
				legacy = strings.ToLower(c11FoldDomain(entry)) == c11FoldDomain(b)
			}
			nonASCII := !c11IsASCII(a) || !c11IsASCII(b) || !c11IsASCII(entry)
			if nonASCII && followed == legacy && legacy != want && getHostname(b) == c11FoldHostname(b) && getHostname(a) == c11FoldHostname(a) {
				class = c11UnicodeClass
				s.Count("unicode-fold-behaviour")
			}
		}
		s.Count("chain:" + kind)
		if want {
			s.Count("chain-to-follow")
		} else {
			s.Count("chain-to-refuse")
		}
		pdesc := kind
		if entry != "" {
			pdesc += "(" + strconv.Quote(entry) + ")"
		}
		s.Observe(id, ok, class, a != b,
			pdesc+": "+strconv.Quote(a)+" -> Location http://"+b+"/1 : followed="+strconv.FormatBool(followed),
			"the transport connects to "+c11DialHost(a)+" then "+c11DialHost(b)+"; the policy must follow: "+strconv.FormatBool(want))
	}
	s.FinishRequire("unit", "chain:samehost", "chain:samedomain", "chain:ahost", "chain:adomain", "chain-to-follow", "chain-to-refuse",
		"pair:same-host", "pair:different-host", "non-ascii")
}
