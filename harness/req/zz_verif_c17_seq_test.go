//go:build verif

package req

import (
	"bytes"
	"encoding/json"
	"fmt"
	"io"
	"mime"
	"net"
	"net/url"
	"os"
	"path/filepath"
	"reflect"
	"strconv"
	"strings"
	"sync"
	"testing"
	"time"

	"github.com/imroc/req/v3/internal/verifh"
	xhttp2 "golang.org/x/net/http2"
	"golang.org/x/net/http2/hpack"
)

func c17CloneValues(v url.Values) url.Values {
	out := url.Values{}
	for k, vs := range v {
		out[k] = append([]string(nil), vs...)
	}
	return out
}

func c17ValuesEqual(a, b url.Values) bool {
	if len(a) != len(b) {
		return false
	}
	for k, va := range a {
		if !reflect.DeepEqual(va, b[k]) {
			return false
		}
	}
	return true
}

// c17KVOf renders a url.Values as c17KV with sorted keys (for model lines).
func c17KVOf(v url.Values) c17KV {
	var m c17KV
	for _, k := range c17SortedKeys(v) {
		m.keys = append(m.keys, k)
		m.vals = append(m.vals, v[k])
	}
	return m
}

// c17FieldMultimap: the value fields of a parsed multipart body as a multimap.
func c17FieldMultimap(items []c17Item) map[string][]string {
	out := map[string][]string{}
	for _, it := range items {
		if !it.file {
			out[it.name] = append(out[it.name], it.value)
		}
	}
	return out
}

// TestVerif_C17_e2eseq: SEQUENCES of requests on one client. Caller-owned url.Values are passed
// to several requests, client-level form data exists (and grows between requests), requests
// without own form data are mixed in, form data is added to a request after it was sent.
// Every request must arrive as exactly ITS form data merged with the client's at that moment;
// the caller's values and the client's form data must not be changed by sending.
func TestVerif_C17_e2eseq(t *testing.T) {
	s := verifh.New(t, "C17", "e2eseq",
		"per case one client (HTTP/1.1 or HTTP/2) with client-level form data (1..3 keys) and 2..5 requests: each request takes the SAME caller-owned url.Values via SetFormDataFromValues (1/2), fresh values (1/4) or no own form data (1/4), urlencoded or multipart (with a file); between requests the client-level data may grow; a sent request may get form data added afterwards (never re-sent); oracle per request: server multimap = request values then client values of that moment; after every request the caller's url.Values and Client.FormData are unchanged; urlencoded requests are also compared with the model (c17forme2e); non-trivial = 2nd or later request of a sequence")
	r := s.Rand()
	origins := map[string]*c17Origin{"h1": c17NewOrigin("h1"), "h2": c17NewOrigin("h2")}
	defer origins["h1"].stop()
	defer origins["h2"].stop()
	n := verifh.N(120, 4000)
	for i := 0; i < n; i++ {
		proto := verifh.Pick(r, []string{"h1", "h1", "h2"})
		o := origins[proto]
		c := c17Client(proto)
		clientWant := url.Values{}
		for j := 0; j <= r.Intn(3); j++ {
			k := verifh.Pick(r, []string{"token", "shared", "c" + strconv.Itoa(j)})
			clientWant.Add(k, c17Text(r))
		}
		if r.Intn(6) == 0 {
			clientWant = url.Values{}
		}
		if len(clientWant) > 0 {
			c.SetCommonFormDataFromValues(c17CloneValues(clientWant))
		}
		shared := url.Values{}
		for j := 0; j <= r.Intn(3); j++ {
			shared.Add(verifh.Pick(r, []string{"a", "shared", "token", "s" + strconv.Itoa(j)}), c17Text(r))
		}
		sharedOrig := c17CloneValues(shared)
		nreq := 2 + r.Intn(4)
		for q := 0; q < nreq; q++ {
			req := c.R()
			own := url.Values{}
			mode := verifh.Pick(r, []string{"shared", "shared", "fresh", "none"})
			switch mode {
			case "shared":
				req.SetFormDataFromValues(shared) // the caller's own object, again and again
				own = c17CloneValues(sharedOrig)
			case "fresh":
				own.Add("f"+strconv.Itoa(q), c17Text(r))
				if r.Intn(2) == 0 {
					own.Add("token", "own")
				}
				req.SetFormDataFromValues(c17CloneValues(own))
			}
			multipartReq := r.Intn(3) == 0
			if multipartReq {
				req.SetFileBytes("file", "f.bin", []byte("file-content-"+strconv.Itoa(q)))
			}
			if len(own) == 0 && len(clientWant) == 0 && !multipartReq {
				own.Add("only", "1")
				req.SetFormDataFromValues(c17CloneValues(own))
				mode = "fresh"
			}
			want := map[string][]string{}
			for k, vs := range own {
				want[k] = append(want[k], vs...)
			}
			for k, vs := range clientWant {
				want[k] = append(want[k], vs...)
			}
			o.take()
			resp, err := req.Post(o.base + "/seq")
			seen := o.take()
			ok := err == nil && resp.StatusCode == 200 && len(seen) == 1
			impl, detail := "err", ""
			line := ""
			if ok {
				if multipartReq {
					_, params, _ := mime.ParseMediaType(seen[0].Header.Get("Content-Type"))
					items, ierr := c17ServerItems(params["boundary"], seen[0].Body)
					got := c17FieldMultimap(items)
					nf := 0
					for _, vs := range want {
						nf += len(vs)
					}
					ok = ierr == nil && c17SameMultimap(got, want) && len(items) == nf+1
					detail = fmt.Sprintf("fields=%q", got)
				} else {
					sr := c17AsRequest(seen[0])
					perr := sr.ParseForm()
					ok = perr == nil && c17SameMultimap(map[string][]string(sr.PostForm), want)
					var ks, vs []string
					for _, k := range c17SortedKeys(sr.PostForm) {
						for _, v := range sr.PostForm[k] {
							ks = append(ks, k)
							vs = append(vs, v)
						}
					}
					st := "ok"
					if perr != nil {
						st = "err"
					}
					impl = verifh.HexList(ks) + " " + verifh.HexList(vs) + " " + st
					line = "c17forme2e " + c17KVOf(own).line() + " " + c17KVOf(clientWant).line() + " -"
					detail = fmt.Sprintf("form=%q", sr.PostForm)
				}
			}
			// sending must not touch what the caller owns, nor the client's settings
			if !c17ValuesEqual(shared, sharedOrig) {
				ok = false
				detail += fmt.Sprintf(" CALLER'S url.Values CHANGED to %q", shared)
				shared = c17CloneValues(sharedOrig) // keep judging the following requests on their own
			}
			if !c17ValuesEqual(c.FormData, clientWant) && !(len(c.FormData) == 0 && len(clientWant) == 0) {
				ok = false
				detail += fmt.Sprintf(" Client.FormData CHANGED to %q", c.FormData)
			}
			human := fmt.Sprintf("%s case %d request %d/%d mode=%s multipart=%v own=%q client=%q -> %s", proto, i, q+1, nreq, mode, multipartReq, own, clientWant, detail)
			s.Count(mode)
			if multipartReq {
				s.Count("multipart")
			}
			if line != "" {
				s.Case(line, impl, ok, "", q > 0, human)
			} else {
				s.Observe(fmt.Sprintf("seq-%d-%d", i, q), ok, "", q > 0, human, detail)
			}
			// form data added to a request AFTER it was sent stays in that request
			if r.Intn(4) == 0 {
				req.SetFormData(map[string]string{"late" + strconv.Itoa(q): "added-after-send"})
				if !c17ValuesEqual(c.FormData, clientWant) && !(len(c.FormData) == 0 && len(clientWant) == 0) {
					s.Observe(fmt.Sprintf("late-%d-%d", i, q), false, "", true,
						fmt.Sprintf("%s case %d: SetFormData on the already sent request %d changed Client.FormData to %q (want %q)", proto, i, q+1, c.FormData, clientWant), "")
					c.FormData = c17CloneValues(clientWant)
				}
				if !c17ValuesEqual(shared, sharedOrig) {
					s.Observe(fmt.Sprintf("late-shared-%d-%d", i, q), false, "", true,
						fmt.Sprintf("%s case %d: SetFormData on the already sent request %d changed the caller's url.Values to %q", proto, i, q+1, shared), "")
					shared = c17CloneValues(sharedOrig)
				}
				s.Count("late-set")
			}
			// the client-level data may grow between requests
			if r.Intn(4) == 0 {
				k, v := "grow"+strconv.Itoa(q), c17Text(r)
				c.SetCommonFormData(map[string]string{k: v})
				clientWant.Set(k, v)
				s.Count("client-grows")
			}
		}
		c17Done(c)
	}
	s.Finish()
}

// ---- second sends of one request ------------------------------------------------------------------

// TestVerif_C17_e2eresend: the request is sent TWICE by the library itself — digest
// authentication after a 401 challenge, a retry after a 503, a 307/308 redirect — and the
// request the origin finally accepts must be as exact as a first send: same fields, files,
// bytes, and a Content-Type (boundary!) that matches the body that came with it.
func TestVerif_C17_e2eresend(t *testing.T) {
	s := verifh.New(t, "C17", "e2eresend",
		"re-send mechanism in {digest auth (request or client level) after a 401 Digest challenge, retry (SetRetryCount) after a 503, redirect 307, redirect 308} x body in {urlencoded form, ordered form, JSON, bytes, buffered multipart, streamed multipart (forced chunked / upload callback)} x boundary {default random, custom} x files by bytes / path (sizes 0..70 KiB) over HTTP/1.1 and HTTP/2; oracle on the LAST request the origin saw: status 200 path reached, multipart parses under the boundary of its own Content-Type into exactly the supplied fields and files, other bodies byte-identical; non-trivial = the origin saw at least two requests")
	r := s.Rand()
	dir := t.TempDir()
	origins := map[string]*c17Origin{"h1": c17NewOrigin("h1"), "h2": c17NewOrigin("h2")}
	defer origins["h1"].stop()
	defer origins["h2"].stop()
	n := verifh.N(160, 5000)
	mechs := []string{"digest", "digest", "digest-client", "retry", "redir307", "redir308"}
	kinds := []string{"form", "ordered", "json", "bytes", "multipart", "multipart", "multipart-chunked", "multipart-chunked", "multipart-callback"}
	for i := 0; i < n; i++ {
		proto := verifh.Pick(r, []string{"h1", "h1", "h2"})
		mech := mechs[r.Intn(len(mechs))]
		kind := kinds[r.Intn(len(kinds))]
		if i < len(mechs)*len(kinds) { // the whole grid once, also in the quick tier
			mech, kind = mechs[i%len(mechs)], kinds[(i/len(mechs))%len(kinds)]
		}
		o := origins[proto]
		c := c17Client(proto)
		req := c.R()
		path := "/final"
		switch mech {
		case "digest":
			req.SetDigestAuth("user", "secret")
			path = "/digest"
		case "digest-client":
			c.SetCommonDigestAuth("user", "secret")
			path = "/digest"
		case "retry":
			req.SetRetryCount(2).SetRetryFixedInterval(time.Millisecond).AddRetryCondition(func(resp *Response, err error) bool {
				return err != nil || resp.StatusCode == 503
			})
			path = "/flaky"
		case "redir307":
			path = "/redir307"
		case "redir308":
			path = "/redir308"
		}
		custom := ""
		if r.Intn(3) == 0 {
			custom = "CustomBoundary" + strconv.Itoa(i)
			cb := custom
			c.SetMultipartBoundaryFunc(func() string { return cb })
		}
		var wantRaw []byte
		wantFields := map[string][]string{}
		type wantFile struct{ name, content, how string }
		var wantFiles []wantFile
		var pairs [][2]string
		var cbMu sync.Mutex
		var reports []int64
		switch kind {
		case "form":
			vals := url.Values{"k": {c17Text(r)}, "dup": {"1", "2"}}
			req.SetFormDataFromValues(vals)
			wantFields = vals
		case "ordered":
			pairs = [][2]string{{"z", c17Text(r)}, {"a", "1"}, {"z", "2"}}
			req.SetOrderedFormData("z", pairs[0][1], "a", "1", "z", "2")
		case "json":
			v := &c17Blob{ID: i, Data: c17Text(r)}
			req.SetBody(v)
			wantRaw, _ = json.Marshal(v)
		case "bytes":
			wantRaw = c17Pattern(verifh.Pick(r, []int{1, 1000, 70000}), i)
			req.SetBodyBytes(wantRaw)
		default: // multipart variants
			wantFields = map[string][]string{"k": {c17Text(r)}}
			req.SetFormData(map[string]string{"k": wantFields["k"][0]})
			nf := 1 + r.Intn(2)
			for j := 0; j < nf; j++ {
				content := c17Pattern(verifh.Pick(r, []int{0, 5, 512, 4800, 33000, 70000}), i+j)
				name := "f" + strconv.Itoa(j) + ".bin"
				if r.Intn(2) == 0 {
					p := filepath.Join(dir, "rs"+strconv.Itoa(i)+"_"+name)
					os.WriteFile(p, content, 0o644)
					p, form := c17PathForm(r, p) // any way of naming the file: each attempt re-opens it
					s.Count("path-" + form)
					req.SetFile("file"+strconv.Itoa(j), p)
					name = filepath.Base(p)
					wantFiles = append(wantFiles, wantFile{name, string(content), "path"})
				} else {
					req.SetFileBytes("file"+strconv.Itoa(j), name, content)
					wantFiles = append(wantFiles, wantFile{name, string(content), "bytes"})
				}
			}
			switch kind {
			case "multipart-chunked":
				req.EnableForceChunkedEncoding()
			case "multipart-callback":
				req.SetUploadCallbackWithInterval(func(info UploadInfo) {
					cbMu.Lock()
					reports = append(reports, info.UploadedSize)
					cbMu.Unlock()
				}, time.Nanosecond)
			}
		}
		o.take()
		cid := "id=" + proto + strconv.Itoa(i)
		resp, err := req.Post(o.base + path + "?" + cid)
		// only this case's requests: a broken request of an EARLIER case (a streamed body that a
		// redirect refused: its truncated second request ends at the origin with a read error)
		// may be recorded after that case took its list
		var seen []c17Seen
		for _, sn := range o.take() {
			if sn.Query == cid {
				seen = append(seen, sn)
			}
		}
		ok := err == nil && resp != nil && resp.StatusCode == 200 && len(seen) >= 2
		detail := ""
		streamed := kind == "multipart-chunked" || kind == "multipart-callback"
		// A streamed body (pipe) cannot be produced again by net/http: the documented outcome is
		// that it is NOT re-sent at all — the caller gets the first answer (the 307/308, the 503)
		// or the transport's error. Accepted exactly when nothing but the first request reached
		// the origin and that first request carried the complete, exact body (checked below).
		// A second request that the origin read to its end — truncated, empty, garbled or not —
		// stays a violation.
		notResent := false
		if streamed && !ok {
			s.Count("streamed-not-resent")
			accepted := 0
			for _, sn := range seen {
				if sn.BodyErr == nil {
					accepted++
				}
			}
			switch {
			case err == nil && resp != nil && resp.Response != nil && len(seen) == 1 && seen[0].BodyErr == nil && resp.StatusCode == seen[0].Status && resp.StatusCode != 200:
				notResent, ok = true, true
			case err != nil && accepted <= 1 && (len(seen) == 0 || seen[0].BodyErr == nil || accepted == 0):
				notResent, ok = true, true
			default:
				detail = fmt.Sprintf("err=%v requests seen=%d, read to the end by the origin=%d", err, len(seen), accepted)
				if resp != nil && resp.Response != nil {
					detail += " status=" + strconv.Itoa(resp.StatusCode)
				}
			}
		}
		if notResent && (len(seen) == 0 || seen[0].BodyErr != nil) {
			// nothing complete reached the origin: nothing to compare
		} else if streamed && !ok {
		} else if !ok {
			detail = fmt.Sprintf("err=%v requests seen=%d", err, len(seen))
			if resp != nil && resp.Response != nil {
				detail += " status=" + strconv.Itoa(resp.StatusCode)
			}
		} else {
			last := seen[len(seen)-1]
			if notResent {
				last = seen[0] // the one request that was sent must still be exact
			}
			if (last.Status != 200 && !notResent) || last.BodyErr != nil || (last.CL >= 0 && last.CL != int64(len(last.Body))) {
				ok = false
				detail = fmt.Sprintf("last request: status=%d bodyErr=%v declared=%d arrived=%d", last.Status, last.BodyErr, last.CL, len(last.Body))
			}
			switch {
			case !ok:
			case strings.HasPrefix(kind, "multipart"):
				mt, params, perr := mime.ParseMediaType(last.Header.Get("Content-Type"))
				items, ierr := c17ServerItems(params["boundary"], last.Body)
				if perr != nil || mt != "multipart/form-data" || ierr != nil || (custom != "" && params["boundary"] != custom) {
					ok = false
					detail = fmt.Sprintf("multipart under its own Content-Type %q: %v %v", last.Header.Get("Content-Type"), perr, ierr)
				} else if !c17SameMultimap(c17FieldMultimap(items), wantFields) || len(items) != 1+len(wantFiles) {
					ok = false
					detail = fmt.Sprintf("parsed %d items %q, want fields %q and %d files (Content-Type %q, body starts %q)", len(items), c17FieldMultimap(items), wantFields, len(wantFiles), last.Header.Get("Content-Type"), c17Trunc(string(last.Body), 80))
				} else {
					k := 0
					for _, it := range items {
						if !it.file {
							continue
						}
						if it.filename != wantFiles[k].name || it.content != wantFiles[k].content {
							ok = false
							detail = fmt.Sprintf("file %d arrived as %q with %d bytes, want %q with %d", k, it.filename, len(it.content), wantFiles[k].name, len(wantFiles[k].content))
						}
						k++
					}
				}
			case kind == "form":
				sr := c17AsRequest(last)
				if perr := sr.ParseForm(); perr != nil || !c17SameMultimap(map[string][]string(sr.PostForm), wantFields) {
					ok = false
					detail = fmt.Sprintf("form arrived as %q", sr.PostForm)
				}
			case kind == "ordered":
				if !c17OrderedOracle(string(last.Body), pairs) {
					ok = false
					detail = fmt.Sprintf("ordered form arrived as %q", last.Body)
				}
			default:
				if !bytes.Equal(last.Body, wantRaw) {
					ok = false
					detail = fmt.Sprintf("%d bytes arrived, %d supplied", len(last.Body), len(wantRaw))
				}
			}
		}
		s.Count(mech)
		s.Count(kind)
		s.Count(proto)
		class := ""
		if streamed && strings.HasPrefix(mech, "digest") {
			for _, f := range wantFiles {
				if f.how == "path" {
					class = "c17-resend-path-file"
				}
			}
		}
		s.Observe(fmt.Sprintf("resend-%d-%s-%s-%s", i, proto, mech, kind), ok, class, len(seen) >= 2,
			fmt.Sprintf("%s %s %s custom-boundary=%q files=%v -> ok=%v %s", proto, mech, kind, custom, func() (l []string) {
				for _, f := range wantFiles {
					l = append(l, f.how+":"+strconv.Itoa(len(f.content)))
				}
				return
			}(), ok, detail), detail)
		c17Done(c)
	}
	s.Finish()
}

// ---- HTTP/2 faults while an upload is in flight ------------------------------------------------------

type c17H2Req struct {
	conn   int
	ctype  string
	clen   string
	body   []byte
	stream uint32
}

// c17FramePeer is a prior-knowledge HTTP/2 (h2c) origin built on x/net/http2.Framer. A fault
// can be armed for the next request stream: after `after` DATA frames of that stream the peer
// sends GOAWAY(NO_ERROR, last-stream-id below the stream) — a draining load balancer — or
// RST_STREAM(REFUSED_STREAM). Everything else is read completely and answered 200.
type c17FramePeer struct {
	ln    net.Listener
	mu    sync.Mutex
	conns int
	fault string // "" | goaway | refused
	after int
	reqs  []c17H2Req
}

func c17NewFramePeer() *c17FramePeer {
	ln, err := net.Listen("tcp", "127.0.0.1:0")
	if err != nil {
		panic(err)
	}
	p := &c17FramePeer{ln: ln}
	go func() {
		for {
			conn, err := ln.Accept()
			if err != nil {
				return
			}
			p.mu.Lock()
			p.conns++
			no := p.conns
			p.mu.Unlock()
			go p.serve(conn, no)
		}
	}()
	return p
}

func (p *c17FramePeer) arm(fault string, after int) {
	p.mu.Lock()
	p.fault, p.after, p.reqs = fault, after, nil
	p.mu.Unlock()
}

func (p *c17FramePeer) take() []c17H2Req {
	p.mu.Lock()
	defer p.mu.Unlock()
	r := p.reqs
	p.reqs = nil
	return r
}

func (p *c17FramePeer) serve(conn net.Conn, no int) {
	defer conn.Close()
	conn.SetDeadline(time.Now().Add(30 * time.Second))
	preface := make([]byte, len(xhttp2.ClientPreface))
	if _, err := io.ReadFull(conn, preface); err != nil {
		return
	}
	fr := xhttp2.NewFramer(conn, conn)
	fr.ReadMetaHeaders = hpack.NewDecoder(4096, nil)
	fr.WriteSettings(xhttp2.Setting{ID: xhttp2.SettingInitialWindowSize, Val: 16 << 20})
	fr.WriteWindowUpdate(0, 16<<20)
	type st struct {
		req    c17H2Req
		fault  string
		after  int
		ndata  int
		killed bool
	}
	streams := map[uint32]*st{}
	var lastDone uint32
	for {
		f, err := fr.ReadFrame()
		if err != nil {
			return
		}
		var cur *st
		ended := false
		switch f := f.(type) {
		case *xhttp2.SettingsFrame:
			if !f.IsAck() {
				fr.WriteSettingsAck()
			}
		case *xhttp2.PingFrame:
			if !f.IsAck() {
				fr.WritePing(true, f.Data)
			}
		case *xhttp2.MetaHeadersFrame:
			x := &st{req: c17H2Req{conn: no, stream: f.StreamID}}
			for _, hf := range f.Fields {
				switch hf.Name {
				case "content-type":
					x.req.ctype = hf.Value
				case "content-length":
					x.req.clen = hf.Value
				}
			}
			p.mu.Lock()
			if p.fault != "" && !f.StreamEnded() {
				x.fault, x.after = p.fault, p.after
				p.fault = ""
			}
			p.mu.Unlock()
			streams[f.StreamID] = x
			cur, ended = x, f.StreamEnded()
		case *xhttp2.DataFrame:
			x := streams[f.StreamID]
			if x == nil || x.killed {
				continue
			}
			x.ndata++
			x.req.body = append(x.req.body, f.Data()...)
			cur, ended = x, f.StreamEnded()
			if x.fault != "" && x.ndata >= x.after && !ended {
				x.killed = true
				if x.fault == "goaway" {
					fr.WriteGoAway(lastDone, xhttp2.ErrCodeNo, []byte("draining"))
				} else {
					fr.WriteRSTStream(f.StreamID, xhttp2.ErrCodeRefusedStream)
				}
				continue
			}
		}
		if cur == nil || !ended || cur.killed {
			continue
		}
		p.mu.Lock()
		p.reqs = append(p.reqs, cur.req)
		p.mu.Unlock()
		lastDone = cur.req.stream
		fr.WriteHeaders(xhttp2.HeadersFrameParam{StreamID: cur.req.stream, BlockFragment: []byte{0x88}, EndHeaders: true, EndStream: true})
	}
}

// TestVerif_C17_e2eh2fault: the transport replays an upload transparently after the peer
// refused it mid-way (graceful GOAWAY below the stream, or REFUSED_STREAM) — the replay must
// carry the whole body again.
func TestVerif_C17_e2eh2fault(t *testing.T) {
	s := verifh.New(t, "C17", "e2eh2fault",
		"HTTP/2 (prior knowledge) uploads of known length — buffered multipart, urlencoded form, JSON, bytes; 100 B … 300 KiB — to a frame-level origin that, after the 1st..3rd DATA frame of the stream, sends GOAWAY(NO_ERROR, last-stream-id below the stream) or RST_STREAM(REFUSED_STREAM), with or without an earlier request on the same connection; 1/5 of the cases without fault; oracle: the call succeeds and the request the origin finally accepted declares the length it carries and is byte-identical to the supplied body (multipart: same field and file bytes); non-trivial = a fault was injected after body bytes had been sent")
	r := s.Rand()
	peer := c17NewFramePeer()
	defer peer.ln.Close()
	base := "http://" + peer.ln.Addr().String()
	n := verifh.N(50, 1500)
	for i := 0; i < n; i++ {
		fault := verifh.Pick(r, []string{"goaway", "goaway", "refused", "goaway", ""})
		after := 1 + r.Intn(3)
		size := verifh.Pick(r, []int{100, 16383, 16384, 16385, 40000, 100000, 300000})
		kind := verifh.Pick(r, []string{"multipart", "multipart", "form", "json", "bytes"})
		if i < 8 {
			fault, after, size = []string{"goaway", "refused"}[i%2], 1, []int{100000, 300000, 40000, 16385}[i/2]
			kind = []string{"multipart", "form", "json", "bytes"}[i%4]
		}
		c := C().EnableH2C().EnableForceHTTP2().SetTimeout(20 * time.Second)
		warm := r.Intn(2) == 0
		if warm {
			peer.arm("", 0)
			c.R().SetBodyString("warm").Post(base + "/warm")
		}
		peer.arm(fault, after)
		data := c17Pattern(size, i)
		req := c.R()
		var wantRaw []byte
		field := "v " + strconv.Itoa(i)
		switch kind {
		case "multipart":
			req.SetFormData(map[string]string{"k": field}).SetFileBytes("file", "big.bin", data)
		case "form":
			req.SetFormData(map[string]string{"k": field, "big": string(data)})
		case "json":
			v := &c17Blob{ID: i, Data: string(data)}
			req.SetBody(v)
			wantRaw, _ = json.Marshal(v)
		default:
			req.SetBodyBytes(data)
			wantRaw = data
		}
		resp, err := req.Post(base + "/up")
		got := peer.take()
		ok := err == nil && resp != nil && resp.StatusCode == 200 && len(got) >= 1
		detail := ""
		if !ok {
			detail = fmt.Sprintf("err=%v accepted requests=%d", err, len(got))
		} else {
			last := got[len(got)-1]
			if last.clen != "" && last.clen != strconv.Itoa(len(last.body)) {
				ok = false
				detail = fmt.Sprintf("accepted request (connection %d) declares content-length %s but carries %d bytes", last.conn, last.clen, len(last.body))
			}
			if ok {
				switch kind {
				case "multipart":
					_, params, _ := mime.ParseMediaType(last.ctype)
					items, ierr := c17ServerItems(params["boundary"], last.body)
					if ierr != nil || len(items) != 2 || items[0].value != field || items[1].content != string(data) {
						ok = false
						detail = fmt.Sprintf("multipart on connection %d: err=%v items=%d", last.conn, ierr, len(items))
					}
				case "form":
					vals, perr := url.ParseQuery(string(last.body))
					if perr != nil || vals.Get("k") != field || vals.Get("big") != string(data) {
						ok = false
						detail = fmt.Sprintf("form on connection %d: big has %d of %d bytes", last.conn, len(vals.Get("big")), len(data))
					}
				default:
					if !bytes.Equal(last.body, wantRaw) {
						ok = false
						detail = fmt.Sprintf("%d bytes arrived on connection %d, %d supplied", len(last.body), last.conn, len(wantRaw))
					}
				}
			}
		}
		f := fault
		if f == "" {
			f = "no-fault"
		}
		s.Count(f)
		s.Count(kind)
		s.Observe(fmt.Sprintf("h2fault-%d-%s-%d-%s-%d", i, f, after, kind, size), ok, "", fault != "",
			fmt.Sprintf("%s after %d DATA frame(s), %s size=%d warm=%v -> ok=%v %s", f, after, kind, size, warm, ok, detail), detail)
		c.Transport.CloseIdleConnections()
	}
	s.Finish()
}
