//go:build verif

package req

import (
	"fmt"
	"math/rand"
	"strings"

	"github.com/imroc/req/v3/internal/verifh"
)

// ---------------------------------------------------------------------------------------
// settings life-cycle: a PROGRAM of setter calls and clonings over a family of clients
// (Lean: Req.Decode.FamOp / runFam). Member 0 is a fresh client; `C<i>` appends a clone of
// member i; the response is handled by member `use`.

type c15FamOp struct {
	k      byte     // D E A N F L C
	i      int      // member
	list   []string // L
	custom int      // F: index into c15CustomFuncs
	via    int      // 0: Client method, 1: Transport method (C: 0 Client.Clone, 1 Transport.Clone)
}

type c15Member struct {
	c *Client // nil for a member cloned with Transport.Clone()
	t *Transport
}

// c15GenProg draws a program: 0..8 operations, targets among the members that exist at that
// moment, at least one cloning in two programs out of three.
func c15GenProg(r *rand.Rand, clientOnly bool) (ops []c15FamOp, use int) {
	members := 1
	n := r.Intn(9)
	wantClone := r.Intn(3) != 0
	for len(ops) < n {
		op := c15FamOp{i: r.Intn(members), via: r.Intn(2)}
		if members > 1 && r.Intn(2) == 0 {
			op.i = members - 1 // the youngest clone is the most interesting target
		}
		switch r.Intn(12) {
		case 0, 1:
			op.k = 'D'
		case 2, 3:
			op.k = 'E'
		case 4, 5:
			op.k = 'L'
			op.list = verifh.Pick(r, [][]string{{"html"}, {"json", "xml"}, {"text"}, {"png"}, {""}, {}, {"plain", "octet"}, {"csv"}, {"charset"}})
		case 6:
			op.k = 'A'
		case 7:
			op.k = 'N'
		case 8:
			op.k = 'F'
			op.custom = r.Intn(len(c15CustomFuncs))
		default:
			if !wantClone && r.Intn(3) != 0 || members >= 5 {
				continue
			}
			op.k = 'C'
			members++
		}
		if clientOnly {
			op.via = 0
		}
		ops = append(ops, op)
	}
	use = r.Intn(members)
	if members > 1 && r.Intn(2) == 0 {
		use = members - 1
	}
	return
}

// c15RunProg performs the program on real clients. first is member 0. A member created by
// Transport.Clone() has no Client; setters on it go through the Transport methods. Returns the
// family and fills in the verdicts of custom functions on ct.
func c15RunProg(first *Client, global bool, ops []c15FamOp) []c15Member {
	fam := []c15Member{{first, first.Transport}}
	for _, op := range ops {
		if op.i >= len(fam) {
			continue
		}
		m := fam[op.i]
		viaT := op.via == 1 || m.c == nil
		wrap := global && op.i == 0 && !viaT // package-level wrappers act on the default client = member 0
		switch op.k {
		case 'D':
			switch {
			case wrap:
				DisableAutoDecode()
			case viaT:
				m.t.DisableAutoDecode()
			default:
				m.c.DisableAutoDecode()
			}
		case 'E':
			switch {
			case wrap:
				EnableAutoDecode()
			case viaT:
				m.t.EnableAutoDecode()
			default:
				m.c.EnableAutoDecode()
			}
		case 'A':
			switch {
			case wrap:
				SetAutoDecodeAllContentType()
			case viaT:
				m.t.SetAutoDecodeAllContentType()
			default:
				m.c.SetAutoDecodeAllContentType()
			}
		case 'N':
			switch {
			case wrap:
				SetAutoDecodeContentTypeFunc(nil)
			case viaT:
				m.t.SetAutoDecodeContentTypeFunc(nil)
			default:
				m.c.SetAutoDecodeContentTypeFunc(nil)
			}
		case 'F':
			f := c15CustomFuncs[op.custom]
			switch {
			case wrap:
				SetAutoDecodeContentTypeFunc(f)
			case viaT:
				m.t.SetAutoDecodeContentTypeFunc(f)
			default:
				m.c.SetAutoDecodeContentTypeFunc(f)
			}
		case 'L':
			switch {
			case wrap:
				SetAutoDecodeContentType(op.list...)
			case viaT:
				m.t.SetAutoDecodeContentType(op.list...)
			default:
				m.c.SetAutoDecodeContentType(op.list...)
			}
		case 'C':
			if viaT {
				fam = append(fam, c15Member{nil, m.t.Clone()})
			} else {
				cc := m.c.Clone()
				fam = append(fam, c15Member{cc, cc.Transport})
			}
		}
	}
	return fam
}

// c15ProgString renders the program for the driver (custom functions as their verdict on ct).
func c15ProgString(ops []c15FamOp, ct string) string {
	if len(ops) == 0 {
		return "-"
	}
	parts := make([]string, len(ops))
	for k, op := range ops {
		switch op.k {
		case 'F':
			v := "0"
			if c15CustomFuncs[op.custom](ct) {
				v = "1"
			}
			parts[k] = fmt.Sprintf("F%d:%s", op.i, v)
		case 'L':
			parts[k] = fmt.Sprintf("L%d:%s", op.i, verifh.HexList(op.list))
		default:
			parts[k] = fmt.Sprintf("%c%d", op.k, op.i)
		}
	}
	return strings.Join(parts, ";")
}

// c15ProgEffective is the ORACLE's reading of the program (written independently of the Lean
// fold: it walks the calls backwards from the member that is used, moving to the origin of a
// clone when it passes the cloning): the last Enable/Disable and the last Set… call that
// reached the member decide.
func c15ProgEffective(ops []c15FamOp, use int) (disabled bool, filter *c15FamOp) {
	// forward pass: which operation created which member
	type birth struct{ at, parent int }
	births := map[int]birth{}
	members := 1
	for k, op := range ops {
		if op.k == 'C' && op.i < members {
			births[members] = birth{k, op.i}
			members++
		}
	}
	cur := use
	toggleKnown, filterKnown := false, false
	for k := len(ops) - 1; k >= 0; k-- {
		if b, ok := births[cur]; ok && b.at == k {
			cur = b.parent
			continue
		}
		op := ops[k]
		if op.i != cur || op.k == 'C' {
			continue
		}
		switch op.k {
		case 'D', 'E':
			if !toggleKnown {
				toggleKnown, disabled = true, op.k == 'D'
			}
		default:
			if !filterKnown {
				filterKnown = true
				o := op
				filter = &o
			}
		}
	}
	if filter != nil && filter.k == 'N' {
		filter = nil
	}
	return
}

// c15FilterVerdict: the oracle's reading of a filter-setting call on a content type.
func c15FilterVerdict(f *c15FamOp, ct string) bool {
	if f == nil {
		for _, x := range c15DefaultTypes {
			if strings.Contains(ct, x) {
				return true
			}
		}
		return false
	}
	switch f.k {
	case 'A':
		return true
	case 'F':
		return c15CustomFuncs[f.custom](ct)
	case 'L':
		for _, x := range f.list {
			if strings.Contains(ct, x) {
				return true
			}
		}
	}
	return false
}

func c15ProgHuman(ops []c15FamOp, use int) string {
	var sb strings.Builder
	for _, op := range ops {
		switch op.k {
		case 'L':
			fmt.Fprintf(&sb, "L%d%q ", op.i, op.list)
		case 'F':
			fmt.Fprintf(&sb, "F%d#%d ", op.i, op.custom)
		default:
			fmt.Fprintf(&sb, "%c%d ", op.k, op.i)
		}
	}
	fmt.Fprintf(&sb, "use %d", use)
	return sb.String()
}

// c15ProgFeatures names the life-cycle situations a program puts the USED member through (for the
// generator histogram): was one of the clonings on its lineage taken while decoding was switched
// off / while a custom filter was set, and was the switch flipped afterwards.
func c15ProgFeatures(ops []c15FamOp, use int) []string {
	type state struct {
		dis, filt           bool
		clonedOff, clonedFl bool // some cloning on the lineage happened while off / with a filter set
		clonedOffFl         bool // … while off AND with a filter set
		flippedAfterClone   bool
	}
	fam := []state{{}}
	for _, op := range ops {
		if op.i >= len(fam) {
			continue
		}
		m := &fam[op.i]
		switch op.k {
		case 'D':
			if m.clonedOff && !m.dis || m.clonedFl && !m.dis {
				m.flippedAfterClone = true
			}
			m.dis = true
		case 'E':
			if m.dis && (m.clonedOff || m.clonedFl) {
				m.flippedAfterClone = true
			}
			m.dis = false
		case 'N':
			m.filt = false
		case 'A', 'F', 'L':
			m.filt = true
		case 'C':
			c := *m
			c.clonedOff = c.clonedOff || m.dis
			c.clonedFl = c.clonedFl || m.filt
			c.clonedOffFl = c.clonedOffFl || (m.dis && m.filt)
			fam = append(fam, c)
		}
	}
	u := fam[use]
	var out []string
	if use != 0 {
		out = append(out, "prog:request-by-a-clone")
	}
	if u.clonedOff {
		out = append(out, "prog:cloned-while-switched-off")
	}
	if u.clonedFl {
		out = append(out, "prog:cloned-with-filter-set")
	}
	if u.clonedOffFl && !u.dis {
		out = append(out, "prog:cloned-off-with-filter-then-switched-on")
	}
	if len(fam) > 2 {
		out = append(out, "prog:several-clones")
	}
	return out
}

// ---------------------------------------------------------------------------------------
// lane cfg: the selection alone (which reader autoDecodeResponseBody installs) under settings
// programs, over a grid of media types

// c15ProgStringNamed renders a program with custom functions NAMED (G<i>:<k>): the driver knows
// the harness' three fixed functions, so one line covers a whole grid of content types.
func c15ProgStringNamed(ops []c15FamOp) string {
	if len(ops) == 0 {
		return "-"
	}
	parts := make([]string, len(ops))
	for k, op := range ops {
		switch op.k {
		case 'F':
			parts[k] = fmt.Sprintf("G%d:%d", op.i, op.custom)
		case 'L':
			parts[k] = fmt.Sprintf("L%d:%s", op.i, verifh.HexList(op.list))
		default:
			parts[k] = fmt.Sprintf("%c%d", op.k, op.i)
		}
	}
	return strings.Join(parts, ";")
}

type c15GridCell struct{ ct, ae string }

// media types with parameters, casing, structured-syntax suffixes, charset spellings; an
// `Accept-Encoding` RESPONSE header in a few cells
var c15MediaGrid = []c15GridCell{
	{"text/html", ""}, {"text/plain; charset=gbk", ""}, {"TEXT/HTML; charset=gbk", ""}, {"Text/Html", ""}, {"text/csv; charset=gbk", ""},
	{"application/json", ""}, {"application/json; charset=big5", ""}, {"application/JSON; charset=gbk", ""}, {"application/vnd.api+json; charset=big5", ""},
	{"application/ld+json", ""}, {"application/xml; charset=euc-kr", ""}, {"application/atom+xml; charset=shift_jis", ""}, {"image/svg+xml", ""},
	{"application/xhtml+xml", ""}, {"application/javascript; charset=windows-1251", ""}, {"application/x-javascript", ""}, {"application/java-archive", ""},
	{"image/png; charset=gbk", ""}, {"image/png", ""}, {"application/octet-stream", ""}, {"application/pdf; charset=gbk", ""}, {"", ""},
	{"text/html; charset=utf-8", ""}, {"text/html; charset=UTF8", ""}, {"text/html; charset=\"gbk\"", ""}, {"text/html;charset=GBK", ""},
	{"text/html ; charset=gbk", ""}, {"text/html; charset=", ""}, {"text/html; charset=gbk; charset=big5", ""}, {"text/html; charset=x-unknown", ""},
	{"text/html; charset=ibm437", ""}, {"multipart/form-data; boundary=xml", ""}, {"video/mp4; note=text", ""}, {"application/x+verif; charset=gbk", ""},
	{"application/x+verif", ""}, {"message/http; charset=iso-8859-1", ""}, {"text/html; charset=gbk", "gzip"}, {"image/png; charset=gbk", "identity"},
	{"text/html", "br"}, {"text/html; charset=utf-16le", ""}, {"text/html; foo", ""}, {"charset", ""},
	// registered IANA names WITHOUT an implementation (ianaindex answers nil, nil), WHATWG aliases, odd spellings
	{"text/html; charset=utf-7", ""}, {"text/plain; charset=UTF-32", ""}, {"application/json; charset=cesu-8", ""}, {"text/xml; charset=scsu", ""},
	{"text/html; charset=ebcdic-us", ""}, {"text/html; charset=latin1", ""}, {"text/html; charset=\" GB2312 \"", ""}, {"text/html; charset=x-sjis", ""},
	{"text/html; charset=csisolatin2", ""}, {"text/html; charset=unicode-1-1-utf-8", ""}, {"text/html; charset=macintosh", ""}, {"text/html; charset=cp437", ""},
	{"text/html; charset=replacement", ""}, {"text/html; charset=x-user-defined", ""}, {"text/html; charset=iso-8859-1", ""}, {"text/html; charset=windows-1252x", ""},
}

// c15ExpectedKind: the oracle's reading of autoDecodeResponseBody (independent of the model).
func c15ExpectedKind(disabled bool, filter *c15FamOp, cell c15GridCell) string {
	if disabled || cell.ae != "" || !c15FilterVerdict(filter, cell.ct) {
		return "raw"
	}
	_, cs, has, perr := c15MediaParse(cell.ct)
	switch {
	case perr || !has:
		return "auto"
	case strings.Contains(strings.ToLower(cs), "utf-8") || strings.Contains(strings.ToLower(cs), "utf8"):
		return "raw"
	case c15Lookup(cs) != nil:
		return "hdr"
	}
	return "raw"
}
