//go:build verif

package req

// C19 lane `vals` (MODEL-judged, driver lane `c19vals`, ValuesHeap): the maps of slices behind a
// client — QueryParams, FormData (cloneUrlValues) and Headers (http.Header.Clone) — after Clone, with
// the CAPACITY dimension: the slice header (backing array, offset, length, capacity) of every key of
// every map of the original and of its copies is read from the REAL heap and handed to the model,
// which decides whether the layout is separated (ValuesHeap.sepB: the capacity ranges of different
// keys are apart — theorem values_heap_refines: then every sequence of appends / sets / deletes acts
// as on values); then a random sequence of Add / Set / Del calls runs on the real clients and the
// resulting maps are compared with the value model's.

import (
	"fmt"
	"net/http"
	urlpkg "net/url"
	"sort"
	"strings"
	"testing"
	"unsafe"

	"github.com/imroc/req/v3/internal/verifh"
)

type c19ValSlot struct {
	id   int // kind*1000 + client*100 + key
	ptr  uintptr
	len  int
	cap  int
	vals []int
}

func c19ValsKey(kind, k int) string {
	switch kind {
	case 0:
		return fmt.Sprintf("q%d", k)
	case 1:
		return fmt.Sprintf("QQf%d", k)
	default:
		return fmt.Sprintf("X-K%d", k)
	}
}

func c19ValsMap(c *Client, kind int) map[string][]string {
	switch kind {
	case 0:
		return c.QueryParams
	case 1:
		return c.FormData
	default:
		return c.Headers
	}
}

func c19ValsRead(cs []*Client) []c19ValSlot {
	var out []c19ValSlot
	for ci, c := range cs {
		for kind := 0; kind < 3; kind++ {
			m := c19ValsMap(c, kind)
			for k := 1; k <= 6; k++ {
				vs, ok := m[c19ValsKey(kind, k)]
				if !ok {
					continue
				}
				sl := c19ValSlot{id: kind*1000 + ci*100 + k, len: len(vs), cap: cap(vs)}
				if cap(vs) > 0 {
					sl.ptr = uintptr(unsafe.Pointer(unsafe.SliceData(vs)))
				}
				for _, v := range vs {
					sl.vals = append(sl.vals, c19Num(v[1:]))
				}
				out = append(out, sl)
			}
		}
	}
	sort.Slice(out, func(i, j int) bool { return out[i].id < out[j].id })
	return out
}

// c19ValsLayout numbers the backing arrays: slices whose capacity extents overlap in memory are in
// one array (adjacent extents that do not overlap cannot alias and count as different arrays).
func c19ValsLayout(slots []c19ValSlot) (string, int) {
	return c19SliceLayout(slots, unsafe.Sizeof(""))
}

// c19SliceLayout: the same for slices with elements of esz bytes.
func c19SliceLayout(slots []c19ValSlot, esz uintptr) (string, int) {
	idx := make([]int, 0, len(slots))
	for i := range slots {
		if slots[i].cap > 0 {
			idx = append(idx, i)
		}
	}
	sort.Slice(idx, func(a, b int) bool { return slots[idx[a]].ptr < slots[idx[b]].ptr })
	arr := make([]int, len(slots))
	off := make([]int, len(slots))
	next := 0
	var base, end uintptr
	for n, i := range idx {
		s := slots[i]
		if n == 0 || s.ptr >= end {
			base, end = s.ptr, s.ptr
			next++
		}
		arr[i], off[i] = next-1, int((s.ptr-base)/esz)
		if e := s.ptr + uintptr(s.cap)*esz; e > end {
			end = e
		}
	}
	var parts []string
	for i, s := range slots {
		if s.cap == 0 { // nil / zero-capacity slice: an array of its own
			arr[i], off[i] = next, 0
			next++
		}
		parts = append(parts, fmt.Sprintf("%d:%d:%d:%d:%d:%s", s.id, arr[i], off[i], s.len, s.cap, c19List(s.vals)))
	}
	if len(parts) == 0 {
		return "_", next
	}
	return strings.Join(parts, ","), next
}

func c19ValsShow(slots []c19ValSlot) string {
	var parts []string
	for _, s := range slots {
		parts = append(parts, fmt.Sprintf("%d:%s", s.id, c19List(s.vals)))
	}
	if len(parts) == 0 {
		return "_"
	}
	return strings.Join(parts, ",")
}

// c19ValsApply runs one Add / Set / Del through the real API (Del: the map's own method).
func c19ValsApply(c *Client, kind, k int, op byte, vs []int, variant int) {
	key := c19ValsKey(kind, k)
	var vals []string
	for _, v := range vs {
		vals = append(vals, fmt.Sprintf("w%d", v))
	}
	switch {
	case op == 'd' && kind == 0:
		c.QueryParams.Del(key)
	case op == 'd' && kind == 1:
		c.FormData.Del(key)
	case op == 'd':
		delete(c.Headers, key)
	case op == 's' && kind == 0:
		if variant == 0 {
			c.SetCommonQueryParam(key, vals[0])
		} else {
			c.SetCommonQueryParams(map[string]string{key: vals[0]})
		}
	case op == 's' && kind == 1:
		c.SetCommonFormData(map[string]string{key: vals[0]})
	case op == 's':
		if variant == 0 {
			c.SetCommonHeader(key, vals[0])
		} else {
			c.SetCommonHeaders(map[string]string{key: vals[0]})
		}
	case kind == 0:
		switch {
		case len(vals) == 1 && variant == 0:
			c.AddCommonQueryParam(key, vals[0])
		case len(vals) == 1 && variant == 1:
			c.SetCommonQueryString(key + "=" + vals[0])
		default:
			c.AddCommonQueryParams(key, vals...)
		}
	case kind == 1:
		c.SetCommonFormDataFromValues(urlpkg.Values{key: vals})
	default:
		for _, v := range vals {
			c.SetCommonHeaderNonCanonical(key, v) // appends under the exact key
		}
	}
}

func TestVerif_C19_vals(t *testing.T) {
	s := verifh.New(t, "C19", "vals",
		"a client whose QueryParams / FormData / Headers hold 2-5 keys with 1-3 values each (built by Set and Add calls, so with and without spare capacity) is cloned (also clone of clone); the slice header (array, offset, length, capacity) of every key of every map of all clients is read from the real heap and judged by the model (ValuesHeap.sepB: capacity ranges of different keys apart); then 4-12 Add (1-2 values) / Set / Del calls on every key class — each key of the clone once, then random keys of either side — run through the real setters and the final maps of all clients are compared with the value model; non-trivial = the copy has >= 2 keys in one map and an Add ran on it")
	r := s.Rand()
	n := verifh.N(400, 8000)
	for i := 0; i < n; i++ {
		c := C()
		c.SetLogger(nil)
		nextVal := 10
		val := func() int { nextVal++; return nextVal }
		for kind := 0; kind < 3; kind++ {
			for _, k := range c19Keys(r, 2+r.Intn(4), 1, 6) {
				if r.Intn(2) == 0 {
					c19ValsApply(c, kind, k, 's', []int{val()}, r.Intn(2))
				}
				for j := r.Intn(3); j > 0; j-- {
					c19ValsApply(c, kind, k, 'a', []int{val()}, r.Intn(2))
				}
				if r.Intn(4) == 0 {
					c19ValsApply(c, kind, k, 'a', []int{val(), val()}, 2)
				}
			}
		}
		cs := []*Client{c, c.Clone()}
		if r.Intn(2) == 0 {
			cs = append(cs, cs[1].Clone())
			s.Count("clone-of-clone")
		}
		slots := c19ValsRead(cs)
		layout, next := c19ValsLayout(slots)
		var ops []string
		addOnCopy, multi := false, false
		do := func(ci, kind, k int, op byte, vs []int) {
			c19ValsApply(cs[ci], kind, k, op, vs, r.Intn(2))
			id := kind*1000 + ci*100 + k
			if op == 'd' {
				ops = append(ops, fmt.Sprintf("d%d", id))
			} else {
				ops = append(ops, fmt.Sprintf("%c%d:%s", op, id, c19List(vs)))
			}
			s.Count(fmt.Sprintf("op:%c:kind%d", op, kind))
			if op == 'a' && ci > 0 {
				addOnCopy = true
			}
		}
		// every key of one map of the newest copy gets an Add (map iteration order decides who is the
		// neighbour in a shared array: cover them all)
		last := len(cs) - 1
		kind0 := r.Intn(3)
		cnt := 0
		for k := 1; k <= 6; k++ {
			if _, ok := c19ValsMap(cs[last], kind0)[c19ValsKey(kind0, k)]; ok {
				do(last, kind0, k, 'a', []int{val()})
				cnt++
			}
		}
		multi = cnt >= 2
		for j := 1 + r.Intn(6); j > 0; j-- {
			ci, kind, k := r.Intn(len(cs)), r.Intn(3), 1+r.Intn(6)
			switch x := r.Intn(10); {
			case x < 6:
				vs := []int{val()}
				if r.Intn(3) == 0 {
					vs = append(vs, val())
				}
				do(ci, kind, k, 'a', vs)
			case x < 9:
				do(ci, kind, k, 's', []int{val()})
			default:
				do(ci, kind, k, 'd', nil)
			}
		}
		final := c19ValsShow(c19ValsRead(cs))
		line := fmt.Sprintf("c19vals %d %s %s", next, layout, strings.Join(ops, ";"))
		s.Case(line, "sep=1;"+final, true, "", addOnCopy && multi, line)
	}
	_ = http.Header{}
	s.Finish()
}
