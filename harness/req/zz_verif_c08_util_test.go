//go:build verif

package req

import (
	"bufio"
	"context"
	"crypto/tls"
	"errors"
	"fmt"
	"io"
	"net"
	"net/http"
	"net/http/httptest"
	"net/http/httptrace"
	"runtime"
	"strconv"
	"strings"
	"sync"
	"sync/atomic"
	"time"

	"github.com/imroc/req/v3/internal/http3"
)

// =========================================================================================
// C08 script-lane machinery: one request is stepped through its life by a scripted peer and
// an instrumented dialer; every observable network event is a numbered injection point.
// Synchronisation is by events only (gates opened by the goroutine that observed the
// previous event); the only clocks are generous upper bounds.
// =========================================================================================

const (
	c08Chunk      = 8 << 10 // bytes per upload / download chunk
	c08Bound      = 2 * time.Second
	c08HardLimit  = 10 * time.Second // a run that takes longer is reported, never waited for
	c08FloodCount = 256              // chunks the upload source would supply after the injection (2 MiB)
)

// c08Class maps an error to the small enum compared with the model.
func c08Class(err error) string {
	if err == nil {
		return "ok"
	}
	if errors.Is(err, context.Canceled) {
		return "canceled"
	}
	if errors.Is(err, context.DeadlineExceeded) {
		return "deadline"
	}
	var ne net.Error
	if errors.As(err, &ne) && ne.Timeout() {
		return "deadline"
	}
	var h3e *http3.Error
	if errors.As(err, &h3e) && h3e.ErrorCode == http3.ErrCodeRequestCanceled && !h3e.Remote {
		return "h3cancel"
	}
	return "other"
}

// c08DeadlineCtx is a context whose deadline "passes" when the harness says so: Done closes and
// Err reports DeadlineExceeded at an exactly chosen event instead of at a wall-clock instant.
type c08DeadlineCtx struct {
	context.Context
	done chan struct{}
	once sync.Once
	at   time.Time
}

func newC08DeadlineCtx() *c08DeadlineCtx {
	return &c08DeadlineCtx{Context: context.Background(), done: make(chan struct{}), at: time.Now().Add(time.Hour)}
}
func (c *c08DeadlineCtx) Deadline() (time.Time, bool) { return c.at, true }
func (c *c08DeadlineCtx) Done() <-chan struct{}       { return c.done }
func (c *c08DeadlineCtx) Err() error {
	select {
	case <-c.done:
		return context.DeadlineExceeded
	default:
		return nil
	}
}
func (c *c08DeadlineCtx) expire() { c.once.Do(func() { close(c.done) }) }

// c08Event is one observed event: tok is the model's event name ("" = no model event, just an
// injection point), name the readable harness name.
type c08Event struct {
	tok, name string
	inject    bool
}

// c08Run is the state of one scripted request.
type c08Run struct {
	mu      sync.Mutex
	events  []c08Event
	trigger int // index (among injectable events, in order of occurrence) after which to inject; -1 = never
	nInj    int
	stallAt bool // timeout flavour: do not inject, just stall everything at the trigger
	delay   time.Duration // inject this long AFTER the trigger event (mid-sleep injection)
	inject  func()
	fired   bool
	firedAt time.Time
	firedTr []string // model trace at the injection
	firedNm string
	firedCh chan struct{}
	release chan struct{} // closed by the harness once the call has returned: wind everything down

	upChunks, downChunks int
	noContinue           bool // the peer never answers "100 Continue": the client sends the body when its
	// ExpectContinueTimeout is over
	peerDriven           bool // the client reads the response body itself (auto-read): the peer paces
	// the download and its "sent" events stand for the caller's "got" events
	failFirst            int // number of initial attempts the peer makes fail
	attemptsSeen         int32
	startsAfterFire      int32
	bodies               []*c08Body
	upGates              []chan struct{}
	downGates            []chan struct{}
	interim              int // informational (103 Early Hints) responses the peer sends before the final header
	interimGates         []chan struct{}
	peerBytesAtFire      int64
	peerBytes            int64
	rstSeen              int32
	lateInject           bool
	dialGate             chan struct{}
	dialsStarted         int32
	dialsDone            int32
	dialConnDone         int32 // dial goroutines of the transport (dialConnFor) that have finished
	hsDone               int32
	infra                string
}

func newC08Run(up, down, failFirst, trigger int, inject func()) *c08Run {
	r := &c08Run{trigger: trigger, inject: inject, upChunks: up, downChunks: down, failFirst: failFirst,
		firedCh: make(chan struct{}), release: make(chan struct{}), dialGate: make(chan struct{})}
	return r
}

func (r *c08Run) gate(l *[]chan struct{}, i int) chan struct{} {
	r.mu.Lock()
	defer r.mu.Unlock()
	for len(*l) <= i {
		*l = append(*l, make(chan struct{}))
	}
	return (*l)[i]
}

func c08Open(ch chan struct{}) {
	defer func() { recover() }()
	select {
	case <-ch:
	default:
		close(ch)
	}
}

func (r *c08Run) isFired() bool {
	r.mu.Lock()
	defer r.mu.Unlock()
	return r.fired
}

// trace returns the model tokens observed so far.
func (r *c08Run) traceLocked() []string {
	var t []string
	for _, e := range r.events {
		if e.tok != "" {
			t = append(t, e.tok)
		}
	}
	return t
}

// hit records an event; if it is the chosen injection point the cancellation is injected
// synchronously, in the goroutine that observed the event, before anything else can happen.
// It reports whether the run is frozen (the caller must then stop making progress).
func (r *c08Run) hit(tok, name string, injectable bool) bool {
	r.mu.Lock()
	if r.fired {
		r.events = append(r.events, c08Event{"", "after:" + name, false})
		r.mu.Unlock()
		return true
	}
	r.events = append(r.events, c08Event{tok, name, injectable})
	fire := false
	if injectable {
		if r.nInj == r.trigger {
			fire = true
		}
		r.nInj++
	}
	if fire {
		r.fired = true
		r.firedTr = r.traceLocked()
		r.firedNm = name
		r.peerBytesAtFire = atomic.LoadInt64(&r.peerBytes)
		r.firedAt = time.Now()
		// the upload source never blocks after the injection: it would happily go on
		for _, g := range r.upGates {
			c08Open(g)
		}
	}
	delay := r.delay
	r.mu.Unlock()
	if fire {
		switch {
		case r.stallAt:
		case delay > 0:
			time.AfterFunc(delay, func() {
				r.mu.Lock()
				r.firedAt = time.Now()
				r.lateInject = true
				r.mu.Unlock()
				r.inject()
			})
		default:
			r.inject()
		}
		close(r.firedCh)
	}
	return fire
}

// stall parks a peer goroutine until the harness winds the run down (or the conn dies).
func (r *c08Run) stall(also <-chan struct{}) {
	select {
	case <-r.release:
	case <-also:
	case <-time.After(c08HardLimit):
	}
}

// ---------------------------------------------------------------------------------------
// request body: a streaming upload source that records Close
// ---------------------------------------------------------------------------------------

type c08Body struct {
	run        *c08Run
	i          int
	closes     int32
	readsAfter int32 // Read calls after Close
	closedCh   chan struct{}
}

func (r *c08Run) newBody() *c08Body {
	b := &c08Body{run: r, closedCh: make(chan struct{})}
	r.mu.Lock()
	r.bodies = append(r.bodies, b)
	r.mu.Unlock()
	return b
}

func (b *c08Body) Read(p []byte) (int, error) {
	if atomic.LoadInt32(&b.closes) > 0 {
		atomic.AddInt32(&b.readsAfter, 1)
		return 0, errors.New("c08: read on closed request body")
	}
	r := b.run
	i := b.i
	fired := r.isFired()
	limit := r.upChunks
	if fired {
		limit = r.upChunks + c08FloodCount
	}
	if i >= limit {
		return 0, io.EOF
	}
	if !fired {
		g := r.gate(&r.upGates, i)
		select {
		case <-g:
		case <-r.firedCh:
		case <-b.closedCh:
			return 0, errors.New("c08: request body closed while reading")
		case <-time.After(c08HardLimit):
			return 0, errors.New("c08: upload gate never opened")
		}
	}
	if r.isFired() && i >= r.upChunks+c08FloodCount {
		return 0, io.EOF
	}
	n := c08Chunk
	if len(p) < n {
		n = len(p)
	}
	for k := 0; k < n; k++ {
		p[k] = byte('a' + i%26)
	}
	if n == c08Chunk {
		b.i++
	}
	return n, nil
}

func (b *c08Body) Close() error {
	if atomic.AddInt32(&b.closes, 1) == 1 {
		close(b.closedCh)
	}
	return nil
}

// ---------------------------------------------------------------------------------------
// instrumented dialer
// ---------------------------------------------------------------------------------------

type c08Dialer struct {
	run atomic.Pointer[c08Run]
	n   int32 // dials started in total
}

func (d *c08Dialer) dial(ctx context.Context, network, addr string) (net.Conn, error) {
	atomic.AddInt32(&d.n, 1)
	r := d.run.Load()
	if r != nil {
		atomic.AddInt32(&r.dialsStarted, 1)
		if r.hit("dialStart", "dialStart", true) {
			// injected at dial start: the dial hangs until the call has returned (the transport
			// detaches dials from the request context, so nothing else can end it)
			select {
			case <-r.release:
			case <-time.After(c08HardLimit):
			}
		}
	}
	var nd net.Dialer
	conn, err := nd.DialContext(context.Background(), network, addr)
	if r != nil {
		atomic.AddInt32(&r.dialsDone, 1)
		if err == nil {
			if r.hit("dialDone", "dialDone", true) && r.stallAt {
				select {
				case <-r.release:
				case <-time.After(c08HardLimit):
				}
			}
		}
	}
	return conn, err
}

// handshake is installed with SetTLSHandshake on https runs: hsDone is an injection point.
func (d *c08Dialer) handshake(ctx context.Context, addr string, plain net.Conn) (net.Conn, *tls.ConnectionState, error) {
	r := d.run.Load()
	tc := tls.Client(plain, &tls.Config{InsecureSkipVerify: true, NextProtos: []string{"h2", "http/1.1"}})
	if err := tc.HandshakeContext(context.Background()); err != nil {
		return nil, nil, err
	}
	cs := tc.ConnectionState()
	if r != nil {
		atomic.AddInt32(&r.hsDone, 1)
		if r.hit("hsDone", "hsDone", true) && r.stallAt {
			select {
			case <-r.release:
			case <-time.After(c08HardLimit):
			}
		}
	}
	return tc, &cs, nil
}

// ---------------------------------------------------------------------------------------
// HTTP/1.1 raw TCP script peer
// ---------------------------------------------------------------------------------------

type c08H1Peer struct {
	ln    net.Listener
	run   atomic.Pointer[c08Run]
	mu    sync.Mutex
	conns []net.Conn
	hold  chan struct{} // /hold requests wait for this
	held  chan struct{} // closed when the first /hold request has arrived
}

func newC08H1Peer() (*c08H1Peer, error) {
	ln, err := net.Listen("tcp", "127.0.0.1:0")
	if err != nil {
		return nil, err
	}
	p := &c08H1Peer{ln: ln, hold: make(chan struct{}), held: make(chan struct{})}
	go func() {
		for {
			c, err := ln.Accept()
			if err != nil {
				return
			}
			p.mu.Lock()
			p.conns = append(p.conns, c)
			p.mu.Unlock()
			go p.serve(c)
		}
	}()
	return p, nil
}

func (p *c08H1Peer) url(path string) string { return "http://" + p.ln.Addr().String() + path }

func (p *c08H1Peer) close() {
	p.ln.Close()
	p.mu.Lock()
	for _, c := range p.conns {
		c.Close()
	}
	p.mu.Unlock()
}

type c08CountReader struct {
	r   io.Reader
	run func() *c08Run
}

func (c c08CountReader) Read(b []byte) (int, error) {
	n, err := c.r.Read(b)
	if r := c.run(); r != nil && n > 0 {
		atomic.AddInt64(&r.peerBytes, int64(n))
	}
	return n, err
}

func (p *c08H1Peer) serve(c net.Conn) {
	defer c.Close()
	dead := make(chan struct{})
	defer close(dead)
	br := bufio.NewReader(c08CountReader{c, func() *c08Run { return p.run.Load() }})
	for {
		// request head
		line, err := br.ReadString('\n')
		if err != nil {
			return
		}
		parts := strings.Fields(line)
		if len(parts) < 2 {
			return
		}
		path := parts[1]
		chunked := false
		expect := false
		clen := 0
		for {
			h, err := br.ReadString('\n')
			if err != nil {
				return
			}
			h = strings.TrimRight(h, "\r\n")
			if h == "" {
				break
			}
			lh := strings.ToLower(h)
			if strings.HasPrefix(lh, "transfer-encoding:") && strings.Contains(lh, "chunked") {
				chunked = true
			}
			if strings.HasPrefix(lh, "content-length:") {
				clen, _ = strconv.Atoi(strings.TrimSpace(h[len("content-length:"):]))
			}
			if strings.HasPrefix(lh, "expect:") && strings.Contains(lh, "100-continue") {
				expect = true
			}
		}
		switch {
		case strings.HasPrefix(path, "/plain"):
			if !c08DrainBody(br, chunked, clen) {
				return
			}
			if _, err := io.WriteString(c, "HTTP/1.1 200 OK\r\nContent-Length: 2\r\n\r\nok"); err != nil {
				return
			}
			continue
		case strings.HasPrefix(path, "/hold"):
			c08Open(p.held)
			select {
			case <-p.hold:
			case <-time.After(c08HardLimit):
			}
			if _, err := io.WriteString(c, "HTTP/1.1 200 OK\r\nContent-Length: 2\r\n\r\nok"); err != nil {
				return
			}
			continue
		}
		r := p.run.Load()
		if r == nil {
			return
		}
		attempt := int(atomic.AddInt32(&r.attemptsSeen, 1)) - 1
		if r.hit("wrote", "wroteHdr", true) {
			// (with "Expect: 100-continue" the client is now holding its body back, waiting for us)
			r.stall(nil)
			return
		}
		if expect && !r.noContinue {
			if _, err := io.WriteString(c, "HTTP/1.1 100 Continue\r\n\r\n"); err != nil {
				return
			}
		}
		if chunked {
			for i := 0; ; i++ {
				c08Open(r.gate(&r.upGates, i)) // the client may produce chunk i (or EOF) now
				szl, err := br.ReadString('\n')
				if err != nil {
					return
				}
				sz, err := strconv.ParseInt(strings.TrimSpace(szl), 16, 64)
				if err != nil {
					return
				}
				if sz == 0 {
					if _, err := br.ReadString('\n'); err != nil { // end of (empty) trailer
						return
					}
					break
				}
				if _, err := io.CopyN(io.Discard, br, sz+2); err != nil {
					return
				}
				if i < r.upChunks-1 {
					if r.hit("wrote", "wrote#"+strconv.Itoa(i), true) {
						r.stall(nil)
						return
					}
				}
			}
			if r.upChunks > 0 {
				if r.hit("wrote", "wroteLast", true) {
					r.stall(nil)
					return
				}
			}
		} else if clen > 0 {
			if _, err := io.CopyN(io.Discard, br, int64(clen)); err != nil {
				return
			}
		}
		if attempt < r.failFirst {
			// the peer makes this attempt fail: hang up without a response
			r.hit("attemptFails", "attemptFails", false)
			return
		}
		// 1xx prefix: interim response i+1 is sent once the client has processed interim response i
		for i := 0; i < r.interim; i++ {
			if _, err := io.WriteString(c, "HTTP/1.1 103 Early Hints\r\nLink: </style.css>; rel=preload\r\n\r\n"); err != nil {
				return
			}
			select {
			case <-r.gate(&r.interimGates, i):
			case <-r.firedCh:
				r.stall(nil)
				return
			case <-r.release:
				return
			case <-time.After(c08HardLimit):
				return
			}
		}
		// response: headers, then chunk j once the caller has consumed chunk j-1
		hdr := fmt.Sprintf("HTTP/1.1 200 OK\r\nContent-Type: application/octet-stream\r\nContent-Length: %d\r\n\r\n", r.downChunks*c08Chunk)
		if _, err := io.WriteString(c, hdr); err != nil {
			return
		}
		if r.peerDriven && r.hit("gotHeaders", "hdrSent", true) {
			r.stall(nil)
			return
		}
		buf := make([]byte, c08Chunk)
		for j := 0; j < r.downChunks; j++ {
			if !r.peerDriven {
				select {
				case <-r.gate(&r.downGates, j):
				case <-r.firedCh:
					r.stall(nil)
					return
				case <-r.release:
					return
				case <-time.After(c08HardLimit):
					return
				}
			}
			if r.isFired() {
				r.stall(nil)
				return
			}
			for k := range buf {
				buf[k] = byte('A' + j%26)
			}
			if _, err := c.Write(buf); err != nil {
				return
			}
			if r.peerDriven && j < r.downChunks-1 && r.hit("gotBody", "sent#"+strconv.Itoa(j), true) {
				r.stall(nil)
				return
			}
		}
	}
}

func c08DrainBody(br *bufio.Reader, chunked bool, clen int) bool {
	if chunked {
		for {
			szl, err := br.ReadString('\n')
			if err != nil {
				return false
			}
			sz, err := strconv.ParseInt(strings.TrimSpace(szl), 16, 64)
			if err != nil {
				return false
			}
			if sz == 0 {
				_, err := br.ReadString('\n')
				return err == nil
			}
			if _, err := io.CopyN(io.Discard, br, sz+2); err != nil {
				return false
			}
		}
	}
	if clen > 0 {
		_, err := io.CopyN(io.Discard, br, int64(clen))
		return err == nil
	}
	return true
}

// ---------------------------------------------------------------------------------------
// HTTP/2 scripted origin (net/http's h2 server over TLS, handler stepped by the same gates)
// ---------------------------------------------------------------------------------------

type c08H2Peer struct {
	srv *httptest.Server
	run atomic.Pointer[c08Run]
	h3  bool // serving HTTP/3: the arrival of the request head is no model event (QUIC buffers the
	// header write, the client is already past it), only an injection point
}

func newC08H2Peer() *c08H2Peer {
	p := &c08H2Peer{}
	p.srv = httptest.NewUnstartedServer(http.HandlerFunc(p.handle))
	p.srv.EnableHTTP2 = true
	p.srv.Config.ErrorLog = nil
	p.srv.StartTLS()
	return p
}

func (p *c08H2Peer) url(path string) string { return p.srv.URL + path }
func (p *c08H2Peer) close()                 { p.srv.CloseClientConnections(); p.srv.Close() }

// c08H2Active counts running scripted handlers (lets the harness wait for them to finish).
var c08H2Active int32

func (p *c08H2Peer) handle(w http.ResponseWriter, rq *http.Request) {
	atomic.AddInt32(&c08H2Active, 1)
	defer atomic.AddInt32(&c08H2Active, -1)
	if strings.HasPrefix(rq.URL.Path, "/plain") {
		io.Copy(io.Discard, rq.Body)
		w.Header().Set("Content-Length", "2")
		io.WriteString(w, "ok")
		return
	}
	r := p.run.Load()
	if r == nil {
		return
	}
	stall := func() {
		// wait for the stream to be reset by the client (or the run to be wound down)
		select {
		case <-rq.Context().Done():
			atomic.StoreInt32(&r.rstSeen, 1)
		case <-r.release:
			select {
			case <-rq.Context().Done():
				atomic.StoreInt32(&r.rstSeen, 1)
			case <-time.After(c08Bound):
			}
		case <-time.After(c08HardLimit):
		}
		panic(http.ErrAbortHandler)
	}
	attempt := int(atomic.AddInt32(&r.attemptsSeen, 1)) - 1
	hdrTok := "wrote"
	if p.h3 {
		hdrTok = "inflight"
	}
	if r.hit(hdrTok, "wroteHdr", true) {
		stall()
	}
	if r.upChunks > 0 {
		buf := make([]byte, c08Chunk)
		for i := 0; i < r.upChunks; i++ {
			c08Open(r.gate(&r.upGates, i))
			n, err := io.ReadFull(rq.Body, buf)
			atomic.AddInt64(&r.peerBytes, int64(n))
			if err != nil {
				stall()
			}
			if i < r.upChunks-1 {
				if r.hit("wrote", "wrote#"+strconv.Itoa(i), true) {
					stall()
				}
			}
		}
		c08Open(r.gate(&r.upGates, r.upChunks)) // EOF
		n, err := io.Copy(io.Discard, rq.Body)
		atomic.AddInt64(&r.peerBytes, n)
		if err != nil {
			stall()
		}
		if r.hit("wrote", "wroteLast", true) {
			stall()
		}
	}
	if attempt < r.failFirst {
		r.hit("attemptFails", "attemptFails", false)
		panic(http.ErrAbortHandler) // RST_STREAM from the peer
	}
	for i := 0; i < r.interim; i++ {
		w.Header().Set("Link", "</style.css>; rel=preload")
		w.WriteHeader(103)
		select {
		case <-r.gate(&r.interimGates, i):
		case <-r.firedCh:
			stall()
		case <-rq.Context().Done():
			atomic.StoreInt32(&r.rstSeen, 1)
			panic(http.ErrAbortHandler)
		case <-time.After(c08HardLimit):
			return
		}
	}
	w.Header().Set("Content-Type", "application/octet-stream")
	w.Header().Set("Content-Length", strconv.Itoa(r.downChunks*c08Chunk))
	w.WriteHeader(200)
	w.(http.Flusher).Flush()
	if r.peerDriven && r.hit("gotHeaders", "hdrSent", true) {
		stall()
	}
	buf := make([]byte, c08Chunk)
	for j := 0; j < r.downChunks; j++ {
		if !r.peerDriven {
			select {
			case <-r.gate(&r.downGates, j):
			case <-r.firedCh:
				stall()
			case <-rq.Context().Done():
				atomic.StoreInt32(&r.rstSeen, 1)
				panic(http.ErrAbortHandler)
			case <-time.After(c08HardLimit):
				return
			}
		}
		if r.isFired() {
			stall()
		}
		for k := range buf {
			buf[k] = byte('A' + j%26)
		}
		if _, err := w.Write(buf); err != nil {
			stall()
		}
		w.(http.Flusher).Flush()
		if r.peerDriven && j < r.downChunks-1 && r.hit("gotBody", "sent#"+strconv.Itoa(j), true) {
			stall()
		}
	}
}

// ---------------------------------------------------------------------------------------
// goroutine census (library goroutines only)
// ---------------------------------------------------------------------------------------

// c08Census returns the stacks of goroutines that run imroc/req code and are not part of the
// harness (no harness / testing frame on their stack).
func c08Census() []string {
	buf := make([]byte, 1<<20)
	for {
		n := runtime.Stack(buf, true)
		if n < len(buf) {
			buf = buf[:n]
			break
		}
		buf = make([]byte, 2*len(buf))
	}
	var out []string
	for _, g := range strings.Split(string(buf), "\n\n") {
		lib, harness := false, false
		for _, ln := range strings.Split(g, "\n") {
			if strings.HasPrefix(ln, "\t") || strings.HasPrefix(ln, "goroutine ") {
				continue
			}
			created := strings.HasPrefix(ln, "created by ")
			fn := strings.TrimPrefix(ln, "created by ")
			if strings.Contains(fn, "c08") || strings.Contains(fn, "C08") || strings.Contains(fn, "verifh") ||
				(!created && strings.HasPrefix(fn, "testing.")) {
				if !created {
					harness = true
				}
				continue
			}
			if !created && strings.HasPrefix(fn, "github.com/imroc/req/v3") {
				lib = true
			}
		}
		if lib && !harness {
			out = append(out, g)
		}
	}
	return out
}

// c08Settle polls until the library goroutine count is back to base (or the bound passes) and
// returns the stacks that remain above it.
func c08Settle(base int, bound time.Duration) []string {
	deadline := time.Now().Add(bound)
	for {
		cur := c08Census()
		if len(cur) <= base {
			return nil
		}
		if time.Now().After(deadline) {
			return cur
		}
		time.Sleep(5 * time.Millisecond)
	}
}

func c08TopFrames(stacks []string) string {
	var sb strings.Builder
	for i, g := range stacks {
		if i >= 4 {
			break
		}
		n := 0
		for _, ln := range strings.Split(g, "\n") {
			if strings.HasPrefix(ln, "\t") || strings.HasPrefix(ln, "goroutine ") {
				continue
			}
			if strings.HasPrefix(ln, "github.com/imroc/req/v3") || strings.HasPrefix(ln, "created by") {
				sb.WriteString(strings.SplitN(ln, "(0x", 2)[0])
				sb.WriteString(" < ")
				n++
				if n >= 3 {
					break
				}
			}
		}
		sb.WriteString("; ")
	}
	return sb.String()
}

// c08Watch is the per-call watchdog: a call of the library made by a lane itself (closing a response
// body, a follow-up request, …) runs in a goroutine of its own and is given up on after c08HardLimit — a
// wedged call is reported by name by the lane instead of running the whole package into its time-out.
func c08Watch(what string, fn func()) (wedged string) {
	done := make(chan struct{})
	go func() { defer close(done); fn() }()
	select {
	case <-done:
		return ""
	case <-time.After(c08HardLimit):
		return what + " did not return within " + c08HardLimit.String()
	}
}

// c08WaitFor polls cond (an in-package observation of the transport) up to bound.
func c08WaitFor(bound time.Duration, cond func() bool) bool {
	deadline := time.Now().Add(bound)
	for !cond() {
		if time.Now().After(deadline) {
			return false
		}
		time.Sleep(2 * time.Millisecond)
	}
	return true
}

var _ = httptrace.WithClientTrace
