//go:build verif

package req

import (
	"fmt"
	"strings"
	"testing"

	"github.com/imroc/req/v3/internal/verifh"
	"golang.org/x/net/html"
)

// TestVerif_C15_spec: the WHATWG rules as stated in lean/Req/Client/HtmlSpec.lean (predicates on the text, no
// automaton) against the x/net/html tokenizer that charsets.prescan drives.
func TestVerif_C15_spec(t *testing.T) {
	s := verifh.New(t, "C15", "spec",
		"(cmt) the text after '<!--': 0..9 pieces out of 24 ('-', '--', '---', '!', '--!', '>', '->', '-->', '--!>', '-!>', '<!--', 'x', ' ', quotes, '<meta charset=gbk>', NUL …) followed by a sentinel; the real "+
			"tokenizer's first token is the comment and len(Raw()) tells where it ended — against commentEndAt (shortest prefix with commentCloses); (raw) '<name>' + 0..9 pieces (near-miss end tags: truncated, "+
			"longer name, other element, space after '</', upper / mixed case, delimiters ' ' '/' '>' TAB LF FF CR, '<' '</' '<!--') for the 8 raw-text / RCDATA elements; the length of the tokenizer's text token "+
			"tells where the element ended — against rawSplit. Answer: 'open' or 'closed <offset>'. non-trivial = closed")
	r := s.Rand()
	cnt := c15NewCounter(s)
	const sentinel = "\x01\x02"
	cpool := []string{"-", "--", "---", "!", "--!", ">", "->", "-->", "--!>", "-!>", "<!--", "x", " ", "'", `"`, "<meta charset=gbk>", "\x00", "<", "!-", "- ", "--x", "--!-", "!>", "\n"}
	for i := 0; i < verifh.N(2000, 30000); i++ {
		var sb strings.Builder
		for k := r.Intn(10); k > 0; k-- {
			sb.WriteString(verifh.Pick(r, cpool))
		}
		txt := sb.String()
		impl := "crash"
		if ptxt, panicked := verifh.Safely(func() {
			z := html.NewTokenizer(strings.NewReader("<!--" + txt + sentinel))
			tt := z.Next()
			raw := string(z.Raw())
			switch {
			case tt != html.CommentToken:
				impl = "not-a-comment:" + tt.String()
			case strings.HasSuffix(raw, sentinel):
				impl = "open"
			default:
				impl = fmt.Sprintf("closed %d", len(raw)-4)
			}
		}); panicked {
			impl = "panic:" + ptxt
		}
		cnt.count("cmt:" + strings.SplitN(impl, " ", 2)[0])
		s.Case("c15spec cmt "+verifh.Hex(txt), impl, true, "", impl != "open", fmt.Sprintf("<!--%q: %s", txt, impl))
	}
	tags := []string{"title", "textarea", "style", "xmp", "iframe", "noembed", "noframes", "noscript"}
	for i := 0; i < verifh.N(2500, 40000); i++ {
		tag := verifh.Pick(r, tags)
		other := verifh.Pick(r, tags)
		mixed := []byte(tag)
		for k := range mixed {
			if r.Intn(2) == 0 {
				mixed[k] -= 32
			}
		}
		pool := []string{"x", " ", "<", "</", "</" + tag, "</" + tag, "</" + tag[:len(tag)-1], "</" + strings.ToUpper(tag), "</" + string(mixed), "</" + tag + "x", "</ " + tag, "</" + other, ">", " >", "/>", "/", "\t", "\n", "\x0c", "\r",
			"<!--", "-->", "<meta charset=gbk>", "<" + tag + ">", "=", "'", "\x00", tag}
		var sb strings.Builder
		for k := r.Intn(10); k > 0; k-- {
			sb.WriteString(verifh.Pick(r, pool))
		}
		txt := sb.String()
		impl := "crash"
		if ptxt, panicked := verifh.Safely(func() {
			z := html.NewTokenizer(strings.NewReader("<" + tag + ">" + txt))
			if tt := z.Next(); tt != html.StartTagToken {
				impl = "no-start-tag:" + tt.String()
				return
			}
			switch tt := z.Next(); tt {
			case html.TextToken:
				if n := len(z.Raw()); n < len(txt) {
					impl = fmt.Sprintf("closed %d", n)
				} else {
					impl = "open"
				}
			case html.EndTagToken:
				impl = "closed 0"
			case html.ErrorToken:
				// nothing after the start tag, or an end tag cut off by the end of the input right at the start
				impl = "open"
				if len(txt) > 0 {
					impl = "closed 0"
				}
			default:
				impl = "unexpected:" + tt.String()
			}
		}); panicked {
			impl = "panic:" + ptxt
		}
		cnt.count("raw:" + strings.SplitN(impl, " ", 2)[0])
		s.Case("c15spec raw "+verifh.Hex(tag)+" "+verifh.Hex(txt), impl, true, "", impl != "open", fmt.Sprintf("<%s>%q: %s", tag, txt, impl))
	}
	cnt.must(t, "cmt:open", "cmt:closed", "raw:open", "raw:closed")
	s.Finish()
}
