//go:build verif

package req

import (
	"bytes"
	"fmt"
	"io"
	"math/rand"
	"mime"
	"mime/multipart"
	"net/http"
	"net/textproto"
	"os"
	"path/filepath"
	"sort"
	"strconv"
	"strings"
	"testing"

	"github.com/imroc/req/v3/internal/verifh"
)

// ---- generators -----------------------------------------------------------------------------

// c17Name draws a part / file name: plain, or one needing quoting (quotes, backslashes, TAB,
// other controls, non-ASCII, CR/LF, raw bytes).
func c17Name(r *rand.Rand) string {
	switch r.Intn(10) {
	case 0, 1, 2:
		return verifh.RandBytes(r, 1+r.Intn(10), "abcdefXYZ0123456789._-")
	case 3:
		return verifh.RandBytes(r, 1+r.Intn(8), "ab \"\\'();=,/:<>@[]?")
	case 4:
		return verifh.RandBytes(r, 1+r.Intn(8), "ab\t\x01\x7f\x1f\x0b\x0c\x00")
	case 5:
		n := 1 + r.Intn(5)
		var sb strings.Builder
		for i := 0; i < n; i++ {
			sb.WriteRune(c17Runes[r.Intn(len(c17Runes))])
		}
		return sb.String() + ".txt"
	case 6:
		return verifh.RandBytes(r, 1+r.Intn(6), "ab\r\n")
	case 7:
		return verifh.RandBytes(r, 1+r.Intn(8), "")
	case 8:
		return verifh.RandBytes(r, 1+r.Intn(6), "a\\\"") + verifh.RandBytes(r, 1, "\\\"nrtx0")
	default:
		return "dir/sub\\" + verifh.RandBytes(r, 1+r.Intn(5), "abc") + ".bin"
	}
}

// c17HeaderUnsafe: bytes net/textproto refuses inside a header field value.
func c17HeaderUnsafe(c byte) bool { return (c < 0x20 && c != '\t') || c == 0x7f }

func c17HasUnsafe(s string) bool {
	for i := 0; i < len(s); i++ {
		if c17HeaderUnsafe(s[i]) {
			return true
		}
	}
	return false
}

// c17MimeQuoted is the oracle's statement of the quoting a parameter value needs: standard
// MIME quoting (backslash and double quote escaped, as mime/multipart itself does for names);
// bytes that no header value can carry are percent-encoded (what browsers and newer Go
// releases do for CR / LF).
func c17MimeQuoted(s string) string {
	var sb strings.Builder
	for i := 0; i < len(s); i++ {
		c := s[i]
		switch {
		case c == '\\' || c == '"':
			sb.WriteByte('\\')
			sb.WriteByte(c)
		case c17HeaderUnsafe(c):
			fmt.Fprintf(&sb, "%%%02X", c)
		default:
			sb.WriteByte(c)
		}
	}
	return sb.String()
}

// c17QuoteDiffers: the value is one for which Go's %q is not that quoting (controls, DEL,
// invalid UTF-8, non-printable runes).
func c17QuoteDiffers(s string) bool {
	return strconv.Quote(s) != `"`+c17MimeQuoted(s)+`"`
}

// c17Arrives is what can arrive at best for a name: every byte a header can carry exactly,
// the others percent-encoded.
func c17Arrives(s string) string {
	var sb strings.Builder
	for i := 0; i < len(s); i++ {
		if c17HeaderUnsafe(s[i]) {
			fmt.Fprintf(&sb, "%%%02X", s[i])
		} else {
			sb.WriteByte(s[i])
		}
	}
	return sb.String()
}

// c17NameP: like c17Name, but a name on which %q and MIME quoting differ is kept only with
// probability 1/keep (so that the class of the known quoting defect stays a minority).
func c17NameP(r *rand.Rand, keep int) string {
	for {
		v := c17Name(r)
		if !c17QuoteDiffers(v) || r.Intn(keep) == 0 {
			return v
		}
	}
}

func c17Sniff(first []byte) string {
	buf := make([]byte, 512)
	copy(buf, first)
	return http.DetectContentType(buf)
}

var c17CTs = []string{"text/plain", "application/json; charset=utf-8", "image/png", "application/x-custom+v1",
	"text/html; charset=\"iso-8859-1\"", "application/octet-stream"}

// c17Content draws file bytes with sizes around the 512-byte sniffing buffer and (when big is
// set) the 32 KiB copy buffer; text, binary, boundary look-alikes.
func c17Content(r *rand.Rand, big bool, boundary string) []byte {
	var n int
	switch r.Intn(8) {
	case 0:
		n = 0
	case 1:
		n = 1 + r.Intn(20)
	case 2:
		n = 505 + r.Intn(16) // 505..520
	case 3:
		n = 512
	case 4:
		if big {
			n = 32*1024 - 3 + r.Intn(7)
		} else {
			n = 1000 + r.Intn(2000)
		}
	case 5:
		if big {
			n = 64*1024 + r.Intn(5000)
		} else {
			n = r.Intn(600)
		}
	default:
		n = r.Intn(1500)
	}
	b := make([]byte, n)
	switch r.Intn(5) {
	case 0:
		for i := range b {
			b[i] = "hello world, text content\r\n"[i%27]
		}
	case 1: // boundary look-alikes (never the exact delimiter)
		pat := "\r\n--" + boundary[:len(boundary)-1] + "\r\n--\r\n-" + boundary
		for i := range b {
			b[i] = pat[i%len(pat)]
		}
	case 2:
		copy(b, "%PDF-1.4 ")
		for i := 9; i < n; i++ {
			b[i] = byte(r.Intn(256))
		}
	default:
		r.Read(b)
	}
	// make sure the exact delimiter does not occur (precondition of any multipart transfer)
	d := []byte("\r\n--" + boundary)
	for {
		i := bytes.Index(append([]byte("\r\n"), b...), d)
		if i < 0 {
			break
		}
		if i >= 2 {
			b[i-2] = 'x'
		} else {
			b[0] = 'x'
		}
	}
	return b
}

// c17File is one generated upload.
type c17File struct {
	param, name, ct string // ct = caller-supplied content type ("" = sniffed)
	content         []byte
	extras          [][2]string
	how             string // bytes | reader | path | upload
	firstRead       int    // bytes returned by the first Read
	knownSize       bool
}

type c17ChunkReader struct {
	data   []byte
	chunks []int
	i      int
}

func (c *c17ChunkReader) Read(p []byte) (int, error) {
	if len(c.data) == 0 {
		return 0, io.EOF
	}
	n := len(p)
	if c.i < len(c.chunks) {
		if c.chunks[c.i] < n {
			n = c.chunks[c.i]
		}
		c.i++
	}
	if n > len(c.data) {
		n = len(c.data)
	}
	copy(p, c.data[:n])
	c.data = c.data[n:]
	return n, nil
}

// c17GenFile draws one file and attaches it to the request. dir is a temp dir for path files.
func c17GenFile(r *rand.Rand, req *Request, dir string, idx int, big bool, boundary string, plainNames bool) c17File {
	f := c17File{param: c17NameP(r, 10), name: c17NameP(r, 10), content: c17Content(r, big, boundary)}
	if plainNames {
		f.param = "file" + strconv.Itoa(idx)
		f.name = "name" + strconv.Itoa(idx) + ".bin"
	}
	f.firstRead = len(f.content)
	if f.firstRead > 512 {
		f.firstRead = 512
	}
	switch r.Intn(5) {
	case 0:
		f.how = "bytes"
		req.SetFileBytes(f.param, f.name, f.content)
	case 1:
		f.how = "reader"
		cr := &c17ChunkReader{data: append([]byte(nil), f.content...)}
		for i := 0; i < 4; i++ {
			cr.chunks = append(cr.chunks, verifh.Pick(r, []int{1, 7, 100, 511, 512, 513, 4096, 32 * 1024, 1 << 20}))
		}
		if len(f.content) > 0 && cr.chunks[0] < f.firstRead {
			f.firstRead = cr.chunks[0]
		}
		req.SetFileReader(f.param, f.name, cr)
	case 2:
		f.how = "path"
		// a file on disk: the name is the base name of the path ('/' and NUL cannot occur)
		nm := strings.Map(func(c rune) rune {
			if c == '/' || c == 0 {
				return '_'
			}
			return c
		}, f.name)
		if nm == "." || nm == ".." || len(nm) > 200 {
			nm = "f" + strconv.Itoa(idx)
		}
		sub := filepath.Join(dir, "d"+strconv.Itoa(idx))
		os.MkdirAll(sub, 0o755)
		p := filepath.Join(sub, nm)
		if err := os.WriteFile(p, f.content, 0o644); err != nil {
			// name not representable on this file system: fall back to bytes
			f.how = "bytes"
			req.SetFileBytes(f.param, f.name, f.content)
			break
		}
		f.name = nm
		f.knownSize = true
		req.SetFile(f.param, p)
	default:
		f.how = "upload"
		if r.Intn(2) == 0 {
			f.ct = verifh.Pick(r, c17CTs)
		}
		if r.Intn(12) == 0 {
			f.ct = "  "
		}
		content := f.content
		up := FileUpload{ParamName: f.param, FileName: f.name, ContentType: f.ct,
			GetFileContent: func() (io.ReadCloser, error) { return io.NopCloser(bytes.NewReader(content)), nil }}
		if r.Intn(2) == 0 {
			up.FileSize = int64(len(content))
			f.knownSize = true
		}
		if r.Intn(4) == 0 {
			cd := new(ContentDisposition)
			for i := 0; i <= r.Intn(2); i++ {
				k := "x-p" + strconv.Itoa(i)
				v := c17NameP(r, 10)
				if plainNames {
					v = "plain value " + strconv.Itoa(i)
				}
				cd.Add(k, v)
				f.extras = append(f.extras, [2]string{k, v})
			}
			up.ExtraContentDisposition = cd
		}
		req.SetFileUpload(up)
	}
	return f
}

// c17BadCTs / c17BadKeys: content types that are not header field values and Content-Disposition
// parameter names that are not tokens — what writeMultiPart must refuse (a part header cannot
// carry them; written verbatim they inject header lines).
var c17BadCTs = []string{"text/plain\r\nX-Injected: 1", "a\x00b", "text/\x7f", "x\ny", "\r", "image/png\r\n\r\nbody", "t\x1fq"}
var c17BadKeys = []string{"x y", "x\"y", "k\r\nX-Injected: 1\r\nZ", "", "k;", "ключ", "a=b", "k\x00", "(k)"}

// c17GenRefusedFile attaches a FileUpload the writer must refuse: what = "ctype" | "key".
func c17GenRefusedFile(r *rand.Rand, req *Request, idx int, what string, boundary string) c17File {
	f := c17File{param: "file" + strconv.Itoa(idx), name: "name" + strconv.Itoa(idx) + ".bin", content: c17Content(r, false, boundary), how: "upload"}
	f.firstRead = len(f.content)
	if f.firstRead > 512 {
		f.firstRead = 512
	}
	content := f.content
	up := FileUpload{ParamName: f.param, FileName: f.name,
		GetFileContent: func() (io.ReadCloser, error) { return io.NopCloser(bytes.NewReader(content)), nil }}
	if what == "ctype" {
		f.ct = verifh.Pick(r, c17BadCTs)
		up.ContentType = f.ct
	} else {
		cd := new(ContentDisposition)
		if r.Intn(2) == 0 {
			cd.Add("x-ok", "fine")
			f.extras = append(f.extras, [2]string{"x-ok", "fine"})
		}
		k := verifh.Pick(r, c17BadKeys)
		cd.Add(k, "v")
		f.extras = append(f.extras, [2]string{k, "v"})
		up.ExtraContentDisposition = cd
	}
	req.SetFileUpload(up)
	return f
}

// settled content type of the part as the current code computes it (model parameter).
func (f c17File) settledCT() string {
	if f.ct != "" {
		return f.ct
	}
	return c17Sniff(f.content[:f.firstRead])
}

func c17FilesLine(files []c17File) string {
	var ps, ns, ts, cs, ex []string
	var ks []int
	for _, f := range files {
		ps = append(ps, f.param)
		ns = append(ns, f.name)
		ts = append(ts, f.settledCT())
		cs = append(cs, string(f.content))
		ks = append(ks, len(f.extras))
		for _, e := range f.extras {
			ex = append(ex, e[0], e[1])
		}
	}
	return verifh.HexList(ps) + " " + verifh.HexList(ns) + " " + verifh.HexList(ts) + " " + verifh.HexList(cs) + " " +
		verifh.IntList(ks) + " " + verifh.HexList(ex)
}

func c17FlatPairs(pairs [][2]string) string {
	var l []string
	for _, p := range pairs {
		l = append(l, p[0], p[1])
	}
	return verifh.HexList(l)
}

// ---- the standard server, as an item list -------------------------------------------------------

// c17Item is one part as a standard Go server sees it.
type c17Item struct {
	file             bool
	name, value      string // value = field value
	filename, ct     string
	content          string
	baseNameOK       bool
}

// c17ServerItems runs mime/multipart.Reader (the parser under http.Request.MultipartReader /
// ParseMultipartForm) over a body and applies ReadForm's rules: parts without a form-data
// name are dropped, a part without filename parameter is a value.
func c17ServerItems(boundary string, body []byte) (items []c17Item, err error) {
	mr := multipart.NewReader(bytes.NewReader(body), boundary)
	for {
		p, e := mr.NextPart()
		if e == io.EOF {
			return items, nil
		}
		if e != nil {
			return items, e
		}
		data, e := io.ReadAll(p)
		if e != nil {
			return items, e
		}
		name := p.FormName()
		if name == "" {
			continue
		}
		_, params, _ := mime.ParseMediaType(p.Header.Get("Content-Disposition"))
		raw := params["filename"]
		if raw == "" {
			items = append(items, c17Item{name: name, value: string(data)})
			continue
		}
		items = append(items, c17Item{file: true, name: name, filename: raw, ct: p.Header.Get("Content-Type"),
			content: string(data), baseNameOK: p.FileName() == filepath.Base(raw)})
	}
}

func c17ShowItems(items []c17Item) string {
	if len(items) == 0 {
		return "-"
	}
	out := make([]string, len(items))
	for i, it := range items {
		if it.file {
			out[i] = "f:" + verifh.Hex(it.name) + ":" + verifh.Hex(it.filename) + ":" + verifh.Hex(it.ct) + ":" + verifh.Hex(it.content)
		} else {
			out[i] = "v:" + verifh.Hex(it.name) + ":" + verifh.Hex(it.value)
		}
	}
	return strings.Join(out, ";")
}

// c17SortFieldItems stable-sorts items[from:to] by name (canonical form for fields that came
// out of a Go map).
func c17SortFieldItems(items []c17Item, from, to int) {
	if from < 0 || to > len(items) || from >= to {
		return
	}
	sort.SliceStable(items[from:to], func(i, j int) bool { return items[from+i].name < items[from+j].name })
}

// ---- lanes ----------------------------------------------------------------------------------------

// TestVerif_C17_cdheader: real createMultipartHeader, rendered by multipart.Writer.CreatePart,
// vs the model's fileHeader; oracle: a standard parser (textproto + mime.ParseMediaType) reads
// back exactly the supplied name, filename, extra parameters and content type.
func TestVerif_C17_cdheader(t *testing.T) {
	s := verifh.New(t, "C17", "cdheader",
		"FileUpload headers: ParamName/FileName from plain, tspecial, control (TAB, NUL, DEL…), non-ASCII, CR/LF, raw-byte and backslash-escape look-alike classes; 0..2 extra Content-Disposition parameters; content type from a pool, empty or blank; real createMultipartHeader through CreatePart; oracle = textproto.ReadMIMEHeader + mime.ParseMediaType give back the supplied strings (CR/LF as %0D/%0A); non-trivial = a name that needs quoting")
	r := s.Rand()
	n := verifh.N(3000, 120000)
	for i := 0; i < n; i++ {
		f := &FileUpload{ParamName: c17Name(r), FileName: c17Name(r)}
		if r.Intn(10) == 0 {
			f.ParamName = ""
		}
		if r.Intn(10) == 0 {
			f.FileName = ""
		}
		var extras [][2]string
		if r.Intn(3) == 0 {
			cd := new(ContentDisposition)
			for j := 0; j <= r.Intn(2); j++ {
				k := verifh.Pick(r, []string{"x-a", "creation-date", "size", "X-Upper"}) + strconv.Itoa(j)
				v := c17Name(r)
				if r.Intn(4) == 0 {
					v = ""
				}
				cd.Add(k, v)
				extras = append(extras, [2]string{k, v})
			}
			f.ExtraContentDisposition = cd
		}
		ct := ""
		switch r.Intn(4) {
		case 0:
			ct = verifh.Pick(r, c17CTs)
		case 1:
			ct = verifh.Pick(r, []string{" ", "\t ", "text/x y"})
		}
		var buf bytes.Buffer
		w := multipart.NewWriter(&buf)
		w.SetBoundary("B")
		var impl string
		if txt, bad := verifh.Safely(func() { w.CreatePart(createMultipartHeader(f, ct)) }); bad {
			s.Crash("cdheader", fmt.Sprintf("%q %q", f.ParamName, f.FileName), txt, "")
			continue
		}
		block := strings.TrimPrefix(buf.String(), "--B\r\n")
		impl = verifh.Hex(block)
		// oracle
		values := []string{f.ParamName, f.FileName}
		for _, e := range extras {
			values = append(values, e[1])
		}
		differs := false
		for _, v := range values {
			if c17QuoteDiffers(v) {
				differs = true
			}
		}
		ok := true
		hdr, err := textproto.NewReader(c17BufioReader(block)).ReadMIMEHeader()
		if err != nil {
			ok = false
		} else {
			_, params, perr := mime.ParseMediaType(hdr.Get("Content-Disposition"))
			if perr != nil {
				ok = false
			} else {
				if params["name"] != c17Arrives(f.ParamName) || params["filename"] != c17Arrives(f.FileName) {
					ok = false
				}
				for _, e := range extras {
					if params[strings.ToLower(e[0])] != c17Arrives(e[1]) {
						ok = false
					}
				}
			}
			wantCT := ct
			if strings.TrimSpace(ct) == "" {
				wantCT = ""
			}
			if hdr.Get("Content-Type") != wantCT {
				ok = false
			}
		}
		class := ""
		if differs {
			class = "c17-quote-ctl"
			s.Count("quote-differs")
		} else {
			s.Count("quote-same")
		}
		if len(extras) > 0 {
			s.Count("extras")
		}
		var ex []string
		for _, e := range extras {
			ex = append(ex, e[0], e[1])
		}
		nontriv := strings.ContainsAny(f.ParamName+f.FileName, "\"\\\t\x01\x7f\r\n") || differs
		s.Case("c17cd "+verifh.Hex(f.ParamName)+" "+verifh.Hex(f.FileName)+" "+verifh.HexList(ex)+" "+verifh.Hex(ct),
			impl, ok, class, nontriv, fmt.Sprintf("name=%q filename=%q extras=%q ct=%q -> %q", f.ParamName, f.FileName, extras, ct, block))
	}
	s.Finish()
}

// TestVerif_C17_quote: a file name through the real header construction and the real
// standard parser, vs the model's quote → parseDisposition.
func TestVerif_C17_quote(t *testing.T) {
	s := verifh.New(t, "C17", "quote",
		"file names of 0..12 bytes: every single byte value 0..255 once, then random names from the name classes; real createMultipartHeader → mime.ParseMediaType(filename) vs model; oracle: arrives exactly (CR/LF as %0D/%0A); non-trivial = name contains a byte outside [A-Za-z0-9._-]")
	r := s.Rand()
	n := verifh.N(2500, 100000)
	for i := 0; i < n; i++ {
		var v string
		if i < 256 {
			v = "a" + string([]byte{byte(i)}) + "b"
		} else if i < 512 {
			v = string([]byte{byte(i - 256)})
		} else {
			v = c17Name(r)
			if r.Intn(3) == 0 {
				v += c17Name(r)
			}
		}
		f := &FileUpload{ParamName: "x", FileName: v}
		hdr := createMultipartHeader(f, "")
		_, params, err := mime.ParseMediaType(hdr.Get("Content-Disposition"))
		impl := "reject"
		ok := false
		if err == nil {
			impl = "ok " + verifh.Hex(params["filename"])
			ok = params["filename"] == c17Arrives(v)
		}
		class := ""
		if c17QuoteDiffers(v) {
			class = "c17-quote-ctl"
			s.Count("quote-differs")
		} else {
			s.Count("quote-same")
		}
		if strings.ContainsAny(v, "\r\n") {
			s.Count("crlf")
		}
		nontriv := strings.Trim(v, "abcdefghijklmnopqrstuvwxyzABCDEFGHIJKLMNOPQRSTUVWXYZ0123456789._-") != ""
		s.Case("c17quote "+verifh.Hex(v), impl, ok, class, nontriv, fmt.Sprintf("filename=%q header=%q -> %q err=%v", v, hdr.Get("Content-Disposition"), params["filename"], err))
	}
	// non-ASCII names as TEXT: 1..6 code points drawn from the two-, three- and four-byte ranges of
	// UTF-8 (their first and last members included), optionally around an ASCII letter, a quote or a
	// backslash; the same name as file name, file-parameter name and field name. The name must be on
	// the wire byte for byte (model: utf8Enc + quote; quote_identity_on_utf8) and arrive exactly.
	edges := []rune{0x80, 0x7ff, 0x800, 0xd7ff, 0xe000, 0xfffd, 0xffff, 0x10000, 0x10ffff, 0xe9, 0x540d, 0x1f642}
	m := verifh.N(600, 20000)
	for i := 0; i < m; i++ {
		var cps []rune
		k := 1 + r.Intn(6)
		for j := 0; j < k; j++ {
			switch r.Intn(5) {
			case 0:
				cps = append(cps, edges[(i+j)%len(edges)])
			case 1:
				cps = append(cps, rune(0x80+r.Intn(0x800-0x80)))
			case 2:
				cps = append(cps, rune(0x800+r.Intn(0xd800-0x800)))
			case 3:
				cps = append(cps, rune(0xe000+r.Intn(0x10000-0xe000)))
			default:
				cps = append(cps, rune(0x10000+r.Intn(0x110000-0x10000)))
			}
		}
		ints := make([]int, len(cps))
		for j, cp := range cps {
			ints[j] = int(cp)
		}
		v := string(cps)
		f := &FileUpload{ParamName: v, FileName: v}
		hdr := createMultipartHeader(f, "")
		cd := hdr.Get("Content-Disposition")
		_, params, err := mime.ParseMediaType(cd)
		// the quoted form as it stands in the header
		onWire := ""
		if a := strings.Index(cd, `filename="`); a >= 0 && strings.HasSuffix(cd, `"`) {
			onWire = cd[a+len(`filename="`) : len(cd)-1]
		}
		ok := err == nil && params["filename"] == v && params["name"] == v && onWire == v
		s.Count(fmt.Sprintf("utf8-%d-code-points", k))
		s.Case("c17utf8 "+verifh.IntList(ints), verifh.Hex(v)+" "+verifh.Hex(onWire), ok, "", true,
			fmt.Sprintf("name %q (%d code points, %d bytes) header=%q -> filename=%q name=%q err=%v", v, k, len(v), cd, params["filename"], params["name"], err))
	}
	s.Finish()
}

// TestVerif_C17_mpwrite: the real multipart body (parseRequestBody → handleMultiPart →
// writeMultiPart → writeMultipartFormFile, buffered or through the pipe of forced chunked
// encoding, boundary injected with SetMultipartBoundaryFunc) byte for byte vs the model.
func TestVerif_C17_mpwrite(t *testing.T) {
	s := verifh.New(t, "C17", "mpwrite",
		"multipart requests: fields from ordered form data (0..4 pairs) or a one-key map (so that map order cannot matter), client-level fields in 1/8, both ordered and map in 1/10; in 1/3 of the cases ONE exotic part-header ingredient: a field name with CR / LF / NUL / DEL / other controls (must arrive percent-encoded, never as extra header lines), an empty field name, a file content type that is not a header value (CR LF injection, NUL, DEL), a Content-Disposition parameter name that is not a token (spaces, quotes, CR LF, empty, non-ASCII) — the last three must fail the call; 0..4 files by bytes / scripted reader (first read 1..512 bytes) / path on disk / FileUpload (content type given, blank or sniffed; extra parameters), sizes around 512 B and 32 KiB, text/binary/boundary look-alike content; custom boundaries incl. ones needing quoting; forced chunked in 1/3; non-trivial = at least one file and one field")
	r := s.Rand()
	dir := t.TempDir()
	n := verifh.N(800, 12000)
	boundaries := []string{"B", "xYz123", "----WebKitFormBoundary7MA4YWxkTrZu0gW", "a b", "with:colon=and?q", "(paren)'+_,-./", "0123456789012345678901234567890123456789012345678901234567890123456789"}
	for i := 0; i < n; i++ {
		b := verifh.Pick(r, boundaries)
		c := C().SetMultipartBoundaryFunc(func() string { return b })
		req := c.R()
		req.Method = verifh.Pick(r, []string{"POST", "PUT", "PATCH"})
		req.EnableForceMultipart()
		var pairs [][2]string
		var ordArgs []string
		var mapKey string
		var reqVals, clVals []string
		mode := r.Intn(10)
		// every case belongs to at most one class of known finding: client-level fields are
		// not combined with ordered pairs, exotic names not with either
		withClient := r.Intn(8) == 0
		if withClient && (mode < 5 || mode == 9) {
			mode = 5 + r.Intn(4)
		}
		// what the part headers are made of: mostly plain; else ONE of: a field name with bytes a
		// header cannot carry (CR, LF, NUL, DEL, …), an empty field name, a file whose content type
		// is not a header value, a file with a Content-Disposition parameter name that is not a token
		exotic := ""
		if !withClient && r.Intn(3) == 0 {
			exotic = verifh.Pick(r, []string{"field-ctl", "field-ctl", "field-empty", "ctype", "key"})
		}
		if exotic == "field-ctl" || exotic == "field-empty" {
			mode = r.Intn(5) // ordered pairs only
		}
		if mode < 5 || mode == 9 { // ordered
			np := r.Intn(5)
			if (exotic == "field-ctl" || exotic == "field-empty") && np == 0 {
				np = 1
			}
			special := r.Intn(np + 1)
			for j := 0; j < np; j++ {
				k := c17Str(r, 8)
				if k == "" || c17HasUnsafe(k) {
					k = "k" + strconv.Itoa(j)
				}
				if j == special%max(np, 1) {
					switch exotic {
					case "field-ctl":
						k = verifh.Pick(r, []string{"a\r\nX-Injected: yes", "nul\x00", "\r\n\r\nfake body", "del\x7f", "bell\a", "a\nb", "esc\x1b[0m", "\x01", "tab\tand\vvt"}) + verifh.RandBytes(r, r.Intn(3), "ab\"\\")
					case "field-empty":
						k = ""
					}
				}
				v := c17Str(r, 40)
				pairs = append(pairs, [2]string{k, v})
				ordArgs = append(ordArgs, k, v)
			}
			if len(ordArgs) > 0 {
				req.SetOrderedFormData(ordArgs...)
			}
		}
		if mode >= 5 { // one-key map (mode 9: both)
			mapKey = "m" + verifh.RandBytes(r, r.Intn(4), "ab \"\\é")
			for j := 0; j <= r.Intn(3); j++ {
				v := c17Str(r, 30)
				reqVals = append(reqVals, v)
				req.FormData = nil
			}
			for _, v := range reqVals {
				if req.FormData == nil {
					req.SetFormDataFromValues(map[string][]string{mapKey: {v}})
				} else {
					req.FormData.Add(mapKey, v)
				}
			}
		}
		if withClient {
			if mapKey == "" {
				mapKey = "cm"
			}
			clVals = []string{c17Str(r, 10)}
			c.SetCommonFormDataFromValues(map[string][]string{mapKey: clVals})
		}
		nf := r.Intn(5)
		if nf > 2 && r.Intn(2) == 0 {
			nf = 1
		}
		files := make([]c17File, 0, nf+1)
		refusedAt := -1
		if exotic == "ctype" || exotic == "key" {
			refusedAt = r.Intn(nf + 1)
		}
		for j := 0; j < nf; j++ {
			if j == refusedAt {
				files = append(files, c17GenRefusedFile(r, req, i*10+9, exotic, b))
			}
			files = append(files, c17GenFile(r, req, dir, i*10+j, r.Intn(6) == 0, b, exotic != "" || len(clVals) > 0 || (len(pairs) > 0 && len(reqVals) > 0)))
		}
		if refusedAt == nf {
			files = append(files, c17GenRefusedFile(r, req, i*10+9, exotic, b))
		}
		chunked := r.Intn(3) == 0
		if chunked {
			req.EnableForceChunkedEncoding()
			s.Count("chunked")
		}
		failed, body, ct := c17RunBodyMiddleware(c, req)
		if !failed && chunked && req.GetBody != nil {
			// the streamed body: an error of the writer arrives as the error of reading the pipe
			// (that is what fails the transport's upload)
			rc, _ := req.GetBody()
			var rerr error
			if body, rerr = io.ReadAll(rc); rerr != nil {
				failed, body = true, nil
			}
		}
		impl := "err"
		if !failed {
			impl = verifh.Hex(string(body))
		}
		// the model's field list: ordered pairs, then the (single-key) map: request values, client values
		fields := append([][2]string(nil), pairs...)
		for _, v := range reqVals {
			fields = append(fields, [2]string{mapKey, v})
		}
		for _, v := range clVals {
			fields = append(fields, [2]string{mapKey, v})
		}
		// oracle: what cannot be carried is refused (the call fails, nothing is produced); else the
		// standard reader gives back exactly fields then files — field names like file names: every
		// byte a header can carry exactly, the others percent-encoded
		wantErr := exotic == "field-empty" || exotic == "ctype" || exotic == "key"
		ok := failed == wantErr
		if ok && !failed {
			items, err := c17ServerItems(b, body)
			if err != nil || len(items) != len(fields)+len(files) {
				ok = false
			} else {
				for j, fl := range fields {
					it := items[j]
					if it.file || it.name != c17Arrives(fl[0]) || it.value != fl[1] {
						ok = false
					}
				}
				for j, f := range files {
					it := items[len(fields)+j]
					if !it.file || it.name != c17Arrives(f.param) || it.filename != c17Arrives(f.name) || it.content != string(f.content) {
						ok = false
					}
					if f.ct != "" && strings.TrimSpace(f.ct) != "" && it.ct != f.ct {
						ok = false
					}
				}
			}
			_, cps, cerr := mime.ParseMediaType(ct)
			if cerr != nil || cps["boundary"] != b || !strings.HasPrefix(ct, "multipart/form-data") {
				ok = false
			}
			// no part header may contain a line the caller's strings smuggled in
			if bytes.Contains(body, []byte("X-Injected")) && !bytes.Contains(body, []byte("%0D%0AX-Injected")) {
				ok = false
			}
		}
		class := ""
		differs := false
		for _, f := range files {
			if c17QuoteDiffers(f.param) || c17QuoteDiffers(f.name) {
				differs = true
			}
			for _, e := range f.extras {
				if c17QuoteDiffers(e[1]) {
					differs = true
				}
			}
			s.Count("file-" + f.how)
			switch {
			case len(f.content) == 0:
				s.Count("size-0")
			case len(f.content) < 512:
				s.Count("size<512")
			case len(f.content) == 512:
				s.Count("size=512")
			case len(f.content) < 32*1024:
				s.Count("size<32k")
			default:
				s.Count("size>=32k")
			}
		}
		switch {
		case exotic == "field-ctl":
			class = "c17-field-name-ctl"
		case exotic == "field-empty":
			class = "c17-field-name-empty"
		case exotic == "ctype":
			class = "c17-part-ctype-ctl"
		case exotic == "key":
			class = "c17-part-param-key"
		case differs:
			class = "c17-quote-ctl"
		case len(clVals) > 0:
			class = "c17-client-form-multipart"
		case len(pairs) > 0 && len(reqVals) > 0:
			class = "c17-plain-and-ordered"
		}
		if class != "" {
			s.Count(class)
		}
		s.Case("c17mpwrite "+verifh.Hex(b)+" "+c17FlatPairs(fields)+" "+c17FilesLine(files), impl, ok, class,
			len(files) > 0 && len(fields) > 0,
			fmt.Sprintf("boundary=%q fields=%q files=%s chunked=%v -> %d bytes ct=%q", b, fields, c17DescribeFiles(files), chunked, len(body), ct))
	}
	s.Finish()
}

func c17DescribeFiles(files []c17File) string {
	var sb strings.Builder
	for _, f := range files {
		fmt.Fprintf(&sb, "[%s name=%q filename=%q ct=%q extras=%q %dB first=%d]", f.how, f.param, f.name, f.ct, f.extras, len(f.content), f.firstRead)
	}
	return sb.String()
}

// TestVerif_C17_mpserver ties the Lean multipart SERVER to Go's mime/multipart.Reader on
// bodies written by Go's own multipart.Writer (independent of imroc/req) and on mutated ones.
func TestVerif_C17_mpserver(t *testing.T) {
	s := verifh.New(t, "C17", "mpserver",
		"bodies written by mime/multipart.Writer (CreateFormField / CreateFormFile / CreatePart with hand-made Content-Disposition values: unquoted tokens, odd spacing, upper-case keys, unknown disposition types, missing name) and single-byte mutations of them; Go multipart.Reader + ReadForm rules vs the Lean serverForm; cases the Lean server declares outside its model (folded header lines, RFC 2231 parameters, malformed framing) are only counted; non-trivial = at least one item parsed")
	r := s.Rand()
	n := verifh.N(1200, 50000)
	type pending struct {
		line, impl string
		nontriv    bool
		human      string
	}
	var pend []pending
	for i := 0; i < n; i++ {
		b := verifh.Pick(r, []string{"B", "xYz", "a b", "q=1:2"})
		var buf bytes.Buffer
		w := multipart.NewWriter(&buf)
		w.SetBoundary(b)
		np := r.Intn(5)
		for j := 0; j < np; j++ {
			content := c17Content(r, false, b)
			if len(content) > 300 {
				content = content[:300]
			}
			switch r.Intn(4) {
			case 0:
				name := c17Name(r)
				pw, _ := w.CreateFormField(strings.NewReplacer("\r", "", "\n", "").Replace(name))
				pw.Write(content)
			case 1:
				pw, _ := w.CreateFormFile(strings.NewReplacer("\r", "", "\n", "").Replace(c17Name(r)), strings.NewReplacer("\r", "", "\n", "").Replace(c17Name(r)))
				pw.Write(content)
			default:
				h := textproto.MIMEHeader{}
				cd := verifh.Pick(r, []string{
					`form-data; name=tok; filename=f.txt`,
					`form-data;name="a";filename="b"`,
					`FORM-DATA ;  NAME = "a" ; FileName = "b\"c\\d\e"`,
					`form-data; name="a"; filename=""`,
					`attachment; name="a"; filename="b"`,
					`form-data; filename="only"`,
					`form-data; name="a";`,
					`form-data; name="a"; name="a"`,
					`form-data; name="a"; name="b"`,
					`form-data; name="unterminated`,
					`form-data; name="x"; filename="tab	in"`,
					`form-data; name=a b`,
					`form-data`,
					``,
				})
				if cd != "" {
					h.Set("Content-Disposition", cd)
				}
				if r.Intn(2) == 0 {
					h.Set("Content-Type", verifh.Pick(r, c17CTs))
				}
				if r.Intn(6) == 0 {
					h.Set("X-Other", " spaced value ")
				}
				pw, _ := w.CreatePart(h)
				pw.Write(content)
			}
		}
		w.Close()
		body := buf.Bytes()
		if r.Intn(4) == 0 && len(body) > 0 {
			p := r.Intn(len(body))
			switch r.Intn(3) {
			case 0:
				body[p] = byte(r.Intn(256))
			case 1:
				body = append(body[:p], body[p+1:]...)
			default:
				body = body[:p]
			}
			s.Count("mutated")
		}
		items, err := c17ServerItems(b, body)
		impl := c17ShowItems(items)
		if err != nil {
			impl = "reject"
			s.Count("go-reject")
		}
		pend = append(pend, pending{"c17mpserver " + verifh.Hex(b) + " " + verifh.Hex(string(body)), impl, len(items) > 0 && err == nil,
			fmt.Sprintf("boundary=%q body=%q -> %s err=%v", b, c17Trunc(string(body), 300), c17Trunc(impl, 120), err)})
	}
	// first pass: ask the model which bodies it declares outside its coverage
	lines := make([]string, len(pend))
	for i, p := range pend {
		lines[i] = p.line
	}
	answers, err := verifh.RunModel(lines)
	if err != nil {
		t.Fatalf("driver: %v", err)
	}
	for i, p := range pend {
		if answers[i] == "unsupported" {
			s.Count("model-unsupported")
			continue
		}
		s.Case(p.line, p.impl, true, "", p.nontriv, p.human)
	}
	s.Finish()
}

func c17Trunc(s string, n int) string {
	if len(s) > n {
		return s[:n] + "…"
	}
	return s
}
