//go:build verif

package req

import (
	"fmt"
	"io"
	"strings"
	"testing"

	"github.com/imroc/req/v3/internal/charsets"
	"github.com/imroc/req/v3/internal/verifh"
	htmlcharset "golang.org/x/net/html/charset"
	"golang.org/x/text/encoding"
	"golang.org/x/text/encoding/charmap"
	"golang.org/x/text/encoding/unicode"
)

// TestVerif_C15_dec: the Lean decoders (Latin-1, windows-1252, UTF-16LE/BE) against the x/text
// decoders they model, whole-input and streamed over a generated chunking; and the streaming
// law itself sampled on x/text's CJK decoders (oracle only).
func TestVerif_C15_dec(t *testing.T) {
	s := verifh.New(t, "C15", "dec",
		"random byte strings (all bytes; alphabets rich in surrogate halves d8..df, BOM bytes, NUL, 0x80..0x9f) of 0..64 and occasionally up to 9000 bytes x random chunkings (1-byte, mid-unit, mid-pair): "+
			"Lean decodeAll and feed*+flush vs x/text Decoder.Bytes and transform.Reader for ISO-8859-1, windows-1252, UTF-16LE/BE(IgnoreBOM); plus the law 'chunked + flush = whole' sampled on x/text's "+
			"gbk gb18030 big5 shift_jis euc-kr euc-jp iso-2022-jp decoders (text and random bytes). non-trivial = at least 2 chunks and a non-ASCII byte")
	r := s.Rand()
	native := []struct {
		id  string
		enc encoding.Encoding
	}{
		{"latin1", charmap.ISO8859_1},
		{"w1252", charmap.Windows1252},
		{"u16le", unicode.UTF16(unicode.LittleEndian, unicode.IgnoreBOM)},
		{"u16be", unicode.UTF16(unicode.BigEndian, unicode.IgnoreBOM)},
	}
	chunk := func(in string) []string {
		var chunks []string
		for len(in) > 0 {
			k := 1 + r.Intn(verifh.Pick(r, []int{1, 2, 3, 5, 16, 5000}))
			if k > len(in) {
				k = len(in)
			}
			chunks = append(chunks, in[:k])
			in = in[k:]
		}
		if r.Intn(8) == 0 {
			chunks = append(chunks, "")
		}
		return chunks
	}
	stream := func(e encoding.Encoding, chunks []string) string {
		src := newC15Src(chunks, io.EOF, r.Intn(2) == 0)
		b, err := io.ReadAll(e.NewDecoder().Reader(src))
		if err != nil {
			return "!stream-error!"
		}
		return string(b)
	}
	n := verifh.N(3000, 60000)
	for i := 0; i < n; i++ {
		nat := verifh.Pick(r, native)
		size := r.Intn(65)
		if r.Intn(60) == 0 {
			size = verifh.Pick(r, []int{4095, 4096, 4097, 8191, 9000})
		}
		alpha := verifh.Pick(r, []string{"", "\xd8\xdc\x00\x41\xdb\xdf\xff\xfe\x3d\xde", "ab\x80\x81\x8d\x9f\xa0\xff\x00", "\xd8\x00\xdc\x00"})
		in := verifh.RandBytes(r, size, alpha)
		chunks := chunk(in)
		whole := c15Transcode(nat.enc, in)
		streamed := stream(nat.enc, chunks)
		nonASCII := false
		for j := 0; j < len(in); j++ {
			if in[j] >= 0x80 {
				nonASCII = true
			}
		}
		s.Count("native:" + nat.id)
		s.Case("c15dec "+nat.id+" - "+verifh.HexList(chunks), verifh.Hex(whole)+" "+verifh.Hex(streamed), whole == streamed, "",
			len(chunks) >= 2 && nonASCII, fmt.Sprintf("%s %x in %d chunks -> %x", nat.id, in, len(chunks), whole))
	}
	// the law on the decoders that are not modelled
	m := verifh.N(600, 10000)
	for i := 0; i < m; i++ {
		cs := verifh.Pick(r, c15Charsets[:8])
		e := c15Lookup(cs.label)
		var in string
		if r.Intn(3) == 0 {
			in = verifh.RandBytes(r, r.Intn(200), "")
		} else {
			in = c15Encode(e, c15Text(r, cs, 20+r.Intn(300)))
			if r.Intn(4) == 0 && len(in) > 0 {
				in = in[:len(in)-1] // may end inside a character
			}
		}
		chunks := chunk(in)
		whole := c15Transcode(e, in)
		streamed := stream(e, chunks)
		s.Count("law:" + cs.label)
		s.Observe(fmt.Sprintf("law/%s/%x/%d", cs.label, in, len(chunks)), whole == streamed, "", len(chunks) >= 2,
			fmt.Sprintf("x/text %s: streamed over %d chunks == whole", cs.label, len(chunks)),
			fmt.Sprintf("whole=%x streamed=%x", whole, streamed))
	}
	s.Finish()
}

// TestVerif_C15_find: charsets.FindEncoding vs the model (BOM table in Lean; the HTML prescan
// verdict stated by the harness from its own knowledge of the generated declarations).
func TestVerif_C15_find(t *testing.T) {
	s := verifh.New(t, "C15", "find",
		"contents = every prefix class of generated HTML bodies (meta charset / http-equiv in 6+5 spellings, decoys in comments / without pragma, conflicting declarations, 20 charset labels) cut before, inside and "+
			"after the declaration; BOMs (fe ff, ff fe, ef bb bf), partial BOMs, BOM + meta, BOM-like bytes later in the content; empty content. Answer = 'none' or the found decoder applied to the content "+
			"(x/text as oracle string where Lean has no decoder). non-trivial = an encoding is found")
	r := s.Rand()
	n := verifh.N(2500, 40000)
	for i := 0; i < n; i++ {
		var content string
		var pe encoding.Encoding
		var pn string
		switch r.Intn(4) {
		case 0: // BOM family
			content = verifh.Pick(r, []string{"\xfe\xff", "\xff\xfe", "\xef\xbb\xbf", "\xff", "\xfe", "\xef\xbb", "\xef", "\xfe\xfe", "\xff\xff", "\xbb\xbf", "", "a\xff\xfe", "\x00\xfe\xff"}) +
				verifh.RandBytes(r, r.Intn(6), verifh.Pick(r, []string{"", "h\x00i", "\xd8\xdc"}))
			if r.Intn(3) == 0 {
				content += `<meta charset="gbk">`
			}
			// no independent expectation for arbitrary bytes: the prescan verdict is the real one
			// (ignored by the model whenever a BOM decides)
			pe, pn = charsets.FindEncoding([]byte(content))
			if name, _ := c15ExpectedBOM(content); name != "" {
				pe, pn = nil, ""
			}
			s.Count("bom-family")
		default:
			cs := verifh.Pick(r, c15Charsets[:20])
			site := verifh.Pick(r, []string{"metacharset", "metahttpequiv", "conflict-meta", "decoy", "none"})
			b := c15MakeBody(r, cs, site, 40+r.Intn(260), verifh.Pick(r, []int{0, 0, 30, 90}))
			m := len(b.body)
			if len(b.decls) > 0 && r.Intn(2) == 0 {
				m = b.decls[r.Intn(len(b.decls))].end + verifh.Pick(r, []int{-20, -2, -1, 0, 1, 5})
			} else if r.Intn(3) == 0 {
				m = r.Intn(len(b.body) + 1)
			}
			if m < 0 {
				m = 0
			}
			if m > len(b.body) {
				m = len(b.body)
			}
			content = b.body[:m]
			if r.Intn(10) == 0 {
				content = verifh.Pick(r, []string{"\xfe\xff", "\xff\xfe", "\xef\xbb\xbf"}) + content
				pe, pn = nil, "" // BOM decides; prescan not consulted
			} else {
				pe, pn = c15ExpectedPrescan(b, m)
			}
			s.Count("site:" + site)
		}
		e, name := charsets.FindEncoding([]byte(content))
		impl := "none"
		var tbl c15Tbl
		if e != nil {
			impl = verifh.Hex(c15Transcode(e, content))
			s.Count("found")
		} else {
			s.Count("nothing:" + name)
		}
		pre := "none"
		if pe != nil || pn != "" {
			pre = c15DecID(pe) + "/" + verifh.Hex(pn)
			tbl.addFor(pe, content)
		}
		// independent oracle: a BOM decides first; otherwise the generator's declaration
		ok := true
		if bn, be := c15ExpectedBOM(content); bn != "" {
			ok = (be == nil && e == nil) || (be != nil && e != nil && c15EncName(be) == c15EncName(e))
		}
		s.Case("c15find "+verifh.Hex(content)+" "+pre+" "+tbl.String(), impl, ok, "", e != nil,
			fmt.Sprintf("FindEncoding(%s) = %v %q", c15Short(content), e, name))
	}
	s.Finish()
}

// TestVerif_C15_drain: Read on a reader that carries decoded bytes over (`peek`), i.e. the
// peekDrain path, with and without a decoder behind it.
func TestVerif_C15_drain(t *testing.T) {
	s := verifh.New(t, "C15", "drain",
		"autoDecodeReadCloser{detected: true, peek: 0..40 random bytes or nil, decodeReader: windows-1252 / UTF-16 transform.Reader over a scripted source, or nil} read with buffers smaller than, equal to and "+
			"larger than the carried-over bytes (incl. 0); a nil decoder behind a short peek is the crash the model calls `panic`. non-trivial = peek non-empty and a decoder present")
	r := s.Rand()
	n := verifh.N(1500, 30000)
	tr := T()
	for i := 0; i < n; i++ {
		var peek []byte
		peekArg := "nil"
		if r.Intn(8) != 0 {
			peek = []byte(verifh.RandBytes(r, 1+r.Intn(40), ""))
			peekArg = verifh.Hex(string(peek))
		}
		did := verifh.Pick(r, []string{"w1252", "u16le", "u16be", "w1252", "none"})
		body := verifh.RandBytes(r, r.Intn(40), verifh.Pick(r, []string{"", "h\x00\xd8\xdc\x3d\xde"}))
		fake := c15Body{body: body}
		for j := 1; j < len(body); j++ {
			fake.mbAt = append(fake.mbAt, j)
		}
		segs := c15Segment(r, fake, verifh.Pick(r, []int{0, 1, 3, 6}))
		term, lwt := c15PickTerm(r)
		src := newC15Src(segs, term, lwt)
		a := &autoDecodeReadCloser{ReadCloser: src, t: tr, detected: true, peek: peek}
		switch did {
		case "w1252":
			a.decodeReader = charmap.Windows1252.NewDecoder().Reader(src)
		case "u16le":
			e, _ := htmlcharset.Lookup("utf-16le")
			a.decodeReader = e.NewDecoder().Reader(src)
		case "u16be":
			e, _ := htmlcharset.Lookup("utf-16be")
			a.decodeReader = e.NewDecoder().Reader(src)
		}
		var bufs []int
		for k := 0; k < r.Intn(4); k++ {
			bufs = append(bufs, verifh.Pick(r, []int{0, 1, 2, len(peek) - 1, len(peek), len(peek) + 1, len(peek) + 7, 64}))
			if bufs[k] < 0 {
				bufs[k] = 0
			}
		}
		tail := verifh.Pick(r, []int{1, 2, 3, 7, 64})
		out, tm, anomaly := c15Drain(a, bufs, tail, []byte{0xAA})
		f := func(x bool) string {
			if x {
				return "1"
			}
			return "0"
		}
		impl := verifh.Hex(string(out)) + " " + tm + " auto:" + f(a.detected) + f(a.decodeReader != nil) + f(a.peek != nil)
		s.Count("decoder:" + did)
		s.Count("term:" + tm)
		s.Case(strings.Join([]string{"c15drain", peekArg, did, "-", verifh.HexList(segs), c15TermName(term), f(lwt), verifh.IntList(bufs), fmt.Sprint(tail)}, " "),
			impl, anomaly == "" && (tm != "panic" || did == "none"), "", len(peek) > 0 && did != "none",
			fmt.Sprintf("peek=%x dec=%s body=%x segs=%d bufs=%v tail=%d -> %x %s", peek, did, body, len(segs), bufs, tail, out, tm))
	}
	s.Finish()
}
