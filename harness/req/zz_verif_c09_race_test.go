//go:build verif

package req

import (
	"context"
	"crypto/tls"
	"fmt"
	"io"
	"log"
	"net"
	"net/http"
	"net/http/httptest"
	"net/url"
	"strconv"
	"strings"
	"sync"
	"sync/atomic"
	"testing"
	"time"

	"github.com/imroc/req/v3/internal/netutil"
	"github.com/imroc/req/v3/internal/verifh"
	"github.com/imroc/req/v3/pkg/altsvc"
)

// TestVerif_C09_racestress is the stress of TestVerif_C09_stress run again by the lane entry
// that bin/check builds with -race in the thorough tier ("race": true). A race report makes the
// test binary fail, which bin/check reports as a violation found by search. Without -race
// (quick tier) it only runs a token budget.
func TestVerif_C09_racestress(t *testing.T) {
	s := verifh.New(t, "C09", "racestress",
		"the rounds of lane `stress` (other derived seed) executed under the race detector in the thorough tier; the history still goes to the Lean monitor; a data-race report fails the test process")
	r := s.Rand()
	guarded := c09AltSvcGuarded(t)
	rounds := 3
	if c09RaceEnabled {
		rounds = verifh.N(20, 200)
		s.Count("race-detector-on")
	} else {
		s.Count("race-detector-off(token run)")
	}
	kinds := []string{"h1", "mixed", "altsvc", "h1", "h3forced", "mixed"}
	tag := 0
	for i := 0; i < rounds; i++ {
		kind := kinds[i%len(kinds)]
		if kind == "altsvc" && c09RaceEnabled && !guarded {
			s.Count("skipped-known-racy:altsvc-under-race")
			kind = "mixed"
		}
		rd := c09GenRound(r, kind, &tag, guarded)
		var oc c09Outcome
		if txt, bad := verifh.Safely(func() { oc = c09RunRound(t, rd, guarded) }); bad {
			s.Crash(fmt.Sprintf("round %d", i), rd.kind, txt, "")
			break // a panicking / wedged round leaves goroutines behind: stop the lane
		}
		s.Count("round-" + rd.kind)
		ok := oc.tagsOK && len(oc.unexpected) == 0
		human := oc.human
		if !ok {
			human += " UNEXPECTED: " + strings.Join(oc.unexpected, "; ")
		}
		s.Case(oc.line, "ok", ok, "", len(rd.callers) >= 2 && oc.events > 20, human)
		if oc.knownH2Unusable > 0 {
			s.Observe(fmt.Sprintf("round-%d-h2-unusable", i), false, c09ClassH2Unusable, false, human,
				fmt.Sprintf("%d callers got \"http2: client conn not usable\" under DisableKeepAlives", oc.knownH2Unusable))
		}
	}
	s.Finish()
}

// TestVerif_C09_racefocus hammers the shared bookkeeping the property anchors directly:
// (a) AltSvcJar Set/Get, (b) handleAltSvc/checkAltSvc with a live HTTP/3 alternative,
// (c) Client.Clone + Transport.Clone + CloseIdleConnections while requests run on HTTP/1.1,
// HTTP/2 and HTTP/3. (a) and (b) make the two known unguarded accesses truly concurrent, so
// they run only when the regenerated lock-set facts show them guarded (patches applied).
func TestVerif_C09_racefocus(t *testing.T) {
	s := verifh.New(t, "C09", "racefocus",
		"focused concurrent hammering: (a) 8 goroutines x SetAltSvc/GetAltSvc on 4 keys incl. expiring entries; (b) 6 goroutines x handleAltSvc/checkAltSvc on 3 authorities with a live HTTP/3 alternative; (d) round 7: 6 goroutines on HTTP/1.1 connections whose Write returns 1 ms late (writeLoop reports after the response was processed): GETs with and without response body x POSTs whose body tail is held back and which the origin answers 401 at once on a kept-alive connection, the tail released 2 ms after the caller is done — every call succeeds and echoes its own tag, under -race no report; (c) 8 request goroutines on HTTP/1.1+HTTP/2(+HTTP/3) x Client.Clone x Transport.Clone x CloseIdleConnections loops; oracle: no panic, every Get returns nil or the entry of its own key, every response echoes its own tag; under -race (thorough) any data-race report fails the run; (a),(b) gated by the lock-set facts")
	iters := verifh.N(300, 4000)
	jarOK := c09ForceKnownRacy() || c09FieldGuarded(t, "AltSvcJar.entries")
	pendOK := c09ForceKnownRacy() || c09FieldGuarded(t, "Transport.pendingAltSvcs")
	h3TransportOK := c09ForceKnownRacy() || c09FieldGuarded(t, "RoundTripper.transport")
	if !h3TransportOK {
		s.Count("skipped-known-racy:http3.RoundTripper.dial(two alternative hosts)")
	}

	// (a) jar
	if jarOK {
		var bad atomic.Int32
		txt, panicked := verifh.Safely(func() {
			j := altsvc.NewAltSvcJar()
			var wg sync.WaitGroup
			for g := 0; g < 8; g++ {
				wg.Add(1)
				go func(g int) {
					defer wg.Done()
					for i := 0; i < iters; i++ {
						k := (g + i) % 4
						addr := "https://h" + strconv.Itoa(k) + ":443"
						if (g+i)%3 == 0 {
							exp := time.Now().Add(time.Hour)
							if i%7 == 0 {
								exp = time.Now().Add(-time.Second) // already expired: Get deletes it
							}
							j.SetAltSvc(addr, &altsvc.AltSvc{Protocol: "h3", Host: "h" + strconv.Itoa(k), Port: "443", Expire: exp})
						} else if as := j.GetAltSvc(addr); as != nil && as.Host != "h"+strconv.Itoa(k) {
							bad.Add(1)
						}
					}
				}(g)
			}
			wg.Wait()
		})
		if panicked {
			s.Crash("jar", "AltSvcJar Set/Get hammer", txt, "")
		}
		s.Observe("jar", bad.Load() == 0, "", true, "AltSvcJar: 8 goroutines x Set/Get on 4 keys", fmt.Sprintf("%d lookups returned another key's entry", bad.Load()))
		s.Count("jar-hammer")
	} else {
		s.Count("skipped-known-racy:AltSvcJar.GetAltSvc")
	}

	// shared origins for (b) and (c)
	rec := newC09Rec()
	h3o, err := newC09H3Origin(rec)
	if err != nil {
		t.Fatalf("h3 origin: %v", err)
	}
	defer h3o.stop()
	altv := fmt.Sprintf(`h3=":%d"; ma=3600`, h3o.port())
	h1o, err := newC09H1Origin(rec, 1, "", 0)
	if err != nil {
		t.Fatalf("listen: %v", err)
	}
	defer h1o.stop()
	h2srv := httptest.NewUnstartedServer(c09MuxHandler(rec, "h2", ""))
	h2srv.EnableHTTP2 = true
	h2srv.Config.ErrorLog = log.New(io.Discard, "", 0)
	h2srv.StartTLS()
	defer h2srv.Close()

	newClient := func(h3 bool) *Client {
		cl := C().EnableInsecureSkipVerify().SetTimeout(30 * time.Second)
		cl.SetLogger(nil)
		cl.GetTransport().Proxy = nil
		if h3 {
			cl.EnableHTTP3()
			if cl.t3 != nil {
				cl.t3.TLSClientConfig = &tls.Config{InsecureSkipVerify: true}
			}
		}
		return cl
	}

	// (b) handleAltSvc / checkAltSvc
	if pendOK {
		var bad atomic.Int32
		var h3hits atomic.Int32
		txt, panicked := verifh.Safely(func() {
			cl := newClient(true)
			tr := cl.GetTransport()
			// three authorities that all resolve to loopback; the alternative is the live h3 origin
			auths := []string{"127.0.0.1:1", "127.0.0.1:2", "localhost:3"}
			if !h3TransportOK {
				// finding C09-4: dial goroutines for DIFFERENT alternative hosts race on the lazily
				// created quic.Transport; with one alternative host there is a single dial
				auths = []string{"127.0.0.1:1", "127.0.0.1:2", "127.0.0.1:3"}
			}
			// what Transport.roundTrip does for every https request before Alt-Svc is ever
			// consulted: it initialises the HTTP/3 round tripper (see finding C09-3)
			if pre, e := http.NewRequest("GET", "https://127.0.0.1:1/x", nil); e == nil {
				tr.t3.RoundTripOnlyCachedConn(pre)
			}
			var wg sync.WaitGroup
			n := iters / 20
			for g := 0; g < 6; g++ {
				wg.Add(1)
				go func(g int) {
					defer wg.Done()
					for i := 0; i < n; i++ {
						a := auths[(g+i)%len(auths)]
						u, _ := url.Parse("https://" + a + "/x")
						tag := 1000000 + g*100000 + i
						req, _ := http.NewRequest("GET", u.String(), nil)
						req.Header.Set("X-Tag", strconv.Itoa(tag))
						req.Header.Set("X-Plan", c09Plan{size: 32}.String())
						if (g+i)%2 == 0 {
							tr.handleAltSvc(req, altv)
							continue
						}
						resp, err := tr.checkAltSvc(req)
						if err != nil || resp == nil {
							continue // no alternative known yet (or probe failed): normal path would follow
						}
						b, _ := io.ReadAll(resp.Body)
						resp.Body.Close()
						h3hits.Add(1)
						if resp.Header.Get("X-Tag") != strconv.Itoa(tag) || string(b) != string(c09Pattern(tag, 32, "r")) {
							bad.Add(1)
						}
						_ = netutil.AuthorityKey(u)
					}
				}(g)
			}
			wg.Wait()
			tr.t3.Close()
		})
		if panicked {
			s.Crash("altsvc", "handleAltSvc/checkAltSvc hammer", txt, "")
		}
		s.Observe("altsvc", bad.Load() == 0, "", h3hits.Load() > 0,
			fmt.Sprintf("handleAltSvc/checkAltSvc: 6 goroutines, 3 authorities, %d requests went over the alternative", h3hits.Load()),
			fmt.Sprintf("%d responses did not echo their tag", bad.Load()))
		s.Count("altsvc-hammer")
		if h3hits.Load() > 0 {
			s.Count("altsvc-hammer-reached-h3")
		}
	} else {
		s.Count("skipped-known-racy:Transport.checkAltSvc")
	}

	// (c) Clone + CloseIdleConnections + requests
	{
		var bad, done, failed atomic.Int32
		txt, panicked := verifh.Safely(func() {
			cl := newClient(false)
			tr := cl.GetTransport()
			tr.MaxConnsPerHost = 3
			tr.MaxIdleConnsPerHost = 2
			cl3 := newClient(true)
			cl3.EnableForceHTTP3()
			urls := []string{"http://" + h1o.addr() + "/a", h2srv.URL + "/h2"}
			u3 := fmt.Sprintf("https://127.0.0.1:%d/h3", h3o.port())
			stop := make(chan struct{})
			var bg sync.WaitGroup
			loop := func(f func()) {
				bg.Add(1)
				go func() {
					defer bg.Done()
					for {
						select {
						case <-stop:
							return
						default:
							f()
							time.Sleep(300 * time.Microsecond)
						}
					}
				}()
			}
			loop(func() { tr.CloseIdleConnections() })
			loop(func() { _ = cl.Clone() })
			loop(func() { _ = tr.Clone() })
			loop(func() { cl3.GetTransport().t3.CloseIdleConnections() })
			loop(func() { _ = cl3.Clone() })
			var wg sync.WaitGroup
			n := iters / 10
			for g := 0; g < 8; g++ {
				wg.Add(1)
				go func(g int) {
					defer wg.Done()
					for i := 0; i < n; i++ {
						tag := 2000000 + g*100000 + i
						c, u := cl, urls[(g+i)%2]
						if g >= 6 {
							c, u = cl3, u3
						}
						resp, err := c.R().SetHeader("X-Tag", strconv.Itoa(tag)).SetHeader("X-Plan", c09Plan{size: 200, delay: i % 2}.String()).Get(u)
						if err != nil {
							failed.Add(1) // CloseIdleConnections vs a multiplexed connection just selected
							continue
						}
						done.Add(1)
						if resp.Header.Get("X-Tag") != strconv.Itoa(tag) || string(resp.Bytes()) != string(c09Pattern(tag, 200, "r")) {
							bad.Add(1)
						}
					}
				}(g)
			}
			wg.Wait()
			close(stop)
			bg.Wait()
			tr.CloseIdleConnections()
			cl3.GetTransport().t3.Close()
		})
		if panicked {
			s.Crash("clone-close", "Clone/CloseIdleConnections/requests hammer", txt, "")
		}
		s.Observe("clone-close", bad.Load() == 0 && done.Load() > 0, "", true,
			fmt.Sprintf("Clone x CloseIdleConnections x requests: %d answered, %d failed (closed while selected)", done.Load(), failed.Load()),
			fmt.Sprintf("%d responses did not echo their tag; %d answered", bad.Load(), done.Load()))
		s.Count("clone-close-hammer")
	}
	// (d) round 7: connections whose writer reports late x uploads answered early x concurrent callers
	{
		var bad, done, failed, early atomic.Int32
		txt, panicked := verifh.Safely(func() {
			cl := newClient(false)
			cl.SetDial(func(ctx context.Context, network, addr string) (net.Conn, error) {
				var d net.Dialer
				c, err := d.DialContext(ctx, network, addr)
				if err != nil {
					return nil, err
				}
				return &c09LagConn{Conn: c, lag: time.Millisecond}, nil
			})
			tr := cl.GetTransport()
			tr.MaxIdleConnsPerHost = 4
			var wg sync.WaitGroup
			n := 4 + iters/150
			for g := 0; g < 6; g++ {
				wg.Add(1)
				go func(g int) {
					defer wg.Done()
					for i := 0; i < n; i++ {
						tag := 3000000 + g*100000 + i
						if g < 3 && i%2 == 1 {
							// an upload whose tail is held back; the origin answers 401 at once (keep-alive)
							up := c09Pattern(tag, 400, "q")
							held := &c09HeldBody{first: up[:100], rest: up[100:], release: make(chan struct{})}
							hr, _ := http.NewRequest("POST", "http://"+h1o.addr()+"/u", held)
							hr.ContentLength = int64(len(up))
							hr.Header.Set("X-Tag", strconv.Itoa(tag))
							hr.Header.Set("X-Plan", c09Plan{expect: 2, status: 401}.String())
							resp, err := tr.RoundTrip(hr)
							if err != nil {
								held.let()
								failed.Add(1)
								continue
							}
							io.Copy(io.Discard, resp.Body)
							resp.Body.Close()
							time.Sleep(2 * time.Millisecond) // the others get their turn while the tail is still held
							held.let()
							early.Add(1)
							if resp.StatusCode != 401 || resp.Header.Get("X-Tag") != strconv.Itoa(tag) {
								bad.Add(1)
							}
							continue
						}
						size := (i % 2) * 200
						resp, err := cl.R().SetHeader("X-Tag", strconv.Itoa(tag)).SetHeader("X-Plan", c09Plan{size: size}.String()).Get("http://" + h1o.addr() + "/a")
						if err != nil {
							failed.Add(1)
							continue
						}
						done.Add(1)
						if resp.Header.Get("X-Tag") != strconv.Itoa(tag) || string(resp.Bytes()) != string(c09Pattern(tag, size, "r")) {
							bad.Add(1)
						}
					}
				}(g)
			}
			wg.Wait()
			tr.CloseIdleConnections()
		})
		if panicked {
			s.Crash("late-writer", "late-reporting writers / early-answered uploads / concurrent GETs", txt, "")
		}
		s.Observe("late-writer", bad.Load() == 0 && failed.Load() == 0 && done.Load() > 0 && early.Load() > 0, "", true,
			fmt.Sprintf("late-reporting writers x early-answered held uploads x concurrent GETs: %d GETs answered, %d uploads answered early, %d failed", done.Load(), early.Load(), failed.Load()),
			fmt.Sprintf("%d responses did not echo their tag / status; %d calls failed (none should: nothing closes a connection in use here)", bad.Load(), failed.Load()))
		s.Count("late-writer-hammer")
	}
	if c09RaceEnabled {
		s.Count("race-detector-on")
	} else {
		s.Count("race-detector-off")
	}
	s.Finish()
}
