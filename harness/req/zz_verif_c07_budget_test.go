//go:build verif

package req

// C07 round 4 — HTTP/1.1 MaxResponseHeaderBytes accounting against the Lean model.
//
// h1limit: in-package, a persistConn over an in-memory connection; a recorder between pc.br and the
// persistConn logs every call of persistConn.Read (size of the slice bufio offers, bytes the socket
// has ready, result). The whole call sequence is replayed through the model of pc.Read
// (C07.H1Budget.pcRead, lane c07pcread) — every single result must agree — and the lane checks the
// budget statements the theorems make about the model on the real run: bytes taken from the socket
// between two settings of the limit never exceed it, a head is accepted only if it fits, and a
// refusal for size happens only with the whole budget used.

import (
	"bufio"
	"fmt"
	"io"
	"net/http"
	"strconv"
	"strings"
	"testing"

	"github.com/imroc/req/v3/internal/verifh"
)

type c07Rec struct {
	pc    *persistConn
	conn  *c07MemConn
	calls []string
	res   []string
	taken int // bytes taken from the socket since the limit was last seen at its maximum
	peak  int
	last  int64
}

func (r *c07Rec) Read(p []byte) (int, error) {
	avail := len(r.conn.data) - r.conn.pos
	if r.conn.seg > 0 && avail > r.conn.seg {
		avail = r.conn.seg
	}
	if r.pc.readLimit > r.last { // the limit was set again (interim head)
		r.taken = 0
	}
	n, err := r.pc.Read(p)
	r.last = r.pc.readLimit
	r.calls = append(r.calls, strconv.Itoa(len(p))+":"+strconv.Itoa(avail))
	if err != nil && err != io.EOF {
		r.res = append(r.res, "X")
	} else {
		r.res = append(r.res, strconv.Itoa(n))
	}
	r.taken += n
	if r.taken > r.peak {
		r.peak = r.taken
	}
	return n, err
}

func TestVerif_C07_h1limit(t *testing.T) {
	s := verifh.New(t, "C07", "h1limit",
		"MaxResponseHeaderBytes L in {64, 300, 1000, 4096, 5000, 65536} x a response head of exact size S in {L-1, L, L+1, L/2, 2L, L+B} built as many tiny header lines / one huge field name / one huge field value / a long status line / continuation lines, followed by a body, x read buffer B in {16, 512, 4096} x delivery (whole, 1, 7, 100 bytes per socket read); persistConn._readResponse over an in-memory connection; every persistConn.Read call (slice size offered by bufio, bytes ready, result) is replayed through the model C07.H1Budget.pcRead (answer = the per-call results); Go-side oracles on the real run = the statements of h1_pulled_le / h1_accept_size / h1_exhausted_only_at_limit: bytes taken since the limit was set <= L, accepted => S <= L, S <= L => accepted; every case non-trivial")
	r := s.Rand()
	rep := strings.Repeat
	type shape struct {
		name  string
		build func(S int) string // a head of exactly S bytes (status line .. blank line)
	}
	pad := func(prefix, suffix string, S int, filler func(n int) string) string {
		n := S - len(prefix) - len(suffix)
		if n < 0 {
			return ""
		}
		return prefix + filler(n) + suffix
	}
	shapes := []shape{
		{"huge-value", func(S int) string {
			return pad("HTTP/1.1 200 OK\r\nContent-Length: 5\r\nX-V: ", "\r\n\r\n", S, func(n int) string { return rep("v", n) })
		}},
		{"huge-name", func(S int) string {
			return pad("HTTP/1.1 200 OK\r\nContent-Length: 5\r\nX", ": v\r\n\r\n", S, func(n int) string { return rep("n", n) })
		}},
		{"long-status-line", func(S int) string {
			return pad("HTTP/1.1 200 ", "\r\nContent-Length: 5\r\n\r\n", S, func(n int) string { return rep("K", n) })
		}},
		{"tiny-lines", func(S int) string {
			return pad("HTTP/1.1 200 OK\r\nContent-Length: 5\r\n", "\r\n", S, func(n int) string {
				// lines "a: b\r\n" (6 bytes) and one line absorbing the remainder
				var b strings.Builder
				for n >= 12 {
					b.WriteString("a: b\r\n")
					n -= 6
				}
				if n >= 6 {
					b.WriteString("a: " + rep("b", n-5) + "\r\n")
					n = 0
				}
				if n > 0 {
					return "" // cannot hit the size exactly: caller skips
				}
				return b.String()
			})
		}},
		{"continuation-lines", func(S int) string {
			return pad("HTTP/1.1 200 OK\r\nContent-Length: 5\r\nX-F: v\r\n", "\r\n", S, func(n int) string {
				var b strings.Builder
				for n >= 10 {
					b.WriteString(" c\r\n")
					n -= 4
				}
				if n >= 4 {
					b.WriteString(" " + rep("c", n-3) + "\r\n")
					n = 0
				}
				if n > 0 {
					return ""
				}
				return b.String()
			})
		}},
	}
	for _, L := range []int{64, 300, 1000, 4096, 5000, 65536} {
		for _, sh := range shapes {
			for _, B := range []int{16, 512, 4096} {
				for _, S := range []int{L - 1, L, L + 1, L / 2, 2 * L, L + B} {
					head := sh.build(S)
					if len(head) != S {
						s.Count("unbuildable")
						continue
					}
					seg := verifh.Pick(r, []int{0, 0, 1, 7, 100})
					if seg == 1 && S > 8000 && !verifh.Thorough() {
						seg = 100
					}
					stream := []byte(head + "hello" + "HTTP/1.1 200 OK\r\n\r\n")
					var accepted bool
					var rec *c07Rec
					ptxt, pan := verifh.Safely(func() {
						tr := &Transport{}
						tr.MaxResponseHeaderBytes = int64(L)
						conn := &c07MemConn{data: stream, seg: seg}
						pc := &persistConn{t: tr, conn: conn}
						rec = &c07Rec{pc: pc, conn: conn}
						pc.br = bufio.NewReaderSize(rec, B)
						pc.readLimit = pc.maxHeaderResponseSize()
						rec.last = pc.readLimit
						req, _ := http.NewRequest("GET", "http://verif.invalid/", nil)
						resp, err := pc._readResponse(req)
						accepted = err == nil && resp != nil
					})
					human := fmt.Sprintf("L=%d head=%s S=%d B=%d seg=%d", L, sh.name, S, B, seg)
					line := "c07pcread " + strconv.Itoa(L) + " " + strings.Join(rec.calls, ",")
					if len(rec.calls) == 0 {
						line = "c07pcread " + strconv.Itoa(L) + " -"
					}
					if pan {
						s.Count("panic")
						s.Case(line, "panic: "+truncate(ptxt, 1500), false, "", true, human)
						continue
					}
					ans := strings.Join(rec.res, ",")
					if ans == "" {
						ans = "-"
					}
					// the budget statements on the real run
					why := ""
					switch {
					case rec.peak > L:
						why = fmt.Sprintf("took %d bytes from the socket under a limit of %d", rec.peak, L)
					case accepted && S > L:
						why = fmt.Sprintf("accepted a %d-byte head under a limit of %d", S, L)
					case !accepted && S <= L:
						why = fmt.Sprintf("refused a %d-byte head under a limit of %d", S, L)
					}
					rel := "S<=L"
					if S > L {
						rel = "S>L"
					}
					s.Count(map[bool]string{true: "accepted", false: "refused"}[accepted] + ":" + rel)
					s.Count("shape:" + sh.name)
					if why != "" {
						human += " -> " + why
					}
					s.Case(line, ans, why == "", "", true, human)
				}
			}
		}
	}
	s.Finish()
}
