//go:build verif

package req

// C07 round 4 — HTTP/1.1 MaxResponseHeaderBytes accounting against the Lean model.
//
// h1limit: in-package, a persistConn over an in-memory connection; a recorder between pc.br and the
// persistConn logs every call of persistConn.Read (size of the slice bufio offers, bytes the socket
// has ready, result). The whole call sequence is replayed through the model of pc.Read
// (C07.H1Budget.pcRead, lane c07pcread) — every single result must agree — and the lane checks the
// budget statements the theorems make about the model on the real run: bytes taken from the socket
// between two settings of the limit never exceed it, a head is accepted only if it fits, and a
// refusal for size happens only with the whole budget used.

import (
	"bufio"
	"bytes"
	"fmt"
	"io"
	"net/http"
	"strconv"
	"strings"
	"testing"
	"time"

	"github.com/imroc/req/v3/internal/verifh"
	"github.com/quic-go/quic-go/quicvarint"
)

type c07Rec struct {
	pc    *persistConn
	conn  *c07MemConn
	calls []string
	res   []string
	taken int // bytes taken from the socket since the limit was last seen at its maximum
	peak  int
	last  int64
}

func (r *c07Rec) Read(p []byte) (int, error) {
	avail := len(r.conn.data) - r.conn.pos
	if r.conn.seg > 0 && avail > r.conn.seg {
		avail = r.conn.seg
	}
	if r.pc.readLimit > r.last { // the limit was set again (interim head)
		r.taken = 0
	}
	n, err := r.pc.Read(p)
	r.last = r.pc.readLimit
	r.calls = append(r.calls, strconv.Itoa(len(p))+":"+strconv.Itoa(avail))
	if err != nil && err != io.EOF {
		r.res = append(r.res, "X")
	} else {
		r.res = append(r.res, strconv.Itoa(n))
	}
	r.taken += n
	if r.taken > r.peak {
		r.peak = r.taken
	}
	return n, err
}

func TestVerif_C07_h1limit(t *testing.T) {
	s := verifh.New(t, "C07", "h1limit",
		"MaxResponseHeaderBytes L in {64, 300, 1000, 4096, 5000, 65536} x a response head of exact size S in {L-1, L, L+1, L/2, 2L, L+B} built as many tiny header lines / one huge field name / one huge field value / a long status line / continuation lines, followed by a body, x read buffer B in {16, 512, 4096} x delivery (whole, 1, 7, 100 bytes per socket read); persistConn._readResponse over an in-memory connection; every persistConn.Read call (slice size offered by bufio, bytes ready, result) is replayed through the model C07.H1Budget.pcRead (answer = the per-call results); Go-side oracles on the real run = the statements of h1_pulled_le / h1_accept_size / h1_exhausted_only_at_limit: bytes taken since the limit was set <= L, accepted => S <= L, S <= L => accepted; every case non-trivial")
	r := s.Rand()
	rep := strings.Repeat
	type shape struct {
		name  string
		build func(S int) string // a head of exactly S bytes (status line .. blank line)
	}
	pad := func(prefix, suffix string, S int, filler func(n int) string) string {
		n := S - len(prefix) - len(suffix)
		if n < 0 {
			return ""
		}
		return prefix + filler(n) + suffix
	}
	shapes := []shape{
		{"huge-value", func(S int) string {
			return pad("HTTP/1.1 200 OK\r\nContent-Length: 5\r\nX-V: ", "\r\n\r\n", S, func(n int) string { return rep("v", n) })
		}},
		{"huge-name", func(S int) string {
			return pad("HTTP/1.1 200 OK\r\nContent-Length: 5\r\nX", ": v\r\n\r\n", S, func(n int) string { return rep("n", n) })
		}},
		{"long-status-line", func(S int) string {
			return pad("HTTP/1.1 200 ", "\r\nContent-Length: 5\r\n\r\n", S, func(n int) string { return rep("K", n) })
		}},
		{"tiny-lines", func(S int) string {
			return pad("HTTP/1.1 200 OK\r\nContent-Length: 5\r\n", "\r\n", S, func(n int) string {
				// lines "a: b\r\n" (6 bytes) and one line absorbing the remainder
				var b strings.Builder
				for n >= 12 {
					b.WriteString("a: b\r\n")
					n -= 6
				}
				if n >= 6 {
					b.WriteString("a: " + rep("b", n-5) + "\r\n")
					n = 0
				}
				if n > 0 {
					return "" // cannot hit the size exactly: caller skips
				}
				return b.String()
			})
		}},
		{"continuation-lines", func(S int) string {
			return pad("HTTP/1.1 200 OK\r\nContent-Length: 5\r\nX-F: v\r\n", "\r\n", S, func(n int) string {
				var b strings.Builder
				for n >= 10 {
					b.WriteString(" c\r\n")
					n -= 4
				}
				if n >= 4 {
					b.WriteString(" " + rep("c", n-3) + "\r\n")
					n = 0
				}
				if n > 0 {
					return ""
				}
				return b.String()
			})
		}},
	}
	for _, L := range []int{64, 300, 1000, 4096, 5000, 65536} {
		for _, sh := range shapes {
			for _, B := range []int{16, 512, 4096} {
				for _, S := range []int{L - 1, L, L + 1, L / 2, 2 * L, L + B} {
					head := sh.build(S)
					if len(head) != S {
						s.Count("unbuildable")
						continue
					}
					seg := verifh.Pick(r, []int{0, 0, 1, 7, 100})
					if seg == 1 && S > 8000 && !verifh.Thorough() {
						seg = 100
					}
					stream := []byte(head + "hello" + "HTTP/1.1 200 OK\r\n\r\n")
					var accepted bool
					var rec *c07Rec
					ptxt, pan := verifh.Safely(func() {
						tr := &Transport{}
						tr.MaxResponseHeaderBytes = int64(L)
						conn := &c07MemConn{data: stream, seg: seg}
						pc := &persistConn{t: tr, conn: conn}
						rec = &c07Rec{pc: pc, conn: conn}
						pc.br = bufio.NewReaderSize(rec, B)
						pc.readLimit = pc.maxHeaderResponseSize()
						rec.last = pc.readLimit
						req, _ := http.NewRequest("GET", "http://verif.invalid/", nil)
						resp, err := pc._readResponse(req)
						accepted = err == nil && resp != nil
					})
					human := fmt.Sprintf("L=%d head=%s S=%d B=%d seg=%d", L, sh.name, S, B, seg)
					line := "c07pcread " + strconv.Itoa(L) + " " + strings.Join(rec.calls, ",")
					if len(rec.calls) == 0 {
						line = "c07pcread " + strconv.Itoa(L) + " -"
					}
					if pan {
						s.Count("panic")
						s.Case(line, "panic: "+truncate(ptxt, 1500), false, "", true, human)
						continue
					}
					ans := strings.Join(rec.res, ",")
					if ans == "" {
						ans = "-"
					}
					// the budget statements on the real run
					why := ""
					switch {
					case rec.peak > L:
						why = fmt.Sprintf("took %d bytes from the socket under a limit of %d", rec.peak, L)
					case accepted && S > L:
						why = fmt.Sprintf("accepted a %d-byte head under a limit of %d", S, L)
					case !accepted && S <= L:
						why = fmt.Sprintf("refused a %d-byte head under a limit of %d", S, L)
					}
					rel := "S<=L"
					if S > L {
						rel = "S>L"
					}
					s.Count(map[bool]string{true: "accepted", false: "refused"}[accepted] + ":" + rel)
					s.Count("shape:" + sh.name)
					if why != "" {
						human += " -> " + why
					}
					s.Case(line, ans, why == "", "", true, human)
				}
			}
		}
	}
	s.Finish()
}

// TestVerif_C07_limitwire: the header limits at their boundaries through the real clients.
func TestVerif_C07_limitwire(t *testing.T) {
	s := verifh.New(t, "C07", "limitwire",
		"header limits at the boundary, over the wire: HTTP/1.1 MaxResponseHeaderBytes L (head of exactly L-1 / L / L+1 / 2L bytes as huge value / huge name / tiny lines; oracle accept iff size <= L), HTTP/2 MaxHeaderListSize L (field list of total size L-1 / L / L+1 / L/2 / 2L as tiny fields / huge name / huge value in one HEADERS frame; model = readMeta: response iff returned complete), HTTP/3 MaxResponseHeaderBytes L (QPACK block of exactly L-1 / L / L+1 bytes, and a HEADERS frame declaring 2^40 bytes; model = H3Budget.readHead: block read iff length <= L); every case non-trivial")
	rep := strings.Repeat
	// ---- HTTP/1.1
	{
		peer := newC07Peer(t)
		base := "http://" + peer.ln.Addr().String()
		seq := 0
		for _, L := range []int{300, 4096, 10000} {
			c := C().SetTimeout(10 * time.Second).SetLogger(nil)
			c.GetTransport().SetMaxResponseHeaderBytes(int64(L))
			for _, S := range []int{L - 1, L, L + 1, 2 * L} {
				for _, shape := range []string{"huge-value", "huge-name", "tiny-lines"} {
					var head string
					switch shape {
					case "huge-value":
						pre, suf := "HTTP/1.1 200 OK\r\nContent-Length: 5\r\nX-V: ", "\r\n\r\n"
						head = pre + rep("v", S-len(pre)-len(suf)) + suf
					case "huge-name":
						pre, suf := "HTTP/1.1 200 OK\r\nContent-Length: 5\r\nX", ": v\r\n\r\n"
						head = pre + rep("n", S-len(pre)-len(suf)) + suf
					default:
						pre, suf := "HTTP/1.1 200 OK\r\nContent-Length: 5\r\n", "\r\n"
						n := S - len(pre) - len(suf)
						var b strings.Builder
						for n >= 12 {
							b.WriteString("a: b\r\n")
							n -= 6
						}
						b.WriteString("a: " + rep("b", n-5) + "\r\n")
						head = pre + b.String() + suf
					}
					if len(head) != S {
						t.Fatalf("limitwire: built %d bytes for S=%d", len(head), S)
					}
					seq++
					path := "/l" + strconv.Itoa(seq)
					peer.set(path, c07Script{data: []byte(head + "hello")})
					rp, err := c.R().Get(base + path)
					got := "error"
					if err == nil && rp != nil && rp.StatusCode == 200 {
						got = "response"
					}
					want := "response"
					if S > L {
						want = "error"
					}
					human := fmt.Sprintf("HTTP/1.1 L=%d head=%s S=%d -> %s", L, shape, S, got)
					s.Count("h1:" + got)
					s.Observe("limitwire:h1:"+human, got == want, "", true, human, human+" (expected "+want+")")
				}
			}
			c.GetTransport().CloseIdleConnections()
		}
		peer.closeAll()
	}
	// ---- HTTP/2
	{
		peer := newC07H2Peer(t)
		base := "http://" + peer.ln.Addr().String()
		seq := 0
		for _, L := range []int{200, 1000, 6000} {
			for _, T := range []int{L - 1, L, L + 1, L / 2, 2 * L} {
				for _, shape := range []string{"huge-value", "huge-name", "tiny"} {
					fields := [][2]string{{":status", "200"}} // 42 bytes
					rest := T - 42
					switch shape {
					case "huge-value":
						fields = append(fields, [2]string{"x-v", rep("v", rest-32-3)})
					case "huge-name":
						fields = append(fields, [2]string{rep("n", rest-32-1), "v"})
					default:
						for rest >= 2*34 {
							fields = append(fields, [2]string{"a", "b"})
							rest -= 34
						}
						fields = append(fields, [2]string{"a", rep("b", rest-33)})
					}
					tot := 0
					var evs []string
					bad := false
					for _, f := range fields {
						tot += len(f[0]) + len(f[1]) + 32
						if !bad {
							if len(f[0]) > L || len(f[1]) > L {
								evs = append(evs, "!")
								bad = true
							} else {
								evs = append(evs, verifh.Hex(f[0])+"="+verifh.Hex(f[1]))
							}
						}
					}
					if tot != T {
						t.Fatalf("limitwire: built total %d for T=%d", tot, T)
					}
					block := c07Hpack(fields...)
					if len(block) > 16000 {
						continue
					}
					var out bytes.Buffer
					out.Write(c07Frame{-1, 4, 0, 0, nil}.bytes())
					out.Write(c07Frame{-1, 1, 0x4, 1, block}.bytes())
					out.Write(c07Frame{-1, 0, 1, 1, []byte("hello")}.bytes())
					seq++
					path := "/l" + strconv.Itoa(seq)
					peer.set(path, c07Script{data: out.Bytes()})
					c := C().SetTimeout(10 * time.Second).EnableH2C().EnableForceHTTP2().SetLogger(nil).SetHTTP2MaxHeaderListSize(uint32(L))
					rp, err := c.R().Get(base + path)
					got := "error"
					if err == nil && rp != nil && rp.StatusCode == 200 {
						got = "response"
					}
					c.GetTransport().CloseIdleConnections()
					human := fmt.Sprintf("HTTP/2 L=%d fields=%s T=%d -> %s", L, shape, T, got)
					s.Count("h2:" + got)
					s.Case("c07h2accept "+strconv.Itoa(L)+" "+strconv.Itoa(len(block))+":"+strings.Join(evs, "+"), got, true, "", true, human)
				}
			}
		}
		peer.closeAll()
	}
	// ---- HTTP/3
	if C().EnableForceHTTP3().t3 != nil {
		peer := newC07H3Peer(t)
		base := "https://" + peer.ln.Addr().String()
		seq := 0
		for _, L := range []int{100, 1000, 5000} {
			c := C().SetTimeout(10 * time.Second).EnableForceHTTP3().EnableInsecureSkipVerify().SetLogger(nil)
			c.GetTransport().SetMaxResponseHeaderBytes(int64(L))
			for _, target := range []int{L - 1, L, L + 1, L / 2, -1} {
				var stream []byte
				desc := ""
				if target < 0 {
					b := quicvarint.Append(nil, 0x1)
					b = quicvarint.Append(b, 1<<40)
					stream = append(b, c07Qpack([2]string{":status", "200"})...)
					desc = "declared 2^40"
				} else {
					// a block of exactly `target` bytes: grow the filler value until the encoder's output fits
					var block []byte
					for n := 0; n < 2*L+64; n++ {
						blk := c07Qpack([2]string{":status", "200"}, [2]string{"x-filler", rep("v", n)})
						if len(blk) == target {
							block = blk
							break
						}
						if len(blk) > target {
							break
						}
					}
					if block == nil {
						s.Count("h3:unbuildable")
						continue
					}
					stream = append(c07H3Frame(0x1, block), c07H3Frame(0x0, []byte("hello"))...)
					desc = fmt.Sprintf("block of %d bytes", target)
				}
				seq++
				path := "/l" + strconv.Itoa(seq)
				peer.set(path, c07H3Script{response: stream, reset: -1, control: []byte{0x00, 0x04, 0x00}})
				rp, err := c.R().Get(base + path)
				// the block is a valid field section: it is accepted iff it is read
				got := "error"
				if err == nil && rp != nil && rp.StatusCode == 200 {
					got = "block"
				}
				human := fmt.Sprintf("HTTP/3 L=%d %s -> %s", L, desc, got)
				s.Count("h3:" + got)
				s.Case("c07h3accept "+strconv.Itoa(L)+" "+verifh.Hex(string(stream)), got, true, "", true, human)
			}
			c.GetTransport().CloseIdleConnections()
			if c.t3 != nil {
				c.t3.Close()
			}
		}
		peer.closeAll()
	}
	s.Finish()
}
