//go:build verif

package req

// C07 round 4 — byte-position matrix for the two header-value parsers that live in /repo and have a
// byte-exact Lean model: the digest challenge parser (digest.go parseChallenge, model
// DigestAuth.parseChallenge of C20) and the Alt-Svc parser (altsvcutil.ParseHeader, model
// AltSvcParse.parse). One byte — every value 0x00..0xff — is inserted at EVERY offset of typical
// header values; the class the real function returns is compared with the model.

import (
	"fmt"
	"strconv"
	"testing"
	"time"

	"github.com/imroc/req/v3/internal/verifh"
)

func TestVerif_C07_digestpos(t *testing.T) {
	s := verifh.New(t, "C07", "digestpos",
		"WWW-Authenticate digest challenges (quoted and unquoted parameters, all nine known keys, charset, an unknown key, no parameters) with one byte of every value 0x00..0xff inserted at every offset, and with one byte deleted at every offset; real parseChallenge (the RFC 7235 challenge-list reader) vs Lean DigestAuth.parseChallenge on the class ok / bad-challenge / charset / algorithm / qop (+ the realm, nonce, qop, algorithm of the selected challenge); a recovered panic is a disagreement; every case non-trivial")
	bases := []string{
		"Basic realm=\"b\", Digest realm=\"r\", nonce=\"n\", qop=\"auth-int, auth\", algorithm=SHA-256, Digest realm=\"r2\", nonce=\"n2\"",
		"Digest realm=\"a\\\"b\", nonce=n, algorithm=NOPE, qop=auth",
		"Newauth tok68==, Digest nonce=\"n\", realm=\"r\", Realm=x",
		"Digest realm=\"r\", nonce=\"n\", qop=\"auth\", algorithm=MD5, opaque=\"o\"",
		"Digest realm=r,nonce=n,algorithm=SHA-256-sess,qop=auth-int,userhash=true,stale=false,domain=\"/a /b\"",
		"Digest realm=\"r\", nonce=\"n\", charset=UTF-8",
		"Digest x=y",
		" Digest \trealm = \"a=b\" ",
	}
	run := func(v string, human string) {
		var ans string
		ptxt, pan := verifh.Safely(func() {
			c, err := parseChallenge(v)
			switch {
			case err == errDigestBadChallenge:
				ans = "bad"
			case err == errDigestCharset:
				ans = "charset"
			case err == errDigestAlgNotSupported:
				ans = "alg"
			case err == errDigestQopNotSupported:
				ans = "qop"
			case err != nil:
				ans = "other-error"
			case c == nil:
				ans = "nil"
			default:
				ans = "ok " + verifh.Hex(c.realm) + " " + verifh.Hex(c.nonce) + " " + verifh.Hex(c.qop) + " " + verifh.Hex(c.algorithm)
			}
		})
		line := "c07digest " + verifh.Hex(v)
		if pan {
			s.Count("panic")
			s.Case(line, "panic: "+truncate(ptxt, 1500), false, "", true, human)
			return
		}
		s.Count(ans[:min(len(ans), 3)])
		s.Case(line, ans, true, "", true, human+" -> "+ans)
	}
	for _, base := range bases {
		for off := 0; off <= len(base); off++ {
			for b := 0; b < 256; b++ {
				if !verifh.Thorough() && (off+b+int(verifh.Seed()))%2 != 0 && b > 0x20 && b < 0x7f && b != '"' && b != ',' && b != '=' {
					continue
				}
				v := base[:off] + string([]byte{byte(b)}) + base[off:]
				run(v, fmt.Sprintf("byte 0x%02x inserted at offset %d of %q", b, off, base))
			}
			if off < len(base) {
				run(base[:off]+base[off+1:], fmt.Sprintf("byte at offset %d deleted from %q", off, base))
			}
		}
	}
	s.Finish()
}

func TestVerif_C07_altsvcpos(t *testing.T) {
	s := verifh.New(t, "C07", "altsvcpos",
		"Alt-Svc values (two entries with ma / persist, an IPv6 authority, unquoted authority, clear) with one byte of every value 0x00..0xff inserted at every offset, and one byte deleted at every offset; real altsvcutil.ParseHeader vs Lean AltSvcParse.parse (ASCII inputs compared exactly: entries protocol / host / port / has-ma and the error class; inputs with a byte >= 0x80 only for termination within 10 s and absence of panics); every case non-trivial")
	bases := []string{
		"h3=\":443\"; ma=3600, h2=\"alt.example:8443\"; ma=60; persist=1",
		"h3=\"[::1]:443\";ma=1,h3-29=\":1\"",
		"h3=alt:1; ma=5",
		"clear",
	}
	run := func(v, human string) {
		done := make(chan struct{})
		var ans, ptxt string
		var panicked bool
		go func() { ans, panicked, ptxt = c07AltSvcImpl(v); close(done) }()
		select {
		case <-done:
		case <-time.After(10 * time.Second):
			s.Observe("altsvcpos:"+verifh.Hex(v), false, "", true, human, "ParseHeader did not return within 10s (spin)")
			return
		}
		if panicked {
			s.Count("panic")
			s.Case("c07altsvc "+verifh.Hex(v), "panic: "+truncate(ptxt, 1500), false, "", true, human)
			return
		}
		ascii := true
		for j := 0; j < len(v); j++ {
			if v[j] >= 0x80 {
				ascii = false
			}
		}
		if !ascii {
			s.Count("non-ascii(total-only)")
			s.Observe("altsvcpos:"+verifh.Hex(v), true, "", true, human, "")
			return
		}
		s.Count(ans[:min(len(ans), 3)])
		s.Case("c07altsvc "+verifh.Hex(v), ans, true, "", true, human+" -> "+ans)
	}
	for _, base := range bases {
		for off := 0; off <= len(base); off++ {
			for b := 0; b < 256; b++ {
				v := base[:off] + string([]byte{byte(b)}) + base[off:]
				run(v, "Alt-Svc: byte 0x"+strconv.FormatInt(int64(b), 16)+" inserted at offset "+strconv.Itoa(off)+" -> "+strconv.Quote(v))
			}
			if off < len(base) {
				run(base[:off]+base[off+1:], "Alt-Svc: byte at offset "+strconv.Itoa(off)+" deleted -> "+strconv.Quote(base[:off]+base[off+1:]))
			}
		}
	}
	s.Finish()
}
