//go:build verif

package req

import (
	"bytes"
	"context"
	"encoding/binary"
	"fmt"
	"io"
	"net"
	"os"
	"runtime"
	"strconv"
	"strings"
	"sync"
	"sync/atomic"
	"testing"
	"time"

	"github.com/imroc/req/v3/internal/verifh"
	"golang.org/x/net/http2/hpack"
)

// raw HTTP/2 frame: 24-bit length (possibly lying), type, flags, stream id, payload.
type c07Frame struct {
	declLen int // -1 = len(payload)
	typ     byte
	flags   byte
	stream  uint32
	payload []byte
}

func (f c07Frame) bytes() []byte {
	l := f.declLen
	if l < 0 {
		l = len(f.payload)
	}
	b := []byte{byte(l >> 16), byte(l >> 8), byte(l), f.typ, f.flags, 0, 0, 0, 0}
	binary.BigEndian.PutUint32(b[5:], f.stream)
	return append(b, f.payload...)
}

func c07Hpack(fields ...[2]string) []byte {
	var buf bytes.Buffer
	enc := hpack.NewEncoder(&buf)
	for _, f := range fields {
		enc.WriteField(hpack.HeaderField{Name: f[0], Value: f[1]})
	}
	return buf.Bytes()
}

func c07U32(v uint32) []byte {
	b := make([]byte, 4)
	binary.BigEndian.PutUint32(b, v)
	return b
}

func c07Setting(id uint16, v uint32) []byte {
	b := make([]byte, 6)
	binary.BigEndian.PutUint16(b, id)
	binary.BigEndian.PutUint32(b[2:], v)
	return b
}

// c07H2Script generates a hostile frame sequence answering stream `sid`.
func c07H2Script(s *verifh.Session, sid uint32) ([]byte, []string) {
	r := s.Rand()
	var tags []string
	tag := func(x string) { tags = append(tags, x) }
	var out bytes.Buffer
	emit := func(f c07Frame) { out.Write(f.bytes()) }
	const (
		tDATA, tHEADERS, tPRIORITY, tRST, tSETTINGS, tPUSH, tPING, tGOAWAY, tWU, tCONT = 0, 1, 2, 3, 4, 5, 6, 7, 8, 9
	)
	// server SETTINGS (maybe hostile)
	switch r.Intn(12) {
	case 0, 4:
		emit(c07Frame{-1, tSETTINGS, 0, 0, verifh.Pick(r, [][]byte{
			c07Setting(2, 2), c07Setting(4, 1<<31), c07Setting(5, 0), c07Setting(5, 1<<24), c07Setting(4, 0),
			c07Setting(5, 1<<31), c07Setting(5, 0xffffffff), c07Setting(5, 1), c07Setting(5, 16383), c07Setting(4, 0xffffffff), c07Setting(3, 0xffffffff), c07Setting(1, 0xffffffff), c07Setting(6, 0),
			c07Setting(3, 0), c07Setting(1, 0), c07Setting(6, 1), c07Setting(0x99, 7), {1, 2, 3}, append(c07Setting(4, 5), c07Setting(4, 1<<31-1)...)})})
		tag("odd-settings")
	case 1:
		emit(c07Frame{-1, tSETTINGS, 1, 0, []byte{0, 0, 0, 0, 0, 0}})
		tag("settings-ack-payload")
	case 2:
		emit(c07Frame{-1, tSETTINGS, 0, sid, nil})
		tag("settings-on-stream")
	case 3:
		tag("no-settings")
	default:
		emit(c07Frame{-1, tSETTINGS, 0, 0, nil})
	}
	status := verifh.Pick(r, []string{"200", "200", "200", "200", "200", "200", "200", "204", "304", "404", "500", "401", "302", "100", "103", "101", "99", "1000", "abc", ""})
	ct := verifh.Pick(r, []string{"text/html; charset=gbk", "application/json", "text/plain", "", "text/html; charset=\"", ";;;"})
	body := []byte(verifh.Pick(r, []string{"", "hello", "{\"a\":1}", "<meta charset=\"gbk\">\xc4\xe3", strings.Repeat("z", 20000)}))
	fields := [][2]string{{":status", status}}
	if ct != "" {
		fields = append(fields, [2]string{"content-type", ct})
	}
	if r.Intn(3) == 0 {
		ce := verifh.Pick(r, []string{"gzip", "br", "zstd", "deflate", "identity", "GZIP", "unknown", "gzip, br"})
		fields = append(fields, [2]string{"content-encoding", ce})
		tag("ce:" + ce)
		switch r.Intn(3) {
		case 0:
			body = c07Gzip(body)
		case 1:
			g := c07Gzip(body)
			body = g[:c07Intn(r, len(g))]
		}
	}
	switch r.Intn(4) {
	case 0:
		fields = append(fields, [2]string{"content-length", strconv.Itoa(len(body))})
	case 1:
		fields = append(fields, [2]string{"content-length", verifh.Pick(r, []string{"-1", "abc", "1", strconv.Itoa(len(body) + 5), "99999999999999999999", "", "1, 1"})})
		tag("bad-cl")
	}
	if r.Intn(4) == 0 {
		fields = append(fields, verifh.Pick(r, [][2]string{
			{"Upper-Case", "x"}, {":late-pseudo", "x"}, {":status", "200"}, {"connection", "close"}, {"transfer-encoding", "chunked"},
			{"x-ctl", "a\x00b"}, {"x\x00y", "v"}, {"", "v"}, {"x-long", strings.Repeat("L", 70000)}, {":path", "/"}, {"te", "gzip"},
			{"alt-svc", "h3=\"[\";;;=,"}, {"www-authenticate", "Digest =,="}, {"location", "://"}, {"set-cookie", "\x00=\x01"}, {"trailer", "content-length"}}))
		tag("odd-field")
	}
	if r.Intn(10) == 0 {
		// pseudo header not first
		fields[0], fields[len(fields)-1] = fields[len(fields)-1], fields[0]
		tag("pseudo-not-first")
	}
	block := c07Hpack(fields...)
	if r.Intn(10) == 0 {
		block = []byte(verifh.RandBytes(r, 1+r.Intn(40), ""))
		tag("garbage-hpack")
	}
	if r.Intn(12) == 0 {
		block = append([]byte{0x3f, 0xff, 0xff, 0xff, 0x0f}, block...) // dynamic table size update far beyond the limit
		tag("hpack-size-update")
	}
	// interim responses
	if r.Intn(8) == 0 {
		for k := 1 + r.Intn(8); k > 0; k-- {
			emit(c07Frame{-1, tHEADERS, 0x4, sid, c07Hpack([2]string{":status", verifh.Pick(r, []string{"100", "103", "102"})})})
		}
		tag("1xx-prefix")
	}
	// pre-header noise
	noise := 0
	if r.Intn(3) == 0 {
		noise = 1 + r.Intn(2)
	}
	for k := noise; k > 0; k-- {
		switch r.Intn(12) {
		case 0:
			emit(c07Frame{-1, tDATA, 0, sid, []byte("early")})
			tag("data-before-headers")
		case 1:
			emit(c07Frame{-1, tDATA, 0, 0, []byte("zero")})
			tag("data-stream0")
		case 2:
			emit(c07Frame{-1, tWU, 0, verifh.Pick(r, []uint32{0, sid}), c07U32(verifh.Pick(r, []uint32{0, 1<<31 - 1, 1 << 31, 5}))})
			tag("window-update")
		case 3:
			emit(c07Frame{-1, tPING, byte(r.Intn(2)), verifh.Pick(r, []uint32{0, sid}), []byte(verifh.RandBytes(r, verifh.Pick(r, []int{8, 8, 7, 9, 0}), ""))})
			tag("ping")
		case 4:
			emit(c07Frame{-1, tPUSH, 0x4, sid, append(c07U32(2), c07Hpack([2]string{":method", "GET"}, [2]string{":path", "/p"}, [2]string{":scheme", "http"}, [2]string{":authority", "x"})...)})
			tag("push-promise")
		case 5:
			emit(c07Frame{-1, tPRIORITY, 0, verifh.Pick(r, []uint32{0, sid, 99}), verifh.Pick(r, [][]byte{append(c07U32(sid), 1), {1, 2}, append(c07U32(0x80000000|sid), 255)})})
			tag("priority")
		case 6:
			emit(c07Frame{-1, byte(10 + r.Intn(200)), byte(r.Intn(256)), verifh.Pick(r, []uint32{0, sid, 7}), []byte(verifh.RandBytes(r, r.Intn(30), ""))})
			tag("unknown-type")
		case 7:
			emit(c07Frame{-1, tCONT, 0x4, sid, block})
			tag("continuation-without-headers")
		case 8:
			emit(c07Frame{-1, tRST, 0, verifh.Pick(r, []uint32{0, sid, 3, 2}), verifh.Pick(r, [][]byte{c07U32(8), {1}, c07U32(0xffffffff)})})
			tag("rst")
		case 9:
			emit(c07Frame{-1, tGOAWAY, 0, verifh.Pick(r, []uint32{0, sid}), verifh.Pick(r, [][]byte{append(c07U32(0), c07U32(0)...), append(append(c07U32(sid), c07U32(2)...), []byte("debug")...), {1, 2, 3}, append(c07U32(1<<31-1), c07U32(11)...)})})
			tag("goaway")
		case 10:
			emit(c07Frame{1 << 20, tDATA, 0, sid, []byte("liar")})
			tag("length-lie")
		default:
			emit(c07Frame{-1, tHEADERS, 0x4 | 0x8, sid, append([]byte{200}, block...)}) // pad length > payload
			tag("bad-padding")
		}
	}
	// the header block, maybe split into CONTINUATIONs / interleaved
	endStream := byte(0)
	if len(body) == 0 && r.Intn(2) == 0 {
		endStream = 1
	}
	switch r.Intn(10) {
	case 0:
		cut := r.Intn(len(block) + 1)
		emit(c07Frame{-1, tHEADERS, endStream, sid, block[:cut]})
		if r.Intn(4) == 0 {
			emit(c07Frame{-1, tPING, 0, 0, []byte("12345678")})
			tag("interleaved-in-header-block")
		}
		if r.Intn(5) == 0 {
			emit(c07Frame{-1, tCONT, 0x4, sid + 2, block[cut:]})
			tag("continuation-other-stream")
		} else {
			emit(c07Frame{-1, tCONT, 0x4, sid, block[cut:]})
		}
		tag("continuation")
	case 1:
		emit(c07Frame{-1, tHEADERS, endStream, sid, block}) // END_HEADERS never comes
		tag("no-end-headers")
	case 2:
		emit(c07Frame{-1, tHEADERS, 0x4 | endStream, verifh.Pick(r, []uint32{0, sid + 2, 2, sid}), block})
		tag("headers-odd-stream")
	default:
		fl := byte(0x4) | endStream
		pl := block
		if r.Intn(3) == 0 { // PRIORITY fields
			pl = append(append(c07U32(uint32(r.Intn(3))|uint32(r.Intn(2))<<31), byte(r.Intn(256))), pl...)
			fl |= 0x20
			tag("headers-priority")
		}
		if r.Intn(3) == 0 { // PADDED, pad length consistent or not (boundaries around the payload length)
			pad := verifh.Pick(r, []int{0, 1, 5, len(pl), len(pl) + 1, len(pl) - 1, len(pl) - 4, len(pl) - 5, 255})
			if pad < 0 {
				pad = 0
			}
			if pad > 255 {
				pad = 255
			}
			real := verifh.Pick(r, []int{pad, pad, 0, 0, r.Intn(pad + 1)})
			pl = append(append([]byte{byte(pad)}, pl...), make([]byte, real)...)
			fl |= 0x8
			tag("headers-padded")
		}
		emit(c07Frame{-1, tHEADERS, fl, sid, pl})
	}
	// body
	if endStream == 0 {
		rest := body
		for len(rest) > 0 {
			n := 1 + c07Intn(r, len(rest))
			if n > 16384 {
				n = 16384
			}
			fl := byte(0)
			pl := rest[:n]
			if r.Intn(10) == 0 {
				pad := r.Intn(20)
				pl = append(append([]byte{byte(pad)}, pl...), make([]byte, pad)...)
				fl |= 0x8
				tag("padded-data")
			}
			rest = rest[n:]
			if len(rest) == 0 && r.Intn(8) != 0 {
				fl |= 1
			}
			emit(c07Frame{-1, tDATA, fl, sid, pl})
		}
		switch r.Intn(10) {
		case 0:
			emit(c07Frame{-1, tHEADERS, 0x5, sid, c07Hpack([2]string{"x-trailer", "1"})})
			tag("trailers")
		case 1:
			emit(c07Frame{-1, tHEADERS, 0x4, sid, c07Hpack([2]string{":status", "200"}, [2]string{"x-trailer", "1"})})
			tag("trailers-no-endstream-pseudo")
		case 2:
			emit(c07Frame{-1, tDATA, 1, sid, []byte("after-end")})
			emit(c07Frame{-1, tDATA, 1, sid, []byte("after-end-2")})
			tag("data-after-end")
		case 3:
			emit(c07Frame{-1, tRST, 0, sid, c07U32(uint32(r.Intn(16)))})
			tag("rst-at-end")
		case 4:
			emit(c07Frame{-1, tDATA, 1, sid, nil})
		}
	}
	res := out.Bytes()
	if r.Intn(6) == 0 && len(res) > 0 {
		for k := 1 + r.Intn(3); k > 0; k-- {
			res[c07Intn(r, len(res))] = byte(r.Intn(256))
		}
		tag("mutated")
	}
	if r.Intn(8) == 0 && len(res) > 0 {
		res = res[:c07Intn(r, len(res))]
		tag("cut")
	}
	return res, tags
}

// c07H2Peer: raw TCP peer speaking just enough HTTP/2 to receive one request per connection and
// answer it with the scripted bytes chosen by the request's :path.
type c07H2Peer struct {
	ln      net.Listener
	mu      sync.Mutex
	scripts map[string]c07Script
	conns   []net.Conn
}

// closeAll tears down every connection the peer still holds (so that floods started by one
// lane do not keep the process busy during the next lane's idle-CPU measurement).
func (p *c07H2Peer) closeAll() {
	p.ln.Close()
	p.mu.Lock()
	for _, c := range p.conns {
		c.Close()
	}
	p.conns = nil
	p.mu.Unlock()
}

func newC07H2Peer(t *testing.T) *c07H2Peer {
	ln, err := net.Listen("tcp", "127.0.0.1:0")
	if err != nil {
		t.Fatalf("listen: %v", err)
	}
	p := &c07H2Peer{ln: ln, scripts: map[string]c07Script{}}
	go func() {
		for {
			c, err := ln.Accept()
			if err != nil {
				return
			}
			p.mu.Lock()
			p.conns = append(p.conns, c)
			p.mu.Unlock()
			go p.serve(c)
		}
	}()
	return p
}

func (p *c07H2Peer) serve(c net.Conn) {
	defer c.Close()
	c.SetDeadline(time.Now().Add(25 * time.Second))
	preface := make([]byte, 24)
	if _, err := io.ReadFull(c, preface); err != nil {
		return
	}
	dec := hpack.NewDecoder(4096, nil)
	hdr := make([]byte, 9)
	for {
		if _, err := io.ReadFull(c, hdr); err != nil {
			return
		}
		l := int(hdr[0])<<16 | int(hdr[1])<<8 | int(hdr[2])
		typ, flags := hdr[3], hdr[4]
		sid := binary.BigEndian.Uint32(hdr[5:]) & 0x7fffffff
		pl := make([]byte, l)
		if _, err := io.ReadFull(c, pl); err != nil {
			return
		}
		if typ != 1 {
			continue
		}
		if flags&0x8 != 0 && len(pl) > 0 { // padded
			pad := int(pl[0])
			pl = pl[1:]
			if pad <= len(pl) {
				pl = pl[:len(pl)-pad]
			}
		}
		if flags&0x20 != 0 && len(pl) >= 5 { // priority
			pl = pl[5:]
		}
		fs, _ := dec.DecodeFull(pl)
		path := ""
		for _, f := range fs {
			if f.Name == ":path" {
				path = f.Value
			}
		}
		p.mu.Lock()
		sc, ok := p.scripts[path]
		p.mu.Unlock()
		// keep draining what the client sends so its writes never block
		go io.Copy(io.Discard, c)
		if !ok {
			var out bytes.Buffer
			out.Write(c07Frame{-1, 4, 0, 0, nil}.bytes())
			out.Write(c07Frame{-1, 1, 0x4, sid, c07Hpack([2]string{":status", "200"}, [2]string{"content-type", "application/json"})}.bytes())
			out.Write(c07Frame{-1, 0, 1, sid, []byte("{}")}.bytes())
			c.Write(out.Bytes())
			time.Sleep(200 * time.Millisecond)
			return
		}
		if _, err := c.Write(sc.data); err != nil {
			return
		}
		if len(sc.endless) > 0 {
			sent := 0
			for sent < sc.cap {
				n, err := c.Write(sc.endless)
				sent += n
				if err != nil {
					return
				}
			}
		}
		time.Sleep(30 * time.Millisecond)
		return
	}
}

func (p *c07H2Peer) set(path string, sc c07Script) {
	p.mu.Lock()
	p.scripts[path] = sc
	p.mu.Unlock()
}

// TestVerif_C07_h2hostile: real client forced to HTTP/2 (prior knowledge over TCP) against a
// raw peer that answers with generated hostile frame sequences.
func TestVerif_C07_h2hostile(t *testing.T) {
	s := verifh.New(t, "C07", "h2hostile",
		"generated HTTP/2 frame sequences answering one request: odd SETTINGS, 1xx floods, DATA before HEADERS / on stream 0 / after END_STREAM, WINDOW_UPDATE 0 and overflow, PING/PRIORITY/RST/GOAWAY/PUSH_PROMISE/unknown frames with wrong sizes and streams, lying frame lengths, bad padding, split/interleaved/unterminated header blocks, garbage HPACK, pseudo-header misuse, upper-case and control-byte fields, content-length/content-encoding fuzz, trailers, byte mutation, cuts; x option sets; oracle: call returns resp-or-error within 15 s, no panic, no spin, client reusable; non-trivial = at least one fault tag")
	peer := newC07H2Peer(t)
	defer peer.closeAll()
	base := "http://" + peer.ln.Addr().String()
	dir := t.TempDir()
	opts := c07Options()
	clients := make([]*Client, len(opts))
	mk := func(i int) {
		// (a graceful GOAWAY is retried on a new connection with exponential back-off until the client
		// timeout; 6 s keeps such cases affordable, the watchdog — the oracle — stays at 15 s per attempt)
		c := C().SetTimeout(6 * time.Second).EnableH2C().EnableForceHTTP2().SetLogger(nil)
		opts[i].setup(c)
		clients[i] = c
	}
	for i := range opts {
		mk(i)
	}
	wedges := 0
	g0 := runtime.NumGoroutine()
	n := verifh.N(500, 15000)
	for i := 0; i < n; i++ {
		var script []byte
		var tags []string
		c07Gen(t, "h2hostile frame script", func() { script, tags = c07H2Script(s, 1) })
		oi := c07Intn(s.Rand(), len(opts))
		method := verifh.Pick(s.Rand(), []int{0, 0, 1, 2})
		path := "/" + strconv.Itoa(i)
		peer.set(path, c07Script{data: script})
		ch := make(chan [2]string, 1)
		start := make(chan struct{})
		go func() {
			<-start
			kind := ""
			ptxt, panicked := verifh.Safely(func() {
				r := clients[oi].R()
				if opts[oi].req != nil {
					opts[oi].req(r, dir, i)
				}
				var rp *Response
				var err error
				switch method {
				case 1:
					rp, err = r.SetBodyString(strings.Repeat("u", 100)).Post(base + path)
				case 2:
					rp, err = r.SetBodyBytes(bytes.Repeat([]byte("U"), 70000)).Put(base + path)
				default:
					rp, err = r.Get(base + path)
				}
				switch {
				case rp == nil:
					kind = "nil-response"
				case err != nil:
					kind = "error"
					if os.Getenv("VERIF_DEBUG") != "" {
						fmt.Fprintf(os.Stderr, "DBG %v | %v\n", tags, err)
					}
				default:
					kind = "response"
					if rp.Response != nil && rp.Body != nil {
						io.Copy(io.Discard, rp.Body)
						rp.Body.Close()
					}
				}
			})
			if panicked {
				ch <- [2]string{"panic", ptxt}
				return
			}
			ch <- [2]string{kind, ""}
		}()
		human := fmt.Sprintf("opt=%s method=%s tags=%v frames=%x", opts[oi].name, []string{"GET", "POST(100B)", "PUT(70000B)"}[method], tags, truncate(string(script), 200))
		id := "h2hostile:" + opts[oi].name + ":" + verifh.Hex(string(script))
		class := ""
		if opts[oi].name == "autodecompress" || opts[oi].name == "everything" {
			for _, tg := range tags {
				switch tg {
				case "ce:identity", "ce:GZIP", "ce:unknown", "ce:gzip, br":
					class = "c14-unsupported-encoding-autodecompress"
				}
			}
		}
		s.Begin(id, human)
		t0 := time.Now()
		close(start)
		select {
		case res := <-ch:
			s.Count(res[0])
			if d := time.Since(t0); d > 3*time.Second {
				s.Count("slow>3s")
				if os.Getenv("VERIF_DEBUG") != "" {
					fmt.Fprintf(os.Stderr, "SLOW %v %s -> %s\n", d.Round(100*time.Millisecond), human, res[0])
				}
			}
			for _, tg := range tags {
				if !strings.HasPrefix(tg, "ce:") {
					s.Count("tag:" + tg)
				}
			}
			switch res[0] {
			case "panic":
				s.Crash(id, human, "panic in caller goroutine: "+res[1], class)
			case "nil-response":
				s.Observe(id, false, class, true, human, "call returned a nil *Response")
			default:
				s.Observe(id, true, "", len(tags) > 0, human, "")
			}
		case <-time.After(c07Watchdog(opts[oi].name)):
			s.Count("wedged")
			s.Observe(id, false, class, true, human, "call did not return within the watchdog bound (15 s per attempt) although the peer closed the connection and the client timeout is 6 s per attempt")
			wedges++
			mk(oi) // that client is stuck; continue with a fresh one
		}
		peer.mu.Lock()
		delete(peer.scripts, path)
		peer.mu.Unlock()
		if wedges >= 3 {
			break // enough evidence; do not burn the time budget
		}
	}
	for _, c := range clients {
		c.GetTransport().CloseIdleConnections()
	}
	time.Sleep(300 * time.Millisecond)
	for i, c := range clients {
		if wedges > 0 {
			break
		}
		var rp *Response
		var err error
		ok := false
		// a request may race with the peer closing the previous connection: retry a few times
		for try := 0; try < 4 && !ok; try++ {
			r := c.R()
			if opts[i].req != nil {
				opts[i].req(r, dir, 1<<30)
			}
			rp, err = r.Get(base + "/default")
			ok = err == nil && rp != nil && rp.StatusCode == 200
		}
		s.Observe("followup:"+opts[i].name, ok, "", true, "follow-up request on client "+opts[i].name, fmt.Sprintf("client unusable after hostile frames: %v", err))
	}
	for _, c := range clients {
		c.GetTransport().CloseIdleConnections()
	}
	deadline := time.Now().Add(10 * time.Second)
	for runtime.NumGoroutine() > g0+8 && time.Now().Before(deadline) {
		time.Sleep(50 * time.Millisecond)
	}
	g1 := runtime.NumGoroutine()
	cpu := c07IdleCPU()
	s.Observe("idle-cpu", cpu < 600*time.Millisecond, "", true, "process CPU time during 1 s of idleness after the run", fmt.Sprintf("a goroutine is spinning: %v CPU in 1 s idle", cpu))
	s.Observe("goroutines", g1 <= g0+8, "", true, fmt.Sprintf("goroutines before=%d after=%d", g0, g1), fmt.Sprintf("goroutines leaked: before=%d after=%d", g0, g1))
	peer.closeAll()
	stuck, where := c07StuckLoops("http2.(*ClientConn).readLoop", "http2.(*clientStream).doRequest")
	s.Observe("stuck-h2-loops", stuck == 0, "", true, fmt.Sprintf("HTTP/2 connection/stream goroutines still alive after every connection was closed: %d", stuck),
		fmt.Sprintf("%d HTTP/2 read-loop / request goroutines are stuck after every connection was closed by the peer, e.g.:\n%s", stuck, where))
	s.Finish()
}

// TestVerif_C07_h2budget: endless frame streams must be cut off by the header-list / 1xx /
// flow-control limits: the call fails and the client has read only a bounded number of bytes.
func TestVerif_C07_h2budget(t *testing.T) {
	s := verifh.New(t, "C07", "h2budget",
		"endless HTTP/2 streams answering one request (1xx HEADERS forever, CONTINUATION forever, DATA forever on a stream nobody reads, DATA forever beyond content-length, header fields forever inside one huge block) with MaxHeaderListSize 64 KiB; oracle: the call (or the body read) fails and the client read at most a bounded number of bytes; every case non-trivial")
	peer := newC07H2Peer(t)
	defer peer.closeAll()
	base := "http://" + peer.ln.Addr().String()
	settings := c07Frame{-1, 4, 0, 0, nil}.bytes()
	okHead := c07Frame{-1, 1, 0x4, 1, c07Hpack([2]string{":status", "200"})}.bytes()
	clHead := c07Frame{-1, 1, 0x4, 1, c07Hpack([2]string{":status", "200"}, [2]string{"content-length", "10"})}.bytes()
	bigField := c07Hpack([2]string{"x-filler", strings.Repeat("f", 8000)})
	type bcase struct {
		name    string
		data    []byte
		endless []byte
		bound   int64
		read    bool // read the body (the endless part is DATA)
	}
	const hl = 64 << 10
	cases := []bcase{
		{"endless-1xx", settings, c07Frame{-1, 1, 0x4, 1, c07Hpack([2]string{":status", "103"}, [2]string{"link", "</a>"})}.bytes(), 4 * hl, false},
		{"endless-continuation", append(append([]byte{}, settings...), c07Frame{-1, 1, 0, 1, c07Hpack([2]string{":status", "200"})}.bytes()...), c07Frame{-1, 9, 0, 1, bigField}.bytes(), 4 * hl, false},
		{"endless-data-unread", append(append([]byte{}, settings...), okHead...), c07Frame{-1, 0, 0, 1, bytes.Repeat([]byte("d"), 16384)}.bytes(), 16 << 20, false},
		{"endless-data-beyond-content-length", append(append([]byte{}, settings...), clHead...), c07Frame{-1, 0, 0, 1, bytes.Repeat([]byte("d"), 1000)}.bytes(), 16 << 20, true},
		{"endless-ping", settings, c07Frame{-1, 6, 0, 0, []byte("12345678")}.bytes(), -1, false},
	}
	// the five floods are independent (own client, own connection, own byte counter): run them side
	// by side and record the verdicts afterwards
	type bres struct {
		kind string
		got  int64
	}
	results := make([]bres, len(cases))
	var wg sync.WaitGroup
	for ci, bc := range cases {
		wg.Add(1)
		go func(ci int, bc bcase) {
			defer wg.Done()
			var reads int64
			to := 8 * time.Second
			if bc.bound < 0 {
				to = 4 * time.Second // a flood no limit cuts off (PING): the client timeout is what ends the call
			}
			c := C().SetTimeout(to).EnableH2C().EnableForceHTTP2().SetLogger(nil).SetHTTP2MaxHeaderListSize(hl)
			c.SetDialTLS(func(ctx context.Context, network, addr string) (net.Conn, error) {
				conn, err := net.Dial(network, addr)
				if err != nil {
					return nil, err
				}
				return &c07Conn{Conn: conn, reads: &reads}, nil
			})
			if !bc.read {
				c.DisableAutoReadResponse()
			}
			path := fmt.Sprintf("/hb%d", ci)
			peer.set(path, c07Script{data: bc.data, endless: bc.endless, cap: 64 << 20})
			done := make(chan string, 1)
			go func() {
				ptxt, panicked := verifh.Safely(func() {
					rp, err := c.R().Get(base + path)
					if err != nil || rp == nil || rp.Err != nil {
						done <- "error"
						return
					}
					// headers arrived; wait for the connection to die from the flood of unread data
					time.Sleep(2 * time.Second)
					_, rerr := io.Copy(io.Discard, rp.Body)
					if rerr != nil {
						done <- "error"
					} else {
						done <- "response"
					}
				})
				if panicked {
					done <- "panic: " + ptxt
				}
			}()
			var kind string
			select {
			case kind = <-done:
			case <-time.After(30 * time.Second):
				kind = "wedged"
			}
			results[ci] = bres{kind, atomic.LoadInt64(&reads)}
			c.GetTransport().CloseIdleConnections()
		}(ci, bc)
	}
	wg.Wait()
	for ci, bc := range cases {
		kind, got := results[ci].kind, results[ci].got
		ok := kind == "error" && (bc.bound < 0 || got <= bc.bound)
		human := fmt.Sprintf("%s -> %s after reading %d bytes (bound %d)", bc.name, kind, got, bc.bound)
		s.Count(kind)
		s.Observe("h2budget:"+bc.name, ok, "", true, human, human)
	}
	s.Finish()
}
