//go:build verif

package req

// C01 lane h1send: the real Transport.RoundTrip (forced HTTP/1.1: validateHeaders, validMethod,
// URL host check, connection set-up, persistConn.roundTrip's extra headers, writeLoop ->
// persistConn.writeRequest) against a raw TCP capture peer. The error class, or the exact bytes
// that reached the peer, are compared with the Lean model `Req.H1.sendH1` — the function the
// theorems h1_send_fidelity / h1_invalid_*_fails are about.

import (
	"bufio"
	"bytes"
	"context"
	"errors"
	"fmt"
	"io"
	"log"
	"net"
	"net/http"
	"net/url"
	"os"
	"strings"
	"sync"
	"sync/atomic"
	"testing"
	"time"

	"github.com/imroc/req/v3/internal/verifh"
)

type c01CapturePeer struct {
	ln   net.Listener
	mu   sync.Mutex
	caps []*c01Capture1
	// round 7 — early-final-status mode: a request with Expect: 100-continue and a body is answered
	// 401 (keep-alive, no 100 Continue) as soon as its head has been read; the peer then reads the
	// body the head announced and serves a further request on the same connection
	earlyFinal atomic.Bool
}

type c01Capture1 struct {
	raw    bytes.Buffer
	parsed bool
	done   chan struct{}
	remote string // the client's address of this connection: which case dialed it
	first  string // method SP request-target of the first request the reference parser accepted
	early  bool   // the first request was answered 401 before its body (early-final-status mode)
	end1   int    // early: how many of the captured bytes belong to the first request (head + body)
	second string // early: method SP request-target of the request that followed on this connection
	tail   []byte // early: what arrived behind the first request (set by the lane when it cuts raw)
}

func c01StartCapturePeer(t testing.TB) *c01CapturePeer {
	ln, err := net.Listen("tcp", "127.0.0.1:0")
	if err != nil {
		t.Fatalf("listen: %v", err)
	}
	p := &c01CapturePeer{ln: ln}
	go func() {
		for {
			c, err := ln.Accept()
			if err != nil {
				return
			}
			cp := &c01Capture1{done: make(chan struct{}), remote: c.RemoteAddr().String()}
			p.mu.Lock()
			p.caps = append(p.caps, cp)
			p.mu.Unlock()
			go func() {
				defer close(cp.done)
				defer c.Close()
				c.SetDeadline(time.Now().Add(1500 * time.Millisecond))
				br := bufio.NewReader(io.TeeReader(c, &cp.raw))
				r, err := http.ReadRequest(br)
				if err != nil {
					// not a request the reference parser accepts: answer, then keep reading
					// until the client hangs up so that the head is captured completely
					io.WriteString(c, "HTTP/1.1 400 Bad Request\r\nConnection: close\r\nContent-Length: 0\r\n\r\n")
					io.Copy(io.Discard, br)
					return
				}
				cp.first = r.Method + " " + r.RequestURI
				if p.earlyFinal.Load() && r.Header.Get("Expect") == "100-continue" && r.Body != nil && r.Body != http.NoBody {
					cp.early = true
					io.WriteString(c, "HTTP/1.1 401 Unauthorized\r\nWWW-Authenticate: Basic realm=\"c01\"\r\nContent-Length: 0\r\n\r\n")
					if _, err := io.Copy(io.Discard, r.Body); err != nil {
						return
					}
					cp.parsed = true
					cp.end1 = cp.raw.Len() - br.Buffered()
					if r2, err := http.ReadRequest(br); err == nil {
						cp.second = r2.Method + " " + r2.RequestURI
						io.Copy(io.Discard, r2.Body)
						io.WriteString(c, "HTTP/1.1 200 OK\r\nConnection: close\r\nContent-Length: 0\r\n\r\n")
					}
					io.Copy(io.Discard, br)
					return
				}
				if _, err := io.Copy(io.Discard, r.Body); err != nil {
					return
				}
				cp.parsed = true
				io.WriteString(c, "HTTP/1.1 200 OK\r\nConnection: close\r\nContent-Length: 0\r\n\r\n")
				// keep reading until the client hangs up: whatever follows the request on this
				// connection (the surplus of an over-long body reader …) is what an origin would
				// take for the next request — it belongs to the capture
				io.Copy(io.Discard, br)
			}()
		}
	}()
	return p
}

func (p *c01CapturePeer) take() []*c01Capture1 {
	p.mu.Lock()
	defer p.mu.Unlock()
	c := p.caps
	p.caps = nil
	return c
}

// takeFor returns the captures of the connections dialed from the given local addresses, waiting
// (up to wait) until the listener has accepted all of them: under load the accept loop may run well
// after the client has written its request and even after RoundTrip has returned (a write that
// fails on its own, a time-out). Captures of other connections — dialed by an earlier case and
// accepted late — stay where they are: they are not part of this exchange.
func (p *c01CapturePeer) takeFor(addrs []string, wait time.Duration) []*c01Capture1 {
	want := map[string]bool{}
	for _, a := range addrs {
		want[a] = true
	}
	deadline := time.Now().Add(wait)
	for {
		p.mu.Lock()
		n := 0
		for _, c := range p.caps {
			if want[c.remote] {
				n++
			}
		}
		if n >= len(want) || time.Now().After(deadline) {
			var mine, others []*c01Capture1
			for _, c := range p.caps {
				if want[c.remote] {
					mine = append(mine, c)
				} else {
					select {
					case <-c.done: // finished and never claimed: forget it
					default:
						others = append(others, c)
					}
				}
			}
			p.caps = others
			p.mu.Unlock()
			return mine
		}
		p.mu.Unlock()
		time.Sleep(2 * time.Millisecond)
	}
}

// c01IsFollow: the follow-up request of the early-final-status class as the peer's parser reports it
// (origin-form, or absolute-form through the proxy).
func c01IsFollow(s string) bool {
	return strings.HasPrefix(s, "GET ") && strings.HasSuffix(s, "/c01-follow")
}

func c01SendIsTimeout(err error) bool {
	var ne net.Error
	return errors.Is(err, os.ErrDeadlineExceeded) || (errors.As(err, &ne) && ne.Timeout()) || strings.Contains(err.Error(), "timeout awaiting response headers")
}

func c01SendErrKind(err error) string {
	s := err.Error()
	switch {
	case strings.Contains(s, "invalid header field"):
		return "err:header"
	case strings.Contains(s, "invalid method"):
		return "err:method"
	case strings.Contains(s, "no Host in request URL"):
		return "err:nohost"
	}
	return c01H1ErrKind(err)
}

func TestVerif_C01_h1send(t *testing.T) {
	s := c01New(t, "C01", "h1send",
		"the h1write generator (methods incl. extension tokens and invalid ones with SP / CR LF / NUL, URLs with escapes, spaces, non-ASCII, raw queries with SP / CR LF / control bytes, Host overrides incl. hostile ones, 0..8 headers incl. special, non-canonical, invalid names and values with CR LF / NUL, bodies none / in-memory / scripted reader with known, unknown and wrong content length) through the real Transport.RoundTrip (forced HTTP/1.1, compression on or off, directly or through a proxy) to a raw TCP capture peer; compared with the Lean model sendH1: error class (invalid header, invalid method, no host, control byte in target, body length …) or the exact bytes received (head only when the reference parser net/http.ReadRequest refuses the request); oracle: a request that reached the peer has a method without SP / CR / LF and a head without a bare CR or LF outside the line ends; non-trivial = the request was sent")
	log.SetOutput(io.Discard)
	defer log.SetOutput(os.Stderr)
	p := c01StartCapturePeer(t)
	defer p.ln.Close()
	r := s.Rand()
	n := verifh.N(1500, 12000)
	var dialFailed atomic.Bool // the loopback dial itself failed (ephemeral ports exhausted on a busy machine …): not a verdict on the code
	var dialMu sync.Mutex
	var dialed []string // local addresses of the connections dialed since the current attempt began
	mk := func(compress bool, expectWait time.Duration) *Transport {
		tr := T().EnableForceHTTP1()
		tr.DisableCompression = !compress
		tr.ExpectContinueTimeout = expectWait
		tr.ResponseHeaderTimeout = 1500 * time.Millisecond // a smuggled lower-case transfer-encoding makes the reference parser wait for chunks
		tr.SetDial(func(ctx context.Context, network, addr string) (net.Conn, error) {
			c, err := net.Dial("tcp", p.ln.Addr().String())
			if err != nil {
				dialFailed.Store(true)
			} else {
				dialMu.Lock()
				dialed = append(dialed, c.LocalAddr().String())
				dialMu.Unlock()
			}
			return c, err
		})
		return tr
	}
	trs := map[bool]*Transport{true: mk(true, time.Millisecond), false: mk(false, time.Millisecond)}
	trsEarly := map[bool]*Transport{true: mk(true, 5*time.Second), false: mk(false, 5*time.Second)} // the early-final-status class: the body waits for the peer's word
	proxyURL, _ := url.Parse("http://" + p.ln.Addr().String())
	for i := 0; i < n; i++ {
		tc := c01GenH1(r, "plain")
		tc.rawURL = strings.Replace(tc.rawURL, "https://", "http://", 1)
		compress := r.Intn(2) == 0
		tr := trs[compress]
		// round 7 — early-final-status class: a body of known-correct or unknown length, Expect:
		// 100-continue, a peer that answers the head 401 without 100 Continue and keeps the
		// connection; a follow-up request of the same transport comes next. The first request must
		// still arrive whole (head + body as the model sendH1 writes them) and the follow-up must be
		// read as a request of its own.
		early := false
		if tc.bodyKind != 0 && len(tc.body) > 1 && (tc.cl <= 0 || tc.cl == int64(len(tc.body))) && tc.method != "CONNECT" && r.Intn(3) == 0 {
			early = true
			for k := range tc.header {
				if strings.EqualFold(k, "Expect") || strings.EqualFold(k, "Connection") || k == HeaderOderKey {
					early = false
				}
			}
		}
		if early {
			if tc.header == nil {
				tc.header = http.Header{}
			}
			tc.header["Expect"] = []string{"100-continue"}
			tr = trsEarly[compress]
		}
		p.earlyFinal.Store(early)
		if tc.proxy {
			tr.SetProxy(func(*http.Request) (*url.URL, error) { return proxyURL, nil })
		} else {
			tr.SetProxy(nil)
		}
		u, e := url.Parse(tc.rawURL)
		if e != nil {
			continue
		}
		if u.Scheme != "http" { // "*", relative, opaque: not a request the transport can route
			s.Count("skipped:scheme")
			continue
		}
		if tc.rawQuery != nil {
			u.RawQuery = *tc.rawQuery
		}
		effHost := tc.host
		if effHost == "" {
			effHost = u.Host
		}
		if !c01IsASCII(effHost) || !c01IsASCII(u.Host) {
			s.Count("skipped:idna")
			continue
		}
		if tc.method == "CONNECT" {
			s.Count("skipped:connect") // a 200 to CONNECT hands the connection over: not a request/response exchange
			continue
		}
		var rec []int
		hdr := tc.header.Clone()
		build := func() *http.Request {
			rec = nil
			var body io.ReadCloser
			switch tc.bodyKind {
			case 1:
				body = io.NopCloser(&c01BytesBody{r: bytes.NewReader(tc.body), rec: &rec})
			case 2:
				body = &c01ScriptReader{data: append([]byte(nil), tc.body...), sizes: tc.sizes, rec: &rec}
			}
			return &http.Request{Method: tc.method, URL: u, Host: tc.host, Header: hdr.Clone(), Proto: "HTTP/1.1", ProtoMajor: 1, ProtoMinor: 1,
				ContentLength: tc.cl, Body: body, Close: tc.close}
		}
		// what persistConn.roundTrip adds for this transport (mirrors its two conditions)
		tc.extra = nil
		if compress && hdr.Get("Accept-Encoding") == "" && hdr.Get("Range") == "" && tc.method != "HEAD" {
			tc.extra = http.Header{"Accept-Encoding": {"gzip"}}
		}
		human := fmt.Sprintf("%q %q rawQuery=%v host=%q hdr=%q cl=%d body=%d/%s sizes=%v close=%v compress=%v proxy=%v", tc.method, tc.rawURL, tc.rawQuery != nil, tc.host, tc.header, tc.cl, tc.bodyKind, tc.bodySpec, tc.sizes, tc.close, compress, tc.proxy)
		s.Begin(fmt.Sprintf("h1send-%d", i), human)
		t0 := time.Now()
		var resp *http.Response
		var err error
		crashed := false
		for attempt := 0; attempt < 6; attempt++ {
			dialMu.Lock()
			dialed = nil
			dialMu.Unlock()
			dialFailed.Store(false)
			req := build()
			if txt, bad := verifh.Safely(func() { resp, err = tr.RoundTrip(req) }); bad {
				s.Crash(human, human, txt, "")
				crashed = true
				break
			}
			if resp != nil {
				io.Copy(io.Discard, resp.Body)
				resp.Body.Close()
			}
			if !dialFailed.Load() {
				break
			}
			time.Sleep(200 * time.Millisecond)
		}
		if crashed {
			continue
		}
		if dialFailed.Load() {
			s.Count("skipped:dial-error")
			continue
		}
		followed, followNote, expectObs := false, "", ""
		if early && err == nil && resp != nil && resp.StatusCode == 401 {
			followed = true
			freq := &http.Request{Method: "GET", URL: &url.URL{Scheme: "http", Host: u.Host, Path: "/c01-follow"}, Header: http.Header{}, Proto: "HTTP/1.1", ProtoMajor: 1, ProtoMinor: 1}
			fresp, ferr := tr.RoundTrip(freq)
			if fresp != nil {
				io.Copy(io.Discard, fresp.Body)
				fresp.Body.Close()
			}
			if ferr != nil || fresp.StatusCode != 200 {
				followNote = fmt.Sprintf(" ORACLE: the request that followed the early 401 on this transport was not answered 200 (err=%v)", ferr)
			}
		}
		tr.CloseIdleConnections()
		dialMu.Lock()
		mine := append([]string(nil), dialed...)
		dialMu.Unlock()
		caps := p.takeFor(mine, 5*time.Second)
		for _, c := range caps {
			select {
			case <-c.done:
			case <-time.After(10 * time.Second):
			}
		}
		// a connection on which nothing arrived belongs to an earlier case whose write failed
		// before the first byte (the listener may hand it over late): not part of this exchange
		if len(caps) > 1 {
			var live []*c01Capture1
			for _, c := range caps {
				if c.raw.Len() > 0 {
					live = append(live, c)
				}
			}
			if len(live) >= 1 {
				caps = live
			}
		}
		if followed {
			// the follow-up may have travelled on a connection of its own (the first one was not
			// idle yet): that capture is not the case's request
			var keep []*c01Capture1
			nFollow := 0
			reusedConn := false
			for _, c := range caps {
				if c01IsFollow(c.first) {
					nFollow++
					continue
				}
				if c.early && c.end1 > 0 {
					c.tail = append([]byte(nil), c.raw.Bytes()[c.end1:]...)
					c.raw.Truncate(c.end1)
					if len(c.tail) > 0 {
						reusedConn = true
					}
					if c01IsFollow(c.second) {
						nFollow++
						s.Count("expect-early-final:connection-reused")
					} else if len(c.tail) > 0 {
						followNote += fmt.Sprintf(" ORACLE: behind the first request the peer received %q: not a request of its own", c01Blob(c.tail))
					}
				}
				keep = append(keep, c)
			}
			caps = keep
			if nFollow != 1 && followNote == "" {
				followNote = fmt.Sprintf(" ORACLE: the follow-up request was seen %d times by the peer as GET /c01-follow", nFollow)
			}
			s.Count("expect-early-final")
			// what the model Req.H1.Expect says about this exchange (lane line c01expect): did the
			// write loop take the body from the caller's reader, did the connection carry more
			pulled := 0
			for _, z := range rec {
				pulled += z
			}
			// (a body of unknown length is probed for emptiness — one byte — while the head is
			// being written: only the WHOLE body taken counts as sent, bodies here have >= 2 bytes)
			expectObs = "body=" + c01b(pulled == len(tc.body)) + " reuse=" + c01b(reusedConn)
			if pulled != 0 && pulled != 1 && pulled != len(tc.body) {
				expectObs += fmt.Sprintf(" pulled=%d/%d", pulled, len(tc.body))
			}
			if tc.close {
				s.Count("expect-early-final:request-close")
			}
		}
		if d := time.Since(t0); d > 150*time.Millisecond {
			s.Count("slow>150ms")
			t.Logf("slow case (%v): %s err=%v", d, human, err)
		}
		mode, ans, ok := "full", "", true
		sent := false
		// A body LONGER than the declared Content-Length: net/http's writer (this fork's too) flushes
		// the head and copies the first ContentLength bytes straight to the connection before it
		// can notice the surplus, so the peer may answer that complete-looking request before the
		// write error is reported: RoundTrip then returns the response (a race the transport does
		// not arbitrate). Both outcomes are the model's err:bodylen; the bytes that arrived must be
		// exactly the declared-length prefix. Recorded in notes/C01.md (not a defect of the fork).
		// The same race exists when the peer answers early for another reason (400 for a head the
		// reference parser refuses) while the write of a body SHORTER than declared is still to fail.
		clMismatch := tc.bodyKind != 0 && tc.cl > 0 && tc.cl != int64(len(tc.body))
		preWrite := map[string]bool{"err:header": true, "err:method": true, "err:nohost": true, "err:ctl": true, "err:clnil": true, "err:hostproxy": true}
		switch {
		case clMismatch && !(err != nil && preWrite[c01SendErrKind(err)]):
			// By nature a race between the write error, the peer's answer and the peer's own
			// time-outs: whichever way it ends it is the model's err:bodylen. What must hold: a
			// request the peer took for complete carries exactly the declared-length prefix.
			ans = "err:bodylen"
			s.Count("err:bodylen")
			if err == nil {
				s.Count("bodylen-race-response-won")
			}
			for _, c := range caps {
				if !c.parsed {
					continue
				}
				wire := c.raw.Bytes()
				k := bytes.Index(wire, []byte("\r\n\r\n"))
				chunked := bytes.Contains(bytes.ToLower(wire[:k+2]), []byte("\r\ntransfer-encoding:"))
				if k < 0 || tc.cl > int64(len(tc.body)) || (!chunked && !bytes.Equal(wire[k+4:], tc.body[:tc.cl])) {
					ok = false
					human += fmt.Sprintf(" ORACLE: the peer accepted a request and received %d bytes behind its head: not exactly the declared-length prefix of the body (surplus bytes of the reader on the connection are read as the next request)", len(wire)-k-4)
				}
			}
		case err != nil && c01SendIsTimeout(err) && (len(caps) == 0 || caps[0].raw.Len() == 0):
			// the transport's 1.5 s response-header limit passed and the capture peer has not even
			// been scheduled to read the request: a stalled machine, not behaviour of the library —
			// skipped and counted, never judged (the lane fails below if this is frequent)
			s.Count("skipped:harness-timeout")
			t.Logf("case %d: %v with nothing captured — skipped, not judged: %s", i, err, human)
			continue
		case err != nil && (len(caps) == 0 || caps[0].raw.Len() == 0 || !strings.Contains(c01SendErrKind(err), "other")):
			ans = c01SendErrKind(err)
			s.Count(ans)
		case len(caps) != 1:
			ans = fmt.Sprintf("<%d connections, err=%v>", len(caps), err)
		case caps[0].parsed:
			sent = true
			wire := caps[0].raw.Bytes()
			if order := tc.header[HeaderOderKey]; len(order) > 0 {
				ans = c01ShowOrdered(wire, order)
				s.Count("sent:order-mode")
			} else {
				ans = "ok " + c01Blob(wire)
				s.Count("sent:plain")
			}
		default:
			// the reference parser refused what arrived: compare the head
			sent = true
			mode = "head"
			wire := caps[0].raw.Bytes()
			head := wire
			if k := bytes.Index(wire, []byte("\r\n\r\n")); k >= 0 {
				head = wire[:k]
			}
			if order := tc.header[HeaderOderKey]; len(order) > 0 {
				ans = "head-" + c01ShowOrdered(append(append([]byte(nil), head...), "\r\n\r\n"...), order)
			} else {
				ans = "head " + c01Blob(head)
			}
			s.Count("sent:refused-by-reference-parser")
		}
		if sent {
			wire := caps[0].raw.Bytes()
			line, _, _ := bytes.Cut(wire, []byte("\r\n"))
			m, _, _ := bytes.Cut(line, []byte(" "))
			if bytes.ContainsAny(m, "\r\n") || len(m) == 0 {
				ok = false
				human += " ORACLE: method with CR/LF or empty on the wire"
			}
			head := wire
			if k := bytes.Index(wire, []byte("\r\n\r\n")); k >= 0 {
				head = wire[:k]
			}
			for _, l := range strings.Split(string(head), "\r\n") {
				if strings.ContainsAny(l, "\r\n") {
					ok = false
					human += " ORACLE: bare CR or LF inside a line of the head"
				}
			}
			if tc.rawQuery != nil {
				s.Count("sent:raw-query-assigned")
			}
		}
		if followNote != "" {
			ok = false
			human += followNote
		}
		if followed {
			s.Case("c01expect "+c01b(tc.close)+" 0", expectObs, true, "", true, "early final status (401, connection kept by the peer) before 100 Continue: "+human)
		}
		s.Case(c01H1Line("c01send "+mode, tc, rec), ans, ok, "", sent, human+fmt.Sprintf(" -> err=%v connections=%d", err, len(caps)))
	}
	s.Need(t, "err:header", "err:method", "err:ctl", "err:bodylen", "sent:plain", "sent:order-mode", "sent:refused-by-reference-parser", "expect-early-final", "expect-early-final:connection-reused", "expect-early-final:request-close")
	if k := s.seen["skipped:harness-timeout"]; k > 3 && k*100 > 3*n {
		t.Errorf("%d of %d cases ended in a time-out with nothing captured: more than a stalled machine explains", k, n)
	}
	s.Finish()
}
