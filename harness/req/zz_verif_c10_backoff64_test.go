//go:build verif

package req

// C10 backoff64: the real backoffInterval against the EXACT model of its float64 / int64
// arithmetic (`Req.Backoff64`) on the whole int64 range.  math/rand is pinned with rand.Seed so
// that the jitter the real function draws can be recomputed from the model's halfTemp: the
// comparison is exact (a halfTemp that is off by one ulp draws a different jitter), not a range
// check.

import (
	"fmt"
	"math"
	"math/rand"
	"strconv"
	"testing"
	"time"

	"github.com/imroc/req/v3/internal/verifh"
)

func TestVerif_C10_backoff64(t *testing.T) {
	s := verifh.New(t, "C10", "backoff64",
		"(min,max,attempt) over the WHOLE int64 range: boundary grid {0,±1,2,3,100,1e6,1e9,2^52,2^53-1..2^53+6 (float64 ties, both parities),2^54-1..2^54+8,2^55±3,2^60±129,2^62-1..2^62+513,MaxInt64-1025..MaxInt64,MinInt64,MinInt64+1,-2^53-1,-2^62} for both bounds x attempts {0,1,2,3,10,52,53,62,63,64,100,969..971,1022,1023,1024,1025,4096,2^20} + random triples of random bit length; math/rand seeded per case, the jitter recomputed from the model's halfTemp with the same seed; the real function's answer must EQUAL the model's (exact tie of float64(int64) rounding, Exp2 overflow to +Inf, Min, -Inf/NaN -> int64, the guard); oracle: never negative, never panics, 0 < d <= max for max < 2^54 and d >= min for min <= 2^53 with 2min <= max in the domain min>0, max>=2, attempt>=1; non-trivial = halfTemp > 1")
	if a, b := func() int64 { rand.Seed(42); return rand.Int63n(1000003) }(), rand.New(rand.NewSource(42)).Int63n(1000003); a != b {
		t.Fatalf("c10 backoff64: math/rand cannot be pinned (%d vs %d)", a, b)
	}
	r := s.Rand()
	var vals []int64
	add := func(v ...int64) { vals = append(vals, v...) }
	add(0, 1, -1, 2, 3, 100, 1e6, 1e9, 1<<52)
	for d := int64(-1); d <= 6; d++ {
		add(1<<53 + d)
	}
	for d := int64(-1); d <= 8; d++ {
		add(1<<54 + d)
	}
	add(1<<55-3, 1<<55+3, 1<<60-129, 1<<60+129, 1<<62-1, 1<<62, 1<<62+1, 1<<62+511, 1<<62+512, 1<<62+513)
	add(math.MaxInt64-1025, math.MaxInt64-1024, math.MaxInt64-1023, math.MaxInt64-512, math.MaxInt64-511, math.MaxInt64-1, math.MaxInt64)
	add(math.MinInt64, math.MinInt64+1, -(1<<53)-1, -(1 << 62))
	atts := []int{0, 1, 2, 3, 10, 52, 53, 62, 63, 64, 100, 969, 970, 971, 1022, 1023, 1024, 1025, 4096, 1 << 20}
	type rec struct {
		mn, mx   int64
		att      int
		seed     int64
		d        int64
		panicked bool
	}
	var recs []rec
	run := func(mn, mx int64, att int) {
		seed := int64(len(recs)) + 1
		rc := rec{mn: mn, mx: mx, att: att, seed: seed}
		f := backoffInterval(time.Duration(mn), time.Duration(mx))
		rand.Seed(seed)
		_, rc.panicked = verifh.Safely(func() { rc.d = int64(f(nil, att)) })
		recs = append(recs, rc)
	}
	for i, mn := range vals {
		for j, mx := range vals {
			for k, a := range atts {
				if !verifh.Thorough() && (i+2*j+3*k)%4 != 0 {
					continue
				}
				run(mn, mx, a)
			}
		}
	}
	randInt := func() int64 {
		v := int64(r.Intn(1<<30))<<33 | int64(r.Intn(1<<30))<<3 | int64(r.Intn(8))
		v >>= uint(r.Intn(63))
		if r.Intn(6) == 0 {
			v = -v
		}
		return v
	}
	n := verifh.N(6000, 400000)
	for i := 0; i < n; i++ {
		mn := randInt()
		var mx int64
		switch r.Intn(4) {
		case 0:
			mx = mn + int64(r.Intn(9)) - 4
		case 1:
			mx = 2*mn + int64(r.Intn(9)) - 4
		default:
			mx = randInt()
		}
		att := r.Intn(70)
		if r.Intn(8) == 0 {
			att = 960 + r.Intn(80)
		}
		run(mn, mx, att)
	}
	// phase 1: the model's halfTemp; phase 2: the jitter math/rand draws for it, and the comparison
	q := make([]string, len(recs))
	for i, rc := range recs {
		q[i] = fmt.Sprintf("c10half %d %d %d", rc.mn, rc.mx, rc.att)
	}
	halves, err := verifh.RunModel(q)
	if err != nil {
		t.Fatalf("c10 backoff64: model: %v", err)
	}
	for i, rc := range recs {
		h, perr := strconv.ParseInt(halves[i], 10, 64)
		var j int64
		if perr == nil && h > 0 {
			j = rand.New(rand.NewSource(rc.seed)).Int63n(h)
		}
		line := fmt.Sprintf("c10backoff64 %d %d %d %d", rc.mn, rc.mx, rc.att, j)
		impl := "ok:" + strconv.FormatInt(rc.d, 10)
		ok := true
		if rc.panicked {
			impl, ok = "panic", false
			s.Count("panic")
		}
		if rc.d < 0 {
			ok = false
		}
		inDomain := rc.mn > 0 && rc.mx >= 2 && rc.att >= 1
		if inDomain {
			s.Count("in-domain")
			if rc.d <= 0 || (rc.mx < 1<<54 && rc.d > rc.mx) || (rc.mn <= 1<<53 && rc.mx/2 >= rc.mn && rc.d < rc.mn) {
				ok = false
			}
		}
		switch {
		case perr != nil:
			s.Count("half:unparsed")
		case h <= 0:
			s.Count("half:nonpositive")
		case h >= 1<<52:
			s.Count("half:>=2^52")
		default:
			s.Count("half:positive")
		}
		if rc.att >= 1024 {
			s.Count("attempt>=1024")
		}
		if rc.mn >= 1<<53 || rc.mx >= 1<<53 || rc.mn <= -(1<<53) || rc.mx <= -(1<<53) {
			s.Count("beyond-2^53")
		}
		s.Case(line, impl, ok, "", perr == nil && h > 1, fmt.Sprintf("backoffInterval(%d,%d)(nil,%d) with math/rand seed %d -> %s (model halfTemp %s)", rc.mn, rc.mx, rc.att, rc.seed, impl, halves[i]))
	}
	s.Finish()
}
