//go:build verif

package req

import (
	"fmt"
	"math/rand"
	"net/http"
	"strings"

	"github.com/imroc/req/v3/internal/verifh"
)

// ---------------------------------------------------------------------------------------
// stack shape: the client configurations under which a response travels a different PATH through
// the stack (Lean: Req.Decode.StackShape / pathOf): transport-level middleware
// (Transport.WrapRoundTrip / WrapRoundTripFunc and the client options built on it: header order,
// pseudo-header order, browser impersonation), client-level middleware (Client.WrapRoundTrip /
// WrapRoundTripFunc), clones of such clients. All middleware here hands the response on untouched.

type c15Shape struct {
	ops   []string
	clone bool
}

func c15GenShape(r *rand.Rand, impersonate bool) c15Shape {
	var sh c15Shape
	if r.Intn(5) < 2 {
		return sh // the plain client
	}
	pool := []string{"tw", "twf", "tw", "cw", "cwf", "header-order", "pseudo-header-order"}
	if impersonate {
		pool = append(pool, "chrome", "firefox", "safari")
	}
	for k := 0; k < 1+r.Intn(3); k++ {
		sh.ops = append(sh.ops, verifh.Pick(r, pool))
	}
	sh.clone = r.Intn(3) == 0
	return sh
}

// c15ApplyShape installs the middleware and returns the client that is to be used (the clone when
// the shape says so) plus the number of transport-level and client-level wrappers in its chains.
func c15ApplyShape(c *Client, sh c15Shape) (use *Client, tw, cw int) {
	for _, op := range sh.ops {
		switch op {
		case "tw":
			c.Transport.WrapRoundTrip(func(rt http.RoundTripper) http.RoundTripper {
				return HttpRoundTripFunc(func(req *http.Request) (*http.Response, error) { return rt.RoundTrip(req) })
			})
		case "twf":
			c.Transport.WrapRoundTripFunc(func(rt http.RoundTripper) HttpRoundTripFunc {
				return func(req *http.Request) (*http.Response, error) { return rt.RoundTrip(req) }
			})
		case "cw":
			c.WrapRoundTrip(func(rt RoundTripper) RoundTripper {
				return RoundTripFunc(func(req *Request) (*Response, error) { return rt.RoundTrip(req) })
			})
		case "cwf":
			c.WrapRoundTripFunc(func(rt RoundTripper) RoundTripFunc {
				return func(req *Request) (*Response, error) { return rt.RoundTrip(req) }
			})
		case "header-order":
			c.SetCommonHeaderOrder("accept", "user-agent", "x-verif")
		case "pseudo-header-order":
			c.SetCommonPseudoHeaderOder(":method", ":authority", ":scheme", ":path")
		case "chrome":
			c.ImpersonateChrome()
		case "firefox":
			c.ImpersonateFirefox()
		case "safari":
			c.ImpersonateSafari()
		}
	}
	use = c
	if sh.clone {
		use = c.Clone()
	}
	return use, len(use.Transport.httpRoundTripWrappers), len(use.roundTripWrappers)
}

func (sh c15Shape) String() string {
	if len(sh.ops) == 0 {
		return "plain"
	}
	s := strings.Join(sh.ops, "+")
	if sh.clone {
		s += "+clone"
	}
	return s
}

func c15CountShape(count func(string), sh c15Shape, tw, cw int) {
	if tw > 0 {
		count("path:transport-middleware")
	}
	if cw > 0 {
		count("path:client-middleware")
	}
	if tw == 0 && cw == 0 {
		count("path:plain")
	}
	if sh.clone && tw+cw > 0 {
		count("path:clone-of-a-client-with-middleware")
	}
	for _, op := range sh.ops {
		count("path-op:" + op)
	}
}

var _ = fmt.Sprint
