//go:build verif

package req

// Infrastructure of lanes c12path / c12proxy: an in-process HTTP proxy (CONNECT tunnels and
// absolute-form forwarding), a SOCKS5 stub, and a loopback TLS server that records every
// handshake it sees (ClientHello SNI + ALPN list, outcome, negotiated protocol, client
// certificate).

import (
	"bufio"
	"crypto/tls"
	"crypto/x509"
	"encoding/binary"
	"fmt"
	"io"
	"net"
	"net/http"
	"strings"
	"sync"
	"sync/atomic"
	"time"
)

// ---------------------------------------------------------------------------- HTTP proxy

type c12HTTPProxy struct {
	ln       net.Listener
	addr     string
	refuse   atomic.Bool // answer CONNECT with 403 (tunnel refused)
	connects atomic.Int64
	forwards atomic.Int64 // absolute-form requests forwarded
	accepts  atomic.Int64 // https proxy only: TCP connections accepted (the TLS hop to the proxy may fail before any CONNECT)
	mu       sync.Mutex
	targets  []string // CONNECT targets / absolute request URIs, in order
}

func c12StartHTTPProxy() (*c12HTTPProxy, error) {
	ln, err := net.Listen("tcp", "127.0.0.1:0")
	if err != nil {
		return nil, err
	}
	p := &c12HTTPProxy{ln: ln, addr: ln.Addr().String()}
	go func() {
		for {
			c, err := ln.Accept()
			if err != nil {
				return
			}
			go p.serve(c)
		}
	}()
	return p, nil
}

// c12ProxyHost is the name the https proxy is addressed by (and the only name, besides the
// ServerName-override target, its certificate lists): it differs from the origins' host
// (127.0.0.1, an IP SAN of the origin certificate, which does NOT list localhost), so a
// ServerName carried over from the hop to the proxy into the tunnelled session — or the other
// way round — fails verification.
const c12ProxyHost = "localhost"

// c12StartHTTPSProxy: the same proxy behind TLS (SetProxyURL("https://localhost:port")): the
// client handshakes with the PROXY first (certificate by the good CA, SAN DNS localhost +
// c12.example, no IP SAN), sends CONNECT inside, then handshakes with the origin in the tunnel.
func c12StartHTTPSProxy() (*c12HTTPProxy, error) {
	ln, err := net.Listen("tcp", "127.0.0.1:0")
	if err != nil {
		return nil, err
	}
	pki := c12GetPKI()
	cert := pki.cas[0].leaf("https-proxy", true, []string{c12ProxyHost, c12SAN}, nil)
	cfg := &tls.Config{Certificates: []tls.Certificate{cert}, NextProtos: []string{"http/1.1"}}
	_, port, _ := net.SplitHostPort(ln.Addr().String())
	p := &c12HTTPProxy{ln: ln, addr: net.JoinHostPort(c12ProxyHost, port)}
	go func() {
		for {
			c, err := ln.Accept()
			if err != nil {
				return
			}
			p.accepts.Add(1)
			go func() {
				tc := tls.Server(c, cfg)
				tc.SetDeadline(time.Now().Add(10 * time.Second))
				if err := tc.Handshake(); err != nil {
					c.Close()
					return
				}
				tc.SetDeadline(time.Time{})
				p.serve(tc)
			}()
		}
	}()
	return p, nil
}

func (p *c12HTTPProxy) note(s string) {
	p.mu.Lock()
	p.targets = append(p.targets, s)
	p.mu.Unlock()
}

func (p *c12HTTPProxy) sawTarget(sub string) bool {
	p.mu.Lock()
	defer p.mu.Unlock()
	for _, t := range p.targets {
		if strings.Contains(t, sub) {
			return true
		}
	}
	return false
}

func c12Relay(a, b net.Conn) {
	done := make(chan struct{}, 2)
	go func() { io.Copy(a, b); done <- struct{}{} }()
	go func() { io.Copy(b, a); done <- struct{}{} }()
	<-done
	a.Close()
	b.Close()
	<-done
}

func (p *c12HTTPProxy) serve(c net.Conn) {
	defer c.Close()
	br := bufio.NewReader(c)
	for {
		c.SetReadDeadline(time.Now().Add(30 * time.Second))
		req, err := http.ReadRequest(br)
		if err != nil {
			return
		}
		c.SetReadDeadline(time.Time{})
		if req.Method == "CONNECT" {
			p.connects.Add(1)
			p.note("CONNECT " + req.RequestURI)
			if p.refuse.Load() {
				io.WriteString(c, "HTTP/1.1 403 Forbidden\r\nContent-Length: 0\r\n\r\n")
				return
			}
			up, err := net.DialTimeout("tcp", req.RequestURI, 3*time.Second)
			if err != nil {
				io.WriteString(c, "HTTP/1.1 502 Bad Gateway\r\nContent-Length: 0\r\n\r\n")
				return
			}
			io.WriteString(c, "HTTP/1.1 200 Connection established\r\n\r\n")
			c12Relay(c, up)
			return
		}
		// a request in absolute-form for a plain http origin
		p.forwards.Add(1)
		p.note(req.Method + " " + req.RequestURI)
		if !req.URL.IsAbs() {
			io.WriteString(c, "HTTP/1.1 400 Bad Request\r\nContent-Length: 0\r\nX-C12-Proxy: not-absolute-form\r\n\r\n")
			return
		}
		up, err := net.DialTimeout("tcp", req.URL.Host, 3*time.Second)
		if err != nil {
			io.WriteString(c, "HTTP/1.1 502 Bad Gateway\r\nContent-Length: 0\r\n\r\n")
			continue
		}
		req.Close = true
		req.Header.Del("Proxy-Connection")
		req.Write(up) // origin-form
		resp, err := http.ReadResponse(bufio.NewReader(up), req)
		if err != nil {
			up.Close()
			io.WriteString(c, "HTTP/1.1 502 Bad Gateway\r\nContent-Length: 0\r\n\r\n")
			continue
		}
		resp.Header.Set("X-C12-Via-Proxy", "http")
		resp.Close = false
		resp.Write(c)
		resp.Body.Close()
		up.Close()
	}
}

func (p *c12HTTPProxy) close() { p.ln.Close() }

// ---------------------------------------------------------------------------- SOCKS5 stub

type c12Socks struct {
	ln       net.Listener
	addr     string
	refuse   atomic.Bool // answer CONNECT with "connection refused"
	connects atomic.Int64
	mu       sync.Mutex
	targets  []string
}

func c12StartSocks() (*c12Socks, error) {
	ln, err := net.Listen("tcp", "127.0.0.1:0")
	if err != nil {
		return nil, err
	}
	s := &c12Socks{ln: ln, addr: ln.Addr().String()}
	go func() {
		for {
			c, err := ln.Accept()
			if err != nil {
				return
			}
			go s.serve(c)
		}
	}()
	return s, nil
}

func (s *c12Socks) sawTarget(sub string) bool {
	s.mu.Lock()
	defer s.mu.Unlock()
	for _, t := range s.targets {
		if strings.Contains(t, sub) {
			return true
		}
	}
	return false
}

func (s *c12Socks) serve(c net.Conn) {
	defer c.Close()
	c.SetDeadline(time.Now().Add(10 * time.Second))
	hdr := make([]byte, 2)
	if _, err := io.ReadFull(c, hdr); err != nil || hdr[0] != 5 {
		return
	}
	methods := make([]byte, int(hdr[1]))
	if _, err := io.ReadFull(c, methods); err != nil {
		return
	}
	c.Write([]byte{5, 0}) // no authentication required
	rq := make([]byte, 4)
	if _, err := io.ReadFull(c, rq); err != nil || rq[0] != 5 || rq[1] != 1 {
		return
	}
	var host string
	switch rq[3] {
	case 1:
		b := make([]byte, 4)
		if _, err := io.ReadFull(c, b); err != nil {
			return
		}
		host = net.IP(b).String()
	case 3:
		l := make([]byte, 1)
		if _, err := io.ReadFull(c, l); err != nil {
			return
		}
		b := make([]byte, int(l[0]))
		if _, err := io.ReadFull(c, b); err != nil {
			return
		}
		host = string(b)
	case 4:
		b := make([]byte, 16)
		if _, err := io.ReadFull(c, b); err != nil {
			return
		}
		host = net.IP(b).String()
	default:
		return
	}
	pb := make([]byte, 2)
	if _, err := io.ReadFull(c, pb); err != nil {
		return
	}
	target := net.JoinHostPort(host, fmt.Sprint(binary.BigEndian.Uint16(pb)))
	s.connects.Add(1)
	s.mu.Lock()
	s.targets = append(s.targets, target)
	s.mu.Unlock()
	if s.refuse.Load() {
		c.Write([]byte{5, 5, 0, 1, 0, 0, 0, 0, 0, 0})
		return
	}
	up, err := net.DialTimeout("tcp", target, 3*time.Second)
	if err != nil {
		c.Write([]byte{5, 4, 0, 1, 0, 0, 0, 0, 0, 0})
		return
	}
	c.Write([]byte{5, 0, 0, 1, 0, 0, 0, 0, 0, 0})
	c.SetDeadline(time.Time{})
	c12Relay(c, up)
}

func (s *c12Socks) close() { s.ln.Close() }

// ---------------------------------------------------------------------------- recording TLS server

type c12HsObs struct {
	sni     string
	alpn    []string
	ok      bool
	neg     string
	cliCert string
}

type c12PathSrv struct {
	ln   net.Listener
	port int
	mu   sync.Mutex
	// current case
	k    int      // CA of the certificate presented
	alpn []string // server ALPN list
	acc  []int    // acceptable client CAs (nil = none named)
	obs  []c12HsObs
	open int // handshakes in flight
}

var (
	c12LocalOnce sync.Once
	c12LocalBy   []tls.Certificate // server leaf by cas[k]; SAN DNS localhost, origin.test, c12.example
)

func c12LocalCerts() []tls.Certificate {
	c12LocalOnce.Do(func() {
		for _, ca := range c12GetPKI().cas {
			c12LocalBy = append(c12LocalBy, ca.leaf("local-by-"+ca.name, true, []string{"localhost", c12UnitHost, c12SAN}, nil))
		}
	})
	return c12LocalBy
}

func c12StartPathSrv() (*c12PathSrv, error) {
	ln, err := net.Listen("tcp", "127.0.0.1:0")
	if err != nil {
		return nil, err
	}
	s := &c12PathSrv{ln: ln, port: ln.Addr().(*net.TCPAddr).Port}
	go func() {
		for {
			c, err := ln.Accept()
			if err != nil {
				return
			}
			s.mu.Lock()
			s.open++
			k, alpn, acc := s.k, s.alpn, s.acc
			s.mu.Unlock()
			go s.handle(c, k, alpn, acc)
		}
	}()
	return s, nil
}

func (s *c12PathSrv) set(k int, alpn []string, acc []int) {
	s.mu.Lock()
	s.k, s.alpn, s.acc = k, alpn, acc
	s.obs = nil
	s.mu.Unlock()
}

func (s *c12PathSrv) handle(c net.Conn, k int, alpn []string, acc []int) {
	defer c.Close()
	pki := c12GetPKI()
	var o c12HsObs
	cfg := &tls.Config{
		Certificates:           []tls.Certificate{c12LocalCerts()[k]},
		ClientAuth:             tls.RequestClientCert,
		SessionTicketsDisabled: true,
		MinVersion:             tls.VersionTLS12,
		NextProtos:             alpn,
		GetConfigForClient: func(chi *tls.ClientHelloInfo) (*tls.Config, error) {
			o.sni = chi.ServerName
			o.alpn = append([]string(nil), chi.SupportedProtos...)
			return nil, nil
		},
	}
	if len(acc) > 0 {
		cfg.ClientCAs = x509.NewCertPool()
		for _, j := range acc {
			cfg.ClientCAs.AddCert(pki.clientCAs[j].cert)
		}
	}
	srv := tls.Server(c, cfg)
	c.SetDeadline(time.Now().Add(4 * time.Second))
	err := srv.Handshake()
	if err == nil {
		st := srv.ConnectionState()
		o.ok = true
		o.neg = st.NegotiatedProtocol
		if len(st.PeerCertificates) > 0 {
			o.cliCert = st.PeerCertificates[0].Subject.CommonName
		}
	}
	s.mu.Lock()
	s.obs = append(s.obs, o)
	s.open--
	s.mu.Unlock()
	if err == nil {
		// let the client finish what it writes (HTTP/2 preface, a request), then hang up
		c.SetDeadline(time.Now().Add(150 * time.Millisecond))
		io.Copy(io.Discard, srv)
	}
}

// first waits until the handshakes in flight are over and returns the first one observed.
func (s *c12PathSrv) first() (c12HsObs, bool) {
	deadline := time.Now().Add(5 * time.Second)
	grace := time.Now().Add(30 * time.Millisecond)
	for time.Now().Before(deadline) {
		s.mu.Lock()
		n, open := len(s.obs), s.open
		var o c12HsObs
		if n > 0 {
			o = s.obs[0]
		}
		s.mu.Unlock()
		if n > 0 && open == 0 {
			return o, true
		}
		if n == 0 && open == 0 && time.Now().After(grace) {
			return c12HsObs{}, false
		}
		time.Sleep(2 * time.Millisecond)
	}
	return c12HsObs{}, false
}

func (s *c12PathSrv) close() { s.ln.Close() }
