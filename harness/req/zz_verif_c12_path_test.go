//go:build verif

package req

// Lane c12path (unit, in-package, real sockets): a NEW connection on each dial path —
//
//   direct : Transport.dialConn, no proxy
//   tunnel : Transport.dialConn through the in-process HTTP proxy (CONNECT) or SOCKS5 stub
//   h2own  : http2.Transport's own dial (t2.RoundTrip: forced HTTP/2 / re-dials inside t2)
//   quic   : http3.RoundTripper.dial (through the Dial seam, as in lane c12cfg)
//
// of a client that went through a random sequence of TLS setters and hook setters
// {SetDialTLS, SetTLSHandshake, SetTLSFingerprint*, their nil forms} IN ANY ORDER (model:
// Req.Pool.TLS.prun, theorem fingerprint_reads_current_config / setter_order_irrelevant). The loopback TLS
// server records the ClientHello (SNI, offered ALPN list), the outcome, the negotiated
// protocol and the client certificate (it names acceptable CAs); the hooks record the
// `addr` they are handed. Compared with Req.Pool.TLS.pathCfg / governs / handshakeGiven /
// dialTLSGiven / presented and Dispatch.negotiate / handsOff (driver lane c12path).

import (
	"context"
	"crypto/tls"
	"errors"
	"fmt"
	"net"
	"net/http"
	"net/url"
	"strings"
	"sync"
	"testing"
	"time"

	"github.com/imroc/req/v3/internal/verifh"
	utls "github.com/refraction-networking/utls"
)

type c12HookRec struct {
	mu      sync.Mutex
	dialRan bool
	hsRan   bool
	fpRan   bool
	anyRan  bool     // whatever TLSHandshakeContext the final client carries was called
	addrs   []string // addr arguments, in call order
}

func (r *c12HookRec) note(kind, addr string) {
	r.mu.Lock()
	defer r.mu.Unlock()
	switch kind {
	case "dial":
		r.dialRan = true
	case "hs":
		r.hsRan = true
	case "fp":
		r.fpRan = true
	case "any":
		r.anyRan = true
	}
	r.addrs = append(r.addrs, addr)
}

// given classifies the addr the governing hook was handed first.
func (r *c12HookRec) given(host string, port int) string {
	r.mu.Lock()
	defer r.mu.Unlock()
	if len(r.addrs) == 0 {
		return "-"
	}
	switch r.addrs[0] {
	case host:
		return "bare"
	case fmt.Sprintf("%s:%d", host, port):
		return "port"
	}
	return "other(" + r.addrs[0] + ")"
}

// c12InstallHooks installs the lane's own functions. Both verify the peer with their OWN
// trust (CA k when trustOK, another CA otherwise) and offer no ALPN; the handshake function
// takes the addr it is given as the name to verify (its documented meaning), the TLS dialer
// splits the host from the host:port it is given.
func c12InstallHooks(c *Client, dial bool, hs string, trustOK bool, k int, rec *c12HookRec, fpID *utls.ClientHelloID) {
	pki := c12GetPKI()
	trust := pki.cas[k].pool()
	if !trustOK {
		trust = pki.cas[(k+1)%4].pool()
	}
	switch hs {
	case "user":
		c.SetTLSHandshake(func(ctx context.Context, addr string, plain net.Conn) (net.Conn, *tls.ConnectionState, error) {
			rec.note("hs", addr)
			tc := tls.Client(plain, &tls.Config{ServerName: addr, RootCAs: trust})
			if err := tc.HandshakeContext(ctx); err != nil {
				return nil, nil, err
			}
			st := tc.ConnectionState()
			return tc, &st, nil
		})
	case "fp":
		c.SetTLSFingerprint(*fpID)
		t := c.GetTransport()
		inner := t.TLSHandshakeContext
		t.TLSHandshakeContext = func(ctx context.Context, addr string, plain net.Conn) (net.Conn, *tls.ConnectionState, error) {
			rec.note("fp", addr)
			return inner(ctx, addr, plain)
		}
	}
	if dial {
		c.SetDialTLS(func(ctx context.Context, network, addr string) (net.Conn, error) {
			rec.note("dial", addr)
			host, _, err := net.SplitHostPort(addr)
			if err != nil {
				return nil, err
			}
			var d net.Dialer
			conn, err := d.DialContext(ctx, network, addr)
			if err != nil {
				return nil, err
			}
			tc := tls.Client(conn, &tls.Config{ServerName: host, RootCAs: trust})
			if err := tc.HandshakeContext(ctx); err != nil {
				conn.Close()
				return nil, err
			}
			return tc, nil
		})
	}
}

// c12HookOp is one hook setter as an element of a setter sequence (token of the model's
// Req.Pool.TLS.HookOp). The user functions are the ones of c12InstallHooks.
func c12HookOp(tok string, trustOK bool, k int, rec *c12HookRec, fpID *utls.ClientHelloID) c12Op {
	switch tok {
	case "Hfp":
		return c12Op{tok, func(c *Client) *Client { return c.SetTLSFingerprint(*fpID) }}
	case "Huser":
		return c12Op{tok, func(c *Client) *Client { c12InstallHooks(c, false, "user", trustOK, k, rec, fpID); return c }}
	case "Hnone":
		return c12Op{tok, func(c *Client) *Client { return c.SetTLSHandshake(nil) }}
	case "Hdial1":
		return c12Op{tok, func(c *Client) *Client { c12InstallHooks(c, true, "-", trustOK, k, rec, fpID); return c }}
	case "Hdial0":
		return c12Op{tok, func(c *Client) *Client { return c.SetDialTLS(nil) }}
	}
	panic("c12HookOp: " + tok)
}

func c12PathSNI(s string) int {
	switch s {
	case "":
		return 0
	case "localhost", c12UnitHost:
		return 1
	case c12SAN:
		return 2
	case c12WrongSAN:
		return 3
	}
	return 9
}

func TestVerif_C12_path(t *testing.T) {
	s := verifh.New(t, "C12", "c12path",
		"a NEW connection per case on dial path {direct dialConn, dialConn through an in-process CONNECT proxy, through a SOCKS5 stub, HTTP/2's own dial, HTTP/3 dial seam} x 0..3 hook setters {SetTLSFingerprint (Chrome/Firefox/Safari/iOS), SetTLSHandshake (verifies against the addr it is given, own trust good/wrong), SetTLSHandshake(nil), SetDialTLS(fn), SetDialTLS(nil)} placed AFTER the TLS setters or at random positions BEFORE / BETWEEN them (setter order: configuration replaced or changed in place or cloned after the fingerprint / handshake was chosen) x force {none, h1 / onlyH1 key, h2} x 0..5 random TLS setters of lane c12cfg (roots, InsecureSkipVerify, ServerName, client certificates, NextProtos, nil config, Clone) x server {certificate of CA k, ALPN list h2+h1 / h1 / none / h2 / other, acceptable client CAs}; observable: who governed, the addr the hook was handed (bare host vs host:port), ClientHello SNI + ALPN list, accepted, client certificate, hand-off to HTTP/2; non-trivial = a hook or a proxy or at least one trust/name/cert setter")
	r := s.Rand()
	dir := t.TempDir()
	srv, err := c12StartPathSrv()
	if err != nil {
		t.Fatalf("infrastructure: %v", err)
	}
	defer srv.close()
	hp, err := c12StartHTTPProxy()
	if err != nil {
		t.Fatalf("infrastructure: %v", err)
	}
	defer hp.close()
	sp, err := c12StartSocks()
	if err != nil {
		t.Fatalf("infrastructure: %v", err)
	}
	defer sp.close()
	fps := []utls.ClientHelloID{utls.HelloChrome_Auto, utls.HelloFirefox_Auto, utls.HelloSafari_Auto, utls.HelloIOS_Auto}
	fpNames := []string{"Chrome", "Firefox", "Safari", "IOS"}
	srvAlpns := [][]string{{"h2", "http/1.1"}, {"h2", "http/1.1"}, {"http/1.1"}, nil, {"h2"}, {"spdy/9"}}
	type pending struct {
		line, impl, human string
		nontriv           bool
	}
	var cases []pending
	n := verifh.N(420, 6000)
	for i := 0; i < n; i++ {
		path := []string{"direct", "tunnel", "tunnel", "h2own", "h2own", "quic"}[r.Intn(6)]
		c := C()
		var toks []string
		nontriv := false
		var seq []c12Op
		for j := r.Intn(6); j > 0; j-- {
			op := c12GenOp(s, dir)
			if op.tok == "" {
				continue
			}
			seq = append(seq, op)
			if op.tok != "clone" {
				nontriv = true
			}
		}
		k := r.Intn(4)
		// make the built-in verdict "accept" often enough
		if r.Intn(3) == 0 {
			ca := c12GetPKI().cas[k].pem
			seq = append(seq, c12Op{fmt.Sprintf("root%d", k), func(c *Client) *Client { return c.SetRootCertFromString(ca) }})
		}
		// hook setters: 0..3 of them, EITHER after all TLS setters OR at random positions of the
		// sequence (before / between / after the TLS setters and Clone): the order dimension
		trustOK := r.Intn(3) != 0
		rec := &c12HookRec{}
		fpi := r.Intn(len(fps))
		nHooks := []int{0, 1, 1, 1, 2, 2, 3}[r.Intn(7)]
		interleave := r.Intn(3) != 0
		for j := 0; j < nHooks; j++ {
			tok := []string{"Hfp", "Hfp", "Hfp", "Hfp", "Huser", "Huser", "Hnone", "Hdial1", "Hdial1", "Hdial0"}[r.Intn(10)]
			op := c12HookOp(tok, trustOK, k, rec, &fps[fpi])
			pos := len(seq)
			if interleave {
				pos = r.Intn(len(seq) + 1)
			}
			seq = append(seq[:pos], append([]c12Op{op}, seq[pos:]...)...)
		}
		hs, dial := "-", false
		hookSeen, tlsAfterHook, replacedAfterFp := false, false, false
		for _, op := range seq {
			c = op.apply(c)
			toks = append(toks, op.tok)
			switch op.tok {
			case "Hfp":
				hs = "fp"
			case "Huser":
				hs = "user"
			case "Hnone":
				hs = "-"
			case "Hdial1":
				dial = true
			case "Hdial0":
				dial = false
			}
			if strings.HasPrefix(op.tok, "H") {
				hookSeen = true
			} else if hookSeen {
				tlsAfterHook = true
				if hs == "fp" && (strings.HasPrefix(op.tok, "cfg:") || op.tok == "nil") {
					replacedAfterFp = true
				}
			}
		}
		if tlsAfterHook {
			c12Count(s, "order:tls-setter-after-hook-setter")
		}
		if replacedAfterFp {
			c12Count(s, "order:config-replaced-after-fingerprint")
		}
		force := "-"
		onlyH1 := false
		switch path {
		case "h2own":
			force = "2"
			c.EnableForceHTTP2()
		case "quic":
		default:
			if r.Intn(3) == 0 {
				force = "1"
				c.EnableForceHTTP1()
			}
			onlyH1 = force == "1" || r.Intn(5) == 0
		}
		// whatever handshake function the FINAL client carries is wrapped by a recorder; the
		// lane's own function flags itself: "any" without "hs" = the library's fingerprint closure
		if tr0 := c.GetTransport(); tr0.TLSHandshakeContext != nil {
			inner := tr0.TLSHandshakeContext
			tr0.TLSHandshakeContext = func(ctx context.Context, addr string, plain net.Conn) (net.Conn, *tls.ConnectionState, error) {
				rec.note("any", addr)
				return inner(ctx, addr, plain)
			}
		}
		if dial || hs != "-" || path == "tunnel" {
			nontriv = true
		}
		sa := srvAlpns[r.Intn(len(srvAlpns))]
		var acc []int
		accTok := "-"
		if r.Intn(2) == 0 {
			acc = []int{r.Intn(4)} // the certificate ids lane c12cfg's setters use are 0..3
			if r.Intn(3) == 0 {
				acc = append(acc, r.Intn(10))
			}
			accTok = c12Digits(acc)
		}
		proxyKind := ""
		ctx, cancel := context.WithTimeout(context.Background(), 4*time.Second)
		tr := c.GetTransport()
		handoff := "-"
		var o c12HsObs
		var seen bool
		host := "localhost"
		ptxt, panicked := verifh.Safely(func() {
			switch path {
			case "direct", "tunnel":
				srv.set(k, sa, acc)
				cm := connectMethod{targetScheme: "https", targetAddr: fmt.Sprintf("localhost:%d", srv.port), onlyH1: onlyH1}
				if path == "tunnel" {
					if r.Intn(2) == 0 {
						proxyKind = "http"
						cm.proxyURL, _ = url.Parse("http://" + hp.addr)
					} else {
						proxyKind = "socks5"
						cm.proxyURL, _ = url.Parse("socks5://" + sp.addr)
					}
				}
				pconn, derr := tr.dialConn(ctx, cm)
				if derr == nil && pconn != nil {
					if pconn.alt != nil {
						handoff = "1"
						tr.t2.CloseIdleConnections()
					} else {
						handoff = "0"
						pconn.close(errors.New("c12 probe done"))
					}
				}
				o, seen = srv.first()
			case "h2own":
				srv.set(k, sa, acc)
				rq, _ := http.NewRequestWithContext(ctx, "GET", fmt.Sprintf("https://localhost:%d/", srv.port), nil)
				_, rerr := tr.t2.RoundTrip(rq)
				handoff = "h2"
				if rerr != nil && (strings.Contains(rerr.Error(), "unexpected ALPN protocol") || strings.Contains(rerr.Error(), "could not negotiate protocol mutually")) {
					handoff = "no-h2"
				}
				tr.t2.CloseIdleConnections()
				o, seen = srv.first()
			case "quic":
				host = c12UnitHost
				sa = nil
				p, ptx := c12MeasureAcc(c, "h3", false, k, acc)
				if ptx != "" {
					panic(ptx)
				}
				o = c12HsObs{sni: p.sni, alpn: p.alpn, ok: p.accepted, cliCert: p.cliCert}
				seen = p.ran
			}
		})
		cancel()
		// model line
		dTok, tTok, oTok := "0", "0", "0"
		if trustOK {
			tTok = "1"
		}
		if onlyH1 {
			oTok = "1"
		}
		opsTok := "-"
		if len(toks) > 0 {
			opsTok = strings.Join(toks, ",")
		}
		mpath := path
		line := fmt.Sprintf("c12path %s %s - %s %s %s 1 %d 12 %s %s %s", mpath, dTok, tTok, oTok, force, k, accTok, c12AlpnChars(sa), opsTok)
		hookDesc := ""
		if hs == "fp" {
			hookDesc += ".SetTLSFingerprint" + fpNames[fpi]
		}
		if hs == "user" {
			hookDesc += fmt.Sprintf(".SetTLSHandshake(verify against addr, trustOK=%v)", trustOK)
		}
		if dial {
			hookDesc += fmt.Sprintf(".SetDialTLS(trustOK=%v)", trustOK)
		}
		human := fmt.Sprintf("C()%s%s force=%s ; new connection on path %s%s to %s (server cert by ca-%d, ALPN %v, acceptable client CAs %s, onlyH1=%v)",
			c12HumanOps(toks), hookDesc, force, path, map[string]string{"": "", "http": " via CONNECT proxy", "socks5": " via SOCKS5"}[proxyKind], host, k, sa, accTok, onlyH1)
		if panicked {
			s.Crash(line, human, ptxt, "")
			continue
		}
		// canonical implementation answer
		impl := "no-handshake"
		if seen {
			acceptTok := 0
			if o.ok {
				acceptTok = 1
			}
			rec.mu.Lock()
			dialRan, hsRan, fpRan := rec.dialRan, rec.hsRan, rec.anyRan && !rec.hsRan
			rec.mu.Unlock()
			given := rec.given("localhost", srv.port)
			switch {
			case dialRan:
				impl = fmt.Sprintf("gov=dial given=%s accept=%d", given, acceptTok)
			case hsRan:
				impl = fmt.Sprintf("gov=hs given=%s accept=%d", given, acceptTok)
			default:
				gov, alpn := "cfg", c12AlpnChars(o.alpn)
				if fpRan {
					gov = "fp"
				} else {
					given = "-"
				}
				cert := "-"
				if o.ok && strings.HasPrefix(o.cliCert, "client-") {
					cert = strings.TrimPrefix(o.cliCert, "client-")
				}
				ho := handoff
				if !o.ok || path == "quic" {
					ho = "-"
				}
				impl = fmt.Sprintf("gov=%s given=%s sni=%d alpn=%s accept=%d cert=%s handoff=%s", gov, given, c12PathSNI(o.sni), alpn, acceptTok, cert, ho)
			}
		}
		c12Count(s, "path:"+path)
		if proxyKind != "" {
			c12Count(s, "proxy:"+proxyKind)
		}
		c12Count(s, "hs:"+hs)
		if dial {
			c12Count(s, "dialtls")
		}
		c12Count(s, strings.SplitN(impl, " ", 2)[0])
		if strings.Contains(impl, "accept=1") {
			c12Count(s, "accepted")
			if strings.Contains(impl, "gov=fp") {
				c12Count(s, "fp-accepted")
			}
		}
		if strings.Contains(impl, "handoff=1") {
			c12Count(s, "handoff-to-h2")
		}
		if strings.Contains(impl, "handoff=no-h2") {
			c12Count(s, "h2own-no-h2")
		}
		if strings.Contains(impl, "given=bare") {
			c12Count(s, "given-bare")
		}
		if strings.Contains(impl, "given=port") {
			c12Count(s, "given-port")
		}
		cases = append(cases, pending{line, impl, human, nontriv})
	}
	// a deviation is the KNOWN fingerprint finding only when it is exactly what the un-repaired
	// closure (Req.Pool.TLS.fpCopiedUnpatched) predicts
	var lines []string
	for _, c := range cases {
		lines = append(lines, c.line, strings.Replace(c.line, "c12path ", "c12pathu ", 1))
	}
	ans, err := verifh.RunModel(lines)
	if err != nil {
		t.Fatalf("infrastructure: %v", err)
	}
	for i, c := range cases {
		class := ""
		if c.impl != ans[2*i] && c.impl == ans[2*i+1] {
			class = "fingerprint-ignores-servername-certs"
			c12Count(s, "known:fingerprint-ignores-servername-certs")
		}
		s.Case(c.line, c.impl, true, class, c.nontriv, c.human)
	}
	for _, must := range []string{"path:direct", "path:tunnel", "path:h2own", "path:quic", "proxy:http", "proxy:socks5", "hs:fp", "hs:user", "dialtls",
		"gov=cfg", "gov=fp", "gov=hs", "gov=dial", "accepted", "fp-accepted", "order:tls-setter-after-hook-setter", "order:config-replaced-after-fingerprint", "handoff-to-h2", "h2own-no-h2", "given-bare", "given-port"} {
		if c12Hist[s][must] == 0 {
			t.Errorf("generator never reached bucket %q", must)
		}
	}
	s.Finish()
}
