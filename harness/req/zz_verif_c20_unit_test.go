//go:build verif

package req

import (
	"crypto/sha512"
	"encoding/base64"
	"encoding/hex"
	"fmt"
	"math/rand"
	"net/http"
	"net/url"
	"sort"
	"strconv"
	"strings"
	"testing"

	"github.com/imroc/req/v3/internal/header"
	"github.com/imroc/req/v3/internal/util"
	"github.com/imroc/req/v3/internal/verifh"
)

// TestVerif_C20_b64: the model's base64 (encoder and strict decoder) against encoding/base64
// — the "stated law" the Basic scheme relies on, sampled against the real library.
func TestVerif_C20_b64(t *testing.T) {
	s := verifh.New(t, "C20", "b64",
		"random byte strings of length 0..40 and 250..1030 (all residues mod 3) -> StdEncoding.EncodeToString vs model encode; encodings and damaged encodings (byte replaced/inserted/deleted, padding moved, non-zero trailing bits, line breaks) -> StdEncoding.Strict().DecodeString vs model decode; non-trivial = length >= 1")
	r := s.Rand()
	n := verifh.N(4000, 100000)
	for i := 0; i < n; i++ {
		ln := r.Intn(41)
		if r.Intn(10) == 0 {
			ln = 250 + r.Intn(780)
		}
		b := verifh.RandBytes(r, ln, "")
		enc := base64.StdEncoding.EncodeToString([]byte(b))
		s.Count(fmt.Sprintf("enc-len%%3=%d", ln%3))
		s.Case("c20b64 "+verifh.Hex(b), verifh.Hex(enc), true, "", ln > 0, fmt.Sprintf("encode %d bytes", ln))
		// decoder
		txt := enc
		kind := "dec-valid"
		if r.Intn(2) == 0 && len(txt) > 0 {
			bs := []byte(txt)
			switch r.Intn(6) {
			case 0:
				bs[r.Intn(len(bs))] = verifh.RandBytes(r, 1, "=-_ \n\r*Az09+/")[0]
			case 1:
				j := r.Intn(len(bs))
				bs = append(bs[:j:j], bs[j+1:]...)
			case 2:
				j := r.Intn(len(bs) + 1)
				bs = append(bs[:j:j], append([]byte(verifh.RandBytes(r, 1, "=A\n")), bs[j:]...)...)
			case 3:
				bs = append(bs, '=')
			case 4:
				// non-zero trailing bits in the last quantum
				if bs[len(bs)-1] == '=' {
					k := len(bs) - 2
					if bs[k] == '=' {
						k--
					}
					bs[k] = "BCDEFGHIJKLMNOP"[r.Intn(15)]
				}
			default:
				bs = bs[:r.Intn(len(bs))]
			}
			txt = string(bs)
			kind = "dec-damaged"
		}
		var impl string
		if strings.ContainsAny(txt, "\r\n") {
			impl = "none" // encoding/base64 skips line breaks; a header field cannot contain them
			kind = "dec-linebreak"
		} else if d, err := base64.StdEncoding.Strict().DecodeString(txt); err != nil {
			impl = "none"
		} else {
			impl = "some:" + verifh.Hex(string(d))
		}
		if impl == "none" {
			s.Count(kind + ":rejected")
		} else {
			s.Count(kind + ":accepted")
		}
		s.Case("c20b64dec "+verifh.Hex(txt), impl, true, "", len(txt) > 0, "decode "+strconv.Quote(txt))
	}
	s.Finish()
}

// TestVerif_C20_basic: every producer of a Basic credential in the library (util.BasicAuthHeaderValue,
// Request.SetBasicAuth, Client.SetCommonBasicAuth + the header merge, http.go basicAuth as used
// for Proxy-Authorization) vs the model, and what net/http's Request.BasicAuth recovers vs the
// model's serverBasic. Oracle: user without ':' => the server recovers exactly (user, pass).
func TestVerif_C20_basic(t *testing.T) {
	s := verifh.New(t, "C20", "basic",
		"user/password strings: plain, with colon, UTF-8, Latin-1 bytes, empty, 200..900 bytes, spaces, arbitrary bytes; all four producers must agree; recovered pair by net/http Request.BasicAuth; plus arbitrary Authorization values for the server side; non-trivial = non-empty user and password")
	r := s.Rand()
	n := verifh.N(3000, 60000)
	// every total length 0..300 (all residues mod 3 on both sides of any buffer size an encoder might use), then the random stream
	sweep := 301
	for i := 0; i < sweep+n; i++ {
		var u, ku, p, kp string
		if i < sweep {
			lu := r.Intn(i + 1)
			u, ku = verifh.RandBytes(r, lu, "abcXYZ019~._-\xe9 "), "sweep"
			p, kp = verifh.RandBytes(r, i-lu, ""), "sweep"
			s.Count(fmt.Sprintf("sweep-len%%3=%d", (i+1)%3))
		} else {
			u, ku = c20Text(r, true)
			p, kp = c20Text(r, true)
		}
		if i >= sweep && r.Intn(8) == 0 {
			u = verifh.RandBytes(r, r.Intn(20), "")
			ku = "bytes"
		}
		if i >= sweep && r.Intn(8) == 0 {
			p = verifh.RandBytes(r, r.Intn(20), "")
			kp = "bytes"
		}
		s.Count("user:" + ku)
		s.Count("pass:" + kp)
		h1 := util.BasicAuthHeaderValue(u, p)
		h2 := C().R().SetBasicAuth(u, p).Headers.Get(header.Authorization)
		c := C().SetCommonBasicAuth(u, p)
		rq := c.R()
		_ = parseRequestHeader(c, rq)
		h3 := rq.Headers.Get(header.Authorization)
		h4 := "Basic " + basicAuth(u, p)
		same := h1 == h2 && h1 == h3 && h1 == h4
		hr := &http.Request{Header: http.Header{"Authorization": {h1}}}
		gu, gp, gok := hr.BasicAuth()
		rec := "none"
		if gok {
			rec = verifh.Hex(gu) + " " + verifh.Hex(gp)
		}
		ok := same
		if !strings.Contains(u, ":") {
			ok = ok && gok && gu == u && gp == p
		} else {
			s.Count("colon-in-user(excluded by RFC 7617)")
		}
		impl := verifh.Hex(h1) + " " + rec
		if !same {
			impl = "producers-disagree " + verifh.Hex(h1) + " " + verifh.Hex(h2) + " " + verifh.Hex(h3) + " " + verifh.Hex(h4)
		}
		s.Case("c20basic "+verifh.Hex(u)+" "+verifh.Hex(p), impl, ok, "", u != "" && p != "",
			fmt.Sprintf("user=%q pass=%q -> %q", u, p, h1))
		// server side on arbitrary values
		if i%4 == 0 {
			v := h1
			switch r.Intn(5) {
			case 0:
				v = "basic " + h1[6:]
			case 1:
				v = "BASIC " + h1[6:]
			case 2:
				v = "Basic " + base64.StdEncoding.EncodeToString([]byte(verifh.RandBytes(r, r.Intn(12), "ab:")))
			case 3:
				v = verifh.Pick(r, []string{"", "Basic", "Basic ", "Basic !!!!", "Bearer abc", "Basic  QQ==", "Basic YQ==", "Basic Og=="})
			default:
				v = c20Mutate(r, h1)
			}
			if strings.ContainsAny(v, "\r\n") {
				continue
			}
			hr := &http.Request{Header: http.Header{"Authorization": {v}}}
			// net/http decodes leniently (non-canonical trailing bits): use the strict form
			rec := "none"
			if len(v) >= 6 && strings.EqualFold(v[:6], "Basic ") {
				if d, err := base64.StdEncoding.Strict().DecodeString(v[6:]); err == nil {
					if a, b, ok := strings.Cut(string(d), ":"); ok {
						rec = verifh.Hex(a) + " " + verifh.Hex(b)
						gu, gp, gok := hr.BasicAuth()
						if !gok || gu != a || gp != b {
							rec = "net/http-disagrees"
						}
					}
				}
			}
			s.Count("server-side:" + map[bool]string{true: "rejected", false: "recovered"}[rec == "none"])
			s.Case("c20basicdec "+verifh.Hex(v), rec, true, "", rec != "none", fmt.Sprintf("server side %q", v))
		}
	}
	s.Finish()
}

// TestVerif_C20_bearer: Request.SetBearerAuthToken / Client.SetCommonBearerAuthToken vs the model.
func TestVerif_C20_bearer(t *testing.T) {
	s := verifh.New(t, "C20", "bearer",
		"token strings: plain, colon, UTF-8, Latin-1, empty, 200..900 bytes, spaces, arbitrary bytes, scheme-like (a token that itself begins with Bearer / Basic / Digest in any letter case); request-level and client-level setter (through the header merge) must agree; oracle: value after the 7-byte scheme prefix is the token; non-trivial = non-empty token")
	r := s.Rand()
	n := verifh.N(3000, 60000)
	for i := 0; i < n; i++ {
		tk, k := c20Text(r, true)
		if r.Intn(6) == 0 {
			tk = verifh.RandBytes(r, r.Intn(30), "")
			k = "bytes"
		}
		s.Count("token:" + k)
		h1 := C().R().SetBearerAuthToken(tk).Headers.Get(header.Authorization)
		c := C().SetCommonBearerAuthToken(tk)
		rq := c.R()
		_ = parseRequestHeader(c, rq)
		h2 := rq.Headers.Get(header.Authorization)
		ok := h1 == h2 && strings.HasPrefix(h1, "Bearer ") && h1[7:] == tk
		impl := verifh.Hex(h1) + " some:" + verifh.Hex(strings.TrimPrefix(h1, "Bearer "))
		if h1 != h2 {
			impl = "setters-disagree"
		}
		s.Case("c20bearer "+verifh.Hex(tk), impl, ok, "", tk != "", fmt.Sprintf("token=%q -> %q", tk, h1))
	}
	s.Finish()
}

func c20ChalFields(c *challenge) []string {
	return []string{c.realm, c.domain, c.nonce, c.opaque, c.stale, c.algorithm, c.qop, c.userhash}
}

// c20ChalHex renders the 8 fields as a HexList in which an empty list cannot occur.
func c20ChalHex(c *challenge) string { return verifh.HexList(c20ChalFields(c)) }

// TestVerif_C20_parse: real parseChallenge vs the byte-exact model (of the repaired code; the
// model of the code as found classes the known finding, see c20Judge).
func TestVerif_C20_parse(t *testing.T) {
	s := verifh.New(t, "C20", "parse",
		"WWW-Authenticate texts: 50% grammatical RFC 7235 challenge lists (1-3 challenges: Digest over algorithms x qop forms x opaque x userhash x domain/stale/charset/unknown/duplicate parameters, name case, random order, token/quoted form, gratuitous quoted-pairs, OWS incl. Unicode and ASCII control white space, BWS, quoted commas, empty list elements, scheme case, outer white space; Basic/Bearer/Negotiate/NTLM with and without token68, schemes with quoted commas), 25% byte-damaged ones, 25% junk (other schemes, truncations, arbitrary bytes); answer = the 8 fields of the selected challenge or the error kind; non-trivial = parsed ok with realm and nonce, or a named error")
	r := s.Rand()
	j := &c20Judge{s: s}
	n := verifh.N(20000, 500000)
	cnt := map[string]int{}
	count := func(k string) { cnt[k]++; s.Count(k) }
	must := []string{"grammatical", "damaged", "junk", "tag:unicode-ws", "tag:ascii-ws", "tag:outer-ws", "tag:bws", "tag:quoted-comma", "tag:quoted-pair",
		"tag:userhash:true", "tag:alg:SHA-512-256-sess", "tag:alg:absent", "tag:alg:unknown", "tag:qop:list", "tag:qop:absent", "tag:charset:UTF-8", "tag:unknown-param",
		"tag:multi", "tag:several-digest", "tag:other-scheme", "tag:empty-elem", "tag:name-case", "tag:dup-param", "tag:scheme-case"}
	reached := func() bool {
		for _, m := range must {
			if cnt[m] == 0 {
				return false
			}
		}
		return true
	}
	for i := 0; i < n || !reached(); i++ {
		if i > 20*n {
			t.Fatalf("generator did not reach all declared buckets: %v", cnt)
		}
		var raw, kind string
		switch k := r.Intn(8); {
		case k < 4:
			c := c20GenHeader(r, false)
			raw, kind = c.raw, "grammatical"
			for tg := range c.tags {
				count("tag:" + tg)
			}
		case k < 6:
			raw, kind = c20Mutate(r, c20GenHeader(r, false).raw), "damaged"
			if r.Intn(3) == 0 {
				var way string
				raw, way = c20DamageParam(r, c20GenHeader(r, false).raw)
				count("damage:" + way)
			}
		case k == 6:
			raw, kind = verifh.Pick(r, c20Junk), "junk"
		default:
			raw, kind = verifh.RandBytes(r, r.Intn(40), "Digest realm=\"x\",\t \xc2\xa0\x85\xe2\x80\xa8\\"), "junk"
			if r.Intn(2) == 0 {
				raw = "Digest " + raw
			}
		}
		count(kind)
		var c *challenge
		var err error
		if p, pan := verifh.Safely(func() { c, err = parseChallenge(raw) }); pan {
			s.Crash("parse "+verifh.Hex(raw), strconv.Quote(raw), p, "")
			continue
		}
		var impl string
		if err != nil {
			impl = "err " + c20ErrName(err)
		} else {
			impl = "ok " + c20ChalHex(c)
		}
		count(kind + ":" + strings.SplitN(impl, " ", 2)[0])
		if err != nil {
			count("err:" + c20ErrName(err))
		}
		j.add(c20Pending{line: "c20parse2 " + verifh.Hex(raw), legacy: "c20parse " + verifh.Hex(raw), impl: impl, ok: true,
			nontrivial: err != nil || (c.realm != "" && c.nonce != ""), human: strconv.Quote(raw) + " -> " + strings.SplitN(impl, " ", 2)[0]})
	}
	j.flush()
	s.Finish()
}

// TestVerif_C20_create: real createDigestAuth — every WWW-Authenticate field line of a response ->
// the Authorization value — vs the model, with the tagged identity hash and injected entropy;
// the independent verifier judges the answer against the challenge the SERVER meant.
func TestVerif_C20_create(t *testing.T) {
	s := verifh.New(t, "C20", "create",
		"responses carrying 0-3 WWW-Authenticate field lines: 60% grammatical RFC 7235 challenge lists (as lane parse, several challenges in one line or one per line, several Digest challenges with different algorithms), 15% byte-damaged, 25% junk / no header / empty line / other schemes only; x user/password (colon, UTF-8, Latin-1, empty, long, quote/backslash/comma, control bytes) x method x request target with query x injected entropy or entropy failure; answer = the exact Authorization value or the error kind; oracle: the answer to a grammatical header is accepted by the independent RFC 7616 verifier holding the FIRST challenge the server issued that is answerable (RFC 7616 section 3.7), a header without answerable Digest challenge gives an error; non-trivial = header produced or a named error")
	restore, _ := c20InstallIdentity()
	defer restore()
	r := s.Rand()
	j := &c20Judge{s: s}
	cnt := map[string]int{}
	count := func(k string) { cnt[k]++; s.Count(k) }
	must := []string{"verifier-accepted", "gen:answerable-is-not-the-first-digest", "gen:answerable-on-a-later-line", "err:bad-challenge", "err:alg", "err:qop", "err:charset", "err:rand",
		"tag:multi", "tag:multi-line", "tag:several-digest", "tag:quoted-comma", "tag:quoted-pair", "tag:bws", "tag:qop:list", "no-header", "user:special"}
	methods := []string{"GET", "POST", "PUT", "DELETE", "PATCH", "HEAD", "OPTIONS", "M-SEARCH"}
	uris := []string{"/", "/dir/index.html", "/a/b?x=1&y=2", "/p?q=a%20b", "/?", "/a;b?c=d,e", "*", "/x?y=\"q\"", "/ü", "/path with space", "/a?b=c:d", "/back\\slash"}
	n := verifh.N(12000, 250000)
	for i := 0; i < n || !c20All(cnt, must); i++ {
		if i > 20*n {
			t.Errorf("declared buckets not reached: %v", cnt) // the collected cases are judged below: they hold the failing inputs
			break
		}
		var lines []string
		var gen *c20Chal
		switch k := r.Intn(20); {
		case k < 12:
			g := c20GenHeader(r, false)
			gen, lines = &g, g.lines
			for tg := range g.tags {
				count("tag:" + tg)
			}
			if !g.broken && c20Answerable(g.is) {
				if len(g.all) > 1 && !c20Answerable(g.all[0]) {
					count("gen:answerable-is-not-the-first-digest")
				}
				if g.isLine > 0 {
					count("gen:answerable-on-a-later-line")
				}
			}
		case k < 15:
			g := c20GenHeader(r, false)
			lines = append([]string(nil), g.lines...)
			x := r.Intn(len(lines))
			if r.Intn(3) == 0 {
				var way string
				lines[x], way = c20DamageParam(r, lines[x])
				count("damage:" + way)
			} else {
				lines[x] = c20Mutate(r, lines[x])
			}
			count("damaged")
		case k == 15:
			count("no-header")
		case k == 16:
			lines = []string{verifh.Pick(r, []string{"", " ", ",", ", ,"})}
			if r.Intn(2) == 0 {
				lines = append(lines, c20GenChallenge(r, false).raw)
			}
			count("empty-line")
		case k == 17:
			for m := 1 + r.Intn(2); m > 0; m-- {
				lines = append(lines, verifh.Pick(r, c20OtherChallenges))
			}
			count("other-schemes-only")
		default:
			lines = []string{verifh.Pick(r, c20Junk)}
			if r.Intn(3) == 0 {
				lines = append(lines, verifh.Pick(r, c20Junk))
			}
			count("junk")
		}
		user, ku := c20Text(r, true)
		if r.Intn(20) == 0 {
			user, ku = verifh.RandBytes(r, 1+r.Intn(6), "ab\x00\r\n\x7f\x1f\t"), "control"
		}
		pass, _ := c20Text(r, true)
		method := verifh.Pick(r, methods)
		uri := verifh.Pick(r, uris)
		rnd := []byte(verifh.RandBytes(r, 16, ""))
		fail := r.Intn(25) == 0
		rndArg := hex.EncodeToString(rnd)
		if fail {
			rndArg = "x"
		}
		count("user:" + ku)
		h := http.Header{}
		for _, v := range lines {
			h.Add("WWW-Authenticate", v)
		}
		rq := &http.Request{Method: method, URL: &url.URL{Opaque: uri}}
		target := rq.URL.RequestURI()
		args := fmt.Sprintf("%s %s %s %s %s %s", verifh.HexList(lines), verifh.Hex(user), verifh.Hex(pass), verifh.Hex(method), verifh.Hex(target), rndArg)
		human := fmt.Sprintf("www=%q user=%q pass=%q %s %s", lines, user, pass, method, target)
		var out string
		var err error
		undo := c20InjectRand(rnd, fail)
		p, pan := verifh.Safely(func() { out, err = createDigestAuth(&http.Response{Header: h, Request: rq}, user, pass) })
		undo()
		if pan {
			s.Crash("c20create2 "+args, human, p, "")
			continue
		}
		impl := "ok " + verifh.Hex(out)
		if err != nil {
			impl = "err " + c20ErrName(err)
			count("err:" + c20ErrName(err))
		} else {
			count("ok")
		}
		ok := true
		if gen != nil && !fail {
			switch {
			case gen.broken || !c20Answerable(gen.is):
				// nothing the client may answer: an error, not a header
				if err == nil {
					ok = false
					human += " | answered a header list without answerable Digest challenge: " + strconv.Quote(out)
				}
			case err != nil && gen.loose:
				count("loose-white-space:refused")
			case err != nil:
				ok = false
				human += " | an answerable challenge was refused: " + err.Error()
			case !c20HeaderSafe(out):
				count("not-a-field-value") // judged by the model only; the transport refuses it (lane handle)
			default:
				x := c20Ctx{is: gen.is, method: method, uri: target, user: user, pass: pass}
				if good, why := c20Verify(c20IdH, x, out); good {
					count("verifier-accepted")
					if len(gen.all) > 1 && gen.is.nonce != gen.all[0].nonce {
						count("answered:second-or-later-challenge")
					}
					if gen.isLine > 0 {
						count("answered:later-line")
					}
				} else {
					ok = false
					human += " | verifier: " + why + " | header=" + strconv.Quote(out)
				}
			}
		}
		j.add(c20Pending{line: "c20create2 " + args, legacy: "c20create " + args, impl: impl, ok: ok,
			nontrivial: err == nil || c20ErrName(err) != "other", human: human})
	}
	j.flush()
	s.Finish()
}

// TestVerif_C20_auth: real newCredentials + authorize (with validateQop, resp, ha1, ha2, kd, h)
// vs the model, hashFuncs temporarily replaced by the tagged hex-identity hash and
// crypto/rand.Reader by an injected source, so that the whole header is predictable.
func TestVerif_C20_auth(t *testing.T) {
	s := verifh.New(t, "C20", "auth",
		"challenge structs: 60% real parseChallenge output of grammatical challenges, 40% direct field tuples (qop lists with/without 'auth', unknown/empty/-sess algorithms, userhash true/false/TRUE, empty/odd realm, nonce, opaque) x user/password (colon, UTF-8, Latin-1, empty, long, quote/backslash/comma) x method x URI with query x nc in {0,1,9,255,2^28,2^32} x 16 injected entropy bytes or entropy failure; answer = the exact Authorization value or the error kind (model of the repaired code; the model of the code as found classes the known finding); the independent verifier judges the whole pipeline in lane create; non-trivial = header produced or a named error")
	restore, row13 := c20InstallIdentity()
	defer restore()
	r := s.Rand()
	j := &c20Judge{s: s}
	methods := []string{"GET", "POST", "PUT", "DELETE", "PATCH", "HEAD", "OPTIONS", "", "get", "M-SEARCH"}
	uris := []string{"/", "/dir/index.html", "/a/b?x=1&y=2", "/p?q=a%20b", "/?", "/a;b?c=d,e", "*", "", "/x?y=\"q\"", "/ü", "/path with space", "/a?b=c:d"}
	n := verifh.N(15000, 300000)
	known := map[string]int{}
	for i := 0; i < n; i++ {
		var ch *challenge
		var gen *c20Chal
		if r.Intn(10) < 6 {
			g := c20GenChallenge(r, false)
			c, err := parseChallenge(g.raw)
			if err != nil {
				s.Count("skipped:parse-error")
				// still exercise authorize on a direct tuple below
			} else {
				ch, gen = c, &g
			}
		}
		if ch == nil {
			ch = &challenge{
				realm:     verifh.Pick(r, c20Words),
				nonce:     verifh.Pick(r, c20Nonces),
				algorithm: verifh.Pick(r, []string{"", "MD5", "MD5-sess", "SHA-256", "SHA-256-sess", "SHA-512-256", "SHA-512-256-sess", "SHA-1", "md5", "-sess", "SHA-512", "MD5-sess-sess", "MD5 "}),
				qop:       verifh.Pick(r, []string{"", "auth", "auth", "auth-int", "auth, auth-int", "auth-int, auth", "auth,auth-int", "auth-int,auth", "AUTH", " auth", "auth ", "x, auth, y", ", ", "auth-int, authx"}),
				userhash:  verifh.Pick(r, []string{"", "", "true", "false", "TRUE", "true "}),
			}
			if r.Intn(2) == 0 {
				ch.opaque = verifh.Pick(r, []string{"o", "5ccc069c403ebaf9f0171e9517f40e41", "with \"quote\"", "é"})
			}
			if r.Intn(8) == 0 {
				ch.realm, _ = c20Text(r, true)
			}
			if r.Intn(8) == 0 {
				ch.nonce, _ = c20Text(r, true)
			}
			ch.domain = verifh.Pick(r, []string{"", "/"})
			ch.stale = verifh.Pick(r, []string{"", "true"})
		}
		user, ku := c20Text(r, true)
		pass, _ := c20Text(r, true)
		method := verifh.Pick(r, methods)
		uri := verifh.Pick(r, uris)
		nc := verifh.Pick(r, []int{0, 0, 0, 0, 0, 0, 0, 0, 0, 0, 0, 0, 0, 0, 0, 1, 9, 255, 1 << 28, 1 << 32})
		rnd := []byte(verifh.RandBytes(r, 16, ""))
		fail := r.Intn(25) == 0
		rndArg := hex.EncodeToString(rnd)
		if fail {
			rndArg = "x"
		}
		args := fmt.Sprintf("%s %s %s %s %s %d %s", c20ChalHex(ch), verifh.Hex(user), verifh.Hex(pass), verifh.Hex(method), verifh.Hex(uri), nc, rndArg)
		line := "c20auth2 " + args
		human := fmt.Sprintf("chal=%+v user=%q pass=%q %s %s nc=%d", *ch, user, pass, method, uri, nc)
		var out string
		var err error
		undo := c20InjectRand(rnd, fail)
		p, pan := verifh.Safely(func() {
			cr := newCredentials(uri, method, user, pass, ch)
			cr.nc = nc
			out, err = cr.authorize()
		})
		undo()
		if pan {
			s.Crash(line, human, p, "")
			continue
		}
		impl := "ok " + verifh.Hex(out)
		if err != nil {
			impl = "err " + c20ErrName(err)
			s.Count("err:" + c20ErrName(err))
		} else {
			s.Count("ok")
			s.Count("ok:alg=" + ch.algorithm)
			if ch.qop != "" {
				s.Count("ok:qop")
			} else {
				s.Count("ok:no-qop")
			}
			if ch.userhash == "true" {
				s.Count("ok:userhash")
			}
			if ch.opaque != "" {
				s.Count("ok:opaque")
			}
		}
		s.Count("user:" + ku)
		// ---- known findings: normalise the pre-patch behaviour of exactly these input classes
		sess := strings.HasSuffix(ch.algorithm, "-sess")
		if _, supported := hashFuncs[ch.algorithm]; supported && sess && ch.qop == "" && err != nil && c20ErrName(err) == "rand" {
			// same input class, entropy failure: the repaired code refuses before drawing the cnonce
			impl = "err qop"
		} else if err == nil && sess && ch.qop == "" {
			// fixes/C20-3: a -sess response without qop cannot be verified (cnonce is not sent)
			if known["sess"] < 3 {
				s.Observe("sess-without-qop "+line, false, "c20-sess-without-qop", false, human, "authorize answered "+strconv.Quote(out)+": HA1 depends on a cnonce that is not transmitted")
			}
			known["sess"]++
			s.Count("known:sess-without-qop")
			impl = "err qop"
			gen = nil // nothing left for the verifier to judge
		} else if err == nil && ch.algorithm == "" && (strings.Contains(out, ", algorithm=, ") || strings.HasSuffix(out, ", algorithm=")) {
			// fixes/C20-2: `algorithm=` with an empty value is not an auth-param
			if known["alg"] < 3 {
				s.Observe("empty-algorithm "+line, false, "c20-empty-algorithm-param", false, human, "authorize answered "+strconv.Quote(out))
			}
			known["alg"]++
			s.Count("known:empty-algorithm-param")
			norm := strings.Replace(out, ", algorithm=, ", ", ", 1)
			norm = strings.TrimSuffix(norm, ", algorithm=")
			impl = "ok " + verifh.Hex(norm)
			out = norm
		}
		// (the independent verifier judges the whole pipeline header lines -> Authorization in lane create)
		_ = gen
		j.add(c20Pending{line: "c20auth2 " + args, legacy: "c20auth " + args, impl: impl, ok: true,
			nontrivial: err == nil || c20ErrName(err) != "other", human: human})
	}
	j.flush()
	_ = row13
	s.Finish()
}

// c20QuotedCorner: the input needs RFC 7230 quoted-string handling that digest.go does not
// have (known finding c20-quoted-string-handling): a quoted challenge value containing a comma
// or a quoted-pair, white space around "=", or a user name / request target containing `"`
// or `\`.
func c20QuotedCorner(g *c20Chal, user, uri string) bool {
	return g.tags["quoted-comma"] || g.tags["quoted-pair"] || g.tags["bws"] ||
		strings.ContainsAny(user, "\"\\") || strings.ContainsAny(uri, "\"\\") ||
		strings.ContainsAny(g.is.realm+g.is.nonce, "\"\\") ||
		(g.is.opaque != nil && strings.ContainsAny(*g.is.opaque, "\"\\"))
}

// TestVerif_C20_kat: every real constructor in hashFuncs, run directly and through
// credentials.h, on known-answer vectors against crypto/* selected by the ORACLE's table.
func TestVerif_C20_kat(t *testing.T) {
	s := verifh.New(t, "C20", "kat",
		"every entry of hashFuncs x vectors {\"\", \"a\", \"abc\", RFC 7616 A1/A2 strings, 1000 x 'a', random 0..300 bytes}: hex(ctor().Sum) and credentials.h must equal the digest RFC 7616 registers for that name (MD5 / SHA-256 / SHA-512/256, -sess variants alike), computed with crypto/md5, crypto/sha256, crypto/sha512.Sum512_256; the seven registered names must be present; non-trivial = every (name, vector) pair")
	r := s.Rand()
	vectors := []string{"", "a", "abc", "Mufasa:testrealm@host.com:Circle Of Life", "GET:/dir/index.html", "Mufasa:http-auth@example.org:Circle of Life", strings.Repeat("a", 1000)}
	for i := verifh.N(20, 400); i > 0; i-- {
		vectors = append(vectors, verifh.RandBytes(r, r.Intn(300), ""))
	}
	for _, name := range []string{"", "MD5", "MD5-sess", "SHA-256", "SHA-256-sess", "SHA-512-256", "SHA-512-256-sess"} {
		if _, ok := hashFuncs[name]; !ok {
			s.Observe("missing "+name, false, "", true, "hashFuncs has no entry for "+strconv.Quote(name), "a registered RFC 7616 algorithm is reported as unsupported")
		}
	}
	var names []string
	for k := range hashFuncs {
		names = append(names, k)
	}
	sort.Strings(names)
	for _, name := range names {
		tag, ok := c20SpecTag(name)
		if !ok {
			s.Count("unregistered-name")
			continue
		}
		for vi, v := range vectors {
			want := c20RealH(tag, v)
			var got1, got2 string
			if p, pan := verifh.Safely(func() {
				h := hashFuncs[name]()
				h.Write([]byte(v))
				got1 = hex.EncodeToString(h.Sum(nil))
				got2 = (&credentials{algorithm: name}).h(v)
			}); pan {
				s.Crash("kat "+name, name, p, "")
				continue
			}
			class := ""
			if got1 != want && strings.HasPrefix(name, "SHA-512-256") {
				x := sha512.Sum512([]byte(v))
				if got1 == hex.EncodeToString(x[:]) && got2 == got1 {
					class = "c20-sha512-256-table"
					s.Count("known:sha512-256-table")
				}
			}
			s.Count("alg:" + name)
			s.Observe(fmt.Sprintf("kat %s #%d", name, vi), got1 == want && got2 == want, class, true,
				fmt.Sprintf("H[%q](%d bytes)", name, len(v)),
				fmt.Sprintf("hashFuncs[%q] on %q: got %s (h: %s), RFC 7616 digest %s", name, c20Clip(v), got1, got2, want))
		}
	}
	s.Finish()
}

func c20Clip(s string) string {
	if len(s) > 48 {
		return s[:48] + "…"
	}
	return s
}

// TestVerif_C20_specverify: the two independent renderings of the RFC 7616 verifier — the
// Lean one the theorems are about and the Go one the e2e origin runs — must give the same
// verdict on headers produced by the real authorize, on re-renderings of them that the
// grammar allows, and on damaged ones.
func TestVerif_C20_specverify(t *testing.T) {
	s := verifh.New(t, "C20", "specverify",
		"Authorization values from the real authorize (identity hash, injected entropy) for grammatical challenges; each also re-rendered (parameter order, OWS/BWS, token<->quoted form, quoted-pairs, scheme case), field-tweaked (nc, uri, realm, qop, response, dropped/duplicated parameter) and byte-damaged; verdict of the Go verifier vs verdict of the Lean verifier; non-trivial = accepted headers and each rejection reason")
	restore, _ := c20InstallIdentity()
	defer restore()
	r := s.Rand()
	n := verifh.N(4000, 100000)
	for i := 0; i < n; i++ {
		g := c20GenChallenge(r, false)
		ch, err := parseChallenge(g.raw)
		if err != nil {
			s.Count("skipped:parse-error")
			continue
		}
		user, _ := c20Text(r, r.Intn(6) == 0)
		pass, _ := c20Text(r, true)
		if len(user) > 60 { // the Lean automaton appends at the end of its buffers: keep values short here
			user = user[:60]
		}
		if len(pass) > 60 {
			pass = pass[:60]
		}
		method := verifh.Pick(r, []string{"GET", "POST", "PUT", "HEAD"})
		uri := verifh.Pick(r, []string{"/", "/a/b?x=1&y=2", "/a;b?c=d,e", "/p?q=a%20b"})
		rnd := []byte(verifh.RandBytes(r, 16, ""))
		undo := c20InjectRand(rnd, false)
		hdr, err := newCredentials(uri, method, user, pass, ch).authorize()
		undo()
		if err != nil {
			s.Count("skipped:authorize-error")
			continue
		}
		kind := "as-produced"
		switch k := r.Intn(10); {
		case k < 3:
		case k < 6:
			if ps, e := c20ParseCredentials(hdr); e == nil {
				hdr = c20ReRender(r, ps)
				kind = "re-rendered"
			}
		case k < 8:
			if ps, e := c20ParseCredentials(hdr); e == nil {
				kind = "tweaked"
				switch r.Intn(9) {
				case 0:
					ps["nc"] = verifh.Pick(r, []string{"00000002", "00000000", "1", "0000001", "0000000A"})
				case 1:
					ps["uri"] = ps["uri"] + "x"
				case 2:
					ps["realm"] = "other"
				case 3:
					ps["qop"] = verifh.Pick(r, []string{"auth-int", "auth", "AUTH"})
				case 4:
					ps["response"] = strings.ToUpper(ps["response"])
				case 5:
					ks := c20Keys(ps)
					delete(ps, verifh.Pick(r, ks))
				case 6:
					ps["userhash"] = verifh.Pick(r, []string{"true", "false", "yes"})
				case 7:
					ps["algorithm"] = verifh.Pick(r, c20AlgNames)
				default:
					ps["opaque"] = "zz"
				}
				hdr = c20ReRender(r, ps)
				if r.Intn(6) == 0 {
					hdr += ", nc=00000001"
				}
			}
		default:
			hdr = c20Mutate(r, hdr)
			kind = "damaged"
		}
		x := c20Ctx{is: g.is, method: method, uri: uri, user: user, pass: pass, body: []byte("body")}
		if r.Intn(10) == 0 {
			x.method = "TRACE"
		}
		good, why := c20Verify(c20IdH, x, hdr)
		s.Count(kind + ":" + strconv.FormatBool(good))
		if !good {
			s.Count("reject:" + strings.SplitN(why, ":", 2)[0])
		}
		uh := "0"
		if x.is.userhash {
			uh = "1"
		}
		line := fmt.Sprintf("c20verify %s %s %s %s %s %s %s %s %s %s %s %s", verifh.Hex(x.is.realm), verifh.Hex(x.is.nonce), c20Opt(x.is.opaque), c20Opt(x.is.algorithm),
			verifh.HexList(x.is.qops), uh, verifh.Hex(x.method), verifh.Hex(x.uri), verifh.Hex(x.user), verifh.Hex(x.pass), verifh.Hex(string(x.body)), verifh.Hex(hdr))
		s.Case(line, strconv.FormatBool(good), true, "", true, fmt.Sprintf("%s %q -> %v %s", kind, c20Clip(hdr), good, why))
	}
	s.Finish()
}

func c20Keys(m map[string]string) []string {
	var ks []string
	for k := range m {
		ks = append(ks, k)
	}
	sort.Strings(ks)
	return ks
}

// c20ReRender writes a parameter map back as a credential in another legal spelling.
func c20ReRender(r *rand.Rand, ps map[string]string) string {
	ks := c20Keys(ps)
	r.Shuffle(len(ks), func(i, j int) { ks[i], ks[j] = ks[j], ks[i] })
	var b strings.Builder
	b.WriteString([]string{"Digest ", "Digest ", "digest ", "DIGEST ", "Digest  "}[r.Intn(5)])
	for i, k := range ks {
		if i > 0 {
			b.WriteString([]string{", ", ",", " , ", ",\t", ", "}[r.Intn(5)])
		}
		name := k
		if r.Intn(8) == 0 {
			name = strings.ToUpper(k)
		}
		b.WriteString(name)
		b.WriteString([]string{"=", "=", "=", " = ", "= "}[r.Intn(5)])
		v := ps[k]
		if c20IsToken(v) && r.Intn(2) == 0 {
			b.WriteString(v)
		} else if r.Intn(6) == 0 && v != "" {
			// gratuitous quoted-pair
			b.WriteString(`"\` + v[:1] + strings.ReplaceAll(strings.ReplaceAll(v[1:], `\`, `\\`), `"`, `\"`) + `"`)
		} else {
			b.WriteString(c20Quote(v))
		}
	}
	return b.String()
}
