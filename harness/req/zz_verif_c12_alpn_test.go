//go:build verif

package req

// Lane c12alpn (loopback e2e, sequential, own origins): which ALPN protocol list does the
// client OFFER per mode, and what does the server's choice do to the version used?
// The origin captures every ClientHello (TCP and QUIC listeners). Compared with
// Dispatch.offered / Dispatch.route (driver lane c12alpn; theorems offered_alpn_matches_mode,
// negotiated_version_used).

import (
	"context"
	"crypto/tls"
	"fmt"
	"strings"
	"testing"
	"time"

	"github.com/imroc/req/v3/internal/verifh"
)

func TestVerif_C12_alpn(t *testing.T) {
	s := verifh.New(t, "C12", "c12alpn",
		"fresh client per case: mode {force h1, h2, h3, none, none+EnableHTTP3} x {plain request, websocket-upgrade request (un-forced / forced h1)} x client NextProtos {T()'s initial list, [h2 http/1.1], [http/1.1], [h2], [spdy/9 http/1.1], none} x origin {h1-only TLS, h2+h1, TLS without ALPN, h2+h1+h3, h1+h3}, the origin's certificate trusted; observable: the ALPN list of the first ClientHello the origin received and on which listener (TCP / QUIC), Response.Proto or the error kind; full product (quick: a forced HTTP/3 against an origin without QUIC listener only for two of the NextProtos sets)")
	pki := c12GetPKI()
	offers := []string{"h1", "h2h1", "noalpn", "all", "h1+h3"}
	origins := map[string]*c12Origin{}
	for _, n := range offers {
		o, err := c12StartOrigin(c12OfferTable[n])
		if err != nil {
			t.Fatalf("infrastructure: %v", err)
		}
		defer o.close()
		origins[n] = o
	}
	type mode struct {
		force   string
		h3on    bool
		upgrade bool
	}
	modes := []mode{{"-", false, false}, {"-", true, false}, {"-", false, true}, {"1", false, false}, {"1", false, true}, {"2", false, false}, {"3", false, false}}
	protoSets := []string{"init", "21", "1", "2", "x1", "-"}
	id := 0
	for _, m := range modes {
		for _, ps := range protoSets {
			for _, on := range offers {
				o := origins[on]
				if m.force == "3" && !o.offer.h3 && !(ps == "init" || ps == "-") && !verifh.Thorough() {
					continue // nobody answers: one deadline each is enough in the quick tier
				}
				id++
				c := C()
				protos := ps
				if ps == "init" {
					c.SetRootCertFromString(pki.cas[0].pem)
					protos = "12"
				} else {
					cfg := &tls.Config{RootCAs: pki.cas[0].pool()}
					if ps != "-" {
						cfg.NextProtos = c12AlpnFromChars(ps)
					}
					c.SetTLSClientConfig(cfg)
				}
				if m.h3on {
					c.EnableHTTP3()
				}
				c12ForceApply(c, m.force)
				timeout := 3 * time.Second
				if m.force == "3" && !o.offer.h3 {
					timeout = 300 * time.Millisecond
				}
				ctx, cancel := context.WithTimeout(context.Background(), timeout)
				before := len(o.hellosFrom(0))
				r := c.R().SetContext(ctx)
				if m.upgrade {
					r.SetHeader("Connection", "Upgrade").SetHeader("Upgrade", "websocket")
				}
				var resp *Response
				var err error
				ptxt, panicked := verifh.Safely(func() { resp, err = r.Get(o.url("https", fmt.Sprintf("/alpn%d", id))) })
				cancel()
				line := fmt.Sprintf("c12alpn %s %s %s %s %s %s", m.force, c12B(m.h3on), c12B(m.upgrade), protos, c12AlpnChars(o.offer.alpn), c12B(o.offer.h3))
				human := fmt.Sprintf("C() NextProtos=%s force=%s h3on=%v upgrade=%v ; first request to %s", ps, m.force, m.h3on, m.upgrade, o.offer)
				if panicked {
					s.Crash(line, human, ptxt, "")
					continue
				}
				route := ""
				switch {
				case err == nil:
					route = "ok:" + c12ProtoShort(resp.Proto)
				case c12ErrKind(err) == "tls":
					route = "err:tls"
				default:
					route = "err:other"
				}
				offer, quic := "none", "0"
				if m.force == "3" {
					quic = "1"
				}
				if hs := o.hellosFrom(before); len(hs) > 0 {
					offer = c12AlpnChars(hs[0].alpn)
					quic = c12B(hs[0].quic)
				}
				impl := fmt.Sprintf("offer=%s quic=%s route=%s", offer, quic, route)
				c12Count(s, "force="+m.force)
				c12Count(s, "offer="+offer)
				c12Count(s, "route="+route)
				// oracle (independent of the model): what the server selected is what carried the request
				ok := true
				if err == nil && resp.Header.Get("X-Origin-Proto") != resp.Proto {
					ok = false
					human += " ; ORACLE: Response.Proto differs from the protocol the origin served"
				}
				if err == nil && m.force != "-" && c12ProtoShort(resp.Proto) != "h"+m.force {
					ok = false
					human += " ; ORACLE: forced version not used"
				}
				s.Case(line, impl, ok, "", true, human)
				if tr := c.GetTransport(); tr != nil {
					tr.CloseIdleConnections()
					if tr.t3 != nil {
						tr.t3.Close()
					}
				}
			}
		}
	}
	for _, must := range []string{"force=-", "force=1", "force=2", "force=3", "offer=-", "offer=21", "offer=12", "offer=3", "offer=none", "route=ok:h1", "route=ok:h2", "route=ok:h3", "route=err:other"} {
		if c12Hist[s][must] == 0 {
			t.Errorf("never reached bucket %q", must)
		}
	}
	s.Finish()
}

// Lane c12alpnseq (loopback e2e, sequences): ONE family of clients (original and clones) lives
// through a sequence of SetTLSClientConfig(NextProtos …) / EnableForceHTTP1/2/3 /
// DisableForceHttpVersion / EnableHTTP3 / Clone / "continue with member k" and REQUESTS
// (plain or websocket-upgrade = HTTP/1.1 only). Before every request the member's idle
// connections are closed, so each request dials: the origin captures the ClientHello's ALPN
// list; the version is judged by what was actually negotiated. Compared with
// Req.Pool.Alpn.astep (driver lane c12alpnseq; theorems alpn_offer_pure,
// requests_leave_configuration, unforce_offers_configured_list): an offer is a function of
// the mode and the configured NextProtos at that moment; no connection changes what this or
// any related client is configured with (shared NextProtos backing arrays).
func TestVerif_C12_alpnseq(t *testing.T) {
	s := verifh.New(t, "C12", "c12alpnseq",
		"sequences of 5..11 ops on a family of clients starting from C(): SetTLSClientConfig with NextProtos {[h2 http/1.1], [http/1.1 h2], [http/1.1], [h2], [spdy/9 h2 http/1.1], none}, force h1/h2/h3, un-force, EnableHTTP3, Clone, switch to another member, request {plain, websocket upgrade}; every second sequence starts with a directed scheme (set list, [clone], force h1 / upgrade request, un-force or switch back to the relative, request); every request dials (idle connections closed first) against origin {h2+h1, h2+h1+h3, h1-only}; observable per request: ALPN list of the ClientHello at the origin, listener (TCP/QUIC), Response.Proto / error kind; oracle: forced version used, Response.Proto = protocol the origin served, un-forced request to an h2 origin with h2 configured is carried by HTTP/2; non-trivial = a request after a mode switch or on a relative of a client that made a request")
	r := s.Rand()
	pki := c12GetPKI()
	offers := []string{"h2h1", "all", "h1"}
	origins := map[string]*c12Origin{}
	for _, n := range offers {
		o, err := c12StartOrigin(c12OfferTable[n])
		if err != nil {
			t.Fatalf("infrastructure: %v", err)
		}
		defer o.close()
		origins[n] = o
	}
	protoSets := []string{"21", "21", "12", "1", "2", "x21", "-"}
	n := verifh.N(60, 1500)
	id := 0
	for i := 0; i < n; i++ {
		on := offers[r.Intn(len(offers))]
		o := origins[on]
		members := []*Client{C().SetRootCertFromString(pki.cas[0].pem)}
		cur := 0
		// model-side mirror of what is configured, for the oracle only
		type mstate struct {
			protos string
			force  string
		}
		ms := []mstate{{"12", "-"}}
		var plan []string
		if i%2 == 0 {
			plan = append(plan, "p:"+[]string{"21", "21", "x21"}[r.Intn(3)])
			relative := r.Intn(2) == 0
			if relative {
				plan = append(plan, "fork", "sw1")
			}
			if r.Intn(3) == 0 {
				plan = append(plan, "r1")
			} else {
				plan = append(plan, "f1", "r0")
				if !relative || r.Intn(2) == 0 {
					plan = append(plan, "uf")
				}
			}
			if relative {
				plan = append(plan, "sw0")
			}
			plan = append(plan, "r0")
			c12Count(s, "scheme:h1-only-connection-then-unforced")
		}
		nops := len(plan) + 3 + r.Intn(5)
		var toks, outs []string
		requests, switched, nontriv, okAll := 0, false, false, true
		human := "C()"
		crashed := ""
		for e := 0; e < nops && crashed == ""; e++ {
			tk := ""
			if e < len(plan) {
				tk = plan[e]
			} else {
				switch x := r.Intn(16); {
				case x < 3:
					ps := protoSets[r.Intn(len(protoSets))]
					tk = "p:" + ps
					if ps == "-" {
						tk = "pn"
					}
				case x < 8:
					tk = []string{"f1", "f1", "f2", "f3", "uf", "uf", "uf"}[r.Intn(7)]
				case x == 8:
					tk = "e3"
				case x == 9:
					tk = "fork"
				case x == 10:
					tk = fmt.Sprintf("sw%d", r.Intn(len(members)+1))
				default:
					tk = []string{"r0", "r0", "r0", "r1"}[r.Intn(4)]
				}
			}
			if e == nops-1 && requests == 0 {
				tk = "r0"
			}
			if tk == "r1" && (ms[cur].force == "2" || ms[cur].force == "3") {
				tk = "r0" // an upgrade request under a forced HTTP/2 / HTTP/3 is refused by that stack (Connection header): not modelled, as in lane c12alpn
			}
			c := members[cur]
			toks = append(toks, tk)
			human += " ; " + tk
			switch {
			case tk == "pn":
				c.SetTLSClientConfig(&tls.Config{RootCAs: pki.cas[0].pool()})
				ms[cur].protos = "-"
			case len(tk) > 2 && tk[:2] == "p:":
				c.SetTLSClientConfig(&tls.Config{RootCAs: pki.cas[0].pool(), NextProtos: c12AlpnFromChars(tk[2:])})
				ms[cur].protos = tk[2:]
			case tk == "uf":
				c12ForceApply(c, "-")
				ms[cur].force = "-"
				switched = true
			case tk == "f1" || tk == "f2" || tk == "f3":
				c12ForceApply(c, tk[1:])
				ms[cur].force = tk[1:]
				switched = true
			case tk == "e3":
				c.EnableHTTP3()
			case tk == "fork":
				members = append(members, c.Clone())
				ms = append(ms, ms[cur])
			case len(tk) > 2 && tk[:2] == "sw":
				var k int
				fmt.Sscanf(tk[2:], "%d", &k)
				if k < len(members) {
					cur = k
					if requests > 0 {
						switched = true
					}
				}
			default: // request
				id++
				requests++
				if switched {
					nontriv = true
				}
				if tr := c.GetTransport(); tr != nil {
					tr.CloseIdleConnections()
					if tr.t3 != nil {
						tr.t3.Close()
					}
				}
				timeout := 3 * time.Second
				if ms[cur].force == "3" && !o.offer.h3 {
					timeout = 300 * time.Millisecond
				}
				ctx, cancel := context.WithTimeout(context.Background(), timeout)
				before := len(o.hellosFrom(0))
				rq := c.R().SetContext(ctx)
				if tk == "r1" {
					rq.SetHeader("Connection", "Upgrade").SetHeader("Upgrade", "websocket")
				}
				var resp *Response
				var err error
				ptxt, panicked := verifh.Safely(func() { resp, err = rq.Get(o.url("https", fmt.Sprintf("/alpnseq%d", id))) })
				cancel()
				if panicked {
					crashed = ptxt
					break
				}
				route := "err:other"
				switch {
				case err == nil:
					route = "ok:" + c12ProtoShort(resp.Proto)
				case c12ErrKind(err) == "tls":
					route = "err:tls"
				}
				offer, quic := "none", "0"
				if ms[cur].force == "3" {
					quic = "1"
				}
				if hs := o.hellosFrom(before); len(hs) > 0 {
					offer = c12AlpnChars(hs[0].alpn)
					quic = c12B(hs[0].quic)
				}
				outs = append(outs, fmt.Sprintf("offer=%s;quic=%s;route=%s", offer, quic, route))
				c12Count(s, "route="+route)
				c12Count(s, "force="+ms[cur].force)
				if err == nil && resp.Header.Get("X-Origin-Proto") != resp.Proto {
					okAll = false
					human += " [ORACLE: Response.Proto differs from the protocol the origin served]"
				}
				if err == nil && ms[cur].force != "-" && c12ProtoShort(resp.Proto) != "h"+ms[cur].force {
					okAll = false
					human += " [ORACLE: forced version not used]"
				}
				// un-forced, plain request, h2 configured and the origin speaks h2: the server picks h2
				// (Go's server prefers its own order: h2 first) — the request must ride HTTP/2
				h2cfg := false
				for _, ch := range ms[cur].protos {
					if ch == '2' {
						h2cfg = true
					}
				}
				if ms[cur].force == "-" && tk == "r0" && h2cfg && len(o.offer.alpn) > 0 && o.offer.alpn[0] == "h2" {
					c12Count(s, "unforced-h2-expected")
					if switched {
						c12Count(s, "unforced-h2-expected-after-switch")
					}
					if err != nil || resp.Proto != "HTTP/2.0" {
						okAll = false
						human += " [ORACLE: h2 is configured and the origin negotiates it, yet the un-forced request was not carried by HTTP/2]"
					}
				}
			}
		}
		for _, c := range members {
			if tr := c.GetTransport(); tr != nil {
				tr.CloseIdleConnections()
				if tr.t3 != nil {
					tr.t3.Close()
				}
			}
		}
		line := fmt.Sprintf("c12alpnseq %s %s %s", c12AlpnChars(o.offer.alpn), c12B(o.offer.h3), strings.Join(toks, ","))
		human += " ; origin " + fmt.Sprint(o.offer)
		if crashed != "" {
			s.Crash(line, human, crashed, "")
			continue
		}
		impl := "-"
		if len(outs) > 0 {
			impl = strings.Join(outs, ",")
		}
		s.Case(line, impl, okAll, "", nontriv, human)
	}
	for _, must := range []string{"scheme:h1-only-connection-then-unforced", "route=ok:h1", "route=ok:h2", "route=ok:h3", "force=-", "force=1", "force=2", "force=3", "unforced-h2-expected", "unforced-h2-expected-after-switch"} {
		if c12Hist[s][must] == 0 {
			t.Errorf("never reached bucket %q", must)
		}
	}
	s.Finish()
}
