//go:build verif

package req

// Lane c12alpn (loopback e2e, sequential, own origins): which ALPN protocol list does the
// client OFFER per mode, and what does the server's choice do to the version used?
// The origin captures every ClientHello (TCP and QUIC listeners). Compared with
// Dispatch.offered / Dispatch.route (driver lane c12alpn; theorems offered_alpn_matches_mode,
// negotiated_version_used).

import (
	"context"
	"crypto/tls"
	"fmt"
	"testing"
	"time"

	"github.com/imroc/req/v3/internal/verifh"
)

func TestVerif_C12_alpn(t *testing.T) {
	s := verifh.New(t, "C12", "c12alpn",
		"fresh client per case: mode {force h1, h2, h3, none, none+EnableHTTP3} x {plain request, websocket-upgrade request (un-forced / forced h1)} x client NextProtos {T()'s initial list, [h2 http/1.1], [http/1.1], [h2], [spdy/9 http/1.1], none} x origin {h1-only TLS, h2+h1, TLS without ALPN, h2+h1+h3, h1+h3}, the origin's certificate trusted; observable: the ALPN list of the first ClientHello the origin received and on which listener (TCP / QUIC), Response.Proto or the error kind; full product (quick: a forced HTTP/3 against an origin without QUIC listener only for two of the NextProtos sets)")
	pki := c12GetPKI()
	offers := []string{"h1", "h2h1", "noalpn", "all", "h1+h3"}
	origins := map[string]*c12Origin{}
	for _, n := range offers {
		o, err := c12StartOrigin(c12OfferTable[n])
		if err != nil {
			t.Fatalf("infrastructure: %v", err)
		}
		defer o.close()
		origins[n] = o
	}
	type mode struct {
		force   string
		h3on    bool
		upgrade bool
	}
	modes := []mode{{"-", false, false}, {"-", true, false}, {"-", false, true}, {"1", false, false}, {"1", false, true}, {"2", false, false}, {"3", false, false}}
	protoSets := []string{"init", "21", "1", "2", "x1", "-"}
	id := 0
	for _, m := range modes {
		for _, ps := range protoSets {
			for _, on := range offers {
				o := origins[on]
				if m.force == "3" && !o.offer.h3 && !(ps == "init" || ps == "-") && !verifh.Thorough() {
					continue // nobody answers: one deadline each is enough in the quick tier
				}
				id++
				c := C()
				protos := ps
				if ps == "init" {
					c.SetRootCertFromString(pki.cas[0].pem)
					protos = "12"
				} else {
					cfg := &tls.Config{RootCAs: pki.cas[0].pool()}
					if ps != "-" {
						cfg.NextProtos = c12AlpnFromChars(ps)
					}
					c.SetTLSClientConfig(cfg)
				}
				if m.h3on {
					c.EnableHTTP3()
				}
				c12ForceApply(c, m.force)
				timeout := 3 * time.Second
				if m.force == "3" && !o.offer.h3 {
					timeout = 300 * time.Millisecond
				}
				ctx, cancel := context.WithTimeout(context.Background(), timeout)
				before := len(o.hellosFrom(0))
				r := c.R().SetContext(ctx)
				if m.upgrade {
					r.SetHeader("Connection", "Upgrade").SetHeader("Upgrade", "websocket")
				}
				var resp *Response
				var err error
				ptxt, panicked := verifh.Safely(func() { resp, err = r.Get(o.url("https", fmt.Sprintf("/alpn%d", id))) })
				cancel()
				line := fmt.Sprintf("c12alpn %s %s %s %s %s %s", m.force, c12B(m.h3on), c12B(m.upgrade), protos, c12AlpnChars(o.offer.alpn), c12B(o.offer.h3))
				human := fmt.Sprintf("C() NextProtos=%s force=%s h3on=%v upgrade=%v ; first request to %s", ps, m.force, m.h3on, m.upgrade, o.offer)
				if panicked {
					s.Crash(line, human, ptxt, "")
					continue
				}
				route := ""
				switch {
				case err == nil:
					route = "ok:" + c12ProtoShort(resp.Proto)
				case c12ErrKind(err) == "tls":
					route = "err:tls"
				default:
					route = "err:other"
				}
				offer, quic := "none", "0"
				if m.force == "3" {
					quic = "1"
				}
				if hs := o.hellosFrom(before); len(hs) > 0 {
					offer = c12AlpnChars(hs[0].alpn)
					quic = c12B(hs[0].quic)
				}
				impl := fmt.Sprintf("offer=%s quic=%s route=%s", offer, quic, route)
				c12Count(s, "force="+m.force)
				c12Count(s, "offer="+offer)
				c12Count(s, "route="+route)
				// oracle (independent of the model): what the server selected is what carried the request
				ok := true
				if err == nil && resp.Header.Get("X-Origin-Proto") != resp.Proto {
					ok = false
					human += " ; ORACLE: Response.Proto differs from the protocol the origin served"
				}
				if err == nil && m.force != "-" && c12ProtoShort(resp.Proto) != "h"+m.force {
					ok = false
					human += " ; ORACLE: forced version not used"
				}
				s.Case(line, impl, ok, "", true, human)
				if tr := c.GetTransport(); tr != nil {
					tr.CloseIdleConnections()
					if tr.t3 != nil {
						tr.t3.Close()
					}
				}
			}
		}
	}
	for _, must := range []string{"force=-", "force=1", "force=2", "force=3", "offer=-", "offer=21", "offer=12", "offer=3", "offer=none", "route=ok:h1", "route=ok:h2", "route=ok:h3", "route=err:other"} {
		if c12Hist[s][must] == 0 {
			t.Errorf("never reached bucket %q", must)
		}
	}
	s.Finish()
}
