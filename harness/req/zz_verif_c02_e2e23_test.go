//go:build verif

package req

import (
	"crypto/tls"
	"fmt"
	"net"
	"net/http"
	"net/http/httptest"
	"reflect"
	"strconv"
	"strings"
	"sync"
	"testing"
	"time"

	"github.com/imroc/req/v3/http2"
	"github.com/imroc/req/v3/internal/http3"
	"github.com/imroc/req/v3/internal/verifh"
	qhttp3 "github.com/quic-go/quic-go/http3"
)

// ---------------------------------------------------------------------------------------
// C02 end-to-end lanes over HTTP/2 (Go's net/http server, TLS + h2) and HTTP/3 (quic-go
// http3.Server on loopback UDP). One scripted handler serves both.
// ---------------------------------------------------------------------------------------

type c02Origin struct {
	mu    sync.Mutex
	cases map[string]*c02Spec
}

func (o *c02Origin) put(path string, sp *c02Spec) {
	o.mu.Lock()
	o.cases[path] = sp
	o.mu.Unlock()
}

func (o *c02Origin) del(path string) {
	o.mu.Lock()
	delete(o.cases, path)
	o.mu.Unlock()
}

func (o *c02Origin) ServeHTTP(w http.ResponseWriter, r *http.Request) {
	o.mu.Lock()
	sp := o.cases[r.URL.Path]
	o.mu.Unlock()
	if sp == nil {
		w.WriteHeader(599)
		return
	}
	h := w.Header()
	for _, in := range sp.interim {
		for _, f := range in.fields {
			h.Add(f.k, f.v)
		}
		w.WriteHeader(in.status)
		for _, f := range in.fields {
			h.Del(f.k)
		}
	}
	hasCT := false
	for _, f := range sp.fields {
		h.Add(f.k, f.v)
		if strings.EqualFold(f.k, "Content-Type") {
			hasCT = true
		}
	}
	if !hasCT {
		h["Content-Type"] = nil // no sniffing
	}
	if sp.declared {
		h.Set("Content-Length", strconv.Itoa(len(sp.body)))
	}
	if len(sp.trailers) > 0 && len(sp.body)%2 == 0 {
		var ks []string
		for _, t := range sp.trailers {
			ks = append(ks, t.k)
		}
		h.Set("Trailer", strings.Join(ks, ", "))
	}
	w.WriteHeader(sp.status)
	if !sp.bodyAllowed() {
		return
	}
	fl, _ := w.(http.Flusher)
	for _, c := range sp.writes {
		if _, err := w.Write([]byte(c)); err != nil {
			return
		}
		if fl != nil {
			fl.Flush()
		}
	}
	for _, t := range sp.trailers {
		h.Add(http.TrailerPrefix+t.k, t.v)
	}
}

// c02DeclaredTrailers (round 5): HTTP/2 and HTTP/3 origins may send a trailer section after a
// body whose length was declared (HTTP/1.1 cannot: trailers need chunked framing). Completes the
// matrix declared length x trailers on the end-to-end lanes of these two protocols.
func c02DeclaredTrailers(s *verifh.Session, sp *c02Spec) {
	r := s.Rand()
	if !sp.declared || len(sp.trailers) > 0 || r.Intn(3) != 0 {
		return
	}
	for i := 1 + r.Intn(2); i > 0; i-- {
		k := verifh.Pick(r, []string{"X-T", "X-Trail-Sum", "Grpc-Status"})
		sp.trailers = append(sp.trailers, c02Field{k, strings.Trim(verifh.RandBytes(r, 1+r.Intn(12), "abcXYZ019-_=;,/"), " ")})
	}
}

func c02NewOrigin() *c02Origin { return &c02Origin{cases: map[string]*c02Spec{}} }

func TestVerif_C02_e2eh2(t *testing.T) {
	s := verifh.New(t, "C02", "e2eh2",
		"real client (EnableForceHTTP2, default 4 MiB stream window or advertised INITIAL_WINDOW_SIZE 65535 so that 1 MiB bodies span many windows; some clients advertise a small SETTINGS_MAX_HEADER_LIST_SIZE and now and then an EARLIER response on the same connection is refused for its header list or abandoned by the caller after one byte) <-> Go net/http server over TLS+h2 on loopback running a scripted handler: 0..3 interim 1xx, final status, GET/HEAD, X- fields + Content-Type, declared Content-Length or not, trailers (declared via Trailer or only sent), body written in generated DATA-sized pieces with Flush; body lengths {0,1,2,100,4095..4097,16383..16385,65535..65537,random,1 MiB+-1}; modes as e2eh1; oracle = origin's spec; non-trivial = non-empty delivered body")
	r := s.Rand()
	origin := c02NewOrigin()
	srv := httptest.NewUnstartedServer(origin)
	srv.EnableHTTP2 = true
	srv.StartTLS()
	defer func() {
		// Server.Close waits for running handlers; a client that stopped reading (broken
		// transport) would keep one blocked forever
		done := make(chan struct{})
		go func() {
			srv.CloseClientConnections()
			srv.Close()
			close(done)
		}()
		select {
		case <-done:
		case <-time.After(5 * time.Second):
		}
	}()
	dir := t.TempDir()
	n := verifh.N(220, 2500)
	var cl *Client
	small := false
	hdrLimit := 0
	fails := 0
	for c := 0; c < n && fails < 8; c++ { // a broken transport fails (and may stall) every case: stop early
		if cl == nil || r.Intn(15) == 0 {
			if cl != nil {
				cl.GetTransport().CloseIdleConnections()
			}
			cl = C().SetTimeout(10 * time.Second).EnableInsecureSkipVerify().EnableForceHTTP2()
			small = r.Intn(2) == 0
			if small {
				cl.SetHTTP2SettingsFrame(http2.Setting{ID: http2.SettingEnablePush, Val: 0}, http2.Setting{ID: http2.SettingInitialWindowSize, Val: 65535})
			}
			if r.Intn(3) == 0 {
				cl.GetTransport().DisableAutoDecode()
			}
			// a small advertised SETTINGS_MAX_HEADER_LIST_SIZE: lets an earlier response on
			// the connection be refused for its header list
			hdrLimit = 0
			if r.Intn(3) == 0 {
				hdrLimit = verifh.Pick(r, []int{4096, 6000})
				cl.GetTransport().SetHTTP2MaxHeaderListSize(uint32(hdrLimit))
			}
		}
		if k := c02Earlier(s, cl, origin.put, origin.del, srv.URL, c, hdrLimit); k != "" {
			s.Count("earlier:" + k)
		}
		sp := c02GenSpec(s, false, true)
		c02DeclaredTrailers(s, sp)
		if hdrLimit > 0 {
			c02ClampFields(sp)
		}
		mode := c02GenMode(s)
		path := "/c" + strconv.Itoa(c)
		origin.put(path, sp)
		var view string
		extraOK := true
		ptxt, panicked := verifh.Safely(func() {
			view, extraOK = c02Fetch(cl, sp, mode, srv.URL+path, dir, c)
		})
		origin.del(path)
		human := fmt.Sprintf("h2 win65535=%v head=%v interim=%d status=%d fields=%d body=%d declared=%v trailers=%d writes=%d mode=%s/%d", small, sp.head, len(sp.interim), sp.status, len(sp.fields), len(sp.body), sp.declared, len(sp.trailers), len(sp.writes), mode.name, mode.k)
		if panicked {
			s.Crash(human, human, ptxt, "")
			continue
		}
		want := sp.expectedView(true)
		ok := view == want && extraOK
		c02CountSpec(s, sp, mode)
		if small && len(sp.body) > 65535 {
			s.Count("body>window")
		}
		class := ""
		if !sp.head && (sp.status == 204 || sp.status == 304) && sp.declared && len(sp.body) > 0 && len(sp.trailers) > 0 {
			// finding C02-3: the handler announced trailers, so Go's h2 server leaves the
			// stream open after HEADERS and ends it with a second HEADERS frame; the client
			// applies the Content-Length accounting to a status that never has a body
			class = "h2-nobody-status-length-accounting"
			s.Count("204/304+content-length+trailers-announced")
		} else if !sp.head && (sp.status == 204 || sp.status == 304) && sp.declared && len(sp.body) > 0 {
			// finding C02-1: a 204/304 response that carries a Content-Length (allowed for
			// 304, RFC 9110 8.6) and END_STREAM on HEADERS gets http2's missingBody: every
			// read fails with io.ErrUnexpectedEOF, auto-read fails the whole request
			class = "h2-nobody-status-content-length"
			s.Count("204/304+content-length")
		}
		if !ok && class == "" {
			fails++
		}
		detail := "got  " + c02Short(view) + "\nwant " + c02Short(want)
		s.Observe(human+" #"+strconv.Itoa(c), ok, class, sp.bodyAllowed() && len(sp.body) > 0, human, detail)
	}
	if cl != nil && fails < 8 {
		cl.GetTransport().CloseIdleConnections()
	}
	s.Finish()
}

func c02Short(v string) string {
	if len(v) > 400 {
		return v[:400] + "…(" + strconv.Itoa(len(v)) + ")"
	}
	return v
}

func c02CountSpec(s *verifh.Session, sp *c02Spec, mode c02Mode) {
	s.Count("mode:" + mode.name)
	if sp.head {
		s.Count("HEAD")
	}
	if len(sp.interim) > 0 {
		s.Count("interim-1xx")
	}
	if sp.status == 204 || sp.status == 304 {
		s.Count("status-204/304")
	}
	if len(sp.trailers) > 0 && sp.bodyAllowed() && sp.declared {
		s.Count("trailers-after-declared-length")
	}
	if len(sp.trailers) > 0 && sp.bodyAllowed() {
		s.Count("trailers")
	}
	if sp.declared {
		s.Count("declared-length")
	} else {
		s.Count("undeclared-length")
	}
	if len(sp.body) >= 1<<20-1 {
		s.Count("body>=1MiB")
	}
}

// c02H3 returns the client's HTTP/3 round tripper (nil when HTTP/3 is not enabled), found by its
// TYPE among the Transport's fields, not by the field's name.
func c02H3(cl *Client) *http3.RoundTripper {
	f, ok := c02FieldOfType(cl.GetTransport(), reflect.TypeOf((*http3.RoundTripper)(nil)))
	if !ok {
		return nil
	}
	rt, _ := f.Interface().(*http3.RoundTripper)
	return rt
}

func TestVerif_C02_e2eh3(t *testing.T) {
	s := verifh.New(t, "C02", "e2eh3",
		"real client (EnableForceHTTP3; default options, and with EnableAutoDecompress as a separate class) <-> quic-go http3.Server on loopback UDP running the same scripted handler as e2eh2 (interim 1xx, statuses, HEAD, fields, declared/undeclared length, trailers, generated write sizes, body lengths up to 1 MiB+-1); modes as e2eh1; oracle = origin's spec; non-trivial = non-empty delivered body")
	r := s.Rand()
	origin := c02NewOrigin()
	// certificate: borrow the one httptest generates
	ts := httptest.NewUnstartedServer(nil)
	ts.StartTLS()
	cert := ts.TLS.Certificates[0]
	ts.Close()
	udp, err := net.ListenPacket("udp", "127.0.0.1:0")
	if err != nil {
		t.Fatalf("listen udp: %v", err)
	}
	srv := &qhttp3.Server{
		Handler:   origin,
		TLSConfig: qhttp3.ConfigureTLSConfig(&tls.Config{Certificates: []tls.Certificate{cert}}),
	}
	go srv.Serve(udp)
	defer func() {
		done := make(chan struct{})
		go func() {
			srv.Close()
			close(done)
		}()
		select {
		case <-done:
		case <-time.After(5 * time.Second):
		}
	}()
	base := "https://" + udp.LocalAddr().String()
	dir := t.TempDir()
	n := verifh.N(160, 2000)
	var cl *Client
	autoDecomp := false
	fails := 0
	for c := 0; c < n && fails < 8; c++ {
		if cl == nil || r.Intn(20) == 0 {
			if cl != nil {
				cl.GetTransport().CloseIdleConnections()
				if t3 := c02H3(cl); t3 != nil {
					t3.Close()
				}
			}
			cl = C().SetTimeout(10 * time.Second).EnableInsecureSkipVerify()
			cl.EnableForceHTTP3()
			if c02H3(cl) == nil {
				t.Fatalf("HTTP/3 not enabled (needs go1.22/1.23)")
			}
			autoDecomp = r.Intn(6) == 0
			if autoDecomp {
				cl.EnableAutoDecompress()
			}
			if r.Intn(3) == 0 {
				cl.GetTransport().DisableAutoDecode()
			}
		}
		if k := c02Earlier(s, cl, origin.put, origin.del, base, c, 0); k != "" {
			s.Count("earlier:" + k)
		}
		sp := c02GenSpec(s, false, true)
		c02DeclaredTrailers(s, sp)
		mode := c02GenMode(s)
		path := "/c" + strconv.Itoa(c)
		origin.put(path, sp)
		var view string
		extraOK := true
		ptxt, panicked := verifh.Safely(func() {
			view, extraOK = c02Fetch(cl, sp, mode, base+path, dir, c)
		})
		origin.del(path)
		human := fmt.Sprintf("h3 autodecompress=%v head=%v interim=%d status=%d fields=%d body=%d declared=%v trailers=%d writes=%d mode=%s/%d", autoDecomp, sp.head, len(sp.interim), sp.status, len(sp.fields), len(sp.body), sp.declared, len(sp.trailers), len(sp.writes), mode.name, mode.k)
		class := ""
		if autoDecomp {
			// DESIGN §5 row 10: with AutoDecompress the HTTP/3 ReadResponse never assigns
			// s.responseBody -> nil Body for every response
			class = "h3-autodecompress-nil-body"
			s.Count("client:autodecompress")
		}
		if panicked {
			s.Crash(human, human, ptxt, class)
			continue
		}
		want := sp.expectedView(true)
		ok := view == want && extraOK
		if !ok && class == "" {
			fails++
		}
		c02CountSpec(s, sp, mode)
		detail := "got  " + c02Short(view) + "\nwant " + c02Short(want)
		s.Observe(human+" #"+strconv.Itoa(c), ok, class, sp.bodyAllowed() && len(sp.body) > 0, human, detail)
	}
	if cl != nil {
		if t3 := c02H3(cl); t3 != nil {
			t3.Close()
		}
	}
	s.Finish()
}
