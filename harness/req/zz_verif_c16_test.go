//go:build verif

package req

import (
	"net/textproto"
	"strconv"
	"strings"
	"testing"

	"github.com/imroc/req/v3/internal/header"
	"github.com/imroc/req/v3/internal/verifh"
)

// c16Canon: header names are case-insensitive (canonical MIME form); so are pseudo header names,
// which the MIME canonicaliser leaves untouched because ':' is not a token byte.
func c16Canon(k string) string {
	if strings.HasPrefix(k, ":") {
		return strings.ToLower(k)
	}
	return textproto.CanonicalMIMEHeaderKey(k)
}

// c16Index is the oracle's own reading of "position in the order list" (last occurrence,
// case-insensitive), written independently of sort.go.
func c16Index(order []string, key string) int {
	ck := c16Canon(key)
	idx := -1
	for i, o := range order {
		if c16Canon(o) == ck {
			idx = i
		}
	}
	return idx
}

// TestVerif_C16_sort: real header.SortKeyValues vs the Lean model (insertion sort with the
// positional comparator), plus the property oracle: output is a permutation of the input and
// the listed keys appear in list order.
func TestVerif_C16_sort(t *testing.T) {
	s := verifh.New(t, "C16", "sort",
		"random key/value lists of 0..60 entries (names differing only in case, repeated names, random initial order) x order lists (subset, superset, permuted, duplicated, other case); non-trivial = at least 2 listed and 1 unlisted key present; distinct by case line")
	s.OracleIndependent = true // the relative order of unlisted keys is not fixed by the property
	r := s.Rand()
	pool := []string{"Accept", "accept", "ACCEPT", "User-Agent", "user-agent", "Host", "Cookie", "X-A", "X-B", "x-b", "X-C", "X-D", "X-E", "X-F", "X-G", "X-H", "X-I", "X-J", "X-K", "X-L", "X-M", "X-N", "X-O", "X-P", "X-Q", "X-R", "Content-Type", "content-length", "Referer", "Origin", "a b", "Ünï", "x_y", "Z", ":method", ":path", ":scheme", ":authority", ":Path", ":METHOD"}
	n := verifh.N(4000, 200000)
	for c := 0; c < n; c++ {
		var size int
		switch r.Intn(6) {
		case 0:
			size = r.Intn(4)
		case 1:
			size = 10 + r.Intn(6) // around the 12-element switch of sort.Sort
		default:
			size = r.Intn(61)
		}
		keys := make([]string, size)
		for i := range keys {
			if r.Intn(8) == 0 {
				keys[i] = "K" + strconv.Itoa(r.Intn(40))
			} else {
				keys[i] = verifh.Pick(r, pool)
			}
		}
		var order []string
		switch r.Intn(5) {
		case 0: // subset of present keys
			for _, k := range keys {
				if r.Intn(3) == 0 {
					order = append(order, k)
				}
			}
			r.Shuffle(len(order), func(i, j int) { order[i], order[j] = order[j], order[i] })
		case 1: // superset incl. absent keys
			for _, k := range keys {
				if r.Intn(2) == 0 {
					order = append(order, k)
				}
			}
			for i := 0; i < 5; i++ {
				order = append(order, "Absent-"+strconv.Itoa(i))
			}
			r.Shuffle(len(order), func(i, j int) { order[i], order[j] = order[j], order[i] })
		case 2: // other case
			for _, k := range keys {
				if r.Intn(2) == 0 {
					order = append(order, strings.ToLower(k))
				}
			}
		case 3: // duplicates
			for i := 0; i < r.Intn(12); i++ {
				if len(keys) > 0 {
					order = append(order, verifh.Pick(r, keys))
				}
			}
			order = append(order, order...)
		default:
			for i := 0; i < r.Intn(10); i++ {
				order = append(order, verifh.Pick(r, pool))
			}
		}
		kvs := make([]header.KeyValues, size)
		for i, k := range keys {
			kvs[i] = header.KeyValues{Key: k, Values: []string{strconv.Itoa(i)}}
		}
		header.SortKeyValues(kvs, order)
		outKeys := make([]string, size)
		outTags := make([]string, size)
		for i, kv := range kvs {
			outKeys[i] = kv.Key
			if len(kv.Values) == 1 {
				outTags[i] = kv.Values[0]
			} else {
				outTags[i] = "?"
			}
		}
		// property oracle
		ok := true
		seen := make([]bool, size)
		for i, tg := range outTags {
			j, err := strconv.Atoi(tg)
			if err != nil || j < 0 || j >= size || seen[j] || keys[j] != outKeys[i] {
				ok = false
				break
			}
			seen[j] = true
		}
		last, listed, unlisted := -1, 0, 0
		for _, k := range outKeys {
			ix := c16Index(order, k)
			if ix < 0 {
				unlisted++
				continue
			}
			listed++
			if ix < last {
				ok = false
			}
			last = ix
		}
		switch {
		case size <= 12:
			s.Count("n<=12")
		default:
			s.Count("n>12")
		}
		if listed >= 2 && unlisted >= 1 {
			s.Count("mixed")
		}
		// known finding C16-2: pseudo header names are compared case-sensitively (the order list
		// is documented case-insensitive); input class = a ':' name that is not lower case
		class := ""
		for _, k := range append(append([]string(nil), keys...), order...) {
			if strings.HasPrefix(k, ":") && k != strings.ToLower(k) {
				class = "pseudo-order-case"
			}
		}
		s.Case("sort "+verifh.HexList(keys)+" "+verifh.HexList(order),
			verifh.HexList(outKeys)+" "+verifh.HexList(outTags), ok, class,
			listed >= 2 && unlisted >= 1,
			"keys="+strings.Join(keys, ",")+" order="+strings.Join(order, ",")+" -> "+strings.Join(outKeys, ","))
	}
	s.Finish()
}
