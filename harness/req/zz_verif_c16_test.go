//go:build verif

package req

import (
	"net/textproto"
	"strconv"
	"strings"
	"testing"

	"github.com/imroc/req/v3/internal/header"
	"github.com/imroc/req/v3/internal/verifh"
)

// c16Canon: header names are case-insensitive (canonical MIME form); so are pseudo header names,
// which the MIME canonicaliser leaves untouched because ':' is not a token byte.
func c16Canon(k string) string {
	if strings.HasPrefix(k, ":") {
		return strings.ToLower(k)
	}
	return textproto.CanonicalMIMEHeaderKey(k)
}

// c16Index is the oracle's own reading of "position in the order list" (last occurrence,
// case-insensitive), written independently of sort.go.
func c16Index(order []string, key string) int {
	ck := c16Canon(key)
	idx := -1
	for i, o := range order {
		if c16Canon(o) == ck {
			idx = i
		}
	}
	return idx
}

// TestVerif_C16_sort: real header.SortKeyValues vs the Lean model (insertion sort with the
// positional comparator), plus the property oracle: output is a permutation of the input and
// the listed keys appear in list order.
func TestVerif_C16_sort(t *testing.T) {
	s := verifh.New(t, "C16", "sort",
		"random key/value lists of 0..60 entries (names differing only in case, repeated names, random initial order) x order lists (subset, superset, permuted, duplicated, other case, overlapping runs with re-cased repeats as repeated SetHeaderOrder calls produce them); non-trivial = at least 2 listed and 1 unlisted key present; distinct by case line")
	s.OracleIndependent = true // the relative order of unlisted keys is not fixed by the property
	r := s.Rand()
	pool := []string{"Accept", "accept", "ACCEPT", "User-Agent", "user-agent", "Host", "Cookie", "X-A", "X-B", "x-b", "X-C", "X-D", "X-E", "X-F", "X-G", "X-H", "X-I", "X-J", "X-K", "X-L", "X-M", "X-N", "X-O", "X-P", "X-Q", "X-R", "Content-Type", "content-length", "Referer", "Origin", "a b", "Ünï", "x_y", "Z", ":method", ":path", ":scheme", ":authority", ":Path", ":METHOD"}
	n := verifh.N(4000, 200000)
	for c := 0; c < n; c++ {
		var size int
		switch r.Intn(6) {
		case 0:
			size = r.Intn(4)
		case 1:
			size = 10 + r.Intn(6) // around the 12-element switch of sort.Sort
		default:
			size = r.Intn(61)
		}
		keys := make([]string, size)
		for i := range keys {
			if r.Intn(8) == 0 {
				keys[i] = "K" + strconv.Itoa(r.Intn(40))
			} else {
				keys[i] = verifh.Pick(r, pool)
			}
		}
		var order []string
		switch r.Intn(6) {
		case 5: // overlapping / repeated setter calls: duplicates in several letter cases
			order = c16GenOrderWithDuplicates(r, keys)
		case 0: // subset of present keys
			for _, k := range keys {
				if r.Intn(3) == 0 {
					order = append(order, k)
				}
			}
			r.Shuffle(len(order), func(i, j int) { order[i], order[j] = order[j], order[i] })
		case 1: // superset incl. absent keys
			for _, k := range keys {
				if r.Intn(2) == 0 {
					order = append(order, k)
				}
			}
			for i := 0; i < 5; i++ {
				order = append(order, "Absent-"+strconv.Itoa(i))
			}
			r.Shuffle(len(order), func(i, j int) { order[i], order[j] = order[j], order[i] })
		case 2: // other case
			for _, k := range keys {
				if r.Intn(2) == 0 {
					order = append(order, strings.ToLower(k))
				}
			}
		case 3: // duplicates
			for i := 0; i < r.Intn(12); i++ {
				if len(keys) > 0 {
					order = append(order, verifh.Pick(r, keys))
				}
			}
			order = append(order, order...)
		default:
			for i := 0; i < r.Intn(10); i++ {
				order = append(order, verifh.Pick(r, pool))
			}
		}
		kvs := make([]header.KeyValues, size)
		for i, k := range keys {
			kvs[i] = header.KeyValues{Key: k, Values: []string{strconv.Itoa(i)}}
		}
		header.SortKeyValues(kvs, order)
		outKeys := make([]string, size)
		outTags := make([]string, size)
		for i, kv := range kvs {
			outKeys[i] = kv.Key
			if len(kv.Values) == 1 {
				outTags[i] = kv.Values[0]
			} else {
				outTags[i] = "?"
			}
		}
		// property oracle
		ok := true
		seen := make([]bool, size)
		for i, tg := range outTags {
			j, err := strconv.Atoi(tg)
			if err != nil || j < 0 || j >= size || seen[j] || keys[j] != outKeys[i] {
				ok = false
				break
			}
			seen[j] = true
		}
		last, listed, unlisted := -1, 0, 0
		for _, k := range outKeys {
			ix := c16Index(order, k)
			if ix < 0 {
				unlisted++
				continue
			}
			listed++
			if ix < last {
				ok = false
			}
			last = ix
		}
		switch {
		case size <= 12:
			s.Count("n<=12")
		default:
			s.Count("n>12")
		}
		if listed >= 2 && unlisted >= 1 {
			s.Count("mixed")
		}
		// known finding C16-2: pseudo header names are compared case-sensitively (the order list
		// is documented case-insensitive); input class = a ':' name that is not lower case
		class := ""
		for _, k := range append(append([]string(nil), keys...), order...) {
			if strings.HasPrefix(k, ":") && k != strings.ToLower(k) {
				class = "pseudo-order-case"
			}
		}
		s.Case("sort "+verifh.HexList(keys)+" "+verifh.HexList(order),
			verifh.HexList(outKeys)+" "+verifh.HexList(outTags), ok, class,
			listed >= 2 && unlisted >= 1,
			"keys="+strings.Join(keys, ",")+" order="+strings.Join(order, ",")+" -> "+strings.Join(outKeys, ","))
	}
	s.Finish()
}

// c16DedupLast: the duplicate-free reading of an order list (the last occurrence of each name, compared
// case-insensitively, is the one that counts), written independently of sort.go and of the model.
func c16DedupLast(order []string) []string {
	var out []string
	for i, o := range order {
		again := false
		for _, p := range order[i+1:] {
			if c16Canon(p) == c16Canon(o) {
				again = true
			}
		}
		if !again {
			out = append(out, o)
		}
	}
	return out
}

// c16GenOrderWithDuplicates: order lists as repeated / overlapping setter calls produce them
// (Request.SetHeaderOrder appends): two or three runs over the present keys that overlap, entries
// repeated in another letter case, one name three times, absent names in between.
func c16GenOrderWithDuplicates(r interface{ Intn(int) int }, keys []string) []string {
	var order []string
	if len(keys) == 0 {
		keys = []string{"X-A", "x-b"}
	}
	recase := func(k string) string {
		switch r.Intn(4) {
		case 0:
			return strings.ToLower(k)
		case 1:
			return strings.ToUpper(k)
		case 2:
			return c16Canon(k)
		}
		return k
	}
	for call, calls := 0, 2+r.Intn(2); call < calls; call++ {
		at := r.Intn(len(keys))
		for j, n := 0, 1+r.Intn(6); j < n; j++ {
			order = append(order, recase(keys[(at+j)%len(keys)]))
		}
		if r.Intn(3) == 0 {
			order = append(order, "Absent-"+strconv.Itoa(call))
		}
	}
	if r.Intn(3) == 0 {
		k := keys[r.Intn(len(keys))]
		order = append(order, k, strings.ToLower(k), strings.ToUpper(k))
	}
	return order
}

// TestVerif_C16_sortlisted: the real header.SortKeyValues against the SPECIFICATION of what it does
// to the listed fields (Lean: HeaderSortSpec.listedSorted / dedupLast; theorems
// sort_listed_subsequence, sort_order_list_dedup_irrelevant) on order lists with duplicates.
func TestVerif_C16_sortlisted(t *testing.T) {
	s := verifh.New(t, "C16", "sortlisted",
		"key/value lists of 0..60 entries (names differing only in case, repeated names, pseudo names, random initial order) x order lists WITH DUPLICATES as overlapping setter calls produce them (2..3 overlapping runs over the present keys, entries re-cased lower / upper / canonical, one name three times, absent names in between) and the lists of lane sort; the real SortKeyValues runs with the list as given AND with its duplicate-free reading (last occurrence of each name, computed by the harness); compared with the model: the listed keys in output order with their input-position tags = the specification's stable sort of the listed inputs, the duplicate-free list = dedupLast, the listed tags under the duplicate-free list; oracle: output is a permutation (every input position exactly once — nothing written twice, nothing dropped), listed keys in list order, the duplicate-free list gives the same listed sequence; non-trivial = a name is listed more than once and present")
	r := s.Rand()
	pool := []string{"Accept", "accept", "ACCEPT", "User-Agent", "Host", "Cookie", "X-A", "X-B", "x-b", "X-C", "X-D", "X-E", "X-F", "X-G", "X-H", "X-I", "X-J", "X-K", "Content-Type", "content-length", "Referer", "x_y", "__t", "__header_order", ":method", ":path", ":scheme", ":authority"}
	n := verifh.N(3000, 100000)
	for c := 0; c < n; c++ {
		size := r.Intn(61)
		if r.Intn(4) == 0 {
			size = r.Intn(6)
		}
		keys := make([]string, size)
		for i := range keys {
			if r.Intn(8) == 0 {
				keys[i] = "K" + strconv.Itoa(r.Intn(40))
			} else {
				keys[i] = verifh.Pick(r, pool)
			}
		}
		var order []string
		if r.Intn(5) == 0 {
			for i := 0; i < r.Intn(10); i++ {
				order = append(order, verifh.Pick(r, pool))
			}
		} else {
			order = c16GenOrderWithDuplicates(r, keys)
		}
		dd := c16DedupLast(order)
		run := func(ord []string) (outKeys, outTags []string) {
			kvs := make([]header.KeyValues, size)
			for i, k := range keys {
				kvs[i] = header.KeyValues{Key: k, Values: []string{strconv.Itoa(i)}}
			}
			header.SortKeyValues(kvs, ord)
			for _, kv := range kvs {
				outKeys = append(outKeys, kv.Key)
				if len(kv.Values) == 1 {
					outTags = append(outTags, kv.Values[0])
				} else {
					outTags = append(outTags, "?")
				}
			}
			return
		}
		k1, t1 := run(order)
		k2, t2 := run(dd)
		ok := true
		why := ""
		listedOf := func(ks, ts []string, ord []string) (lk, lt []string) {
			seen := make([]bool, size)
			last := -1
			for i, k := range ks {
				j, err := strconv.Atoi(ts[i])
				if err != nil || j < 0 || j >= size || seen[j] || keys[j] != k {
					ok, why = false, "output is not a permutation of the input: "+k+" (tag "+ts[i]+")"
					continue
				}
				seen[j] = true
				ix := c16Index(ord, k)
				if ix < 0 {
					continue
				}
				if ix < last {
					ok, why = false, "listed key out of order: "+k
				}
				last = ix
				lk = append(lk, k)
				lt = append(lt, ts[i])
			}
			return
		}
		lk1, lt1 := listedOf(k1, t1, order)
		_, lt2 := listedOf(k2, t2, dd)
		if strings.Join(lt1, ",") != strings.Join(lt2, ",") {
			ok, why = false, "the duplicate-free list orders the listed fields differently"
		}
		nontriv := len(dd) < len(order) && len(lk1) > 0
		if nontriv {
			s.Count("duplicates-listed-present")
		}
		if size > 12 {
			s.Count("n>12")
		}
		class := ""
		for _, k := range append(append([]string(nil), keys...), order...) {
			if strings.HasPrefix(k, ":") && k != strings.ToLower(k) {
				class = "pseudo-order-case"
			}
		}
		human := "keys=" + strings.Join(keys, ",") + " order=" + strings.Join(order, ",") + " -> " + strings.Join(k1, ",")
		if !ok {
			human += " ORACLE: " + why
		}
		s.Case("c16listed "+verifh.HexList(keys)+" "+verifh.HexList(order),
			verifh.HexList(lk1)+" "+verifh.HexList(lt1)+" "+verifh.HexList(dd)+" "+verifh.HexList(lt2), ok, class, nontriv, human)
	}
	s.Finish()
}
