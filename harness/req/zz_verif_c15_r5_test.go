//go:build verif

package req

import (
	"fmt"
	"io"
	"math/rand"
	"strings"
	"testing"

	"github.com/imroc/req/v3/internal/charsets"
	"github.com/imroc/req/v3/internal/verifh"
	htmlcharset "golang.org/x/net/html/charset"
	"golang.org/x/text/encoding"
)

// Round 5: three classes, each with the Lean model as the judge and an independent oracle as second opinion.
//
//   bound  the first network read ends at EVERY byte offset of the body (theorem first_read_boundary_irrelevant)
//   utf8   bodies under a Content-Type that says utf-8: byte-order marks, ill-formed sequences, binary (utf8_declared_is_identity)
//   ctx    the text of a meta tag in the WHATWG contexts where it is not a declaration (prescan_ignores_comments_and_rawtext)

func c15OutOf(res c15Res) (out string, term string) {
	parts := strings.SplitN(res.impl, " ", 3)
	if len(parts) < 2 {
		return "", "?"
	}
	return verifh.UnHex(parts[0]), parts[1]
}

// TestVerif_C15_bound: one body, two network reads, the cut at every offset.
func TestVerif_C15_bound(t *testing.T) {
	s := verifh.New(t, "C15", "bound",
		"bodies of 60..170 bytes in a multi-byte charset (gbk gb2312 gb18030 big5 shift_jis euc-kr euc-jp, utf-16le/be; 1 in 6 single-byte) declared by <meta charset> / <meta http-equiv> (11 spellings, "+
			"optionally two conflicting ones), a byte-order mark or the Content-Type header, delivered in TWO network reads with the cut at EVERY offset 1..len-1 (inside the declaration, inside every multi-byte "+
			"character, between surrogate halves), first caller buffer from {512, 4096, exactly the cut, the body length, declaration end .. +4, 1..7}, then a constant small or large buffer; dirty buffers; data+EOF "+
			"together or apart; default settings / direct newAutoDecodeReadCloser / all content types. Model: c15read (the model's own prescan decides). Oracle: output in {original, whole-body x/text "+
			"transcoding}; header charset: the transcoding; declaration complete within the first read AND the first buffer: the transcoding (first_read_boundary_irrelevant). non-trivial = a charset applies")
	r := s.Rand()
	cnt := c15NewCounter(s)
	pool := []c15cs{}
	for _, cs := range c15Charsets {
		switch cs.kind {
		case "mb":
			if cs.label != "iso-2022-jp" {
				pool = append(pool, cs, cs)
			}
		case "u16le", "u16be":
			pool = append(pool, cs, cs)
		case "sb":
			if cs.label == "windows-1252" || cs.label == "koi8-r" || cs.label == "windows-1251" {
				pool = append(pool, cs)
			}
		}
	}
	for i := 0; i < verifh.N(14, 160); i++ {
		// the sites in turn (every quick run has them all), the charset at random among those that can carry the site
		site := []string{"metacharset", "metahttpequiv", "bom", "header", "metacharset", "metahttpequiv", "conflict-meta"}[i%7]
		cs := verifh.Pick(r, pool)
		for u16 := cs.kind == "u16le" || cs.kind == "u16be"; (site == "bom") != u16 && !(site == "header" && cs.kind != "sb"); u16 = cs.kind == "u16le" || cs.kind == "u16be" {
			cs = verifh.Pick(r, pool)
		}
		bodySite := site
		if site == "header" || site == "bom" {
			bodySite = "none"
		}
		b := c15MakeBody(r, cs, bodySite, 60+r.Intn(110), verifh.Pick(r, []int{0, 0, 0, 30}))
		body := strings.ReplaceAll(b.body, "&", "+")
		declEnd := 0 // offset after which the declaration is complete (0: no in-body declaration)
		var want encoding.Encoding
		switch site {
		case "bom":
			declEnd = 2
			_, want = c15ExpectedBOM(body)
		case "header":
			want = c15Lookup(cs.label)
		default:
			for _, d := range b.decls {
				if d.real {
					declEnd = d.end
					break
				}
			}
			want, _ = c15ExpectedPrescan(b, len(body))
			if declEnd > len(body) {
				declEnd = 0
			}
		}
		st := c15Settings{kind: "default"}
		if site != "header" && r.Intn(3) == 0 {
			st = c15Settings{kind: "direct"}
		} else if r.Intn(4) == 0 {
			st = c15Settings{kind: "all"}
		}
		ct := verifh.Pick(r, []string{"text/html", "text/html", "application/xhtml+xml", "text/plain"})
		if site == "header" {
			ct += verifh.Pick(r, []string{"; charset=", ";charset=", "; CHARSET="}) + verifh.Pick(r, []string{cs.label, `"` + cs.label + `"`, strings.ToUpper(cs.label)})
		}
		cnt.count("site:" + site)
		cnt.count("kind:" + cs.kind)
		mb := map[int]bool{}
		for _, o := range b.mbAt {
			mb[o] = true
		}
		for k := 1; k < len(body); k++ {
			c := &c15Case{body: body, tag: fmt.Sprintf("bound/%s/%s/cut=%d", cs.label, site, k), st: st, ct: ct}
			c.segs = []string{body[:k], body[k:]}
			c.term, c.lwt = io.EOF, r.Intn(2) == 0
			first := verifh.Pick(r, []int{512, 512, 4096, k, len(body), len(body) + 1, declEnd + r.Intn(5), k + 1, 1 + r.Intn(7)})
			if first < 1 {
				first = 1
			}
			c.bufs = []int{first}
			c.tail = verifh.Pick(r, []int{1, 2, 3, 7, 64, 512, 4096})
			c.dirty = verifh.Pick(r, [][]byte{{0xAA}, {0}, c15StaleMeta, {0xFF, 0xFE}})
			c.debug = verifh.Pick(r, []int{0, 0, 1, 2})
			bb := b
			bb.body = body
			c.prescan = func(content string) (encoding.Encoding, string) { return c15ExpectedPrescan(bb, len(content)) }
			if want != nil && site != "header" {
				c.cands = []encoding.Encoding{want}
			}
			res := c15Run(c)
			out, term := c15OutOf(res)
			sniffedLen := min(k, first)
			if res.ok && site != "header" && want != nil && declEnd > 0 && sniffedLen >= declEnd && term == "eof" && out != c15Transcode(want, body) {
				res.ok = false
				res.human += fmt.Sprintf(" ORACLE: the declaration is complete within the first read (%d bytes sniffed, declaration ends at %d): the whole body must be transcoded", sniffedLen, declEnd)
			}
			switch {
			case mb[k]:
				cnt.count("cut:inside-a-character")
			case declEnd > 0 && k < declEnd:
				cnt.count("cut:inside-or-before-the-declaration")
			default:
				cnt.count("cut:between-characters")
			}
			if declEnd > 0 && sniffedLen >= declEnd && mb[k] {
				cnt.count("declared-in-first-read+character-split-at-its-end")
			}
			if site == "header" && mb[k] {
				cnt.count("header-charset+character-split")
			}
			s.Case(res.line, res.impl, res.ok, "", res.nontriv, res.human)
		}
	}
	cnt.must(t, "site:metacharset", "site:metahttpequiv", "site:bom", "site:header", "kind:mb", "cut:inside-a-character", "cut:inside-or-before-the-declaration",
		"cut:between-characters", "declared-in-first-read+character-split-at-its-end", "header-charset+character-split")
	s.Finish()
}

// c15Utf8Bodies: bodies that a utf-8 declaration must leave alone, byte for byte.
func c15Utf8Body(r *rand.Rand) (string, string) {
	text := func() string { return c15Text(r, c15cs{"utf-8", "héllo你好😀wörld", "utf8"}, 10+r.Intn(60)) }
	ill := []string{"\xff", "\xfe", "\xc0\xaf", "\xe4\xbd", "\xf0\x9f\x98", "\xed\xa0\x80", "\x80", "\xc3", "\xe9", "caf\xe9", "\xf8\x88\x80\x80\x80", "\xef\xbf", "\x00", "\xef\xbb", "\xbf"}
	switch r.Intn(9) {
	case 0:
		return "\xef\xbb\xbf" + text(), "bom"
	case 1:
		return "\xef\xbb\xbf", "bom-only"
	case 2:
		return "\xef\xbb\xbf\xef\xbb\xbf" + text(), "bom-twice"
	case 3:
		t := text()
		k := r.Intn(len(t) + 1)
		return t[:k] + verifh.Pick(r, ill) + t[k:], "ill-formed"
	case 4:
		t := text()
		return t[:r.Intn(len(t)+1)], "truncated"
	case 5:
		return verifh.RandBytes(r, verifh.Pick(r, []int{1, 2, 3, 17, 64, 255, 513}), ""), "binary"
	case 6:
		return "\xef\xbb\xbf" + `{"a":"` + verifh.Pick(r, ill) + `"}`, "bom+ill-formed"
	case 7:
		return verifh.Pick(r, []string{"\xff\xfe", "\xfe\xff"}) + text(), "utf16-bom-under-utf8-header"
	default:
		return `<html><head><meta charset="` + verifh.Pick(r, []string{"gbk", "big5", "utf-16le", "windows-1252"}) + `"></head>` + text() + verifh.Pick(r, ill), "meta-under-utf8-header"
	}
}

// TestVerif_C15_utf8: a body declared utf-8 by the Content-Type header comes back as it is.
func TestVerif_C15_utf8(t *testing.T) {
	s := verifh.New(t, "C15", "utf8",
		"Content-Type = {text/html, application/json, application/xml, text/plain, text/csv, image/png} + charset in 14 spellings that contain utf-8 / utf8 (case, quotes, extra parameters, x-utf-8-foo, "+
			"unicode-1-1-utf-8) and 4 near misses (utf-16le, utf_8, utf 8, u8); body: UTF-8 BOM + text, BOM alone, BOM twice, ill-formed sequences (lone continuation / lead bytes, overlong, surrogate, "+
			"5-byte form, latin-1 'caf\\xe9', truncated BOM) inside text, text cut inside a character, random binary, BOM + ill-formed JSON, UTF-16 BOM, a conflicting <meta>; segmentation (whole, 1..7-byte, cut "+
			"inside the BOM / a character, random, empty reads, data+EOF, read error) x caller buffers; settings as in lane read. Model: c15read (select: utf-8 label => untouched). Oracle: output = body. "+
			"non-trivial = selected content type, utf-8 label, body holds a BOM or an ill-formed sequence")
	r := s.Rand()
	cnt := c15NewCounter(s)
	labels := []string{"utf-8", "UTF-8", "utf8", "UTF8", `"utf-8"`, "Utf-8", "x-utf-8-foo", "unicode-1-1-utf-8", "utf-8 ", "utf-8;x=y", "xutf8", "utf-8,gbk", "utf-8-sig", "csutf8"}
	near := []string{"utf-16le", "utf_8", "u8", "windows-1252"}
	for i := 0; i < verifh.N(1500, 20000); i++ {
		body, kind := c15Utf8Body(r)
		body = strings.ReplaceAll(body, "&", "+")
		c := &c15Case{body: body, tag: "utf8/" + kind}
		c.st = c15PickSettings(r)
		if r.Intn(3) != 0 || c.st.kind == "direct" {
			c.st = c15Settings{kind: "default"}
		}
		label := verifh.Pick(r, labels)
		isNear := r.Intn(10) == 0
		if isNear {
			label = verifh.Pick(r, near)
		}
		base := verifh.Pick(r, []string{"text/html", "text/html", "application/json", "application/json", "application/xml", "text/plain", "text/csv", "image/png"})
		c.ct = base + verifh.Pick(r, []string{"; charset=", ";charset=", "; CHARSET=", "; boundary=x; charset="}) + label
		c.global = r.Intn(10) == 0
		c.debug = verifh.Pick(r, []int{0, 0, 0, 1, 2})
		fake := c15Body{body: body}
		for k := 1; k < len(body); k++ {
			if body[k] >= 0x80 {
				fake.mbAt = append(fake.mbAt, k)
			}
		}
		c.segs = c15Segment(r, fake, verifh.Pick(r, []int{0, 0, 1, 3, 3, 5, 6}))
		if r.Intn(4) == 0 && len(body) > 2 { // cut inside a leading mark
			k := 1 + r.Intn(2)
			c.segs = []string{body[:k], body[k:]}
		}
		c.term, c.lwt = c15PickTerm(r)
		c.bufs, c.tail, c.dirty = c15PickBufs(r, len(body))
		// a near-miss label goes to a decoder or to the sniffer: candidates from every prefix
		seen := map[string]bool{}
		for m := 1; m <= len(body); m++ {
			if e, name := charsets.FindEncoding([]byte(body[:m])); e != nil && !seen[name] {
				seen[name] = true
				c.cands = append(c.cands, e)
			}
		}
		res := c15Run(c)
		cnt.count("body:" + kind)
		_, _, hasCS, perr := c15MediaParse(c.ct)
		if hasCS && !isNear {
			cnt.count("utf8-label")
		} else if perr {
			cnt.count("media-type-parse-error")
		} else {
			cnt.count("near-miss-label")
		}
		parts := strings.Split(res.impl, " ")
		cnt.count("impl-kind:" + strings.SplitN(parts[2], ":", 2)[0])
		nontriv := hasCS && !isNear && strings.Contains(base, "/") && base != "image/png" && (strings.HasPrefix(kind, "bom") || strings.Contains(kind, "ill") || kind == "binary")
		s.Case(res.line, res.impl, res.ok, "", nontriv, res.human)
	}
	cnt.must(t, "body:bom", "body:bom-only", "body:bom-twice", "body:ill-formed", "body:truncated", "body:binary", "body:bom+ill-formed", "body:utf16-bom-under-utf8-header",
		"body:meta-under-utf8-header", "utf8-label", "near-miss-label", "impl-kind:raw", "impl-kind:hdr")
	s.Finish()
}

// ---------------------------------------------------------------------------------------
// WHATWG contexts

// c15CtxDoc builds a document out of regions in which the text of a meta tag is NOT a declaration
// (by the WHATWG tokenizer rules, stated here independently of the model) and, optionally, one real
// declaration after them. want = the label the prescan must report ("" = nothing).
func c15CtxDoc(r *rand.Rand, count func(string)) (doc string, want string, kinds []string) {
	legacy := func() string { return verifh.Pick(r, []string{"gbk", "gb2312", "big5", "shift_jis", "euc-kr", "windows-1251", "koi8-r", "GBK", "iso-8859-2"}) }
	look := func() string {
		l := legacy()
		return verifh.Pick(r, []string{
			`<meta charset="` + l + `">`, `<meta charset=` + l + `>`, `<META CHARSET='` + l + `'/>`,
			`<meta http-equiv="Content-Type" content="text/html; charset=` + l + `">`,
			`<meta content="text/html;charset=` + l + `" http-equiv=content-type>`,
		})
	}
	text := func() string {
		return verifh.Pick(r, []string{"", " ", "我是roc ", "héllo wörld ", "x", "\n", "日本語テキスト", "a = 1; ", "Привет "})
	}
	// text that cannot end a comment
	cpiece := func() string {
		return verifh.Pick(r, []string{" ", "x", "- ", "-x", "<", "<!-", "<!--x", "!", "--x", "--!x", "->x", ">x", "<script>", "</script>", "<title>", "'", `"`, "- -", "-!>", "=>"})
	}
	var sb strings.Builder
	final := false // the region must be the end of the document (a tag that is never closed: any later '>' would close it)
	hidden := func() (string, string, bool) { // region, kind, open-ended (swallows the rest of the document)
		switch r.Intn(16) {
		case 0, 1:
			in := text() + cpiece() + look() + cpiece() + text()
			in = strings.ReplaceAll(strings.ReplaceAll(in, "-->", "-- >"), "--!>", "--! >")
			for strings.HasPrefix(in, ">") || strings.HasPrefix(in, "->") {
				in = " " + in
			}
			// the closing sequence must not complete earlier than at its own '>'
			in = strings.TrimRight(in, "!")
			return "<!--" + in + verifh.Pick(r, []string{"-->", "-->", "--!>", "--->", "---->"}), "comment", false
		case 2, 3:
			q := verifh.Pick(r, []string{"'", `"`})
			in := "var s = " + q + look() + q + ";" + text() + verifh.Pick(r, []string{"", "if (a<b) x=1;", "a</b", "</scrip>", "</scriptx>", "</ script>", "<!-x", "<! --"})
			open := verifh.Pick(r, []string{"<script>", "<SCRIPT>", `<script type="text/javascript">`, "<script src=x >", "<script\n>"})
			return open + in + verifh.Pick(r, []string{"</script>", "</SCRIPT>", "</script >", "</script\n>", "</script/>"}), "script", false
		case 4:
			// a script whose content is wrapped in an HTML comment (escaped state): `</script>` still ends it
			in := "<!-- " + look() + verifh.Pick(r, []string{" //-->", " -->", " ", " --x"})
			return "<script>" + in + "</script>", "script-escaped", false
		case 5, 6, 7:
			tag := verifh.Pick(r, []string{"title", "textarea", "style", "xmp", "iframe", "noembed", "noframes", "noscript", "TEXTAREA", "Title"})
			in := text() + look() + text() + verifh.Pick(r, []string{"", "</b>", "</", "<", "</" + tag[:len(tag)-1] + ">", "</" + tag + "x>", "<!--", "-->", "</ " + tag + ">"})
			open := "<" + tag + verifh.Pick(r, []string{">", " rows=2>", " a='>' >", "\t>"})
			return open + in + "</" + verifh.Pick(r, []string{tag, strings.ToUpper(tag), strings.ToLower(tag)}) + verifh.Pick(r, []string{">", " >", "/>", "\n>", " x=y>"}), "rawtext", false
		case 8, 9:
			q := verifh.Pick(r, []string{"'", `"`})
			l := look()
			if q == "'" {
				l = strings.ReplaceAll(l, "'", "")
			} else {
				l = strings.ReplaceAll(l, `"`, "")
			}
			return verifh.Pick(r, []string{"<div title=", "<a href=", "<input value =", "<p data-x= ", "<img alt=x src="}) + q + text() + l + q + verifh.Pick(r, []string{">", " >", "/>", " b=c>"}), "attribute-value", false
		case 10:
			l := strings.ReplaceAll(look(), ">", "")
			return verifh.Pick(r, []string{"<?php ", "<?xml ", "<!DOCTYPE ", "<!ELEMENT ", "</ ", "</3 ", "<![CDATA[ ", "<!- "}) + l + verifh.Pick(r, []string{">", "?>", " x>"}), "bogus-comment", false
		case 11:
			l := legacy()
			return verifh.Pick(r, []string{
				`<meta content="text/html; charset=` + l + `">`, `<meta name="charset" content="` + l + `">`, `<meta http-equiv="refresh" content="0; charset=` + l + `">`,
				`<metax charset=` + l + `>`, `< meta charset=` + l + `>`, `<meta charset=x-` + l + `-bogus>`, `<meta charset="">`, `<meta-x charset=` + l + `>`, `</meta charset=` + l + `>`,
				`<meta charset =>` + l, `<meta data-charset=` + l + `>`, `<meta charsets=` + l + `>`, `<m eta charset=` + l + `>`, `<meta http-equiv=content-type content="text/html; charset=">`,
			}), "not-a-declaration", false
		case 12:
			return "<!--" + text() + look(), "comment-unterminated", true
		case 13:
			tag := verifh.Pick(r, []string{"textarea", "title", "script", "style", "plaintext", "xmp"})
			return "<" + tag + ">" + text() + look(), "rawtext-unterminated", true
		case 14:
			q := verifh.Pick(r, []string{"'", `"`})
			l := strings.ReplaceAll(strings.ReplaceAll(look(), "'", ""), `"`, "")
			return "<div title=" + q + l, "attribute-unterminated", true
		default:
			l := strings.TrimSuffix(strings.TrimSuffix(look(), ">"), "/")
			final = true
			return l + verifh.Pick(r, []string{"", " ", " x", "\n", " 你好", "/"}), "tag-unterminated", true
		}
	}
	sb.WriteString(verifh.Pick(r, []string{"", "<!DOCTYPE html>", "<html><head>", "<html>\n<head>\n", "text "}))
	openEnded := false
	n := 1 + r.Intn(4)
	for k := 0; k < n && !openEnded; k++ {
		reg, kind, oe := hidden()
		sb.WriteString(reg)
		kinds = append(kinds, kind)
		count("ctx:" + kind)
		openEnded = oe
		if !oe {
			sb.WriteString(verifh.Pick(r, []string{"", "\n", text(), "<p>", "</p>", "<br/>", "<b>x</b>", "<link rel=x href=y>"}))
		}
	}
	if final {
		return strings.ReplaceAll(sb.String(), "&", "+"), "", kinds
	}
	switch r.Intn(3) {
	case 0:
		l := verifh.Pick(r, []string{"gbk", "big5", "shift_jis", "euc-kr", "windows-1251", "koi8-r"})
		sb.WriteString(verifh.Pick(r, []string{`<meta charset="` + l + `">`, `<meta http-equiv="Content-Type" content="text/html; charset=` + l + `">`}))
		if !openEnded {
			_, want = htmlcharset.Lookup(l)
			count("ctx:real-declaration-after")
		} else {
			count("ctx:real-declaration-swallowed")
		}
	}
	sb.WriteString(verifh.Pick(r, []string{"", "</head><body>我是roc，你好世界</body></html>", "<title>你好</title>", "</head>"}))
	if !openEnded && want == "" {
		count("ctx:nothing-visible")
	}
	return strings.ReplaceAll(sb.String(), "&", "+"), want, kinds
}

// TestVerif_C15_ctx: meta look-alikes in the contexts where they are not declarations.
func TestVerif_C15_ctx(t *testing.T) {
	s := verifh.New(t, "C15", "ctx",
		"documents of 1..4 regions in which the text of a legacy-charset meta tag (5 spellings x 9 labels) is not a declaration: comments (content pieces '-', '--x', '--!x', '<!--x', '->x', '>x', quotes, "+
			"closers '-->' '--!>' '--->'), script (string literals, '<' comparisons, near-miss end tags, 5 start / 5 end tag spellings), script wrapped in '<!-- -->', raw-text / RCDATA elements (title textarea style xmp iframe "+
			"noembed noframes noscript, near-miss end tags, attributes, case), quoted attribute values, bogus comments ('<?' '<!DOCTYPE' '</ ' '<![CDATA['), 14 tags that look like but are not declarations (no pragma, "+
			"name=charset, metax, '< meta', unknown label, end tag), and open-ended regions (unterminated comment / raw text / attribute value / tag) that swallow the rest; 1 in 3 followed by a REAL declaration; "+
			"UTF-8 text around. (find) charsets.FindEncoding on the document and on every prefix ending inside a region, model c15findc; oracle: the whole document selects exactly the real declaration or nothing, a "+
			"prefix selects nothing or that. (read) the same page as an undeclared text/html body through autoDecodeResponseBody with generated splits and buffers, model c15read; oracle: unchanged, or "+
			"transcoded from the real declaration only. non-trivial = a look-alike is hidden and the verdict is 'nothing', or the real declaration is found")
	r := s.Rand()
	cnt := c15NewCounter(s)
	find := func(content string) string {
		e, name := charsets.FindEncoding([]byte(content))
		if e == nil {
			return "none"
		}
		return verifh.Hex(name)
	}
	for i := 0; i < verifh.N(2200, 30000); i++ {
		doc, want, kinds := c15CtxDoc(r, cnt.count)
		wantHex := "none"
		if want != "" {
			wantHex = verifh.Hex(want)
		}
		emit := func(kind, content string, allowed ...string) {
			impl := "crash"
			if ptxt, panicked := verifh.Safely(func() { impl = find(content) }); panicked {
				impl = "panic:" + ptxt
			}
			ok := false
			for _, a := range allowed {
				ok = ok || impl == a
			}
			human := fmt.Sprintf("%s %v FindEncoding(%s) = %q", kind, kinds, c15Short(content), verifh.UnHex(strings.TrimPrefix(impl, "none")))
			if !ok {
				human += fmt.Sprintf(" ORACLE: must select %q (the look-alikes stand in %v)", want, kinds)
			}
			if impl == "none" {
				cnt.count(kind + ":nothing")
			} else {
				cnt.count(kind + ":found")
			}
			s.Case("c15findc "+verifh.Hex(content), impl, ok, "", true, human)
		}
		emit("doc", doc, wantHex)
		if i%4 == 0 {
			for k := 0; k < 3; k++ {
				emit("prefix", doc[:r.Intn(len(doc)+1)], "none", wantHex)
			}
		}
		if i%3 == 0 {
			// through the reader: an undeclared page
			c := &c15Case{body: doc, tag: "ctx/" + strings.Join(kinds, "+"), st: c15Settings{kind: verifh.Pick(r, []string{"default", "default", "direct", "all"})}}
			c.ct = verifh.Pick(r, []string{"text/html", "text/html", "application/xhtml+xml", "text/html; charset", ""})
			fake := c15Body{body: doc}
			c.segs = c15Segment(r, fake, verifh.Pick(r, []int{0, 0, 0, 2, 6}))
			c.term, c.lwt = io.EOF, r.Intn(2) == 0
			c.bufs, c.tail, c.dirty = c15PickBufs(r, len(doc))
			if r.Intn(2) == 0 {
				c.bufs = append([]int{verifh.Pick(r, []int{512, 4096, len(doc)})}, c.bufs...)
			}
			var wantEnc encoding.Encoding
			if want != "" {
				wantEnc, _ = htmlcharset.Lookup(want)
				c.cands = []encoding.Encoding{wantEnc}
			}
			// which oracle strings go along: what the generator expects of the sniffed prefix (the MODEL runs its own prescan)
			c.prescan = func(content string) (encoding.Encoding, string) {
				if wantEnc != nil && len(content) == len(doc) {
					return wantEnc, want
				}
				e, n := charsets.FindEncoding([]byte(content))
				if e != nil && n == want {
					return e, n
				}
				return nil, ""
			}
			res := c15Run(c)
			cnt.count("read")
			if !res.ok {
				cnt.count("read:oracle-reject")
			}
			s.Case(res.line, res.impl, res.ok, "", true, res.human)
		}
	}
	cnt.must(t, "ctx:comment", "ctx:script", "ctx:script-escaped", "ctx:rawtext", "ctx:attribute-value", "ctx:bogus-comment", "ctx:not-a-declaration", "ctx:comment-unterminated",
		"ctx:rawtext-unterminated", "ctx:attribute-unterminated", "ctx:tag-unterminated", "ctx:real-declaration-after", "ctx:real-declaration-swallowed", "ctx:nothing-visible",
		"doc:nothing", "doc:found", "prefix:nothing", "read")
	s.Finish()
}
