//go:build verif

package req

// C03 — script lanes: the REAL client (req.C(), real Transport, readLoop, auto-read) against
// scripted peers that serve a generated response cut at offset k and then end the connection,
// followed by a second request on the same client.

import (
	"bytes"
	"compress/gzip"
	"context"
	"errors"
	"fmt"
	"io"
	"math/rand"
	"net"
	"strconv"
	"strings"
	"sync"
	"syscall"
	"testing"
	"time"

	"github.com/imroc/req/v3/internal/verifh"
)

// ---------------------------------------------------------------------------- scripted network

// c03Step: after the (i+1)-th request has been written, deliver data; then either end the
// connection (end != nil: io.EOF or a reset error) or wait for the next request.
type c03Step struct {
	data []byte
	end  error
}

// c03Conn is an in-memory scripted connection (one side of the conversation is the script).
type c03Conn struct {
	mu     sync.Mutex
	cond   *sync.Cond
	steps  []c03Step
	cur    int
	off    int
	reqs   int
	wtail  []byte
	closed bool
	seg    int // max bytes per Read (0 = unlimited)
}

func newC03Conn(steps []c03Step, seg int) *c03Conn {
	c := &c03Conn{steps: steps, seg: seg}
	c.cond = sync.NewCond(&c.mu)
	return c
}

func (c *c03Conn) Read(p []byte) (int, error) {
	c.mu.Lock()
	defer c.mu.Unlock()
	for {
		if c.closed {
			return 0, net.ErrClosed
		}
		if c.cur < len(c.steps) && c.reqs > c.cur {
			st := c.steps[c.cur]
			if c.off < len(st.data) {
				n := len(st.data) - c.off
				if n > len(p) {
					n = len(p)
				}
				if c.seg > 0 && n > c.seg {
					n = c.seg
				}
				copy(p, st.data[c.off:c.off+n])
				c.off += n
				return n, nil
			}
			if st.end != nil {
				return 0, st.end
			}
			c.cur++
			c.off = 0
			continue
		}
		c.cond.Wait()
	}
}

func (c *c03Conn) Write(p []byte) (int, error) {
	c.mu.Lock()
	defer c.mu.Unlock()
	if c.closed {
		return 0, net.ErrClosed
	}
	c.wtail = append(c.wtail, p...)
	for {
		i := bytes.Index(c.wtail, []byte("\r\n\r\n"))
		if i < 0 {
			break
		}
		c.reqs++
		c.wtail = c.wtail[i+4:]
	}
	if len(c.wtail) > 3 {
		c.wtail = c.wtail[len(c.wtail)-3:]
	}
	c.cond.Broadcast()
	return len(p), nil
}

func (c *c03Conn) Close() error {
	c.mu.Lock()
	c.closed = true
	c.cond.Broadcast()
	c.mu.Unlock()
	return nil
}
func (c *c03Conn) LocalAddr() net.Addr                { return &net.TCPAddr{IP: net.IPv4(127, 0, 0, 1), Port: 1} }
func (c *c03Conn) RemoteAddr() net.Addr               { return &net.TCPAddr{IP: net.IPv4(127, 0, 0, 1), Port: 80} }
func (c *c03Conn) SetDeadline(t time.Time) error      { return nil }
func (c *c03Conn) SetReadDeadline(t time.Time) error  { return nil }
func (c *c03Conn) SetWriteDeadline(t time.Time) error { return nil }

// c03Net hands out scripted connections in dial order and counts dials.
type c03Net struct {
	mu      sync.Mutex
	scripts [][]c03Step
	dials   int
	seg     int
	conns   []*c03Conn
}

var c03Default = []byte("HTTP/1.1 200 OK\r\nContent-Length: 15\r\n\r\nUNSCRIPTED-DIAL")

func (n *c03Net) dial(ctx context.Context, network, addr string) (net.Conn, error) {
	n.mu.Lock()
	defer n.mu.Unlock()
	var steps []c03Step
	if n.dials < len(n.scripts) {
		steps = n.scripts[n.dials]
	} else {
		steps = []c03Step{{data: c03Default}, {data: c03Default}, {data: c03Default}}
	}
	n.dials++
	c := newC03Conn(steps, n.seg)
	n.conns = append(n.conns, c)
	return c, nil
}

func (n *c03Net) closeAll() {
	n.mu.Lock()
	defer n.mu.Unlock()
	for _, c := range n.conns {
		c.Close()
	}
}

// ---------------------------------------------------------------------------- message generator

type c03Msg struct {
	stream  string // the complete wire bytes of the response
	framing string // len | chunked | close | none
	body    string // the true body
	code    int
	head    bool
	pre     int // bytes of informational (1xx) responses in front of the final one
	n1xx    int
	special string
}

// headEnd is the offset of the first body byte of the final response.
func (m c03Msg) headEnd() int {
	return m.pre + strings.Index(m.stream[m.pre:], "\r\n\r\n") + 4
}

func c03GenMsg(r *rand.Rand, maxBody int) c03Msg { return c03GenMsgS(r, maxBody, "") }

// c03GenMsgS: special = "json" (body {"v":"…"}, application/json) or "ascii" (text/plain, ASCII).
func c03GenMsgS(r *rand.Rand, maxBody int, special string) c03Msg {
	var m c03Msg
	m.special = special
	m.code = verifh.Pick(r, []int{200, 200, 200, 200, 201, 404, 500, 206})
	n := 0
	switch r.Intn(6) {
	case 0:
		n = r.Intn(4)
	case 1:
		n = verifh.Pick(r, []int{15, 16, 17, 255, 256, 257})
	default:
		n = r.Intn(maxBody + 1)
	}
	body := verifh.RandBytes(r, n, "abcdefghijklmnopqrstuvwxyz0123456789\r\n:; ")
	if r.Intn(4) == 0 {
		body = verifh.RandBytes(r, n, "")
	}
	var hdr []string
	add := func(k, v string) { hdr = append(hdr, k+": "+v) }
	switch special {
	case "json":
		body = `{"v":"` + verifh.RandBytes(r, n, "abcdefghijklmnopqrstuvwxyz") + `"}`
		add("Content-Type", "application/json")
	case "ascii":
		body = verifh.RandBytes(r, n, "abcdefghijklmnopqrstuvwxyz ,.\n")
		add("Content-Type", "text/plain")
	default:
		add("Content-Type", "application/octet-stream")
	}
	if r.Intn(3) == 0 {
		add("X-Pad", strings.Repeat("p", r.Intn(40)))
	}
	proto := "HTTP/1.1"
	var wire strings.Builder
	kind := r.Intn(20)
	switch {
	case kind < 7:
		m.framing = "len"
		add("Content-Length", strconv.Itoa(len(body)))
		wire.WriteString(body)
		if len(body) == 0 {
			m.framing = "none"
		}
	case kind < 15:
		m.framing = "chunked"
		add("Transfer-Encoding", "chunked")
		withTrailer := r.Intn(3) == 0
		if withTrailer && r.Intn(2) == 0 {
			add("Trailer", "X-Sum")
		}
		rest := body
		for len(rest) > 0 {
			k := 1 + r.Intn(len(rest))
			if r.Intn(3) == 0 && len(rest) > 8 {
				k = 1 + r.Intn(8)
			}
			ext := ""
			if r.Intn(8) == 0 {
				ext = ";e=" + strings.Repeat("x", r.Intn(6))
			}
			wire.WriteString(strconv.FormatInt(int64(k), 16) + ext + "\r\n" + rest[:k] + "\r\n")
			rest = rest[k:]
		}
		wire.WriteString("0\r\n")
		if withTrailer {
			wire.WriteString("X-Sum: " + strconv.Itoa(len(body)) + "\r\n")
		}
		wire.WriteString("\r\n")
	case kind < 18:
		m.framing = "close"
		if r.Intn(2) == 0 {
			proto = "HTTP/1.0"
		} else {
			add("Connection", "close")
		}
		wire.WriteString(body)
	case kind == 18:
		m.framing = "none"
		m.code = verifh.Pick(r, []int{204, 304, 101})
		body = ""
		if m.code == 101 {
			add("Connection", "Upgrade")
			add("Upgrade", "verif")
		}
	default:
		m.framing = "none"
		m.head = true
		add("Content-Length", strconv.Itoa(len(body)))
		body = ""
	}
	if m.framing != "close" && r.Intn(6) == 0 {
		add("Connection", verifh.Pick(r, []string{"close", "keep-alive"}))
	}
	r.Shuffle(len(hdr), func(i, j int) { hdr[i], hdr[j] = hdr[j], hdr[i] })
	m.body = body
	m.stream = proto + " " + strconv.Itoa(m.code) + " Status\r\n" + strings.Join(hdr, "\r\n") + "\r\n\r\n" + wire.String()
	// informational responses in front (readResponse skips up to 5 non-101 1xx)
	if r.Intn(7) == 0 {
		n1 := verifh.Pick(r, []int{1, 2, 5, 5, 6})
		pre := ""
		for i := 0; i < n1; i++ {
			pre += verifh.Pick(r, []string{"HTTP/1.1 100 Continue\r\n\r\n", "HTTP/1.1 103 Early Hints\r\nLink: </s.css>; rel=preload\r\n\r\n", "HTTP/1.1 199 Misc\r\nContent-Length: 5\r\n\r\n"})
		}
		m.stream = pre + m.stream
		m.pre = len(pre)
		m.n1xx = n1
	}
	return m
}

// c03Cuts: every offset (thorough, small messages) or a stratified sample (boundaries of the
// head, of every line, and random interior offsets).
func c03Cuts(r *rand.Rand, s string, all bool, sample int) []int {
	n := len(s)
	if all {
		out := make([]int, n+1)
		for i := range out {
			out[i] = i
		}
		return out
	}
	set := map[int]bool{0: true, 1: true, n: true, n - 1: true, n - 2: true}
	he := strings.Index(s, "\r\n\r\n")
	for d := -2; d <= 6; d++ {
		set[he+d] = true
	}
	for i := 0; i < n; i++ {
		if s[i] == '\n' && r.Intn(4) == 0 {
			set[i] = true
			set[i+1] = true
		}
	}
	for i := 0; i < sample; i++ {
		set[r.Intn(n+1)] = true
	}
	var out []int
	for k := 0; k <= n; k++ {
		if set[k] {
			out = append(out, k)
		}
	}
	return out
}

const c03Second = "second-response-OK"

var c03SecondWire = []byte("HTTP/1.1 200 OK\r\nContent-Length: " + strconv.Itoa(len(c03Second)) + "\r\n\r\n" + c03Second)

type c03Obs struct {
	first      string // "fail" | "ok code=.. body=.."
	firstErr   string
	dialsAfter int
	secondOK   bool
	secondNote string
	second     string // the second request's outcome in the vocabulary of the first
	dials      int
}

// c03Between, when set by a lane, runs between the first and the second request of c03RunClient
// (h1over: wait until the read loop has dealt with the bytes the peer sent unasked).
var c03Between func()

// c03RunClient performs the two requests with a fresh real client over the given dialer.
func c03RunClient(dial func(ctx context.Context, network, addr string) (net.Conn, error), dials func() int, head bool, stream bool, readSize int, early bool, unstick func(), cc *c03Caller) (o c03Obs) {
	if early {
		stream = true
	}
	pos := cc.position()
	if stream {
		cc = nil
	}
	c := C().SetDial(dial).SetTimeout(4 * time.Second)
	cc.prepClient(c)
	c03ApplyPos(c, pos)
	c.GetTransport().DisableCompression = true
	first := true
	if stream {
		c.DisableAutoReadResponse()
	}
	defer c.GetTransport().CloseIdleConnections()
	do := func() (string, string) {
		rq := c.R()
		isFirst := first
		first = false
		if isFirst {
			cc.prepRequest(rq)
		}
		var resp *Response
		var err error
		if head {
			resp, err = rq.Head("http://c03.invalid/x")
		} else {
			resp, err = rq.Get("http://c03.invalid/x")
		}
		if err != nil {
			return "fail", err.Error()
		}
		if resp == nil || resp.Response == nil {
			return "fail", "nil response without error"
		}
		var body []byte
		if resp.StatusCode <= 199 {
			// 101 Switching Protocols: the body is the raw connection; nothing to read here
			if resp.Body != nil {
				resp.Body.Close()
			}
			if early {
				early = false
				return "ok-early code=" + strconv.Itoa(resp.StatusCode), ""
			}
			return "ok code=" + strconv.Itoa(resp.StatusCode) + " body=_", ""
		}
		if early {
			// the caller walks away: close the body without reading it
			early = false
			resp.Body.Close()
			return "ok-early code=" + strconv.Itoa(resp.StatusCode), ""
		}
		if stream {
			buf := make([]byte, readSize)
			for {
				n, rerr := resp.Body.Read(buf)
				body = append(body, buf[:n]...)
				if rerr == io.EOF {
					break
				}
				if rerr != nil {
					resp.Body.Close()
					return "fail", "body read: " + rerr.Error()
				}
			}
			resp.Body.Close()
		} else if isFirst && cc.savesBody() {
			if resp.Err != nil {
				return "fail", "resp.Err: " + resp.Err.Error()
			}
			body = cc.saved()
		} else {
			if resp.Err != nil {
				return "fail", "resp.Err: " + resp.Err.Error()
			}
			body = resp.Bytes()
			if isFirst {
				if note := cc.resultNote(resp.StatusCode, body); note != "" {
					return "ok code=" + strconv.Itoa(resp.StatusCode) + " body=" + verifh.Hex(string(body)) + note, ""
				}
			}
			// re-read after auto-read must see the same bytes
			again, rerr := io.ReadAll(resp.Body)
			if rerr != nil || !bytes.Equal(again, body) {
				return "ok code=" + strconv.Itoa(resp.StatusCode) + " body=" + verifh.Hex(string(body)) + " REREAD-DIFFERS", ""
			}
		}
		return "ok code=" + strconv.Itoa(resp.StatusCode) + " body=" + verifh.Hex(string(body)), ""
	}
	// watchdog: a call that neither returns nor fails within the bound is a wedged caller
	guarded := func() (string, string) {
		type res struct{ a, b string }
		ch := make(chan res, 1)
		go func() { a, b := do(); ch <- res{a, b} }()
		select {
		case x := <-ch:
			return x.a, x.b
		case <-time.After(12 * time.Second):
			if unstick != nil {
				unstick()
			}
			return "hang", "the call (or Body.Close) did not return within 12s"
		}
	}
	o.first, o.firstErr = guarded()
	o.dialsAfter = dials()
	head = false
	early = false
	if c03Between != nil {
		c03Between()
	}
	second, serr := guarded()
	o.second = second
	o.dials = dials()
	want := "ok code=200 body=" + verifh.Hex(c03Second)
	o.secondOK = second == want
	if !o.secondOK {
		o.secondNote = second + " " + serr
	}
	return
}

var errC03Reset = &net.OpError{Op: "read", Net: "tcp", Err: syscall.ECONNRESET}

// TestVerif_C03_h1cut: in-memory scripted network, model-predicted outcome for every cut.
func TestVerif_C03_h1cut(t *testing.T) {
	s := verifh.New(t, "C03", "h1cut",
		"generated complete responses (Content-Length, chunked with extensions and trailers, close-delimited HTTP/1.0 and Connection: close, 204/304, HEAD) served to a fresh real client "+
			"through a scripted in-memory connection that delivers the first k bytes (in reads of 1, 7 or unlimited bytes) and then returns EOF or ECONNRESET; "+
			"k = every offset 0..len for small messages in the thorough tier, stratified offsets (head boundary, line boundaries, last bytes, random) in quick; "+
			"plus k = len with the connection kept open (keep-alive reuse); auto-read and streaming (read sizes 1..4096) callers; then a second request on the same client. "+
			"Compared with the model: fail / ok+status+body, and the number of dials (1 iff the model allows reuse). Oracle: success implies the complete true body; second request succeeds; "+
			"no dial before the second request beyond the first. non-trivial = cut strictly inside the message")
	r := s.Rand()
	rp := c03PosRand(1) // the round-6 dimensions draw from their own stream
	nMsgs := verifh.N(220, 1500)
	counts := map[string]int{}
	cnt := func(k string) { s.Count(k); counts[k]++ }
	failures := 0
	tmpDir := t.TempDir()
	for i := 0; i < nMsgs; i++ {
		maxBody := 120
		if i%10 == 9 {
			maxBody = 9000 // crosses the 4096-byte read buffer
		}
		special := verifh.Pick(r, []string{"", "", "", "", "json", "ascii"})
		m := c03GenMsgS(r, maxBody, special)
		all := verifh.Thorough() && len(m.stream) <= 2048 && i%3 == 0
		cuts := c03Cuts(r, m.stream, all, verifh.N(6, 14))
		type variant struct {
			k      int
			mode   string // eof | reset | hold | early
			stream string // the bytes the peer has (default: the message)
			tag    string
		}
		var vs []variant
		for _, k := range cuts {
			if k < 0 || k > len(m.stream) {
				continue
			}
			mode := "eof"
			// the connection ends with RST instead of FIN: for a close-delimited body that is the
			// difference between a clean end and a read error, at every offset (every other k)
			if rst := r.Intn(4) == 0; k < len(m.stream) && (rst || (m.framing == "close" && rp.Intn(2) == 0)) {
				mode = "reset"
			}
			vs = append(vs, variant{k: k, mode: mode})
		}
		if m.framing != "close" {
			vs = append(vs, variant{k: len(m.stream), mode: "hold"})
		}
		// the caller closes the body without reading it; the peer keeps the connection open
		vs = append(vs, variant{k: len(m.stream), mode: "early"})
		// ... and the same while the peer is still in the middle of the body: the rest of the
		// body arrives only after the next request was written to that connection (if any was)
		if he := m.headEnd(); (m.framing == "len" || m.framing == "chunked") && len(m.stream)-he >= 2 {
			vs = append(vs, variant{k: he + r.Intn(len(m.stream)-he-1), mode: "early", tag: "early-partial"})
		}
		// framing errors in the middle of a chunked body on a connection that stays open: the
		// exchange fails and the connection (whose stream position is now undefined) must not
		// serve the next request
		if m.framing == "chunked" && len(m.body) > 0 {
			he := m.headEnd()
			bad := m.stream[:he] + "z" + m.stream[he+1:]
			// (the peer stops right after the offending line, so nothing unsolicited is pending)
			vs = append(vs, variant{k: he + strings.Index(bad[he:], "\n") + 1, mode: "hold", stream: bad, tag: "corrupt-size"})
			// first chunk: size line, data, then "XX" instead of CRLF
			if nl := strings.Index(m.stream[he:], "\r\n"); nl > 0 {
				if sz, err := strconv.ParseInt(strings.SplitN(m.stream[he:he+nl], ";", 2)[0], 16, 32); err == nil {
					at := he + nl + 2 + int(sz)
					if at+2 <= len(m.stream) && m.stream[at:at+2] == "\r\n" {
						bad2 := m.stream[:at] + "XX" + m.stream[at+2:]
						vs = append(vs, variant{k: at + 2, mode: "hold", stream: bad2, tag: "corrupt-crlf"})
					}
				}
			}
		}
		for _, v := range vs {
			if failures >= 12 {
				break // enough failing inputs; a broken client can make every further case wait for its timeout
			}
			wire := m.stream
			if v.stream != "" {
				wire = v.stream
			}
			data := []byte(wire[:v.k])
			var first []c03Step
			switch v.mode {
			case "eof":
				first = []c03Step{{data: data, end: io.EOF}}
			case "reset":
				first = []c03Step{{data: data, end: errC03Reset}}
			case "hold", "early":
				first = []c03Step{{data: data}, {data: append([]byte(wire[v.k:]), c03SecondWire...)}}
			}
			nw := &c03Net{scripts: [][]c03Step{first, {{data: c03SecondWire}}}, seg: verifh.Pick(r, []int{0, 0, 1, 7})}
			stream := r.Intn(3) == 0
			cc := &c03Caller{mode: c03PickMode(r, m.special, m.framing, len(m.body)), dir: tmpDir}
			if (m.framing == "close" && cc.mode == "result") || m.code == 101 {
				cc.mode = "auto" // (the "body" of a 101 is the raw connection: nothing to save)
			}
			// exchange position: the scripted response answers the authorized request of a digest
			// exchange / the last attempt of a retried call / the request after a redirect
			if cc.pos = c03PickPos(rp, cc.mode, v.k > 0); cc.pos != "" && m.code != 101 {
				nw.scripts[0] = append([]c03Step{{data: c03PreludeH1(cc.pos)}}, first...)
				cnt("pos:" + cc.pos)
				if v.k < len(wire) || v.stream != "" {
					cnt("pos-cut:" + cc.pos)
				}
			} else {
				cc.pos = ""
			}
			obs := c03RunClient(nw.dial, func() int { nw.mu.Lock(); defer nw.mu.Unlock(); return nw.dials }, m.head, stream, verifh.Pick(r, []int{1, 5, 64, 4096}), v.mode == "early", nw.closeAll, cc)
			callerName := cc.name()
			if stream || v.mode == "early" {
				callerName = "stream"
			}
			cnt("caller:" + callerName)
			nw.closeAll()
			impl := obs.first + " dials=" + strconv.Itoa(obs.dials)
			// property oracle, independent of the model
			ok := true
			why := ""
			complete := v.k == len(m.stream) && v.stream == "" && m.n1xx <= 5
			wantOK := "ok code=" + strconv.Itoa(m.code) + " body=" + verifh.Hex(m.body)
			if v.tag != "" {
				cnt(v.tag)
			}
			if v.mode == "early" {
				if m.n1xx <= 5 && obs.first != "ok-early code="+strconv.Itoa(m.code) {
					ok, why = false, "response head not delivered: "+obs.firstErr
				}
				if m.framing != "none" && obs.dials != 2 {
					ok, why = false, "connection with an unread body was reused"
				}
			} else if strings.HasPrefix(obs.first, "ok") {
				switch {
				case m.framing == "close" && v.mode == "reset":
					ok, why = false, "close-delimited response whose connection was RESET reported as success (a RST is never a clean end)"
				case m.framing == "close":
					// a cut is indistinguishable from the end: the body must be the bytes received
					if he := m.headEnd(); v.k >= he && obs.first != "ok code="+strconv.Itoa(m.code)+" body="+verifh.Hex(m.stream[he:v.k]) {
						ok, why = false, "close-delimited body differs from the bytes received"
					}
				case obs.first != wantOK:
					ok, why = false, "success with a body/status other than the true one"
				}
			} else if complete {
				ok, why = false, "complete response reported as failure: "+obs.firstErr
			}
			if obs.dialsAfter != 1 {
				ok, why = false, fmt.Sprintf("%d dials before the second request", obs.dialsAfter)
			}
			if !obs.secondOK {
				ok, why = false, "second request on the same client failed: "+obs.secondNote
			}
			if obs.first == "hang" {
				ok, why = false, "caller wedged: "+obs.firstErr
				failures += 4
			}
			if strings.HasPrefix(obs.first, "fail") && obs.dials != 2 {
				ok, why = false, fmt.Sprintf("after a failed exchange the client dialled %d times in total (expected a fresh connection)", obs.dials)
			}
			if !ok {
				failures++
			}
			cnt("framing:" + m.framing)
			cnt("mode:" + v.mode)
			if strings.HasPrefix(obs.first, "ok") {
				cnt("first-ok")
			} else {
				cnt("first-fail")
			}
			if obs.dials == 1 {
				cnt("reused")
			}
			mtag := "G"
			if m.head {
				mtag = "H"
			}
			mode := v.mode
			if mode == "reset" && m.framing == "close" {
				cnt("close-reset")
				if v.k > m.headEnd() {
					cnt("close-reset-in-body")
				}
			}
			human := fmt.Sprintf("%s framing=%s len=%d %s cut k=%d then %s (caller=%s pos=%s) -> %s | err=%s", mtag, m.framing, len(wire), v.tag, v.k, v.mode, callerName, cc.pos, impl, obs.firstErr)
			if why != "" {
				human += " ORACLE: " + why
			}
			s.Case("c03cut "+mtag+" "+mode+" "+verifh.Hex(wire)+" "+strconv.Itoa(v.k), impl, ok, "", (v.k > 0 && v.k < len(m.stream)) || v.tag != "" || v.mode == "early", human)
		}
	}
	s.Finish()
	if failures >= 12 {
		return
	}
	for _, need := range []string{"framing:len", "framing:chunked", "framing:close", "framing:none", "mode:eof", "mode:reset", "mode:hold", "mode:early", "corrupt-size", "corrupt-crlf", "early-partial", "caller:transformer", "caller:output", "caller:outputfile", "caller:callback", "caller:result", "caller:dump", "caller:autodecode", "caller:retry", "caller:stream", "first-ok", "first-fail", "reused",
		"close-reset", "close-reset-in-body", "pos:digest", "pos:retried", "pos:redirect", "pos-cut:digest", "pos-cut:retried", "pos-cut:redirect"} {
		if counts[need] == 0 {
			t.Errorf("C03/h1cut never reached bucket %q", need)
		}
	}
}

// ---------------------------------------------------------------------------- loopback TCP

// c03TCPPeer serves scripted connections over real loopback TCP: read the request head, write
// the bytes, then close (FIN) or reset (SO_LINGER 0 -> RST), or keep the connection open.
type c03TCPPeer struct {
	ln      net.Listener
	mu      sync.Mutex
	scripts [][]c03Step
	dials   int
	conns   []net.Conn
	wg      sync.WaitGroup
}

func newC03TCPPeer(t testing.TB) *c03TCPPeer {
	ln, err := net.Listen("tcp", "127.0.0.1:0")
	if err != nil {
		t.Fatalf("listen: %v", err)
	}
	p := &c03TCPPeer{ln: ln}
	go func() {
		for {
			c, err := ln.Accept()
			if err != nil {
				return
			}
			p.mu.Lock()
			var steps []c03Step
			if p.dials < len(p.scripts) {
				steps = p.scripts[p.dials]
			} else {
				steps = []c03Step{{data: c03Default, end: io.EOF}}
			}
			p.dials++
			p.conns = append(p.conns, c)
			p.wg.Add(1)
			p.mu.Unlock()
			go p.serve(c, steps)
		}
	}()
	return p
}

func c03ReadRequest(c net.Conn) bool {
	var buf []byte
	tmp := make([]byte, 4096)
	for {
		c.SetReadDeadline(time.Now().Add(10 * time.Second))
		n, err := c.Read(tmp)
		buf = append(buf, tmp[:n]...)
		if bytes.Contains(buf, []byte("\r\n\r\n")) {
			return true
		}
		if err != nil {
			return false
		}
	}
}

func (p *c03TCPPeer) serve(c net.Conn, steps []c03Step) {
	defer p.wg.Done()
	for _, st := range steps {
		if !c03ReadRequest(c) {
			c.Close()
			return
		}
		if len(st.data) > 0 {
			c.Write(st.data)
		}
		if st.end != nil {
			if st.end != io.EOF {
				if tc, ok := c.(*net.TCPConn); ok {
					tc.SetLinger(0)
				}
			}
			c.Close()
			return
		}
	}
	// all steps served, keep the connection open until the client goes away
	c.SetReadDeadline(time.Now().Add(10 * time.Second))
	io.Copy(io.Discard, c)
	c.Close()
}

func (p *c03TCPPeer) next(scripts [][]c03Step) {
	p.mu.Lock()
	for _, c := range p.conns {
		c.Close()
	}
	p.conns = nil
	p.scripts = scripts
	p.dials = 0
	p.mu.Unlock()
}

func (p *c03TCPPeer) count() int {
	p.mu.Lock()
	defer p.mu.Unlock()
	return p.dials
}

// TestVerif_C03_h1tcp: the same experiment over real loopback TCP (FIN and RST), judged by the
// property oracle only (with RST the kernel may discard delivered bytes, so the exact outcome
// of a cut is "an error", which is all the property states).
func TestVerif_C03_h1tcp(t *testing.T) {
	s := verifh.New(t, "C03", "h1tcp",
		"the h1cut experiment over loopback TCP: a raw TCP peer reads the request, writes the first k bytes of a generated response and closes (FIN) or resets (SO_LINGER 0); stratified k; "+
			"judged by the oracle: success implies k = len and the true body (close-delimited: the bytes sent); failure implies a fresh connection for the second request, which must succeed")
	r := s.Rand()
	rp := c03PosRand(2) // the round-6 dimensions draw from their own stream
	peers := []*c03TCPPeer{newC03TCPPeer(t), newC03TCPPeer(t), newC03TCPPeer(t), newC03TCPPeer(t)}
	defer func() {
		for _, p := range peers {
			p.ln.Close()
			p.next(nil)
		}
	}()
	nMsgs := verifh.N(25, 200)
	reached := map[string]int{}
	id := 0
	failures := 0
	tmpDir := t.TempDir()
	for i := 0; i < nMsgs && failures < 12; i++ {
		m := c03GenMsg(r, 300)
		if i%8 == 7 {
			m = c03GenMsg(r, 20000)
		}
		if i%5 == 2 {
			// a guaranteed share of close-delimited responses with a body (FIN vs RST at body offsets)
			for m.framing != "close" || len(m.body) < 4 || m.n1xx > 5 {
				m = c03GenMsg(rp, 300)
			}
		}
		for _, k := range c03Cuts(r, m.stream, false, verifh.N(3, 8)) {
			if k < 0 || k > len(m.stream) {
				continue
			}
			id++
			p := peers[id%len(peers)]
			mode := "eof"
			end := error(io.EOF)
			// RST (SO_LINGER 0) instead of FIN; close-delimited bodies at every other offset
			if rst := r.Intn(3) == 0; k < len(m.stream) && (rst || (m.framing == "close" && rp.Intn(2) == 0)) {
				mode, end = "reset", errC03Reset
			}
			firstSteps := []c03Step{{data: []byte(m.stream[:k]), end: end}}
			addr := p.ln.Addr().String()
			dial := func(ctx context.Context, network, _ string) (net.Conn, error) {
				var d net.Dialer
				return d.DialContext(ctx, "tcp", addr)
			}
			stream := r.Intn(3) == 0
			cc := &c03Caller{mode: c03PickMode(r, "", m.framing, len(m.body)), dir: tmpDir}
			if m.code == 101 {
				cc.mode = "auto"
			}
			// (only with FIN: a RST may overtake the bytes already sent, and a reused connection that
			// fails before the first response byte is replayed by the transport on a fresh one)
			if cc.pos = c03PickPos(rp, cc.mode, k > 0 && mode == "eof"); cc.pos != "" && m.code != 101 {
				firstSteps = append([]c03Step{{data: c03PreludeH1(cc.pos)}}, firstSteps...)
				s.Count("pos:" + cc.pos)
				reached["pos:"+cc.pos]++
			} else {
				cc.pos = ""
			}
			p.next([][]c03Step{firstSteps, {{data: c03SecondWire}}})
			obs := c03RunClient(dial, p.count, m.head, stream, verifh.Pick(r, []int{1, 64, 4096}), false, func() { p.next(nil) }, cc)
			s.Count("caller:" + cc.name())
			ok, why := true, ""
			complete := k == len(m.stream) && m.n1xx <= 5
			if strings.HasPrefix(obs.first, "ok") {
				he := m.headEnd()
				switch {
				case m.framing == "close" && mode == "reset":
					ok, why = false, "close-delimited response whose connection was RESET reported as success (a RST is never a clean end)"
				case m.framing == "close":
					if k < he || obs.first != "ok code="+strconv.Itoa(m.code)+" body="+verifh.Hex(m.stream[he:k]) {
						ok, why = false, "close-delimited body differs from the bytes sent"
					}
				case !complete:
					ok, why = false, "truncated response reported as success"
				case obs.first != "ok code="+strconv.Itoa(m.code)+" body="+verifh.Hex(m.body):
					ok, why = false, "success with a body/status other than the true one"
				}
				reached["first-ok"]++
			} else {
				if complete {
					ok, why = false, "complete response reported as failure: "+obs.firstErr
				}
				if obs.dials != 2 {
					ok, why = false, fmt.Sprintf("after a failed exchange the client dialled %d times in total", obs.dials)
				}
				reached["first-fail"]++
			}
			if obs.dialsAfter != 1 {
				ok, why = false, fmt.Sprintf("%d dials before the second request", obs.dialsAfter)
			}
			if !obs.secondOK {
				ok, why = false, "second request failed: "+obs.secondNote
			}
			if !ok {
				failures++
			}
			reached["mode:"+mode]++
			if mode == "reset" && m.framing == "close" && k > m.headEnd() {
				reached["close-reset-in-body"]++
				s.Count("close-reset-in-body")
			}
			s.Count("framing:" + m.framing)
			s.Count("mode:" + mode)
			human := fmt.Sprintf("tcp framing=%s len=%d cut k=%d then %s (caller=%s pos=%s) -> %s dials=%d err=%s", m.framing, len(m.stream), k, mode, cc.name(), cc.pos, obs.first, obs.dials, obs.firstErr)
			if why != "" {
				human += " ORACLE: " + why
			}
			s.Observe(fmt.Sprintf("h1tcp/%d/%s/%d/%x", i, mode, k, m.stream), ok, "", k > 0 && k < len(m.stream), human, why)
		}
	}
	s.Finish()
	if failures >= 12 {
		return
	}
	for _, need := range []string{"first-ok", "first-fail", "mode:eof", "mode:reset", "close-reset-in-body", "pos:digest", "pos:retried"} {
		if reached[need] == 0 {
			t.Errorf("C03/h1tcp never reached %q", need)
		}
	}
}

// ---------------------------------------------------------------------------- gzip

func c03Gzip(b []byte) []byte {
	var buf bytes.Buffer
	w := gzip.NewWriter(&buf)
	w.Write(b)
	w.Close()
	return buf.Bytes()
}

// TestVerif_C03_gzipcut: gzip-encoded bodies (client adds Accept-Encoding itself and decodes),
// every framing, cut at every offset.
func TestVerif_C03_gzipcut(t *testing.T) {
	s := verifh.New(t, "C03", "gzipcut",
		"gzip-compressed bodies under Content-Length, chunked and close-delimited framing, served cut at k (every k in thorough, stratified in quick) then EOF, to a client with transparent gzip decoding; "+
			"MODEL-judged (lane c03gz): the framing layer is the Lean HTTP/1.1 model, the decompressor the reference library's verdict on the one complete stream (its length, its plaintext); "+
			"second opinion (Go oracle): success implies the complete plaintext; class gzip-close-empty = close-delimited gzip response cut exactly after the header block (no gzip byte delivered)")
	r := s.Rand()
	nMsgs := verifh.N(12, 60)
	reached := map[string]int{}
	knownSeen := map[string]int{}
	failures := 0
	for i := 0; i < nMsgs && failures < 12; i++ {
		plain := verifh.RandBytes(r, 1+r.Intn(400), "abcdefgh \n")
		z := c03Gzip([]byte(plain))
		var wire strings.Builder
		framing := verifh.Pick(r, []string{"len", "chunked", "close"})
		switch framing {
		case "len":
			wire.WriteString("HTTP/1.1 200 OK\r\nContent-Encoding: gzip\r\nContent-Length: " + strconv.Itoa(len(z)) + "\r\n\r\n")
			wire.Write(z)
		case "chunked":
			wire.WriteString("HTTP/1.1 200 OK\r\nContent-Encoding: gzip\r\nTransfer-Encoding: chunked\r\n\r\n")
			rest := z
			for len(rest) > 0 {
				k := 1 + r.Intn(len(rest))
				wire.WriteString(strconv.FormatInt(int64(k), 16) + "\r\n")
				wire.Write(rest[:k])
				wire.WriteString("\r\n")
				rest = rest[k:]
			}
			wire.WriteString("0\r\n\r\n")
		case "close":
			wire.WriteString("HTTP/1.1 200 OK\r\nContent-Encoding: gzip\r\nConnection: close\r\n\r\n")
			wire.Write(z)
		}
		st := wire.String()
		he := strings.Index(st, "\r\n\r\n") + 4
		cuts := c03Cuts(r, st, verifh.Thorough(), 10)
		cuts = append(cuts, he)
		for _, k := range cuts {
			if k < 0 || k > len(st) {
				continue
			}
			nw := &c03Net{scripts: [][]c03Step{{{data: []byte(st[:k]), end: io.EOF}}, {{data: c03SecondWire}}}, seg: verifh.Pick(r, []int{0, 1, 13})}
			c := C().SetDial(nw.dial).DisableAutoDecode().SetTimeout(20 * time.Second)
			resp, err := c.R().Get("http://c03.invalid/z")
			first := "fail"
			if err == nil && resp != nil && resp.Err == nil {
				first = "ok body=" + verifh.Hex(string(resp.Bytes()))
			}
			second, err2 := c.R().Get("http://c03.invalid/z2")
			secondOK := err2 == nil && second != nil && second.String() == c03Second
			nw.closeAll()
			c.GetTransport().CloseIdleConnections()
			ok, why, class := true, "", ""
			if first != "fail" {
				if k != len(st) {
					ok, why = false, "truncated gzip response reported as success with body "+c04Short(string(resp.Bytes()))
					if framing == "close" && k == he {
						class = "gzip-close-empty"
					}
				} else if first != "ok body="+verifh.Hex(plain) {
					ok, why = false, "decoded body differs from the plaintext"
				}
				reached["ok"]++
			} else {
				if k == len(st) {
					ok, why = false, "complete gzip response reported as failure"
				}
				reached["fail"]++
			}
			if !secondOK {
				ok, why = false, "second request failed"
			}
			if !ok && class == "" {
				failures++
			}
			s.Count("framing:" + framing)
			human := fmt.Sprintf("gzip framing=%s len=%d (head %d) cut k=%d -> %s", framing, len(st), he, k, c04Short(first))
			if why != "" {
				human += " ORACLE: " + why
			}
			if !ok && class != "" {
				knownSeen[class]++
				if knownSeen[class] > 3 {
					s.Count("known-not-reported-again:" + class)
					ok = true
				}
			}
			line := "c03gz " + verifh.Hex(st) + " " + strconv.Itoa(k) + " " + strconv.Itoa(len(z)) + " " + verifh.Hex(plain)
			s.Case(line, first, ok, class, k > he && k < len(st), human)
		}
	}
	s.Finish()
	if reached["ok"] == 0 || reached["fail"] == 0 {
		t.Errorf("C03/gzipcut vacuous: %v", reached)
	}
}

var _ = errors.New
