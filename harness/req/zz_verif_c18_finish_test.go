//go:build verif

package req

// C18 lane `finish` (round 5): the two FINISHING SITES of the real code — (*Client).roundTrip
// (auto-read, parseResponseBody, handleDownload in the client's response middleware loop) and the
// tail of the digest middleware (auto-read, parseResponseBody, saveResponse on the answer to the
// authorized request) — each run in-package on the same fresh response, against the model's ONE
// function `Req.Pipeline.finish site` (driver line c18finish).

import (
	"encoding/json"
	"encoding/xml"
	"errors"
	"fmt"
	"io"
	"net/http"
	"net/url"
	"strings"
	"testing"

	"github.com/imroc/req/v3/internal/verifh"
)

func TestVerif_C18_finish(t *testing.T) {
	s := verifh.New(t, "C18", "finish",
		"both finishing sites of the real code in-package on one fresh response — site c: (*Client).roundTrip over a scripted http.RoundTripper (plain call / every retry attempt / end of a redirect chain), site d: the closure of handleDigestAuthFunc handed a 401 Digest challenge, its re-send answered by a scripted transport — x {no output, SetOutput writer accepting, SetOutput writer failing} x auto-read on/off x target matrix {success target} x {request-level error target} x {client-level common error type} x status (boundary set + uniform 100..599) x content type pool x body pool (well/ill-formed json and xml, type errors, binary) x read failure (without output); observed: the error the site ends with (resp.Err after roundTrip / the value the middleware returns), resp.Err, result and error slots (which object), body cached, output written; compared with the model's finish (one function, Site.combine) and with an independent oracle: a binding failure or a saving failure is never lost, nothing is bound after a failure, a request-level target beats the common type, the digest tail does not save after a binding failure; non-trivial = a target was selected or an output set")
	r := s.Rand()
	hist := newC18Hist(s)
	n := verifh.N(20000, 250000)
	for k := 0; k < n; k++ {
		site := "c"
		if k%2 == 1 {
			site = "d"
		}
		code := c18PickStatus(r)
		if site == "d" && r.Intn(3) == 0 {
			code = []int{200, 201, 400, 404, 500, 204, 401, 403}[r.Intn(8)]
		}
		sT, eT, cE := r.Intn(3) != 0, r.Intn(2) == 0, r.Intn(2) == 0
		autoRead := r.Intn(4) != 0
		save, outFails := false, false
		switch r.Intn(4) {
		case 0:
			save = true
		case 1:
			save, outFails = true, true
		}
		readOK := save || r.Intn(6) != 0 // a read failure together with an output: pipe / e2e lanes
		ct := verifh.Pick(r, c18ContentTypes)
		body := verifh.Pick(r, c18Bodies)
		for save && body == "" { // a writer that is given nothing never fails (see saveErr)
			body = verifh.Pick(r, c18Bodies)
		}

		c := C()
		if cE {
			c.SetCommonErrorResult(&c18C{})
		}
		if !autoRead {
			c.DisableAutoReadResponse()
		}
		c.SetJsonUnmarshal(func(b []byte, v interface{}) error {
			if err := json.Unmarshal(b, v); err != nil {
				return &c18UnmErr{err}
			}
			return nil
		})
		c.SetXmlUnmarshal(func(b []byte, v interface{}) error {
			if err := xml.Unmarshal(b, v); err != nil {
				return &c18UnmErr{err}
			}
			return nil
		})
		req := c.R()
		req.Method = "GET"
		req.URL, _ = url.Parse("http://c18.test/p")
		req.Headers = http.Header{}
		var okT c18T
		var erT c18E
		if sT {
			req.SetSuccessResult(&okT)
		}
		if eT {
			req.SetErrorResult(&erT)
		}
		out := &c18OutWriter{fail: func() bool { return outFails }, onFail: func() {}}
		if save {
			req.SetOutput(out)
		}
		answer := func(hr *http.Request) (*http.Response, error) {
			h := http.Header{}
			if ct != "" {
				h.Set("Content-Type", ct)
			}
			return &http.Response{StatusCode: code, Status: fmt.Sprintf("%d X", code), Proto: "HTTP/1.1", ProtoMajor: 1, ProtoMinor: 1,
				Header: h, Body: c18Body(body, readOK), Request: hr, ContentLength: -1}, nil
		}
		var resp *Response
		var siteErr error
		exchanges := 0
		if site == "c" {
			c.GetClient().Transport = rtFuncC18(func(hr *http.Request) (*http.Response, error) {
				exchanges++
				return answer(hr)
			})
			if txt, p := verifh.Safely(func() { resp, siteErr = c.roundTrip(req) }); p {
				s.Crash(fmt.Sprintf("finish/%d", k), "roundTrip panicked", txt, "")
				continue
			}
			if resp == nil {
				s.Crash(fmt.Sprintf("finish/%d", k), "roundTrip returned a nil response", "", "")
				continue
			}
			if siteErr != resp.Err {
				s.Observe(fmt.Sprintf("finish/%d/agree", k), false, "", true, "roundTrip returned an error that is not resp.Err",
					fmt.Sprintf("err=%v resp.Err=%v", siteErr, resp.Err))
			}
		} else {
			c.GetTransport().DisableAutoDecode()
			c.GetTransport().WrapRoundTripFunc(func(http.RoundTripper) HttpRoundTripFunc {
				return func(hr *http.Request) (*http.Response, error) {
					exchanges++
					return answer(hr)
				}
			})
			raw, _ := http.NewRequest("GET", "http://c18.test/p", nil)
			req.RawRequest = raw
			ch := http.Header{}
			ch.Set("Www-Authenticate", c18Challenge)
			ch.Set("Content-Type", "application/json")
			resp = &Response{Request: req, Response: &http.Response{StatusCode: 401, Status: "401 X", Proto: "HTTP/1.1", ProtoMajor: 1, ProtoMinor: 1,
				Header: ch, Body: io.NopCloser(strings.NewReader(`{"msg":"challenge"}`)), Request: raw}}
			mw := handleDigestAuthFunc("u", "p")
			if txt, p := verifh.Safely(func() { siteErr = mw(c, resp) }); p {
				s.Crash(fmt.Sprintf("finish/%d", k), "digest middleware panicked", txt, "")
				continue
			}
		}
		if exchanges != 1 {
			s.Observe(fmt.Sprintf("finish/%d/exch", k), false, "", true, "the site made "+fmt.Sprint(exchanges)+" exchanges, expected 1", "")
			continue
		}
		// observed
		res := resp.SuccessResult() != nil
		errSlot := "-"
		if e := resp.ErrorResult(); e != nil {
			switch v := e.(type) {
			case *c18E:
				if v == &erT {
					errSlot = "R"
				} else {
					errSlot = "?foreignE"
				}
			case *c18C:
				errSlot = "C"
			default:
				errSlot = "?" + fmt.Sprintf("%T", e)
			}
		}
		if res && resp.SuccessResult() != interface{}(&okT) {
			errSlot += "?foreignT"
		}
		saved := len(out.buf) > 0
		impl := "err=" + c18ErrName(siteErr) + " rerr=" + c18ErrName(resp.Err) + " res=" + c18b(res) + " eslot=" + errSlot +
			" cached=" + c18b(resp.Bytes() != nil) + " saved=" + c18b(saved)

		_, jsonOK := c18Decode(body, false, &c18T{})
		_, xmlOK := c18Decode(body, true, &c18T{})
		line := fmt.Sprintf("c18finish %s %s %s %s %s %s %s %d %s %s %s %s", site, c18b(save), c18b(outFails), c18b(autoRead),
			c18b(sT), c18b(eT), c18b(cE), code, verifh.Hex(ct), c18b(readOK), c18b(jsonOK), c18b(xmlOK))

		// independent oracle
		state := "U"
		if code >= 200 && code <= 299 {
			state = "S"
		} else if code >= 400 {
			state = "E"
		}
		want := "" // which target must be selected
		if code != 204 {
			switch {
			case state == "S" && sT:
				want = "T"
			case state == "E" && eT:
				want = "R" // the request-level target beats the common type
			case state == "E" && cE:
				want = "C"
			}
		}
		lct := strings.ToLower(ct)
		useXML := !strings.Contains(lct, "json") && strings.Contains(lct, "xml")
		fits := jsonOK
		if useXML {
			fits = xmlOK
		}
		bindFails := want != "" && (!readOK || !fits)
		saveFails := save && outFails && !(site == "d" && bindFails)
		ok, why := true, ""
		bad := func(w string) {
			if ok {
				ok, why = false, w
			}
		}
		if (bindFails || saveFails) && siteErr == nil {
			bad("a stage of the finishing site failed but the site reports no error")
		}
		// the auto-read block reads without a target; only the client loop site sees that failure
		// (the digest middleware ignores what ToBytes returns; it stays in resp.Err)
		autoReadFails := !readOK && autoRead && !save && code > 199
		if autoReadFails && resp.Err == nil {
			bad("the auto-read failed but resp.Err is empty")
		}
		if !bindFails && !saveFails && siteErr != nil && !(site == "c" && autoReadFails) {
			bad("no stage failed but the site reports an error")
		}
		if bindFails && !saveFails && readOK && c18ErrName(siteErr) != "unm" {
			bad("the binding failure is not the error the site ends with")
		}
		if saveFails && site == "c" && !errors.Is(siteErr, c18ErrOutput) {
			bad("client loop: the output failure is not recorded")
		}
		if saveFails && site == "d" && !bindFails && !errors.Is(siteErr, c18ErrOutput) {
			bad("digest tail: the output failure is not returned")
		}
		if site == "d" && bindFails && save && saved {
			bad("digest tail: the response was saved although binding it failed")
		}
		if save && !outFails && !(site == "d" && bindFails) && string(out.buf) != body {
			bad("the output does not hold the body of the finished response")
		}
		gotT := ""
		if res {
			gotT = "T"
		}
		if errSlot != "-" {
			gotT += errSlot
		}
		if bindFails && gotT != "" {
			bad("a result is bound although binding failed")
		}
		if !bindFails && gotT != want {
			bad("bound " + gotT + ", expected " + want)
		}
		human := fmt.Sprintf("site=%s status=%d ct=%q body=%q targets(s=%v e=%v c=%v) autoRead=%v save=%v outFails=%v readOK=%v -> %s",
			site, code, ct, body, sT, eT, cE, autoRead, save, outFails, readOK, impl)
		if !ok {
			human += " ORACLE: " + why
		}
		s.Case(line, impl, ok, "", want != "" || save, human)
		hist.Count("site=" + site)
		if want != "" {
			hist.Count("target=" + want)
		}
		if bindFails {
			hist.Count(site + ":bind-fails")
			if save && !outFails {
				hist.Count(site + ":bind-fails+saved-ok")
			}
			if save && outFails {
				hist.Count(site + ":bind-fails+save-fails")
			}
		}
		if saveFails {
			hist.Count(site + ":save-fails")
		}
		if save && !bindFails && !saveFails {
			hist.Count(site + ":saved")
		}
		if eT && cE && state == "E" && code != 204 {
			hist.Count("both-error-targets")
		}
	}
	hist.need(t, "site=c", "site=d", "target=T", "target=R", "target=C", "both-error-targets",
		"c:bind-fails", "d:bind-fails", "c:bind-fails+saved-ok", "d:bind-fails+saved-ok", "c:bind-fails+save-fails",
		"d:bind-fails+save-fails", "c:save-fails", "d:save-fails", "c:saved", "d:saved")
	s.Finish()
}
