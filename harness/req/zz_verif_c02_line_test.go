//go:build verif

package req

import (
	"bufio"
	"bytes"
	"fmt"
	"io"
	"net/http"
	"strconv"
	"strings"
	"testing"
	"time"

	"github.com/imroc/req/v3/internal/dump"
	"github.com/imroc/req/v3/internal/verifh"
)

// ---------------------------------------------------------------------------------------
// C02 round 5, class "a head line of ANY length x response-header dump on/off".
//
// newTextprotoReader installs one of two line readers: bufio.Reader.ReadLine, or - when the
// response header is dumped - its own closure over ReadSlice('\n') that has to reproduce
// ReadLine's handling of a line that does not fit the buffer (prefix pieces, a CR on the last
// byte of a full buffer put back so that CR LF is still recognised).  Lane "h1line" runs the
// real textprotoReader.ReadLine over a real bufio.Reader of a generated size on a generated
// segmentation, with and without dumpers, against Req.C02.Bufio.readLines (model-judged,
// theorem readLineSlice_any_length).  Lane "h1longline" is the end-to-end side: the real
// client, dump option matrix x read-buffer size x which line of the head is long x length
// around every multiple of the buffer size.
// ---------------------------------------------------------------------------------------

// c02Buckets: histogram buckets a lane must reach (checked after Finish).
type c02Buckets struct {
	s *verifh.Session
	m map[string]int
}

func (b *c02Buckets) count(k string) { b.s.Count(k); b.m[k]++ }

func (b *c02Buckets) require(t *testing.T, lane string, keys ...string) {
	for _, k := range keys {
		if b.m[k] == 0 {
			t.Errorf("lane %s never reached %q", lane, k)
		}
	}
}

func c02LineDumpers(out io.Writer) dump.Dumpers {
	return dump.Dumpers{dump.NewDumper(dumpOptions{&DumpOptions{Output: out, ResponseHeader: true}})}
}

func TestVerif_C02_h1line(t *testing.T) {
	s := verifh.New(t, "C02", "h1line",
		"real textprotoReader.ReadLine (newTextprotoReader with and without response-header dumpers) over a real bufio.Reader of size cap in {16,17,32,61,64,128,4096} on a generated segmentation: 1..5 lines of length m*cap+d (m 0..3, d -3..3) or random, content letters with CRs sprinkled (also as last content byte, also CR CR), line end CRLF / LF / none (stream ends: FIN or reset); compared line by line (bytes, error class, unread wire bytes) with Req.C02.Bufio.readLines; oracle (dump on): what was dumped is byte for byte what was consumed; non-trivial = some line does not fit the buffer")
	r := s.Rand()
	bk := &c02Buckets{s, map[string]int{}}
	n := verifh.N(700, 30000)
	for c := 0; c < n; c++ {
		cp := verifh.Pick(r, []int{16, 17, 32, 61, 64, 128, 4096})
		if r.Intn(4) != 0 && cp == 4096 {
			cp = verifh.Pick(r, []int{16, 17, 32, 61, 64, 128})
		}
		nl := 1 + r.Intn(5)
		var wire strings.Builder
		long := false
		crEdge := false
		for i := 0; i < nl; i++ {
			var L int
			switch r.Intn(4) {
			case 0:
				L = r.Intn(cp + 2)
			default:
				L = r.Intn(4)*cp + r.Intn(7) - 3
				if L < 0 {
					L = 0
				}
			}
			alpha := "abcdefghijklmnopqrstuvwxyz: -"
			if r.Intn(3) == 0 {
				alpha = "ab\r"
			}
			line := []byte(verifh.RandBytes(r, L, alpha))
			if L > 0 && r.Intn(6) == 0 {
				line[L-1] = '\r'
			}
			if L >= cp && r.Intn(4) == 0 {
				line[cp-1] = '\r' // a CR that is not a line end on the last byte of a full buffer
			}
			if L+2 > cp {
				long = true
			}
			if (L+1)%cp == 0 && L+1 >= cp {
				crEdge = true
			}
			wire.Write(line)
			last := i == nl-1
			switch k := r.Intn(10); {
			case k < 7:
				wire.WriteString("\r\n")
			case k < 9 || !last:
				wire.WriteString("\n")
			default: // the stream ends inside the last line
			}
		}
		w := wire.String()
		segs := c02Split(s, w)
		fin, finS := io.EOF, "eof"
		if r.Intn(4) == 0 {
			fin, finS = errC02Reset, "reset"
		}
		dumpOn := r.Intn(2) == 0
		ask := nl + r.Intn(2) // one call more than there are lines now and then: the end error
		sr := &c02SegReader{fin: fin, left: len(w)}
		for _, sg := range segs {
			sr.segs = append(sr.segs, []byte(sg))
		}
		br := bufio.NewReaderSize(sr, cp)
		var dumped bytes.Buffer
		var ds dump.Dumpers
		if dumpOn {
			ds = c02LineDumpers(&dumped)
		}
		var lines []string
		errS := "ok"
		ptxt, panicked := verifh.Safely(func() {
			tp := newTextprotoReader(br, ds)
			for i := 0; i < ask; i++ {
				l, err := tp.ReadLine()
				if err != nil {
					errS = c02IOErrClass(err)
					break
				}
				lines = append(lines, l)
			}
		})
		human := fmt.Sprintf("cap=%d dump=%v lines=%d ask=%d wire=%d segs=%d fin=%s wire[:80]=%q", cp, dumpOn, nl, ask, len(w), len(segs), finS, w[:c02MinInt(80, len(w))])
		line := fmt.Sprintf("c02h1line %d %s %s %d", cp, verifh.HexList(segs), finS, ask)
		if panicked {
			s.Crash(line, human, ptxt, "")
			continue
		}
		rem := sr.left + br.Buffered()
		impl := "lines=" + verifh.HexList(lines) + " err=" + errS + " rem=" + strconv.Itoa(rem)
		ok := true
		if dumpOn {
			bk.count("dump-on")
			// second opinion: the dump is what was consumed
			if dumped.String() != w[:len(w)-rem] {
				ok = false
			}
		} else {
			bk.count("dump-off")
		}
		if long {
			bk.count("line-exceeds-buffer")
		}
		if crEdge {
			bk.count("cr-on-last-byte-of-full-buffer")
			if dumpOn {
				bk.count("cr-edge-x-dump")
			}
		}
		bk.count("cap:" + strconv.Itoa(cp))
		s.Case(line, impl, ok, "", long, human)
	}
	s.Finish()
	bk.require(t, "h1line", "line-exceeds-buffer", "cr-on-last-byte-of-full-buffer", "cr-edge-x-dump", "dump-on", "dump-off")
}

// ---------------------------------------------------------------------------------------

type c02LongLineCase struct {
	wire     string
	status   int
	fields   []c02Field
	body     string
	trailers []c02Field
}

func TestVerif_C02_h1longline(t *testing.T) {
	s := verifh.New(t, "C02", "h1longline",
		"real client <-> raw TCP peer: ONE line of the response head (status line's reason phrase | a field line | a field line of an interim 103 | the line before the blank line) has length m*B+d without CRLF, B = read buffer size in {default 4096, 512, 1024, 8192 via SetReadBufferSize}, m 1..3, d -3..2; dump option matrix {off, EnableDumpAllTo, EnableDumpAllWithoutResponseBody, EnableDumpAllWithoutHeader (no header dump), request-level EnableDumpTo, EnableDumpWithoutResponse}; framing {Content-Length, chunked+trailers, close}; Pragma / Cache-Control fields {none, Pragma: no-cache, other first value, with Cache-Control} (over HTTP/1.1 fixPragmaCacheControl adds Cache-Control: no-cache); written whole or in a generated segmentation; view = status, X- fields, trailers, body vs the origin's spec (oracle) and vs Req.C02.h1ReceiveView on the written segmentation; non-trivial = the long line exceeds the buffer")
	r := s.Rand()
	bk := &c02Buckets{s, map[string]int{}}
	peer := c02NewH1Peer(t)
	defer peer.ln.Close()
	dir := t.TempDir()
	base := "http://" + peer.ln.Addr().String()
	n := verifh.N(150, 4000)
	fails := 0
	for c := 0; c < n && fails < 8; c++ {
		B := verifh.Pick(r, []int{0, 0, 512, 1024, 8192})
		eff := B
		if eff == 0 {
			eff = 4096
		}
		cl := C().SetTimeout(10 * time.Second)
		cl.GetTransport().DisableAutoDecode()
		if B != 0 {
			cl.GetTransport().SetReadBufferSize(B)
		}
		var sink bytes.Buffer
		dumpKind := verifh.Pick(r, []string{"off", "all", "all", "all-noRespBody", "all-noHeader", "req", "req-noResp"})
		reqDump := func(rq *Request) {}
		hdrDump := false
		switch dumpKind {
		case "all":
			cl.EnableDumpAllTo(&sink)
			hdrDump = true
		case "all-noRespBody":
			cl.EnableDumpAllTo(&sink).EnableDumpAllWithoutResponseBody()
			hdrDump = true
		case "all-noHeader":
			cl.EnableDumpAllTo(&sink).EnableDumpAllWithoutHeader()
		case "req":
			reqDump = func(rq *Request) { rq.EnableDumpTo(&sink) }
			hdrDump = true
		case "req-noResp":
			reqDump = func(rq *Request) { rq.EnableDumpTo(&sink).EnableDumpWithoutResponse() }
		}
		m := 1 + r.Intn(3)
		d := r.Intn(6) - 3
		L := m*eff + d
		where := verifh.Pick(r, []string{"status", "field", "field", "interim", "lastfield"})
		mk := func(prefix string) string { // a line of exactly L bytes starting with prefix
			if L <= len(prefix) {
				return prefix
			}
			return prefix + verifh.RandBytes(r, L-len(prefix), "abcdefghijklmnopqrstuvwxyz0123456789")
		}
		lc := &c02LongLineCase{status: verifh.Pick(r, []int{200, 200, 201, 404, 500})}
		var sb strings.Builder
		if where == "interim" {
			l := mk("X-Early: ")
			sb.WriteString("HTTP/1.1 103 Early Hints\r\n" + l + "\r\n\r\n")
		} else if r.Intn(4) == 0 {
			sb.WriteString("HTTP/1.1 103 Early Hints\r\nX-Early: 1\r\n\r\n")
		}
		if where == "status" {
			sb.WriteString(mk("HTTP/1.1 "+strconv.Itoa(lc.status)+" ") + "\r\n")
		} else {
			sb.WriteString("HTTP/1.1 " + strconv.Itoa(lc.status) + " " + c02StatusText(lc.status) + "\r\n")
		}
		addField := func(line string) {
			sb.WriteString(line + "\r\n")
			k, v, _ := strings.Cut(line, ": ")
			lc.fields = append(lc.fields, c02Field{k, v})
		}
		addField("X-A: " + verifh.RandBytes(r, r.Intn(20), "abcdef0123"))
		if where == "field" {
			addField(mk("X-Long: "))
		}
		addField("X-B: " + verifh.RandBytes(r, r.Intn(20), "abcdef0123"))
		// Pragma / Cache-Control (theorem h1_head_roundtrip_pragma): over HTTP/1.1 a first
		// Pragma value "no-cache" without any Cache-Control field adds Cache-Control: no-cache
		switch r.Intn(5) {
		case 0:
			addField("Pragma: no-cache")
		case 1:
			addField("Pragma: x-other")
			if r.Intn(2) == 0 {
				addField("Pragma: no-cache")
			}
		case 2:
			addField("Cache-Control: max-age=60")
			addField("Pragma: no-cache")
		}
		lc.body = verifh.RandBytes(r, verifh.Pick(r, []int{0, 1, 100, 4095, 4096, 4097, 9000}), "")
		framing := verifh.Pick(r, []string{"len", "chunked", "close"})
		closeAfter := false
		var tail string
		switch framing {
		case "len":
			sb.WriteString("Content-Length: " + strconv.Itoa(len(lc.body)) + "\r\n")
			tail = lc.body
		case "chunked":
			sb.WriteString("Transfer-Encoding: chunked\r\n")
			if r.Intn(2) == 0 {
				lc.trailers = []c02Field{{"X-T", verifh.RandBytes(r, 1+r.Intn(10), "abc019")}}
			}
			var writes []string
			for b := lc.body; len(b) > 0; {
				k := 1 + r.Intn(5000)
				if k > len(b) {
					k = len(b)
				}
				writes = append(writes, b[:k])
				b = b[k:]
			}
			tail = c02EncodeChunked(s, writes, lc.trailers, false)
		case "close":
			sb.WriteString("Connection: close\r\n")
			closeAfter = true
			tail = lc.body
		}
		if where == "lastfield" {
			addField(mk("X-Last: "))
		}
		sb.WriteString("\r\n")
		sb.WriteString(tail)
		lc.wire = sb.String()
		var segs []string
		if r.Intn(2) == 0 {
			segs = []string{lc.wire}
		} else {
			segs = c02Split(s, lc.wire)
			if len(segs) > 3000 {
				segs = []string{lc.wire}
			}
		}
		path := "/ll" + strconv.Itoa(c)
		peer.mu.Lock()
		peer.cases[path] = &c02H1Wire{segs: segs, closeAfter: closeAfter}
		peer.mu.Unlock()
		mode := c02GenMode(s)
		human := fmt.Sprintf("h1 long=%s L=%d*%d%+d dump=%s readbuf=%d %s status=%d body=%d trailers=%d segs=%d mode=%s/%d", where, m, eff, d, dumpKind, B, framing, lc.status, len(lc.body), len(lc.trailers), len(segs), mode.name, mode.k)
		s.Begin(path, human)
		sp := &c02Spec{status: lc.status}
		var view string
		extraOK := true
		ptxt, panicked := verifh.Safely(func() {
			view, extraOK = c02FetchWith(cl, sp, mode, base+path, dir, c, reqDump)
		})
		cl.GetTransport().CloseIdleConnections()
		peer.mu.Lock()
		delete(peer.cases, path)
		peer.mu.Unlock()
		if panicked {
			s.Crash(human, human, ptxt, "")
			continue
		}
		h, tr := http.Header{}, http.Header{}
		for _, f := range lc.fields {
			h.Add(f.k, strings.Trim(f.v, " \t"))
		}
		for _, f := range lc.trailers {
			tr.Add(f.k, f.v)
		}
		if pv := h["Pragma"]; len(pv) > 0 {
			if _, hasCC := h["Cache-Control"]; pv[0] == "no-cache" && !hasCC {
				h["Cache-Control"] = []string{"no-cache"}
				bk.count("pragma-adds-cache-control")
			} else {
				bk.count("pragma-without-effect")
			}
		}
		want := c02ViewString(lc.status, h, tr, []byte(lc.body), "ok")
		ok := view == want && extraOK
		if !ok {
			fails++
		}
		bk.count("where:" + where)
		bk.count("dump:" + dumpKind)
		bk.count("readbuf:" + strconv.Itoa(B))
		if hdrDump {
			bk.count("header-dumped")
			if d == -1 {
				bk.count("cr-edge-x-header-dump")
			}
		} else if d == -1 {
			bk.count("cr-edge-no-header-dump")
		}
		if len(lc.wire) <= 40000 {
			k := mode.k
			if k < 512 {
				k = 4096
			}
			s.Case(fmt.Sprintf("c02h1full 0 eof %d %s %d", eff, verifh.HexList(segs), k), view, ok, "", true, human)
		} else {
			detail := view
			if len(detail) > 300 {
				detail = detail[:300] + "…"
			}
			s.Observe(human+" #"+strconv.Itoa(c), ok, "", true, human, detail)
		}
	}
	s.Finish()
	if fails < 8 {
		bk.require(t, "h1longline", "cr-edge-x-header-dump", "cr-edge-no-header-dump", "where:status", "where:field", "where:interim", "where:lastfield", "pragma-adds-cache-control", "pragma-without-effect")
	}
}
