//go:build verif

package req

// C19 lanes `reqcookies` and `connect` (both MODEL-judged; Lean model Req/Client/ReqTime.lean, driver
// lanes `c19cookies`, `c19connect`): what REQUEST-TIME code does to client-level slices and maps.
//
// reqcookies — parseRequestCookie (`r.Cookies = append(r.Cookies, c.Cookies...)`): clients whose cookie
// slice was built by several SetCommonCookies calls (spare capacity), clones of them, several requests
// with and without request-level cookies, sent in sequence, retried, sent from inside the retry hook of
// another request, with SetCommonCookies / ClearCookies / Request.SetCookies in between. The slice
// header of every client's and every request's cookie slice is read from the REAL heap before and after
// the program and judged by ValuesHeap.sepB (theorem request_time_appends_copy: separated slices act as
// values under every such program); the cookies every attempt put on the wire and the final content of
// every slice are compared with the value model (ReqTime.runRA / sentLog).
//
// connect — Transport.dialConn: the header of the CONNECT request = ProxyConnectHeader + the credentials
// of the proxy URL, built on a copy. Programs of SetProxyConnectHeader / Clone / SetProxyURL (with and
// without userinfo) / requests to a TLS origin through an in-process CONNECT proxy, on a client, its
// clones and clones of clones (which share the header map by design); every CONNECT header the proxy
// received and the final content of every client's ProxyConnectHeader are compared with ReqTime.runP.

import (
	"bufio"
	"encoding/base64"
	"fmt"
	"io"
	"net"
	"net/http"
	"net/http/httptest"
	"sort"
	"strings"
	"sync"
	"testing"
	"time"
	"unsafe"

	"github.com/imroc/req/v3/internal/verifh"
)

func c19CookieSlots(cs []*Client, rs []*Request) []c19ValSlot {
	var out []c19ValSlot
	add := func(id int, ck []*http.Cookie) {
		if len(ck) == 0 && cap(ck) == 0 {
			return
		}
		sl := c19ValSlot{id: id, len: len(ck), cap: cap(ck)}
		if cap(ck) > 0 {
			sl.ptr = uintptr(unsafe.Pointer(unsafe.SliceData(ck)))
		}
		for _, c := range ck {
			sl.vals = append(sl.vals, c19CookieID(c.Name))
		}
		out = append(out, sl)
	}
	for i, c := range cs {
		add(i, c.Cookies)
	}
	for j, r := range rs {
		add(100+j, r.Cookies)
	}
	return out
}

func c19CookieShow(slots []c19ValSlot) string {
	var parts []string
	for _, s := range slots {
		if s.len > 0 {
			parts = append(parts, fmt.Sprintf("%d:%s", s.id, c19List(s.vals)))
		}
	}
	if len(parts) == 0 {
		return "_"
	}
	return strings.Join(parts, ",")
}

func TestVerif_C19_reqcookies(t *testing.T) {
	s := verifh.New(t, "C19", "reqcookies",
		"1-3 clients (original, clone, clone of clone) whose cookie slices are built by 0-4 SetCommonCookies calls of 1-2 cookies (so with and without spare capacity), 3-5 requests with 0-2 request-level cookies; the requests are sent in sequence with 0-2 retries each; between attempts (in the retry hook) and between sends: SetCommonCookies, ClearCookies, Request.SetCookies on an unsent request, another request sent; the slice header of every cookie slice is read from the real heap before and after and judged by the model (sepB), the cookies of every attempt as the origin received them and the final slices are compared with the value model; non-trivial = a request with own cookies was sent by a client whose slice had spare capacity and at least one more send followed")
	r := s.Rand()
	var mu sync.Mutex
	var wire []string
	srv := httptest.NewServer(http.HandlerFunc(func(rw http.ResponseWriter, rq *http.Request) {
		var ids []int
		for _, ck := range rq.Cookies() {
			ids = append(ids, c19CookieID(ck.Name))
		}
		mu.Lock()
		wire = append(wire, fmt.Sprintf("%s:%s", rq.Header.Get("X-Rid"), c19List(ids)))
		mu.Unlock()
		rw.WriteHeader(200)
	}))
	defer srv.Close()
	n := verifh.N(300, 6000)
	for i := 0; i < n; i++ {
		nextVal := 10
		val := func() int { nextVal++; return nextVal }
		mk := func(k int) []*http.Cookie {
			var out []*http.Cookie
			for ; k > 0; k-- {
				out = append(out, &http.Cookie{Name: c19CookieName(val()), Value: "v"})
			}
			return out
		}
		build := func(c *Client) {
			for k := r.Intn(5); k > 0; k-- {
				c.SetCommonCookies(mk(1 + r.Intn(4)/3)...)
			}
		}
		c0 := C()
		c0.SetLogger(nil)
		build(c0)
		cs := []*Client{c0}
		for len(cs) < 3 && r.Intn(2) == 0 {
			cc := cs[r.Intn(len(cs))].Clone()
			if r.Intn(2) == 0 {
				build(cc)
			}
			cs = append(cs, cc)
			s.Count("clone")
		}
		nr := 3 + r.Intn(3)
		var rs []*Request
		owner := make([]int, nr)
		retries := make([]int, nr)
		sentAlready := make([]bool, nr)
		for j := 0; j < nr; j++ {
			owner[j] = r.Intn(len(cs))
			rq := cs[owner[j]].R().SetHeader("X-Rid", fmt.Sprint(100+j))
			for k := r.Intn(3); k > 0; k-- {
				rq.SetCookies(mk(1)...)
			}
			rs = append(rs, rq)
		}
		slots := c19CookieSlots(cs, rs)
		layout, next := c19SliceLayout(slots, unsafe.Sizeof((*http.Cookie)(nil)))
		mu.Lock()
		wire = wire[:0]
		mu.Unlock()
		var ops []string
		spareSend, sends := false, 0
		var sendReq func(j int, depth int)
		gap := func(depth int) {
			for k := r.Intn(3); k > 0; k-- {
				switch x := r.Intn(10); {
				case x < 4:
					ci := r.Intn(len(cs))
					v := val()
					cs[ci].SetCommonCookies(&http.Cookie{Name: c19CookieName(v), Value: "v"})
					ops = append(ops, fmt.Sprintf("C%d:%d", ci, v))
					s.Count("gap:set-common")
				case x < 5:
					ci := r.Intn(len(cs))
					cs[ci].ClearCookies()
					ops = append(ops, fmt.Sprintf("X%d", ci))
					s.Count("gap:clear")
				case x < 7:
					j := r.Intn(nr)
					if !sentAlready[j] {
						v := val()
						rs[j].SetCookies(&http.Cookie{Name: c19CookieName(v), Value: "v"})
						ops = append(ops, fmt.Sprintf("R%d:%d", 100+j, v))
						s.Count("gap:set-request")
					}
				default:
					j := r.Intn(nr)
					if !sentAlready[j] && depth < 2 {
						s.Count("gap:send-other")
						sendReq(j, depth+1)
					}
				}
			}
		}
		failed := ""
		sendReq = func(j int, depth int) {
			sentAlready[j] = true
			rq, ci := rs[j], owner[j]
			if len(rq.Cookies) > 0 && cap(cs[ci].Cookies) > len(cs[ci].Cookies) {
				spareSend = true
				s.Count("send:own-cookies+client-spare-capacity")
			}
			rc := retries[j]
			calls := 0
			if rc > 0 {
				rq.SetRetryCount(rc).SetRetryFixedInterval(time.Microsecond).
					SetRetryCondition(func(*Response, error) bool { calls++; return calls <= rc }).
					SetRetryHook(func(*Response, error) {
						gap(depth)
						ops = append(ops, fmt.Sprintf("S%d:%d:%d", 100+j, ci, rq.RetryAttempt))
						sends++
					})
				s.Count(fmt.Sprintf("retries:%d", rc))
			}
			ops = append(ops, fmt.Sprintf("S%d:%d:0", 100+j, ci))
			sends++
			if _, err := rq.Get(srv.URL); err != nil {
				failed = err.Error()
			}
		}
		for j := 0; j < nr; j++ {
			retries[j] = []int{0, 0, 1, 2}[r.Intn(4)]
		}
		for _, j := range r.Perm(nr) {
			if sentAlready[j] {
				continue
			}
			sendReq(j, 0)
			gap(0)
		}
		if failed != "" {
			s.Crash(fmt.Sprintf("reqcookies-%d", i), strings.Join(ops, ";"), failed, "")
			continue
		}
		mu.Lock()
		got := strings.Join(wire, "|")
		mu.Unlock()
		if got == "" {
			got = "_"
		}
		after := c19CookieSlots(cs, rs)
		line := fmt.Sprintf("c19cookies %d %s %s", next, layout, strings.Join(ops, ";"))
		s.Case(line, "sep=1;"+c19CookieShow(after)+";sent="+got, true, "", spareSend && sends >= 2, line)
		// the layout the program left behind must be separated as well
		layout2, next2 := c19SliceLayout(after, unsafe.Sizeof((*http.Cookie)(nil)))
		line2 := fmt.Sprintf("c19cookies %d %s _", next2, layout2)
		s.Case(line2, "sep=1;"+c19CookieShow(after)+";sent=_", true, "", spareSend && sends >= 2, line+" => "+line2)
	}
	s.Finish()
}

// ------------------------------------------------------------------ CONNECT proxy

type c19ConnectProxy struct {
	ln  net.Listener
	mu  sync.Mutex
	log []http.Header
}

func c19NewConnectProxy() (*c19ConnectProxy, error) {
	ln, err := net.Listen("tcp", "127.0.0.1:0")
	if err != nil {
		return nil, err
	}
	p := &c19ConnectProxy{ln: ln}
	go func() {
		for {
			conn, err := ln.Accept()
			if err != nil {
				return
			}
			go p.serve(conn)
		}
	}()
	return p, nil
}

func (p *c19ConnectProxy) serve(conn net.Conn) {
	defer conn.Close()
	br := bufio.NewReader(conn)
	rq, err := http.ReadRequest(br)
	if err != nil {
		return
	}
	if rq.Method != "CONNECT" {
		io.WriteString(conn, "HTTP/1.1 400 Bad Request\r\nContent-Length: 0\r\nConnection: close\r\n\r\n")
		return
	}
	p.mu.Lock()
	p.log = append(p.log, rq.Header.Clone())
	p.mu.Unlock()
	up, err := net.DialTimeout("tcp", rq.Host, 3*time.Second)
	if err != nil {
		io.WriteString(conn, "HTTP/1.1 502 Bad Gateway\r\nContent-Length: 0\r\n\r\n")
		return
	}
	defer up.Close()
	io.WriteString(conn, "HTTP/1.1 200 Connection established\r\n\r\n")
	done := make(chan struct{}, 2)
	go func() { io.Copy(up, br); done <- struct{}{} }()
	go func() { io.Copy(conn, up); done <- struct{}{} }()
	<-done
}

func (p *c19ConnectProxy) take() []http.Header {
	p.mu.Lock()
	defer p.mu.Unlock()
	out := p.log
	p.log = nil
	return out
}

func c19BasicAuth(id int) string {
	return "Basic " + base64.StdEncoding.EncodeToString([]byte(fmt.Sprintf("u%d:p", id)))
}

// c19ConnectHeaderCanon renders the part of a header the model speaks about: key 0 =
// Proxy-Authorization (value = credentials id), key k = X-Pk<k>.
func c19ConnectHeaderCanon(h http.Header) string {
	type kv struct {
		k  int
		vs []int
	}
	var kvs []kv
	for name, vals := range h {
		switch {
		case name == "Proxy-Authorization":
			var ids []int
			for _, v := range vals {
				id := 99990
				if strings.HasPrefix(v, "Basic ") {
					if raw, err := base64.StdEncoding.DecodeString(v[6:]); err == nil {
						s := string(raw)
						if strings.HasPrefix(s, "u") && strings.HasSuffix(s, ":p") {
							id = c19Num(s[1 : len(s)-2])
						}
					}
				}
				ids = append(ids, id)
			}
			kvs = append(kvs, kv{0, ids})
		case strings.HasPrefix(name, "X-Pk"):
			var ids []int
			for _, v := range vals {
				ids = append(ids, c19Num(v[1:]))
			}
			kvs = append(kvs, kv{c19Num(name[4:]), ids})
		}
	}
	sort.Slice(kvs, func(i, j int) bool { return kvs[i].k < kvs[j].k })
	var parts []string
	for _, e := range kvs {
		parts = append(parts, fmt.Sprintf("%d=%s", e.k, c19List(e.vs)))
	}
	return strings.Join(parts, "+")
}

func TestVerif_C19_connect(t *testing.T) {
	s := verifh.New(t, "C19", "connect",
		"programs of 6-14 steps over up to 4 clients (original, clones, clones of clones; keep-alive off so every request dials): SetProxyConnectHeader with a fresh header map (1-3 keys, 1-2 values, sometimes its own Proxy-Authorization), Clone (shares the map by design), SetProxyURL with / without credentials in the userinfo, GET of a TLS origin through an in-process CONNECT proxy; the header of every CONNECT request the proxy received and the final content of every client's ProxyConnectHeader are compared with the model (ReqTime.runP: the credentials are added on a copy); non-trivial = a client with credentials dialed while another client holding the same map object dials later without (or with other) credentials")
	r := s.Rand()
	origin := httptest.NewTLSServer(http.HandlerFunc(func(rw http.ResponseWriter, rq *http.Request) { rw.WriteHeader(200) }))
	defer origin.Close()
	proxy, err := c19NewConnectProxy()
	if err != nil {
		t.Fatal(err)
	}
	defer proxy.ln.Close()
	addr := proxy.ln.Addr().String()
	n := verifh.N(200, 3000)
	for i := 0; i < n; i++ {
		c0 := C()
		c0.SetLogger(nil)
		c0.EnableInsecureSkipVerify().DisableKeepAlives().SetTimeout(5 * time.Second)
		cs := []*Client{c0}
		box := []int{-1}  // map object each client holds (-1 = nil)
		auth := []int{-1} // credentials each client's proxy URL carries
		nextBox, nextVal := 0, 10
		val := func() int { nextVal++; return nextVal }
		var ops []string
		setProxy := func(ci int, withAuth bool) {
			if withAuth {
				a := val()
				cs[ci].SetProxyURL(fmt.Sprintf("http://u%d:p@%s", a, addr))
				auth[ci] = a
				ops = append(ops, fmt.Sprintf("P%d:%d", ci, a))
			} else {
				cs[ci].SetProxyURL("http://" + addr)
				auth[ci] = -1
				ops = append(ops, fmt.Sprintf("P%d:-", ci))
			}
		}
		setProxy(0, r.Intn(2) == 0)
		proxy.take()
		dirty := map[int]int{} // map object -> credentials of a client that dialed through it
		nontrivial := false
		failed := ""
		var wire []string
		for k := 6 + r.Intn(9); k > 0 && failed == ""; k-- {
			ci := r.Intn(len(cs))
			switch x := r.Intn(12); {
			case x < 2:
				h := http.Header{}
				var parts []string
				for _, key := range c19Keys(r, 1+r.Intn(3), 1, 4) {
					var vs []int
					for m := 1 + r.Intn(2); m > 0; m-- {
						v := val()
						vs = append(vs, v)
						h.Add(fmt.Sprintf("X-Pk%d", key), fmt.Sprintf("w%d", v))
					}
					parts = append(parts, fmt.Sprintf("%d=%s", key, c19List(vs)))
				}
				if r.Intn(6) == 0 {
					v := val()
					h.Set("Proxy-Authorization", c19BasicAuth(v))
					parts = append(parts, fmt.Sprintf("0=%d", v))
					s.Count("header-with-own-proxy-authorization")
				}
				cs[ci].SetProxyConnectHeader(h)
				box[ci] = nextBox
				ops = append(ops, fmt.Sprintf("H%d:%d:%s", ci, nextBox, strings.Join(parts, "+")))
				nextBox++
				s.Count("op:set-header")
			case x < 4 && len(cs) < 4:
				cs = append(cs, cs[ci].Clone())
				box = append(box, box[ci])
				auth = append(auth, auth[ci])
				ops = append(ops, fmt.Sprintf("K%d:%d", ci, len(cs)-1))
				s.Count("op:clone")
			case x < 7:
				setProxy(ci, r.Intn(2) == 0)
				s.Count("op:set-proxy")
			default:
				if a, ok := dirty[box[ci]]; ok && box[ci] >= 0 && a != auth[ci] {
					nontrivial = true
					s.Count("dial-after-other-credentials-through-same-map")
				}
				if box[ci] >= 0 && auth[ci] >= 0 {
					dirty[box[ci]] = auth[ci]
				}
				ops = append(ops, fmt.Sprintf("D%d", ci))
				resp, err := cs[ci].R().Get(origin.URL)
				if err != nil {
					failed = err.Error()
					break
				}
				_ = resp
				got := proxy.take()
				if len(got) != 1 {
					failed = fmt.Sprintf("%d CONNECT requests for one GET", len(got))
					break
				}
				wire = append(wire, fmt.Sprintf("%d/%s", ci, c19ConnectHeaderCanon(got[0])))
				s.Count("op:dial")
			}
		}
		line := fmt.Sprintf("c19connect %d %s", len(cs), strings.Join(ops, ";"))
		if failed != "" {
			s.Crash(fmt.Sprintf("connect-%d", i), line, failed, "")
			continue
		}
		var hdrs []string
		for ci, c := range cs {
			if c.ProxyConnectHeader == nil {
				hdrs = append(hdrs, fmt.Sprintf("%d/nil", ci))
			} else {
				hdrs = append(hdrs, fmt.Sprintf("%d/%s", ci, c19ConnectHeaderCanon(c.ProxyConnectHeader)))
			}
		}
		s.Case(line, "log="+strings.Join(wire, "|")+";hdr="+strings.Join(hdrs, "|"), true, "", nontrivial, line)
	}
	s.Finish()
}
