//go:build verif

package req

import (
	"net/http"
)

// ---------------------------------------------------------------------------------------
// clients obtained through Clone: the call of a client runs with ITS OWN settings and stages

// c18Foreign is the common error type of the "other" client (never the one of the caller).
type c18Foreign struct {
	A string `json:"a" xml:"a"`
}

// c18Decoy configures on `other` (the parent after the copy was taken, or a copy of the
// calling client) one of everything the call of a client consults. None of it may ever take
// part in the call of the client under test: each piece reports itself in o.foreign.
func c18Decoy(sc *c18Scenario, other *Client, o *c18Obs) {
	mark := func(s string) { o.foreign = append(o.foreign, s) }
	other.OnBeforeRequest(func(*Client, *Request) error { mark("u"); return nil })
	other.OnAfterResponse(func(*Client, *Response) error { mark("c"); return c18Sentinels[39] })
	other.WrapRoundTripFunc(func(rt RoundTripper) RoundTripFunc {
		return func(r *Request) (*Response, error) { mark("w"); return rt.RoundTrip(r) }
	})
	other.SetCommonErrorResult(&c18Foreign{})
	other.SetResultStateCheckFunc(func(*Response) ResultState { mark("k"); return UnknownState })
	other.OnError(func(*Client, *Request, *Response, error) { mark("h") })
	other.SetResponseBodyTransformer(func(b []byte, _ *Request, _ *Response) ([]byte, error) {
		mark("x")
		return nil, c18Sentinels[38]
	})
	other.SetJsonUnmarshal(func([]byte, interface{}) error { mark("j"); return c18Sentinels[37] })
	other.SetXmlUnmarshal(func([]byte, interface{}) error { mark("x"); return c18Sentinels[37] })
	if sc.autoRead { // the opposite of what the calling client wants
		other.DisableAutoReadResponse()
	} else {
		other.EnableAutoReadResponse()
	}
	other.GetClient().Transport = rtFuncC18(func(*http.Request) (*http.Response, error) {
		mark("t")
		return nil, c18Sentinels[36]
	})
}

// c18Build applies the configuration steps and returns the client that runs the call,
// obtained as sc.path says (see c18Scenario.path).
func c18Build(sc *c18Scenario, steps []func(*Client), o *c18Obs) *Client {
	n := len(steps)
	apply := func(c *Client, from, to int) {
		for _, f := range steps[from:to] {
			f(c)
		}
	}
	k := 0
	if n > 0 {
		k = sc.split % (n + 1)
	}
	switch sc.path {
	case 1: // prefix on the parent, Clone, rest on the copy; decoys on the parent; call on the copy
		parent := C()
		apply(parent, 0, k)
		c := parent.Clone()
		c18Decoy(sc, parent, o)
		apply(c, k, n)
		return c
	case 2: // a copy taken midway gets the decoys; call on the original
		c := C()
		apply(c, 0, k)
		c18Decoy(sc, c.Clone(), o)
		apply(c, k, n)
		return c
	case 3: // two generations
		k2 := k
		if n > k {
			k2 = k + (sc.split/(n+1))%(n-k+1)
		}
		g0 := C()
		apply(g0, 0, k)
		g1 := g0.Clone()
		c18Decoy(sc, g0, o)
		apply(g1, k, k2)
		c := g1.Clone()
		c18Decoy(sc, g1, o)
		apply(c, k2, n)
		return c
	}
	c := C()
	apply(c, 0, n)
	return c
}
