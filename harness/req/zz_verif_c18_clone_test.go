//go:build verif

package req

import (
	"fmt"
	"io"
	"net/http"
	"strconv"
	"strings"
	"testing"

	"github.com/imroc/req/v3/internal/verifh"
)

// ---------------------------------------------------------------------------------------
// clients obtained through Clone: the call of a client runs with ITS OWN settings and stages

// c18Foreign is the common error type of the "other" client (never the one of the caller).
type c18Foreign struct {
	A string `json:"a" xml:"a"`
}

// c18Decoy configures on `other` (the parent after the copy was taken, or a copy of the
// calling client) one of everything the call of a client consults. None of it may ever take
// part in the call of the client under test: each piece reports itself in o.foreign.
func c18Decoy(sc *c18Scenario, other *Client, o *c18Obs) {
	mark := func(s string) { o.foreign = append(o.foreign, s) }
	other.OnBeforeRequest(func(*Client, *Request) error { mark("u"); return nil })
	other.OnAfterResponse(func(*Client, *Response) error { mark("c"); return c18Sentinels[39] })
	other.WrapRoundTripFunc(func(rt RoundTripper) RoundTripFunc {
		return func(r *Request) (*Response, error) { mark("w"); return rt.RoundTrip(r) }
	})
	other.SetCommonErrorResult(&c18Foreign{})
	other.SetResultStateCheckFunc(func(*Response) ResultState { mark("k"); return UnknownState })
	other.OnError(func(*Client, *Request, *Response, error) { mark("h") })
	other.SetResponseBodyTransformer(func(b []byte, _ *Request, _ *Response) ([]byte, error) {
		mark("x")
		return nil, c18Sentinels[38]
	})
	other.SetJsonUnmarshal(func([]byte, interface{}) error { mark("j"); return c18Sentinels[37] })
	other.SetXmlUnmarshal(func([]byte, interface{}) error { mark("x"); return c18Sentinels[37] })
	if sc.autoRead { // the opposite of what the calling client wants
		other.DisableAutoReadResponse()
	} else {
		other.EnableAutoReadResponse()
	}
	other.GetClient().Transport = rtFuncC18(func(*http.Request) (*http.Response, error) {
		mark("t")
		return nil, c18Sentinels[36]
	})
}

// c18Build applies the configuration steps and returns the client that runs the call,
// obtained as sc.path says (see c18Scenario.path).
func c18Build(sc *c18Scenario, steps []func(*Client), o *c18Obs) *Client {
	n := len(steps)
	apply := func(c *Client, from, to int) {
		for _, f := range steps[from:to] {
			f(c)
		}
	}
	k := 0
	if n > 0 {
		k = sc.split % (n + 1)
	}
	switch sc.path {
	case 1: // prefix on the parent, Clone, rest on the copy; decoys on the parent; call on the copy
		parent := C()
		apply(parent, 0, k)
		c := parent.Clone()
		c18Decoy(sc, parent, o)
		apply(c, k, n)
		return c
	case 2: // a copy taken midway gets the decoys; call on the original
		c := C()
		apply(c, 0, k)
		c18Decoy(sc, c.Clone(), o)
		apply(c, k, n)
		return c
	case 3: // two generations
		k2 := k
		if n > k {
			k2 = k + (sc.split/(n+1))%(n-k+1)
		}
		g0 := C()
		apply(g0, 0, k)
		g1 := g0.Clone()
		c18Decoy(sc, g0, o)
		apply(g1, k, k2)
		c := g1.Clone()
		c18Decoy(sc, g1, o)
		apply(c, k2, n)
		return c
	}
	c := C()
	apply(c, 0, n)
	return c
}

// ---------------------------------------------------------------------------------------
// lane clone: programs of C() / Clone / WrapRoundTrip batches / setters on real clients; for every
// client of the program, what a call on it consults — vs Req.CloneChain.effective

type c18CE0 struct {
	A string `json:"a"`
}
type c18CE1 struct {
	A string `json:"a"`
}
type c18CE2 struct {
	A string `json:"a"`
}

type c18COp struct {
	kind byte // N C W B A E K H X R D
	c    int
	ids  []int
}

func (op c18COp) enc() string {
	switch op.kind {
	case 'N':
		return "N"
	case 'C', 'D':
		return string(op.kind) + strconv.Itoa(op.c)
	case 'W':
		p := make([]string, len(op.ids))
		for i, id := range op.ids {
			p[i] = strconv.Itoa(id)
		}
		return "W" + strconv.Itoa(op.c) + ":" + strings.Join(p, ".")
	}
	return string(op.kind) + strconv.Itoa(op.c) + ":" + strconv.Itoa(op.ids[0])
}

// c18CSim is the oracle's own bookkeeping: plain values, copied on Clone.
type c18CSim struct {
	ws, before, after        []int
	cerr, chk, hook, xf, aro int // -1 = unset; aro 0/1
	digest                   bool
}

func c18Ids(l []int) string {
	if len(l) == 0 {
		return "-"
	}
	p := make([]string, len(l))
	for i, id := range l {
		p[i] = strconv.Itoa(id)
	}
	return strings.Join(p, ".")
}

func c18OptID(i int) string {
	if i < 0 {
		return "-"
	}
	return strconv.Itoa(i)
}

type c18CLog struct {
	ws, before, after, chk, hook, xf, tr []int
}

func c18Uniq(l []int) string {
	if len(l) == 0 {
		return "-"
	}
	for _, x := range l {
		if x != l[0] {
			return "many:" + c18Ids(l)
		}
	}
	return strconv.Itoa(l[0])
}

func TestVerif_C18_clone(t *testing.T) {
	s := verifh.New(t, "C18", "clone",
		"programs of 4..16 operations on real clients: C(), Clone of any existing client (also of clones), WrapRoundTrip / WrapRoundTripFunc batches of 0..3 wrappers, OnBeforeRequest, OnAfterResponse, SetCommonErrorResult (3 types), SetResultStateCheckFunc, OnError, SetResponseBodyTransformer, Disable/EnableAutoReadResponse, SetCommonDigestAuth (before, between and after the response middleware registrations, repeated, on parents and copies), in any order (wrappers and stages installed before AND after cloning, on parents and on copies); then on EVERY client of the program a verb-style call that ends in error (status 500 + json body, a request-level middleware returning an error) and a second one (status 300) for the auto-read switch; observed: wrappers entered (order), whose transport / roundTrip ran, which request / response middleware ran (order), type of the bound common error object, state checker, error hook and body transformer consulted, body auto-read or not; vs Req.CloneChain.effective and vs an independent value-semantics simulation; non-trivial = the client is a clone or has a clone")
	r := s.Rand()
	hist := newC18Hist(s)
	cetypes := []interface{}{&c18CE0{}, &c18CE1{}, &c18CE2{}}
	for k := 0; k < verifh.N(1500, 20000); k++ {
		var ops []c18COp
		var clients []*Client
		var sims []*c18CSim
		var cur *c18CLog // the log of the call in progress
		isClone := map[int]bool{}
		hasClone := map[int]bool{}
		plug := func(idx int, c *Client) {
			c.GetClient().Transport = rtFuncC18(func(req *http.Request) (*http.Response, error) {
				cur.tr = append(cur.tr, idx)
				st := 500
				if strings.HasSuffix(req.URL.Path, "/u") {
					st = 300
				}
				return &http.Response{StatusCode: st, Status: strconv.Itoa(st) + " X", Proto: "HTTP/1.1", ProtoMajor: 1, ProtoMinor: 1,
					Header: http.Header{"Content-Type": {"application/json"}}, Body: io.NopCloser(strings.NewReader(`{"a":"x"}`)),
					ContentLength: -1, Request: req}, nil
			})
		}
		nextID := 1
		id := func() int { nextID++; return nextID }
		n := 4 + r.Intn(13)
		for len(ops) < n {
			if len(clients) == 0 || r.Intn(14) == 0 {
				ops = append(ops, c18COp{kind: 'N'})
				c := C()
				plug(len(clients), c)
				clients = append(clients, c)
				sims = append(sims, &c18CSim{cerr: -1, chk: -1, hook: -1, xf: -1})
				continue
			}
			ci := r.Intn(len(clients))
			c, sim := clients[ci], sims[ci]
			switch x := r.Intn(22); {
			case x >= 20: // SetCommonDigestAuth: one more built-in response stage; the user stages stay as they are
				ops = append(ops, c18COp{kind: 'D', c: ci})
				c.SetCommonDigestAuth("u", "p")
				switch {
				case len(sim.after) > 0 && sim.digest:
					hist.Count("digest-again-after-stages")
				case len(sim.after) > 0:
					hist.Count("digest-after-stages")
				default:
					hist.Count("digest-first")
				}
				sim.digest = true
			case x < 4: // Clone
				ops = append(ops, c18COp{kind: 'C', c: ci})
				cc := c.Clone()
				plug(len(clients), cc)
				isClone[len(clients)], hasClone[ci] = true, true
				clients = append(clients, cc)
				cp := *sim
				cp.ws, cp.before, cp.after = append([]int(nil), sim.ws...), append([]int(nil), sim.before...), append([]int(nil), sim.after...)
				sims = append(sims, &cp)
			case x < 9: // wrapper batch
				var ids []int
				for i, m := 0, r.Intn(4); i < m; i++ {
					ids = append(ids, id())
				}
				if len(ids) == 0 && r.Intn(3) != 0 {
					ids = append(ids, id())
				}
				ops = append(ops, c18COp{kind: 'W', c: ci, ids: ids})
				var fs []RoundTripWrapperFunc
				var ws []RoundTripWrapper
				for _, wid := range ids {
					wid := wid
					f := func(rt RoundTripper) RoundTripFunc {
						return func(req *Request) (*Response, error) { cur.ws = append(cur.ws, wid); return rt.RoundTrip(req) }
					}
					fs = append(fs, f)
					ws = append(ws, func(rt RoundTripper) RoundTripper { return f(rt) })
				}
				if r.Intn(2) == 0 {
					c.WrapRoundTripFunc(fs...)
				} else {
					c.WrapRoundTrip(ws[:len(ws):len(ws)]...)
				}
				sim.ws = append(sim.ws, ids...)
			case x < 11:
				i := id()
				ops = append(ops, c18COp{kind: 'B', c: ci, ids: []int{i}})
				c.OnBeforeRequest(func(*Client, *Request) error { cur.before = append(cur.before, i); return nil })
				sim.before = append(sim.before, i)
			case x < 14:
				i := id()
				ops = append(ops, c18COp{kind: 'A', c: ci, ids: []int{i}})
				c.OnAfterResponse(func(*Client, *Response) error { cur.after = append(cur.after, i); return nil })
				sim.after = append(sim.after, i)
			case x < 15:
				i := r.Intn(3)
				ops = append(ops, c18COp{kind: 'E', c: ci, ids: []int{i}})
				c.SetCommonErrorResult(cetypes[i])
				sim.cerr = i
			case x < 16:
				i := id()
				ops = append(ops, c18COp{kind: 'K', c: ci, ids: []int{i}})
				c.SetResultStateCheckFunc(func(resp *Response) ResultState {
					cur.chk = append(cur.chk, i)
					if resp.StatusCode >= 400 {
						return ErrorState
					}
					return UnknownState
				})
				sim.chk = i
			case x < 17:
				i := id()
				ops = append(ops, c18COp{kind: 'H', c: ci, ids: []int{i}})
				c.OnError(func(*Client, *Request, *Response, error) { cur.hook = append(cur.hook, i) })
				sim.hook = i
			case x < 18:
				i := id()
				ops = append(ops, c18COp{kind: 'X', c: ci, ids: []int{i}})
				c.SetResponseBodyTransformer(func(b []byte, _ *Request, _ *Response) ([]byte, error) {
					cur.xf = append(cur.xf, i)
					return b, nil
				})
				sim.xf = i
			default:
				off := r.Intn(3) != 0
				ops = append(ops, c18COp{kind: 'R', c: ci, ids: []int{map[bool]int{false: 0, true: 1}[off]}})
				if off {
					c.DisableAutoReadResponse()
				} else {
					c.EnableAutoReadResponse()
				}
				sim.aro = map[bool]int{false: 0, true: 1}[off]
			}
		}
		enc := make([]string, len(ops))
		for i, op := range ops {
			enc[i] = op.enc()
		}
		prog := strings.Join(enc, ";")
		for ci, c := range clients {
			// call 1: ends in error, error state
			log1 := &c18CLog{}
			cur = log1
			var resp *Response
			if txt, p := verifh.Safely(func() {
				resp, _ = c.R().OnAfterResponse(func(*Client, *Response) error { return c18Sentinels[1] }).Get("http://c18.test/e")
			}); p {
				s.Crash(fmt.Sprintf("clone/%d/%d", k, ci), "call panicked", txt, prog)
				continue
			}
			cerr := "-"
			switch resp.ErrorResult().(type) {
			case nil:
			case *c18CE0:
				cerr = "0"
			case *c18CE1:
				cerr = "1"
			case *c18CE2:
				cerr = "2"
			default:
				cerr = "?"
			}
			// call 2: unknown state, nothing bound: is the body read automatically?
			log2 := &c18CLog{}
			cur = log2
			resp2, _ := c.R().Get("http://c18.test/u")
			aro := c18b(resp2.Bytes() == nil)
			resp2.ToBytes() // force the read, so that the body transformer in force shows itself
			rev := func(l []int) []int {
				o := make([]int, len(l))
				for i, x := range l {
					o[len(l)-1-i] = x
				}
				return o
			}
			tr := c18Uniq(log1.tr)
			impl := "ws=" + c18Ids(log1.ws) + " core=" + tr + " before=" + c18Ids(log1.before) + " after=" + c18Ids(log1.after) +
				" cerr=" + cerr + " chk=" + c18Uniq(log1.chk) + " hook=" + c18Ids(log1.hook) + " xf=" + c18Uniq(append(log1.xf, log2.xf...)) + " aro=" + aro + " tr=" + tr
			sim := sims[ci]
			want := "ws=" + c18Ids(rev(sim.ws)) + " core=" + strconv.Itoa(ci) + " before=" + c18Ids(sim.before) + " after=" + c18Ids(sim.after) +
				" cerr=" + c18OptID(sim.cerr) + " chk=" + c18OptID(sim.chk) + " hook=" + c18OptID(sim.hook) + " xf=" + c18OptID(sim.xf) +
				" aro=" + strconv.Itoa(sim.aro) + " tr=" + strconv.Itoa(ci)
			nontriv := isClone[ci] || hasClone[ci]
			if isClone[ci] {
				hist.Count("client=clone")
			}
			if hasClone[ci] {
				hist.Count("client=parent")
			}
			if isClone[ci] && len(sim.ws) > 0 {
				hist.Count("clone-with-wrappers")
			}
			if len(sim.after) > 0 {
				hist.Count("after>0")
			}
			if sim.digest && len(sim.after) > 0 {
				hist.Count("call:digest+after>0")
			}
			hist.Count("cerr=" + c18OptID(sim.cerr))
			s.Case(fmt.Sprintf("c18clone 1 %s %d", prog, ci), impl, impl == want, "", nontriv,
				fmt.Sprintf("program %s; call on client %d -> %s (own settings: %s)", prog, ci, impl, want))
		}
	}
	s.Finish()
	hist.need(t, "client=clone", "client=parent", "clone-with-wrappers", "after>0", "cerr=0", "cerr=1", "cerr=2", "cerr=-",
		"digest-first", "digest-after-stages", "digest-again-after-stages", "call:digest+after>0")
}
