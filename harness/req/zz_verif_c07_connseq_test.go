//go:build verif

package req

// C07 round 5 — h1connseq: the response-header limit over a SEQUENCE of responses on kept-alive
// HTTP/1.1 connections.
//
// persistConn.readLoop sets the limit at the top of every round of its loop; it goes round by the
// `continue` of the body-less path (HEAD, 204, 304, Content-Length: 0) and after a body was drained.
// h1limit checks one head on a fresh persistConn; here a real client talks to a raw keep-alive peer
// and receives SEQUENCES of responses of every kind (204 / 304 / HEAD / empty / Content-Length body /
// chunked body, with and without interim 1xx heads, with and without `Connection: close`) whose heads
// have sizes around the limit at EVERY position of the sequence. Compared with the Lean model
// C07.H1Conn.connRun (theorems h1_seq_accept_size / h1_seq_refused / h1_budget_every_response):
// per response accepted / "headers exceeded" / "too many 1xx", on which connection it travelled,
// and for a refused first head exactly how many bytes the client took from the socket for it
// (= the limit; counted by a net.Conn wrapper installed with SetDial).

import (
	"bytes"
	"context"
	"fmt"
	"net"
	"strconv"
	"strings"
	"sync"
	"sync/atomic"
	"testing"
	"time"

	"github.com/imroc/req/v3/internal/verifh"
)

type c07CountConn struct {
	net.Conn
	taken atomic.Int64
}

func (c *c07CountConn) Read(p []byte) (int, error) {
	n, err := c.Conn.Read(p)
	c.taken.Add(int64(n))
	return n, err
}

type c07KeepAlivePeer struct {
	ln      net.Listener
	mu      sync.Mutex
	scripts map[string][]byte
	closeIt map[string]bool
	seenOn  map[string]int
	nconn   int
	conns   []net.Conn
}

func newC07KeepAlivePeer(t *testing.T) *c07KeepAlivePeer {
	ln, err := net.Listen("tcp", "127.0.0.1:0")
	if err != nil {
		t.Fatalf("listen: %v", err)
	}
	p := &c07KeepAlivePeer{ln: ln, scripts: map[string][]byte{}, closeIt: map[string]bool{}, seenOn: map[string]int{}}
	go func() {
		for {
			c, err := ln.Accept()
			if err != nil {
				return
			}
			p.mu.Lock()
			idx := p.nconn
			p.nconn++
			p.conns = append(p.conns, c)
			p.mu.Unlock()
			go p.serve(c, idx)
		}
	}()
	return p
}

func (p *c07KeepAlivePeer) serve(c net.Conn, idx int) {
	defer c.Close()
	var pending []byte
	buf := make([]byte, 4096)
	for {
		c.SetDeadline(time.Now().Add(20 * time.Second))
		for !bytes.Contains(pending, []byte("\r\n\r\n")) {
			n, err := c.Read(buf)
			pending = append(pending, buf[:n]...)
			if err != nil || len(pending) > 1<<20 {
				return
			}
		}
		end := bytes.Index(pending, []byte("\r\n\r\n")) + 4
		head := pending[:end]
		pending = append([]byte{}, pending[end:]...)
		parts := strings.Split(string(head[:bytes.IndexByte(head, '\r')]), " ")
		if len(parts) < 2 {
			return
		}
		path := parts[1]
		p.mu.Lock()
		sc, ok := p.scripts[path]
		cl := p.closeIt[path]
		p.seenOn[path] = idx
		p.mu.Unlock()
		if !ok {
			return
		}
		if _, err := c.Write(sc); err != nil {
			return
		}
		if cl {
			// give the client the time to read what was written, then close
			time.Sleep(5 * time.Millisecond)
			return
		}
	}
}

func (p *c07KeepAlivePeer) closeAll() {
	p.ln.Close()
	p.mu.Lock()
	for _, c := range p.conns {
		c.Close()
	}
	p.conns = nil
	p.mu.Unlock()
}

// c07HeadOfSize: a response head (status line .. blank line) of exactly S bytes.
func c07HeadOfSize(statusLine string, fields string, S int) string {
	base := statusLine + "\r\n" + fields
	pad := S - len(base) - len("X-Pad: \r\n\r\n")
	if pad < 0 {
		return base + "\r\n"
	}
	return base + "X-Pad: " + strings.Repeat("p", pad) + "\r\n\r\n"
}

func TestVerif_C07_h1connseq(t *testing.T) {
	s := verifh.New(t, "C07", "h1connseq",
		"sequences of 3..7 requests of one client against a raw keep-alive HTTP/1.1 peer; each response is one of: 204, 304, answer to HEAD (with Content-Length), the same body-less kinds carrying Transfer-Encoding: chunked and / or Content-Length (nothing follows the head, the connection stays open), 200 with Content-Length: 0, 200 with a Content-Length body, 200 with a chunked body, each optionally preceded by 1..7 interim heads (100/102/103) and optionally with Connection: close; the final head has exactly S bytes, S in {minimal, L/2, L-1, L, L+1, 2L, L+4097, 8L} (with interim heads in the same write only S <= L or S > L+4096: the carried-over buffer is bounded by one read buffer), interim heads minimal or > L+4096; MaxResponseHeaderBytes L in {200, 300, 1000, 4096, 5000, 20000}; every position of the sequence gets every kind and size, in particular a head over the limit AFTER a body-less response on the same connection; answer per response: ok / big (headers exceeded) / many (too many 1xx) @ connection index, and for a refused first head the bytes the client took from the socket for it (= L); model = C07.H1Conn.connRun; every case non-trivial")
	r := s.Rand()
	nseq := verifh.N(160, 4000)
	wedges := 0
	for q := 0; q < nseq; q++ {
		if wedges >= 3 {
			// every wedged call costs the whole client timeout: three reported ones are enough
			s.Count("skipped-after-wedges")
			continue
		}
		L := verifh.Pick(r, []int{200, 300, 1000, 4096, 5000, 20000})
		peer := newC07KeepAlivePeer(t)
		base := "http://" + peer.ln.Addr().String()
		var cmu sync.Mutex
		var cconns []*c07CountConn
		c := C().SetTimeout(10 * time.Second).SetLogger(nil)
		c.GetTransport().SetMaxResponseHeaderBytes(int64(L))
		c.SetDial(func(ctx context.Context, network, addr string) (net.Conn, error) {
			var d net.Dialer
			raw, err := d.DialContext(ctx, network, addr)
			if err != nil {
				return nil, err
			}
			cc := &c07CountConn{Conn: raw}
			cmu.Lock()
			cconns = append(cconns, cc)
			cmu.Unlock()
			return cc, nil
		})
		k := 3 + r.Intn(5)
		var specs, got, humans []string
		infra := ""
		for i := 0; i < k && infra == ""; i++ {
			// round 6: the body-less kinds also with every combination of framing fields (a 204 / 304 /
			// answer to HEAD that carries Transfer-Encoding: chunked and / or Content-Length): the peer
			// sends NOTHING after the head and keeps the connection open
			kind := verifh.Pick(r, []string{"204", "304", "head", "empty", "cl-body", "chunked", "204", "head",
				"204-te", "304-te-cl", "head-te", "204-cl", "304-cl-te"})
			closeIt := r.Intn(8) == 0
			nint := 0
			if r.Intn(3) == 0 {
				nint = verifh.Pick(r, []int{1, 1, 2, 3, 5, 5, 6, 7})
			}
			var interim []int
			var stream strings.Builder
			for j := 0; j < nint; j++ {
				st := verifh.Pick(r, []string{"HTTP/1.1 103 Early Hints", "HTTP/1.1 100 Continue", "HTTP/1.1 102 Processing"})
				sz := 0
				if r.Intn(12) == 0 {
					sz = L + 4097 + r.Intn(100)
				}
				h := c07HeadOfSize(st, "", sz)
				interim = append(interim, len(h))
				stream.WriteString(h)
			}
			var S int
			if nint > 0 {
				S = verifh.Pick(r, []int{0, 0, L / 2, L - 1, L, L + 4097, 8 * L})
			} else {
				S = verifh.Pick(r, []int{0, 0, L / 2, L - 1, L, L, L + 1, L + 1, 2 * L, L + 4097, 8 * L})
			}
			fields := ""
			body := ""
			status := "HTTP/1.1 200 OK"
			bodiless := true
			switch kind {
			case "204":
				status = "HTTP/1.1 204 No Content"
			case "304":
				status = "HTTP/1.1 304 Not Modified"
				fields = "Etag: \"x\"\r\n"
			case "head":
				fields = "Content-Length: 5\r\n"
			case "204-te":
				status = "HTTP/1.1 204 No Content"
				fields = "Transfer-Encoding: chunked\r\n"
			case "204-cl":
				status = "HTTP/1.1 204 No Content"
				fields = "Content-Length: 5\r\n"
			case "304-te-cl":
				status = "HTTP/1.1 304 Not Modified"
				fields = "Transfer-Encoding: chunked\r\nContent-Length: 5\r\n"
			case "304-cl-te":
				status = "HTTP/1.1 304 Not Modified"
				fields = "Content-Length: 7\r\nTransfer-Encoding: chunked\r\n"
			case "head-te":
				fields = "Transfer-Encoding: chunked\r\n"
			case "empty":
				fields = "Content-Length: 0\r\n"
			case "cl-body":
				fields = "Content-Length: 5\r\n"
				body = "hello"
				bodiless = false
			case "chunked":
				fields = "Transfer-Encoding: chunked\r\n"
				body = "5\r\nhello\r\n0\r\n\r\n"
				bodiless = false
			}
			if closeIt {
				fields += "Connection: close\r\n"
			}
			head := c07HeadOfSize(status, fields, S)
			stream.WriteString(head)
			stream.WriteString(body)
			path := "/s" + strconv.Itoa(q) + "-" + strconv.Itoa(i)
			peer.mu.Lock()
			peer.scripts[path] = []byte(stream.String())
			peer.closeIt[path] = closeIt
			peer.mu.Unlock()
			il := "-"
			if len(interim) > 0 {
				ps := make([]string, len(interim))
				for j, v := range interim {
					ps[j] = strconv.Itoa(v)
				}
				il = strings.Join(ps, "+")
			}
			b01 := func(b bool) string {
				if b {
					return "1"
				}
				return "0"
			}
			specs = append(specs, il+":"+strconv.Itoa(len(head))+":"+b01(bodiless)+":"+b01(closeIt))
			humans = append(humans, fmt.Sprintf("%s(interim=%s head=%dB close=%v)", kind, il, len(head), closeIt))
			// totals before the call
			cmu.Lock()
			before := make([]int64, len(cconns))
			for j, cc := range cconns {
				before[j] = cc.taken.Load()
			}
			cmu.Unlock()
			var err error
			ptxt, pan := verifh.Safely(func() {
				var rp *Response
				if strings.HasPrefix(kind, "head") {
					rp, err = c.R().Head(base + path)
				} else {
					rp, err = c.R().Get(base + path)
				}
				if err == nil && rp != nil {
					_ = rp.String()
				}
			})
			peer.mu.Lock()
			on, seen := peer.seenOn[path]
			peer.mu.Unlock()
			if pan {
				got = append(got, "panic:"+truncate(ptxt, 300))
				continue
			}
			if !seen {
				infra = "request " + path + " never reached the peer: " + fmt.Sprint(err)
				break
			}
			switch {
			case err == nil:
				got = append(got, "ok@"+strconv.Itoa(on))
			case strings.Contains(err.Error(), "server response headers exceeded"):
				taken := int64(0)
				firstHead := len(interim) == 0 || interim[0] > L
				if firstHead {
					cmu.Lock()
					if on < len(cconns) {
						taken = cconns[on].taken.Load()
						if on < len(before) {
							taken -= before[on]
						}
					}
					cmu.Unlock()
				}
				got = append(got, "big@"+strconv.Itoa(on)+"/"+strconv.FormatInt(taken, 10))
			case strings.Contains(err.Error(), "too many 1xx"):
				got = append(got, "many@"+strconv.Itoa(on))
			default:
				if strings.Contains(err.Error(), "Timeout") || strings.Contains(err.Error(), "deadline") {
					wedges++
				}
				got = append(got, "err@"+strconv.Itoa(on)+":"+truncate(err.Error(), 120))
			}
		}
		c.GetTransport().CloseIdleConnections()
		peer.closeAll()
		if infra != "" {
			s.Count("skipped-infra")
			continue
		}
		line := "c07h1conn " + strconv.Itoa(L) + " " + strings.Join(specs, ";")
		ans := strings.Join(got, ",")
		human := fmt.Sprintf("L=%d sequence: %s -> %s", L, strings.Join(humans, " ; "), ans)
		for _, g := range got {
			s.Count(strings.SplitN(g, "@", 2)[0])
		}
		for i := 1; i < len(specs); i++ {
			if strings.HasPrefix(got[i], "big@") && strings.HasPrefix(got[i-1], "ok@") && strings.HasSuffix(strings.SplitN(specs[i-1], ":", 4)[2], "1") &&
				strings.SplitN(got[i], "/", 2)[0][4:] == got[i-1][3:] {
				s.Count("big-after-bodiless-on-same-conn")
			}
		}
		s.Case(line, ans, true, "", true, human)
	}
	s.Finish()
}
