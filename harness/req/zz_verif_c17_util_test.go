//go:build verif

package req

import (
	"bufio"
	"bytes"
	"compress/flate"
	"compress/gzip"
	"crypto/tls"
	"io"
	"math/rand"
	"net"
	"net/http"
	"net/http/httptest"
	"net/url"
	"sort"
	"strconv"
	"strings"
	"reflect"
	"sync"
	"time"
	"unsafe"

	"github.com/andybalholm/brotli"
	"github.com/imroc/req/v3/internal/http3"
	"github.com/klauspost/compress/zstd"
	"github.com/quic-go/quic-go"
	qhttp3 "github.com/quic-go/quic-go/http3"
	xhttp2 "golang.org/x/net/http2"

	"github.com/imroc/req/v3/internal/verifh"
)

func c17BufioReader(s string) *bufio.Reader { return bufio.NewReader(strings.NewReader(s)) }

// ---- generators shared by the C17 lanes ---------------------------------------------------

var c17Runes = []rune("äöüßéñ中文日本語🙂€\u00a0\u200b\ufeffΩ\u0085\u2028")

// c17Str draws a string from the classes the property names: empty, plain, reserved
// characters, non-ASCII (valid UTF-8), arbitrary bytes, controls.
func c17Str(r *rand.Rand, maxLen int) string {
	switch r.Intn(12) {
	case 0:
		return ""
	case 1:
		return verifh.RandBytes(r, 1+r.Intn(maxLen), "abcXYZ019")
	case 2:
		return verifh.RandBytes(r, 1+r.Intn(maxLen), "&=+%;/?#:@ $,~._-!*'()[]{}<>|^`")
	case 3:
		n := 1 + r.Intn(maxLen)
		var sb strings.Builder
		for i := 0; i < n; i++ {
			sb.WriteRune(c17Runes[r.Intn(len(c17Runes))])
		}
		return sb.String()
	case 4:
		return verifh.RandBytes(r, 1+r.Intn(maxLen), "")
	case 5:
		return verifh.RandBytes(r, 1+r.Intn(maxLen), "\x00\x01\t\n\r\x7f\"\\ \x1f\x0b\x0c")
	case 6:
		return verifh.RandBytes(r, 1+r.Intn(maxLen), "%+ 0123456789abcdefABCDEF&=")
	default:
		// mixture
		n := 1 + r.Intn(maxLen)
		var sb strings.Builder
		for sb.Len() < n {
			switch r.Intn(5) {
			case 0:
				sb.WriteString(verifh.RandBytes(r, 1, "&=+%; /?#\"\\"))
			case 1:
				sb.WriteRune(c17Runes[r.Intn(len(c17Runes))])
			case 2:
				sb.WriteByte(byte(r.Intn(256)))
			default:
				sb.WriteString(verifh.RandBytes(r, 1+r.Intn(4), "abcdefghijklmnopqrstuvwxyz0123456789"))
			}
		}
		return sb.String()
	}
}

// c17KV is an ordered rendering of a url.Values: distinct keys, each with its value list.
type c17KV struct {
	keys []string
	vals [][]string
}

func (m c17KV) values() url.Values {
	v := url.Values{}
	for i, k := range m.keys {
		for _, x := range m.vals[i] {
			v.Add(k, x)
		}
	}
	return v
}

func (m c17KV) line() string {
	counts := make([]int, len(m.keys))
	var flat []string
	for i := range m.keys {
		counts[i] = len(m.vals[i])
		flat = append(flat, m.vals[i]...)
	}
	return verifh.HexList(m.keys) + " " + verifh.IntList(counts) + " " + verifh.HexList(flat)
}

// c17GenValues: 0..maxKeys distinct keys (repeated values under a key with probability),
// every key has at least one value (url.Values.Add cannot create an empty list).
func c17GenValues(r *rand.Rand, maxKeys int, pool []string) c17KV {
	var m c17KV
	n := r.Intn(maxKeys + 1)
	seen := map[string]bool{}
	for i := 0; i < n; i++ {
		var k string
		if len(pool) > 0 && r.Intn(3) == 0 {
			k = verifh.Pick(r, pool)
		} else {
			k = c17Str(r, 12)
		}
		if seen[k] {
			continue
		}
		seen[k] = true
		nv := 1
		if r.Intn(3) == 0 {
			nv = 1 + r.Intn(4)
		}
		vs := make([]string, nv)
		for j := range vs {
			vs[j] = c17Str(r, 20)
		}
		m.keys = append(m.keys, k)
		m.vals = append(m.vals, vs)
	}
	return m
}

// c17Merged is the oracle's own statement of what must arrive: under every key the request's
// values followed by the client's.
func c17Merged(req, cl c17KV) map[string][]string {
	out := map[string][]string{}
	for i, k := range req.keys {
		out[k] = append(out[k], req.vals[i]...)
	}
	for i, k := range cl.keys {
		out[k] = append(out[k], cl.vals[i]...)
	}
	return out
}

func c17SameMultimap(a, b map[string][]string) bool {
	if len(a) != len(b) {
		return false
	}
	for k, va := range a {
		vb, ok := b[k]
		if !ok || len(va) != len(vb) {
			return false
		}
		for i := range va {
			if va[i] != vb[i] {
				return false
			}
		}
	}
	return true
}

func c17SortedKeys(m map[string][]string) []string {
	ks := make([]string, 0, len(m))
	for k := range m {
		ks = append(ks, k)
	}
	sort.Strings(ks)
	return ks
}

// ---- recording origin -----------------------------------------------------------------------

// c17Seen is what one request looked like at the origin, before any parsing.
type c17Seen struct {
	Path    string
	Query   string // raw query (lanes tag their requests with an id to recognise stale ones)
	Status  int // what the origin answered
	Method  string
	Proto   string
	Header  http.Header
	CL      int64
	TE      []string
	Body    []byte
	BodyErr error
}

type c17Origin struct {
	mu   sync.Mutex
	seen []c17Seen
	base string // scheme://127.0.0.1:port
	stop func()
	// download: body served for GET /dl?id=…
	dl    map[string][]byte
	flaky map[string]int
}

func (o *c17Origin) handler(w http.ResponseWriter, r *http.Request) {
	if strings.HasPrefix(r.URL.Path, "/dl") {
		// exchanges that PRECEDE the download, each with a body of its own
		q := r.URL.Query()
		if q.Get("interim") == "1" {
			w.Header().Set("Link", "</style.css>; rel=preload")
			w.WriteHeader(103)
			w.Header().Del("Link")
		}
		if h, _ := strconv.Atoi(q.Get("hops")); h > 0 { // a redirect hop
			code, _ := strconv.Atoi(q.Get("code"))
			size, _ := strconv.Atoi(q.Get("hopsize"))
			q.Set("hops", strconv.Itoa(h-1))
			w.Header().Set("Location", r.URL.Path+"?"+q.Encode())
			w.Header().Set("Content-Type", "text/html")
			w.WriteHeader(code)
			w.Write(bytes.Repeat([]byte("R"), size))
			return
		}
		if u := q.Get("usize"); u != "" && !strings.HasPrefix(r.Header.Get("Authorization"), "Digest ") { // a digest challenge
			size, _ := strconv.Atoi(u)
			w.Header().Set("WWW-Authenticate", `Digest realm="c17", nonce="dcd98b7102dd2f0e8b11d0f600bfb0c093", qop="auth", algorithm=MD5, opaque="5ccc069c403ebaf9f0171e9517f40e41"`)
			w.WriteHeader(401)
			w.Write(bytes.Repeat([]byte("U"), size))
			return
		}
		if e := q.Get("esize"); e != "" { // the first attempt of this id fails with a body
			o.mu.Lock()
			if o.flaky == nil {
				o.flaky = map[string]int{}
			}
			o.flaky["dl"+q.Get("id")]++
			first := o.flaky["dl"+q.Get("id")] == 1
			o.mu.Unlock()
			if first {
				size, _ := strconv.Atoi(e)
				w.WriteHeader(503)
				w.Write(bytes.Repeat([]byte("E"), size))
				return
			}
		}
		o.mu.Lock()
		b := o.dl[r.URL.Query().Get("id")]
		chunked := r.URL.Query().Get("chunked") == "1"
		o.mu.Unlock()
		if ct := q.Get("ct"); ct == "none" {
			w.Header()["Content-Type"] = nil // no Content-Type at all (net/http would sniff one)
		} else if ct != "" {
			w.Header().Set("Content-Type", ct)
		}
		if enc := r.URL.Query().Get("enc"); enc != "" {
			// the body goes out compressed: what is on the wire is c17Encode(enc, b)
			b = c17Encode(enc, b)
			w.Header().Set("Content-Encoding", enc)
		}
		if chunked {
			fl, _ := w.(http.Flusher)
			for len(b) > 0 {
				n := 1 + len(b)/3
				w.Write(b[:n])
				b = b[n:]
				if fl != nil {
					fl.Flush()
				}
			}
			return
		}
		w.Header().Set("Content-Length", c17Itoa64(int64(len(b))))
		w.Write(b)
		return
	}
	if d := r.URL.Query().Get("delay"); d != "" { // an origin that is slow to start reading the upload
		if ms, e := strconv.Atoi(d); e == nil {
			time.Sleep(time.Duration(ms) * time.Millisecond)
		}
	}
	body, err := io.ReadAll(r.Body)
	status := 200
	switch {
	case strings.HasPrefix(r.URL.Path, "/digest"):
		// asks for digest authentication first
		if !strings.HasPrefix(r.Header.Get("Authorization"), "Digest ") {
			status = 401
			w.Header().Set("WWW-Authenticate", `Digest realm="c17", nonce="dcd98b7102dd2f0e8b11d0f600bfb0c093", qop="auth", algorithm=MD5, opaque="5ccc069c403ebaf9f0171e9517f40e41"`)
		}
	case strings.HasPrefix(r.URL.Path, "/flaky"):
		// the first attempt of every id is answered 503
		id := r.URL.Query().Get("id")
		o.mu.Lock()
		if o.flaky == nil {
			o.flaky = map[string]int{}
		}
		o.flaky[id]++
		if o.flaky[id] == 1 {
			status = 503
		}
		o.mu.Unlock()
	case strings.HasPrefix(r.URL.Path, "/redir"):
		// 307 / 308: the client must repeat method and body at the new location
		status, _ = strconv.Atoi(strings.TrimPrefix(r.URL.Path, "/redir"))
		w.Header().Set("Location", "/final?"+r.URL.RawQuery)
	}
	o.mu.Lock()
	o.seen = append(o.seen, c17Seen{Path: r.URL.Path, Query: r.URL.RawQuery, Status: status, Method: r.Method, Proto: r.Proto, Header: r.Header.Clone(), CL: r.ContentLength,
		TE: append([]string(nil), r.TransferEncoding...), Body: body, BodyErr: err})
	o.mu.Unlock()
	w.WriteHeader(status)
}

// c17Encode compresses b with a Content-Encoding the client can undo.
func c17Encode(enc string, b []byte) []byte {
	var buf bytes.Buffer
	var w io.WriteCloser
	switch enc {
	case "gzip":
		w = gzip.NewWriter(&buf)
	case "deflate":
		w, _ = flate.NewWriter(&buf, flate.DefaultCompression)
	case "br":
		w = brotli.NewWriter(&buf)
	case "zstd":
		w, _ = zstd.NewWriter(&buf)
	default:
		return b
	}
	w.Write(b)
	w.Close()
	return buf.Bytes()
}

func c17Itoa64(n int64) string {
	var b [20]byte
	i := len(b)
	if n == 0 {
		return "0"
	}
	for n > 0 {
		i--
		b[i] = byte('0' + n%10)
		n /= 10
	}
	return string(b[i:])
}

// take returns the requests recorded since the last call.
func (o *c17Origin) take() []c17Seen {
	o.mu.Lock()
	defer o.mu.Unlock()
	s := o.seen
	o.seen = nil
	return s
}

// c17NewOrigin starts an origin: proto "h1" (cleartext HTTP/1.1), "h2" (TLS + ALPN h2, net/http's
// bundled x/net/http2 server) or "h3" (quic-go http3 server on loopback UDP).
func c17NewOrigin(proto string) *c17Origin {
	o := &c17Origin{dl: map[string][]byte{}}
	srv := httptest.NewUnstartedServer(http.HandlerFunc(o.handler))
	switch {
	case strings.HasPrefix(proto, "h2win:"):
		// golang.org/x/net/http2 server advertising a small per-stream (and per-connection)
		// receive window: SETTINGS_INITIAL_WINDOW_SIZE = n
		n, _ := strconv.Atoi(strings.TrimPrefix(proto, "h2win:"))
		conn := n * 4
		if conn < 65535 {
			conn = 65535
		}
		if err := xhttp2.ConfigureServer(srv.Config, &xhttp2.Server{MaxUploadBufferPerStream: int32(n), MaxUploadBufferPerConnection: int32(conn)}); err != nil {
			panic(err)
		}
		srv.TLS = &tls.Config{NextProtos: []string{"h2"}}
		srv.StartTLS()
		o.base, o.stop = srv.URL, srv.Close
		return o
	case strings.HasPrefix(proto, "h3win:"):
		n, _ := strconv.Atoi(strings.TrimPrefix(proto, "h3win:"))
		srv.StartTLS() // only to borrow its certificate
		pc, err := net.ListenPacket("udp", "127.0.0.1:0")
		if err != nil {
			panic(err)
		}
		s3 := &qhttp3.Server{Handler: http.HandlerFunc(o.handler), TLSConfig: qhttp3.ConfigureTLSConfig(&tls.Config{Certificates: srv.TLS.Certificates}),
			QUICConfig: &quic.Config{InitialStreamReceiveWindow: uint64(n), MaxStreamReceiveWindow: uint64(n),
				InitialConnectionReceiveWindow: uint64(2 * n), MaxConnectionReceiveWindow: uint64(2 * n)}}
		go s3.Serve(pc)
		o.base = "https://" + pc.LocalAddr().String()
		o.stop = func() { s3.Close(); pc.Close(); srv.Close() }
		return o
	}
	switch proto {
	case "h2":
		srv.EnableHTTP2 = true
		srv.StartTLS()
		o.base, o.stop = srv.URL, srv.Close
	case "h3":
		srv.StartTLS() // only to borrow its certificate
		pc, err := net.ListenPacket("udp", "127.0.0.1:0")
		if err != nil {
			panic(err)
		}
		s3 := &qhttp3.Server{Handler: http.HandlerFunc(o.handler), TLSConfig: qhttp3.ConfigureTLSConfig(&tls.Config{Certificates: srv.TLS.Certificates})}
		go s3.Serve(pc)
		o.base = "https://" + pc.LocalAddr().String()
		o.stop = func() { s3.Close(); pc.Close(); srv.Close() }
	default:
		srv.Start()
		o.base, o.stop = srv.URL, srv.Close
	}
	return o
}

func c17Client(proto string) *Client {
	c := C().EnableInsecureSkipVerify()
	c.SetTimeout(30 * time.Second)
	if i := strings.IndexByte(proto, 'w'); i == 2 { // h2win:n / h3win:n
		proto = proto[:2]
	}
	switch proto {
	case "h2":
		c.EnableForceHTTP2()
	case "h3":
		c.EnableForceHTTP3()
		// Before fixes/C12-1 the fork's HTTP/3 round tripper reads a TLS field of its own; set it
		// when it (still) exists — through reflection, so that the harness compiles either way.
		if t3 := c17H3(c); t3 != nil {
			if f := reflect.ValueOf(t3).Elem().FieldByName("TLSClientConfig"); f.IsValid() && f.CanSet() {
				f.Set(reflect.ValueOf(&tls.Config{InsecureSkipVerify: true}))
			}
		}
	default:
		c.EnableForceHTTP1()
	}
	return c
}

// c17Done releases the connections of a per-case client (thousands of cases per run).
func c17Done(c *Client) {
	c.Transport.CloseIdleConnections()
	if t3 := c17H3(c); t3 != nil {
		t3.Close()
	}
}

// c17H3 finds the client's HTTP/3 round tripper by its TYPE among the transport's fields (the
// harness does not depend on what the field is called); nil when HTTP/3 is not enabled.
func c17H3(c *Client) *http3.RoundTripper {
	v := reflect.ValueOf(c.Transport).Elem()
	want := reflect.TypeOf((*http3.RoundTripper)(nil))
	for i := 0; i < v.NumField(); i++ {
		if f := v.Field(i); f.Type() == want {
			rt, _ := reflect.NewAt(f.Type(), unsafe.Pointer(f.UnsafeAddr())).Elem().Interface().(*http3.RoundTripper)
			return rt
		}
	}
	return nil
}

// c17AsRequest rebuilds a server-side *http.Request from what arrived, so that the standard
// parsers (ParseForm, ParseMultipartForm, MultipartReader) can be run on it.
func c17AsRequest(s c17Seen) *http.Request {
	// net/http parses a urlencoded body only for POST, PUT and PATCH; the lanes ask what the
	// parser makes of the bytes that arrived, whatever the method was.
	m := "POST"
	return &http.Request{Method: m, Header: s.Header.Clone(), Body: io.NopCloser(bytes.NewReader(s.Body)),
		ContentLength: int64(len(s.Body)), URL: &url.URL{Path: "/"}}
}
