//go:build verif

package req

import (
	"context"
	"errors"
	"fmt"
	"net"
	"sort"
	"strconv"
	"strings"
	"sync"
	"sync/atomic"
	"testing"
	"time"

	"github.com/imroc/req/v3/internal/verifh"
)

// ---------------------------------------------------------------------------------------
// C08 forced-schedule lane: the real pool methods of Transport (queueForIdleConn, queueForDial,
// the real dialConnFor goroutine parked in a dial hook, wantConn.cancel, tryPutIdleConn,
// persistConn.close → decConnsPerHost, closeConnIfStillIdle, CloseIdleConnections) driven from
// ONE goroutine, op by op, in schedules built around CANCELLATION: the per-host limit is
// saturated, wants queue up behind it, a subset is cancelled at every position and in every
// state (queued, dial granted but not begun, dial in flight, connection delivered but not picked
// up), then slots are freed in every way a slot can be freed. After EVERY op the real state — the
// per-host count, both wait queues with the live/dead flag of each entry, the idle list, parked
// dials, closed connections, done flags — is compared with the Lean pool model, which also
// judges each state by the C08 invariants (V=…).
// ---------------------------------------------------------------------------------------

type c08WantKey struct{}

type c08FakeConn struct {
	id      int
	closed  atomic.Bool
	release <-chan struct{}
}

func (c *c08FakeConn) Read(p []byte) (int, error) {
	<-c.release
	return 0, errors.New("verif: case over")
}
func (c *c08FakeConn) Write(p []byte) (int, error)        { return len(p), nil }
func (c *c08FakeConn) Close() error                       { c.closed.Store(true); return nil }
func (c *c08FakeConn) LocalAddr() net.Addr                { return &net.TCPAddr{} }
func (c *c08FakeConn) RemoteAddr() net.Addr               { return &net.TCPAddr{} }
func (c *c08FakeConn) SetDeadline(t time.Time) error      { return nil }
func (c *c08FakeConn) SetReadDeadline(t time.Time) error  { return nil }
func (c *c08FakeConn) SetWriteDeadline(t time.Time) error { return nil }

type c08DialOutcome struct {
	conn net.Conn
	err  error
}

type c08Sim struct {
	t        *Transport
	nKeys    int
	keys     []connectMethodKey
	wants    []*wantConn
	wantID   map[*wantConn]int
	fakes    []*c08FakeConn
	pcs      map[int]*persistConn
	using    map[int]*persistConn
	reached  []chan struct{}
	after    []chan struct{}
	outcome  []chan c08DialOutcome
	hooked   map[int]bool
	dialDone map[int]bool
	release  chan struct{}
	over     chan struct{}
	mu       sync.Mutex
}

func newC08Sim(maxIdle, maxIdleHost, maxConns int, disableKA bool, nKeys int) *c08Sim {
	s := &c08Sim{nKeys: nKeys, wantID: map[*wantConn]int{}, pcs: map[int]*persistConn{}, using: map[int]*persistConn{},
		hooked: map[int]bool{}, dialDone: map[int]bool{}, release: make(chan struct{}), over: make(chan struct{})}
	t := T()
	t.Proxy = nil
	t.MaxIdleConns = maxIdle
	t.MaxIdleConnsPerHost = maxIdleHost
	t.MaxConnsPerHost = maxConns
	t.DisableKeepAlives = disableKA
	t.IdleConnTimeout = 0
	t.DialContext = func(ctx context.Context, network, addr string) (net.Conn, error) {
		id, _ := ctx.Value(c08WantKey{}).(int)
		s.mu.Lock()
		reached, outcome := s.reached[id], s.outcome[id]
		s.mu.Unlock()
		close(reached)
		select {
		case o := <-outcome:
			return o.conn, o.err
		case <-s.over:
			return nil, errors.New("verif: case over")
		}
	}
	s.t = t
	for k := 0; k < nKeys; k++ {
		cm := connectMethod{targetScheme: "http", targetAddr: fmt.Sprintf("h%d:80", k)}
		s.keys = append(s.keys, cm.key())
	}
	return s
}

func (s *c08Sim) finish() {
	close(s.over)
	close(s.release)
}

func (s *c08Sim) newWant(k int) int {
	id := len(s.wants)
	cm := connectMethod{targetScheme: "http", targetAddr: fmt.Sprintf("h%d:80", k)}
	ctx, cancel := context.WithCancel(context.WithValue(context.Background(), c08WantKey{}, id))
	after := make(chan struct{})
	w := &wantConn{cm: cm, key: cm.key(), ctx: ctx, cancelCtx: cancel, result: make(chan connOrError, 1),
		beforeDial: nop, afterDial: func() { close(after) }}
	s.mu.Lock()
	s.wants = append(s.wants, w)
	s.wantID[w] = id
	s.reached = append(s.reached, make(chan struct{}))
	s.after = append(s.after, after)
	s.outcome = append(s.outcome, make(chan c08DialOutcome, 1))
	s.mu.Unlock()
	return id
}

func (s *c08Sim) inDialsInProgress(w *wantConn) bool {
	found := false
	s.t.connsPerHostMu.Lock()
	s.t.dialsInProgress.all(func(x *wantConn) {
		if x == w {
			found = true
		}
	})
	s.t.connsPerHostMu.Unlock()
	return found
}

func (s *c08Sim) waitDialGoroutineGone(id int) error {
	select {
	case <-s.after[id]:
	case <-time.After(10 * time.Second):
		return fmt.Errorf("dial goroutine of want %d did not finish", id)
	}
	deadline := time.Now().Add(10 * time.Second)
	for {
		s.t.connsPerHostMu.Lock()
		gone := s.wants[id].cancelCtx == nil
		s.t.connsPerHostMu.Unlock()
		if gone {
			s.dialDone[id] = true
			delete(s.hooked, id)
			return nil
		}
		if time.Now().After(deadline) {
			return fmt.Errorf("dial goroutine of want %d did not clear cancelCtx", id)
		}
		time.Sleep(20 * time.Microsecond)
	}
}

// settle waits until every dial goroutine started so far is either parked in the dial hook or gone.
func (s *c08Sim) settle() error {
	for round := 0; round < 64; round++ {
		progressed := false
		for id, w := range s.wants {
			if s.hooked[id] || s.dialDone[id] || !s.inDialsInProgress(w) {
				continue
			}
			select {
			case <-s.reached[id]:
				s.hooked[id] = true
			case <-s.after[id]:
				if err := s.waitDialGoroutineGone(id); err != nil {
					return err
				}
			case <-time.After(10 * time.Second):
				return fmt.Errorf("dial goroutine of want %d neither reached the hook nor finished", id)
			}
			progressed = true
		}
		if !progressed {
			return nil
		}
	}
	return nil
}

func (s *c08Sim) learn(pc *persistConn) {
	if pc == nil {
		return
	}
	if f, ok := pc.conn.(*c08FakeConn); ok {
		s.pcs[f.id] = pc
	}
}

func c08ConnID(pc *persistConn) int {
	if f, ok := pc.conn.(*c08FakeConn); ok {
		return f.id
	}
	return -1
}

func c08JoinInts(l []int) string {
	ss := make([]string, len(l))
	for i, v := range l {
		ss[i] = strconv.Itoa(v)
	}
	return strings.Join(ss, ",")
}

func (s *c08Sim) flagged(q wantConnQueue) string {
	var out []string
	q.all(func(w *wantConn) {
		f := "d"
		if w.waiting() {
			f = "w"
		}
		out = append(out, strconv.Itoa(s.wantID[w])+f)
	})
	return strings.Join(out, ",")
}

// dump: the observable pool state in the model's canonical form; the verdict field is what the
// in-package sampler of the crowd lanes would say about this state (judged here by the same rules
// in Go so that the two sides are compared, the model's side being the proved one).
func (s *c08Sim) dump(nWants, nConns int) string {
	t := s.t
	var b strings.Builder
	var verdicts []string
	t.idleMu.Lock()
	t.connsPerHostMu.Lock()
	for k := 0; k < s.nKeys; k++ {
		key := s.keys[k]
		var idle []int
		for _, pc := range t.idleConn[key] {
			s.learn(pc)
			idle = append(idle, c08ConnID(pc))
		}
		if k > 0 {
			b.WriteString(" ")
		}
		fmt.Fprintf(&b, "k%d:P=%d|D=%s|W=%s|I=%s", k, t.connsPerHost[key], s.flagged(t.connsPerHostWait[key]), s.flagged(t.idleConnWait[key]), c08JoinInts(idle))
		v := "ok"
		dw, iw := t.connsPerHostWait[key], t.idleConnWait[key]
		switch {
		case t.MaxConnsPerHost > 0 && t.connsPerHost[key] > t.MaxConnsPerHost:
			v = "over-limit"
		case dw.len() > 0 && (t.MaxConnsPerHost <= 0 || t.connsPerHost[key] < t.MaxConnsPerHost):
			v = "stranded"
		case iw.len() > 0 && len(idle) > 0:
			v = "handoff-lost"
		}
		verdicts = append(verdicts, v)
	}
	t.connsPerHostMu.Unlock()
	t.idleMu.Unlock()
	var hooked []int
	for id := range s.hooked {
		hooked = append(hooked, id)
	}
	sort.Ints(hooked)
	var closed []int
	for i := 0; i < nConns && i < len(s.fakes); i++ {
		if s.fakes[i] != nil && s.fakes[i].closed.Load() {
			closed = append(closed, i)
		}
	}
	fmt.Fprintf(&b, " H=%s C=%s S=", c08JoinInts(hooked), c08JoinInts(closed))
	for i := 0; i < nWants; i++ {
		if i >= len(s.wants) {
			b.WriteByte('.')
			continue
		}
		if s.wants[i].waiting() {
			b.WriteByte('w')
		} else {
			b.WriteByte('d')
		}
	}
	b.WriteString(" V=" + strings.Join(verdicts, ","))
	return b.String()
}

func c08PutErrName(err error) string {
	switch err {
	case nil:
		return "ok"
	case errKeepAlivesDisabled:
		return "ka-off"
	case errConnBroken:
		return "broken"
	case errCloseIdle:
		return "close-idle"
	case errTooManyIdleHost:
		return "host-full"
	}
	return "other"
}

// apply executes one composite op on the real transport and returns its canonical return value.
func (s *c08Sim) apply(op []string) (string, error) {
	arg := func(i int) int { n, _ := strconv.Atoi(op[i]); return n }
	switch op[0] {
	case "N":
		s.newWant(arg(2))
		return "-", nil
	case "QI":
		if s.t.queueForIdleConn(s.wants[arg(1)]) {
			return "1", nil
		}
		return "0", nil
	case "QD":
		s.t.queueForDial(s.wants[arg(1)])
		return "-", nil
	case "DO", "DX":
		id := arg(1)
		delivered := "0"
		if s.wants[id].waiting() {
			delivered = "1"
		}
		if op[0] == "DO" {
			f := &c08FakeConn{id: arg(2), release: s.release}
			for len(s.fakes) <= f.id {
				s.fakes = append(s.fakes, nil)
			}
			s.fakes[f.id] = f
			s.outcome[id] <- c08DialOutcome{conn: f}
		} else {
			s.outcome[id] <- c08DialOutcome{err: errors.New("verif: dial failed")}
		}
		if err := s.waitDialGoroutineGone(id); err != nil {
			return "", err
		}
		return delivered, nil
	case "RV":
		select {
		case r, ok := <-s.wants[arg(1)].result:
			if !ok {
				return "-", nil
			}
			if r.pc != nil {
				s.learn(r.pc)
				s.using[arg(1)] = r.pc
				return "c" + strconv.Itoa(c08ConnID(r.pc)), nil
			}
			return "e", nil
		default:
			return "-", nil
		}
	case "CA":
		s.wants[arg(1)].cancel(s.t, errors.New("verif: canceled"))
		return "-", nil
	case "FP":
		pc := s.using[arg(1)]
		delete(s.using, arg(1))
		err := s.t.tryPutIdleConn(pc)
		if err != nil { // readLoop: closeErr = err; exit: pc.close(closeErr); t.removeIdleConn(pc)
			pc.close(err)
			s.t.removeIdleConn(pc)
		}
		return c08PutErrName(err), nil
	case "FC":
		pc := s.using[arg(1)]
		delete(s.using, arg(1))
		pc.close(errors.New("verif: connection died"))
		s.t.removeIdleConn(pc)
		return "-", nil
	case "SC":
		pc := s.pcs[arg(1)]
		pc.close(errServerClosedIdle)
		s.t.removeIdleConn(pc)
		return "-", nil
	case "IT":
		s.pcs[arg(1)].closeConnIfStillIdle()
		return "-", nil
	case "CI":
		s.t.CloseIdleConnections()
		return "-", nil
	}
	return "", fmt.Errorf("unknown op %v", op)
}

func (s *c08Sim) idleListed(c int) bool {
	pc := s.pcs[c]
	if pc == nil {
		return false
	}
	s.t.idleMu.Lock()
	defer s.t.idleMu.Unlock()
	for _, x := range s.t.idleConn[pc.cacheKey] {
		if x == pc {
			return true
		}
	}
	return false
}

func TestVerif_C08_pool(t *testing.T) {
	s := verifh.New(t, "C08", "pool",
		"forced schedules on the real Transport pool, one goroutine, 12..60 composite calls, built around cancellation: MaxConnsPerHost 1..3 (sometimes none) on 1..2 keys with keep-alives on/off and MaxIdleConnsPerHost default/1/-1; phase 1 saturates the per-host limit (connections in use, dials parked in a dial hook), phase 2 queues 2..6 wants behind it (connsPerHostWait and, with keep-alives, idleConnWait), phase 3 cancels a non-empty subset — front / middle / back of the queue, wants whose dial is in flight, wants that were delivered a connection and have not picked it up —, phase 4 frees slots in every way (request done + connection put back / closed, dial success delivered late, dial failure, peer closes an idle connection, idle timeout, CloseIdleConnections) interleaved with new arrivals, late cancellations and pick-ups; after EVERY call the real state (per-host count, both wait queues with live/dead flag per entry, idle list, parked dials, closed connections, done flags, invariant verdict) is compared with the Lean pool model; non-trivial = a slot was freed while a cancelled want was queued in front of a live one")
	// the compared dump contains detail the property does not fix (dead entries still listed in a
	// queue, order of the idle list): the lane's own oracle is the invariant verdict of every state
	s.OracleIndependent = true
	r := s.Rand()
	n := verifh.N(1500, 30000)
	nFail := 0
	for cs := 0; cs < n; cs++ {
		maxIdle := verifh.Pick(r, []int{0, 0, 0, 1, 2})
		maxIdleHost := verifh.Pick(r, []int{0, 0, 1, -1})
		maxConns := verifh.Pick(r, []int{1, 1, 1, 2, 2, 3, 0})
		disableKA := r.Intn(3) == 0
		nKeys := 1 + r.Intn(2)
		sim := newC08Sim(maxIdle, maxIdleHost, maxConns, disableKA, nKeys)
		var ops, impl []string
		nConns := 0
		finished := map[int]bool{}
		canceled := map[int]bool{}
		var fail error
		const maxWants, maxConnsN = 16, 16
		skipped := false
		emit := func(parts ...string) bool {
			if fail != nil {
				return false
			}
			ops = append(ops, strings.Join(parts, "."))
			var out string
			var err error
			if txt, bad := verifh.Safely(func() { out, err = sim.apply(parts) }); bad {
				s.Crash(strings.Join(ops, ","), "panic in pool op "+strings.Join(parts, "."), txt, "")
				fail = errors.New("panic")
				return false
			}
			if err == nil {
				err = sim.settle()
			}
			if err != nil {
				fail = err
				return false
			}
			d := sim.dump(maxWants, maxConnsN)
			// was a slot freed past a dead want? (the want at the front of the queue before the op
			// was not waiting, and a later one is dialled for now)
			impl = append(impl, out+"/"+d)
			return true
		}
		arrive := func(k int) int {
			id := len(sim.wants)
			if id >= maxWants {
				return -1
			}
			emit("N", strconv.Itoa(id), strconv.Itoa(k))
			emit("QI", strconv.Itoa(id))
			if len(impl) > 0 && !strings.HasPrefix(impl[len(impl)-1], "1/") {
				emit("QD", strconv.Itoa(id))
			}
			return id
		}
		pickWant := func(pred func(int) bool) int {
			var c []int
			for i := range sim.wants {
				if pred(i) {
					c = append(c, i)
				}
			}
			if len(c) == 0 {
				return -1
			}
			return c[r.Intn(len(c))]
		}
		deadFrontLiveBehind := func() bool {
			sim.t.connsPerHostMu.Lock()
			defer sim.t.connsPerHostMu.Unlock()
			for _, q := range sim.t.connsPerHostWait {
				first, liveLater := true, false
				frontDead := false
				q.all(func(w *wantConn) {
					if first {
						frontDead = !w.waiting()
						first = false
					} else if w.waiting() {
						liveLater = true
					}
				})
				if frontDead && liveLater {
					return true
				}
			}
			return false
		}
		k0 := 0
		// phase 1: saturate the limit on key 0 (and start something on the other key)
		sat := maxConns
		if sat <= 0 {
			sat = 1 + r.Intn(2)
		}
		for i := 0; i < sat && fail == nil; i++ {
			id := arrive(k0)
			if id < 0 {
				break
			}
			if sim.hooked[id] && r.Intn(4) > 0 {
				emit("DO", strconv.Itoa(id), strconv.Itoa(nConns))
				nConns++
				if r.Intn(5) > 0 {
					emit("RV", strconv.Itoa(id))
				}
			}
		}
		if nKeys > 1 && r.Intn(2) == 0 {
			arrive(1)
		}
		// phase 2: the queue
		nq := 2 + r.Intn(5)
		var queued []int
		for i := 0; i < nq && fail == nil; i++ {
			k := k0
			if nKeys > 1 && r.Intn(5) == 0 {
				k = 1
			}
			if id := arrive(k); id >= 0 {
				queued = append(queued, id)
			}
		}
		// phase 3: cancel a non-empty subset (positions: front, back, random; plus wants in other states)
		if len(queued) > 0 && fail == nil {
			pos := map[int]bool{}
			switch r.Intn(4) {
			case 0:
				pos[0] = true
			case 1:
				pos[0] = true
				if len(queued) > 2 {
					pos[1] = true
				}
			case 2:
				pos[len(queued)-1] = true
			}
			for i := range queued {
				if r.Intn(3) == 0 {
					pos[i] = true
				}
			}
			if len(pos) == 0 {
				pos[r.Intn(len(queued))] = true
			}
			var idx []int
			for p := range pos {
				idx = append(idx, p)
			}
			sort.Ints(idx)
			if r.Intn(2) == 0 {
				for i, j := 0, len(idx)-1; i < j; i, j = i+1, j-1 {
					idx[i], idx[j] = idx[j], idx[i]
				}
			}
			for _, p := range idx {
				canceled[queued[p]] = true
				emit("CA", strconv.Itoa(queued[p]))
			}
			if r.Intn(3) == 0 {
				// a want whose dial is in flight / that was delivered but has not picked up
				if w := pickWant(func(i int) bool { return !canceled[i] && (sim.hooked[i] || (sim.using[i] == nil && !sim.wants[i].waiting() && !finished[i])) }); w >= 0 {
					canceled[w] = true
					emit("CA", strconv.Itoa(w))
				}
			}
		}
		// phase 4: free slots in every way, with arrivals, late cancellations and pick-ups in between
		budget := 12 + r.Intn(30)
		for step := 0; step < budget && fail == nil && len(ops) < 90; step++ {
			before := deadFrontLiveBehind()
			nOps := len(ops)
			switch x := r.Intn(100); {
			case x < 26: // a request completes
				if w := pickWant(func(i int) bool { return sim.using[i] != nil }); w >= 0 {
					if r.Intn(2) == 0 {
						emit("FC", strconv.Itoa(w))
					} else {
						emit("FP", strconv.Itoa(w))
					}
					finished[w] = true
				}
			case x < 46: // a parked dial completes (possibly for a want that has gone)
				if w := pickWant(func(i int) bool { return sim.hooked[i] }); w >= 0 {
					if r.Intn(4) == 0 || nConns >= maxConnsN {
						emit("DX", strconv.Itoa(w))
					} else {
						emit("DO", strconv.Itoa(w), strconv.Itoa(nConns))
						nConns++
					}
				}
			case x < 62: // pick-up
				if w := pickWant(func(i int) bool { return sim.using[i] == nil && !finished[i] && !sim.wants[i].waiting() && !canceled[i] }); w >= 0 {
					emit("RV", strconv.Itoa(w))
				}
			case x < 72: // late cancellation, in whatever state the want is
				if w := pickWant(func(i int) bool { return !canceled[i] && sim.using[i] == nil && !finished[i] }); w >= 0 {
					canceled[w] = true
					emit("CA", strconv.Itoa(w))
				}
			case x < 84: // arrival
				k := k0
				if nKeys > 1 && r.Intn(4) == 0 {
					k = 1
				}
				arrive(k)
			case x < 90:
				var c []int
				for i := 0; i < nConns; i++ {
					if sim.pcs[i] != nil && sim.idleListed(i) && !sim.fakes[i].closed.Load() {
						c = append(c, i)
					}
				}
				if len(c) > 0 {
					emit("SC", strconv.Itoa(c[r.Intn(len(c))]))
				}
			case x < 95:
				var c []int
				for i := 0; i < nConns; i++ {
					if sim.pcs[i] != nil {
						c = append(c, i)
					}
				}
				if len(c) > 0 {
					emit("IT", strconv.Itoa(c[r.Intn(len(c))]))
				}
			default:
				emit("CI")
			}
			if before && len(ops) > nOps && !deadFrontLiveBehind() {
				skipped = true
			}
		}
		sim.finish()
		if fail != nil {
			if fail.Error() != "panic" {
				s.Crash(strings.Join(ops, ","), "pool op sequence wedged", fail.Error(), "")
			}
			nFail++
			if nFail >= 3 {
				break
			}
			continue
		}
		dk := "0"
		if disableKA {
			dk = "1"
		}
		line := fmt.Sprintf("c08pool %d %d %d %s %d %d %d %s", maxIdle, maxIdleHost, maxConns, dk, nKeys, maxWants, maxConnsN, strings.Join(ops, ","))
		human := fmt.Sprintf("MaxIdleConns=%d MaxIdleConnsPerHost=%d MaxConnsPerHost=%d DisableKeepAlives=%v keys=%d ops=%s", maxIdle, maxIdleHost, maxConns, disableKA, nKeys, strings.Join(ops, " "))
		judgedOK := true
		for _, o := range impl {
			if !strings.Contains(o, " V=") || strings.Contains(o, "stranded") || strings.Contains(o, "handoff-lost") || strings.Contains(o, "over-limit") {
				judgedOK = false
			}
		}
		s.Case(line, strings.Join(impl, ";"), judgedOK, "", skipped, human)
		if skipped {
			s.Count("slot-freed-past-cancelled-front")
		}
		if len(canceled) > 0 {
			s.Count("with-cancellation")
		}
		for _, o := range impl {
			if !strings.Contains(o, " V=ok") || strings.Contains(o, "stranded") || strings.Contains(o, "handoff-lost") || strings.Contains(o, "over-limit") {
				s.Count("impl-state-judged-not-ok")
				break
			}
		}
		for i, o := range ops {
			if strings.HasPrefix(o, "DO.") && strings.HasPrefix(impl[i], "0/") {
				s.Count("late-conn-after-cancel")
				break
			}
		}
	}
	s.Finish()
}
