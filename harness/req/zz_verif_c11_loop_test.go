//go:build verif

package req

// Lanes over the WHOLE redirect hop loop (model Req/Client/RedirectLoop.lean): the real client —
// request built by the real API (R().Send through the request middlewares and Client.roundTrip),
// real net/http Client.do, the real closure SetRedirectPolicy installed, the real cookie jar — is
// driven by a scripted transport (lane loop: a transport-level round-trip wrapper, no network) so
// that every branch of the loop is cheap to reach: status 301/302/303/307/308 and non-redirect
// codes, Location absolute / network-path / path-only / unparsable / missing, with userinfo, empty
// host, https<->http, Set-Cookie on redirects, initial Cookie header and cookies, explicit Referer,
// Host header override (request or client level), bodies, every method.

import (
	"bytes"
	"io"
	"math/rand"
	"net"
	"net/http"
	"net/http/cookiejar"
	"net/textproto"
	"net/url"
	"sort"
	"strconv"
	"strings"
	"sync"
	"testing"

	"github.com/imroc/req/v3/internal/altsvcutil"
	"github.com/imroc/req/v3/internal/verifh"
	"github.com/imroc/req/v3/pkg/altsvc"
	"golang.org/x/net/publicsuffix"
)

type c11Loc struct {
	kind   string // abs net path bad missing
	scheme string
	user   *url.Userinfo
	host   string
	path   string
	bad    string
}

func (l c11Loc) authority() string {
	s := ""
	if l.user != nil {
		s = l.user.String() + "@"
	}
	return s + c11URLHost(l.host)
}

// text is the Location header value.
func (l c11Loc) text() string {
	switch l.kind {
	case "abs":
		return l.scheme + "://" + l.authority() + l.path
	case "net":
		return "//" + l.authority() + l.path
	case "path":
		return l.path
	case "bad":
		return l.bad
	}
	return ""
}

func (l c11Loc) enc() string {
	switch l.kind {
	case "abs":
		return "a," + c11EncScheme(l.scheme) + "," + c11EncUser(l.user) + "," + verifh.Hex(l.host) + "," + verifh.Hex(l.path)
	case "net":
		return "n," + c11EncUser(l.user) + "," + verifh.Hex(l.host) + "," + verifh.Hex(l.path)
	case "path":
		return "p," + verifh.Hex(l.path)
	case "bad":
		return "b"
	}
	return "m"
}

type c11Reply struct {
	status  int
	loc     c11Loc
	cookies [][2]string
}

func c11EncCookies(cs [][2]string) string {
	if len(cs) == 0 {
		return "-"
	}
	out := make([]string, len(cs))
	for i, c := range cs {
		out[i] = verifh.Hex(c[0]) + "=" + verifh.Hex(c[1])
	}
	return strings.Join(out, "+")
}

func (r c11Reply) enc() string {
	return strconv.Itoa(r.status) + "|" + r.loc.enc() + "|" + c11EncCookies(r.cookies)
}

func (r c11Reply) String() string {
	s := strconv.Itoa(r.status)
	if r.loc.kind != "missing" {
		s += " Location:" + r.loc.text()
	}
	for _, c := range r.cookies {
		s += " Set-Cookie:" + c[0] + "=" + c[1]
	}
	return s
}

func c11EncScript(rs []c11Reply) string {
	if len(rs) == 0 {
		return "-"
	}
	out := make([]string, len(rs))
	for i, r := range rs {
		out[i] = r.enc()
	}
	return strings.Join(out, ";")
}

// c11Seen is one request as the transport got it.
type c11Seen struct {
	scheme, host, path, method, hostField string
	user                                  *url.Userinfo
	hdr                                   http.Header
	body                                  bool
}

// c11WireValues: the values a receiver reads for key k — map entries matched by canonical form.
func c11WireValues(h http.Header, k string) []string {
	keys := make([]string, 0, len(h))
	for mk := range h {
		if textproto.CanonicalMIMEHeaderKey(mk) == textproto.CanonicalMIMEHeaderKey(k) {
			keys = append(keys, mk)
		}
	}
	sort.Strings(keys)
	var out []string
	for _, mk := range keys {
		out = append(out, h[mk]...)
	}
	return out
}

func (q c11Seen) enc(probes []string) string {
	b := "0"
	if q.body {
		b = "1"
	}
	return strings.Join([]string{c11EncScheme(q.scheme), c11EncUser(q.user), verifh.Hex(q.host), verifh.Hex(q.path),
		verifh.Hex(q.method), verifh.Hex(q.hostField), b,
		c11ShowProbes(func(k string) []string { return c11WireValues(q.hdr, k) }, probes)}, "|")
}

// c11Scripted answers the k-th request of a call with the k-th reply of the script.
type c11Scripted struct {
	mu     sync.Mutex
	script []c11Reply
	seen   []c11Seen
}

func (sc *c11Scripted) reset(script []c11Reply) {
	sc.mu.Lock()
	sc.script, sc.seen = script, nil
	sc.mu.Unlock()
}

func (sc *c11Scripted) RoundTrip(q *http.Request) (*http.Response, error) {
	sc.mu.Lock()
	defer sc.mu.Unlock()
	k := len(sc.seen)
	var u *url.Userinfo
	if q.URL.User != nil {
		cp := *q.URL.User
		u = &cp
	}
	sc.seen = append(sc.seen, c11Seen{scheme: q.URL.Scheme, host: q.URL.Host, path: q.URL.Path, method: q.Method, hostField: q.Host,
		user: u, hdr: q.Header.Clone(), body: q.Body != nil && q.Body != http.NoBody})
	if q.Body != nil {
		io.Copy(io.Discard, q.Body)
		q.Body.Close()
	}
	resp := &http.Response{StatusCode: 200, Proto: "HTTP/1.1", ProtoMajor: 1, ProtoMinor: 1, Header: http.Header{}, Body: http.NoBody, Request: q}
	if k < len(sc.script) {
		rp := sc.script[k]
		resp.StatusCode = rp.status
		if rp.loc.kind != "missing" {
			resp.Header.Set("Location", rp.loc.text())
		}
		for _, c := range rp.cookies {
			resp.Header.Add("Set-Cookie", c[0]+"="+c[1]+"; Path=/")
		}
	}
	resp.Status = strconv.Itoa(resp.StatusCode) + " " + http.StatusText(resp.StatusCode)
	return resp, nil
}

var c11CookieNames = []string{"sid", "tok", "a", "b", "SID"}

var c11BadLocations = []string{"http://example.com:abc/x", "http://[::1/x", "http://a b/", "%zz", "http://host:80x/", "https://[fe80::1%eth0]/x", "http://exa mple/"}

// c11GenScript draws the replies: m redirecting answers over authorities related to a0, then (most
// of the time) a terminal one; every kind of Location; cookies re-set on the way.
func c11GenScript(r *rand.Rand, s *c11Lane, a0 c11Auth, m int, gen func() c11Auth, vary func(c11Auth) c11Auth) []c11Reply {
	var rs []c11Reply
	for k := 0; k < m; k++ {
		rp := c11Reply{status: verifh.Pick(r, []int{301, 302, 302, 303, 307, 308})}
		if r.Intn(25) == 0 {
			rp.status = verifh.Pick(r, []int{200, 204, 300, 304, 305, 306, 404, 500})
		}
		path := "/" + strconv.Itoa(k+1)
		if r.Intn(5) == 0 {
			path = "/" + verifh.RandBytes(r, 1+r.Intn(4), "abcxyz019-_~") + path
		}
		var b c11Auth
		if r.Intn(4) == 0 {
			b = gen()
		} else {
			b = vary(a0)
		}
		var ui *url.Userinfo
		if r.Intn(6) == 0 {
			switch r.Intn(3) {
			case 0: // a username that reads like a host the policy might accept
				ui = url.User(strings.Trim(strings.ToLower(c11OracleHostOf(a0.render())), "[]"))
			case 1:
				ui = url.UserPassword("u"+strconv.Itoa(r.Intn(9)), "pw"+strconv.Itoa(r.Intn(9)))
			default:
				ui = url.User("bob")
			}
			if strings.ContainsAny(ui.String(), "%:") && ui.Username() != "" {
				if _, has := ui.Password(); !has { // keep userinfo to bytes net/url prints verbatim
					ui = url.User("a0.example")
				}
			}
		}
		switch k := r.Intn(20); {
		case k < 11:
			rp.loc = c11Loc{kind: "abs", scheme: verifh.Pick(r, []string{"http", "http", "http", "https"}), user: ui, host: b.render(), path: path}
		case k < 14:
			rp.loc = c11Loc{kind: "path", path: path}
		case k < 17:
			rp.loc = c11Loc{kind: "net", user: ui, host: b.render(), path: path}
		case k == 17:
			rp.loc = c11Loc{kind: "abs", scheme: "http", host: verifh.Pick(r, []string{"", ":80", ":"}), path: path}
			s.Count("loc:empty-host")
		case k == 18:
			rp.loc = c11Loc{kind: "bad", bad: verifh.Pick(r, c11BadLocations)}
		default:
			rp.loc = c11Loc{kind: "missing"}
		}
		if r.Intn(3) == 0 {
			for j := 1 + r.Intn(2); j > 0; j-- {
				rp.cookies = append(rp.cookies, [2]string{verifh.Pick(r, c11CookieNames), "s" + strconv.Itoa(r.Intn(50))})
			}
		}
		rs = append(rs, rp)
	}
	if r.Intn(4) != 0 {
		rs = append(rs, c11Reply{status: verifh.Pick(r, []int{200, 200, 204, 404}), loc: c11Loc{kind: "missing"}})
	}
	return rs
}

func c11NewJar() http.CookieJar {
	j, _ := cookiejar.New(&cookiejar.Options{PublicSuffixList: publicsuffix.List})
	return j
}

// TestVerif_C11_loop: the whole hop loop against model Loop.apiStart / Loop.start.
func TestVerif_C11_loop(t *testing.T) {
	s := c11New(t, "loop",
		"real client, request built by R()…Send (headers incl. Host override at request or client level, raw-key headers, cookies at both levels, explicit Referer, userinfo, body) or handed to the http.Client directly (kind raw: arbitrary Host field, several Cookie lines, body without GetBody, no jar), policies set directly / through Clone families / on a client reused from the previous case; transport = scripted round-trip wrapper: chains of 0..limit+1 replies with status 301/302/303/307/308 (and non-redirect codes), Location absolute/network-path/path-only/unparsable/missing/empty-host with userinfo and https, Set-Cookie re-setting initial cookie names; compared with the model: how the call ended, every request the transport got (scheme, userinfo, URL.Host, path, method, Host field, body, header values incl. Referer/Cookie/Authorization derived from userinfo); oracle: no request beyond the hops every policy allows by URL host, Host field never carried across an absolute Location, client-supplied sensitive headers absent after a cross-domain hop unless AlwaysCopy lists them; non-trivial = ≥1 redirect scripted")
	r := s.Rand()
	sc := &c11Scripted{}
	c := C().SetProxy(nil).SetLogger(nil)
	c.Transport.WrapRoundTripFunc(func(rt http.RoundTripper) HttpRoundTripFunc { return sc.RoundTrip })
	hdrPool := []string{"Authorization", "Cookie", "Cookie2", "X-Custom", "X-Multi", "Www-Authenticate", "Referer"}
	probes := []string{"Authorization", "Cookie", "Cookie2", "X-Custom", "X-Multi", "Www-Authenticate", "Referer", "Host"}
	var prevCl *Client
	var prevPs []c11Pol
	var prevFam, prevScen string
	n := verifh.N(6000, 120000)
	for i := 0; i < n; i++ {
		gen := func() c11Auth {
			for {
				a := c11GenAuth(r, false)
				if _, ok := c11OracleHost(a.render()); ok && a.wf && a.rfc {
					return a
				}
			}
		}
		vary := func(a c11Auth) c11Auth {
			for {
				b := c11Vary(r, a, false)
				if _, ok := c11OracleHost(b.render()); ok && b.wf && b.rfc {
					return b
				}
			}
		}
		a0 := gen()
		limit := 1 + r.Intn(4)
		var ps []c11Pol
		switch r.Intn(6) {
		case 0:
			ps = []c11Pol{{kind: "max", n: limit}}
		case 1:
			ps = append(c11GenPols(r, []c11Auth{a0}, limit, hdrPool), c11Pol{kind: "max", n: limit})
		default:
			ps = c11GenPols(r, []c11Auth{a0}, limit, hdrPool)
		}
		m := r.Intn(limit + 2)
		script := c11GenScript(r, s, a0, m, gen, vary)
		reuse := prevCl != nil && r.Intn(3) == 0
		if !reuse && r.Intn(2) == 0 { // let allowed-lists admit some of the scripted hosts
			for j := range ps {
				if (ps[j].kind == "ahost" || ps[j].kind == "adomain") && len(script) > 0 {
					if l := script[r.Intn(len(script))].loc; l.host != "" {
						ps[j].list = append(ps[j].list, l.host)
					}
				}
			}
		}
		// ---- which client
		cl, fam, scen := c, "", ""
		switch {
		case reuse:
			cl, ps, fam, scen = prevCl, prevPs, prevFam, prevScen
			s.Count("reused-client")
		case r.Intn(3) == 0:
			f := c11NewFamily(c, nil)
			f.set(0, c11GenPols(r, []c11Auth{a0}, limit, hdrPool))
			f.grow(r, func() []c11Pol {
				if r.Intn(2) == 0 {
					return ps
				}
				return c11GenPols(r, []c11Auth{a0}, limit, hdrPool)
			})
			var j int
			if f.shared {
				s.Count("args:clients-from-caller-owned-array")
			}
			j, scen = f.pick(r)
			cl, ps = f.clients[j], f.want[j]
			fam = "c11fam " + f.encOps() + " " + strconv.Itoa(j) + " "
			s.Count(scen)
			scen = f.show(j) + " ; "
		default:
			real := make([]RedirectPolicy, len(ps))
			for j, p := range ps {
				real[j] = p.real()
			}
			c.SetRedirectPolicy(real...)
			s.Count("direct")
		}
		prevCl, prevPs, prevFam, prevScen = cl, ps, fam, scen
		pols := c11EncPols(ps)
		if fam != "" {
			pols = "" // the family lane resolves them
		}
		for _, b := range c11DegBuckets(ps) {
			s.Count(b)
		}
		for _, p := range ps {
			s.Count("pol:" + p.kind)
		}
		cl.DebugLog = r.Intn(4) == 0
		jarOn := r.Intn(8) != 0
		if jarOn {
			cl.httpClient.Jar = c11NewJar()
		} else {
			cl.httpClient.Jar = nil
			s.Count("no-jar")
		}
		// ---- the initial request
		scheme := verifh.Pick(r, []string{"http", "http", "http", "https"})
		method := verifh.Pick(r, c11Methods)
		var ui *url.Userinfo
		if r.Intn(6) == 0 {
			ui = url.UserPassword("me", "secret"+strconv.Itoa(r.Intn(9)))
			s.Count("initial-userinfo")
		}
		var ih [][2]string // request header map entries in order
		for _, k := range hdrPool {
			key := k
			if r.Intn(12) == 0 {
				key = strings.ToLower(k) // raw (non-canonical) map key
				s.Count("raw-header-key")
			}
			switch x := r.Intn(6); {
			case x < 2:
			case x == 2 && k == "X-Multi":
				ih = append(ih, [2]string{key, "m1"}, [2]string{key, "m2"})
			case k == "Cookie":
				ih = append(ih, [2]string{key, verifh.Pick(r, c11CookieNames) + "=c" + strconv.Itoa(r.Intn(50))})
				if r.Intn(3) == 0 {
					ih[len(ih)-1][1] += "; " + verifh.Pick(r, c11CookieNames) + "=d" + strconv.Itoa(r.Intn(50))
				}
			case k == "Referer":
				if x == 3 {
					ih = append(ih, [2]string{key, "http://ref.example/from"})
					s.Count("explicit-referer")
				}
			default:
				ih = append(ih, [2]string{key, "tok-" + strconv.Itoa(r.Intn(100))})
			}
		}
		hostOv := ""
		if r.Intn(3) == 0 {
			switch k := r.Intn(4); {
			case k < 2 && len(script) > 0 && script[0].loc.host != "":
				hostOv = script[0].loc.host
			case k == 2:
				hostOv = vary(a0).render()
			default:
				hostOv = gen().render()
			}
		}
		withBody := r.Intn(3) == 0
		raw := r.Intn(4) == 0
		host0 := a0.render()
		path0 := "/0"
		outcome, line := "", ""
		var respStatus int
		var err error
		sc.reset(script)
		if raw {
			// hand the request to the http.Client directly: fields the API cannot produce
			s.Count("kind:raw")
			hc := *cl.httpClient
			hc.Transport = sc
			q := &http.Request{Method: method, URL: &url.URL{Scheme: scheme, User: ui, Host: host0, Path: path0}, Header: http.Header{},
				Proto: "HTTP/1.1", ProtoMajor: 1, ProtoMinor: 1}
			switch r.Intn(3) {
			case 0:
				q.Host = host0
			case 1:
				q.Host = hostOv
			}
			if q.Host != "" && q.Host != host0 {
				s.Count("host-override")
			}
			if r.Intn(3) == 0 { // a second Cookie line
				ih = append(ih, [2]string{"Cookie", verifh.Pick(r, c11CookieNames) + "=e" + strconv.Itoa(r.Intn(50))})
				s.Count("raw:two-cookie-lines")
			}
			for _, kv := range ih {
				q.Header[kv[0]] = append(q.Header[kv[0]], kv[1])
			}
			getBody := false
			if withBody {
				q.Body = io.NopCloser(bytes.NewReader([]byte("payload")))
				q.ContentLength = 7
				if r.Intn(2) == 0 {
					getBody = true
					q.GetBody = func() (io.ReadCloser, error) { return io.NopCloser(bytes.NewReader([]byte("payload"))), nil }
				} else {
					s.Count("raw:body-without-getbody")
				}
			}
			cfg := c11Bit(jarOn) + c11Bit(getBody) + c11Bit(!withBody)
			line = fam + "c11loop " + pols + " " + cfg + " " + c11EncReq(q) + " " + c11EncHeaders(ih) + " " + c11EncScript(script) + " " + verifh.HexList(probes)
			line = strings.Replace(line, "  ", " ", 1)
			var resp *http.Response
			if p, bad := verifh.Safely(func() { resp, err = hc.Do(q) }); bad {
				s.Crash(line, scen+c11ShowPols(ps), p, "")
				continue
			}
			if resp != nil {
				respStatus = resp.StatusCode
				resp.Body.Close()
			}
		} else {
			s.Count("kind:api")
			rq := cl.R()
			rq.Headers = http.Header{}
			for _, kv := range ih {
				rq.Headers[kv[0]] = append(rq.Headers[kv[0]], kv[1])
			}
			var ch [][2]string
			var rc, cc [][2]string
			if hostOv != "" {
				if r.Intn(2) == 0 {
					rq.Headers["Host"] = []string{hostOv}
					ih = append(ih, [2]string{"Host", hostOv})
					s.Count("host-override:request")
				} else {
					ch = append(ch, [2]string{"Host", hostOv})
					s.Count("host-override:client")
				}
				s.Count("host-override")
			}
			if r.Intn(4) == 0 { // common headers: fill only what the request leaves unset
				for _, k := range []string{"Authorization", "X-Custom", "X-Common"} {
					if r.Intn(2) == 0 {
						ch = append(ch, [2]string{k, "common-" + strconv.Itoa(r.Intn(9))})
					}
				}
				s.Count("common-headers")
			}
			if len(ch) > 0 {
				cl.Headers = http.Header{}
				for _, kv := range ch {
					cl.Headers[kv[0]] = append(cl.Headers[kv[0]], kv[1])
				}
			}
			if r.Intn(3) == 0 {
				for j := 1 + r.Intn(2); j > 0; j-- {
					kv := [2]string{verifh.Pick(r, c11CookieNames), "r" + strconv.Itoa(r.Intn(50))}
					rc = append(rc, kv)
					rq.SetCookies(&http.Cookie{Name: kv[0], Value: kv[1]})
				}
				s.Count("request-cookies")
			}
			if r.Intn(5) == 0 {
				kv := [2]string{verifh.Pick(r, c11CookieNames), "k" + strconv.Itoa(r.Intn(50))}
				cc = append(cc, kv)
				cl.Cookies = []*http.Cookie{{Name: kv[0], Value: kv[1]}}
				s.Count("client-cookies")
			}
			if withBody {
				rq.SetBodyBytes([]byte("payload"))
				rq.Headers["Content-Type"] = []string{"text/plain"}
			}
			u0 := &url.URL{Scheme: scheme, User: ui, Host: c11URLHost(host0), Path: path0}
			target := scheme + "://"
			if ui != nil {
				target += ui.String() + "@"
			}
			target += c11URLHost(host0) + path0
			baseURL := false
			if ui == nil && r.Intn(6) == 0 { // the host comes from the client's BaseURL
				cl.SetBaseURL(scheme + "://" + c11URLHost(host0))
				target = path0
				baseURL = true
				s.Count("url-from-baseurl")
			}
			_ = u0
			q0 := &http.Request{Method: method, URL: &url.URL{Scheme: scheme, User: ui, Host: host0, Path: path0}}
			if withBody {
				q0.Body = io.NopCloser(bytes.NewReader(nil))
			}
			allowGet := true
			if r.Intn(6) == 0 {
				allowGet = false
				s.Count("get-payload-forbidden")
			}
			cl.AllowGetMethodPayload = allowGet
			line = fam + "c11api " + pols + " " + c11Bit(jarOn) + c11Bit(allowGet) + " " + c11EncReq(q0) + " " + c11EncHeaders(ih) + " " + c11EncCookies(rc) + " " +
				c11EncHeaders(ch) + " " + c11EncCookies(cc) + " " + c11EncScript(script) + " " + verifh.HexList(probes)
			line = strings.Replace(line, "  ", " ", 1)
			var resp *Response
			p, bad := verifh.Safely(func() { resp, err = rq.Send(method, target) })
			cl.Headers, cl.Cookies, cl.AllowGetMethodPayload = nil, nil, true
			if baseURL {
				cl.BaseURL = ""
			}
			if bad {
				s.Crash(line, scen+c11ShowPols(ps), p, "")
				continue
			}
			if resp != nil && resp.Response != nil {
				respStatus = resp.StatusCode
			}
			if strings.HasSuffix(host0, ":") {
				s.Count("host0-normalised-by-client")
			}
		}
		switch {
		case err == nil:
			outcome = "resp:" + strconv.Itoa(respStatus)
		default:
			outcome = "error:" + strings.ReplaceAll(err.Error(), " ", "_")
			if ue, ok := err.(*url.Error); ok {
				msg := ue.Err.Error()
				if strings.HasPrefix(msg, "failed to parse Location header") {
					outcome = "badloc"
				}
				for _, pre := range []string{"stopped after", "different domain name", "different host name", "redirect host", "redirect domain"} {
					if strings.HasPrefix(msg, pre) {
						outcome = "refused:" + strconv.Itoa(respStatus)
					}
				}
			}
		}
		sc.mu.Lock()
		seen := append([]c11Seen(nil), sc.seen...)
		sc.mu.Unlock()
		encSeen := make([]string, len(seen))
		for k, q := range seen {
			encSeen[k] = q.enc(probes)
		}
		ans := outcome + " " + strconv.Itoa(len(seen)) + " " + strings.Join(encSeen, ";")

		// ---- independent oracle (what the property says, not how the loop works)
		ok, detail := c11LoopOracle(ps, seen, script, ih)
		s.Count("hops-scripted:" + strconv.Itoa(m))
		s.Count("outcome:" + strings.SplitN(outcome, ":", 2)[0])
		for k, rp := range script {
			if k < len(seen) {
				s.Count("status:" + strconv.Itoa(rp.status))
				s.Count("loc:" + rp.loc.kind)
				if rp.loc.user != nil {
					s.Count("loc:userinfo")
				}
				if len(rp.cookies) > 0 {
					s.Count("set-cookie-on-reply")
				}
			}
		}
		for k := 1; k < len(seen); k++ {
			if seen[k].hostField != "" {
				s.Count("host-field-kept-on-relative-redirect")
			}
			if seen[k].body {
				s.Count("body-resent")
			}
			if seen[k].method != seen[0].method {
				s.Count("method-rewritten")
			}
			if seen[k].scheme != seen[k-1].scheme {
				s.Count("scheme-change")
			}
		}
		human := scen + c11ShowPols(ps) + " " + method + " " + scheme + "://" + host0 + path0
		if hostOv != "" {
			human += " Host-override=" + hostOv
		}
		var ss []string
		for _, rp := range script {
			ss = append(ss, rp.String())
		}
		human += " script=[" + strings.Join(ss, " ; ") + "] => " + outcome + " sent=" + strconv.Itoa(len(seen))
		if detail != "" {
			human += " [" + detail + "]"
		}
		s.Case(line, ans, ok, "", m > 0, human)
	}
	s.FinishRequire("kind:api", "kind:raw", "direct", "reused-client", "family:original", "family:set-on-clone", "family:clone-inherits",
		"family:clone-of-clone-inherits", "family:clone-inherits,parent-reconfigured-later", "args:clients-from-caller-owned-array",
		"outcome:resp", "outcome:refused", "outcome:badloc", "status:301", "status:302", "status:303", "status:307", "status:308",
		"loc:abs", "loc:net", "loc:path", "loc:bad", "loc:missing", "loc:userinfo", "loc:empty-host", "set-cookie-on-reply",
		"host-override", "host-override:request", "host-override:client", "host-field-kept-on-relative-redirect", "body-resent", "method-rewritten",
		"scheme-change", "no-jar", "initial-userinfo", "raw-header-key", "explicit-referer", "request-cookies", "client-cookies", "common-headers",
		"raw:two-cookie-lines", "raw:body-without-getbody", "get-payload-forbidden", "url-from-baseurl", "host0-normalised-by-client",
		"pol:copy", "pol:samehost", "pol:samedomain", "pol:ahost", "pol:adomain", "pol:no", "pol:nil", "pol:max")
}

func c11Bit(b bool) string {
	if b {
		return "1"
	}
	return "0"
}

// c11LoopOracle states the property on what the transport saw, independently of the loop model:
//   - request k+1 exists only if every policy allows its URL host given the URL hosts of requests 0..k;
//   - a Host field different from the URL host appears on a redirected request only when the
//     Location that led to it was not absolute (no scheme);
//   - once some hop left the first host's domain (Go's rule), Authorization / Www-Authenticate /
//     Cookie2 values the caller supplied are gone unless an AlwaysCopy policy lists the header.
func c11LoopOracle(ps []c11Pol, seen []c11Seen, script []c11Reply, ih [][2]string) (bool, string) {
	hosts := make([]string, len(seen))
	for k, q := range seen {
		hosts[k] = q.host
	}
	for k := 1; k < len(seen); k++ {
		if _, okh := c11OracleHost(hosts[k]); !okh && hosts[k] != "" && !strings.HasPrefix(hosts[k], ":") {
			continue // outside what the oracle defines
		}
		if d := c11Decide(ps, hosts[k], hosts[:k], c11LooseHostOf, c11LooseDomainOf); d != 0 {
			return false, "request " + strconv.Itoa(k) + " went to " + hosts[k] + " which the policies refuse"
		}
		if seen[k].hostField != "" && seen[k].hostField != seen[k].host && k-1 < len(script) && script[k-1].loc.kind == "abs" {
			return false, "Host field " + seen[k].hostField + " carried across an absolute Location"
		}
	}
	listed := func(key string) bool {
		for _, p := range ps {
			if p.kind == "copy" {
				for _, h := range p.list {
					if textproto.CanonicalMIMEHeaderKey(h) == key {
						return true
					}
				}
			}
		}
		return false
	}
	stripped := false
	for k := 1; k < len(seen); k++ {
		h0 := (&url.URL{Host: hosts[0]}).Hostname()
		hk := (&url.URL{Host: hosts[k]}).Hostname()
		if hosts[k] != hosts[0] && !c11IsDomainOrSub(hk, h0) {
			stripped = true
		}
		if !stripped {
			continue
		}
		for _, key := range []string{"Authorization", "Www-Authenticate", "Cookie2"} {
			if listed(key) {
				continue
			}
			for _, v := range c11WireValues(seen[k].hdr, key) {
				if key == "Authorization" && seen[k].user != nil && strings.HasPrefix(v, "Basic ") {
					continue // derived from the userinfo of THIS hop's URL, not the caller's header
				}
				return false, "request " + strconv.Itoa(k) + " to " + hosts[k] + " carries " + key + "=" + v + " after a cross-domain hop"
			}
		}
	}
	return true, ""
}

// The oracle's host functions on authorities net/url would not print back verbatim (empty host).
func c11LooseHostOf(s string) string {
	if h, ok := c11OracleHost(s); ok {
		return h
	}
	return strings.ToLower((&url.URL{Host: s}).Hostname())
}
func c11LooseDomainOf(s string) string { return c11OracleDomain(c11LooseHostOf(s)) }

// TestVerif_C11_alt ties Loop.convertHost to altsvcutil.ConvertURL — the only place where the
// Alt-Svc machinery computes another authority for a request — and checks what keeps the policies'
// view intact: ConvertURL returns a COPY and leaves the URL it was given alone.
func TestVerif_C11_alt(t *testing.T) {
	s := c11New(t, "alt",
		"altsvcutil.ConvertURL(entry, url) on RFC authorities (names, IPv4, bracketed IPv6 with/without zone and port, empty port) x Alt-Svc entries whose host is empty / the origin's hostname in another case / a relative / unrelated and whose port is empty / the origin's / another: URL.Host of the result vs model convertHost; oracle: the input URL is not modified and the result is a different object; non-trivial = entry changes host or port")
	r := s.Rand()
	n := verifh.N(4000, 100000)
	for i := 0; i < n; i++ {
		var a c11Auth
		for {
			a = c11GenAuth(r, false)
			if _, ok := c11OracleHost(a.render()); ok && a.wf && a.rfc {
				break
			}
		}
		host := a.render()
		scheme := verifh.Pick(r, []string{"https", "https", "http"})
		h0, p0, err := net.SplitHostPort(host)
		if err != nil {
			h0, p0 = host, map[string]string{"http": "80", "https": "443"}[scheme]
		}
		// AltSvc.Host as altsvcutil.ParseHeader produces it: an IPv6 literal WITHOUT its brackets
		h0 = strings.TrimSuffix(strings.TrimPrefix(h0, "["), "]")
		as := &altsvc.AltSvc{Protocol: "h2"}
		switch r.Intn(5) {
		case 0:
		case 1:
			as.Host = h0
		case 2:
			as.Host = c11FlipCase(r, h0)
		case 3:
			as.Host = strings.Trim(c11OracleHostOf(c11Vary(r, a, false).render()), "[]")
		default:
			as.Host = verifh.Pick(r, []string{"alt.example", "10.9.8.7", "::9", "cdn.evil.test"})
		}
		switch r.Intn(4) {
		case 0:
		case 1:
			as.Port = p0
		default:
			as.Port = verifh.Pick(r, []string{"443", "8443", "80", "1", "65535"})
		}
		u := &url.URL{Scheme: scheme, Host: host, Path: "/p"}
		before := *u
		var out *url.URL
		if p, bad := verifh.Safely(func() { out = altsvcutil.ConvertURL(as, u) }); bad {
			s.Crash("c11alt "+c11EncScheme(scheme)+" "+verifh.Hex(host), host, p, "")
			continue
		}
		ok := out != u && *u == before
		changed := out.Host != host
		// the code before fixes/C11-3, verbatim: a port-less bracketed literal kept its brackets as "host"
		class := ""
		if legacy := c11ConvertHostCopy(as, scheme, host, false); out.Host == legacy && legacy != c11ConvertHostCopy(as, scheme, host, true) {
			class = "altsvc-ipv6-portless-origin"
			s.Count("legacy-portless-ipv6-origin")
			if strings.HasPrefix(legacy, "[[") {
				s.Count("legacy-double-bracket")
			}
		}
		if changed {
			s.Count("converted")
		} else {
			s.Count("kept")
		}
		s.Case("c11alt "+c11EncScheme(scheme)+" "+verifh.Hex(host)+" "+verifh.Hex(as.Host)+" "+verifh.Hex(as.Port),
			verifh.Hex(out.Host), ok, class, changed, scheme+"://"+host+" + alt-svc "+as.Host+":"+as.Port+" -> "+out.Host)
	}
	s.FinishRequire("converted", "kept")
}

// c11ConvertHostCopy: altsvcutil.ConvertURL over netutil.AuthorityHostPort as they were before
// (fixed=false) and are after (fixed=true) fixes/C11-3. Used ONLY to recognise exactly the known
// pre-fix behaviour on the inputs where the two differ (port-less bracketed origin); never as an oracle.
func c11ConvertHostCopy(a *altsvc.AltSvc, scheme, authority string, fixed bool) string {
	host, port, err := net.SplitHostPort(authority)
	if err != nil {
		port = "443"
		if scheme == "http" {
			port = "80"
		}
		host = authority
		if fixed && strings.HasPrefix(host, "[") && strings.HasSuffix(host, "]") {
			host = host[1 : len(host)-1]
		}
	}
	modify := false
	if a.Host != "" && a.Host != host {
		host, modify = a.Host, true
	}
	if a.Port != "" && a.Port != port {
		port, modify = a.Port, true
	}
	if modify {
		return net.JoinHostPort(host, port)
	}
	return authority
}
