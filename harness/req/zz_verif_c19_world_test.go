//go:build verif

package req

// C19 harness, shared part: a recording origin, indexed pools of names / values / closures,
// the executor of API programs on real clients, canonicalisation of what the origin received
// into the text the Lean driver prints (lean/Req/Driver/L/C19.lean), and the in-package
// detectors that class the five known findings.

import (
	"bytes"
	"crypto/ecdsa"
	"crypto/elliptic"
	crand "crypto/rand"
	"crypto/tls"
	"crypto/x509"
	"crypto/x509/pkix"
	"encoding/asn1"
	"encoding/pem"
	"encoding/xml"
	"fmt"
	"io"
	"math/big"
	"net/http"
	"net/http/cookiejar"
	"net/http/httptest"
	urlpkg "net/url"
	"sort"
	"strconv"
	"strings"
	"sync"
	"time"

	"github.com/imroc/req/v3/http2"
	"github.com/imroc/req/v3/internal/header"
)

type c19Seen struct {
	method, path, rawQuery, body string
	header                       http.Header
	close                        bool
}

type c19Owner struct {
	isReq  bool
	c      *Client
	r      *Request
	parent int
	used   bool
}

type c19World struct {
	srv      *httptest.Server
	srvURL   *urlpkg.URL
	mu       sync.Mutex
	seen     []c19Seen
	log      []string
	probing  bool
	probeOut []int
	cur      *Request
	bufs     [4]*bytes.Buffer
	owners   []*c19Owner
	rootPEM  map[int]string
	class    string
	hist     map[string]int
	onRetry  func(r *Request) // lane reqset: what the client-level before-request middleware does on a retry attempt
}

const c19RespMark = "RESPBODY-MARK"

func c19NewWorld() *c19World {
	w := &c19World{rootPEM: map[int]string{}, hist: map[string]int{}}
	for i := range w.bufs {
		w.bufs[i] = new(bytes.Buffer)
	}
	w.srv = httptest.NewServer(http.HandlerFunc(func(rw http.ResponseWriter, r *http.Request) {
		b, _ := io.ReadAll(r.Body)
		w.mu.Lock()
		w.seen = append(w.seen, c19Seen{r.Method, r.URL.Path, r.URL.RawQuery, string(b), r.Header.Clone(), r.Close})
		w.mu.Unlock()
		if sc := r.Header.Get("X-Verif-Setcookie"); sc != "" {
			http.SetCookie(rw, &http.Cookie{Name: sc, Value: "1", Path: "/"})
		}
		rw.Header().Set("X-Verif-Resp", "1")
		rw.Write([]byte(c19RespMark))
	}))
	w.srvURL, _ = urlpkg.Parse(w.srv.URL)
	for id := 1; id <= 4; id++ {
		w.rootPEM[id] = c19MakeRoot(id)
	}
	return w
}

func (w *c19World) close() { w.srv.Close() }

// reset drops the clients of the previous program (their idle connections too).
func (w *c19World) reset() {
	for _, o := range w.owners {
		if !o.isReq && o.c != nil {
			o.c.Transport.CloseIdleConnections()
			if o.c.Dump != nil {
				o.c.DisableDumpAll()
			}
		}
	}
	w.owners = nil
	w.class = ""
	for _, b := range w.bufs {
		b.Reset()
	}
}

func c19MakeRoot(id int) string {
	key, _ := ecdsa.GenerateKey(elliptic.P256(), crand.Reader)
	tpl := &x509.Certificate{
		SerialNumber: big.NewInt(int64(1000 + id)), Subject: pkix.Name{CommonName: fmt.Sprintf("root%d", id)},
		NotBefore: time.Now().Add(-time.Hour), NotAfter: time.Now().Add(24 * time.Hour),
		IsCA: true, BasicConstraintsValid: true, KeyUsage: x509.KeyUsageCertSign,
	}
	der, _ := x509.CreateCertificate(crand.Reader, tpl, tpl, &key.PublicKey, key)
	return string(pem.EncodeToMemory(&pem.Block{Type: "CERTIFICATE", Bytes: der}))
}

// ------------------------------------------------------------------ names <-> ids

const (
	c19HContentType = 100
	c19HUserAgent   = 101
	c19HAuth        = 102
)

func c19HeaderName(k int) string {
	switch {
	case k == c19HContentType:
		return "Content-Type"
	case k == c19HUserAgent:
		return "User-Agent"
	case k == c19HAuth:
		return "Authorization"
	case k >= 7 && k <= 9:
		return fmt.Sprintf("x-n%d", k) // only ever set through the NonCanonical setters
	default:
		return fmt.Sprintf("X-K%d", k)
	}
}

var c19HeaderIDs = []int{1, 2, 3, 4, 5, 6, 7, 8, 9, 100, 101, 102}

// c19VEmpty is the id of the EMPTY header value (Scope.vEmpty).
const c19VEmpty = 7

func c19HeaderValue(v int) string {
	if v == c19VEmpty {
		return ""
	}
	if v >= 2000 {
		return fmt.Sprintf("Bearer tok%d", v-2000)
	}
	switch v {
	case c19VCtXML:
		return "text/xml; charset=utf-8"
	case c19VCtJSON:
		return header.JsonContentType
	}
	return fmt.Sprintf("v%d", v)
}

// round 7: content types that pick the marshaller of SetBody(struct) (Scope.vCtXml / vCtJson) and
// the first body id that is a value to marshal (Scope.marshalFrom).
const (
	c19VCtXML      = 903
	c19VCtJSON     = 904
	c19MarshalFrom = 10
)

type c19MarshalUser struct {
	XMLName xml.Name `xml:"user" json:"-"`
	Name    string   `xml:"name" json:"name"`
}

// c19MarshalBody gives body id b (>= c19MarshalFrom) to SetBody as a struct, a pointer or a slice.
func c19MarshalBody(q *Request, b, variant int) {
	u := c19MarshalUser{Name: fmt.Sprintf("QQm%d", b)}
	switch variant % 3 {
	case 0:
		q.SetBody(&u)
	case 1:
		q.SetBody(u)
	default:
		q.SetBody([]c19MarshalUser{u})
	}
}

func c19HeaderValueID(s string) int {
	switch {
	case s == "":
		return c19VEmpty
	case s == header.DefaultUserAgent:
		return 900
	case s == "text/plain; charset=utf-8":
		return 901
	case s == header.FormContentType:
		return 902
	case s == "text/xml; charset=utf-8":
		return c19VCtXML
	case s == header.JsonContentType:
		return c19VCtJSON
	case strings.HasPrefix(s, "Bearer tok"):
		return 2000 + c19Num(s[len("Bearer tok"):])
	case strings.HasPrefix(s, "v"):
		return c19Num(s[1:])
	}
	return 99999
}

func c19Num(s string) int {
	n, err := strconv.Atoi(s)
	if err != nil {
		return 99998
	}
	return n
}

func c19SuffixID(s, prefix string) int {
	if !strings.HasPrefix(s, prefix) {
		return 99997
	}
	return c19Num(s[len(prefix):])
}

func c19List(l []int) string {
	if len(l) == 0 {
		return "_"
	}
	out := make([]string, len(l))
	for i, n := range l {
		out[i] = strconv.Itoa(n)
	}
	return strings.Join(out, ".")
}

type c19KV struct {
	k  int
	vs []int
}

func c19Kvs(m []c19KV) string {
	if len(m) == 0 {
		return "_"
	}
	out := make([]string, len(m))
	for i, e := range m {
		out[i] = strconv.Itoa(e.k) + ":" + c19List(e.vs)
	}
	return strings.Join(out, ",")
}

// pairs "k=v&k=v" (already grouped by key, as url.Values.Encode prints them) -> kvs
func c19ParsePairs(s, kp, vp string) []c19KV {
	var out []c19KV
	if s == "" {
		return out
	}
	for _, p := range strings.Split(s, "&") {
		kv := strings.SplitN(p, "=", 2)
		k := c19SuffixID(kv[0], kp)
		v := 99996
		if len(kv) == 2 {
			v = c19SuffixID(kv[1], vp)
		}
		if n := len(out); n > 0 && out[n-1].k == k {
			out[n-1].vs = append(out[n-1].vs, v)
		} else {
			out = append(out, c19KV{k, []int{v}})
		}
	}
	return out
}

func c19CookieID(name string) int {
	switch {
	case strings.HasPrefix(name, "fac"):
		return c19Num(name[3:])
	case strings.HasPrefix(name, "jc"):
		return c19Num(name[2:])
	case strings.HasPrefix(name, "ck"):
		return c19Num(name[2:])
	}
	return 99995
}

func c19CookieName(id int) string { return fmt.Sprintf("ck%d", id%1000) }

// c19Cookie builds the cookie with model id `id`: ids below 1000 are a NAME with the value "1";
// id = 1000*v + n (round 7) is the name of n with the DIFFERENT value "v<v>" — the same cookie
// name set again (a refreshed session id). To the model both are different opaque ids: Go's
// SetCommonCookies / SetCookies append, they never update a cookie of the same name.
func c19Cookie(id int) *http.Cookie {
	if id >= 1000 {
		return &http.Cookie{Name: c19CookieName(id), Value: fmt.Sprintf("v%d", id/1000)}
	}
	return &http.Cookie{Name: c19CookieName(id), Value: "1"}
}

// c19CookieWireID is the model id of a cookie as it is sent / stored: name and value.
func c19CookieWireID(name, value string) int {
	id := c19CookieID(name)
	if strings.HasPrefix(name, "ck") && strings.HasPrefix(value, "v") && len(value) > 1 {
		id += 1000 * c19Num(value[1:])
	}
	return id
}

// ------------------------------------------------------------------ closures with ids

func (w *c19World) ev(tag, id, attempt int) {
	w.log = append(w.log, fmt.Sprintf("%d.%d.%d", tag, id, attempt))
}

func (w *c19World) mkBefore(id int) RequestMiddleware {
	return func(c *Client, r *Request) error {
		if w.probing {
			w.probeOut = append(w.probeOut, id)
			return nil
		}
		w.ev(0, id, r.RetryAttempt)
		return nil
	}
}

func (w *c19World) mkAfter(tag, id int) ResponseMiddleware {
	return func(c *Client, resp *Response) error {
		if w.probing {
			w.probeOut = append(w.probeOut, id)
			return nil
		}
		w.ev(tag, id, resp.Request.RetryAttempt)
		return nil
	}
}

func (w *c19World) mkWrapFunc(id int) RoundTripWrapperFunc {
	return func(rt RoundTripper) RoundTripFunc {
		return func(r *Request) (*Response, error) {
			if w.probing {
				w.probeOut = append(w.probeOut, id)
				return nil, nil
			}
			w.ev(1, id, r.RetryAttempt)
			return rt.RoundTrip(r)
		}
	}
}

func (w *c19World) mkWrap(id int) RoundTripWrapper {
	f := w.mkWrapFunc(id)
	return func(rt RoundTripper) RoundTripper { return f(rt) }
}

func (w *c19World) mkTWrapFunc(id int) HttpRoundTripWrapperFunc {
	return func(rt http.RoundTripper) HttpRoundTripFunc {
		return func(r *http.Request) (*http.Response, error) {
			if w.probing {
				w.probeOut = append(w.probeOut, id)
				return nil, nil
			}
			a := 0
			if w.cur != nil {
				a = w.cur.RetryAttempt
			}
			w.ev(2, id, a)
			return rt.RoundTrip(r)
		}
	}
}

func (w *c19World) mkTWrap(id int) HttpRoundTripWrapper {
	f := w.mkTWrapFunc(id)
	return func(rt http.RoundTripper) http.RoundTripper { return f(rt) }
}

func (w *c19World) mkCond(id int) RetryConditionFunc {
	return func(resp *Response, err error) bool {
		if w.probing {
			w.probeOut = append(w.probeOut, id)
			return false
		}
		a := resp.Request.RetryAttempt
		w.ev(5, id, a)
		return a < id%3
	}
}

func (w *c19World) mkHook(id int) RetryHookFunc {
	return func(resp *Response, err error) {
		if w.probing {
			w.probeOut = append(w.probeOut, id)
			return
		}
		w.ev(6, id, resp.Request.RetryAttempt)
	}
}

func (w *c19World) mkInterval(id int) GetRetryIntervalFunc {
	return func(resp *Response, attempt int) time.Duration {
		if w.probing {
			w.probeOut = append(w.probeOut, id)
			return 0
		}
		w.ev(7, id, attempt)
		return 0
	}
}

func (w *c19World) mkJarFactory(fid int) func() *cookiejar.Jar {
	return func() *cookiejar.Jar {
		jar, _ := cookiejar.New(nil)
		jar.SetCookies(w.srvURL, []*http.Cookie{{Name: fmt.Sprintf("fac%d", fid), Value: "1", Path: "/"}})
		return jar
	}
}

func (w *c19World) mkProxy(id int) func(*http.Request) (*urlpkg.URL, error) {
	return func(r *http.Request) (*urlpkg.URL, error) {
		if r.Header.Get("X-Verif-Probe") != "" {
			return urlpkg.Parse(fmt.Sprintf("http://p%d", id))
		}
		return nil, nil
	}
}

func (w *c19World) mkRedirect(id int) RedirectPolicy {
	return func(r *http.Request, via []*http.Request) error {
		if r.Header.Get("X-Verif-Probe") != "" {
			return fmt.Errorf("pol%d", id)
		}
		return nil
	}
}

// probeIDs runs f in probe mode and returns the ids the closures reported.
func (w *c19World) probeIDs(f func()) []int {
	w.probing, w.probeOut = true, nil
	defer func() { w.probing = false }()
	f()
	return w.probeOut
}

func (w *c19World) wrapperIDs(c *Client) []int {
	return w.probeIDs(func() {
		for _, wr := range c.roundTripWrappers {
			wr(nil).RoundTrip(nil)
		}
	})
}

func (w *c19World) tWrapperIDs(c *Client) []int {
	return w.probeIDs(func() {
		for _, wr := range c.httpRoundTripWrappers {
			wr(nil).RoundTrip(nil)
		}
	})
}

// ------------------------------------------------------------------ scalar settings

type c19Scalar struct {
	id   int
	name string
	vals []int // values a program may set (empty: only the per-field lane uses the setting)
	set  func(w *c19World, c *Client, v int)
	get  func(w *c19World, c *Client) int
}

func c19Bool(b bool) int {
	if b {
		return 1
	}
	return 0
}

func c19ProbeReq() *http.Request {
	r, _ := http.NewRequest("GET", "http://probe.invalid/", nil)
	r.Header.Set("X-Verif-Probe", "1")
	return r
}

var c19B = []int{0, 1}
var c19V = []int{1, 2, 3}

func c19Scalars() []c19Scalar {
	sec := time.Second
	return []c19Scalar{
		{26, "SetBaseURL", c19V, func(w *c19World, c *Client, v int) { c.SetBaseURL(fmt.Sprintf("%s/b%d/", w.srv.URL, v)) },
			func(w *c19World, c *Client) int {
				if c.BaseURL == "" {
					return 0
				}
				return c19SuffixID(c.BaseURL, w.srv.URL+"/b")
			}},
		{27, "AllowGetMethodPayload", c19B, func(w *c19World, c *Client, v int) {
			if v == 1 {
				c.EnableAllowGetMethodPayload()
			} else {
				c.DisableAllowGetMethodPayload()
			}
		}, func(w *c19World, c *Client) int { return c19Bool(c.AllowGetMethodPayload) }},
		{28, "DebugLog", c19B, func(w *c19World, c *Client, v int) {
			if v == 1 {
				c.EnableDebugLog()
			} else {
				c.DisableDebugLog()
			}
		}, func(w *c19World, c *Client) int { return c19Bool(c.DebugLog) }},
		{29, "TraceAll", c19B, func(w *c19World, c *Client, v int) {
			if v == 1 {
				c.EnableTraceAll()
			} else {
				c.DisableTraceAll()
			}
		}, func(w *c19World, c *Client) int { return c19Bool(c.trace) }},
		{30, "DisableAutoReadResponse", c19B, func(w *c19World, c *Client, v int) {
			if v == 1 {
				c.DisableAutoReadResponse()
			} else {
				c.EnableAutoReadResponse()
			}
		}, func(w *c19World, c *Client) int { return c19Bool(c.disableAutoReadResponse) }},
		{31, "SetOutputDirectory", c19V, func(w *c19World, c *Client, v int) { c.SetOutputDirectory(fmt.Sprintf("dir%d", v)) },
			func(w *c19World, c *Client) int {
				if c.outputDirectory == "" {
					return 0
				}
				return c19SuffixID(c.outputDirectory, "dir")
			}},
		{32, "SetScheme", []int{1}, func(w *c19World, c *Client, v int) { c.SetScheme("http") },
			func(w *c19World, c *Client) int { return c19Bool(c.scheme != "") }},
		{33, "SetProxy", c19V, func(w *c19World, c *Client, v int) { c.SetProxy(w.mkProxy(v)) },
			func(w *c19World, c *Client) int {
				if c.Proxy == nil {
					return 0
				}
				u, _ := c.Proxy(c19ProbeReq())
				if u == nil {
					return 0
				}
				return c19SuffixID(u.Host, "p")
			}},
		{34, "DisableKeepAlives", c19B, func(w *c19World, c *Client, v int) {
			if v == 1 {
				c.DisableKeepAlives()
			} else {
				c.EnableKeepAlives()
			}
		}, func(w *c19World, c *Client) int { return c19Bool(c.Transport.Options.DisableKeepAlives) }},
		{35, "DisableCompression", c19B, func(w *c19World, c *Client, v int) {
			if v == 1 {
				c.DisableCompression()
			} else {
				c.EnableCompression()
			}
		}, func(w *c19World, c *Client) int { return c19Bool(c.Transport.Options.DisableCompression) }},
		{36, "AutoDecompress", c19B, func(w *c19World, c *Client, v int) {
			if v == 1 {
				c.EnableAutoDecompress()
			} else {
				c.DisableAutoDecompress()
			}
		}, func(w *c19World, c *Client) int { return c19Bool(c.AutoDecompression) }},
		{37, "SetTLSHandshakeTimeout", c19V, func(w *c19World, c *Client, v int) { c.SetTLSHandshakeTimeout(time.Duration(v) * sec) },
			func(w *c19World, c *Client) int { return int(c.TLSHandshakeTimeout / sec) }},
		{38, "SetMaxIdleConns", c19V, func(w *c19World, c *Client, v int) { c.Transport.SetMaxIdleConns(v) },
			func(w *c19World, c *Client) int { return c.MaxIdleConns }},
		// changing MaxConnsPerHost on a transport that already has connections makes the (net/http-derived)
		// connection accounting panic ("connCount underflow"): not set in programs that execute requests
		{39, "SetMaxConnsPerHost", nil, func(w *c19World, c *Client, v int) { c.Transport.SetMaxConnsPerHost(v) },
			func(w *c19World, c *Client) int { return c.MaxConnsPerHost }},
		{40, "SetIdleConnTimeout", c19V, func(w *c19World, c *Client, v int) { c.Transport.SetIdleConnTimeout(time.Duration(v) * sec) },
			func(w *c19World, c *Client) int { return int(c.IdleConnTimeout / sec) }},
		{41, "SetResponseHeaderTimeout", c19V, func(w *c19World, c *Client, v int) { c.Transport.SetResponseHeaderTimeout(time.Duration(v) * sec) },
			func(w *c19World, c *Client) int { return int(c.ResponseHeaderTimeout / sec) }},
		{42, "SetExpectContinueTimeout", c19V, func(w *c19World, c *Client, v int) { c.Transport.SetExpectContinueTimeout(time.Duration(v) * sec) },
			func(w *c19World, c *Client) int { return int(c.ExpectContinueTimeout / sec) }},
		{43, "SetMaxResponseHeaderBytes", c19V, func(w *c19World, c *Client, v int) { c.Transport.SetMaxResponseHeaderBytes(int64(v) << 16) },
			func(w *c19World, c *Client) int { return int(c.MaxResponseHeaderBytes >> 16) }},
		{44, "SetWriteBufferSize", c19V, func(w *c19World, c *Client, v int) { c.Transport.SetWriteBufferSize(v << 12) },
			func(w *c19World, c *Client) int { return c.WriteBufferSize >> 12 }},
		{45, "SetReadBufferSize", c19V, func(w *c19World, c *Client, v int) { c.Transport.SetReadBufferSize(v << 12) },
			func(w *c19World, c *Client) int { return c.ReadBufferSize >> 12 }},
		{48, "ForceHTTP1", c19B, func(w *c19World, c *Client, v int) {
			if v == 1 {
				c.EnableForceHTTP1()
			} else {
				c.DisableForceHttpVersion()
			}
		}, func(w *c19World, c *Client) int {
			switch c.forceHttpVersion {
			case "":
				return 0
			case h1:
				return 1
			case h2:
				return 2
			}
			return 3
		}},
		{49, "DisableAutoDecode", c19B, func(w *c19World, c *Client, v int) {
			if v == 1 {
				c.DisableAutoDecode()
			} else {
				c.EnableAutoDecode()
			}
		}, func(w *c19World, c *Client) int { return c19Bool(c.disableAutoDecode) }},
		{50, "HTTP3", c19B, func(w *c19World, c *Client, v int) {
			if v == 1 {
				c.EnableHTTP3()
			} else {
				c.DisableHTTP3()
			}
		}, func(w *c19World, c *Client) int { return c19Bool(c.t3 != nil) }},
		{52, "SetHTTP2MaxHeaderListSize", c19V, func(w *c19World, c *Client, v int) { c.SetHTTP2MaxHeaderListSize(uint32(v)) },
			func(w *c19World, c *Client) int { return int(c.t2.MaxHeaderListSize) }},
		{53, "SetHTTP2StrictMaxConcurrentStreams", c19B, func(w *c19World, c *Client, v int) { c.SetHTTP2StrictMaxConcurrentStreams(v == 1) },
			func(w *c19World, c *Client) int { return c19Bool(c.t2.StrictMaxConcurrentStreams) }},
		{54, "SetHTTP2ReadIdleTimeout", c19V, func(w *c19World, c *Client, v int) { c.SetHTTP2ReadIdleTimeout(time.Duration(v) * sec) },
			func(w *c19World, c *Client) int { return int(c.t2.ReadIdleTimeout / sec) }},
		{55, "SetHTTP2PingTimeout", c19V, func(w *c19World, c *Client, v int) { c.SetHTTP2PingTimeout(time.Duration(v) * sec) },
			func(w *c19World, c *Client) int { return int(c.t2.PingTimeout / sec) }},
		{56, "SetHTTP2WriteByteTimeout", c19V, func(w *c19World, c *Client, v int) { c.SetHTTP2WriteByteTimeout(time.Duration(v) * sec) },
			func(w *c19World, c *Client) int { return int(c.t2.WriteByteTimeout / sec) }},
		{57, "SetHTTP2ConnectionFlow", c19V, func(w *c19World, c *Client, v int) { c.SetHTTP2ConnectionFlow(uint32(v)) },
			func(w *c19World, c *Client) int { return int(c.t2.ConnectionFlow) }},
		{58, "SetHTTP2HeaderPriority", c19V, func(w *c19World, c *Client, v int) {
			c.SetHTTP2HeaderPriority(http2.PriorityParam{Weight: uint8(v)})
		}, func(w *c19World, c *Client) int { return int(c.t2.HeaderPriority.Weight) }},
		{59, "SetHTTP2SettingsFrame", c19V, func(w *c19World, c *Client, v int) {
			c.SetHTTP2SettingsFrame(http2.Setting{ID: http2.SettingHeaderTableSize, Val: uint32(v)})
		}, func(w *c19World, c *Client) int {
			if len(c.t2.Settings) == 0 {
				return 0
			}
			return int(c.t2.Settings[0].Val)
		}},
		{60, "SetHTTP2PriorityFrames", c19V, func(w *c19World, c *Client, v int) {
			c.SetHTTP2PriorityFrames(http2.PriorityFrame{StreamID: uint32(v)})
		}, func(w *c19World, c *Client) int {
			if len(c.t2.PriorityFrames) == 0 {
				return 0
			}
			return int(c.t2.PriorityFrames[0].StreamID)
		}},
		{61, "SetTimeout", c19V, func(w *c19World, c *Client, v int) { c.SetTimeout(time.Duration(v) * sec) },
			func(w *c19World, c *Client) int { return int(c.httpClient.Timeout / sec) }},
		{62, "SetRedirectPolicy", c19V, func(w *c19World, c *Client, v int) { c.SetRedirectPolicy(w.mkRedirect(v)) },
			func(w *c19World, c *Client) int {
				if c.httpClient.CheckRedirect == nil {
					return 0
				}
				err := c.httpClient.CheckRedirect(c19ProbeReq(), nil)
				if err == nil {
					return 0
				}
				return c19SuffixID(err.Error(), "pol")
			}},
		{19, "InsecureSkipVerify", c19B, func(w *c19World, c *Client, v int) {
			if v == 1 {
				c.EnableInsecureSkipVerify()
			} else {
				c.DisableInsecureSkipVerify()
			}
		}, func(w *c19World, c *Client) int {
			return c19Bool(c.TLSClientConfig != nil && c.TLSClientConfig.InsecureSkipVerify)
		}},
	}
}

// the three fields EnableH2C / DisableH2C write
func c19H2CState(c *Client) (opt, allow, dial int) {
	return c19Bool(c.Transport.Options.EnableH2C), c19Bool(c.t2.AllowHTTP), c19Bool(c.DialTLSContext != nil)
}

// ------------------------------------------------------------------ probe

func (w *c19World) probe(c *Client) string {
	fields := map[int][]c19KV{}
	put := func(f int, kvs []c19KV) {
		var out []c19KV
		for _, e := range kvs {
			if len(e.vs) == 0 || (len(e.vs) == 1 && e.vs[0] == 0) {
				continue
			}
			out = append(out, e)
		}
		sort.SliceStable(out, func(i, j int) bool { return out[i].k < out[j].k })
		if len(out) > 0 {
			fields[f] = out
		}
	}
	list := func(f int, ids []int) { put(f, []c19KV{{0, ids}}) }
	// 0 headers (exact keys)
	var hk []c19KV
	for _, id := range c19HeaderIDs {
		if vs, ok := c.Headers[c19HeaderName(id)]; ok {
			e := c19KV{k: id}
			for _, v := range vs {
				e.vs = append(e.vs, c19HeaderValueID(v))
			}
			hk = append(hk, e)
		}
	}
	for k := range c.Headers {
		known := false
		for _, id := range c19HeaderIDs {
			if c19HeaderName(id) == k {
				known = true
			}
		}
		if !known {
			hk = append(hk, c19KV{99994, []int{1}})
		}
	}
	put(0, hk)
	var pk []c19KV
	for k, v := range c.PathParams {
		pk = append(pk, c19KV{c19SuffixID(k, "p"), []int{c19SuffixID(v, "y")}})
	}
	put(1, pk)
	vals := func(m urlpkg.Values, kp, vp string) []c19KV {
		var out []c19KV
		for k, vs := range m {
			e := c19KV{k: c19SuffixID(k, kp)}
			for _, v := range vs {
				e.vs = append(e.vs, c19SuffixID(v, vp))
			}
			out = append(out, e)
		}
		return out
	}
	put(2, vals(c.QueryParams, "q", "w"))
	put(3, vals(c.FormData, "QQf", "QQg"))
	var ck []int
	for _, x := range c.Cookies {
		ck = append(ck, c19CookieWireID(x.Name, x.Value))
	}
	list(4, ck)
	list(5, w.probeIDs(func() {
		for _, m := range c.udBeforeRequest {
			m(c, nil)
		}
	}))
	after := []int{}
	for i, m := range c.afterResponse {
		if i < 2 {
			after = append(after, 900+i) // parseResponseBody, handleDownload
			continue
		}
		after = append(after, w.probeIDs(func() { m(c, nil) })...)
	}
	list(6, after)
	list(7, w.wrapperIDs(c))
	list(8, w.tWrapperIDs(c))
	if ro := c.retryOption; ro != nil {
		list(11, w.probeIDs(func() {
			for _, f := range ro.RetryConditions {
				f(nil, nil)
			}
		}))
		list(12, w.probeIDs(func() {
			for _, f := range ro.RetryHooks {
				f(nil, nil)
			}
		}))
		list(13, []int{ro.MaxRetries})
		if ro.GetRetryInterval != nil {
			// the library's own interval functions ignore their arguments except backoff; ours report their id
			list(14, w.probeIDs(func() {
				defer func() { recover() }()
				ro.GetRetryInterval(nil, 1)
			}))
		}
	}
	if cfg := c.TLSClientConfig; cfg != nil {
		var certs []int
		for _, x := range cfg.Certificates {
			if len(x.Certificate) > 0 && len(x.Certificate[0]) > 0 {
				certs = append(certs, int(x.Certificate[0][0]))
			}
		}
		list(17, certs)
		if cfg.RootCAs != nil {
			var roots []int
			for _, s := range cfg.RootCAs.Subjects() { //nolint:staticcheck // not a system pool
				var name pkix.RDNSequence
				if _, err := asn1.Unmarshal(s, &name); err == nil {
					var n pkix.Name
					n.FillFromRDNSequence(&name)
					roots = append(roots, c19SuffixID(n.CommonName, "root"))
				}
			}
			list(18, roots)
		}
	}
	for _, sc := range c19Scalars() {
		list(sc.id, []int{sc.get(w, c)})
	}
	o, a, d := c19H2CState(c)
	list(46, []int{o})
	list(51, []int{a})
	list(47, []int{d})
	ids := make([]int, 0, len(fields))
	for f := range fields {
		ids = append(ids, f)
	}
	sort.Ints(ids)
	if len(ids) == 0 {
		return "P_"
	}
	parts := make([]string, len(ids))
	for i, f := range ids {
		parts[i] = strconv.Itoa(f) + "=" + c19Kvs(fields[f])
	}
	return "P" + strings.Join(parts, ";")
}

// ------------------------------------------------------------------ canonical view of an execution

func c19DumpFlags(s string, w int) string {
	if s == "" {
		return "_"
	}
	fl := []int{w, c19Bool(strings.Contains(s, "\r\nHost: ") || strings.Contains(s, "User-Agent:")), c19Bool(strings.Contains(s, "QQ")),
		c19Bool(strings.Contains(s, "X-Verif-Resp:")), c19Bool(strings.Contains(s, c19RespMark))}
	if fl[1]+fl[2]+fl[3]+fl[4] == 0 {
		return "_"
	}
	return c19List(fl)
}

func (w *c19World) canonReq(s c19Seen) string {
	var segs []string
	base := 0
	for i, p := range strings.Split(strings.Trim(s.path, "/"), "/") {
		switch {
		case p == "":
		case i == 0 && strings.HasPrefix(p, "b"):
			base = c19Num(p[1:])
		case strings.HasPrefix(p, "s"):
			segs = append(segs, "l"+strconv.Itoa(c19Num(p[1:])))
		case strings.HasPrefix(p, "y"):
			segs = append(segs, "v"+strconv.Itoa(c19Num(p[1:])))
		case strings.HasPrefix(p, "{p") && strings.HasSuffix(p, "}"):
			segs = append(segs, "u"+strconv.Itoa(c19Num(p[2:len(p)-1])))
		default:
			segs = append(segs, "?"+p)
		}
	}
	path := "_"
	if len(segs) > 0 {
		path = strings.Join(segs, ".")
	}
	var hk []c19KV
	for _, id := range c19HeaderIDs {
		name := http.CanonicalHeaderKey(c19HeaderName(id))
		if vs := s.header[name]; len(vs) > 0 {
			e := c19KV{k: id}
			for _, v := range vs {
				e.vs = append(e.vs, c19HeaderValueID(v))
			}
			hk = append(hk, e)
		}
	}
	var cookies []int
	for _, ck := range (&http.Request{Header: s.header}).Cookies() {
		cookies = append(cookies, c19CookieWireID(ck.Name, ck.Value))
	}
	body := "n"
	switch {
	case s.body == "":
	case strings.HasPrefix(s.body, "QQbody"):
		body = "r" + strconv.Itoa(c19Num(s.body[len("QQbody"):]))
	case strings.Contains(s.body, "QQm"):
		// a marshalled value: {"name":"QQm12"} / [{"name":"QQm12"}] (JSON), <user><name>QQm12</name></user> (XML)
		t := strings.TrimSuffix(strings.TrimPrefix(s.body, "["), "]")
		switch {
		case strings.HasPrefix(t, `{"name":"QQm`) && strings.HasSuffix(t, `"}`):
			body = "j" + strconv.Itoa(c19Num(t[len(`{"name":"QQm`):len(t)-2]))
		case strings.HasPrefix(t, "<user><name>QQm") && strings.HasSuffix(t, "</name></user>"):
			body = "x" + strconv.Itoa(c19Num(t[len("<user><name>QQm"):len(t)-len("</name></user>")]))
		default:
			body = "?" + s.body
		}
	default:
		body = "f" + c19Kvs(c19ParsePairs(s.body, "QQf", "QQg"))
	}
	ae := 9
	switch s.header.Get("Accept-Encoding") {
	case "":
		ae = 0
	case "gzip":
		ae = 1
	}
	m := map[string]int{"GET": 0, "POST": 1, "HEAD": 2}[s.method]
	return fmt.Sprintf("m=%d;b=%d;p=%s;q=%s;h=%s;c=%s;y=%s;x=%d;ae=%d", m, base, path,
		c19Kvs(c19ParsePairs(s.rawQuery, "q", "w")), c19Kvs(hk), c19List(cookies), body, c19Bool(s.close), ae)
}

type c19Seg struct {
	param bool
	n     int
}

func (w *c19World) exec(o *c19Owner, method, mode int, path []c19Seg, setCookie int) string {
	r := o.r
	if setCookie != 0 {
		r.SetHeader("X-Verif-Setcookie", fmt.Sprintf("jc%d", setCookie))
	}
	u := ""
	for _, s := range path {
		if s.param {
			u += fmt.Sprintf("/{p%d}", s.n)
		} else {
			u += fmt.Sprintf("/s%d", s.n)
		}
	}
	if mode == 0 {
		u = w.srv.URL + u
	}
	w.mu.Lock()
	w.seen = nil
	w.mu.Unlock()
	w.log = nil
	var marks [4]int
	for i, b := range w.bufs {
		marks[i] = b.Len()
	}
	w.cur = r
	resp, err := r.Send([]string{"GET", "POST", "HEAD"}[method], u)
	w.cur = nil
	o.used = true
	w.mu.Lock()
	seen := w.seen
	w.mu.Unlock()
	if err != nil || len(seen) == 0 {
		return "err"
	}
	dump := "_"
	grown := 0
	for i := 0; i < len(w.bufs); i++ {
		if w.bufs[i].Len() > marks[i] {
			grown++
			dump = c19DumpFlags(w.bufs[i].String()[marks[i]:], i)
		}
	}
	if grown > 1 {
		dump = "multi"
	}
	logs := "_"
	if len(w.log) > 0 {
		logs = strings.Join(w.log, ",")
	}
	return fmt.Sprintf("E;a=%d;%s;l=%s;d=%s;rd=%s", len(seen), w.canonReq(seen[0]), logs, dump, c19DumpFlags(resp.Dump(), 0))
}

func (w *c19World) getCookies(c *Client) string {
	cs, err := c.GetCookies(w.srv.URL)
	if err != nil {
		return "Gerr"
	}
	var ids []int
	for _, ck := range cs {
		ids = append(ids, c19CookieID(ck.Name))
	}
	return "G" + c19List(ids)
}

// ------------------------------------------------------------------ detectors of the known findings

func (w *c19World) setClass(cl string) {
	if w.class == "" {
		w.class = cl
	}
}

type c19WrapSnap struct {
	c      *Client
	cw, tw []int
}

func (w *c19World) snapWrappers() []c19WrapSnap {
	var out []c19WrapSnap
	for _, o := range w.owners {
		if !o.isReq {
			out = append(out, c19WrapSnap{o.c, w.wrapperIDs(o.c), w.tWrapperIDs(o.c)})
		}
	}
	return out
}

// a Wrap on one client changed the wrapper slice another client sees
func (w *c19World) checkClobber(before []c19WrapSnap, actor *Client) {
	for _, s := range before {
		if s.c == actor {
			continue
		}
		if fmt.Sprint(s.cw) != fmt.Sprint(w.wrapperIDs(s.c)) || fmt.Sprint(s.tw) != fmt.Sprint(w.tWrapperIDs(s.c)) {
			w.setClass("wrapper-slice-alias")
		}
	}
}

func (w *c19World) checkClone(c, cc *Client) {
	if c.t2 != nil && cc.t2 != nil && c.t2.AllowHTTP != cc.t2.AllowHTTP {
		w.setClass("h2c-allowhttp-dropped")
	}
}

// a dump setter is about to change c.dumpOptions in place while c's dumper follows another copy
func (w *c19World) checkDumpLink(c *Client) {
	if c.Dump != nil {
		if o, ok := c.Dump.Options.(dumpOptions); ok && o.DumpOptions != c.dumpOptions {
			w.setClass("dump-options-unlinked")
		}
	}
}

// SetRootCert* / SetCerts is about to write into a pool / backing array another client also uses
func (w *c19World) checkTLSShared(c *Client, certs bool) {
	a := c.TLSClientConfig
	if a == nil {
		return
	}
	for _, o := range w.owners {
		if o.isReq || o.c == c || o.c.TLSClientConfig == nil {
			continue
		}
		b := o.c.TLSClientConfig
		if !certs && a.RootCAs != nil && a.RootCAs == b.RootCAs {
			w.setClass("tls-config-shared")
		}
		if certs && len(a.Certificates) > 0 && len(b.Certificates) > 0 && &a.Certificates[0] == &b.Certificates[0] &&
			cap(a.Certificates) > len(a.Certificates) {
			w.setClass("tls-config-shared")
		}
	}
}

func c19TLSCert(id int) tls.Certificate { return tls.Certificate{Certificate: [][]byte{{byte(id)}}} }
